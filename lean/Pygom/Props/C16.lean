/-
C16 — seeded serial simulations are reproducible.

Property theorems about the executable model `Pygom/Seed.lean` (helper lemmas in Pygom/Lemmas/Seed.lean).
Every stochastic entry point is a function `World → Output × World`, where the world is the pair
(current parameter values of the model object, state of THE generator): there is no other argument a variate could
come from.  `g : Gen σ` is ANY generator ("for all seeds" = for all initial states `σ`), the evaluators / the
integrator are ANY functions ("for all models"), `n` and `fuel` are ANY naturals (no bound on the number of
iterations or on the path length).

In a pure model "same stream ⇒ same output" is congruence.  The content is
  (1) the n runs of one call, and the calls of a history, are chained through the stream state and through nothing
      else (`run_many_threads_stream`, `history_irrelevant`), and with a recorded stream each run consumes the segment
      that follows the previous run's and depends on that segment only (`stream_segments`, `segment_determines_run`);
  (2) the schedule: which requests, with which parameters, in which order (`draw_schedule*`) - this is what the
      harness compares with every call the real code makes into numpy's global generator;
  (3) a draw taken from any other source breaks it (`foreign_source_breaks_counterexample`);
  (4) the reported mean is the mean of the returned list (`mean_is_mean`), which excludes the integration made
      before the loop (`simulate_param_threads_stream`).

"Different seeds change the outputs" is NOT a theorem about all pairs of streams
(`different_streams_same_output_counterexample`).  Proved: two streams whose first consumed waiting times differ give
different paths (`different_first_wait_different_path`, `first_wait_is_min_of_draws`).  That `np.random.seed(s)`,
`np.random.seed(s')` with `s ≠ s'` produce such streams is a statement about numpy's generator: runtime (A), observed on
every generated case with ≥ 20 events.
-/
import Pygom.Lemmas.Seed
import Pygom.Props.C04

set_option linter.unusedSimpArgs false
set_option linter.unnecessarySeqFocus false
set_option linter.unusedVariables false

namespace Pygom.C16
open Pygom Pygom.Stoch Pygom.Seed

/-! ### (1) threading -/

/-- **run_many_threads_stream.**  `n` repetitions of a call `run : World → Output × World`: there are `n` outputs; output
`k` is `run` applied to the world left by the first `k` calls; that world is obtained from the previous one by `run`
(the state after run `k` is the input of run `k+1`); the world after the call is the one after `n` runs; and `n + m`
repetitions are `n` repetitions followed by `m` repetitions started where the first `n` stopped (consecutive
segments, in order).  By induction on `n`: no bound on `n`. -/
theorem run_many_threads_stream {ω α : Type} (run : ω → α × ω) (n : Nat) (w : ω) :
    (runMany run n w).1.length = n ∧
    (∀ k, k < n → (runMany run n w).1[k]? = some (run (after run k w)).1) ∧
    (∀ k, after run (k + 1) w = (run (after run k w)).2) ∧
    (runMany run n w).2 = after run n w ∧
    (∀ m, (runMany run (n + m) w).1 = (runMany run n w).1 ++ (runMany run m (after run n w)).1) :=
  ⟨runMany_length run n w, fun k hk => runMany_getElem? run n k w hk, fun k => after_succ run k w,
   runMany_snd run n w, fun m => runMany_add run n m w⟩

/-- `solve_stochast(T, n, parallel=False)`: path `k` is one `_jump` started in the world the first `k` jumps left -/
theorem solve_stochast_threads_stream {σ : Type} (g : Gen σ) (m : JumpModel) (n : Nat) (w : World σ) :
    (solveStochast g m n w).1.length = n ∧
    (∀ k, k < n → (solveStochast g m n w).1[k]? = some (jumpOnce g m (after (jumpOnce g m) k w)).1) ∧
    (solveStochast g m n w).2 = after (jumpOnce g m) n w :=
  ⟨runMany_length _ n w, fun k hk => runMany_getElem? _ n k w hk, runMany_snd _ n w⟩

/-- `simulate_param(t, n)`: `Y_all[k]` is the integration made in the world left by `k + 1` earlier `integrate`
calls - the `+ 1` is `self._odeSolution = self.integrate(t)` before the loop, which consumes one set of draws and
is NOT part of the returned list -/
theorem simulate_param_threads_stream {σ : Type} (g : Gen σ) (m : ParamModel) (n : Nat) (w : World σ) :
    (simulateParam g m n w).1.Yall.length = n ∧
    (∀ k, k < n → (simulateParam g m n w).1.Yall[k]?
        = some (integrateS g m (after (integrateS g m) (k + 1) w)).1.sol) ∧
    (simulateParam g m n w).1.pre = (integrateS g m w).1.sol ∧
    (simulateParam g m n w).2 = after (integrateS g m) (n + 1) w := by
  refine ⟨by simp [simulateParam, runMany_length], ?_, rfl, ?_⟩
  · intro k hk
    simp only [simulateParam, List.getElem?_map]
    rw [runMany_getElem? _ n k _ hk]
    simp only [Option.map_some]
    rfl
  · simp only [simulateParam]
    rw [runMany_snd]
    rfl

/-- same initial world (same seed, same model object) ⇒ identical outputs and identical world afterwards, for
every `n` (congruence; the point of `run_many_threads_stream` is that nothing else enters) -/
theorem same_stream_same_outputs {σ : Type} (g : Gen σ) (m : JumpModel) (n : Nat) (w w' : World σ) (h : w = w') :
    solveStochast g m n w = solveStochast g m n w' := by rw [h]

theorem same_stream_same_outputs_param {σ : Type} (g : Gen σ) (m : ParamModel) (n : Nat) (w w' : World σ) (h : w = w') :
    simulateParam g m n w = simulateParam g m n w' := by rw [h]

/-! ### histories: what a previous run leaves behind in the model object -/

/-- two parameter vectors that differ at most at positions the stochastic dict assigns -/
def AgreeOutside (spec : PSpec) (cur cur' : List Rat) : Prop :=
  cur.length = cur'.length ∧ ∀ j, j ∉ spec.map Prod.fst → cur[j]? = cur'[j]?

theorem redraw_agree {σ : Type} (g : Gen σ) (spec : PSpec) (cur cur' : List Rat) (st : σ) (h : AgreeOutside spec cur cur') :
    redraw g spec cur st = redraw g spec cur' st := by
  simp only [redraw]; rw [assign_agree spec _ cur cur' h.1 h.2]

/-- a redraw changes the parameter vector only at positions the dict assigns -/
theorem redraw_leaves_agree {σ : Type} (g : Gen σ) (spec : PSpec) (cur : List Rat) (st : σ) :
    AgreeOutside spec cur (redraw g spec cur st).1 :=
  ⟨by simp [redraw, assign_length], fun j hj => by simp only [redraw]; rw [assign_outside _ _ _ j hj]⟩

/-- **history_irrelevant** (stochastic runs).  With fixed parameters a `_jump` does not change the model object; with
stochastic parameters it changes the parameter vector only where the dict assigns, and its outputs (and the world it
leaves) do not depend on what was there before.  So the state a previous run left in the object cannot change the
outcome of a seeded sequence. -/
theorem history_irrelevant {σ : Type} (g : Gen σ) (m : JumpModel) (cur cur' : List Rat) (st : σ) :
    (m.spec = none → (jumpOnce g m (cur, st)).2.1 = cur) ∧
    (∀ sp, m.spec = some sp →
      AgreeOutside sp cur (jumpOnce g m (cur, st)).2.1 ∧
      (AgreeOutside sp cur cur' → jumpOnce g m (cur, st) = jumpOnce g m (cur', st))) := by
  refine ⟨fun h => by simp [jumpOnce, h], fun sp h => ⟨?_, fun ha => ?_⟩⟩
  · simp only [jumpOnce, h]; exact redraw_leaves_agree g sp cur st
  · simp only [jumpOnce, h]; rw [redraw_agree g sp cur cur' st ha]

/-- the same for a whole `solve_stochast` call with stochastic parameters: all `n` outputs agree, and for `n ≥ 1`
so does the world afterwards -/
theorem history_irrelevant_solve_stochast {σ : Type} (g : Gen σ) (m : JumpModel) (sp : PSpec) (hsp : m.spec = some sp)
    (n : Nat) (cur cur' : List Rat) (st : σ) (h : AgreeOutside sp cur cur') :
    (solveStochast g m n (cur, st)).1 = (solveStochast g m n (cur', st)).1 ∧
    (0 < n → (solveStochast g m n (cur, st)).2 = (solveStochast g m n (cur', st)).2) := by
  cases n with
  | zero => simp [solveStochast, runMany]
  | succ n =>
    have := ((history_irrelevant g m cur cur' st).2 sp hsp).2 h
    refine ⟨?_, fun _ => ?_⟩ <;> simp only [solveStochast, runMany, this]

/-- **history_irrelevant** (random-parameter runs): `simulate_param` / `solve_determ` always redraw before the first
integration -/
theorem history_irrelevant_param {σ : Type} (g : Gen σ) (m : ParamModel) (n : Nat) (cur cur' : List Rat) (st : σ)
    (h : AgreeOutside m.spec cur cur') :
    simulateParam g m n (cur, st) = simulateParam g m n (cur', st) ∧
    AgreeOutside m.spec cur (integrateS g m (cur, st)).2.1 := by
  refine ⟨?_, ?_⟩
  · have : integrateS g m (cur, st) = integrateS g m (cur', st) := by
      simp only [integrateS]; rw [redraw_agree g m.spec cur cur' st h]
    simp only [simulateParam, this]
  · simp only [integrateS]; exact redraw_leaves_agree g m.spec cur st

/-! ### the object across calls: what the `parameters` setter records (`Seed.setParams`)

The theorems above take the record `_stochasticParam` as a fixed component of the model.  Across the calls of a session it is
part of the object, written by the setter only.  The statements below say that it - and hence every seeded output - depends
on the LAST assignments only: numbers for all parameters clear it (fix cc23e1d), a dict with distributions replaces it, a
run leaves it alone. -/

/-- numbers for all parameters (list / array / list of pairs): the values are the ones given, the record is cleared and
nothing is drawn - whatever the object held before -/
theorem setter_all_clears {σ : Type} (g : Gen σ) (vs : List Rat) (o : Obj) (st : σ) :
    setParams g (.all vs) o st = (⟨vs, none⟩, st) := rfl

/-- a dict with at least one distribution becomes the record, whatever was recorded before; the assignment consumes one
variate per distribution-valued entry, in dict order, and changes values only at the dict's positions -/
theorem setter_random_dict_records {σ : Type} (g : Gen σ) (d : PSpec) (hd : hasRandom d = true) (o : Obj) (st : σ) :
    (setParams g (.dict d) o st).1.record = some d ∧
    (setParams g (.dict d) o st).2 = (serve g (paramReqs d) st).2 ∧
    AgreeOutside d o.cur (setParams g (.dict d) o st).1.cur := by
  refine ⟨by simp [setParams, hd], by simp [setParams, hd, redraw], ?_⟩
  simp only [setParams, hd, if_true]
  exact redraw_leaves_agree g d o.cur st

/-- a dict of plain numbers draws nothing, changes values only at its own positions, and can only shrink the record -/
theorem setter_number_dict {σ : Type} (g : Gen σ) (d : PSpec) (hd : hasRandom d = false) (o : Obj) (st : σ) :
    (setParams g (.dict d) o st).2 = st ∧
    (setParams g (.dict d) o st).1.record = clearRecord o.record d ∧
    (o.record = none → (setParams g (.dict d) o st).1.record = none) ∧
    AgreeOutside d o.cur (setParams g (.dict d) o st).1.cur := by
  refine ⟨by simp [setParams, hd], by simp [setParams, hd], fun h => by simp [setParams, hd, h, clearRecord], ?_⟩
  simp only [setParams, hd, Bool.false_eq_true, if_false]
  exact ⟨by simp [assign_length], fun j hj => by rw [assign_outside _ _ _ j hj]⟩

/-- plain numbers for every parameter the record draws clear the record -/
theorem setter_number_dict_covering (r d : PSpec)
    (hcov : ∀ e ∈ r, e.2 = PEntry.random → e.1 ∈ d.map Prod.fst) : clearRecord (some r) d = none := by
  have hleft : hasRandom (r.filter (fun e => !((d.map Prod.fst).contains e.1))) = false := by
    simp only [hasRandom, List.any_eq_false, List.mem_filter]
    rintro e ⟨he, hne⟩ hrand
    have h2 : e.2 = PEntry.random := by
      cases h : e.2 with
      | fixed v => rw [h] at hrand; simp [PEntry.isRandom] at hrand
      | random => rfl
    have := hcov e he h2
    simp [List.contains_iff_mem, this] at hne
  simp only [clearRecord, hleft, Bool.false_eq_true, if_false]

/-- a run leaves the record alone (the redraw hands the recorded dict itself to the setter) -/
theorem run_keeps_record {σ : Type} (g : Gen σ) (m : JumpModel) (solve : List Rat → Sol) (o : Obj) (st : σ) :
    (jumpObj g m o st).2.1.record = o.record ∧ (integrateObj g solve o st).2.1.record = o.record := by
  refine ⟨rfl, ?_⟩
  cases h : o.record <;> simp [integrateObj, h]

/-- **history_irrelevant_cleared** (the cleared-record case, fix cc23e1d).  After numbers were assigned to all parameters the
object is the same whatever it held before - distributions assigned and used earlier included -; a `_jump` then makes no
parameter request, runs with exactly the numbers given and leaves them in place; `integrate` is the plain integration at
those numbers without a draw. -/
theorem history_irrelevant_cleared {σ : Type} (g : Gen σ) (m : JumpModel) (solve : List Rat → Sol) (vs : List Rat)
    (o o' : Obj) (st : σ) :
    setParams g (.all vs) o st = setParams g (.all vs) o' st ∧
    jumpObj g m (setParams g (.all vs) o st).1 st = jumpObj g m (setParams g (.all vs) o' st).1 st ∧
    (jumpObj g m (setParams g (.all vs) o st).1 st).1 = (jumpS g (m.cfg vs) m.exact m.fuel m.x0 m.t0 st).1 ∧
    (jumpObj g m (setParams g (.all vs) o st).1 st).2.1 = ⟨vs, none⟩ ∧
    integrateObj g solve (setParams g (.all vs) o st).1 st = (⟨solve vs, [], vs⟩, (⟨vs, none⟩, st)) := by
  refine ⟨rfl, rfl, ?_, ?_, rfl⟩ <;> simp [setParams, jumpObj, jumpOnce]

/-- **history_irrelevant_session.**  Two objects that hold the same record and the same values outside the positions it
assigns - e.g. the same instance before and after any number of runs, or two instances configured alike after different
pasts - give the same outputs from the same stream and are left in the same state. -/
theorem history_irrelevant_session {σ : Type} (g : Gen σ) (m : JumpModel) (solve : List Rat → Sol) (sp : PSpec) (o o' : Obj) (st : σ)
    (hr : o.record = some sp) (hr' : o'.record = some sp) (h : AgreeOutside sp o.cur o'.cur) :
    jumpObj g m o st = jumpObj g m o' st ∧ integrateObj g solve o st = integrateObj g solve o' st := by
  have hj := ((history_irrelevant g { m with spec := some sp } o.cur o'.cur st).2 sp rfl).2 h
  refine ⟨?_, ?_⟩
  · simp only [jumpObj, hr, hr', hj]
  · have hi : integrateS g ⟨sp, solve⟩ (o.cur, st) = integrateS g ⟨sp, solve⟩ (o'.cur, st) := by
      simp only [integrateS]; rw [redraw_agree g sp o.cur o'.cur st h]
    simp only [integrateObj, hr, hr', hi]

/-- the last assignments decide: "numbers for all parameters, then the dict" puts any two objects into the same state
(what the harness's histories end with) -/
theorem setter_last_assignments_decide {σ : Type} (g : Gen σ) (vs : List Rat) (d : PSpec) (o o' : Obj) (st : σ) :
    setMany g [.all vs, .dict d] o st = setMany g [.all vs, .dict d] o' st := rfl

/-- **stale_record_redraws_counterexample.**  The setter as it was before cc23e1d (numbers do not clear the record): after
`parameters = [7]` on an object that had a distribution recorded, `integrate` redraws and integrates at the drawn value
(99), not at 7 - the seeded output depends on what was assigned long before.  The repaired setter integrates at 7. -/
theorem stale_record_redraws_counterexample :
    let o : Obj := ⟨[5], some [(0, PEntry.random)]⟩
    let solve : List Rat → Sol := fun p => [[p.sum]]
    ((integrateObj listGen solve (setParamsLegacy listGen (.all [7]) o [99]).1 [99]).1.sol.map (fun r => r.map (·.num)) = [[99]]) ∧
    ((integrateObj listGen solve (setParams listGen (.all [7]) o [99]).1 [99]).1.sol.map (fun r => r.map (·.num)) = [[7]]) := by
  decide +kernel

/-- non-vacuity: a session `dict with a distribution; run; numbers; run` on the demo model -/
example :
    let o : Obj := ⟨[1, 2], none⟩
    let a := setParams listGen (.dict [(1, .random), (0, .fixed 3)]) o [10, 20]
    let b := setParams listGen (.all [4, 5]) a.1 a.2
    (a.1.cur, a.1.record.isSome, a.2, b.1.cur, b.1.record.isSome) = ([3, 10], true, [20], [4, 5], false) := by
  decide +kernel

/-! ### recorded streams: consecutive segments -/

/-- total number of requests of a list of runs -/
def consumed (outs : List JumpOut) : Nat := (outs.map (fun o => o.reqs.length)).sum

theorem jumpOnce_listGen_state (m : JumpModel) (cur : List Rat) (s : List Rat) :
    (jumpOnce listGen m (cur, s)).2.2 = s.drop (jumpOnce listGen m (cur, s)).1.reqs.length := by
  cases hsp : m.spec with
  | none => simp only [jumpOnce, hsp]; exact jumpS_listGen_state _ _ _ _ _ _
  | some sp =>
    simp only [jumpOnce, hsp, List.length_append]
    rw [jumpS_listGen_state]
    simp only [redraw, serve_listGen_state, List.drop_drop]

/-- **stream_segments.**  On a recorded stream `s` the `n` runs of `solve_stochast` consume consecutive segments, in
order: run `k` starts at `s.drop (number of variates the first k runs consumed)`, and the call leaves
`s.drop (total consumed)`. -/
theorem stream_segments (m : JumpModel) (n : Nat) (cur : List Rat) (s : List Rat) :
    (∀ k, (after (jumpOnce listGen m) k (cur, s)).2 = s.drop (consumed (solveStochast listGen m k (cur, s)).1)) ∧
    (solveStochast listGen m n (cur, s)).2.2 = s.drop (consumed (solveStochast listGen m n (cur, s)).1) := by
  have key : ∀ k (cur : List Rat) (s : List Rat),
      (after (jumpOnce listGen m) k (cur, s)).2 = s.drop (consumed (runMany (jumpOnce listGen m) k (cur, s)).1) := by
    intro k
    induction k with
    | zero => intro cur s; simp [after, runMany, consumed]
    | succ k ih =>
      intro cur s
      simp only [after, runMany, consumed, List.map_cons, List.sum_cons]
      have h := ih (jumpOnce listGen m (cur, s)).2.1 (jumpOnce listGen m (cur, s)).2.2
      simp only [Prod.mk.eta] at h
      rw [h, jumpOnce_listGen_state, List.drop_drop]
      rfl
  refine ⟨fun k => key k cur s, ?_⟩
  simp only [solveStochast]
  rw [runMany_snd]
  exact key n cur s

/-- **segment_determines_run.**  A `_jump` on a recorded stream depends only on the segment it consumes: any stream
with the same first `reqs.length` variates gives the same path, the same requests and the same exit. -/
theorem segment_determines_run (c : Cfg) (exact : Bool) (fuel : Nat) (x : Vec) (t : Rat) (s s' : List Rat)
    (h : s.take (jumpS listGen c exact fuel x t s).1.reqs.length = s'.take (jumpS listGen c exact fuel x t s).1.reqs.length) :
    (jumpS listGen c exact fuel x t s').1 = (jumpS listGen c exact fuel x t s).1 :=
  jumpS_listGen_prefix c exact fuel x t s s' _ (le_refl _) h

/-! ### (2) the schedule -/

theorem expoReqs_cons (r : Rat) (rs : List Rat) :
    expoReqs (r :: rs) = if 0 < r then Req.expo (1 / r) :: expoReqs rs else expoReqs rs := by
  by_cases h : 0 < r <;> simp [expoReqs, List.filter_cons, h]

/-- `_newJumpTimes` asks for exactly as many exponentials as there are positive rates (zero and negative rates get
`np.inf` without a draw), each with `scale = 1/rate`, in event order -/
theorem expoReqs_spec (rates : List Rat) :
    (expoReqs rates).length = nPositive rates ∧
    expoReqs rates = (rates.filter (fun r => decide (0 < r))).map (fun r => Req.expo (1 / r)) := by
  refine ⟨?_, rfl⟩
  simp [expoReqs, nPositive, List.countP_eq_length_filter]

/-- `tauLeap` asks for one Poisson variate per event, in event order, with mean `tau * rate` -/
theorem poisReqs_spec (tau : Rat) (rates : List Rat) :
    (poisReqs tau rates).length = rates.length ∧
    ∀ i : Nat, (poisReqs tau rates)[i]? = (rates[i]?).map (fun r => Req.pois (tau * r)) := by
  simp [poisReqs]

/-- **draw_schedule_step.**  The requests of one loop iteration at `(x, t)`:
* every rate zero: none (both step functions return first);
* exact mode: one exponential per positive rate;
* tau-leap: none if the safety loop gives up, else one Poisson per event, followed - exactly when the proposal made
  with those Poisson variates leaves the limits - by one exponential per positive rate (the first-reaction retry).
The iteration's result is `Stoch.iter` (C04) on the served variates, and the stream moves on by exactly these
requests. -/
theorem draw_schedule_step {σ : Type} (g : Gen σ) (s : Settings) (e : Eval) (exact : Bool) (x : Vec) (t : Rat) (st : σ) :
    (stepS g s e exact x t st).1.reqs =
      (if allZero e.rates then [] else
       if exact then expoReqs e.rates else
       match tauOf s e x with
       | none => []
       | some tau => poisReqs tau e.rates ++
           (if tauRejected s e x t ((serve g (poisReqs tau e.rates) st).1.map natOf) then expoReqs e.rates else [])) ∧
    (stepS g s e exact x t st).1.out = iter s e exact x t (stepS g s e exact x t st).1.used ∧
    (stepS g s e exact x t st).2 = (serve g (stepS g s e exact x t st).1.reqs st).2 := by
  refine ⟨?_, rfl, stepS_state g s e exact x t st⟩
  rw [stepS_reqs]
  unfold reqs1 reqs2
  by_cases hz : allZero e.rates = true
  · simp [hz]
  · cases exact with
    | true => simp [hz]
    | false =>
      simp only [hz, if_false, Bool.false_eq_true, Bool.or_false]
      cases htau : tauOf s e x with
      | none => simp [tauRejected, tauLeap, hz, htau]
      | some tau => simp

/-- **draw_schedule_jump.**  The requests of a `_jump` are those of its iterations, concatenated along the path: an
iteration runs while `t < finalT`; after a `break` nothing more is requested. -/
theorem draw_schedule_jump {σ : Type} (g : Gen σ) (c : Cfg) (exact : Bool) (fuel : Nat) (x : Vec) (t : Rat) (st : σ) :
    (jumpS g c exact 0 x t st).1.reqs = [] ∧
    (jumpS g c exact (fuel + 1) x t st).1.reqs =
      (if t < c.finalT then
        (stepS g c.set (c.ev x t) exact x t st).1.reqs ++
          (match (stepS g c.set (c.ev x t) exact x t st).1.out with
           | .stop _ => []
           | .next r => (jumpS g c exact fuel r.x r.t (stepS g c.set (c.ev x t) exact x t st).2).1.reqs)
       else []) := by
  refine ⟨by simp [jumpS], ?_⟩
  simp only [jumpS]
  split
  · split <;> simp_all
  · rfl

/-- **draw_schedule.**  One `_jump(finalT)` of `solve_stochast`: with stochastic parameters first one request per
distribution-valued entry of the dict, in dict order (`self.parameters = self._stochasticParam`), then the loop's
requests, made with the evaluators of the freshly drawn parameter values. -/
theorem draw_schedule {σ : Type} (g : Gen σ) (m : JumpModel) (w : World σ) :
    (jumpOnce g m w).1.reqs =
      (match m.spec with
       | none => (jumpS g (m.cfg w.1) m.exact m.fuel m.x0 m.t0 w.2).1.reqs
       | some sp => paramReqs sp ++
           (jumpS g (m.cfg (redraw g sp w.1 w.2).1) m.exact m.fuel m.x0 m.t0 (redraw g sp w.1 w.2).2).1.reqs) ∧
    (jumpOnce g m w).1.recs =
      (match m.spec with
       | none => (jumpS g (m.cfg w.1) m.exact m.fuel m.x0 m.t0 w.2).1.recs
       | some sp => (jumpS g (m.cfg (redraw g sp w.1 w.2).1) m.exact m.fuel m.x0 m.t0 (redraw g sp w.1 w.2).2).1.recs) := by
  cases h : m.spec <;> simp [jumpOnce, h]

theorem integrateS_reqs {σ : Type} (g : Gen σ) (m : ParamModel) (w : World σ) :
    (integrateS g m w).1.reqs = paramReqs m.spec := rfl

/-- **draw_schedule_param.**  `simulate_param(t, n)` / `solve_determ(t, n)` with stochastic parameters make `n + 1`
passes over the dict - one before the loop, one per iteration - each requesting one variate per distribution-valued
entry in dict order; nothing else.  The parameter values of run `k` are the dict applied to the variates of pass
`k + 1`. -/
theorem draw_schedule_param {σ : Type} (g : Gen σ) (m : ParamModel) (n : Nat) (w : World σ) :
    (simulateParam g m n w).1.reqs = (List.replicate (n + 1) (paramReqs m.spec)).flatten := by
  have key : ∀ n (w : World σ), ((runMany (integrateS g m) n w).1.flatMap (·.reqs))
      = (List.replicate n (paramReqs m.spec)).flatten := by
    intro n
    induction n with
    | zero => intro w; simp [runMany]
    | succ n ih => intro w; simp [runMany, List.replicate_succ, ih, integrateS_reqs]
  simp only [simulateParam, key, integrateS_reqs, List.replicate_succ, List.flatten_cons]

/-- `solve_determ` of a model whose parameters are not stochastic makes no request and leaves the world alone -/
theorem solve_determ_fixed_no_draws {σ : Type} (g : Gen σ) (solve : List Rat → Sol) (n : Nat) (w : World σ) :
    solveDeterm g none solve n w = (.inl (solve w.1), w) := rfl

/-- the streamed loop IS the loop of C04 on the variates it was served: every theorem of Props/C04.lean
(start, increasing times, counts, increments, exit) holds for the paths of this model -/
theorem jump_is_c04_run {σ : Type} (g : Gen σ) (c : Cfg) (exact : Bool) (fuel : Nat) (x : Vec) (t : Rat) (st : σ) :
    (jumpS g c exact fuel x t st).1.recs = run c exact x t (jumpS g c exact fuel x t st).1.inputs :=
  jumpS_recs_eq_run g c exact fuel x t st

/-- **never_starved.**  The generator serves exactly the variates an iteration needs (one per request): the `starved` stop of
the list-based C04 model - an artefact of handing it a too short draw list - cannot occur in the streamed loop -/
theorem never_starved {σ : Type} (g : Gen σ) (c : Cfg) (exact : Bool) (fuel : Nat) (x : Vec) (t : Rat) (st : σ) :
    (jumpS g c exact fuel x t st).1.exit ≠ .stop .starved := by
  induction fuel generalizing x t st with
  | zero => simp only [jumpS]; split <;> simp
  | succ fuel ih =>
    simp only [jumpS]
    split
    · split
      · rename_i w hw
        intro h
        simp only [Exit.stop.injEq] at h
        subst h
        exact stepS_never_starved g c.set (c.ev x t) exact x t st hw
      · exact ih _ _ _
    · simp

/-! ### (3) outputs are a function of the stream only -/

/-- nothing but the world enters: the output and the world afterwards are functions of the world before
(the functions of `Seed.lean` have no other argument a variate could come from) -/
theorem outputs_function_of_stream_only {σ : Type} (g : Gen σ) (m : JumpModel) (n : Nat) :
    ∃ f : World σ → List JumpOut × World σ, ∀ w, solveStochast g m n w = f w := ⟨_, fun _ => rfl⟩

/-- a run whose requests are all served by the primary generator ignores the foreign one (and leaves it alone) -/
theorem no_foreign_requests_primary_only {σ τ : Type} (g : Gen σ) (h : Gen τ) (foreign : Req → Bool)
    (s : Settings) (e : Eval) (exact : Bool) (x : Vec) (t : Rat) (st : σ) (f : τ)
    (hf : ∀ r ∈ (stepS g s e exact x t st).1.reqs, foreign r = false) :
    (stepS (route g h foreign) s e exact x t (st, f)).1.out = (stepS g s e exact x t st).1.out ∧
    (stepS (route g h foreign) s e exact x t (st, f)).2 = ((stepS g s e exact x t st).2, f) := by
  rw [stepS_reqs] at hf
  have h1 : ∀ r ∈ reqs1 s e exact x, foreign r = false := fun r hr => hf r (List.mem_append_left _ hr)
  have e1 := serve_route_primary g h foreign _ h1 st f
  have h2 : ∀ r ∈ reqs2 s e exact x t (serve g (reqs1 s e exact x) st).1, foreign r = false :=
    fun r hr => hf r (List.mem_append_right _ hr)
  have e2 := serve_route_primary g h foreign _ h2 (serve g (reqs1 s e exact x) st).2 f
  simp [stepS, e1, e2]

/-! concrete one-event, one-state model of C04 (`X → ∅` at rate `X/2`, default limit `(0, None)`, horizon 10) -/
def demoCfg : Cfg := C04.demoCfg

/-- **foreign_source_breaks_counterexample.**  If the exponentials are served by a second source (an unseeded
`RandomState()`, `default_rng()`), the primary stream no longer determines the output: same model, same primary
stream, two foreign streams, different paths. -/
theorem foreign_source_breaks_counterexample :
    ∃ (c : Cfg) (s : List Rat) (f f' : List Rat),
      ((jumpS (route listGen listGen Req.isExpo) c true 3 [2] 0 (s, f)).1.recs.map (fun r => (r.x, r.t)))
        ≠ ((jumpS (route listGen listGen Req.isExpo) c true 3 [2] 0 (s, f')).1.recs.map (fun r => (r.x, r.t))) :=
  ⟨demoCfg, [7, 7, 7], [1/2, 3/4], [1/4, 3/4], by decide +kernel⟩

/-- the same for the mutation "only the first-reaction RETRY after a rejected tau-leap uses an unseeded source":
fixed `pre_tau = 1/2`, Poisson variate 3 from `x = 2` is rejected, the retry's waiting time comes from the foreign
stream -/
theorem foreign_retry_breaks_counterexample :
    ∃ (c : Cfg) (s : List Rat) (f f' : List Rat),
      ((jumpS (route listGen listGen Req.isExpo) c false 1 [2] 0 (s, f)).1.recs.map (fun r => (r.x, r.t)))
        ≠ ((jumpS (route listGen listGen Req.isExpo) c false 1 [2] 0 (s, f')).1.recs.map (fun r => (r.x, r.t))) :=
  ⟨{ demoCfg with set := { demoCfg.set with preTau := some (1/2) } }, [3], [1/4], [1/8], by decide +kernel⟩

/-! ### (4) the mean -/

/-- **mean_is_mean.**  For every `n > 0`, every entry `(i, j)` of the reported mean is the sum over the returned
list of that entry, divided by `n`:  `Y[i][j] = (Σ_k Y_all[k][i][j]) / n`.  (`rows`/`cols` are the shape of the
first solution, as in `np.dstack`.) -/
theorem mean_is_mean {σ : Type} (g : Gen σ) (m : ParamModel) (n : Nat) (w : World σ) (hn : 0 < n) (i j : Nat)
    (hi : i < (((simulateParam g m n w).1.Yall).headD []).length)
    (hj : j < ((((simulateParam g m n w).1.Yall).headD []).headD []).length) :
    (simulateParam g m n w).1.Yall.length = n ∧
    entry (simulateParam g m n w).1.Y i j
      = ((simulateParam g m n w).1.Yall.map (fun s => entry s i j)).sum / (n : Rat) := by
  have hl : (simulateParam g m n w).1.Yall.length = n := by simp [simulateParam, runMany_length]
  refine ⟨hl, ?_⟩
  have := entry_meanSol (simulateParam g m n w).1.Yall i j hi hj
  rw [hl] at this
  exact this

/-- the mean is over the returned list only: an implementation that averaged `n + 1` solutions (the pre-loop
integration included) or a re-run would report something else -/
theorem mean_over_n_plus_one_counterexample :
    ∃ (l : List Sol) (pre : Sol), (meanSol (pre :: l)).map (fun r => r.map (fun v => v.num)) ≠ (meanSol l).map (fun r => r.map (fun v => v.num)) :=
  ⟨[[[2]], [[4]]], [[9]], by decide +kernel⟩

/-! ### different seeds -/

/-- in exact mode the recorded waiting time of an accepted step is the minimum of the exponentials served at that
step (first minimum in event order) -/
theorem first_wait_is_min_of_draws {σ : Type} (g : Gen σ) (s : Settings) (e : Eval) (x : Vec) (t : Rat) (st : σ) (r : Rec)
    (h : (stepS g s e true x t st).1.out = .next r) :
    ∃ jt k, newJumpTimes e.rates (serve g (expoReqs e.rates) st).1 = some jt ∧ argminOpt jt = some (k, r.dt) ∧
      (∀ (j : Nat) (b : Rat), jt[j]? = some (some b) → r.dt ≤ b) := by
  rw [stepS_out] at h
  have hnz : allZero e.rates = false := (iter_next_spec h).nonzero
  have hused : (stepS g s e true x t st).1.used = ⟨[], (serve g (expoReqs e.rates) st).1⟩ := by
    simp [stepS, iterIn, reqs1, hnz]
  rw [hused] at h
  simp only [iter, if_true] at h
  obtain ⟨sr, hsr, _, rfl⟩ := ofFirst_next h
  obtain ⟨jt, k, hjt, harg, _, hmin, _⟩ := C04.first_reaction_minimal hsr
  exact ⟨jt, k, hjt, harg, hmin⟩

/-- **different_first_wait_different_path.**  Two streams from which the first iteration records different waiting
times (in exact mode: whose first-step exponentials have different minima, `first_wait_is_min_of_draws`) give
different paths.  This is the provable part of "different seeds change the outputs"; that two different numpy seeds
yield such streams is runtime (A). -/
theorem different_first_wait_different_path {σ : Type} (g : Gen σ) (c : Cfg) (exact : Bool) (fuel : Nat) (x : Vec) (t : Rat)
    (st st' : σ) (r r' : Rec) (hlt : t < c.finalT)
    (h1 : (stepS g c.set (c.ev x t) exact x t st).1.out = .next r)
    (h2 : (stepS g c.set (c.ev x t) exact x t st').1.out = .next r')
    (hd : r.dt ≠ r'.dt) :
    (jumpS g c exact (fuel + 1) x t st).1.recs ≠ (jumpS g c exact (fuel + 1) x t st').1.recs := by
  simp only [jumpS, hlt, if_true, h1, h2]
  intro heq
  simp only [List.cons.injEq] at heq
  exact hd (by rw [heq.1])

/-- "different streams ⇒ different outputs" is false in general: two recorded streams that differ only at a clock that
does not fire first (two events, the second clock is 5 or 6, the first clock 1/2 wins both times) give the same path -/
theorem different_streams_same_output_counterexample :
    ∃ (c : Cfg) (s s' : List Rat), s ≠ s' ∧
      ((jumpS listGen c true 1 [2, 0] 0 s).1.recs.map (fun r => (r.x, r.t, r.counts)))
        = ((jumpS listGen c true 1 [2, 0] 0 s').1.recs.map (fun r => (r.x, r.t, r.counts))) :=
  ⟨{ ev := fun x _ => { rates := [x.getD 0 0 / 2, 1], cols := [[-1, 0], [0, 1]], pure := [0, 0], mu := [0, 0], sigma2 := [0, 0] },
     set := { lims := [(some 0, none), (some 0, none)], react := [[1, 0], [0, 0]], eps := 3 / 100, preTau := none },
     finalT := 10 },
   [1/2, 5], [1/2, 6], by decide +kernel, by decide +kernel⟩

/-! ### non-vacuity -/

/-- three seeded exact runs of the demo model from one recorded stream: run 1 consumes `[1/2, 3/4]` (two steps, then all
rates are zero), run 2 the next two variates, run 3 the two after; the stream left is what follows -/
example :
    let m : JumpModel := { spec := none, cfg := fun _ => demoCfg, exact := true, x0 := [2], t0 := 0, fuel := 5 }
    ((solveStochast listGen m 3 ([], [1/2, 3/4, 1, 2, 1/8, 1/8, 9])).1.map (fun o => (o.recs.map (fun r => (r.x, r.t)), o.reqs.length)),
     (solveStochast listGen m 3 ([], [1/2, 3/4, 1, 2, 1/8, 1/8, 9])).2.2)
    = ([([([1], 1/2), ([0], 5/4)], 2), ([([1], 1), ([0], 3)], 2), ([([1], 1/8), ([0], 1/4)], 2)], [9]) := by
  decide +kernel

/-- the schedule of the first of these runs: `X = 2`, rate 1: `expo(scale 1)`; `X = 1`, rate 1/2: `expo(scale 2)`;
`X = 0`: all rates zero, no request -/
example : (jumpS listGen demoCfg true 5 [2] 0 [1/2, 3/4, 1]).1.reqs = [Req.expo 1, Req.expo 2] := by decide +kernel

/-- a tau-leap run with a rejected step: `pre_tau = 1/2`, Poisson(1/2 · 1) = 3 is rejected from `x = 2`, the retry asks
for one exponential -/
example : (jumpS listGen { demoCfg with set := { demoCfg.set with preTau := some (1/2) } } false 1 [2] 0 [3, 1/4]).1.reqs
    = [Req.pois (1/2), Req.expo 1] := by decide +kernel

/-- stochastic parameters: dict `{p1: dist, p0: 3, p2: dist}` on a three-parameter model: two requests per pass, in
dict order; the numbers are stored; `simulate_param(t, 2)` makes three passes and averages the last two -/
example :
    let m : ParamModel := { spec := [(1, .random), (0, .fixed 3), (2, .random)], solve := fun p => [[p.sum]] }
    ((simulateParam listGen m 2 ([0, 0, 0], [10, 20, 1, 2, 5, 6, 99])).1.Y,
     (simulateParam listGen m 2 ([0, 0, 0], [10, 20, 1, 2, 5, 6, 99])).1.Yall,
     (simulateParam listGen m 2 ([0, 0, 0], [10, 20, 1, 2, 5, 6, 99])).1.pre,
     (simulateParam listGen m 2 ([0, 0, 0], [10, 20, 1, 2, 5, 6, 99])).1.reqs,
     (simulateParam listGen m 2 ([0, 0, 0], [10, 20, 1, 2, 5, 6, 99])).2)
    = ([[10]], [[[6]], [[14]]], [[33]], [.param 1, .param 2, .param 1, .param 2, .param 1, .param 2], ([3, 5, 6], [99])) := by
  decide +kernel

/-- the hypotheses of `different_first_wait_different_path` are satisfiable: the demo model, streams `[1/2]` and `[1/4]` -/
example : (jumpS listGen demoCfg true 1 [2] 0 [1/2]).1.recs.map (·.dt) ≠ (jumpS listGen demoCfg true 1 [2] 0 [1/4]).1.recs.map (·.dt) := by
  decide +kernel

/-- `AgreeOutside` is satisfiable non-trivially: what a previous run left at the dict's positions differs -/
example : AgreeOutside [(1, .random), (0, .fixed 3)] [7, 8, 9] [1, 2, 9] :=
  ⟨rfl, fun j hj => by
    have h0 : j ≠ 1 := fun h => hj (by simp [h])
    have h1 : j ≠ 0 := fun h => hj (by simp [h])
    match j with
    | 0 => exact absurd rfl h1
    | 1 => exact absurd rfl h0
    | 2 => rfl
    | (k + 3) => simp⟩

end Pygom.C16
