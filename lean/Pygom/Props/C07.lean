/-
C07 — the gradient handed to optimisers is the derivative of cost.

PARTIAL: the variational-equation theorem is assumed.  "Column `idx_a + (p_b+1)·nS` (resp. `idx_a +
(s_c+1+nP)·nS`) of row i of the integrated sensitivity system is the derivative of the prediction
ŷ_{i,a} in the b-th free parameter (c-th free initial value)" is the explicit hypothesis `hsens`
(C13: the layout is proved there, that integrating the variational system gives the derivative is classical
and not in Mathlib).  "`diff_loss · w` is the derivative of the per-entry loss in the prediction" is the
explicit hypothesis `hkernel` (C14 proves it for the five kernels: for Square and Normal with arbitrary
weights, for Poisson, Gamma, NegBinom with unit weights — `grad_is_chain_rule_unit_weights` is the form
their theorems plug into).  How `u ↦ ŷ(u)` binds the free variables by name is C09's.

MODEL VARIANTS (`Pygom/GradIndex.lean`).  The tree as found sorts the index lists (`asCoded`); for it the
full statement is FALSE (`grad_order_counterexample`, `grad_obs_order_counterexample`) and only
`grad_is_chain_rule_partial` holds.  This branch is in the state correct for the PATCHED tree
(proposed_fixes/C07-index-order.diff, C07-target-state-index.diff): `GradIndex.current = repaired`
(`model_variant` below) and the required theorems are the full ones.  To go back to the unpatched tree:
set `GradIndex.current := asCoded`, replace `model_variant` by `theorem model_variant : current = asCoded := rfl`
and, in harness/props/c07.py, make `LEAN["required"]` = [sens_index_spec, grad_is_chain_rule_partial,
grad_order_counterexample, model_variant].  Every other theorem here is about an explicit variant and
compiles either way.

HISTORIES.  `sensToGrad` and the index functions below are pure functions of (sensitivities, diff_loss, weights,
layout): the gradient of a real loss object after any history of calls must be that function for the values the
object holds at that moment.  The state machine of those values (`Held`, `step`, `outputs`) and what it
guarantees (`unrollState_target`, `earlier_outputs_unaffected`, `atStored_reproduces`) is in `Props/C06.lean`;
`harness/props/losshist.py` runs it in lock step with the real objects.
-/
import Pygom.Lemmas.GradIndex

set_option linter.unusedSimpArgs false
set_option linter.unnecessarySeqFocus false
set_option linter.unusedVariables false

namespace Pygom.C07
open Pygom Pygom.Loss Pygom.GradIndex

/-- which tree the executable model (the one the harness ties to the code) mirrors -/
theorem model_variant : current = repaired := rfl

/-! ### index selection -/

/-- **Selected sensitivity columns (parameters).**  The column selected for (observed state `a`, free
parameter `b`) — position `a + b·q` of the list, the position `sens_to_grad`'s `'F'` reshape reads it from —
is `idx_a + (p_b + 1)·nS`: the by-parameter layout of C13, in the order the names were supplied. -/
theorem sens_index_spec (nS : Nat) (sIdx pIdx : List Nat) :
    (targetParamSensIndexV repaired nS sIdx pIdx).length = sIdx.length * pIdx.length ∧
    ∀ a, a < sIdx.length → ∀ b, b < pIdx.length →
      (targetParamSensIndexV repaired nS sIdx pIdx).getD (a + b * sIdx.length) 0
        = sIdx.getD a 0 + (pIdx.getD b 0 + 1) * nS := by
  refine ⟨freeMajor_length (paramOff nS) sIdx pIdx, fun a ha b hb => ?_⟩
  exact freeMajor_getD (paramOff nS) sIdx pIdx a b ha hb

/-- **Selected sensitivity columns (initial values).**  For (observed state `a`, free initial value `c`) the
column is `idx_a + (s_c + 1 + nP)·nS`; a supplied `target_state` is accepted. -/
theorem sens_index_spec_IV (nS nP : Nat) (sIdx tIdx : List Nat) (given : Bool) :
    ∃ L, targetStateSensIndexV repaired nS nP sIdx tIdx given = .ok L ∧
      L.length = sIdx.length * tIdx.length ∧
      ∀ a, a < sIdx.length → ∀ c, c < tIdx.length →
        L.getD (a + c * sIdx.length) 0 = sIdx.getD a 0 + (tIdx.getD c 0 + 1 + nP) * nS := by
  refine ⟨sensIndexRepaired (stateOff nS nP) sIdx tIdx, by simp [targetStateSensIndexV, repaired, sensIndexV],
    freeMajor_length (stateOff nS nP) sIdx tIdx, fun a ha c hc => ?_⟩
  exact freeMajor_getD (stateOff nS nP) sIdx tIdx a c ha hc

/-- the tree as found selects the same columns when observed states and free variables are given in
ascending index order -/
theorem sens_index_coded_eq_of_ascending (nS : Nat) (sIdx pIdx : List Nat)
    (hs : sIdx.Pairwise (· < ·)) (hbound : ∀ j ∈ sIdx, j < nS) (hp : pIdx.Pairwise (· < ·)) :
    targetParamSensIndexV asCoded nS sIdx pIdx = targetParamSensIndexV repaired nS sIdx pIdx := by
  simp only [targetParamSensIndexV, sensIndexV, asCoded, repaired, if_true, Bool.false_eq_true, if_false]
  exact sensIndexCoded_eq_repaired (paramOff nS) nS sIdx pIdx hs hbound (hp.imp (fun h => paramOff_gap nS h))

/-! ### the chain rule -/

/-- **The gradient is the derivative of cost, in the order the free parameters were supplied**
(repaired tree).  `yhat θ i a` is the model's prediction for observation `i`, observed state `a`, under the
parameter vector `θ`; `Z` are the rows of the integrated sensitivity system at `θ`; `dl` is what the kernel's
`diff_loss` returned and `w` the weights.  Then `sensitivity(θ)` = `sens_to_grad(Z[:, index], dl)` has one
entry per free parameter and entry `b` is the derivative of `cost` in the `b`-th supplied parameter. -/
theorem grad_is_chain_rule (nS : Nat) (sIdx pIdx : List Nat) (n : Nat) (hn : 0 < n) (hq : 0 < sIdx.length)
    (ℓ : Nat → Nat → ℝ → ℝ) (yhat : (Nat → ℝ) → Nat → Nat → ℝ) (θ : Nat → ℝ)
    (Z dl w : List (List ℝ)) (hZ : Z.length = n) (hdl : dl.length = n)
    (hsens : ∀ i, i < n → ∀ a, a < sIdx.length → ∀ b, b < pIdx.length →
      HasDerivAt (fun v => yhat (Function.update θ (pIdx.getD b 0) v) i a)
        (entry Z i (sIdx.getD a 0 + (pIdx.getD b 0 + 1) * nS)) (θ (pIdx.getD b 0)))
    (hkernel : ∀ i, i < n → ∀ a, a < sIdx.length →
      HasDerivAt (ℓ i a) (entry dl i a * entry w i a) (yhat θ i a)) :
    ∃ g, gradFromSens sIdx.length (targetParamSensIndexV repaired nS sIdx pIdx) Z dl w = .ok g ∧
      g.length = pIdx.length ∧
      ∀ b, b < pIdx.length →
        HasDerivAt (fun v => sum2 n sIdx.length fun i a => ℓ i a (yhat (Function.update θ (pIdx.getD b 0) v) i a))
          (g.getD b 0) (θ (pIdx.getD b 0)) := by
  refine ⟨gradFormula (paramOff nS) sIdx pIdx n Z dl w,
    gradFromSens_ok (paramOff nS) sIdx pIdx n hn hq Z dl w hZ hdl, gradFormula_length _ _ _ _ _ _ _, ?_⟩
  intro b hb
  apply chain_rule_core (paramOff nS) sIdx pIdx n ℓ
    (fun i a v => yhat (Function.update θ (pIdx.getD b 0) v) i a) (θ (pIdx.getD b 0)) Z dl w hZ b hb
  · intro i hi a ha
    exact hsens i hi a ha b hb
  · intro i hi a ha
    simpa [Function.update_eq_self] using hkernel i hi a ha

/-- the form C14's unit-weight kernel theorems plug into (Poisson, Gamma, NegBinom): with all weights `1`,
`hkernel` is "`diff_loss` is the derivative of the loss in the prediction" -/
theorem grad_is_chain_rule_unit_weights (nS : Nat) (sIdx pIdx : List Nat) (n : Nat) (hn : 0 < n) (hq : 0 < sIdx.length)
    (ℓ : Nat → Nat → ℝ → ℝ) (yhat : (Nat → ℝ) → Nat → Nat → ℝ) (θ : Nat → ℝ)
    (Z dl w : List (List ℝ)) (hZ : Z.length = n) (hdl : dl.length = n)
    (hw : ∀ i, i < n → ∀ a, a < sIdx.length → entry w i a = 1)
    (hsens : ∀ i, i < n → ∀ a, a < sIdx.length → ∀ b, b < pIdx.length →
      HasDerivAt (fun v => yhat (Function.update θ (pIdx.getD b 0) v) i a)
        (entry Z i (sIdx.getD a 0 + (pIdx.getD b 0 + 1) * nS)) (θ (pIdx.getD b 0)))
    (hkernel : ∀ i, i < n → ∀ a, a < sIdx.length → HasDerivAt (ℓ i a) (entry dl i a) (yhat θ i a)) :
    ∃ g, gradFromSens sIdx.length (targetParamSensIndexV repaired nS sIdx pIdx) Z dl w = .ok g ∧
      g.length = pIdx.length ∧
      ∀ b, b < pIdx.length →
        HasDerivAt (fun v => sum2 n sIdx.length fun i a => ℓ i a (yhat (Function.update θ (pIdx.getD b 0) v) i a))
          (g.getD b 0) (θ (pIdx.getD b 0)) :=
  grad_is_chain_rule nS sIdx pIdx n hn hq ℓ yhat θ Z dl w hZ hdl hsens
    (fun i hi a ha => by rw [hw i hi a ha, mul_one]; exact hkernel i hi a ha)

/-- **Square loss, arbitrary weights**: cost `Σ ((y − ŷ)·w)²`, `diff_loss = −2·(y − ŷ)·w` (as coded), the
sensitivities multiplied by `w` in `sens_to_grad`.  No kernel hypothesis left. -/
theorem grad_is_chain_rule_square (nS : Nat) (sIdx pIdx : List Nat) (n : Nat) (hn : 0 < n) (hq : 0 < sIdx.length)
    (y : Nat → Nat → ℝ) (yhat : (Nat → ℝ) → Nat → Nat → ℝ) (θ : Nat → ℝ)
    (Z dl w : List (List ℝ)) (hZ : Z.length = n) (hdl : dl.length = n)
    (hdlval : ∀ i, i < n → ∀ a, a < sIdx.length → entry dl i a = -2 * ((y i a - yhat θ i a) * entry w i a))
    (hsens : ∀ i, i < n → ∀ a, a < sIdx.length → ∀ b, b < pIdx.length →
      HasDerivAt (fun v => yhat (Function.update θ (pIdx.getD b 0) v) i a)
        (entry Z i (sIdx.getD a 0 + (pIdx.getD b 0 + 1) * nS)) (θ (pIdx.getD b 0))) :
    ∃ g, gradFromSens sIdx.length (targetParamSensIndexV repaired nS sIdx pIdx) Z dl w = .ok g ∧
      g.length = pIdx.length ∧
      ∀ b, b < pIdx.length →
        HasDerivAt (fun v => sum2 n sIdx.length fun i a =>
            squareKer (y i a) (yhat (Function.update θ (pIdx.getD b 0) v) i a) (entry w i a) 0)
          (g.getD b 0) (θ (pIdx.getD b 0)) := by
  apply grad_is_chain_rule nS sIdx pIdx n hn hq (fun i a m => squareKer (y i a) m (entry w i a) 0) yhat θ Z dl w hZ hdl hsens
  intro i hi a ha
  rw [hdlval i hi a ha]
  unfold squareKer
  have h1 : HasDerivAt (fun m : ℝ => (y i a - m) * entry w i a) ((0 - 1) * entry w i a) (yhat θ i a) :=
    ((hasDerivAt_const _ (y i a)).sub (hasDerivAt_id' _)).mul_const _
  exact (h1.mul h1).congr_deriv (by ring)

/-- **Normal loss, arbitrary weights**: per-entry loss `c + ((y − ŷ)·w)² / (2σ²)` (`c` collects the terms that
do not depend on the prediction), `diff_loss = −((y − ŷ)·w)/σ²` (as coded).  No kernel hypothesis left. -/
theorem grad_is_chain_rule_normal (nS : Nat) (sIdx pIdx : List Nat) (n : Nat) (hn : 0 < n) (hq : 0 < sIdx.length)
    (y c σ : Nat → Nat → ℝ) (hσ : ∀ i a, σ i a ≠ 0) (yhat : (Nat → ℝ) → Nat → Nat → ℝ) (θ : Nat → ℝ)
    (Z dl w : List (List ℝ)) (hZ : Z.length = n) (hdl : dl.length = n)
    (hdlval : ∀ i, i < n → ∀ a, a < sIdx.length →
      entry dl i a = -((y i a - yhat θ i a) * entry w i a) / (σ i a) ^ 2)
    (hsens : ∀ i, i < n → ∀ a, a < sIdx.length → ∀ b, b < pIdx.length →
      HasDerivAt (fun v => yhat (Function.update θ (pIdx.getD b 0) v) i a)
        (entry Z i (sIdx.getD a 0 + (pIdx.getD b 0 + 1) * nS)) (θ (pIdx.getD b 0))) :
    ∃ g, gradFromSens sIdx.length (targetParamSensIndexV repaired nS sIdx pIdx) Z dl w = .ok g ∧
      g.length = pIdx.length ∧
      ∀ b, b < pIdx.length →
        HasDerivAt (fun v => sum2 n sIdx.length fun i a =>
            c i a + ((y i a - yhat (Function.update θ (pIdx.getD b 0) v) i a) * entry w i a) ^ 2 / (2 * (σ i a) ^ 2))
          (g.getD b 0) (θ (pIdx.getD b 0)) := by
  apply grad_is_chain_rule nS sIdx pIdx n hn hq
    (fun i a m => c i a + ((y i a - m) * entry w i a) ^ 2 / (2 * (σ i a) ^ 2)) yhat θ Z dl w hZ hdl hsens
  intro i hi a ha
  rw [hdlval i hi a ha]
  have hs := hσ i a
  have h1 : HasDerivAt (fun m : ℝ => (y i a - m) * entry w i a) ((0 - 1) * entry w i a) (yhat θ i a) :=
    ((hasDerivAt_const _ (y i a)).sub (hasDerivAt_id' _)).mul_const _
  have h2 := ((h1.mul h1).div_const (2 * (σ i a) ^ 2)).const_add (c i a)
  have hfun : (fun m : ℝ => c i a + ((y i a - m) * entry w i a) ^ 2 / (2 * (σ i a) ^ 2))
      = (fun m : ℝ => c i a + ((y i a - m) * entry w i a) * ((y i a - m) * entry w i a) / (2 * (σ i a) ^ 2)) := by
    funext m; ring
  rw [hfun]
  exact h2.congr_deriv (by field_simp; ring)

/-- **Initial-value variant** (`sensitivityIV`, repaired tree): the gradient is the parameter block followed by
the initial-value block; entry `b` is the derivative of `costIV` in the `b`-th supplied free parameter, entry
`r + c` the derivative in the `c`-th supplied free initial value. -/
theorem gradIV_is_chain_rule (nS nP : Nat) (sIdx pIdx tIdx : List Nat) (given : Bool) (n : Nat) (hn : 0 < n)
    (hq : 0 < sIdx.length)
    (ℓ : Nat → Nat → ℝ → ℝ) (yhat : (Nat → ℝ) → (Nat → ℝ) → Nat → Nat → ℝ) (θ x0 : Nat → ℝ)
    (Z dl w : List (List ℝ)) (hZ : Z.length = n) (hdl : dl.length = n)
    (hsensP : ∀ i, i < n → ∀ a, a < sIdx.length → ∀ b, b < pIdx.length →
      HasDerivAt (fun v => yhat (Function.update θ (pIdx.getD b 0) v) x0 i a)
        (entry Z i (sIdx.getD a 0 + (pIdx.getD b 0 + 1) * nS)) (θ (pIdx.getD b 0)))
    (hsensS : ∀ i, i < n → ∀ a, a < sIdx.length → ∀ c, c < tIdx.length →
      HasDerivAt (fun v => yhat θ (Function.update x0 (tIdx.getD c 0) v) i a)
        (entry Z i (sIdx.getD a 0 + (tIdx.getD c 0 + 1 + nP) * nS)) (x0 (tIdx.getD c 0)))
    (hkernel : ∀ i, i < n → ∀ a, a < sIdx.length →
      HasDerivAt (ℓ i a) (entry dl i a * entry w i a) (yhat θ x0 i a)) :
    ∃ L g, targetStateSensIndexV repaired nS nP sIdx tIdx given = .ok L ∧
      gradIVFromSens sIdx.length (targetParamSensIndexV repaired nS sIdx pIdx) L Z dl w = .ok g ∧
      g.length = pIdx.length + tIdx.length ∧
      (∀ b, b < pIdx.length →
        HasDerivAt (fun v => sum2 n sIdx.length fun i a => ℓ i a (yhat (Function.update θ (pIdx.getD b 0) v) x0 i a))
          (g.getD b 0) (θ (pIdx.getD b 0))) ∧
      (∀ c, c < tIdx.length →
        HasDerivAt (fun v => sum2 n sIdx.length fun i a => ℓ i a (yhat θ (Function.update x0 (tIdx.getD c 0) v) i a))
          (g.getD (pIdx.length + c) 0) (x0 (tIdx.getD c 0))) := by
  have hP := gradFromSens_ok (paramOff nS) sIdx pIdx n hn hq Z dl w hZ hdl
  have hS := gradFromSens_ok (stateOff nS nP) sIdx tIdx n hn hq Z dl w hZ hdl
  refine ⟨sensIndexRepaired (stateOff nS nP) sIdx tIdx,
    gradFormula (paramOff nS) sIdx pIdx n Z dl w ++ gradFormula (stateOff nS nP) sIdx tIdx n Z dl w,
    by simp [targetStateSensIndexV, repaired, sensIndexV], ?_, by simp [gradFormula_length], ?_, ?_⟩
  · have hP' : gradFromSens sIdx.length (targetParamSensIndexV repaired nS sIdx pIdx) Z dl w
        = .ok (gradFormula (paramOff nS) sIdx pIdx n Z dl w) := hP
    simp only [gradIVFromSens, hP', hS]
  · intro b hb
    have hlt : b < (gradFormula (paramOff nS) sIdx pIdx n Z dl w).length := by rw [gradFormula_length]; exact hb
    have hget : (gradFormula (paramOff nS) sIdx pIdx n Z dl w ++ gradFormula (stateOff nS nP) sIdx tIdx n Z dl w).getD b 0
        = (gradFormula (paramOff nS) sIdx pIdx n Z dl w).getD b 0 := by
      simp only [List.getD_eq_getElem?_getD, List.getElem?_append_left hlt]
    rw [hget]
    apply chain_rule_core (paramOff nS) sIdx pIdx n ℓ
      (fun i a v => yhat (Function.update θ (pIdx.getD b 0) v) x0 i a) (θ (pIdx.getD b 0)) Z dl w hZ b hb
    · intro i hi a ha; exact hsensP i hi a ha b hb
    · intro i hi a ha; simpa [Function.update_eq_self] using hkernel i hi a ha
  · intro c hc
    have hge : (gradFormula (paramOff nS) sIdx pIdx n Z dl w).length ≤ pIdx.length + c := by
      rw [gradFormula_length]; omega
    have hget : (gradFormula (paramOff nS) sIdx pIdx n Z dl w ++ gradFormula (stateOff nS nP) sIdx tIdx n Z dl w).getD
          (pIdx.length + c) 0 = (gradFormula (stateOff nS nP) sIdx tIdx n Z dl w).getD c 0 := by
      simp only [List.getD_eq_getElem?_getD, List.getElem?_append_right hge, gradFormula_length, Nat.add_sub_cancel_left]
    rw [hget]
    apply chain_rule_core (stateOff nS nP) sIdx tIdx n ℓ
      (fun i a v => yhat θ (Function.update x0 (tIdx.getD c 0) v) i a) (x0 (tIdx.getD c 0)) Z dl w hZ c hc
    · intro i hi a ha; exact hsensS i hi a ha c hc
    · intro i hi a ha; simpa [Function.update_eq_self] using hkernel i hi a ha

/-! ### the tree as found: partial theorem and counterexamples -/

/- FULL STATEMENT (false of the tree as found): `grad_is_chain_rule` with `asCoded` in the place of
`repaired`, for every `sIdx`, `pIdx`.  What holds for that tree: -/

/-- **Partial** (tree as found, with `np.sort`): the chain-rule identity holds when the observed states and
the free parameters are supplied in ascending index order. -/
theorem grad_is_chain_rule_partial (nS : Nat) (sIdx pIdx : List Nat) (n : Nat) (hn : 0 < n) (hq : 0 < sIdx.length)
    (hasc_s : sIdx.Pairwise (· < ·)) (hbound : ∀ j ∈ sIdx, j < nS) (hasc_p : pIdx.Pairwise (· < ·))
    (ℓ : Nat → Nat → ℝ → ℝ) (yhat : (Nat → ℝ) → Nat → Nat → ℝ) (θ : Nat → ℝ)
    (Z dl w : List (List ℝ)) (hZ : Z.length = n) (hdl : dl.length = n)
    (hsens : ∀ i, i < n → ∀ a, a < sIdx.length → ∀ b, b < pIdx.length →
      HasDerivAt (fun v => yhat (Function.update θ (pIdx.getD b 0) v) i a)
        (entry Z i (sIdx.getD a 0 + (pIdx.getD b 0 + 1) * nS)) (θ (pIdx.getD b 0)))
    (hkernel : ∀ i, i < n → ∀ a, a < sIdx.length →
      HasDerivAt (ℓ i a) (entry dl i a * entry w i a) (yhat θ i a)) :
    ∃ g, gradFromSens sIdx.length (targetParamSensIndexV asCoded nS sIdx pIdx) Z dl w = .ok g ∧
      g.length = pIdx.length ∧
      ∀ b, b < pIdx.length →
        HasDerivAt (fun v => sum2 n sIdx.length fun i a => ℓ i a (yhat (Function.update θ (pIdx.getD b 0) v) i a))
          (g.getD b 0) (θ (pIdx.getD b 0)) := by
  rw [sens_index_coded_eq_of_ascending nS sIdx pIdx hasc_s hbound hasc_p]
  exact grad_is_chain_rule nS sIdx pIdx n hn hq ℓ yhat θ Z dl w hZ hdl hsens hkernel

/-- one row of an integrated sensitivity system with `nS = 3`, `nP = 2` (S, I, R | ∂/∂β | ∂/∂γ), entries
chosen distinct: `∂I/∂β = 11`, `∂I/∂γ = 21`, `∂R/∂β = 12`, `∂R/∂γ = 22` -/
def exRow : List (List Int) := [[90, 7, 3, 10, 11, 12, 20, 21, 22]]

/-- **Counterexample (order of `target_param`).**  `nS = 3`, `nP = 2`, observed `I`, `target_param = [γ, β]`
(indices `[1, 0]`), unit `diff_loss` and weight: the property requires `(∂/∂γ, ∂/∂β) = (21, 11)`; the tree as
found returns `(11, 21)` — the gradient in `(β, γ)` order; the repaired tree returns `(21, 11)`. -/
theorem grad_order_counterexample :
    targetParamSensIndexV asCoded 3 [1] [1, 0] = [4, 7] ∧
    gradFromSens 1 (targetParamSensIndexV asCoded 3 [1] [1, 0]) exRow [[1]] [[1]] = .ok [11, 21] ∧
    gradFromSens 1 (targetParamSensIndexV repaired 3 [1] [1, 0]) exRow [[1]] [[1]] = .ok [21, 11] := by
  decide

/-- **Counterexample (order of the observed states).**  Observed `['R', 'I']` (indices `[2, 1]`), all parameters,
`diff_loss = (1, 0)`: only the `R` residual counts, so the gradient must be `(∂R/∂β, ∂R/∂γ) = (12, 22)`; the
tree as found pairs the `R` residual with the `I` sensitivities and returns `(11, 21)`. -/
theorem grad_obs_order_counterexample :
    targetParamSensIndexV asCoded 3 [2, 1] [0, 1] = [4, 5, 7, 8] ∧
    gradFromSens 2 (targetParamSensIndexV asCoded 3 [2, 1] [0, 1]) exRow [[1, 0]] [[1, 1]] = .ok [11, 21] ∧
    gradFromSens 2 (targetParamSensIndexV repaired 3 [2, 1] [0, 1]) exRow [[1, 0]] [[1, 1]] = .ok [12, 22] := by
  decide

/-- the tree as found cannot evaluate `sensitivityIV` once `target_state` is supplied
(`_getTargetStateIndex` nests the indices; `[2] + 1` is a `TypeError`); the repaired tree can -/
theorem target_state_counterexample :
    targetStateSensIndexV asCoded 3 2 [1] [2] true = .error "TypeError" ∧
    targetStateSensIndexV repaired 3 2 [1] [2] true = .ok [16] := by
  decide

/-! ### non-vacuity -/

/-- the hypotheses of `grad_is_chain_rule_square` are satisfiable with a prediction that really depends on the
parameters: one state (`nS = 1`), two parameters supplied in the order `[1, 0]`, one observation,
`ŷ(θ) = θ₀ + 3·θ₁`; the integrated row is `[ŷ | ∂/∂θ₀ = 1 | ∂/∂θ₁ = 3]`. -/
example (θ : Nat → ℝ) (y0 wt : ℝ) :
    ∃ g, gradFromSens ([0] : List Nat).length (targetParamSensIndexV repaired 1 [0] [1, 0])
        [[θ 0 + 3 * θ 1, 1, 3]] [[-2 * ((y0 - (θ 0 + 3 * θ 1)) * wt)]] [[wt]] = .ok g ∧
      g.length = ([1, 0] : List Nat).length ∧
      ∀ b, b < ([1, 0] : List Nat).length → HasDerivAt (fun v => sum2 1 ([0] : List Nat).length fun i a =>
          squareKer y0 ((Function.update θ (([1, 0] : List Nat).getD b 0) v) 0
            + 3 * (Function.update θ (([1, 0] : List Nat).getD b 0) v) 1) (entry [[wt]] i a) 0)
        (g.getD b 0) (θ (([1, 0] : List Nat).getD b 0)) :=
  grad_is_chain_rule_square 1 [0] [1, 0] 1 (by norm_num) (by simp) (fun _ _ => y0)
    (fun ϑ _ _ => ϑ 0 + 3 * ϑ 1) θ [[θ 0 + 3 * θ 1, 1, 3]] [[-2 * ((y0 - (θ 0 + 3 * θ 1)) * wt)]] [[wt]]
    (by simp) (by simp)
    (by intro i hi a ha
        have hi0 : i = 0 := by omega
        have ha0 : a = 0 := by simpa using ha
        subst hi0; subst ha0; simp [entry])
    (by intro i hi a ha b hb
        have hi0 : i = 0 := by omega
        have ha0 : a = 0 := by simpa using ha
        subst hi0; subst ha0
        have hb2 : b = 0 ∨ b = 1 := by simp at hb; omega
        rcases hb2 with rfl | rfl
        · -- free variable θ₁ : derivative 3
          have h : HasDerivAt (fun v : ℝ => θ 0 + 3 * v) (3 * 1) (θ 1) :=
            ((hasDerivAt_id' (θ 1)).const_mul 3).const_add (θ 0)
          simpa [entry, Function.update] using h
        · -- free variable θ₀ : derivative 1
          have h : HasDerivAt (fun v : ℝ => v + 3 * θ 1) (1 + 0) (θ 0) :=
            (hasDerivAt_id' (θ 0)).add (hasDerivAt_const _ _)
          simpa [entry, Function.update] using h)

end Pygom.C07
