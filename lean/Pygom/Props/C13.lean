/-
C13 - sensitivity systems are the variational equations of the model.   (PARTIAL, see below)

About `Pygom/Sens.lean` (the line-by-line model of `ode_and_sensitivity`, `ode_and_sensitivityIV`, their
`*_jacobian`, `sens_jacobian_state`, `vecToMatSens` ...), for every number of states `nS` and parameters `nP`:

* `sens_layout`, `sens_layout_by_state`, `sensIV_layout` : the augmented right-hand sides are
  `f`, `J.S + G`, `J.S0` in the documented vector layouts;
* `aug_jacobian_is_derivative`, `aug_jacobianIV_is_derivative` : every entry `(r,c)` of the assembled block matrix
  is the derivative of component `r` of the augmented right-hand side in `z_c`;
* the by-state matrix AS CODED is not (`aug_jacobian_by_state_counterexample`); the repaired one is
  (`aug_jacobian_by_state_repaired_is_derivative`);
* reshape round trips;
* sessions (`session_is_pure`, `earlier_results_kept`, `revisit_reproduces`, `instances_do_not_interact`): along any
  history of evaluations and re-definitions on live instances every call returns the single-call function of its own
  `(z, t)` and the evaluators assigned last; a memo keyed on `(t, state)` is not such a function
  (`memo_keyed_on_point_counterexample`).

What is NOT proved (assumed, validated per run by harness/props/c13.py): that the solution of these variational
equations is dx(t)/dtheta resp. dx(t)/dx0 - the classical smooth-dependence theorem for ODE flows, which Mathlib
does not have.  The derivative theorems take the first-derivative facts about `f`, `J`, `G` as hypotheses
(`HasDerivAt` of each `f_i`, `J_il`, `G_ik` in each state variable: these are C03's theorems) plus equality of
mixed second partials (`hsym`, true for C^2 right-hand sides; re-checked exactly on every generated model).
-/
import Pygom.Lemmas.SensDeriv

set_option linter.unusedSimpArgs false
set_option linter.unusedVariables false

namespace Pygom
namespace C13
open Sens Function

/-! ## layouts (any entries with 0, 1, +, *, -) -/
section layout
variable {α : Type} [Zero α] [Add α] [Mul α]

/-- the first `nS` components are the ODE itself (both arrangements) -/
theorem sens_layout_state (nS nP : ℕ) (f : Vec α) (J G : Mat α) (z : Vec α) (b : Bool) (r : ℕ) (hr : r < nS) :
    odeAndSensitivity nS nP f J G z b r = f r := by
  simp [odeAndSensitivity, hr]

/-- by parameter: component `nS + k*nS + i` is `Σ_l J[i][l]·S[l][k] + G[i][k]` with `S[l][k] = z[nS + k*nS + l]` -/
theorem sens_layout (nS nP : ℕ) (f : Vec α) (J G : Mat α) (z : Vec α) (i k : ℕ) (hi : i < nS) :
    odeAndSensitivity nS nP f J G z false (nS + (k*nS + i))
      = sumTo nS (fun l => J i l * z (nS + (k*nS + l))) + G i k := by
  have h1 : ¬ (nS + (k*nS + i) < nS) := by omega
  simp [odeAndSensitivity, sensitivity, evalSensitivity, matToVecSens, vecToMatSens, flattenF, reshapeF,
    matAdd, matMul, dropV, h1, idx_mod k hi, idx_div k hi]

/-- by state: component `nS + i*nP + k` is `Σ_l J[i][l]·S[l][k] + G[i][k]` with `S[l][k] = z[nS + l*nP + k]` -/
theorem sens_layout_by_state (nS nP : ℕ) (f : Vec α) (J G : Mat α) (z : Vec α) (i k : ℕ) (hk : k < nP) :
    odeAndSensitivity nS nP f J G z true (nS + (i*nP + k))
      = sumTo nS (fun l => J i l * z (nS + (l*nP + k))) + G i k := by
  have h1 : ¬ (nS + (i*nP + k) < nS) := by omega
  simp [odeAndSensitivity, sensitivity, evalSensitivity, flattenC, reshapeC,
    matAdd, matMul, dropV, h1, idx_mod i hk, idx_div i hk]

/-- initial-value system, `len(state_param) = nS + nS*nP + nS*nS`: the parameter block is as in `sens_layout`, and
component `nS + nS*nP + k*nS + i` is `Σ_l J[i][l]·S0[l][k]` with `S0[l][k] = z[nS + nS*nP + k*nS + l]` (`'F'` order) -/
theorem sensIV_layout (nS nP : ℕ) (f : Vec α) (J G : Mat α) (z : Vec α) (i k : ℕ) (hi : i < nS) :
    (∀ r, r < nS → odeAndSensitivityIV nS nP (nS + nS*nP + nS*nS) f J G z r = f r) ∧
    (k < nP → odeAndSensitivityIV nS nP (nS + nS*nP + nS*nS) f J G z (nS + (k*nS + i))
      = sumTo nS (fun l => J i l * z (nS + (k*nS + l))) + G i k) ∧
    (odeAndSensitivityIV nS nP (nS + nS*nP + nS*nS) f J G z (nS + nS*nP + (k*nS + i))
      = sumTo nS (fun l => J i l * z (nS + (nS*nP + (k*nS + l))))) := by
  refine ⟨fun r hr => by simp [odeAndSensitivityIV, hr], fun hk => ?_, ?_⟩
  · have h1 : ¬ (nS + (k*nS + i) < nS) := by omega
    have h2 : nS + (k*nS + i) < nS + nS*nP := by have := idx_lt hi hk; omega
    simp [odeAndSensitivityIV, sensitivityIV, matToVecSens, vecToMatSens, flattenF, reshapeF,
      matAdd, matMul, dropV, h1, h2, idx_mod k hi, idx_div k hi]
  · have h1 : ¬ (nS + nS*nP + (k*nS + i) < nS) := by omega
    have h2 : ¬ (nS + nS*nP + (k*nS + i) < nS + nS*nP) := by omega
    have h3 : nS + nS*nP + (k*nS + i) - nS - nS*nP = k*nS + i := by omega
    have h4 : nS + nS*nP + nS*nS - nS - nS*nS = nS*nP := by omega
    simp [odeAndSensitivityIV, sensitivityIV, flattenF, reshapeF, matMul, dropV, h1, h2, h3, h4,
      idx_mod k hi, idx_div k hi]

end layout

/-! ## the supplied Jacobians are the derivatives of the augmented right-hand sides -/
section deriv

/-- the augmented right-hand side as a function of the augmented vector `z` alone: `f, Jf, Gf` are `ode`,
`jacobian`, `grad` as functions of the state (they read `z[0:nS]`) -/
def augRhs (nS nP : ℕ) (f : (ℕ → ℝ) → ℕ → ℝ) (Jf Gf : (ℕ → ℝ) → ℕ → ℕ → ℝ) (b : Bool) (z : ℕ → ℝ) : ℕ → ℝ :=
  odeAndSensitivity nS nP (f z) (Jf z) (Gf z) z b

def augRhsIV (nS nP : ℕ) (f : (ℕ → ℝ) → ℕ → ℝ) (Jf Gf : (ℕ → ℝ) → ℕ → ℕ → ℝ) (z : ℕ → ℝ) : ℕ → ℝ :=
  odeAndSensitivityIV nS nP (nS + nS*nP + nS*nS) (f z) (Jf z) (Gf z) z

/-- `Σ_l J_il(x)·z[p l]` (all `p l` outside the state block) differentiated in a state variable `x_c` -/
theorem hasDerivAt_JS_state (nS : ℕ) (Jf DJf : (ℕ → ℝ) → ℕ → ℕ → ℝ) (z : ℕ → ℝ) (i c : ℕ) (p : ℕ → ℕ)
    (hc : c < nS) (hp : ∀ l, nS ≤ p l)
    (hJ : ∀ l, l < nS → HasDerivAt (fun v => Jf (update z c v) i l) (DJf z (i*nS + l) c) (z c)) :
    HasDerivAt (fun v => sumTo nS (fun l => Jf (update z c v) i l * (update z c v) (p l)))
      (sumTo nS (fun l => DJf z (i*nS + l) c * z (p l))) (z c) := by
  have e : (fun v => sumTo nS (fun l => Jf (update z c v) i l * (update z c v) (p l)))
      = (fun v => sumTo nS (fun l => Jf (update z c v) i l * z (p l))) := by
    funext v
    apply sumTo_congr
    intro l _
    have : p l ≠ c := by have := hp l; omega
    rw [update_of_ne this]
  rw [e]
  exact hasDerivAt_sumTo nS _ _ _ (fun l hl => (hJ l hl).mul_const (z (p l)))

/-- `Σ_l J_il(x)·z[p l]` differentiated in a non-state variable `z_c` -/
theorem hasDerivAt_JS_sens (nS : ℕ) (Jf : (ℕ → ℝ) → ℕ → ℕ → ℝ) (z : ℕ → ℝ) (i c : ℕ) (p : ℕ → ℕ)
    (hc : nS ≤ c) (hJl : ∀ x c v, nS ≤ c → Jf (update x c v) = Jf x) :
    HasDerivAt (fun v => sumTo nS (fun l => Jf (update z c v) i l * (update z c v) (p l)))
      (sumTo nS (fun l => Jf z i l * (if p l = c then 1 else 0))) (z c) := by
  have e : (fun v => sumTo nS (fun l => Jf (update z c v) i l * (update z c v) (p l)))
      = (fun v => sumTo nS (fun l => Jf z i l * (update z c v) (p l))) := by
    funext v; rw [hJl z c v hc]
  rw [e]
  refine hasDerivAt_sumTo nS _ _ _ (fun l _ => ?_)
  by_cases h : p l = c
  · have e2 : (fun v => Jf z i l * update z c v (p l)) = (fun v => Jf z i l * v) := by
      funext v; rw [h, update_self]
    rw [e2]; simp only [h, if_true]
    simpa using (hasDerivAt_id (z c)).const_mul (Jf z i l)
  · have e2 : (fun v => Jf z i l * update z c v (p l)) = (fun _ => Jf z i l * z (p l)) := by
      funext v; rw [update_of_ne h]
    rw [e2]; simp only [h, if_false, mul_zero]
    exact hasDerivAt_const _ _

/-- entry `(k*nS+i, c)` of `sens_jacobian_state` -/
theorem sensJacobianState_entry (nS : ℕ) (DJ : Mat ℝ) (sens : Vec ℝ) (k i c : ℕ) (hi : i < nS) (hc : c < nS) :
    evalSensJacobianState nS DJ sens (k*nS + i) c = sumTo nS (fun j => DJ (i*nS + c) j * sens (k*nS + j)) := by
  have hlt : i*nS + c < nS*nS := idx_lt hc hi
  have e : (k*nS + i)*nS + c = k*(nS*nS) + (i*nS + c) := by ring
  simp [evalSensJacobianState, reshapeMatC, reshapeC, flattenC, transpose, matMul, vecToMatSens, reshapeF, e,
    idx_mod k hlt, idx_div k hlt]

/-- entry of `np.kron(np.eye(_), J)` against the indicator sum of `hasDerivAt_JS_sens` -/
theorem kron_eye_entry (nS : ℕ) (J : Mat ℝ) (k i c' : ℕ) (hi : i < nS) :
    sumTo nS (fun l => J i l * (if k*nS + l = c' then (1:ℝ) else 0))
      = kron nS nS (eye : Mat ℝ) J (k*nS + i) c' := by
  have hn : 0 < nS := by omega
  have hm : c' % nS < nS := Nat.mod_lt _ hn
  have e : sumTo nS (fun l => J i l * (if k*nS + l = c' then (1:ℝ) else 0))
      = sumTo nS (fun l => if l = c' % nS then (if k = c' / nS then J i l else 0) else 0) := by
    apply sumTo_congr
    intro l hl
    by_cases h : k*nS + l = c'
    · subst h; simp [idx_mod k hl, idx_div k hl]
    · have : ¬ (l = c' % nS ∧ k = c' / nS) := by
        rintro ⟨h1, h2⟩
        apply h
        rw [h1, h2]; exact Nat.div_add_mod' c' nS
      by_cases h1 : l = c' % nS
      · have h2 : ¬ k = c' / nS := fun h2 => this ⟨h1, h2⟩
        rw [if_neg h, if_pos h1, if_neg h2, mul_zero]
      · rw [if_neg h, if_neg h1, mul_zero]
  rw [e, sumTo_indicator]
  simp [kron, eye, hm, idx_mod k hi, idx_div k hi]

/-- **by parameter.**  Every entry `(r,c)` of `ode_and_sensitivity_jacobian(z,t)` is the derivative of component `r`
of `ode_and_sensitivity(z,t)` in `z_c`.  Hypotheses: `f, J, G` read the state only; `J` is the Jacobian of `f`;
`DJ` (row `i*nS+l`) and `GJ` (row `k*nS+i`) are the state-derivatives of `J_il`, `G_ik` (C03); mixed second
partials commute. -/
theorem aug_jacobian_is_derivative (nS nP : ℕ)
    (f : (ℕ → ℝ) → ℕ → ℝ) (Jf Gf DJf GJf : (ℕ → ℝ) → ℕ → ℕ → ℝ)
    (hfl : ∀ x c v, nS ≤ c → f (update x c v) = f x)
    (hJl : ∀ x c v, nS ≤ c → Jf (update x c v) = Jf x)
    (hGl : ∀ x c v, nS ≤ c → Gf (update x c v) = Gf x)
    (hf : ∀ x i j, i < nS → j < nS → HasDerivAt (fun v => f (update x j v) i) (Jf x i j) (x j))
    (hJ : ∀ x i l j, i < nS → l < nS → j < nS →
      HasDerivAt (fun v => Jf (update x j v) i l) (DJf x (i*nS + l) j) (x j))
    (hG : ∀ x i k j, i < nS → k < nP → j < nS →
      HasDerivAt (fun v => Gf (update x j v) i k) (GJf x (k*nS + i) j) (x j))
    (hsym : ∀ x e a b, e < nS → a < nS → b < nS → DJf x (e*nS + a) b = DJf x (e*nS + b) a)
    (z : ℕ → ℝ) (r c : ℕ) (hr : r < nS + nS*nP) (hc : c < nS + nS*nP) :
    HasDerivAt (fun v => augRhs nS nP f Jf Gf false (update z c v) r)
      (odeAndSensitivityJacobian nS nP (Jf z) (GJf z) (DJf z) z false r c) (z c) := by
  by_cases hrs : r < nS
  · -- a state row
    have e : (fun v => augRhs nS nP f Jf Gf false (update z c v) r) = (fun v => f (update z c v) r) := by
      funext v; simp [augRhs, odeAndSensitivity, hrs]
    rw [e]
    by_cases hcs : c < nS
    · simpa [odeAndSensitivityJacobian, bmat22, hrs, hcs] using hf z r c hrs hcs
    · have e2 : (fun v => f (update z c v) r) = (fun _ => f z r) := by
        funext v; rw [hfl z c v (by omega)]
      rw [e2]
      simpa [odeAndSensitivityJacobian, bmat22, hrs, hcs] using hasDerivAt_const (z c) (f z r)
  · -- a sensitivity row  r = nS + k*nS + i
    have hm : r - nS < nS*nP := by omega
    have hn : 0 < nS := pos_of_lt_mul hm
    obtain ⟨k, i, hi, hk, rfl⟩ : ∃ k i, i < nS ∧ k < nP ∧ r = nS + (k*nS + i) :=
      ⟨(r - nS) / nS, (r - nS) % nS, Nat.mod_lt _ hn, div_lt_of_lt_mul' hm, by
        have := Nat.div_add_mod' (r - nS) nS; omega⟩
    have e : (fun v => augRhs nS nP f Jf Gf false (update z c v) (nS + (k*nS + i)))
        = (fun v => sumTo nS (fun l => Jf (update z c v) i l * (update z c v) (nS + k*nS + l))
            + Gf (update z c v) i k) := by
      funext v
      simp only [augRhs]
      rw [sens_layout nS nP _ _ _ _ i k hi]
      congr 1
      apply sumTo_congr; intro l _; rw [Nat.add_assoc]
    rw [e]
    have hsub : nS + (k*nS + i) - nS = k*nS + i := by omega
    by_cases hcs : c < nS
    · have h1 := hasDerivAt_JS_state nS Jf DJf z i c (fun l => nS + k*nS + l) hcs (fun l => by omega)
        (fun l hl => hJ z i l c hi hl hcs)
      have h2 := h1.add (hG z i k c hi hk hcs)
      refine h2.congr_deriv ?_
      simp only [odeAndSensitivityJacobian, Bool.false_eq_true, ↓reduceIte, bmat22, hrs, hcs, if_true, if_false, matAdd,
        sensJacobianState, hsub]
      rw [sensJacobianState_entry nS _ _ k i c hi hcs, add_comm]
      congr 1
      apply sumTo_congr
      intro l hl
      simp only [dropV]
      rw [hsym z i l c hi hl hcs, Nat.add_assoc]
    · have h1 := hasDerivAt_JS_sens nS Jf z i c (fun l => nS + k*nS + l) (by omega) hJl
      have e3 : (fun v => Gf (update z c v) i k) = (fun _ => Gf z i k) := by
        funext v; rw [hGl z c v (by omega)]
      have h2 := h1.add (e3 ▸ hasDerivAt_const (z c) (Gf z i k))
      refine h2.congr_deriv ?_
      simp only [odeAndSensitivityJacobian, Bool.false_eq_true, ↓reduceIte, bmat22, hrs, hcs, if_false, hsub, add_zero]
      rw [← kron_eye_entry nS (Jf z) k i (c - nS) hi]
      apply sumTo_congr
      intro l _
      have : (nS + k*nS + l = c) ↔ (k*nS + l = c - nS) := by omega
      simp only [this]

theorem sumTo_zero' (n : ℕ) : sumTo n (fun _ => (0:ℝ)) = 0 := by
  induction n with
  | zero => rfl
  | succ n ih => simp [sumTo, ih]

/-- the two branches (`nP == 0` or not) of `ode_and_sensitivityIV_jacobian` as one 3x3 block formula -/
theorem ivJacobian_blocks (nS nP : ℕ) (J GJ DJ : Mat ℝ) (z : Vec ℝ) (r c : ℕ) :
    odeAndSensitivityIVJacobian nS nP J GJ DJ z r c =
      if r < nS then (if c < nS then J r c else 0)
      else if r < nS + nS*nP then
        (if c < nS then matAdd GJ (sensJacobianState nS DJ z) (r - nS) c
         else if c < nS + nS*nP then kron nS nS (eye : Mat ℝ) J (r - nS) (c - nS) else 0)
      else
        (if c < nS then evalSensJacobianState nS DJ (dropV (nS*(nP+1)) z) (r - nS - nS*nP) c
         else if c < nS + nS*nP then 0
         else kron nS nS (eye : Mat ℝ) J (r - nS - nS*nP) (c - nS - nS*nP)) := by
  by_cases h0 : nP = 0
  · subst h0
    by_cases h1 : r < nS <;> by_cases h2 : c < nS <;>
      simp [odeAndSensitivityIVJacobian, bmat22, evalSensJacobianState, vecToMatSens, h1, h2]
  · simp [odeAndSensitivityIVJacobian, h0, evalSensJacobianState, vecToMatSens]

/-- **initial-value system.**  Every entry `(r,c)` of `ode_and_sensitivityIV_jacobian(z,t)` is the derivative of
component `r` of `ode_and_sensitivityIV(z,t)` in `z_c` - for every `nP`, including `nP = 0`. -/
theorem aug_jacobianIV_is_derivative (nS nP : ℕ)
    (f : (ℕ → ℝ) → ℕ → ℝ) (Jf Gf DJf GJf : (ℕ → ℝ) → ℕ → ℕ → ℝ)
    (hfl : ∀ x c v, nS ≤ c → f (update x c v) = f x)
    (hJl : ∀ x c v, nS ≤ c → Jf (update x c v) = Jf x)
    (hGl : ∀ x c v, nS ≤ c → Gf (update x c v) = Gf x)
    (hf : ∀ x i j, i < nS → j < nS → HasDerivAt (fun v => f (update x j v) i) (Jf x i j) (x j))
    (hJ : ∀ x i l j, i < nS → l < nS → j < nS →
      HasDerivAt (fun v => Jf (update x j v) i l) (DJf x (i*nS + l) j) (x j))
    (hG : ∀ x i k j, i < nS → k < nP → j < nS →
      HasDerivAt (fun v => Gf (update x j v) i k) (GJf x (k*nS + i) j) (x j))
    (hsym : ∀ x e a b, e < nS → a < nS → b < nS → DJf x (e*nS + a) b = DJf x (e*nS + b) a)
    (z : ℕ → ℝ) (r c : ℕ) (hr : r < nS + nS*nP + nS*nS) (hc : c < nS + nS*nP + nS*nS) :
    HasDerivAt (fun v => augRhsIV nS nP f Jf Gf (update z c v) r)
      (odeAndSensitivityIVJacobian nS nP (Jf z) (GJf z) (DJf z) z r c) (z c) := by
  rw [ivJacobian_blocks]
  by_cases hrs : r < nS
  · have e : (fun v => augRhsIV nS nP f Jf Gf (update z c v) r) = (fun v => f (update z c v) r) := by
      funext v; simp [augRhsIV, odeAndSensitivityIV, hrs]
    rw [e]
    by_cases hcs : c < nS
    · simpa [hrs, hcs] using hf z r c hrs hcs
    · have e2 : (fun v => f (update z c v) r) = (fun _ => f z r) := by
        funext v; rw [hfl z c v (by omega)]
      rw [e2]
      simpa [hrs, hcs] using hasDerivAt_const (z c) (f z r)
  · by_cases hrp : r < nS + nS*nP
    · -- a parameter-sensitivity row  r = nS + k*nS + i
      have hm : r - nS < nS*nP := by omega
      have hn : 0 < nS := pos_of_lt_mul hm
      obtain ⟨k, i, hi, hk, rfl⟩ : ∃ k i, i < nS ∧ k < nP ∧ r = nS + (k*nS + i) :=
        ⟨(r - nS) / nS, (r - nS) % nS, Nat.mod_lt _ hn, div_lt_of_lt_mul' hm, by
          have := Nat.div_add_mod' (r - nS) nS; omega⟩
      have e : (fun v => augRhsIV nS nP f Jf Gf (update z c v) (nS + (k*nS + i)))
          = (fun v => sumTo nS (fun l => Jf (update z c v) i l * (update z c v) (nS + k*nS + l))
              + Gf (update z c v) i k) := by
        funext v
        simp only [augRhsIV]
        rw [(sensIV_layout nS nP _ _ _ _ i k hi).2.1 hk]
        congr 1
        apply sumTo_congr; intro l _; rw [Nat.add_assoc]
      rw [e]
      have hsub : nS + (k*nS + i) - nS = k*nS + i := by omega
      by_cases hcs : c < nS
      · have h1 := hasDerivAt_JS_state nS Jf DJf z i c (fun l => nS + k*nS + l) hcs (fun l => by omega)
          (fun l hl => hJ z i l c hi hl hcs)
        have h2 := h1.add (hG z i k c hi hk hcs)
        refine h2.congr_deriv ?_
        simp only [hrs, hrp, hcs, if_true, if_false, matAdd, sensJacobianState, hsub]
        rw [sensJacobianState_entry nS _ _ k i c hi hcs, add_comm]
        congr 1
        apply sumTo_congr
        intro l hl
        simp only [dropV]
        rw [hsym z i l c hi hl hcs, Nat.add_assoc]
      · have h1 := hasDerivAt_JS_sens nS Jf z i c (fun l => nS + k*nS + l) (by omega) hJl
        have e3 : (fun v => Gf (update z c v) i k) = (fun _ => Gf z i k) := by
          funext v; rw [hGl z c v (by omega)]
        have h2 := h1.add (e3 ▸ hasDerivAt_const (z c) (Gf z i k))
        refine h2.congr_deriv ?_
        simp only [hrs, hrp, hcs, if_true, if_false, hsub, add_zero]
        by_cases hcp : c < nS + nS*nP
        · simp only [hcp, if_true]
          rw [← kron_eye_entry nS (Jf z) k i (c - nS) hi]
          apply sumTo_congr
          intro l _
          have : (nS + k*nS + l = c) ↔ (k*nS + l = c - nS) := by omega
          simp only [this]
        · simp only [hcp, if_false]
          refine (sumTo_congr nS _ (fun _ => (0:ℝ)) (fun l hl => ?_)).trans (sumTo_zero' nS)
          have hlt := idx_lt hl hk
          have : ¬ (nS + k*nS + l = c) := by omega
          simp [this]
    · -- an initial-value row  r = nS + nS*nP + k*nS + i
      have hm : r - nS - nS*nP < nS*nS := by omega
      have hn : 0 < nS := pos_of_lt_mul hm
      obtain ⟨k, i, hi, hk, rfl⟩ : ∃ k i, i < nS ∧ k < nS ∧ r = nS + nS*nP + (k*nS + i) :=
        ⟨(r - nS - nS*nP) / nS, (r - nS - nS*nP) % nS, Nat.mod_lt _ hn, div_lt_of_lt_mul' hm, by
          have := Nat.div_add_mod' (r - nS - nS*nP) nS; omega⟩
      have e : (fun v => augRhsIV nS nP f Jf Gf (update z c v) (nS + nS*nP + (k*nS + i)))
          = (fun v => sumTo nS (fun l => Jf (update z c v) i l * (update z c v) (nS + nS*nP + k*nS + l))) := by
        funext v
        simp only [augRhsIV]
        rw [(sensIV_layout nS nP _ _ _ _ i k hi).2.2]
        apply sumTo_congr; intro l _
        have : nS + (nS*nP + (k*nS + l)) = nS + nS*nP + k*nS + l := by omega
        rw [this]
      rw [e]
      have hsub : nS + nS*nP + (k*nS + i) - nS - nS*nP = k*nS + i := by omega
      by_cases hcs : c < nS
      · have h1 := hasDerivAt_JS_state nS Jf DJf z i c (fun l => nS + nS*nP + k*nS + l) hcs (fun l => by omega)
          (fun l hl => hJ z i l c hi hl hcs)
        refine h1.congr_deriv ?_
        simp only [hrs, hrp, hcs, if_true, if_false, hsub]
        rw [sensJacobianState_entry nS _ _ k i c hi hcs]
        apply sumTo_congr
        intro l hl
        simp only [dropV]
        rw [hsym z i l c hi hl hcs]
        have : nS*(nP+1) + (k*nS + l) = nS + nS*nP + k*nS + l := by ring
        rw [this]
      · have h1 := hasDerivAt_JS_sens nS Jf z i c (fun l => nS + nS*nP + k*nS + l) (by omega) hJl
        refine h1.congr_deriv ?_
        simp only [hrs, hrp, hcs, if_true, if_false, hsub]
        by_cases hcp : c < nS + nS*nP
        · simp only [hcp, if_true]
          refine (sumTo_congr nS _ (fun _ => (0:ℝ)) (fun l hl => ?_)).trans (sumTo_zero' nS)
          have : ¬ (nS + nS*nP + k*nS + l = c) := by omega
          simp [this]
        · simp only [hcp, if_false]
          rw [← kron_eye_entry nS (Jf z) k i (c - nS - nS*nP) hi]
          apply sumTo_congr
          intro l _
          have : (nS + nS*nP + k*nS + l = c) ↔ (k*nS + l = c - nS - nS*nP) := by omega
          simp only [this]

/-! ### the by-state arrangement -/

/-- entry of `np.kron(J, np.eye(nP))` against the indicator sum of `hasDerivAt_JS_sens` (strided reads) -/
theorem kron_J_eye_entry (nS nP : ℕ) (J : Mat ℝ) (k i c' : ℕ) (hk : k < nP) (hc' : c' < nS*nP) :
    sumTo nS (fun l => J i l * (if l*nP + k = c' then (1:ℝ) else 0))
      = kron nP nP J (eye : Mat ℝ) (i*nP + k) c' := by
  have hn : 0 < nP := by omega
  have hd : c' / nP < nS := by
    rw [Nat.div_lt_iff_lt_mul hn]; exact hc'
  have e : sumTo nS (fun l => J i l * (if l*nP + k = c' then (1:ℝ) else 0))
      = sumTo nS (fun l => if l = c' / nP then (if k = c' % nP then J i l else 0) else 0) := by
    apply sumTo_congr
    intro l hl
    by_cases h : l*nP + k = c'
    · subst h; simp [idx_mod l hk, idx_div l hk]
    · have : ¬ (l = c' / nP ∧ k = c' % nP) := by
        rintro ⟨h1, h2⟩
        apply h
        rw [h1, h2]; exact Nat.div_add_mod' c' nP
      by_cases h1 : l = c' / nP
      · have h2 : ¬ k = c' % nP := fun h2 => this ⟨h1, h2⟩
        rw [if_neg h, if_pos h1, if_neg h2, mul_zero]
      · rw [if_neg h, if_neg h1, mul_zero]
  rw [e, sumTo_indicator]
  simp [kron, eye, hd, idx_mod i hk, idx_div i hk]

/-- **by state, repaired.**  The matrix of the proposed repair is, entry by entry, the derivative of
`ode_and_sensitivity(z, t, by_state=True)`. -/
theorem aug_jacobian_by_state_repaired_is_derivative (nS nP : ℕ)
    (f : (ℕ → ℝ) → ℕ → ℝ) (Jf Gf DJf GJf : (ℕ → ℝ) → ℕ → ℕ → ℝ)
    (hfl : ∀ x c v, nS ≤ c → f (update x c v) = f x)
    (hJl : ∀ x c v, nS ≤ c → Jf (update x c v) = Jf x)
    (hGl : ∀ x c v, nS ≤ c → Gf (update x c v) = Gf x)
    (hf : ∀ x i j, i < nS → j < nS → HasDerivAt (fun v => f (update x j v) i) (Jf x i j) (x j))
    (hJ : ∀ x i l j, i < nS → l < nS → j < nS →
      HasDerivAt (fun v => Jf (update x j v) i l) (DJf x (i*nS + l) j) (x j))
    (hG : ∀ x i k j, i < nS → k < nP → j < nS →
      HasDerivAt (fun v => Gf (update x j v) i k) (GJf x (k*nS + i) j) (x j))
    (hsym : ∀ x e a b, e < nS → a < nS → b < nS → DJf x (e*nS + a) b = DJf x (e*nS + b) a)
    (z : ℕ → ℝ) (r c : ℕ) (hr : r < nS + nS*nP) (hc : c < nS + nS*nP) :
    HasDerivAt (fun v => augRhs nS nP f Jf Gf true (update z c v) r)
      (odeAndSensitivityJacobianByStateRepaired nS nP (Jf z) (GJf z) (DJf z) z r c) (z c) := by
  by_cases hrs : r < nS
  · have e : (fun v => augRhs nS nP f Jf Gf true (update z c v) r) = (fun v => f (update z c v) r) := by
      funext v; simp [augRhs, odeAndSensitivity, hrs]
    rw [e]
    by_cases hcs : c < nS
    · simpa [odeAndSensitivityJacobianByStateRepaired, bmat22, hrs, hcs] using hf z r c hrs hcs
    · have e2 : (fun v => f (update z c v) r) = (fun _ => f z r) := by
        funext v; rw [hfl z c v (by omega)]
      rw [e2]
      simpa [odeAndSensitivityJacobianByStateRepaired, bmat22, hrs, hcs] using hasDerivAt_const (z c) (f z r)
  · -- a sensitivity row  r = nS + i*nP + k
    have hm : r - nS < nP*nS := by rw [Nat.mul_comm]; omega
    have hn : 0 < nP := pos_of_lt_mul hm
    obtain ⟨i, k, hk, hi, rfl⟩ : ∃ i k, k < nP ∧ i < nS ∧ r = nS + (i*nP + k) :=
      ⟨(r - nS) / nP, (r - nS) % nP, Nat.mod_lt _ hn, div_lt_of_lt_mul' hm, by
        have := Nat.div_add_mod' (r - nS) nP; omega⟩
    have e : (fun v => augRhs nS nP f Jf Gf true (update z c v) (nS + (i*nP + k)))
        = (fun v => sumTo nS (fun l => Jf (update z c v) i l * (update z c v) (nS + (l*nP + k)))
            + Gf (update z c v) i k) := by
      funext v
      simp only [augRhs]
      rw [sens_layout_by_state nS nP _ _ _ _ i k hk]
    rw [e]
    have hsub : nS + (i*nP + k) - nS = i*nP + k := by omega
    by_cases hcs : c < nS
    · have h1 := hasDerivAt_JS_state nS Jf DJf z i c (fun l => nS + (l*nP + k)) hcs (fun l => by omega)
        (fun l hl => hJ z i l c hi hl hcs)
      have h2 := h1.add (hG z i k c hi hk hcs)
      refine h2.congr_deriv ?_
      simp only [odeAndSensitivityJacobianByStateRepaired, bmat22, hrs, hcs, if_true, if_false, matAdd, hsub,
        idx_mod i hk, idx_div i hk]
      rw [sensJacobianState_entry nS _ _ k i c hi hcs, add_comm]
      congr 1
      apply sumTo_congr
      intro l hl
      simp only [matToVecSens, flattenF, reshapeC, dropV, idx_mod k hl, idx_div k hl]
      rw [hsym z i l c hi hl hcs]
    · have h1 := hasDerivAt_JS_sens nS Jf z i c (fun l => nS + (l*nP + k)) (by omega) hJl
      have e3 : (fun v => Gf (update z c v) i k) = (fun _ => Gf z i k) := by
        funext v; rw [hGl z c v (by omega)]
      have h2 := h1.add (e3 ▸ hasDerivAt_const (z c) (Gf z i k))
      refine h2.congr_deriv ?_
      simp only [odeAndSensitivityJacobianByStateRepaired, bmat22, hrs, hcs, if_false, hsub, add_zero]
      rw [← kron_J_eye_entry nS nP (Jf z) k i (c - nS) hk (by omega)]
      apply sumTo_congr
      intro l _
      have : (nS + (l*nP + k) = c) ↔ (l*nP + k = c - nS) := by omega
      simp only [this]

/-! ### the by-state matrix as coded -/

/-- whenever the matrix as coded differs from the repaired one in an entry, that entry is NOT the derivative
(derivatives are unique and the repaired entry is the derivative) -/
theorem aug_jacobian_by_state_coded_not_derivative (nS nP : ℕ)
    (f : (ℕ → ℝ) → ℕ → ℝ) (Jf Gf DJf GJf : (ℕ → ℝ) → ℕ → ℕ → ℝ)
    (hfl : ∀ x c v, nS ≤ c → f (update x c v) = f x)
    (hJl : ∀ x c v, nS ≤ c → Jf (update x c v) = Jf x)
    (hGl : ∀ x c v, nS ≤ c → Gf (update x c v) = Gf x)
    (hf : ∀ x i j, i < nS → j < nS → HasDerivAt (fun v => f (update x j v) i) (Jf x i j) (x j))
    (hJ : ∀ x i l j, i < nS → l < nS → j < nS →
      HasDerivAt (fun v => Jf (update x j v) i l) (DJf x (i*nS + l) j) (x j))
    (hG : ∀ x i k j, i < nS → k < nP → j < nS →
      HasDerivAt (fun v => Gf (update x j v) i k) (GJf x (k*nS + i) j) (x j))
    (hsym : ∀ x e a b, e < nS → a < nS → b < nS → DJf x (e*nS + a) b = DJf x (e*nS + b) a)
    (z : ℕ → ℝ) (r c : ℕ) (hr : r < nS + nS*nP) (hc : c < nS + nS*nP)
    (hne : odeAndSensitivityJacobian nS nP (Jf z) (GJf z) (DJf z) z true r c
            ≠ odeAndSensitivityJacobianByStateRepaired nS nP (Jf z) (GJf z) (DJf z) z r c) :
    ¬ HasDerivAt (fun v => augRhs nS nP f Jf Gf true (update z c v) r)
      (odeAndSensitivityJacobian nS nP (Jf z) (GJf z) (DJf z) z true r c) (z c) := fun h =>
  hne (h.unique (aug_jacobian_by_state_repaired_is_derivative nS nP f Jf Gf DJf GJf hfl hJl hGl hf hJ hG hsym z r c hr hc))

end deriv

/-- linear system `x' = A x` with `A = [[1,2],[3,4]]`, two states, three parameters -/
def Jc : Mat Int := fun i j => 2*(i:Int) + (j:Int) + 1
def Zc : Mat Int := fun _ _ => 0

/-- FULL STATEMENT (false of the code): every entry of `ode_and_sensitivity_jacobian(z,t,by_state=True)` is the
derivative of the corresponding component of `ode_and_sensitivity(z,t,by_state=True)`.
For `nS = 2, nP = 3`, `f = A x`: the `arrangeVector` loop yields the row selection `[0,1,1,2,2,3]` (not even a
permutation) of `I_3 ⊗ A`, whereas the derivative is `A ⊗ I_3`: entry (3,3) is 4 instead of 1. -/
theorem aug_jacobian_by_state_counterexample :
    (List.range 6).map (arrangeVector 2) = [0, 1, 1, 2, 2, 3] ∧
    odeAndSensitivityJacobian 2 3 Jc Zc Zc (fun _ => 0) true 3 3 = 4 ∧
    odeAndSensitivityJacobianByStateRepaired 2 3 Jc Zc Zc (fun _ => 0) 3 3 = 1 := by
  decide

/-! ### the same refutation over the reals: the statement "the by-state matrix as coded is the derivative" is false -/
section refute

def Ar : ℕ → ℕ → ℝ := fun i j => 2*(i:ℝ) + (j:ℝ) + 1
/-- `f(x) = A x` on two states -/
def fr : (ℕ → ℝ) → ℕ → ℝ := fun x i => Ar i 0 * x 0 + Ar i 1 * x 1
def Jr : (ℕ → ℝ) → ℕ → ℕ → ℝ := fun _ => Ar
def Zr : (ℕ → ℝ) → ℕ → ℕ → ℝ := fun _ _ _ => 0

/-- FULL STATEMENT for the by-state arrangement as coded - refuted: for the linear system `x' = A x` (`nS = 2`, `nP = 3`)
all hypotheses of the derivative theorems hold, yet entry (3,3) of `ode_and_sensitivity_jacobian(by_state=True)` is not
the derivative of component 3 of `ode_and_sensitivity(by_state=True)` in `z_3`. -/
theorem aug_jacobian_by_state_as_coded_refuted (z : ℕ → ℝ) :
    ¬ HasDerivAt (fun v => augRhs 2 3 fr Jr Zr true (update z 3 v) 3)
      (odeAndSensitivityJacobian 2 3 (Jr z) (Zr z) (Zr z) z true 3 3) (z 3) := by
  have hu : ∀ (x : ℕ → ℝ) (c : ℕ) (v : ℝ) (k : ℕ), k < 2 → 2 ≤ c → update x c v k = x k := fun x c v k hk hc =>
    update_of_ne (by omega) _ _
  refine aug_jacobian_by_state_coded_not_derivative 2 3 fr Jr Zr Zr Zr ?_ ?_ ?_ ?_ ?_ ?_ ?_ z 3 3 (by norm_num) (by norm_num) ?_
  · intro x c v hc; funext i; simp [fr, hu x c v 0 (by norm_num) hc, hu x c v 1 (by norm_num) hc]
  · intro x c v _; rfl
  · intro x c v _; rfl
  · intro x i j _ hj
    have hj' : j = 0 ∨ j = 1 := by omega
    rcases hj' with rfl | rfl
    · have e : (fun v => fr (update x 0 v) i) = (fun v => Ar i 0 * v + Ar i 1 * x 1) := by
        funext v; simp [fr]
      rw [e]
      simpa [Jr] using ((hasDerivAt_id (x 0)).const_mul (Ar i 0)).add_const (Ar i 1 * x 1)
    · have e : (fun v => fr (update x 1 v) i) = (fun v => Ar i 0 * x 0 + Ar i 1 * v) := by
        funext v; simp [fr]
      rw [e]
      simpa [Jr] using ((hasDerivAt_id (x 1)).const_mul (Ar i 1)).const_add (Ar i 0 * x 0)
  · intro x i l j _ _ _; simpa [Jr, Zr] using hasDerivAt_const (x j) (Ar i l)
  · intro x i k j _ _ _; simpa [Zr] using hasDerivAt_const (x j) (0:ℝ)
  · intro x e a b _ _ _; rfl
  · simp [odeAndSensitivityJacobian, odeAndSensitivityJacobianByStateRepaired, bmat22, arrangeVector, kron, eye, Jr, Ar]
    norm_num

end refute

/-! ## reshape round trips -/
section roundtrip
variable {α : Type}

theorem matToVecSens_vecToMatSens (nS : ℕ) (s : Vec α) (m : ℕ) :
    matToVecSens nS (vecToMatSens nS s) m = s m := by
  simp [matToVecSens, vecToMatSens, flattenF, reshapeF, Nat.div_add_mod']

theorem vecToMatSens_matToVecSens (nS : ℕ) (S : Mat α) (i k : ℕ) (hi : i < nS) :
    vecToMatSens nS (matToVecSens nS S) i k = S i k := by
  simp [matToVecSens, vecToMatSens, flattenF, reshapeF, idx_mod k hi, idx_div k hi]

theorem matToVecFF_vecToMatFF (nP : ℕ) (ff : Vec α) (m : ℕ) :
    matToVecFF nP (vecToMatFF nP ff) m = ff m := by
  simp [matToVecFF, vecToMatFF, flattenC, reshapeC, Nat.div_add_mod']

theorem vecToMatFF_matToVecFF (nP : ℕ) (FF : Mat α) (r b : ℕ) (hb : b < nP) :
    vecToMatFF nP (matToVecFF nP FF) r b = FF r b := by
  simp [matToVecFF, vecToMatFF, flattenC, reshapeC, idx_mod r hb, idx_div r hb]

/-- the driver's list <-> function glue loses nothing -/
theorem toList_ofList [Zero α] (l : List α) : toList l.length (ofList l) = l := by
  apply List.ext_getElem
  · simp [toList]
  · intro i h1 h2
    simp [toList, ofList, Array.getD, h2]

end roundtrip

/-! ## sessions: several evaluations on live instances

Everything above is about functions of `(z, f, J, G, DJ, GJ)`.  On a real instance `f, J, G, DJ, GJ` are the
evaluators of the CURRENT definition at the CURRENT parameter values, applied to the state part of `z` and
to `t` (`Inst`).  `model.parameters = ...`, `add_event`, `add_ode`, ... replace them (`SOp.assign`); an
evaluation returns the pure function of its own arguments and the current evaluators.  The live instance
may carry anything from the previous call (`Live.last`, written by every evaluation): it is never read.
`harness/props/c13.py` replays such sessions on the real code (kept results, revisits after a parameter
re-assignment / an added transition / another time, sibling instances, input containers - the
representation of `z` does not exist in the model: a list, a tuple, an int array of the same numbers ARE
the same `z`). -/
section session
variable {α : Type} [Zero α] [One α] [Add α] [Mul α]

/-- what the sensitivity systems read from an instance -/
structure Inst (α : Type) where
  nS : ℕ
  nP : ℕ
  f  : Vec α → α → Vec α
  J  : Vec α → α → Mat α
  G  : Vec α → α → Mat α
  DJ : Vec α → α → Mat α
  GJ : Vec α → α → Mat α

inductive Out (α : Type) where
  | vec (v : Vec α)
  | mat (M : Mat α)

/-- one call on an instance; `len = len(state_param)` for the initial-value system -/
inductive SOp (α : Type) where
  | assign (d : Inst α)
  | rhs (z : Vec α) (t : α) (byState : Bool)
  | rhsIV (len : ℕ) (z : Vec α) (t : α)
  | jac (z : Vec α) (t : α) (byState : Bool)
  | jacIV (z : Vec α) (t : α)

/-- the single-call functions -/
def Inst.eval (d : Inst α) : SOp α → Option (Out α)
  | .assign _ => none
  | .rhs z t b => some (.vec (odeAndSensitivity d.nS d.nP (d.f z t) (d.J z t) (d.G z t) z b))
  | .rhsIV len z t => some (.vec (odeAndSensitivityIV d.nS d.nP len (d.f z t) (d.J z t) (d.G z t) z))
  | .jac z t b => some (.mat (odeAndSensitivityJacobian d.nS d.nP (d.J z t) (d.GJ z t) (d.DJ z t) z b))
  | .jacIV z t => some (.mat (odeAndSensitivityIVJacobian d.nS d.nP (d.J z t) (d.GJ z t) (d.DJ z t) z))

def SOp.next (d : Inst α) : SOp α → Inst α
  | .assign d' => d'
  | _ => d

structure Live (α : Type) where
  cur : Inst α
  last : Option (Out α)

def Live.step (s : Live α) (op : SOp α) : Live α × Option (Out α) :=
  match op with
  | .assign d => ({ s with cur := d }, none)
  | op => ({ s with last := s.cur.eval op }, s.cur.eval op)

def runOps (s : Live α) : List (SOp α) → Live α × List (Out α)
  | [] => (s, [])
  | op :: ops => ((runOps (s.step op).1 ops).1, (s.step op).2.toList ++ (runOps (s.step op).1 ops).2)

/-- what the same calls return when each is the single-call function of the evaluators assigned last -/
def pureOutputs (d : Inst α) : List (SOp α) → List (Out α)
  | [] => []
  | op :: ops => (d.eval op).toList ++ pureOutputs (op.next d) ops

theorem step_spec (s : Live α) (op : SOp α) :
    (s.step op).2 = s.cur.eval op ∧ (s.step op).1.cur = op.next s.cur := by
  cases op <;> exact ⟨rfl, rfl⟩

/-- **session_is_pure.**  For EVERY history of evaluations and re-definitions on one instance, whatever it
carried at the start, the values returned are the single-call functions of each call's own `(z, t)` and
the evaluators assigned last. -/
theorem session_is_pure (s : Live α) (ops : List (SOp α)) :
    (runOps s ops).2 = pureOutputs s.cur ops := by
  induction ops generalizing s with
  | nil => rfl
  | cons op ops ih =>
    obtain ⟨h1, h2⟩ := step_spec s op
    simp only [runOps, pureOutputs]
    rw [ih, h1, h2]

/-- **earlier_results_kept.**  Continuing a session never changes what it has already returned. -/
theorem earlier_results_kept (s : Live α) (ops more : List (SOp α)) :
    (runOps s (ops ++ more)).2 = (runOps s ops).2 ++ (runOps (runOps s ops).1 more).2 := by
  induction ops generalizing s with
  | nil => rfl
  | cons op ops ih => simp only [List.cons_append, runOps, ih, List.append_assoc]

/-- **revisit_reproduces.**  Evaluate, re-define (other parameter values, an added transition), evaluate the
same call, restore, evaluate again: the second result is the single-call function of the NEW evaluators,
the third equals the first. -/
theorem revisit_reproduces (s : Live α) (d' : Inst α) (e : SOp α) (he : ∀ d, e.next d = d) :
    (runOps s [e, .assign d', e, .assign s.cur, e]).2
      = (s.cur.eval e).toList ++ (d'.eval e).toList ++ (s.cur.eval e).toList := by
  rw [session_is_pure]
  simp [pureOutputs, SOp.next, he, Inst.eval]

/-- two live instances, calls interleaved (`true` = the first) -/
def runTwo (a b : Live α) : List (Bool × SOp α) → List (Bool × Out α)
  | [] => []
  | (true, op) :: ops => (a.step op).2.toList.map (Prod.mk true) ++ runTwo (a.step op).1 b ops
  | (false, op) :: ops => (b.step op).2.toList.map (Prod.mk false) ++ runTwo a (b.step op).1 ops

/-- **instances_do_not_interact.**  What the first instance returns in an interleaved session is what it
returns when the other instance's calls are left out. -/
theorem instances_do_not_interact (a b : Live α) (ops : List (Bool × SOp α)) :
    ((runTwo a b ops).filter (fun p => p.1)).map (fun p => p.2)
      = (runOps a ((ops.filter (fun p => p.1)).map (fun p => p.2))).2 := by
  induction ops generalizing a b with
  | nil => rfl
  | cons hd ops ih =>
    obtain ⟨w, op⟩ := hd
    cases w with
    | true =>
      simp only [runTwo, List.filter_append, List.map_append, List.filter_cons_of_pos, List.map_cons, runOps, ih]
      congr 1
      cases (a.step op).2 <;> simp
    | false =>
      simp only [runTwo, List.filter_append, List.map_append, ih]
      cases (b.step op).2 <;> simp

end session

/-! A memo of `J` keyed on `(t, state)` inside the sensitivity evaluator (the seeded changes C13-a2 / C13-b2
have this shape) is NOT such a function.  One state, one parameter, integers: `f = θ·x`, `J = θ`, `G = x`. -/
section memo

structure MemoInst where
  theta : Int
  memo : Option ((Int × Int) × Int)

/-- `sensitivity` with the remembered `J`: `(J·s + G)` at state `x`, sensitivity `s`, time `t` -/
def MemoInst.sens (m : MemoInst) (x s t : Int) : MemoInst × Int :=
  let j := match m.memo with
    | some (k, v) => if k = (t, x) then v else m.theta
    | none => m.theta
  ({ m with memo := some ((t, x), j) }, j * s + x)

/-- **memo_keyed_on_point_counterexample.**  `θ = 1`, evaluate at `x = 2, s = 3, t = 0`; re-assign `θ = 5`;
evaluate at the same point: the variant answers `1·3 + 2 = 5` again, the model of the real code (the same
session through `runOps`) answers `5·3 + 2 = 17`. -/
theorem memo_keyed_on_point_counterexample :
    let m0 : MemoInst := { theta := 1, memo := none }
    let m1 := (m0.sens 2 3 0).1
    (m0.sens 2 3 0).2 = 5 ∧ (({ m1 with theta := 5 } : MemoInst).sens 2 3 0).2 = 5 ∧
    (let d : Int → Inst Int := fun th =>
        { nS := 1, nP := 1, f := fun z _ _ => th * z 0, J := fun _ _ _ _ => th, G := fun z _ _ _ => z 0,
          DJ := fun _ _ _ _ => 0, GJ := fun _ _ _ _ => 1 }
     let z : Vec Int := fun i => if i = 0 then 2 else 3
     (pureOutputs (d 1) [.rhs z 0 false, .assign (d 5), .rhs z 0 false]).map
        (fun o => match o with | .vec v => v 1 | .mat _ => 0) = [5, 17]) := by
  refine ⟨by decide, by decide, by decide⟩

end memo

/-! ## non-vacuity: the hypotheses of the derivative theorems are satisfiable by a non-linear system
(`nS = nP = 1`, `f = x²·θ`-like: `f = x²`, `J = 2x`, `G = x`, `dJ = 2`, `dG = 1`) -/
section nonvacuity

def f0 : (ℕ → ℝ) → ℕ → ℝ := fun x _ => x 0 * x 0
def J0 : (ℕ → ℝ) → ℕ → ℕ → ℝ := fun x _ _ => 2 * x 0
def G0 : (ℕ → ℝ) → ℕ → ℕ → ℝ := fun x _ _ => x 0
def DJ0 : (ℕ → ℝ) → ℕ → ℕ → ℝ := fun _ _ _ => 2
def GJ0 : (ℕ → ℝ) → ℕ → ℕ → ℝ := fun _ _ _ => 1

example (z : ℕ → ℝ) :
    HasDerivAt (fun v => augRhs 1 1 f0 J0 G0 false (update z 0 v) 1)
      (odeAndSensitivityJacobian 1 1 (J0 z) (GJ0 z) (DJ0 z) z false 1 0) (z 0) := by
  have hu : ∀ (x : ℕ → ℝ) (c : ℕ) (v : ℝ), 1 ≤ c → update x c v 0 = x 0 := fun x c v hc =>
    update_of_ne (by omega) _ _
  refine aug_jacobian_is_derivative 1 1 f0 J0 G0 DJ0 GJ0 ?_ ?_ ?_ ?_ ?_ ?_ ?_ z 1 0 (by norm_num) (by norm_num)
  · intro x c v hc; funext i; simp [f0, hu x c v hc]
  · intro x c v hc; funext i l; simp [J0, hu x c v hc]
  · intro x c v hc; funext i l; simp [G0, hu x c v hc]
  · intro x i j _ hj
    have hj0 : j = 0 := by omega
    subst hj0
    have h := (hasDerivAt_id (x 0)).mul (hasDerivAt_id (x 0))
    simp only [f0, J0, update_self]
    refine h.congr_deriv ?_
    simp; ring
  · intro x i l j _ _ hj
    have hj0 : j = 0 := by omega
    subst hj0
    simp only [J0, DJ0, update_self]
    simpa using (hasDerivAt_id (x 0)).const_mul (2:ℝ)
  · intro x i k j _ _ hj
    have hj0 : j = 0 := by omega
    subst hj0
    simp only [G0, GJ0, update_self]
    exact hasDerivAt_id (x 0)
  · intro x e a b _ _ _; rfl

end nonvacuity
end C13
end Pygom
