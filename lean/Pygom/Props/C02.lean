/-
C02 — deterministic solvers return the ODE solution at each requested time.
PARTIAL: "scipy's integrators approximate the flow within tolerance" is an assumption (the object
`S : Sys T X` with the identity and semigroup laws `Laws S`); it is validated at run time by the harness.

What is proved here, for EVERY state type, time type, grid (any length, uniform or not), method string,
both `full_output` values and every aliasing table: the row bookkeeping of `integrateFuncJac`,
`integrate`, `integrate2`, `solve_determ` returns one row per requested time, in order, preceded by the
initial state where the origin is included, each row being the flow at that time — provided the code
copies `r.y`, or the integrator does not alias its buffer, or the full-output path is taken
(`rows_correct`); and that otherwise every non-origin row is the FINAL state (`rows_aliased`, the defect
repaired in /repo by `r.y.copy()`).
-/
import Pygom.Lemmas.Integrate
import Mathlib.Tactic.Ring
import Mathlib.Algebra.Field.Rat

set_option linter.unusedSimpArgs false
set_option linter.unusedVariables false

namespace Pygom.C02
open Pygom

variable {T X : Type}

/-! ### property theorems -/

/-- **rows_correct.**  If the code copies `r.y`, or the integrator in use does not alias its buffer, or
the full-output path is taken, `integrateFuncJac` returns — for every grid `ts` (any length, uniform or
not), every method string and both `full_output` values — the initial state (when `includeOrigin`)
followed by the flow at each requested time, in order.  (The full-output case uses the semigroup law:
the integrator is restarted from `(o1, deltaT)` after every step.) -/
theorem rows_correct (S : Sys T X) (L : Laws S) (c : ICfg) (x0 : X) (t0 : T) (ts : List T)
    (h : c.copyOnRead = true ∨ c.aliased (startIntegrator c.method) = false ∨ c.fullOutput = true) :
    (integrateFuncJacL S c x0 t0 ts).rows
      = (if c.includeOrigin then [x0] else []) ++ ts.map (fun t => S.flow t t0 x0) := by
  have hsafe : c.fullOutput = true ∨
      (c.aliased (setupIntegrator (some (initialMethod S c x0 t0))) && !c.copyOnRead) = false := by
    by_cases hf : c.fullOutput = true
    · exact Or.inl hf
    · right
      have hf' : c.fullOutput = false := by simpa using hf
      rw [initialMethod_of_not_full S c x0 t0 hf']
      rcases h with h | h | h
      · simp [h]
      · simp [h]
      · exact absurd h hf
  have hfold := fold_good S L c x0 t0 ts _ (init_good S L c x0 t0 hsafe)
  unfold integrateFuncJacL
  simp only [List.map_reverse]
  rw [hfold]
  simp only [List.reverse_append, List.reverse_reverse, initState]
  cases c.includeOrigin <;> simp [derefCell]

/-- the same through the public signature (scalar `t` is promoted to a one-point grid) -/
theorem rows_correct_scalar (S : Sys T X) (L : Laws S) (c : ICfg) (x0 : X) (t0 t : T)
    (h : c.copyOnRead = true ∨ c.aliased (startIntegrator c.method) = false ∨ c.fullOutput = true) :
    (integrateFuncJac S c x0 t0 (.scalar t)).map (·.rows)
      = .ok ((if c.includeOrigin then [x0] else []) ++ [S.flow t t0 x0]) := by
  simp [integrateFuncJac, Except.map, rows_correct S L c x0 t0 [t] h]

/-- **rows_aliased** (the defect as a theorem).  With an integrator that hands out its internal buffer,
no copy, and the single-integrator path, every requested row equals the state at the LAST requested time. -/
theorem rows_aliased (S : Sys T X) (L : Laws S) (c : ICfg) (x0 : X) (t0 : T) (ts : List T)
    (hal : c.aliased (startIntegrator c.method) = true) (hcp : c.copyOnRead = false) (hf : c.fullOutput = false) :
    (integrateFuncJacL S c x0 t0 ts).rows
      = (if c.includeOrigin then [x0] else [])
        ++ ts.map (fun _ => S.flow ((t0 :: ts).getLast (by simp)) t0 x0) := by
  have hal' : (c.aliased (initState S c x0 t0).r.integ && !c.copyOnRead) = true := by
    have := initialMethod_of_not_full S c x0 t0 hf
    simp only [initState]
    rw [this, hal, hcp]; rfl
  obtain ⟨h1, h2⟩ := fold_aliased S L c x0 t0 hf ts (initState S c x0 t0) hal' (by simp [initState, L.id])
  unfold integrateFuncJacL
  simp only
  rw [h1]
  have hid : (initState S c x0 t0).r.id = 0 := rfl
  have ht : (initState S c x0 t0).r.t = t0 := rfl
  rw [hid] at h2 ⊢
  rw [ht] at h2
  simp only [List.reverse_append, List.reverse_replicate, List.map_append, List.map_replicate, derefCell, h2]
  have hc : (initState S c x0 t0).cells = if c.includeOrigin then [Cell.val x0] else [] := rfl
  rw [hc]
  cases c.includeOrigin <;> simp [derefCell, List.map_const']

/-- **integrate_rows.**  `model.integrate(t)` (odeint on `t0 :: t`): one row per requested time, in order,
preceded by `x0`. -/
theorem integrate_rows (S : Sys T X) (x0 : X) (t0 t : T) (ts : List T) :
    modelIntegrate S x0 t0 (.list (t :: ts)) = .ok (x0 :: (t :: ts).map (fun u => S.flow u t0 x0)) ∧
    modelIntegrate S x0 t0 (.scalar t) = .ok [x0, S.flow t t0 x0] := by
  constructor <;> rfl

/-- **solve_determ_rows.**  `model.solve_determ(t)` with fixed parameters is `integrate(t)`. -/
theorem solve_determ_rows (S : Sys T X) (x0 : X) (t0 t : T) (ts : List T) :
    solveDeterm S x0 t0 (some (.list (t :: ts))) = .ok (x0 :: (t :: ts).map (fun u => S.flow u t0 x0)) ∧
    solveDeterm S x0 t0 (some (.scalar t)) = .ok [x0, S.flow t t0 x0] ∧
    solveDeterm S x0 t0 none = .error .inputError := by
  refine ⟨rfl, rfl, rfl⟩

/-- **integrate2_rows.**  `model.integrate2(t, full_output, method)`: for every method string, every
aliasing table and whether or not `r.y` is copied (the full-output path is always taken), one row per
requested time, in order, preceded by `x0`. -/
theorem integrate2_rows (S : Sys T X) (L : Laws S) (aliased : Integrator → Bool) (copy : Bool)
    (method : Option String) (x0 : X) (t0 t : T) (ts : List T) :
    (modelIntegrate2 S aliased copy method x0 t0 (.list (t :: ts))).map (·.rows)
      = .ok (x0 :: (t :: ts).map (fun u => S.flow u t0 x0)) ∧
    (modelIntegrate2 S aliased copy method x0 t0 (.scalar t)).map (·.rows) = .ok [x0, S.flow t t0 x0] := by
  constructor
  · simp only [modelIntegrate2, setIntegrateTime, Except.map]
    rw [rows_correct S L _ x0 t0 (t :: ts) (Or.inr (Or.inr rfl))]
    simp
  · simp only [modelIntegrate2, setIntegrateTime, Except.map]
    rw [rows_correct S L _ x0 t0 [t] (Or.inr (Or.inr rfl))]
    simp

/-- **method_dispatch.**  The decision tables, stated outright: `_setupIntegrator` maps the five
recognised strings to their integrators and everything else (None included) to lsoda;
`_determineIntegratorGivenEigenValue` picks lsoda when `max ≥ 0`, else dopri5 when `min ≥ −2`, else vode. -/
theorem method_dispatch :
    setupIntegrator (some "dopri5") = .dopri5 ∧ setupIntegrator (some "dop853") = .dop853 ∧
    setupIntegrator (some "vode") = .vodeAdams ∧ setupIntegrator (some "ivode") = .vodeBdf ∧
    setupIntegrator (some "lsoda") = .lsoda ∧ setupIntegrator none = .lsoda ∧
    (∀ s : String, s ∉ ["dopri5", "dop853", "vode", "ivode", "lsoda"] → setupIntegrator (some s) = .lsoda) ∧
    (∀ mx mn : Rat, 0 ≤ mx → determineIntegrator mx mn = "lsoda") ∧
    (∀ mx mn : Rat, ¬ 0 ≤ mx → -2 ≤ mn → determineIntegrator mx mn = "dopri5") ∧
    (∀ mx mn : Rat, ¬ 0 ≤ mx → ¬ -2 ≤ mn → determineIntegrator mx mn = "vode") := by
  refine ⟨by decide, by decide, by decide, by decide, by decide, by decide, ?_, ?_, ?_, ?_⟩
  · intro s hs
    simp only [List.mem_cons, List.not_mem_nil, or_false, not_or] at hs
    simp [setupIntegrator, hs]
  · intro mx mn h; simp [determineIntegrator, h]
  · intro mx mn h1 h2; simp [determineIntegrator, h1, h2]
  · intro mx mn h1 h2; simp [determineIntegrator, h1, h2]

/-- the method chosen at the start: the string given, else by eigenvalues when `full_output`, else lsoda -/
theorem initial_method (S : Sys T X) (c : ICfg) (x0 : X) (t0 : T) :
    (∀ m, c.method = some m → initialMethod S c x0 t0 = m) ∧
    (c.method = none → c.fullOutput = false → initialMethod S c x0 t0 = "lsoda") ∧
    (c.method = none → c.fullOutput = true →
      initialMethod S c x0 t0 = determineIntegrator (S.eig t0 x0).1 (S.eig t0 x0).2) := by
  refine ⟨?_, ?_, ?_⟩
  · intro m h; simp [initialMethod, h]
  · intro h hf; simp [initialMethod, h, hf]
  · intro h hf; simp [initialMethod, h, hf]

/-! ### sessions: several calls on one instance

The single-call theorems above say what one call returns as a function of `(x0, t0, t)`.  An instance also
carries `_odeTime` and `_odeSolution` from earlier calls; these theorems say that they never matter. -/

/-- one operation returns the single-call function of the values the instance holds, and leaves the
assigned values alone unless it is an assignment -/
theorem step_spec (E : SEnv T X) (s : Inst T X) (op : SOp T X) :
    (s.step E op).2 = op.out E (s.x0, s.t0) ∧
    ((s.step E op).1.x0, (s.step E op).1.t0) = op.assign (s.x0, s.t0) := by
  cases op with
  | setX0 x => exact ⟨rfl, rfl⟩
  | setT0 t => exact ⟨rfl, rfl⟩
  | setBoth x t => exact ⟨rfl, rfl⟩
  | integrate t =>
    simp only [Inst.step, Inst.integrate, SOp.out, SOp.assign, modelIntegrate]
    cases h : setIntegrateTime s.t0 t <;> simp [Except.map]
  | solveDeterm t =>
    cases t with
    | none => exact ⟨rfl, rfl⟩
    | some t =>
      simp only [Inst.step, Inst.integrate, SOp.out, SOp.assign, solveDeterm, modelIntegrate]
      cases h : setIntegrateTime s.t0 t <;> simp [Except.map]
  | integrate2 m t =>
    simp only [Inst.step, SOp.out, SOp.assign, modelIntegrate2]
    cases h : setIntegrateTime s.t0 t with
    | error e => simp [Except.map]
    | ok times =>
      cases times with
      | nil => simp [Except.map]
      | cons a rest => simp [Except.map]

/-- **session_is_pure.**  For EVERY history of assignments and solves on one instance, started from any
instance state (whatever `_odeTime` and `_odeSolution` hold), the results returned are exactly the
single-call functions (`modelIntegrate`, `solveDeterm`, `modelIntegrate2`) of each call's own arguments and
the initial state / time assigned last. -/
theorem session_is_pure (E : SEnv T X) (ops : List (SOp T X)) (s : Inst T X) :
    (runOps E s ops).2 = pureOutputs E (s.x0, s.t0) ops := by
  induction ops generalizing s with
  | nil => rfl
  | cons op ops ih =>
    obtain ⟨h1, h2⟩ := step_spec E s op
    simp only [runOps, pureOutputs]
    rw [ih, h1, h2]

/-- the instance a history leaves behind holds the values assigned last -/
theorem session_state (E : SEnv T X) (ops : List (SOp T X)) (s : Inst T X) :
    ((runOps E s ops).1.x0, (runOps E s ops).1.t0) = ops.foldl SOp.assign (s.x0, s.t0) := by
  induction ops generalizing s with
  | nil => rfl
  | cons op ops ih =>
    simp only [runOps, List.foldl_cons]
    rw [ih, (step_spec E s op).2]

/-- **earlier_results_kept.**  Continuing a session never changes what it has already returned: the outputs
of `ops` are a prefix of the outputs of `ops ++ more`, and the rest is the session `more` run from the
instance `ops` left behind. -/
theorem earlier_results_kept (E : SEnv T X) (ops more : List (SOp T X)) (s : Inst T X) :
    (runOps E s (ops ++ more)).2 = (runOps E s ops).2 ++ (runOps E (runOps E s ops).1 more).2 := by
  induction ops generalizing s with
  | nil => rfl
  | cons op ops ih => simp only [List.cons_append, runOps, ih, List.append_assoc]

/-- **solve_reads_current.**  After any history, `integrate` on a non-empty grid returns the state assigned
last followed by the flow FROM THE TIME ASSIGNED LAST at each requested time - in particular a grid solved
before, under another initial time, state or method, gives no stale rows. -/
theorem solve_reads_current (E : SEnv T X) (ops : List (SOp T X)) (s : Inst T X) (t : T) (ts : List T) :
    (runOps E s (ops ++ [.integrate (.list (t :: ts))])).2
      = (runOps E s ops).2 ++
        [.ok ((ops.foldl SOp.assign (s.x0, s.t0)).1 ::
              (t :: ts).map (fun u => E.S.flow u (ops.foldl SOp.assign (s.x0, s.t0)).2 (ops.foldl SOp.assign (s.x0, s.t0)).1))] := by
  rw [earlier_results_kept, session_is_pure E [_]]
  simp only [pureOutputs, SOp.out, Option.toList, List.append_nil]
  have h := session_state E ops s
  have hx : (runOps E s ops).1.x0 = (ops.foldl SOp.assign (s.x0, s.t0)).1 := congrArg Prod.fst h
  have ht : (runOps E s ops).1.t0 = (ops.foldl SOp.assign (s.x0, s.t0)).2 := congrArg Prod.snd h
  rw [hx, ht, (integrate_rows E.S _ _ t ts).1]

/-- the same for `integrate2` with any method (needs the laws: the full-output path restarts the integrator) -/
theorem solve2_reads_current (E : SEnv T X) (L : Laws E.S) (ops : List (SOp T X)) (s : Inst T X)
    (m : Option String) (t : T) (ts : List T) :
    (runOps E s (ops ++ [.integrate2 m (.list (t :: ts))])).2
      = (runOps E s ops).2 ++
        [.ok ((ops.foldl SOp.assign (s.x0, s.t0)).1 ::
              (t :: ts).map (fun u => E.S.flow u (ops.foldl SOp.assign (s.x0, s.t0)).2 (ops.foldl SOp.assign (s.x0, s.t0)).1))] := by
  rw [earlier_results_kept, session_is_pure E [_]]
  simp only [pureOutputs, SOp.out, Option.toList, List.append_nil]
  have h := session_state E ops s
  have hx : (runOps E s ops).1.x0 = (ops.foldl SOp.assign (s.x0, s.t0)).1 := congrArg Prod.fst h
  have ht : (runOps E s ops).1.t0 = (ops.foldl SOp.assign (s.x0, s.t0)).2 := congrArg Prod.snd h
  rw [hx, ht, (integrate2_rows E.S L E.aliased E.copyOnRead m _ _ t ts).1]

/-! A `_setIntegrateTime` that keeps the time vector it built last when the requested grid repeats (and so
does not look at the initial time) is NOT such a function: the statement above is about the code as it is. -/

/-- the variant: `integrate(t)` that re-uses `_odeTime` when `t` equals the grid solved last -/
def staleIntegrate (S : Sys Int Int) (s : Inst Int Int) (g : List Int) : Inst Int Int × List Int :=
  let times := match s.odeTime with
    | some (t0' :: old) => if old = g then t0' :: old else s.t0 :: g
    | _ => s.t0 :: g
  let rows := odeintRows S s.x0 times
  ({ s with odeTime := some times, odeSolution := some rows }, rows)

/-- **stale_grid_counterexample.**  Solve on `[6, 7]` from `t0 = 0`, move the initial time to `5`, solve on
the same grid: the variant repeats the rows of the first call, the model of the real code returns the flow
from `t0 = 5`. -/
theorem stale_grid_counterexample :
    let S : Sys Int Int := { flow := fun t t0 x => x + 3 * (t - t0), eig := fun _ _ => (-1, -3) }
    let s0 : Inst Int Int := { x0 := 10, t0 := 0 }
    let s1 := (staleIntegrate S s0 [6, 7]).1
    (staleIntegrate S s0 [6, 7]).2 = [10, 28, 31] ∧
    (staleIntegrate S { s1 with t0 := 5 } [6, 7]).2 = [10, 28, 31] ∧
    (runOps ⟨S, fun _ => false, true⟩ s0 [.integrate (.list [6, 7]), .setT0 5, .integrate (.list [6, 7])]).2
      = [.ok [10, 28, 31], .ok [10, 13, 16]] := by
  refine ⟨by decide, by decide, by rfl⟩

/-! ### the grid is an arbitrary list: repeated times, translated grids

`rows_correct` quantifies over EVERY list of times.  Two consequences that the harness probes on the real code (grids with
replicate times, grids far from the time origin) are stated outright. -/

/-- **row_at_requested_time.**  Under the hypothesis of `rows_correct`, the row returned for the `i`-th requested time is
the flow at that time — whatever the other times of the grid are (before it, after it, equal to it). -/
theorem row_at_requested_time (S : Sys T X) (L : Laws S) (c : ICfg) (x0 : X) (t0 : T) (ts : List T)
    (h : c.copyOnRead = true ∨ c.aliased (startIntegrator c.method) = false ∨ c.fullOutput = true)
    (i : Nat) (hi : i < ts.length) :
    (integrateFuncJacL S c x0 t0 ts).rows[(if c.includeOrigin then 1 else 0) + i]? = some (S.flow ts[i] t0 x0) := by
  rw [rows_correct S L c x0 t0 ts h]
  cases c.includeOrigin
  · simp [hi]
  · simp [Nat.add_comm 1 i, hi]

/-- **repeated_times_equal_rows.**  A time requested twice (replicate observations, `[1, 2, 2, 4, 6, 6, 8]`) gets the
same row twice: the flow at that time, not the initial state and not the previous row's neighbour. -/
theorem repeated_times_equal_rows (S : Sys T X) (L : Laws S) (c : ICfg) (x0 : X) (t0 : T) (ts : List T)
    (h : c.copyOnRead = true ∨ c.aliased (startIntegrator c.method) = false ∨ c.fullOutput = true)
    (i j : Nat) (hi : i < ts.length) (hj : j < ts.length) (heq : ts[i] = ts[j]) :
    (integrateFuncJacL S c x0 t0 ts).rows[(if c.includeOrigin then 1 else 0) + i]?
      = (integrateFuncJacL S c x0 t0 ts).rows[(if c.includeOrigin then 1 else 0) + j]? := by
  rw [row_at_requested_time S L c x0 t0 ts h i hi, row_at_requested_time S L c x0 t0 ts h j hj, heq]

/-- **rows_translation_invariant.**  For a translation-invariant flow (an autonomous system) the rows do not depend on
where the grid sits on the time axis: moving `t0` and every requested time by the same `d` (to day 738000, say) returns
the same rows.  No closeness test on times (absolute or relative to `|t|`) occurs in the bookkeeping. -/
theorem rows_translation_invariant [Add T] (S : Sys T X) (L : Laws S) (c : ICfg) (x0 : X) (t0 d : T) (ts : List T)
    (h : c.copyOnRead = true ∨ c.aliased (startIntegrator c.method) = false ∨ c.fullOutput = true)
    (hflow : ∀ t s x, S.flow (t + d) (s + d) x = S.flow t s x) :
    (integrateFuncJacL S c x0 (t0 + d) (ts.map (· + d))).rows = (integrateFuncJacL S c x0 t0 ts).rows := by
  rw [rows_correct S L c x0 (t0 + d) _ h, rows_correct S L c x0 t0 ts h]
  simp [List.map_map, Function.comp_def, hflow]

/-- a variant of the loop that "needs no step" when the requested time is the time the integrator stands at and hands out
the INITIAL state there (seeded change C06-c1; C02-c1 is the same test made with a relative tolerance) -/
def shortcutRows (S : Sys T X) [DecidableEq T] (x0 : X) (t0 : T) (ts : List T) : List X :=
  (ts.foldl (fun (acc : T × X × List X) dt =>
      if dt = acc.1 then (acc.1, acc.2.1, acc.2.2 ++ [x0])
      else (dt, S.flow dt acc.1 acc.2.1, acc.2.2 ++ [S.flow dt acc.1 acc.2.1])) (t0, x0, [])).2.2

/-- **repeated_time_shortcut_counterexample.**  On the grid `[1, 2, 2]` the variant returns the initial state for the
replicate, the model of the real code the flow at `t = 2` twice. -/
theorem repeated_time_shortcut_counterexample :
    let S : Sys Int Int := { flow := fun t t0 x => x + 3 * (t - t0), eig := fun _ _ => (-1, -3) }
    let c : ICfg := { aliased := fun _ => false, copyOnRead := true, fullOutput := false, includeOrigin := false, method := none }
    shortcutRows S 10 0 [1, 2, 2] = [13, 16, 10] ∧ (integrateFuncJacL S c 10 0 [1, 2, 2]).rows = [13, 16, 16] := by
  decide

/-! ### the driver's executable instance satisfies the laws -/

theorem linFlow_id (c : List Rat) (t : Rat) (x : List Rat) : linFlow c t t x = x := by
  induction x generalizing c with
  | nil => cases c <;> rfl
  | cons a xs ih =>
    cases c with
    | nil => rfl
    | cons c0 cs => simp only [linFlow, ih]; congr 1; ring

theorem linFlow_comp (c : List Rat) (t2 t1 t0 : Rat) (x : List Rat) :
    linFlow c t2 t1 (linFlow c t1 t0 x) = linFlow c t2 t0 x := by
  induction x generalizing c with
  | nil => cases c <;> rfl
  | cons a xs ih =>
    cases c with
    | nil => rfl
    | cons c0 cs => simp only [linFlow, ih]; congr 1; ring

theorem linSys_laws (c : List Rat) (a b : Rat × Rat × Rat) : Laws (linSys c a b) :=
  ⟨fun t x => linFlow_id c t x, fun t2 t1 t0 x => linFlow_comp c t2 t1 t0 x⟩

/-! ### non-vacuity -/

/-- a concrete flow on integers satisfying the laws -/
def demoSys : Sys Int Int := { flow := fun t t0 x => x + 3 * (t - t0), eig := fun _ _ => (-1, -3) }

theorem demo_laws : Laws demoSys := ⟨by intro t x; simp [demoSys], by intro t2 t1 t0 x; simp only [demoSys]; omega⟩

def demoCfg (copy full : Bool) : ICfg :=
  { aliased := fun i => i == .lsoda, copyOnRead := copy, fullOutput := full, includeOrigin := true, method := none }

/-- hypotheses of `rows_correct` are satisfiable, and its conclusion is what evaluation gives -/
example : (integrateFuncJacL demoSys (demoCfg true false) 10 0 [1, 2, 5]).rows = [10, 13, 16, 25] := by decide
example : (integrateFuncJacL demoSys (demoCfg false true) 10 0 [1, 2, 5]).rows = [10, 13, 16, 25] := by decide
/-- `repeated_times_equal_rows` / `rows_translation_invariant`: replicate times, and the same grid moved by 738000 -/
example : (integrateFuncJacL demoSys (demoCfg true false) 10 0 [1, 2, 2, 5]).rows = [10, 13, 16, 16, 25] := by decide
example : (integrateFuncJacL demoSys (demoCfg true false) 10 738000 [738001, 738002, 738002, 738005]).rows = [10, 13, 16, 16, 25] := by decide
example : ∀ t s x : Int, demoSys.flow (t + 738000) (s + 738000) x = demoSys.flow t s x := by intro t s x; simp only [demoSys]; omega
/-- hypotheses of `rows_aliased` are satisfiable: lsoda aliases, no copy, single-integrator path -/
example : (integrateFuncJacL demoSys (demoCfg false false) 10 0 [1, 2, 5]).rows = [10, 25, 25, 25] := by decide
example : (demoCfg false false).aliased (startIntegrator (demoCfg false false).method) = true ∧
    (demoCfg false false).copyOnRead = false ∧ (demoCfg false false).fullOutput = false := by decide
/-- the full-output path re-chooses the method from the eigenvalues at every step -/
example : (integrateFuncJacL demoSys (demoCfg true true) 10 0 [1, 2]).trace = [.vodeAdams, .vodeAdams, .vodeAdams] := by decide

end Pygom.C02
