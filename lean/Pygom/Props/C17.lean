/-
C17 — ABC keeps only particles inside the prior support and under the tolerance.

Model: Pygom/ABC.lean (the accept loop of `_perform_generation` over an explicit trial stream, `get_tolerance`, the
generation loop, `continue_posterior_sample`, `_log_parameters`, `par_order`, `_setParam`/`_setParamStateInput`).
No bound on N, G, the number of calls, or the length of the stream.

* `accepted_particle`             a stored particle is the FIRST trial with `w1 ≠ 0 ∧ cost < tol`; its stored distance is
                                  that trial's cost; hence `dist < tol` and prior density product ≠ 0.          (full)
* `run_particles`                 the same for every particle the object holds after ANY get/continue sequence.   (full)
* `weights_pos_finite`            `w = w1/w2 > 0`, given densities ≥ 0 and kernel mixture `w2 > 0` (ASSUMED of dmvnorm;
                                  generation 0 divides by 1).                                                    (full, stated hypotheses)
* `quantile_tolerances_step`(`_get`)  in a call with `q`: `tol_{g+1} = Q(dist_g) ≤ max dist_g < tol_g` for every g.   (full)
* `quantile_tolerances_antitone`  tolerances never increase along any get/continue sequence with `q`.             (full)
   `np.quantile` is a parameter `Q` with the single hypothesis `QuantileBelowMax Q` (TRUSTED); it is PROVED for
   numpy's linear-interpolation definition: `quantileLinear_le_maxL`.
* `par_order_binds_by_name_partial`   position k of what the loss object receives carries the value of the k-th ordered
                                  name, back-transformed exactly once iff log-scale — under the hypothesis that the
                                  loss object consumes the order `ABC.__init__` re-derives (`create_loss_consumer`).
* `get_forgets_state`, `continue_reads_only_N_finalTol`, `genLoop_ignores_initial_dist`   histories on one ABC object: a fresh
                                  `get_posterior_sample` reads nothing of the previous state (but `numParam`; `next_tol` is carried
                                  over without `q`); a continued run reads exactly `N` and `final_tol` - the stored population
                                  enters only through the trial stream (proposals `x`, kernel mixture `w2`).       (full)
   Full statement (for every loss object handed to `ABC`):
     -- theorem par_order_binds_by_name : ∀ tp ts, (trialBindings f log user paramList stateList tp ts x)[k]? = some (consumer k, value of consumer k)
   is FALSE of the code: `par_order_direct_loss_counterexample`.  `parOrderBy_binds_by_name` proves the proposed
   repair correct for every loss object; `parOrderBy_eq_parOrder`: it changes nothing for `create_loss` objects.
-/
import Pygom.ABC
import Mathlib.Tactic.Ring
import Mathlib.Tactic.Linarith
import Mathlib.Tactic.NormNum
import Mathlib.Algebra.Order.Field.Rat

set_option linter.unusedSimpArgs false
set_option linter.unusedVariables false
set_option linter.unnecessarySeqFocus false

namespace Pygom.C17
open Pygom.ABC

/-! ### the accept test -/

theorem accepts_eq_some (tol : ETol) (t : Trial) (c : Rat) :
    accepts tol t = some c ↔ t.w1 ≠ 0 ∧ t.cost = some c ∧ ltTol c tol := by
  unfold accepts
  by_cases h0 : t.w1 = 0
  · simp [h0]
  · cases hc : t.cost with
    | none => simp [h0]
    | some c' =>
      by_cases hl : ltTol c' tol
      · simp [h0, hl]
        rintro rfl; exact hl
      · simp [h0, hl]
        rintro rfl; exact hl

/-- **Acceptance.**  What `_perform_generation` returns is the FIRST trial of its stream with `w1 ≠ 0 ∧ cost < tol`:
all earlier trials fail the test, the stored distance is that trial's cost, the stored vector is that trial's
vector, the weight is `w1 / w2` of that trial (`w2 = 1` in generation 0), and `rejections` counts the earlier ones.
Hence `dist < tol` and the prior density product of the stored particle is non-zero. -/
theorem accepted_particle (gen0 : Bool) (tol : ETol) (s : List Trial) (rej : Nat) (a : Accepted) (rest : List Trial)
    (h : performGeneration gen0 tol s rej = some (a, rest)) :
    ∃ pre t, s = pre ++ t :: rest ∧ (∀ u ∈ pre, accepts tol u = none) ∧
      t.w1 ≠ 0 ∧ t.cost = some a.dist ∧ ltTol a.dist tol ∧ a.x = t.x ∧
      a.w = t.w1 / (if gen0 then 1 else t.w2) ∧ a.rejections = rej + pre.length := by
  induction s generalizing rej with
  | nil => simp [performGeneration] at h
  | cons t ts ih =>
    simp only [performGeneration] at h
    cases hacc : accepts tol t with
    | some c =>
      rw [hacc] at h
      simp only [Option.some.injEq, Prod.mk.injEq] at h
      obtain ⟨rfl, rfl⟩ := h
      obtain ⟨h1, h2, h3⟩ := (accepts_eq_some tol t c).1 hacc
      exact ⟨[], t, rfl, by simp, h1, h2, h3, rfl, rfl, by simp⟩
    | none =>
      rw [hacc] at h
      obtain ⟨pre, t', hs, hpre, rest'⟩ := ih (rej + 1) h
      refine ⟨t :: pre, t', by simp [hs], ?_, ?_⟩
      · intro u hu
        rcases List.mem_cons.1 hu with rfl | hu
        · exact hacc
        · exact hpre u hu
      · obtain ⟨h1, h2, h3, h4, h5, h6⟩ := rest'
        exact ⟨h1, h2, h3, h4, h5, by simp [h6]; omega⟩

/-! ### particles come from the stream -/

/-- particle `a` is an accepted trial of stream `s` under tolerance `tol` -/
def From (s : List Trial) (tol : ETol) (a : Accepted) : Prop :=
  ∃ t ∈ s, t.w1 ≠ 0 ∧ t.cost = some a.dist ∧ ltTol a.dist tol ∧ a.x = t.x ∧
    ∃ d, (d = 1 ∨ d = t.w2) ∧ a.w = t.w1 / d

theorem From.mono {s s' : List Trial} {tol : ETol} {a : Accepted} (hs : s' <:+ s) (h : From s' tol a) : From s tol a := by
  obtain ⟨t, ht, rest⟩ := h
  exact ⟨t, hs.subset ht, rest⟩

theorem performGeneration_from (gen0 : Bool) (tol : ETol) (s : List Trial) (rej : Nat) (a : Accepted) (rest : List Trial)
    (h : performGeneration gen0 tol s rej = some (a, rest)) : rest <:+ s ∧ From s tol a := by
  obtain ⟨pre, t, hs, _, h1, h2, h3, h4, h5, _⟩ := accepted_particle gen0 tol s rej a rest h
  refine ⟨⟨pre ++ [t], by simp [hs]⟩, t, by simp [hs], h1, h2, h3, h4, (if gen0 then 1 else t.w2), ?_, h5⟩
  cases gen0 <;> simp

theorem fillN_spec (gen0 : Bool) (tol : ETol) (n : Nat) (s : List Trial) (as : List Accepted) (rest : List Trial)
    (h : fillN gen0 tol n s = some (as, rest)) :
    as.length = n ∧ rest <:+ s ∧ ∀ a ∈ as, From s tol a := by
  induction n generalizing s as rest with
  | zero =>
    simp only [fillN, Option.some.injEq, Prod.mk.injEq] at h
    obtain ⟨rfl, rfl⟩ := h
    exact ⟨rfl, List.suffix_refl _, by simp⟩
  | succ n ih =>
    simp only [fillN] at h
    cases hp : performGeneration gen0 tol s 0 with
    | none => rw [hp] at h; simp at h
    | some p =>
      obtain ⟨a, s'⟩ := p
      rw [hp] at h
      simp only at h
      cases hf : fillN gen0 tol n s' with
      | none => rw [hf] at h; simp at h
      | some q =>
        obtain ⟨as', s''⟩ := q
        rw [hf] at h
        simp only [Option.some.injEq, Prod.mk.injEq] at h
        obtain ⟨rfl, rfl⟩ := h
        obtain ⟨hsuf, hfrom⟩ := performGeneration_from gen0 tol s 0 a s' hp
        obtain ⟨hlen, hsuf', hall⟩ := ih s' as' s'' hf
        refine ⟨by simp [hlen], hsuf'.trans hsuf, ?_⟩
        intro b hb
        rcases List.mem_cons.1 hb with rfl | hb
        · exact hfrom
        · exact (hall b hb).mono hsuf

/-- every generation of the loop: `N` particles, all accepted trials of the stream under that generation's tolerance -/
def GenOK (N : Nat) (s : List Trial) (g : Gen) : Prop := g.parts.length = N ∧ ∀ a ∈ g.parts, From s g.tol a

theorem genLoop_spec (c : Call) (rerun : Bool) (i k : Nat) (dist : List Rat) (s : List Trial)
    (gens : List Gen) (rest : List Trial) (h : genLoop c rerun i k dist s = .ok (gens, rest)) :
    gens.length = k ∧ rest <:+ s ∧ ∀ g ∈ gens, GenOK c.N s g := by
  induction k generalizing i dist s gens rest with
  | zero =>
    simp only [genLoop, Except.ok.injEq, Prod.mk.injEq] at h
    obtain ⟨rfl, rfl⟩ := h
    exact ⟨rfl, List.suffix_refl _, by simp⟩
  | succ k ih =>
    simp only [genLoop] at h
    cases ht : getTolerance c i dist with
    | error e => rw [ht] at h; simp at h
    | ok tol =>
      rw [ht] at h; simp only at h
      cases hf : fillN (!rerun && i == 0) tol c.N s with
      | none => rw [hf] at h; simp at h
      | some p =>
        obtain ⟨ps, s'⟩ := p
        rw [hf] at h; simp only at h
        cases hg : genLoop c rerun (i + 1) k (ps.map (·.dist)) s' with
        | error e => rw [hg] at h; simp at h
        | ok q =>
          obtain ⟨gs, s''⟩ := q
          rw [hg] at h
          simp only [Except.ok.injEq, Prod.mk.injEq] at h
          obtain ⟨rfl, rfl⟩ := h
          obtain ⟨hlen, hsuf, hall⟩ := fillN_spec _ tol c.N s ps s' hf
          obtain ⟨hlen', hsuf', hall'⟩ := ih (i + 1) _ s' gs s'' hg
          refine ⟨by simp [hlen'], hsuf'.trans hsuf, ?_⟩
          intro g hg'
          rcases List.mem_cons.1 hg' with rfl | hg'
          · exact ⟨hlen, hall⟩
          · obtain ⟨h1, h2⟩ := hall' g hg'
            exact ⟨h1, fun a ha => (h2 a ha).mono hsuf⟩

/-- what a successful call leaves in the object -/
theorem getPosteriorSample_spec (c : Call) (rerun : Bool) (st st' : State) (s rest : List Trial)
    (h : getPosteriorSample c rerun st s = .ok (st', rest)) :
    ∃ gens last, genLoop c rerun 0 c.G
        ((if rerun then st.parts else List.replicate c.N { w := 1, rejections := 0, x := List.replicate st.numParam 0, dist := 0 }).map (·.dist)) s
          = .ok (gens, rest) ∧
      checkArgs c = true ∧
      gens.getLast? = some last ∧ st'.parts = last.parts ∧ st'.finalTol = some last.tol ∧
      st'.tolerances = gens.map (·.tol) ∧ st'.N = some c.N ∧ st'.numParam = st.numParam ∧
      st'.history = (if rerun then st.history ++ gens else gens) ∧
      st'.nextTol = (if c.quant then some (c.Q last.dists) else st.nextTol) := by
  unfold getPosteriorSample at h
  simp only at h
  by_cases hchk : checkArgs c = true
  · simp only [hchk, Bool.not_true, Bool.false_eq_true, if_false] at h
    cases hg : genLoop c rerun 0 c.G
        ((if rerun then st.parts else List.replicate c.N { w := 1, rejections := 0, x := List.replicate st.numParam 0, dist := 0 }).map (·.dist)) s with
    | error e => rw [hg] at h; simp at h
    | ok q =>
      obtain ⟨gens, s'⟩ := q
      rw [hg] at h; simp only at h
      cases hl : gens.getLast? with
      | none => rw [hl] at h; simp at h
      | some last =>
        rw [hl] at h
        simp only [Except.ok.injEq, Prod.mk.injEq] at h
        obtain ⟨rfl, rfl⟩ := h
        exact ⟨gens, last, rfl, hchk, hl, rfl, rfl, rfl, rfl, rfl, rfl, rfl⟩
  · simp [hchk] at h

theorem getPosteriorSample_particles (c : Call) (rerun : Bool) (st st' : State) (s rest : List Trial)
    (h : getPosteriorSample c rerun st s = .ok (st', rest)) :
    rest <:+ s ∧ st'.parts.length = c.N ∧ ∃ ft, st'.finalTol = some ft ∧ ∀ a ∈ st'.parts, From s ft a := by
  obtain ⟨gens, last, hg, _, hl, hp, hf, _⟩ := getPosteriorSample_spec c rerun st st' s rest h
  obtain ⟨_, hsuf, hall⟩ := genLoop_spec c rerun 0 c.G _ s gens rest hg
  have hmem : last ∈ gens := List.mem_of_getLast? hl
  obtain ⟨h1, h2⟩ := hall last hmem
  exact ⟨hsuf, by rw [hp]; exact h1, last.tol, hf, by rw [hp]; exact h2⟩

theorem runCall_particles (c : Call) (st st' : State) (s rest : List Trial)
    (h : runCall c st s = .ok (st', rest)) :
    rest <:+ s ∧ st'.parts.length = c.N ∧ ∃ ft, st'.finalTol = some ft ∧ ∀ a ∈ st'.parts, From s ft a := by
  unfold runCall at h
  by_cases hc : c.cont = true
  · simp only [hc, if_true] at h
    unfold continuePosteriorSample at h
    cases hN : st.N with
    | none => rw [hN] at h; simp at h
    | some n =>
      cases hF : st.finalTol with
      | none => rw [hN, hF] at h; simp at h
      | some ft =>
        rw [hN, hF] at h
        simp only at h
        by_cases hn : c.N = n
        · simp only [hn, ne_eq, not_true_eq_false, if_false] at h
          cases hft : firstTol c.tol with
          | error e => rw [hft] at h; simp at h
          | ok t0 =>
            rw [hft] at h; simp only at h
            by_cases hle : ETol.le t0 ft
            · simp only [hle, if_true] at h
              exact getPosteriorSample_particles c true st st' s rest h
            · simp [hle] at h
        · simp [hn] at h
  · simp only [hc, Bool.false_eq_true, if_false] at h
    exact getPosteriorSample_particles c false st st' s rest h

/-- the run-level invariant: the object holds no particles yet, or all of them are accepted trials of the stream
under the final tolerance -/
def Good (s : List Trial) (st : State) : Prop :=
  ∀ a ∈ st.parts, ∃ ft, st.finalTol = some ft ∧ From s ft a

theorem runCalls_good (calls : List Call) (st st' : State) (s0 s rest : List Trial) (hs : s <:+ s0)
    (hg : Good s0 st) (h : runCalls calls st s = .ok (st', rest)) : rest <:+ s0 ∧ Good s0 st' := by
  induction calls generalizing st s with
  | nil =>
    simp only [runCalls, Except.ok.injEq, Prod.mk.injEq] at h
    obtain ⟨rfl, rfl⟩ := h
    exact ⟨hs, hg⟩
  | cons c cs ih =>
    simp only [runCalls] at h
    cases hc : runCall c st s with
    | error e => rw [hc] at h; simp at h
    | ok p =>
      obtain ⟨st1, s1⟩ := p
      rw [hc] at h; simp only at h
      obtain ⟨hsuf, _, ft, hft, hall⟩ := runCall_particles c st st1 s s1 hc
      exact ih st1 s1 (hsuf.trans hs) (fun a ha => ⟨ft, hft, (hall a ha).mono hs⟩) h

/-- **Every particle of every get/continue sequence is an accepted trial.**  After any sequence of calls on a fresh
ABC object, every stored particle `(res[i], dist[i], w[i])` is a trial of the stream with non-zero prior density
product, whose cost is the stored distance, below the final tolerance (the tolerance of the generation that
produced it: every generation overwrites all `N` slots), with weight `w1/1` or `w1/w2`. -/
theorem run_particles (numParam : Nat) (calls : List Call) (s rest : List Trial) (st : State)
    (h : runCalls calls (State.init numParam) s = .ok (st, rest)) :
    ∀ a ∈ st.parts, ∃ ft, st.finalTol = some ft ∧
      ∃ t ∈ s, t.w1 ≠ 0 ∧ t.cost = some a.dist ∧ ltTol a.dist ft ∧ a.x = t.x ∧ ∃ d, (d = 1 ∨ d = t.w2) ∧ a.w = t.w1 / d :=
  (runCalls_good calls (State.init numParam) st s s rest (List.suffix_refl _) (by simp [Good, State.init]) h).2

/-- **Weights are positive (and finite).**  Hypotheses on the stream: prior densities are non-negative (so `w1 ≥ 0`)
and the kernel mixture `w2` is positive (a mixture, with positive weights, of positive normal densities — positivity of
`dmvnorm` is ASSUMED).  Over `Rat` "finite" is "the divisor is not 0" (`x/0 = 0` in Lean, which would not be `> 0`). -/
theorem weights_pos_finite (numParam : Nat) (calls : List Call) (s rest : List Trial) (st : State)
    (h : runCalls calls (State.init numParam) s = .ok (st, rest))
    (hw : ∀ t ∈ s, 0 ≤ t.w1 ∧ 0 < t.w2) : ∀ a ∈ st.parts, 0 < a.w := by
  intro a ha
  obtain ⟨_, _, t, ht, h1, _, _, _, d, hd, hw'⟩ := run_particles numParam calls s rest st h a ha
  obtain ⟨h0, h2⟩ := hw t ht
  have hpos : 0 < t.w1 := lt_of_le_of_ne h0 (Ne.symm h1)
  have hdpos : 0 < d := by rcases hd with rfl | rfl <;> [norm_num; exact h2]
  rw [hw']; exact div_pos hpos hdpos

/-! ### the tolerance schedule -/

theorem maxL_mem : ∀ (l : List Rat), l ≠ [] → maxL l ∈ l
  | [], h => absurd rfl h
  | [x], _ => by simp [maxL]
  | x :: y :: ys, _ => by
    have ih := maxL_mem (y :: ys) (by simp)
    simp only [maxL]
    rcases max_choice x (maxL (y :: ys)) with h | h
    · rw [h]; simp
    · rw [h]; exact List.mem_cons_of_mem _ ih

theorem le_maxL : ∀ (l : List Rat) (x : Rat), x ∈ l → x ≤ maxL l
  | [], _, h => by simp at h
  | [y], x, h => by simp at h; simp [maxL, h]
  | y :: z :: zs, x, h => by
    simp only [maxL]
    rcases List.mem_cons.1 h with rfl | h
    · exact le_max_left _ _
    · exact le_trans (le_maxL (z :: zs) x h) (le_max_right _ _)

theorem ETol.le_refl (a : ETol) : ETol.le a a := by cases a <;> simp [ETol.le]

theorem ETol.le_trans {a b c : ETol} (h1 : ETol.le a b) (h2 : ETol.le b c) : ETol.le a c := by
  cases a <;> cases b <;> cases c <;> simp_all [ETol.le]
  exact _root_.le_trans h1 h2

/-- `v ≤ m < tol ⇒ fin v ≤ tol` -/
theorem fin_le_of_le_of_lt {v m : Rat} {tol : ETol} (h1 : v ≤ m) (h2 : ltTol m tol) : ETol.le (.fin v) tol := by
  cases tol with
  | inf => simp [ETol.le]
  | fin t => simp only [ETol.le]; simp only [ltTol] at h2; linarith

/-- one quantile step: `tol_{g+1} = Q dist_g ≤ max dist_g < tol_g` -/
def StepQ (Q : List Rat → Rat) (g1 g2 : Gen) : Prop :=
  g2.tol = .fin (Q g1.dists) ∧ Q g1.dists ≤ maxL g1.dists ∧ ltTol (maxL g1.dists) g1.tol

def ChainQ (Q : List Rat → Rat) : Gen → List Gen → Prop
  | _, [] => True
  | p, g :: gs => StepQ Q p g ∧ ChainQ Q g gs

/-- tolerances never increase along a list of generations, starting below `prev` -/
def Desc : ETol → List Gen → Prop
  | _, [] => True
  | prev, g :: gs => ETol.le g.tol prev ∧ Desc g.tol gs

theorem StepQ.le {Q : List Rat → Rat} {g1 g2 : Gen} (h : StepQ Q g1 g2) : ETol.le g2.tol g1.tol := by
  obtain ⟨h1, h2, h3⟩ := h
  rw [h1]; exact fin_le_of_le_of_lt h2 h3

theorem ChainQ.desc {Q : List Rat → Rat} : ∀ {p : Gen} {gs : List Gen}, ChainQ Q p gs → Desc p.tol gs
  | _, [], _ => trivial
  | _, _ :: _, h => ⟨h.1.le, ChainQ.desc h.2⟩

/-- the hypothesis on `np.quantile` (TRUSTED; proved for numpy's linear-interpolation definition in
`quantileLinear_le_maxL`): a quantile of a non-empty sample does not exceed its maximum -/
def QuantileBelowMax (Q : List Rat → Rat) : Prop := ∀ l : List Rat, l ≠ [] → Q l ≤ maxL l

theorem genOK_max_lt {N : Nat} {s : List Trial} {g : Gen} (hN : 0 < N) (h : GenOK N s g) : ltTol (maxL g.dists) g.tol := by
  obtain ⟨hlen, hall⟩ := h
  have hne : g.dists ≠ [] := by
    intro h0
    have : g.dists.length = N := by simp [Gen.dists, hlen]
    rw [h0] at this; simp at this; omega
  have hm := maxL_mem g.dists hne
  simp only [Gen.dists, List.mem_map] at hm
  obtain ⟨a, ha, hd⟩ := hm
  obtain ⟨t, _, _, _, hlt, _⟩ := hall a ha
  simp only [Gen.dists]; rw [← hd]; exact hlt

/-- inside one call with a quantile schedule, from the second generation on -/
theorem genLoop_chainQ (c : Call) (rerun : Bool) (hq : c.quant = true) (hN : 0 < c.N) (hQ : QuantileBelowMax c.Q)
    (k : Nat) : ∀ (i : Nat) (p : Gen) (s0 s : List Trial) (gens : List Gen) (rest : List Trial),
      GenOK c.N s0 p → s <:+ s0 →
      genLoop c rerun (i + 1) k p.dists s = .ok (gens, rest) → ChainQ c.Q p gens := by
  induction k with
  | zero =>
    intro i p s0 s gens rest _ _ h
    simp only [genLoop, Except.ok.injEq, Prod.mk.injEq] at h
    obtain ⟨rfl, rfl⟩ := h
    trivial
  | succ k ih =>
    intro i p s0 s gens rest hp hs h
    simp only [genLoop, getTolerance, Nat.add_eq_zero_iff, one_ne_zero, and_false, if_false, hq, if_true] at h
    cases hf : fillN (!rerun && i + 1 == 0) (.fin (c.Q p.dists)) c.N s with
    | none => rw [hf] at h; simp at h
    | some q =>
      obtain ⟨ps, s'⟩ := q
      rw [hf] at h; simp only at h
      cases hg : genLoop c rerun (i + 1 + 1) k (ps.map (·.dist)) s' with
      | error e => rw [hg] at h; simp at h
      | ok r =>
        obtain ⟨gs, s''⟩ := r
        rw [hg] at h
        simp only [Except.ok.injEq, Prod.mk.injEq] at h
        obtain ⟨rfl, rfl⟩ := h
        obtain ⟨hlen, hsuf, hall⟩ := fillN_spec _ _ c.N s ps s' hf
        have hg2 : GenOK c.N s0 { tol := .fin (c.Q p.dists), parts := ps } :=
          ⟨hlen, fun a ha => (hall a ha).mono hs⟩
        have hne : p.dists ≠ [] := by
          intro h0
          have : p.dists.length = c.N := by simp [Gen.dists, hp.1]
          rw [h0] at this; simp at this; omega
        refine ⟨⟨rfl, hQ _ hne, genOK_max_lt hN hp⟩, ?_⟩
        exact ih (i + 1) { tol := .fin (c.Q p.dists), parts := ps } s0 s' gs s'' hg2 (hsuf.trans hs) hg

/-- **Quantile schedule, one call** (`tol_{g+1} ≤ max dist_g < tol_g`).  In a call with `q` given, for every number of
generations: the generations `g0 :: gs` it produces satisfy, for each consecutive pair,
`tol_{g+1} = Q(dist_g) ≤ max dist_g < tol_g`. -/
theorem quantile_tolerances_step (c : Call) (rerun : Bool) (hq : c.quant = true) (hN : 0 < c.N) (hQ : QuantileBelowMax c.Q)
    (dist : List Rat) (s : List Trial) (g0 : Gen) (gs : List Gen) (rest : List Trial)
    (h : genLoop c rerun 0 c.G dist s = .ok (g0 :: gs, rest)) : ChainQ c.Q g0 gs := by
  cases hG : c.G with
  | zero => rw [hG] at h; simp [genLoop] at h
  | succ k =>
    rw [hG] at h
    simp only [genLoop] at h
    cases ht : getTolerance c 0 dist with
    | error e => rw [ht] at h; simp at h
    | ok tol =>
      rw [ht] at h; simp only at h
      cases hf : fillN (!rerun && 0 == 0) tol c.N s with
      | none => rw [hf] at h; simp at h
      | some q =>
        obtain ⟨ps, s'⟩ := q
        rw [hf] at h; simp only at h
        cases hg : genLoop c rerun (0 + 1) k (ps.map (·.dist)) s' with
        | error e => rw [hg] at h; simp at h
        | ok r =>
          obtain ⟨gs', s''⟩ := r
          rw [hg] at h
          simp only [Except.ok.injEq, Prod.mk.injEq, List.cons.injEq] at h
          obtain ⟨⟨rfl, rfl⟩, rfl⟩ := h
          obtain ⟨hlen, hsuf, hall⟩ := fillN_spec _ _ c.N s ps s' hf
          exact genLoop_chainQ c rerun hq hN hQ k 0 { tol := tol, parts := ps } s s' _ _ ⟨hlen, hall⟩ hsuf hg

theorem getTolerance_zero (c : Call) (dist : List Rat) : getTolerance c 0 dist = firstTol c.tol := by
  unfold getTolerance firstTol
  cases c.tol <;> simp

/-- unpack the first generation of a call -/
theorem genLoop_zero_cons (c : Call) (rerun : Bool) (G : Nat) (dist : List Rat) (s : List Trial) (g0 : Gen)
    (gs : List Gen) (rest : List Trial) (h : genLoop c rerun 0 G dist s = .ok (g0 :: gs, rest)) :
    firstTol c.tol = .ok g0.tol := by
  cases G with
  | zero => simp [genLoop] at h
  | succ k =>
    simp only [genLoop] at h
    rw [getTolerance_zero] at h
    cases ht : firstTol c.tol with
    | error e => rw [ht] at h; simp at h
    | ok tol =>
      rw [ht] at h; simp only at h
      cases hf : fillN (!rerun && 0 == 0) tol c.N s with
      | none => rw [hf] at h; simp at h
      | some q =>
        obtain ⟨ps, s'⟩ := q
        rw [hf] at h; simp only at h
        cases hg : genLoop c rerun (0 + 1) k (ps.map (·.dist)) s' with
        | error e => rw [hg] at h; simp at h
        | ok r =>
          obtain ⟨gs', s''⟩ := r
          rw [hg] at h
          simp only [Except.ok.injEq, Prod.mk.injEq, List.cons.injEq] at h
          obtain ⟨⟨rfl, _⟩, _⟩ := h
          rfl

theorem desc_append : ∀ (prev : ETol) (l1 l2 : List Gen) (last : Gen),
    Desc prev l1 → l1.getLast? = some last → Desc last.tol l2 → Desc prev (l1 ++ l2)
  | _, [], _, _, _, h, _ => by simp at h
  | prev, [g], l2, last, h1, h, h2 => by
    simp at h; subst h
    exact ⟨h1.1, h2⟩
  | prev, g :: g' :: t, l2, last, h1, h, h2 => by
    have h' : (g' :: t).getLast? = some last := by simpa [List.getLast?_cons_cons] using h
    exact ⟨h1.1, desc_append g.tol (g' :: t) l2 last h1.2 h' h2⟩

theorem desc_get : ∀ (prev : ETol) (l : List Gen), Desc prev l →
    ∀ j (hj : j + 1 < l.length), ETol.le (l[j + 1]).tol (l[j]'(by omega)).tol
  | _, [], _, j, hj => by simp at hj
  | _, [_], _, j, hj => by simp at hj
  | prev, g :: g' :: t, h, j, hj => by
    cases j with
    | zero => exact h.2.1
    | succ j => exact desc_get g.tol (g' :: t) h.2 j (by simpa using hj)

theorem chainQ_get {Q : List Rat → Rat} : ∀ (p : Gen) (l : List Gen), ChainQ Q p l →
    ∀ j (hj : j < l.length), StepQ Q ((p :: l)[j]'(by simp; omega)) (l[j])
  | _, [], _, j, hj => by simp at hj
  | p, g :: t, h, j, hj => by
    cases j with
    | zero => exact h.1
    | succ j => exact chainQ_get g t h.2 j (by simpa using hj)

/-- invariant of the object along a get/continue sequence -/
def HistOK (st : State) : Prop :=
  Desc .inf st.history ∧ ∀ ft, st.finalTol = some ft → ∃ last, st.history.getLast? = some last ∧ last.tol = ft

theorem getPosteriorSample_hist (c : Call) (rerun : Bool) (st st' : State) (s rest : List Trial)
    (hq : c.quant = true) (hN : 0 < c.N) (hQ : QuantileBelowMax c.Q)
    (hpre : rerun = true → HistOK st ∧ ∃ ft t0, st.finalTol = some ft ∧ firstTol c.tol = .ok t0 ∧ ETol.le t0 ft)
    (h : getPosteriorSample c rerun st s = .ok (st', rest)) : HistOK st' := by
  obtain ⟨gens, last, hg, _, hl, hp, hf, _, _, _, hh, _⟩ := getPosteriorSample_spec c rerun st st' s rest h
  cases gens with
  | nil => simp at hl
  | cons g0 gs =>
    have hchain := quantile_tolerances_step c rerun hq hN hQ _ s g0 gs rest hg
    have hfirst := genLoop_zero_cons c rerun c.G _ s g0 gs rest hg
    have hdesc : ∀ prev, ETol.le g0.tol prev → Desc prev (g0 :: gs) := fun prev hle => ⟨hle, hchain.desc⟩
    constructor
    · rw [hh]
      cases rerun with
      | false => simpa using hdesc .inf (by cases g0.tol <;> simp [ETol.le])
      | true =>
        obtain ⟨⟨hd, hlast⟩, ft, t0, hft, ht0, hle⟩ := hpre rfl
        obtain ⟨lastg, hlg, hlt⟩ := hlast ft hft
        simp only [if_true]
        apply desc_append .inf st.history (g0 :: gs) lastg hd hlg
        apply hdesc
        rw [hfirst] at ht0
        simp only [Except.ok.injEq] at ht0
        rw [ht0, hlt]; exact hle
    · intro ft hft'
      rw [hf] at hft'
      simp only [Option.some.injEq] at hft'
      refine ⟨last, ?_, hft'⟩
      rw [hh]
      cases rerun with
      | false => simpa using hl
      | true =>
        simp only [if_true]
        rw [List.getLast?_append]
        simp [hl]

theorem runCall_hist (c : Call) (st st' : State) (s rest : List Trial)
    (hq : c.quant = true) (hN : 0 < c.N) (hQ : QuantileBelowMax c.Q) (hst : HistOK st)
    (h : runCall c st s = .ok (st', rest)) : HistOK st' := by
  unfold runCall at h
  by_cases hc : c.cont = true
  · simp only [hc, if_true] at h
    unfold continuePosteriorSample at h
    cases hNn : st.N with
    | none => rw [hNn] at h; simp at h
    | some n =>
      cases hF : st.finalTol with
      | none => rw [hNn, hF] at h; simp at h
      | some ft =>
        rw [hNn, hF] at h
        simp only at h
        by_cases hn : c.N = n
        · simp only [hn, ne_eq, not_true_eq_false, if_false] at h
          cases hft : firstTol c.tol with
          | error e => rw [hft] at h; simp at h
          | ok t0 =>
            rw [hft] at h; simp only at h
            by_cases hle : ETol.le t0 ft
            · simp only [hle, if_true] at h
              exact getPosteriorSample_hist c true st st' s rest hq hN hQ (fun _ => ⟨hst, ft, t0, hF, hft, hle⟩) h
            · simp [hle] at h
        · simp [hn] at h
  · simp only [hc, Bool.false_eq_true, if_false] at h
    exact getPosteriorSample_hist c false st st' s rest hq hN hQ (fun h => by simp at h) h

theorem runCalls_hist (calls : List Call) (st st' : State) (s rest : List Trial)
    (hc : ∀ c ∈ calls, c.quant = true ∧ 0 < c.N ∧ QuantileBelowMax c.Q) (hst : HistOK st)
    (h : runCalls calls st s = .ok (st', rest)) : HistOK st' := by
  induction calls generalizing st s with
  | nil =>
    simp only [runCalls, Except.ok.injEq, Prod.mk.injEq] at h
    obtain ⟨rfl, rfl⟩ := h
    exact hst
  | cons c cs ih =>
    simp only [runCalls] at h
    cases hr : runCall c st s with
    | error e => rw [hr] at h; simp at h
    | ok p =>
      obtain ⟨st1, s1⟩ := p
      rw [hr] at h; simp only at h
      obtain ⟨h1, h2, h3⟩ := hc c (by simp)
      exact ih st1 s1 (fun c' hc' => hc c' (by simp [hc'])) (runCall_hist c st st1 s s1 h1 h2 h3 hst hr) h

/-- **Under quantile scheduling the tolerances never increase** — for every number of generations and every
get/continue sequence on one ABC object (`history` = the generations since the last fresh `get_posterior_sample`;
`continue_posterior_sample` refuses a first tolerance above `final_tol`).  `np.quantile` enters only through
`QuantileBelowMax`. -/
theorem quantile_tolerances_antitone (numParam : Nat) (calls : List Call) (s rest : List Trial) (st : State)
    (h : runCalls calls (State.init numParam) s = .ok (st, rest))
    (hc : ∀ c ∈ calls, c.quant = true ∧ 0 < c.N ∧ QuantileBelowMax c.Q) :
    ∀ j (hj : j + 1 < st.history.length), ETol.le (st.history[j + 1]).tol (st.history[j]'(by omega)).tol :=
  desc_get .inf st.history
    (runCalls_hist calls (State.init numParam) st s rest hc (by simp [HistOK, State.init, Desc]) h).1

/-- index form of the one-call statement: `tol_{g+1} = Q(dist_g) ≤ max dist_g < tol_g` for every `g` -/
theorem quantile_tolerances_step_get (c : Call) (rerun : Bool) (hq : c.quant = true) (hN : 0 < c.N)
    (hQ : QuantileBelowMax c.Q) (dist : List Rat) (s : List Trial) (gens : List Gen) (rest : List Trial)
    (h : genLoop c rerun 0 c.G dist s = .ok (gens, rest)) (j : Nat) (hj : j + 1 < gens.length) :
    (gens[j + 1]).tol = .fin (c.Q (gens[j]'(by omega)).dists) ∧
    c.Q (gens[j]'(by omega)).dists ≤ maxL (gens[j]'(by omega)).dists ∧
    ltTol (maxL (gens[j]'(by omega)).dists) (gens[j]'(by omega)).tol := by
  cases gens with
  | nil => simp at hj
  | cons g0 gs =>
    have := chainQ_get g0 gs (quantile_tolerances_step c rerun hq hN hQ dist s g0 gs rest h) j (by simpa using hj)
    simpa [StepQ] using this

/-! ### parameter ordering and the log-scale back-transform -/

section order
variable {α : Type} [Inhabited α]

theorem logParameters_getD (f : α → α) (log : List Bool) (x : List α) (j : Nat) (h1 : j < log.length) (h2 : j < x.length) :
    (logParameters f log x).getD j default = if log.getD j false then f (x.getD j default) else x.getD j default := by
  simp [logParameters, List.getD_eq_getElem?_getD, List.getElem?_zipWith, List.getElem?_eq_getElem h1,
    List.getElem?_eq_getElem h2]

theorem mem_orderedNames_user (user paramList stateList : List String) (n : String)
    (h : n ∈ orderedNames user paramList stateList) : n ∈ user := by
  simp only [orderedNames, targetParams, targetStates, List.mem_append, List.mem_filter] at h
  rcases h with h | h
  · exact h.1
  · simpa using h.2

/-- every Parameter that names a model parameter or a model state is bound -/
theorem orderedNames_covers (user paramList stateList : List String) (n : String) (hu : n ∈ user)
    (h : n ∈ paramList ∨ n ∈ stateList) : n ∈ orderedNames user paramList stateList := by
  simp only [orderedNames, targetParams, targetStates, List.mem_append, List.mem_filter]
  rcases h with h | h
  · left; exact ⟨hu, by simpa using h⟩
  · right; exact ⟨h, by simpa using hu⟩

/-- **par_order binds by name** (partial: `hc` — the loss object consumes its positional input in the order
`orderedNames`; true for loss objects made by `create_loss` from the same Parameter list, see
`create_loss_consumer`, false in general, see `par_order_direct_loss_counterexample`).
Position `k` of what `par_update` receives is bound to the `k`-th ordered name (target parameters in the user's
order, then target states in state-list order) and carries the value the user's Parameter list holds *for that
name*, back-transformed exactly once (`f`) iff that Parameter is log-scale. -/
theorem par_order_binds_by_name_partial (f : α → α) (log : List Bool) (user paramList stateList : List String)
    (tp ts : Option (List String)) (x : List α)
    (hc : consumerNames paramList tp ts = orderedNames user paramList stateList)
    (hlog : log.length = user.length) (hx : x.length = user.length)
    (k : Nat) (n : String) (hk : (orderedNames user paramList stateList)[k]? = some n) :
    (trialBindings f log user paramList stateList tp ts x)[k]? =
      some (n, if log.getD (user.idxOf n) false then f (x.getD (user.idxOf n) default) else x.getD (user.idxOf n) default) := by
  have hn : n ∈ user := mem_orderedNames_user user paramList stateList n (List.mem_of_getElem? hk)
  have hj : user.idxOf n < user.length := List.idxOf_lt_length_of_mem hn
  rw [← logParameters_getD f log x (user.idxOf n) (by omega) (by omega)]
  simp only [trialBindings, bindings, hc, takeIdx, parOrder, List.map_map]
  rw [List.getElem?_zip_eq_some]
  exact ⟨hk, by simp [List.getElem?_map, hk]⟩

/-- `create_loss` hands the loss object exactly the order that `ABC.__init__` re-derives
(`None` for an empty state list is the same as no states) -/
theorem create_loss_consumer (user paramList stateList : List String) :
    consumerNames paramList (some (targetParams user paramList))
      (if targetStates user stateList = [] then none else some (targetStates user stateList))
      = orderedNames user paramList stateList := by
  unfold consumerNames orderedNames
  by_cases h : targetStates user stateList = [] <;> simp [h]

/-- the PROPOSED REPAIR (`par_order` follows the loss object's own order) binds by name for EVERY loss object
whose consumed names are all among the user's Parameters -/
theorem parOrderBy_binds_by_name (f : α → α) (log : List Bool) (user consumer : List String) (x : List α)
    (hall : ∀ n ∈ consumer, n ∈ user)
    (hlog : log.length = user.length) (hx : x.length = user.length)
    (k : Nat) (n : String) (hk : consumer[k]? = some n) :
    (bindings consumer (takeIdx (logParameters f log x) (parOrderBy consumer user)))[k]? =
      some (n, if log.getD (user.idxOf n) false then f (x.getD (user.idxOf n) default) else x.getD (user.idxOf n) default) := by
  have hn : n ∈ user := hall n (List.mem_of_getElem? hk)
  have hj : user.idxOf n < user.length := List.idxOf_lt_length_of_mem hn
  have hfil : consumer.filter (fun n => user.contains n) = consumer := by
    rw [List.filter_eq_self]; intro a ha; simpa using hall a ha
  rw [← logParameters_getD f log x (user.idxOf n) (by omega) (by omega)]
  simp only [bindings, takeIdx, parOrderBy, hfil, List.map_map]
  rw [List.getElem?_zip_eq_some]
  exact ⟨hk, by simp [List.getElem?_map, hk]⟩

/-- for `create_loss` objects the repair changes nothing -/
theorem parOrderBy_eq_parOrder (user paramList stateList : List String) :
    parOrderBy (orderedNames user paramList stateList) user = parOrder user paramList stateList := by
  have hfil : (orderedNames user paramList stateList).filter (fun n => user.contains n) = orderedNames user paramList stateList := by
    rw [List.filter_eq_self]; intro a ha; simpa using mem_orderedNames_user user paramList stateList a ha
  unfold parOrderBy parOrder
  rw [hfil]

end order

/-- **The full statement is false of the code**: a loss object built directly (here `target_param=None`, so
`_setParam` reads its input in the model's parameter order `[beta, gamma]`) with the Parameter list in another order
`[gamma, beta]`: the value sampled for `gamma` (1) is bound to `beta` and vice versa. -/
theorem par_order_direct_loss_counterexample :
    trialBindings (fun v : Nat => v) [false, false] ["gamma", "beta"] ["beta", "gamma"] ["S", "I", "R"] none none [1, 2]
      = [("beta", 1), ("gamma", 2)] := by
  decide

/-! ### numpy's linear-interpolation quantile satisfies the hypothesis (stretch goal) -/

theorem getD_sorted_le (l : List Rat) (i : Nat) (hi : i < l.length) :
    (l.mergeSort (fun a b => decide (a ≤ b))).getD i 0 ≤ maxL l := by
  have hlen : (l.mergeSort (fun a b => decide (a ≤ b))).length = l.length := List.length_mergeSort l
  have hi' : i < (l.mergeSort (fun a b => decide (a ≤ b))).length := by omega
  rw [List.getD_eq_getElem?_getD, List.getElem?_eq_getElem hi', Option.getD_some]
  apply le_maxL
  exact List.mem_mergeSort.1 (List.getElem_mem hi')

/-- numpy's default quantile never exceeds the maximum of a non-empty sample (for `0 ≤ q ≤ 1`) -/
theorem quantileLinear_le_maxL (q : Rat) (hq0 : 0 ≤ q) (hq1 : q ≤ 1) : QuantileBelowMax (quantileLinear q) := by
  intro l hl
  have hn : 1 ≤ l.length := List.length_pos_iff.2 hl
  have hnq : (1 : Rat) ≤ (l.length : Rat) := by exact_mod_cast hn
  unfold quantileLinear
  simp only
  generalize hh : q * ((l.length : Rat) - 1) = h
  have hh0 : 0 ≤ h := by rw [← hh]; exact mul_nonneg hq0 (by linarith)
  have hh1 : h ≤ (l.length : Rat) - 1 := by rw [← hh]; nlinarith
  have hf0 : 0 ≤ h.floor := Rat.le_floor_iff.2 (by simpa using hh0)
  have hfl : ((h.floor : Int) : Rat) ≤ h := Rat.le_floor_iff.1 (le_refl _)
  have hfu : h < ((h.floor : Int) : Rat) + 1 := by
    by_contra hc
    have hc := not_lt.1 hc
    have := (Rat.le_floor_iff (x := h.floor + 1)).2 (by push_cast; exact hc)
    omega
  have hlo : ((h.floor.toNat : Nat) : Rat) = ((h.floor : Int) : Rat) := by
    have := Int.toNat_of_nonneg hf0
    exact_mod_cast congrArg (fun z : Int => (z : Rat)) this
  have hlon : h.floor.toNat < l.length := by
    have : ((h.floor.toNat : Nat) : Rat) ≤ (l.length : Rat) - 1 := by rw [hlo]; linarith
    have h2 : ((h.floor.toNat : Nat) : Rat) + 1 ≤ (l.length : Rat) := by linarith
    have h3 : h.floor.toNat + 1 ≤ l.length := by exact_mod_cast h2
    omega
  have hhin : min (h.floor.toNat + 1) (l.length - 1) < l.length := by omega
  have ha := getD_sorted_le l _ hlon
  have hb := getD_sorted_le l _ hhin
  have hg0 : 0 ≤ h - ((h.floor.toNat : Nat) : Rat) := by rw [hlo]; linarith
  have hg1 : h - ((h.floor.toNat : Nat) : Rat) ≤ 1 := by rw [hlo]; linarith
  nlinarith [mul_nonneg (sub_nonneg.2 ha) (sub_nonneg.2 hg1), mul_nonneg (sub_nonneg.2 hb) hg0]

/-! ### non-vacuity: a concrete get + continue sequence with quantile scheduling, rejected trials of all three
kinds (outside the prior support, cost above the tolerance, cost not a number) -/

def exStream : List Trial :=
  [ { x := [1], w1 := 0, cost := none, w2 := 1 },        -- outside the prior support: rejected without a cost
    { x := [2], w1 := 1, cost := some 3, w2 := 1 },
    { x := [3], w1 := 1, cost := some 1, w2 := 1 },
    { x := [4], w1 := 1, cost := some 5, w2 := 2 },        -- generation 1: cost ≥ tol = 3, rejected
    { x := [5], w1 := 1, cost := some 1, w2 := 2 },
    { x := [6], w1 := 1, cost := none, w2 := 2 },          -- cost is not a number: rejected
    { x := [7], w1 := 1, cost := some 2, w2 := 4 },
    { x := [8], w1 := 1, cost := some 2, w2 := 4 },        -- continued run, tol = 2: 2 < 2 fails
    { x := [9], w1 := 1, cost := some 1, w2 := 4 },
    { x := [10], w1 := 1, cost := some 0, w2 := 2 } ]

def exGet : Call :=
  { cont := false, N := 2, G := 2, tol := .scalar .inf, quant := true, M := none, Q := maxL }
def exContinue : Call :=
  { cont := true, N := 2, G := 1, tol := .scalar (.fin 2), quant := true, M := none, Q := maxL }

def exGen0 : Gen := { tol := .inf, parts := [{ w := 1, rejections := 1, x := [2], dist := 3 }, { w := 1, rejections := 0, x := [3], dist := 1 }] }
def exGen1 : Gen := { tol := .fin 3, parts := [{ w := 1/2, rejections := 1, x := [5], dist := 1 }, { w := 1/4, rejections := 1, x := [7], dist := 2 }] }
def exGen2 : Gen := { tol := .fin 2, parts := [{ w := 1/4, rejections := 1, x := [9], dist := 1 }, { w := 1/2, rejections := 0, x := [10], dist := 0 }] }

def exState : State :=
  { numParam := 1, parts := exGen2.parts, tolerances := [.fin 2], finalTol := some (.fin 2), nextTol := some 1, N := some 2,
    history := [exGen0, exGen1, exGen2] }

example : runCalls [exGet, exContinue] (State.init 1) exStream = .ok (exState, []) := by
  norm_num [runCalls, runCall, exGet, exContinue, exStream, exState, exGen0, exGen1, exGen2, getPosteriorSample,
    continuePosteriorSample, firstTol, ETol.le, checkArgs, genLoop, getTolerance, fillN,
    performGeneration, accepts, ltTol, State.init, maxL, Gen.dists]

example : ∀ c ∈ [exGet, exContinue], c.quant = true ∧ 0 < c.N ∧ QuantileBelowMax c.Q := by
  intro c hc
  simp only [List.mem_cons, List.mem_nil_iff, or_false] at hc
  rcases hc with rfl | rfl <;> exact ⟨rfl, by decide, fun l _ => le_refl _⟩

example : ∀ t ∈ exStream, 0 ≤ t.w1 ∧ 0 < t.w2 := by
  intro t ht
  simp only [exStream, List.mem_cons, List.mem_nil_iff, or_false] at ht
  rcases ht with rfl | rfl | rfl | rfl | rfl | rfl | rfl | rfl | rfl | rfl <;> norm_num

/-- a continue call whose first tolerance exceeds `final_tol` is refused -/
example : runCalls [exGet, { exContinue with tol := .scalar (.fin 4) }] (State.init 1) exStream = .error .assertion := by
  norm_num [runCalls, runCall, exGet, exContinue, exStream, getPosteriorSample,
    continuePosteriorSample, firstTol, ETol.le, checkArgs, genLoop, getTolerance, fillN,
    performGeneration, accepts, ltTol, State.init, maxL, Gen.dists]

/-! ### what a call reads of the state left by the previous call (histories on one ABC object)

`runCall` is a function of (the call's arguments, the previous `State`, the trial stream).  The two theorems below say
exactly which part of the previous state matters.  The stored population `res` / `w` / `dist` is NOT among it: in the real
code the proposals of a continued run are resampled from `res_old` with `w_old` and `w2 = Σ w_old·K(res_old; x)`; both
are recorded per trial by the harness and reach the model as the fields `x`, `w2` of the trial stream. -/

/-- the attributes of the ABC object that the property observes (everything but the harness-side `history`) -/
def obs (s : State) : Nat × List Accepted × List ETol × Option ETol × Option Rat × Option Nat :=
  (s.numParam, s.parts, s.tolerances, s.finalTol, s.nextTol, s.N)

/-- the first tolerance of a call is the caller's, later ones are quantiles of distances produced in this very call:
`self.dist` as left by the previous call is never read by the generation loop -/
theorem genLoop_ignores_initial_dist (c : Call) (rerun : Bool) (k : Nat) (d1 d2 : List Rat) (s : List Trial) :
    genLoop c rerun 0 k d1 s = genLoop c rerun 0 k d2 s := by
  cases k with
  | zero => simp [genLoop]
  | succ k => simp only [genLoop, getTolerance_zero]

/-- **A fresh `get_posterior_sample` forgets the previous run**: its result (all attributes, the history, the rest of
the stream) is the same from any two previous states with the same number of parameters - `next_tol`, which a call
without `q` does not assign, is carried over. -/
theorem get_forgets_state (c : Call) (st1 st2 : State) (s : List Trial)
    (hp : st1.numParam = st2.numParam) (hn : c.quant = false → st1.nextTol = st2.nextTol) :
    getPosteriorSample c false st1 s = getPosteriorSample c false st2 s := by
  cases hq : c.quant with
  | true => simp [getPosteriorSample, hp, hq]
  | false => simp [getPosteriorSample, hp, hq, hn hq]

theorem getPosteriorSample_rerun_obs (c : Call) (st1 st2 : State) (s : List Trial)
    (hp : st1.numParam = st2.numParam) (hn : c.quant = false → st1.nextTol = st2.nextTol) :
    (getPosteriorSample c true st1 s).map (fun r => (obs r.1, r.2)) =
    (getPosteriorSample c true st2 s).map (fun r => (obs r.1, r.2)) := by
  unfold getPosteriorSample
  simp only [if_true]
  rw [genLoop_ignores_initial_dist c true c.G (st1.parts.map (·.dist)) (st2.parts.map (·.dist)) s]
  by_cases hc : checkArgs c = true
  · simp only [hc, Bool.not_true, Bool.false_eq_true, if_false]
    cases hg : genLoop c true 0 c.G (st2.parts.map (·.dist)) s with
    | error e => rfl
    | ok r =>
      obtain ⟨gens, s'⟩ := r
      cases hl : gens.getLast? with
      | none => simp [Except.map, hl]
      | some last =>
        cases hq : c.quant with
        | true => simp [Except.map, obs, hp, hq, hl]
        | false => simp [Except.map, obs, hp, hq, hn hq, hl]
  · simp [hc, Except.map]

/-- **A continued run reads of the previous state exactly `N` and `final_tol`** (its two asserts; plus `numParam`, and
`next_tol` is carried over when the call has no `q`): from any two previous states that agree on these, whatever
populations they hold, the same call on the same trial stream leaves the same observable attributes and the same rest of
the stream. -/
theorem continue_reads_only_N_finalTol (c : Call) (st1 st2 : State) (s : List Trial)
    (hp : st1.numParam = st2.numParam) (hN : st1.N = st2.N) (hf : st1.finalTol = st2.finalTol)
    (hn : c.quant = false → st1.nextTol = st2.nextTol) :
    (continuePosteriorSample c st1 s).map (fun r => (obs r.1, r.2)) =
    (continuePosteriorSample c st2 s).map (fun r => (obs r.1, r.2)) := by
  unfold continuePosteriorSample
  rw [hN, hf]
  cases st2.N with
  | none => rfl
  | some n =>
    cases st2.finalTol with
    | none => rfl
    | some ft =>
      simp only []
      by_cases hne : c.N ≠ n
      · simp [hne, Except.map]
      · simp only [hne, if_false]
        cases firstTol c.tol with
        | error e => rfl
        | ok t0 =>
          simp only []
          by_cases hle : ETol.le t0 ft
          · simp only [hle, if_true]
            exact getPosteriorSample_rerun_obs c st1 st2 s hp hn
          · simp [hle, Except.map]

/-- the population a state holds does not matter to a continued run: a witness with two different populations -/
example : (continuePosteriorSample exContinue { exState with parts := [] } []).map (fun r => (obs r.1, r.2)) =
    (continuePosteriorSample exContinue exState []).map (fun r => (obs r.1, r.2)) :=
  continue_reads_only_N_finalTol exContinue _ _ [] rfl rfl rfl (fun _ => rfl)

end Pygom.C17
