/-
C14 - loss kernels are the negative log-likelihoods they are named after.

`Pygom.Gen.*` (Gen/Kernels.lean) is REGENERATED from loss_type.py / distn.py of the tree under test on every run by
harness/translate_kernels.py: per class and method one real function of one observation `y`, one prediction `yhat`,
the spread (`sigma`, `shape`, `k`) and the weight `w`.  The theorems below are re-checked against what the code says now.

Each theorem is proved in two steps: (1) the generated term is, algebraically, the canonical closed form of
`Pygom.Spec` (Lemmas/Densities.lean) - this is the only step that looks at the generated text; (2) the canonical form is
minus the log of Mathlib's density (`gaussianPDFReal`, `poissonMeasure`, `gammaPDFReal`) or of the negative-binomial
mass function `Spec.nbPMF`, and has the stated derivatives.

Valid domain: `0 < yhat`; `0 < sigma, shape, k`; `y` a natural number for the count losses; `0 < y` for Gamma.
"Unweighted" is unit weight (`w = 1`), which is also what `apply_weighting=False` computes (`*_raw_eq`).
With weights the code computes: loss of the weighted residual `(w·r)²` (Square, Normal), `diff_loss` = `w` times the
derivative of the unweighted loss (all five; `*_diff_loss_weighted`) - stated as the code has it (C07 uses exactly that).
-/
import Pygom.Gen.Kernels
import Pygom.Lemmas.Densities

set_option linter.unusedSimpArgs false
set_option linter.unusedVariables false

open Real ProbabilityTheory Filter Topology

namespace Pygom
namespace C14

/-! ### step (1): the generated kernels are the canonical forms (pure algebra on the generated text) -/

theorem normal_loss_canonical (y m σ : ℝ) (hs : 0 < σ) : Gen.Normal_loss y m σ 1 = Spec.normalNLL y m σ := by
  unfold Gen.Normal_loss Spec.normalNLL
  have h2 : Real.log (2 * Real.pi) = Real.log 2 + Real.log Real.pi := Real.log_mul (by norm_num) (by positivity)
  simp only [one_div, Real.log_inv, h2]
  ring

theorem poisson_loss_canonical (y m : ℝ) : Gen.Poisson_loss y m 1 = Spec.poissonNLL y m := by
  unfold Gen.Poisson_loss Spec.poissonNLL
  ring

theorem gamma_loss_canonical (y m a : ℝ) (hm : 0 < m) (ha : 0 < a) : Gen.Gamma_loss y m a 1 = Spec.gammaNLL y m a := by
  unfold Gen.Gamma_loss Spec.gammaNLL
  simp only [Real.log_div hm.ne' ha.ne']
  ring

theorem negbinom_loss_canonical (y m k : ℝ) : Gen.NegBinom_loss y m k 1 = Spec.nbNLL y m k := by
  unfold Gen.NegBinom_loss Spec.nbNLL
  ring

/-! ### the losses -/

/-- Square loss of one observation is the squared weighted residual (summed over observations by `.sum()`) -/
theorem square_loss_def (y yhat w : ℝ) : Gen.Square_loss y yhat w = ((y - yhat) * w) ^ 2 := by
  unfold Gen.Square_loss
  ring

/-- Normal loss (unit weight) = −log N(yhat, σ²) density at y -/
theorem normal_loss_is_nll (y yhat sigma : ℝ) (hs : 0 < sigma) (v : NNReal) (hv : (v : ℝ) = sigma ^ 2) :
    Gen.Normal_loss y yhat sigma 1 = -Real.log (gaussianPDFReal yhat v y) := by
  rw [normal_loss_canonical y yhat sigma hs, Spec.normalNLL_eq y yhat sigma hs v hv]

/-- weighted Normal loss, as the code has it: −log N(0, σ²) density of the weighted residual `(y − yhat)·w` -/
theorem normal_loss_weighted (y yhat sigma w : ℝ) (hs : 0 < sigma) (v : NNReal) (hv : (v : ℝ) = sigma ^ 2) :
    Gen.Normal_loss y yhat sigma w = -Real.log (gaussianPDFReal 0 v ((y - yhat) * w)) := by
  rw [← Spec.normalNLL_eq ((y - yhat) * w) 0 sigma hs v hv, ← normal_loss_canonical _ _ _ hs]
  unfold Gen.Normal_loss
  ring_nf

/-- Poisson loss = −log Poisson(yhat) mass at the count y -/
theorem poisson_loss_is_nll (n : ℕ) (yhat w : ℝ) (hy : 0 < yhat) (r : NNReal) (hr : (r : ℝ) = yhat) :
    Gen.Poisson_loss n yhat w = -Real.log ((poissonMeasure r).real {n}) := by
  rw [← Spec.poissonNLL_eq n yhat hy r hr, ← poisson_loss_canonical]
  unfold Gen.Poisson_loss
  ring

/-- Gamma loss = −log Gamma(shape, rate = shape/yhat) density at y, i.e. the Gamma with mean yhat -/
theorem gamma_loss_is_nll (y yhat shape w : ℝ) (hy : 0 < y) (hm : 0 < yhat) (ha : 0 < shape) :
    Gen.Gamma_loss y yhat shape w = -Real.log (gammaPDFReal shape (shape / yhat) y) := by
  rw [← Spec.gammaNLL_eq y yhat shape hy hm ha, ← gamma_loss_canonical y yhat shape hm ha]
  unfold Gen.Gamma_loss
  ring

/-- NegBinom loss = −log of the negative-binomial mass `Γ(k+n)/(Γ(k) n!)·(k/(k+yhat))^k·(yhat/(k+yhat))^n` at the count n -/
theorem negbinom_loss_is_nll (n : ℕ) (yhat k w : ℝ) (hm : 0 < yhat) (hk : 0 < k) :
    Gen.NegBinom_loss n yhat k w = -Real.log (Spec.nbPMF k yhat n) := by
  rw [← Spec.nbNLL_eq n yhat k hm hk, ← negbinom_loss_canonical]
  unfold Gen.NegBinom_loss
  ring

/-! ### first derivatives: `diff_loss` is the derivative of the unweighted loss in the prediction -/

theorem square_diff_loss_is_derivative (y yhat : ℝ) :
    HasDerivAt (fun m => Gen.Square_loss y m 1) (Gen.Square_diff_loss y yhat 1) yhat := by
  have e : (fun m => Gen.Square_loss y m 1) = fun m => (y - m) ^ 2 := by
    funext m; unfold Gen.Square_loss; ring
  have h : HasDerivAt (fun m : ℝ => (y - m) ^ 2) (2 * (y - yhat) ^ (2 - 1) * (0 - 1)) yhat :=
    ((hasDerivAt_const yhat y).sub (hasDerivAt_id' yhat)).pow 2
  rw [e]
  exact h.congr_deriv (by unfold Gen.Square_diff_loss; ring)

theorem normal_diff_loss_is_derivative (y yhat sigma : ℝ) (hs : 0 < sigma) :
    HasDerivAt (fun m => Gen.Normal_loss y m sigma 1) (Gen.Normal_diff_loss y yhat sigma 1) yhat := by
  have e : (fun m => Gen.Normal_loss y m sigma 1) = fun m => Spec.normalNLL y m sigma :=
    funext fun m => normal_loss_canonical y m sigma hs
  rw [e]
  exact (Spec.normalNLL_deriv y yhat sigma hs.ne').congr_deriv (by unfold Gen.Normal_diff_loss; ring)

theorem poisson_diff_loss_is_derivative (y yhat : ℝ) (hm : 0 < yhat) :
    HasDerivAt (fun m => Gen.Poisson_loss y m 1) (Gen.Poisson_diff_loss y yhat 1) yhat := by
  have e : (fun m => Gen.Poisson_loss y m 1) = fun m => Spec.poissonNLL y m :=
    funext fun m => poisson_loss_canonical y m
  rw [e]
  exact (Spec.poissonNLL_deriv y yhat hm).congr_deriv (by unfold Gen.Poisson_diff_loss; ring)

theorem gamma_diff_loss_is_derivative (y yhat shape : ℝ) (hm : 0 < yhat) (ha : 0 < shape) :
    HasDerivAt (fun m => Gen.Gamma_loss y m shape 1) (Gen.Gamma_diff_loss y yhat shape 1) yhat := by
  have e : (fun m => Gen.Gamma_loss y m shape 1) =ᶠ[𝓝 yhat] fun m => Spec.gammaNLL y m shape :=
    Filter.eventually_of_mem (Ioi_mem_nhds hm) fun m hm' => gamma_loss_canonical y m shape hm' ha
  refine ((Spec.gammaNLL_deriv y yhat shape hm).congr_of_eventuallyEq e).congr_deriv ?_
  unfold Gen.Gamma_diff_loss; ring

theorem negbinom_diff_loss_is_derivative (y yhat k : ℝ) (hm : 0 < yhat) (hk : 0 < k) :
    HasDerivAt (fun m => Gen.NegBinom_loss y m k 1) (Gen.NegBinom_diff_loss y yhat k 1) yhat := by
  have e : (fun m => Gen.NegBinom_loss y m k 1) = fun m => Spec.nbNLL y m k :=
    funext fun m => negbinom_loss_canonical y m k
  rw [e]
  exact (Spec.nbNLL_deriv y yhat k hm hk).congr_deriv (by unfold Gen.NegBinom_diff_loss; ring)

/-! ### second derivatives: `diff2Loss` is the derivative of `diff_loss` (unweighted) -/

theorem square_diff2_is_second_derivative (y yhat : ℝ) :
    HasDerivAt (fun m => Gen.Square_diff_loss y m 1) (Gen.Square_diff2Loss y yhat 1) yhat := by
  have e : (fun m => Gen.Square_diff_loss y m 1) = fun m => -2 * (y - m) := by
    funext m; unfold Gen.Square_diff_loss; ring
  have h : HasDerivAt (fun m : ℝ => -2 * (y - m)) (-2 * (0 - 1)) yhat :=
    ((hasDerivAt_const yhat y).sub (hasDerivAt_id' yhat)).const_mul (-2)
  rw [e]
  exact h.congr_deriv (by unfold Gen.Square_diff2Loss; ring)

theorem normal_diff2_is_second_derivative (y yhat sigma : ℝ) (hs : 0 < sigma) :
    HasDerivAt (fun m => Gen.Normal_diff_loss y m sigma 1) (Gen.Normal_diff2Loss y yhat sigma 1) yhat := by
  have e : (fun m => Gen.Normal_diff_loss y m sigma 1) = fun t => -(y - t) / sigma ^ 2 := by
    funext m; unfold Gen.Normal_diff_loss; ring
  rw [e]
  exact (Spec.normalNLL_deriv2 y yhat sigma hs.ne').congr_deriv (by unfold Gen.Normal_diff2Loss; ring)

theorem poisson_diff2_is_second_derivative (y yhat : ℝ) (hm : 0 < yhat) :
    HasDerivAt (fun m => Gen.Poisson_diff_loss y m 1) (Gen.Poisson_diff2Loss y yhat 1) yhat := by
  have e : (fun m => Gen.Poisson_diff_loss y m 1) = fun t => -(y - t) / t := by
    funext m; unfold Gen.Poisson_diff_loss; ring
  rw [e]
  exact (Spec.poissonNLL_deriv2 y yhat hm).congr_deriv (by unfold Gen.Poisson_diff2Loss; ring)

theorem gamma_diff2_is_second_derivative (y yhat shape : ℝ) (hm : 0 < yhat) :
    HasDerivAt (fun m => Gen.Gamma_diff_loss y m shape 1) (Gen.Gamma_diff2Loss y yhat shape 1) yhat := by
  have e : (fun m => Gen.Gamma_diff_loss y m shape 1) = fun t => shape * (t - y) / t ^ 2 := by
    funext m; unfold Gen.Gamma_diff_loss; ring
  rw [e]
  exact (Spec.gammaNLL_deriv2 y yhat shape hm).congr_deriv (by unfold Gen.Gamma_diff2Loss; ring)

theorem negbinom_diff2_is_second_derivative (y yhat k : ℝ) (hm : 0 < yhat) (hk : 0 < k) :
    HasDerivAt (fun m => Gen.NegBinom_diff_loss y m k 1) (Gen.NegBinom_diff2Loss y yhat k 1) yhat := by
  have e : (fun m => Gen.NegBinom_diff_loss y m k 1) = fun t => k * (t - y) / (t * (k + t)) := by
    funext m; unfold Gen.NegBinom_diff_loss; ring
  rw [e]
  have hkm : k + yhat ≠ 0 := by positivity
  have := hm.ne'
  refine (Spec.nbNLL_deriv2 y yhat k hm hk).congr_deriv ?_
  unfold Gen.NegBinom_diff2Loss
  simp only [zpow_neg, zpow_ofNat, zpow_natCast]
  field_simp

/-! ### weights, as the code has them -/

theorem square_diff_loss_weighted (y yhat w : ℝ) : Gen.Square_diff_loss y yhat w = w * Gen.Square_diff_loss y yhat 1 := by
  unfold Gen.Square_diff_loss; ring
theorem normal_diff_loss_weighted (y yhat s w : ℝ) : Gen.Normal_diff_loss y yhat s w = w * Gen.Normal_diff_loss y yhat s 1 := by
  unfold Gen.Normal_diff_loss; ring
theorem poisson_diff_loss_weighted (y yhat w : ℝ) : Gen.Poisson_diff_loss y yhat w = w * Gen.Poisson_diff_loss y yhat 1 := by
  unfold Gen.Poisson_diff_loss; ring
theorem gamma_diff_loss_weighted (y yhat s w : ℝ) : Gen.Gamma_diff_loss y yhat s w = w * Gen.Gamma_diff_loss y yhat s 1 := by
  unfold Gen.Gamma_diff_loss; ring
theorem negbinom_diff_loss_weighted (y yhat s w : ℝ) : Gen.NegBinom_diff_loss y yhat s w = w * Gen.NegBinom_diff_loss y yhat s 1 := by
  unfold Gen.NegBinom_diff_loss; ring

/-- `apply_weighting=False` computes the unit-weight kernels (all fifteen methods) -/
theorem raw_eq_unit_weight (y yhat s w : ℝ) :
    Gen.Square_loss_raw y yhat w = Gen.Square_loss y yhat 1 ∧ Gen.Square_diff_loss_raw y yhat w = Gen.Square_diff_loss y yhat 1
    ∧ Gen.Square_diff2Loss_raw y yhat w = Gen.Square_diff2Loss y yhat 1
    ∧ Gen.Normal_loss_raw y yhat s w = Gen.Normal_loss y yhat s 1 ∧ Gen.Normal_diff_loss_raw y yhat s w = Gen.Normal_diff_loss y yhat s 1
    ∧ Gen.Normal_diff2Loss_raw y yhat s w = Gen.Normal_diff2Loss y yhat s 1
    ∧ Gen.Poisson_loss_raw y yhat w = Gen.Poisson_loss y yhat 1 ∧ Gen.Poisson_diff_loss_raw y yhat w = Gen.Poisson_diff_loss y yhat 1
    ∧ Gen.Poisson_diff2Loss_raw y yhat w = Gen.Poisson_diff2Loss y yhat 1
    ∧ Gen.Gamma_loss_raw y yhat s w = Gen.Gamma_loss y yhat s 1 ∧ Gen.Gamma_diff_loss_raw y yhat s w = Gen.Gamma_diff_loss y yhat s 1
    ∧ Gen.Gamma_diff2Loss_raw y yhat s w = Gen.Gamma_diff2Loss y yhat s 1
    ∧ Gen.NegBinom_loss_raw y yhat s w = Gen.NegBinom_loss y yhat s 1 ∧ Gen.NegBinom_diff_loss_raw y yhat s w = Gen.NegBinom_diff_loss y yhat s 1
    ∧ Gen.NegBinom_diff2Loss_raw y yhat s w = Gen.NegBinom_diff2Loss y yhat s 1 := by
  refine ⟨?_, ?_, ?_, ?_, ?_, ?_, ?_, ?_, ?_, ?_, ?_, ?_, ?_, ?_, ?_⟩
  · unfold Gen.Square_loss_raw Gen.Square_loss; ring
  · unfold Gen.Square_diff_loss_raw Gen.Square_diff_loss; ring
  · unfold Gen.Square_diff2Loss_raw Gen.Square_diff2Loss; ring
  · unfold Gen.Normal_loss_raw Gen.Normal_loss; ring
  · unfold Gen.Normal_diff_loss_raw Gen.Normal_diff_loss; ring
  · unfold Gen.Normal_diff2Loss_raw Gen.Normal_diff2Loss; ring
  · unfold Gen.Poisson_loss_raw Gen.Poisson_loss; ring
  · unfold Gen.Poisson_diff_loss_raw Gen.Poisson_diff_loss; ring
  · unfold Gen.Poisson_diff2Loss_raw Gen.Poisson_diff2Loss; ring
  · unfold Gen.Gamma_loss_raw Gen.Gamma_loss; ring
  · unfold Gen.Gamma_diff_loss_raw Gen.Gamma_diff_loss; ring
  · unfold Gen.Gamma_diff2Loss_raw Gen.Gamma_diff2Loss; ring
  · unfold Gen.NegBinom_loss_raw Gen.NegBinom_loss; ring
  · unfold Gen.NegBinom_diff_loss_raw Gen.NegBinom_diff_loss; ring
  · unfold Gen.NegBinom_diff2Loss_raw Gen.NegBinom_diff2Loss; ring

/-- the closed-form helpers of distn.py: `gamma_mu_shape` is the Gamma density with mean `mu`, `nb2pmf` the
negative-binomial mass (log and plain) -/
theorem gamma_mu_shape_is_density (x mu shape : ℝ) (hx : 0 < x) (hm : 0 < mu) (ha : 0 < shape) :
    Gen.gamma_mu_shape_log x mu shape = Real.log (gammaPDFReal shape (shape / mu) x)
    ∧ Gen.gamma_mu_shape_plain x mu shape = gammaPDFReal shape (shape / mu) x := by
  have h : Gen.gamma_mu_shape_log x mu shape = Real.log (gammaPDFReal shape (shape / mu) x) := by
    have := gamma_loss_is_nll x mu shape 1 hx hm ha
    unfold Gen.Gamma_loss at this
    unfold Gen.gamma_mu_shape_log
    linarith
  refine ⟨h, ?_⟩
  have hp : 0 < gammaPDFReal shape (shape / mu) x := gammaPDFReal_pos ha (by positivity) hx
  have : Gen.gamma_mu_shape_plain x mu shape = Real.exp (Gen.gamma_mu_shape_log x mu shape) := by
    unfold Gen.gamma_mu_shape_plain Gen.gamma_mu_shape_log; rfl
  rw [this, h, Real.exp_log hp]

theorem nb2pmf_is_mass (n : ℕ) (mu k : ℝ) (hm : 0 < mu) (hk : 0 < k) :
    Gen.nb2pmf_log n mu k = Real.log (Spec.nbPMF k mu n) ∧ Gen.nb2pmf_plain n mu k = Spec.nbPMF k mu n := by
  have h : Gen.nb2pmf_log n mu k = Real.log (Spec.nbPMF k mu n) := by
    have := negbinom_loss_is_nll n mu k 1 hm hk
    unfold Gen.NegBinom_loss at this
    unfold Gen.nb2pmf_log
    linarith
  refine ⟨h, ?_⟩
  have : Gen.nb2pmf_plain n mu k = Real.exp (Gen.nb2pmf_log n mu k) := by
    unfold Gen.nb2pmf_plain Gen.nb2pmf_log; rfl
  rw [this, h, Real.exp_log (Spec.nbPMF_pos k mu n hk hm)]

/-- Remark (not a violation: `diff2Loss` is the second derivative at unit weight, which is what the property asks):
with a non-unit weight `Gamma.diff2Loss` mixes the weighted residual with the unweighted observation and is *not*
`w` times the unweighted second derivative. -/
theorem gamma_diff2_weighted_remark : Gen.Gamma_diff2Loss 1 1 1 2 ≠ 2 * Gen.Gamma_diff2Loss 1 1 1 1 := by
  unfold Gen.Gamma_diff2Loss; norm_num

/-! ### sessions: several calls, several objects

The model of a kernel object is its per-observation data and nothing else - no memo, no buffer, no class-level table.
A call is therefore a function of (the object's data, the method, the prediction vector) alone.  The statements below
spell out what that means for a *sequence* of calls on several live objects; they are immediate for the model (that is
the point: the model has no state a call could leave behind).  Whether the real Python objects behave like this model
is what the session probes of harness/props/c14.py test directly (one buffer object refilled in place between calls,
sibling objects of the same class evaluated in between, results kept and re-compared, containers compared afterwards). -/

/-- the data of one observation, fixed when the object is built: observation, spread, weight -/
structure Obs where
  y : ℝ
  s : ℝ
  w : ℝ

/-- a kernel object as the model has it -/
abbrev Kernel := List Obs

/-- one call: which live object, which per-observation method (a generated `Gen.X_loss`, `Gen.X_diff_loss`,
`Gen.X_diff2Loss`, weighted or raw, as a function of `y yhat spread w`), at which predictions -/
structure Call where
  obj : ℕ
  meth : ℝ → ℝ → ℝ → ℝ → ℝ
  yhat : List ℝ

/-- the per-observation values a call returns (`loss` is their sum) -/
noncomputable def evalCall (objs : List Kernel) (c : Call) : List ℝ :=
  List.zipWith (fun o m => c.meth o.y m o.s o.w) (objs.getD c.obj []) c.yhat

/-- the results of a sequence of calls, in order -/
noncomputable def session (objs : List Kernel) : List Call → List (List ℝ)
  | [] => []
  | c :: cs => evalCall objs c :: session objs cs

/-- **session_is_pure.**  The i-th result of any session is the value of the i-th call evaluated on its own: nothing that
was called before it (other predictions through the same buffer, other methods, other objects) enters. -/
theorem session_is_pure (objs : List Kernel) (cs : List Call) : session objs cs = cs.map (evalCall objs) := by
  induction cs with
  | nil => rfl
  | cons c cs ih => simp only [session, List.map_cons, ih]

/-- **earlier_results_kept.**  Continuing a session does not change what it has already returned. -/
theorem earlier_results_kept (objs : List Kernel) (cs more : List Call) :
    session objs (cs ++ more) = session objs cs ++ session objs more := by
  simp only [session_is_pure, List.map_append]

/-- **repeat_reproduces.**  The same call made again later - whatever happened in between - returns the same values. -/
theorem repeat_reproduces (objs : List Kernel) (pre mid post : List Call) (c : Call) :
    (session objs (pre ++ c :: mid ++ c :: post))[pre.length]? = some (evalCall objs c)
    ∧ (session objs (pre ++ c :: mid ++ c :: post))[pre.length + 1 + mid.length]? = some (evalCall objs c) := by
  simp only [session_is_pure, List.map_append, List.map_cons, List.append_assoc]
  constructor
  · rw [List.getElem?_append_right (by simp)]
    simp
  · rw [List.getElem?_append_right (by simp; omega)]
    simp only [List.length_map]
    rw [show pre.length + 1 + mid.length - pre.length = (mid.length + 1) by omega]
    show (evalCall objs c :: (List.map (evalCall objs) mid ++ evalCall objs c :: List.map (evalCall objs) post))[mid.length + 1]? = _
    rw [List.getElem?_cons_succ, List.getElem?_append_right (by simp)]
    simp

/-- **objects_do_not_interact.**  A call on one object is unaffected by which other objects are alive and by their data. -/
theorem objects_do_not_interact (objs objs' : List Kernel) (c : Call)
    (h : objs.getD c.obj [] = objs'.getD c.obj []) : evalCall objs c = evalCall objs' c := by
  simp only [evalCall, h]

/-- non-vacuity / reading aid: a Normal `diff_loss` evaluated at A, at B and at A again returns its first value again -/
example (o : Kernel) (A B : List ℝ) :
    let c := fun yh => (⟨0, Gen.Normal_diff_loss, yh⟩ : Call)
    (session [o] [c A, c B, c A])[0]? = (session [o] [c A, c B, c A])[2]? := by
  simp [session]

/-- non-vacuity: the hypotheses of the theorems above are satisfiable (y = 3, yhat = 2, spread = 1/2) -/
example : ∃ (n : ℕ) (yhat k : ℝ), 0 < yhat ∧ 0 < k ∧
    Gen.NegBinom_loss n yhat k 1 = -Real.log (Spec.nbPMF k yhat n)
    ∧ HasDerivAt (fun m => Gen.NegBinom_loss n m k 1) (Gen.NegBinom_diff_loss n yhat k 1) yhat :=
  ⟨3, 2, 1 / 2, by norm_num, by norm_num, negbinom_loss_is_nll 3 2 (1 / 2) 1 (by norm_num) (by norm_num),
   negbinom_diff_loss_is_derivative 3 2 (1 / 2) (by norm_num) (by norm_num)⟩

end C14
end Pygom
