/-
C08, translator tie: the source variant EXTRACTED FROM THE TEXT of the tree under test
(`Pygom/Gen/CanaryCfg.lean`, regenerated on every run by harness/translate_canary.py from base_ode_model.py,
simulate.py and deterministic.py) satisfies the hypotheses of `Pygom.C08.never_stale`:

* every mutator follows every definition-changing statement by `_hasNewTransition.trip()`, and the declaration
  setters refresh `_sp`                                                         (`extracted_good`)
* every evaluator registered with `add_func` is listed in `HasNewTransition.states` (`extracted_registered_watched`),
  every evaluator of the model is registered and watched                        (`extracted_watches_all`)
* `ode` and only `ode` is the master canary                                     (`extracted_master_is_ode`)
* it is the variant the driver and `Pygom.C08.never_stale_source` use           (`extracted_eq_source`)
* `CompileCanary.trip()` rebinds `self._states` (one flag dict per canary object, not the class-level one shared by
  every model instance)                                                          (`extracted_store_eq_source`)

* every public alias of an evaluator (`ode_T`, `jacobian_T`, `grad_T`, `diff_jacobian_T`, `grad_jacobianT`,
  `total_transition`) returns its evaluator's compiled object through the evaluator's method, or directly only behind that
  evaluator's own flag                                                           (`extracted_alias_impl_ok`)

hence `never_stale_extracted`: C08 for the source as its text reads now, every history, every evaluator.
A mutator that forgets `trip()`, an evaluator missing from the flag list, a second master: one of these
theorems stops checking (they are closed terms evaluated by the kernel on the generated definitions).
-/
import Pygom.Props.C08
import Pygom.Gen.CanaryCfg

namespace Pygom.C08Source
open Pygom Pygom.Canary Pygom.Canary.Gen Pygom.C08

/-- every mutator trips; the declaration setters refresh `_sp` -/
theorem extracted_good : Good extractedCfg := ⟨fun k => by cases k <;> rfl, rfl⟩

/-- every name registered with `add_func` is watched by the canary of `SimulateOde` -/
theorem extracted_registered_watched : ∀ p ∈ extractedRegistered, extractedWatched.contains p.1 = true := by decide

/-- every name registered with `add_func` is an evaluator of the model (`Canary.Ev`) -/
theorem extracted_registered_modelled : ∀ p ∈ extractedRegistered, (Ev.ofName? p.1).isSome = true := by decide

/-- every evaluator of the model is registered with `add_func` -/
theorem extracted_all_registered : ∀ e : Ev, (extractedRegistered.lookup e.name).isSome = true := by
  intro e; cases e <;> decide

/-- every evaluator of the model is watched -/
theorem extracted_watches_all : ∀ e : Ev, extractedCfg.watched e = true := by
  intro e; cases e <;> decide

/-- `ode`, and only `ode`, is registered as the master canary -/
theorem extracted_master_is_ode : ∀ e : Ev, extractedCfg.master e = decide (e = .ode) := by
  intro e; cases e <;> decide

/-- the extracted variant is the one the driver runs and `never_stale_source` is about -/
theorem extracted_eq_source :
    (∀ e, extractedCfg.watched e = sourceCfg.watched e) ∧ (∀ e, extractedCfg.master e = sourceCfg.master e) ∧
    (∀ k, extractedCfg.trips k = sourceCfg.trips k) ∧ extractedCfg.declSetsSp = sourceCfg.declSetsSp := by
  refine ⟨fun e => ?_, fun e => ?_, fun k => ?_, ?_⟩
  · cases e <;> decide
  · cases e <;> decide
  · cases k <;> decide
  · decide

theorem evalsWatched_extracted (ops : List Op) : evalsWatched extractedCfg ops := by
  induction ops with
  | nil => trivial
  | cons op ops ih =>
    cases op with
    | mutate m => exact ih
    | setParams v => exact ih
    | evaluate e x t => exact ⟨extracted_watches_all e, ih⟩

/-- **C08 for the source as its text reads now**: every history (any length, any interleaving), every evaluator,
every semantics of compile-and-call. -/
theorem never_stale_extracted {V} (sem : Sem V) (d0 : ModelDef) (pv0 : List Rat) (ops : List Op) :
    ∀ o ∈ run extractedCfg (cinit extractedCfg d0 pv0) ops,
      o.value sem = freshValue extractedCfg sem o.cur o.pvals o.ev o.x o.t :=
  never_stale _ extracted_good sem d0 pv0 ops (evalsWatched_extracted ops)

/-- **where the flags live, as the text of compile_canary.py reads now**: `trip()` rebinds `self._states` and `__init__`
calls `trip()`, so every canary object owns its dict - the configuration `sourceShared` (= per-instance stores) that the
driver runs and `two_instance_noninterference` needs.  A `trip()` that updates the class-level dict in place makes this
theorem fail to check. -/
theorem extracted_store_eq_source : extractedSharedStore = sourceShared := by decide

theorem extracted_store_per_instance : extractedSharedStore = false := by decide

/-- **C08 for two live instances, for the source as its text reads now**: every interleaving of operations addressed to
either instance, every evaluator, every semantics of compile-and-call. -/
theorem never_stale_pair_extracted {V} (sem : Sem V) (dA dB : ModelDef) (pvA pvB : List Rat) (ops : List (Who × Op)) :
    ∀ wo ∈ prun extractedCfg extractedSharedStore (pinit extractedCfg dA pvA dB pvB) ops,
      wo.2.value sem = freshValue extractedCfg sem wo.2.cur wo.2.pvals wo.2.ev wo.2.x wo.2.t := by
  rw [extracted_store_per_instance]
  exact never_stale_pair extractedCfg extracted_good sem dA dB pvA pvB ops
    (fun _ _ e _ _ _ => extracted_watches_all e)

/-! ### secondary entry points, as the text of deterministic.py / simulate.py reads now -/

/-- every alias the model knows is in the text, and returns the compiled object of the evaluator the model says -/
theorem extracted_aliases_complete :
    ∀ a : Alias, (extractedAliases.lookup a.name).map (fun p => p.1) = some a.target.name := by
  intro a; cases a <;> decide

/-- every alias extracted is one the model knows; a guard, where there is one, names an evaluator -/
theorem extracted_aliases_modelled :
    ∀ p ∈ extractedAliases, (Alias.ofName? p.1).isSome = true ∧ ∀ g, p.2.2 = some g → (Ev.ofName? g).isSome = true := by
  decide

/-- **every alias goes through its evaluator's method, or calls `<target>Compiled` directly only behind the target's OWN
flag.**  A fast path behind another evaluator's flag (`jacobian_T` short-cut while the master canary `ode` is alive)
makes this theorem fail to check. -/
theorem extracted_alias_impl_ok : AliasOk extractedAliasImpl := by
  intro a; cases a <;> decide

/-- **C08 through the secondary entry points, for the source as its text reads now**: every history of mutators,
parameter assignments, evaluations and alias calls (`ode_T`, `jacobian_T`, `grad_T`, `diff_jacobian_T`, `grad_jacobianT`,
`total_transition`), every observation. -/
theorem never_stale_extracted_aliases {V} (sem : Sem V) (d0 : ModelDef) (pv0 : List Rat) (ops : List AOp) :
    ∀ o ∈ arun extractedCfg extractedAliasImpl (cinit extractedCfg d0 pv0) ops,
      o.value sem = freshValue extractedCfg sem o.cur o.pvals o.ev o.x o.t :=
  never_stale_aliases extractedCfg extracted_good extracted_watches_all extractedAliasImpl extracted_alias_impl_ok sem d0 pv0 ops

/-- non-vacuity: the extracted tables are not empty -/
example : extractedWatched.length ≥ 12 ∧ extractedRegistered.length ≥ 12 := by decide

end Pygom.C08Source
