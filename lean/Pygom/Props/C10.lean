/-
C10 — closed compartmental models conserve the total population.

* `ode_sum_zero`        : transition-only model, no explicit terms ⇒ Σ_k f_k = 0 identically
                          (any field, any interpretation, any environment, symbolic magnitudes included)
* `vmat_col_sum_zero`   : every column of the state-change matrix sums to zero
* `flow_sum_const`      : a differentiable solution of x' = f(x) with Σ f = 0 keeps Σ x constant
* `path_sum_const`      : a path whose increments are integer combinations of zero-sum columns keeps
                          Σ x exactly (every number of steps, any counts)
-/
import Pygom.Props.C01
import Pygom.Ops
import Mathlib.Analysis.Calculus.MeanValue
import Mathlib.Analysis.Calculus.Deriv.Add
import Mathlib.Algebra.BigOperators.Group.Finset.Basic
import Mathlib.Tactic

set_option linter.unusedSimpArgs false
set_option linter.unusedVariables false

namespace Pygom.C10
open Pygom Expr

variable {K : Type} [Field K]

/-- every transition of every event is of type `T` -/
def TransitionOnly (evs : List REvent) : Prop := ∀ ev ∈ evs, ∀ tr ∈ ev.transitions, tr.ttype = .T

/-- sum over the state indices `0..n-1` -/
def sumStates (n : Nat) (g : Nat → K) : K := ((List.range n).map g).sum

theorem sumStates_add (n : Nat) (g h : Nat → K) :
    sumStates n (fun k => g k + h k) = sumStates n g + sumStates n h := by
  unfold sumStates; induction (List.range n) with
  | nil => simp
  | cons a l ih => simp only [List.map_cons, List.sum_cons, ih]; ring

theorem sumStates_mul_left (n : Nat) (c : K) (g : Nat → K) :
    sumStates n (fun k => c * g k) = c * sumStates n g := by
  unfold sumStates; induction (List.range n) with
  | nil => simp
  | cons a l ih => simp only [List.map_cons, List.sum_cons, ih]; ring

theorem sumStates_mul_right (n : Nat) (c : K) (g : Nat → K) :
    sumStates n (fun k => g k * c) = sumStates n g * c := by
  unfold sumStates; induction (List.range n) with
  | nil => simp
  | cons a l ih => simp only [List.map_cons, List.sum_cons, ih]; ring

theorem sumStates_zero (n : Nat) : sumStates n (fun _ => (0 : K)) = 0 := by
  unfold sumStates; induction (List.range n) with
  | nil => simp
  | cons a l ih => simp only [List.map_cons, List.sum_cons, ih]; ring

theorem sumStates_listSum {α : Type} (n : Nat) (l : List α) (g : α → Nat → K) :
    sumStates n (fun k => (l.map (fun a => g a k)).sum) = (l.map (fun a => sumStates n (g a))).sum := by
  induction l with
  | nil => simp [sumStates_zero]
  | cons a l ih => simp only [List.map_cons, List.sum_cons]; rw [sumStates_add, ih]

/-- the indicator of one index sums to one over a range containing it -/
theorem sumStates_indicator (n i : Nat) (hi : i < n) (c : K) :
    sumStates n (fun k => if i = k then c else 0) = c := by
  unfold sumStates
  induction n with
  | zero => omega
  | succ n ih =>
    rw [List.range_succ, List.map_append, List.sum_append]
    by_cases h : i = n
    · subst h
      have : ((List.range i).map (fun k => if i = k then c else (0:K))).sum = 0 := by
        apply List.sum_eq_zero; intro x hx
        simp only [List.mem_map, List.mem_range] at hx
        obtain ⟨k, hk, rfl⟩ := hx
        have : i ≠ k := by omega
        simp [this]
      simp [this]
    · have hlt : i < n := by omega
      rw [ih hlt]; simp [h]

theorem sum_sgn_T (n : Nat) (tr : RTrans) (hT : tr.ttype = .T) (hwf : tr.wf n) :
    sumStates n (fun k => (sgn tr k : K)) = 0 := by
  unfold sgn; simp only [hT]
  rw [sumStates_add, sumStates_indicator n tr.dest hwf.2, sumStates_indicator n tr.origin hwf.1]; ring

theorem sum_net_T (I : FnInterp K) (ρ : String → K) (n : Nat) (ev : REvent)
    (hT : ∀ tr ∈ ev.transitions, tr.ttype = .T) (hwf : ∀ tr ∈ ev.transitions, tr.wf n) :
    sumStates n (net I ρ ev) = 0 := by
  unfold net
  rw [sumStates_listSum]
  apply List.sum_eq_zero
  intro x hx
  simp only [List.mem_map] at hx
  obtain ⟨tr, htr, rfl⟩ := hx
  rw [sumStates_mul_right, sum_sgn_T n tr (hT tr htr) (hwf tr htr)]; ring

/-- **The right-hand side of a closed model sums to zero identically.** -/
theorem ode_sum_zero (I : FnInterp K) (ρ : String → K) (n : Nat) (evs : List REvent)
    (hT : TransitionOnly evs) (hwf : C01.WF n evs) :
    sumStates n (comp I ρ (odeEqnR n evs [])) = 0 := by
  have : comp I ρ (odeEqnR n evs []) = fun k => (evs.map (fun ev => Expr.eval I ρ ev.rate * net I ρ ev k)).sum := by
    funext k
    rw [C01.ode_entry I ρ n evs [] k hwf (by simp)]; simp [odeTerms]
  rw [this, sumStates_listSum]
  apply List.sum_eq_zero
  intro x hx
  simp only [List.mem_map] at hx
  obtain ⟨ev, hev, rfl⟩ := hx
  rw [sumStates_mul_left, sum_net_T I ρ n ev (hT ev hev) (hwf ev hev)]; ring

/-- **Every column of the state-change matrix of a closed model sums to zero** (also symbolic magnitudes). -/
theorem vmat_col_sum_zero (I : FnInterp K) (ρ : String → K) (n : Nat) (ev : REvent)
    (hT : ∀ tr ∈ ev.transitions, tr.ttype = .T) (hwf : ∀ tr ∈ ev.transitions, tr.wf n) :
    sumStates n (comp I ρ (vcol n ev)) = 0 := by
  have : comp I ρ (vcol n ev) = net I ρ ev := by funext k; exact C01.vmat_entry I ρ n ev k hwf
  rw [this]; exact sum_net_T I ρ n ev hT hwf

/-- **Deterministic flow**: if `x' = f ∘ x` componentwise and the components of `f` sum to zero
everywhere, the total `Σ x_i(t)` is constant. -/
theorem flow_sum_const {n : Nat} (x : ℝ → Fin n → ℝ) (f : (Fin n → ℝ) → Fin n → ℝ)
    (hx : ∀ t i, HasDerivAt (fun s => x s i) (f (x t) i) t)
    (hf : ∀ y, ∑ i, f y i = 0) (t₀ t₁ : ℝ) :
    ∑ i, x t₁ i = ∑ i, x t₀ i := by
  have hsum : ∀ t, HasDerivAt (fun s => ∑ i, x s i) 0 t := by
    intro t
    have := HasDerivAt.fun_sum (u := Finset.univ) (fun i _ => hx t i)
    rw [hf (x t)] at this
    exact this
  have hd : Differentiable ℝ (fun s => ∑ i, x s i) := fun t => (hsum t).differentiableAt
  have := is_const_of_deriv_eq_zero hd (fun t => (hsum t).deriv) t₁ t₀
  exact this

/-- one stochastic step: add `counts[j]` copies of column `j` to the state (integers) -/
def applyCounts (x : List Int) (cols : List (List Int)) (counts : List Int) : List Int :=
  (cols.zip counts).foldl (fun acc cc => List.zipWith (fun a v => a + v * cc.2) acc cc.1) x

theorem sum_zipWith_add_mul (x col : List Int) (c : Int) (hlen : col.length = x.length) :
    (List.zipWith (fun a v => a + v * c) x col).sum = x.sum + col.sum * c := by
  induction x generalizing col with
  | nil => cases col <;> simp_all
  | cons a x ih =>
    cases col with
    | nil => simp at hlen
    | cons v col =>
      simp only [List.zipWith_cons_cons, List.sum_cons]
      rw [ih col (by simpa using hlen)]; ring

/-- **Stochastic step**: columns summing to zero ⇒ the step keeps the total exactly, whatever the counts. -/
theorem step_sum_const (x : List Int) (cols : List (List Int)) (counts : List Int)
    (hlen : ∀ c ∈ cols, c.length = x.length) (hzero : ∀ c ∈ cols, c.sum = 0) :
    (applyCounts x cols counts).sum = x.sum := by
  unfold applyCounts
  suffices H : ∀ (l : List (List Int × Int)) (acc : List Int), acc.length = x.length →
      (∀ cc ∈ l, cc.1.length = x.length ∧ cc.1.sum = 0) →
      (l.foldl (fun acc cc => List.zipWith (fun a v => a + v * cc.2) acc cc.1) acc).sum = acc.sum by
    apply H _ x rfl
    intro cc hcc
    have := (List.of_mem_zip hcc).1
    exact ⟨hlen _ this, hzero _ this⟩
  intro l
  induction l with
  | nil => intro acc _ _; simp
  | cons cc l ih =>
    intro acc hacc hl
    simp only [List.foldl_cons]
    have h1 := hl cc (by simp)
    rw [ih _ (by simp [h1.1, hacc]) (fun c hc => hl c (by simp [hc]))]
    rw [sum_zipWith_add_mul acc cc.1 cc.2 (by rw [h1.1, hacc]), h1.2]; ring

/-- **Every recorded state of every path** (any number of steps, any per-step counts, exact or
tau-leap) has the same total as the initial state. -/
theorem path_sum_const (x0 : List Int) (cols : List (List Int)) (steps : List (List Int))
    (hlen : ∀ c ∈ cols, c.length = x0.length) (hzero : ∀ c ∈ cols, c.sum = 0) :
    ∀ x ∈ (steps.scanl (fun x counts => applyCounts x cols counts) x0), x.sum = x0.sum := by
  suffices H : ∀ (x0' : List Int), x0'.length = x0.length → x0'.sum = x0.sum →
      ∀ x ∈ (steps.scanl (fun x counts => applyCounts x cols counts) x0'), x.sum = x0.sum from H x0 rfl rfl
  induction steps with
  | nil => intro x0' _ hs x hx; simp at hx; rw [hx]; exact hs
  | cons c steps ih =>
    intro x0' hl hs x hx
    rw [List.scanl_cons] at hx
    rcases List.mem_cons.mp hx with rfl | hx'
    · exact hs
    · have hstep := step_sum_const x0' cols c (fun cc hcc => by rw [hlen cc hcc, hl]) hzero
      have hlen' : (applyCounts x0' cols c).length = x0.length := by
        unfold applyCounts
        suffices H2 : ∀ (l : List (List Int × Int)) (acc : List Int), acc.length = x0.length →
            (∀ cc ∈ l, cc.1.length = x0.length) →
            (l.foldl (fun acc cc => List.zipWith (fun a v => a + v * cc.2) acc cc.1) acc).length = x0.length by
          exact H2 _ x0' hl (fun cc hcc => hlen _ (List.of_mem_zip hcc).1)
        intro l
        induction l with
        | nil => intro acc h _; simpa using h
        | cons cc l ih2 =>
          intro acc h hl2
          simp only [List.foldl_cons]
          exact ih2 _ (by simp [h, hl2 cc (by simp)]) (fun c hc => hl2 c (by simp [hc]))
      exact ih _ hlen' (by rw [hstep, hs]) x hx'

/-- the driver's `apply_counts` op runs exactly the function the theorems are about -/
theorem driver_applyCounts_eq (x : List Int) (cols : List (List Int)) (counts : List Int) :
    applyCountsI x cols counts = applyCounts x cols counts := rfl

/-- non-vacuity: the SIR events are transition-only and well-formed -/
example : TransitionOnly [⟨.var "a", [⟨.T, 0, 1, .num 1⟩]⟩, ⟨.var "b", [⟨.T, 1, 2, .num 2⟩]⟩] := by
  intro ev hev tr htr; simp at hev; rcases hev with rfl | rfl <;> simp at htr <;> subst htr <;> rfl

example : applyCounts [5, 1, 0] [[-1, 1, 0], [0, -1, 1]] [2, 1] = [3, 2, 1] := by decide

end Pygom.C10
