/-
C15 — gridded stochastic output agrees with the underlying path.

Property theorems about `extractObservationAtTime` (`_extractObservationAtTime`), numpy's histogram
convention and `addJumpsBetweenTime` (`_addJumpsBetweenTime`, as repaired: the per-transition weighted
histogram of the event times in both modes) of `Pygom/Stoch.lean`.  A path is given by its initial
record `(x0, t0)` and the list `recs` of appended records; `pathStates`, `pathTimes`, `pathCounts` are the
arrays `_jump` returns.  `rows_telescope` / `exact_run_rows_telescope` sum the interval identity over the grid.
`exact_counts_counterexample` is about the exact-mode branch as it was before the
repair (`np.histogram(t, bins)`: all recorded times, `t0` included, unweighted, the same for every transition).
-/
import Pygom.Lemmas.StochGrid
import Pygom.Props.C04

set_option linter.unusedSimpArgs false
set_option linter.unnecessarySeqFocus false
set_option linter.unusedVariables false

namespace Pygom.C15
open Pygom Pygom.Stoch

/-- **rows_count.**  One state row per requested time; one count row per interval. -/
theorem rows_count (X : List Vec) (ts grid : List Rat) (nTrans : Nat) (dX : List (List Nat)) :
    (extractObservationAtTime X ts grid).length = grid.length ∧
    (addJumpsBetweenTime nTrans dX ts grid).length = grid.length - 1 := by
  simp [extractObservationAtTime, addJumpsBetweenTime]

/-- **row_zero.**  The first row is the initial state when the grid starts at (or before) the initial time. -/
theorem row_zero (x0 : Vec) (t0 : Rat) (recs : List Rec) (grid : List Rat)
    (hs : (pathTimes t0 recs).Pairwise (· < ·)) (hg : 0 < grid.length) (h0 : grid[0] ≤ t0) :
    (extractObservationAtTime (pathStates x0 recs) (pathTimes t0 recs) grid).getD 0 [] = x0 := by
  rw [rows_entry _ _ _ 0 hg]
  simp only [pathTimes] at hs ⊢
  rw [extractIdx_eq_zero t0 _ _ (fun τ hτ => lt_of_le_of_lt h0 ((List.pairwise_cons.mp hs).1 τ hτ))]
  simp [pathStates]

/-- **row_is_path_state.**  Row `k` is the state of the underlying path at time `grid[k]`: the record with the
LAST time `≤ grid[k]` (every later record is strictly later).  Holds for every grid point at or after the
initial time, in particular for grids extending past the last event (then it is the final state). -/
theorem row_is_path_state (x0 : Vec) (t0 : Rat) (recs : List Rec) (grid : List Rat) (k : Nat)
    (hs : (pathTimes t0 recs).Pairwise (· < ·)) (hk : k < grid.length) (h0 : t0 ≤ grid[k]) :
    ∃ j, ∃ hj : j < (pathTimes t0 recs).length,
      (extractObservationAtTime (pathStates x0 recs) (pathTimes t0 recs) grid).getD k []
          = (pathStates x0 recs).getD j [] ∧
      (pathTimes t0 recs)[j] ≤ grid[k] ∧
      ∀ j' (hj' : j' < (pathTimes t0 recs).length), j < j' → grid[k] < (pathTimes t0 recs)[j'] := by
  obtain ⟨hidx, hle, hlater⟩ := extractIdx_spec (pathTimes t0 recs) hs grid[k] (by simp [pathTimes]) (by simpa [pathTimes] using h0)
  exact ⟨_, hidx, rows_entry _ _ _ k hk, hle, hlater⟩

/-- **counts_are_per_transition.**  Entry `(k, i)` of the reported interval counts is the number of firings of
transition `i` — the sum of `counts_step[i]` — over the steps whose event time (`t[1:]`, the initial time is not
an event) falls in numpy's bin `k`: `[grid[k], grid[k+1])`, the last bin closed on the right. -/
theorem counts_are_per_transition (nTrans : Nat) (recs : List Rec) (t0 : Rat) (grid : List Rat) (k i : Nat)
    (hk : k + 1 < grid.length) (hi : i < nTrans) :
    ((addJumpsBetweenTime nTrans (pathCounts recs) (pathTimes t0 recs) grid).getD k []).getD i 0
      = (List.zipWith (fun τ n => if inBin (bin grid k) τ then n else 0)
          (recs.map (·.t)) (recs.map (fun r => ((r.counts.getD i 0 : Nat) : Int)))).sum := by
  rw [counts_entry _ _ _ _ _ _ hk hi]
  simp [binWeight, pathTimes, pathCounts, countCol]

theorem inBin_iff (grid : List Rat) (k : Nat) (hk : k + 1 < grid.length) (τ : Rat)
    (hno : τ ≠ grid[k] ∧ (k + 2 < grid.length → τ ≠ grid[k+1])) :
    (decide (τ ≤ grid[k+1]) && !decide (τ ≤ grid[k])) = inBin (bin grid k) τ := by
  have hk0 : k < grid.length := by omega
  have e1 : grid.getD k 0 = grid[k] := by simp [List.getD_eq_getElem?_getD, hk0]
  have e2 : grid.getD (k+1) 0 = grid[k+1] := by simp [List.getD_eq_getElem?_getD, hk]
  simp only [inBin, bin, e1, e2]
  rw [Bool.eq_iff_iff]
  simp only [Bool.and_eq_true, Bool.or_eq_true, Bool.not_eq_true', decide_eq_true_eq, decide_eq_false_iff_not, not_le]
  constructor
  · rintro ⟨h1, h2⟩
    refine ⟨le_of_lt h2, ?_⟩
    rcases lt_or_eq_of_le h1 with h | h
    · exact Or.inl h
    · right
      refine ⟨?_, h⟩
      by_contra hl
      exact hno.2 (by omega) h
  · rintro ⟨h1, h2⟩
    refine ⟨?_, lt_of_le_of_ne h1 (Ne.symm hno.1)⟩
    rcases h2 with h | ⟨_, h⟩
    · exact le_of_lt h
    · exact le_of_eq h

/-- **rows_differ_by_vmat_counts.**  For a path whose steps change component `s` by `(V · counts)[s]` (C04
`path_increment` with a state-independent state-change matrix `V`) and whose times increase (C04
`path_times_increasing`): consecutive rows differ by `V` times the reported counts of that interval,

    `row_{k+1}[s] − row_k[s] = Σ_i V[s,i] · counts_k[i]`,

under the hypothesis the proof forces: NO EVENT TIME COINCIDES WITH AN INTERIOR GRID POINT (`grid[k]`, and
`grid[k+1]` unless it is the last grid point).  The look-up is `≤`, numpy's bins are `[ , )`: an event exactly on
an interior grid point is already in the row of that point but counted in the following interval
(`grid_point_coincidence_counterexample`).  For exponential waiting times the excluded set has probability zero. -/
theorem rows_differ_by_vmat_counts (V : List Vec) (x0 : Vec) (t0 : Rat) (recs : List Rec) (grid : List Rat)
    (k s : Nat)
    (hinc : Steps (fun x _ r => r.x.getD s 0 = x.getD s 0 + mulVec V r.counts s) x0 t0 recs)
    (hsorted : (pathTimes t0 recs).Pairwise (· < ·))
    (hk : k + 1 < grid.length) (h0 : t0 ≤ grid[k]) (hle : grid[k] ≤ grid[k+1])
    (hno : ∀ r ∈ recs, r.t ≠ grid[k] ∧ (k + 2 < grid.length → r.t ≠ grid[k+1])) :
    ((extractObservationAtTime (pathStates x0 recs) (pathTimes t0 recs) grid).getD (k+1) []).getD s 0
      - ((extractObservationAtTime (pathStates x0 recs) (pathTimes t0 recs) grid).getD k []).getD s 0
    = ((List.range V.length).map (fun i => (V.getD i []).getD s 0 *
        ((((addJumpsBetweenTime V.length (pathCounts recs) (pathTimes t0 recs) grid).getD k []).getD i 0 : Int) : Rat))).sum := by
  have hk0 : k < grid.length := by omega
  rw [rows_entry _ _ _ (k+1) hk, rows_entry _ _ _ k hk0,
    state_at_grid V s recs x0 t0 grid[k+1] hinc hsorted (le_trans h0 hle),
    state_at_grid V s recs x0 t0 grid[k] hinc hsorted h0]
  have hsub := selSum_sub (fun τ => decide (τ ≤ grid[k+1])) (fun τ => decide (τ ≤ grid[k]))
    (recs.map (·.t)) (recs.map (fun r => mulVec V r.counts s))
    (by intro τ _ h; simp only [decide_eq_true_eq] at h ⊢; exact le_trans h hle)
  have hcongr := selSum_congr (fun τ => decide (τ ≤ grid[k+1]) && !decide (τ ≤ grid[k])) (inBin (bin grid k))
    (recs.map (·.t)) (recs.map (fun r => mulVec V r.counts s))
    (by
      intro τ hτ
      simp only [List.mem_map] at hτ
      obtain ⟨r, hr, rfl⟩ := hτ
      exact inBin_iff grid k hk r.t (hno r hr))
  have hrhs : (List.range V.length).map (fun i => (V.getD i []).getD s 0 *
        ((((addJumpsBetweenTime V.length (pathCounts recs) (pathTimes t0 recs) grid).getD k []).getD i 0 : Int) : Rat))
      = (List.range V.length).map (fun i => (V.getD i []).getD s 0 *
        selSum (inBin (bin grid k)) (recs.map (·.t)) ((countCol (recs.map (·.counts)) i).map (fun (z : Int) => (z : Rat)))) := by
    apply List.map_congr_left
    intro i hi
    rw [counts_entry _ _ _ _ _ _ hk (by simpa using hi), binWeight_cast]
    simp [pathTimes, pathCounts]
  rw [hrhs, sum_exchange, ← hcongr, ← hsub]
  ring

/-- **rows_telescope.**  Summed over intervals: for a non-decreasing grid at or after the initial time with no event on
a grid point other than the last, row `m` differs from row `0` by `V` times the counts reported for the intervals
`0 .. m-1` added up — no event between the first and the `m`-th requested time is lost or counted twice, however
the grid cuts the path (any number of points, any spacing, intervals without events, points past extinction). -/
theorem rows_telescope (V : List Vec) (x0 : Vec) (t0 : Rat) (recs : List Rec) (grid : List Rat) (s : Nat)
    (hinc : Steps (fun x _ r => r.x.getD s 0 = x.getD s 0 + mulVec V r.counts s) x0 t0 recs)
    (hsorted : (pathTimes t0 recs).Pairwise (· < ·))
    (h0 : ∀ k (hk : k < grid.length), t0 ≤ grid[k])
    (hle : ∀ k (hk : k + 1 < grid.length), grid[k] ≤ grid[k+1])
    (hno : ∀ r ∈ recs, ∀ k (hk : k + 1 < grid.length), r.t ≠ grid[k])
    (m : Nat) (hm : m < grid.length) :
    ((extractObservationAtTime (pathStates x0 recs) (pathTimes t0 recs) grid).getD m []).getD s 0
      - ((extractObservationAtTime (pathStates x0 recs) (pathTimes t0 recs) grid).getD 0 []).getD s 0
    = ((List.range m).map (fun k => ((List.range V.length).map (fun i => (V.getD i []).getD s 0 *
        ((((addJumpsBetweenTime V.length (pathCounts recs) (pathTimes t0 recs) grid).getD k []).getD i 0 : Int) : Rat))).sum)).sum := by
  induction m with
  | zero => simp
  | succ m ih =>
    have hstep := rows_differ_by_vmat_counts V x0 t0 recs grid m s hinc hsorted hm (h0 m (by omega)) (hle m hm)
      (fun r hr => ⟨hno r hr m hm, fun h2 => hno r hr (m+1) h2⟩)
    have ih' := ih (by omega)
    rw [List.range_succ, List.map_append, List.sum_append, ← ih', List.map_singleton, List.sum_singleton, ← hstep]
    ring

theorem steps_fix_component {Q : Vec → Rat → Rec → Nat → Prop} (s : Nat) :
    ∀ (recs : List Rec) (x0 : Vec) (t0 : Rat),
      Steps (fun x t r => r.x.length = x.length ∧ ∀ s, s < x.length → Q x t r s) x0 t0 recs → s < x0.length →
      Steps (fun x t r => Q x t r s) x0 t0 recs := by
  intro recs
  induction recs with
  | nil => intro _ _ _ _; trivial
  | cons r rs ih =>
    intro x0 t0 h hs
    exact ⟨h.1.2 s hs, ih r.x r.t h.2 (by rw [h.1.1]; exact hs)⟩

/-- the same for the paths the simulation produces in exact mode (C04 supplies both hypotheses): event-defined
model with a state-independent state-change matrix `V`, any positive draws, any grid at or after `t0` -/
theorem exact_run_rows_differ (c : Cfg) (V : List Vec) (is : List IterIn) (x0 : Vec) (t0 : Rat) (grid : List Rat)
    (k s : Nat) (hV : ∀ x t, (c.ev x t).cols = V) (hc : C04.GoodCfg c) (hd : C04.PosDraws is) (hs : s < x0.length)
    (hk : k + 1 < grid.length) (h0 : t0 ≤ grid[k]) (hle : grid[k] ≤ grid[k+1])
    (hno : ∀ r ∈ run c true x0 t0 is, r.t ≠ grid[k] ∧ (k + 2 < grid.length → r.t ≠ grid[k+1])) :
    let recs := run c true x0 t0 is
    ((extractObservationAtTime (pathStates x0 recs) (pathTimes t0 recs) grid).getD (k+1) []).getD s 0
      - ((extractObservationAtTime (pathStates x0 recs) (pathTimes t0 recs) grid).getD k []).getD s 0
    = ((List.range V.length).map (fun i => (V.getD i []).getD s 0 *
        ((((addJumpsBetweenTime V.length (pathCounts recs) (pathTimes t0 recs) grid).getD k []).getD i 0 : Int) : Rat))).sum := by
  intro recs
  apply rows_differ_by_vmat_counts V x0 t0 recs grid k s _ (C04.path_times_increasing c true is x0 t0 hc hd) hk h0 hle hno
  have hinc := C04.path_increment c true is x0 t0
  have hcnt := C04.path_counts c true is x0 t0
  -- in exact mode no step is a tau-leap: the ODE summand is absent
  have hboth : Steps (fun x t r => r.x.length = x.length ∧ ∀ s, s < x.length →
      r.x.getD s 0 = x.getD s 0 + mulVec V r.counts s) x0 t0 recs := by
    have : ∀ (rs : List Rec) (x : Vec) (t : Rat),
        Steps (fun x t r => r.x.length = x.length ∧ ∀ s, s < x.length →
          r.x.getD s 0 - x.getD s 0 = mulVec (c.ev x t).cols r.counts s
            + (if r.branch = .tau then (c.ev x t).pure.getD s 0 * r.dt else 0)) x t rs →
        Steps (fun x t r => r.counts.length = (c.ev x t).rates.length ∧ (true = true → r.branch = .exact) ∧
          (r.branch ≠ .tau → ∃ k, k < (c.ev x t).rates.length ∧ r.counts = onehot (c.ev x t).rates.length k ∧ r.counts.sum = 1 ∧
            ∃ rk, (c.ev x t).rates[k]? = some rk ∧ 0 < rk)) x t rs →
        Steps (fun x t r => r.x.length = x.length ∧ ∀ s, s < x.length →
          r.x.getD s 0 = x.getD s 0 + mulVec V r.counts s) x t rs := by
      intro rs
      induction rs with
      | nil => intro _ _ _ _; trivial
      | cons r rs ih =>
        intro x t h1 h2
        refine ⟨⟨h1.1.1, ?_⟩, ih r.x r.t h1.2 h2.2⟩
        intro s' hs'
        have hb : r.branch = .exact := h2.1.2.1 rfl
        have := h1.1.2 s' hs'
        rw [hV, hb] at this
        simp only [reduceCtorEq, if_false, add_zero] at this
        linarith
    exact this recs x0 t0 hinc hcnt
  exact steps_fix_component (Q := fun x _ r s => r.x.getD s 0 = x.getD s 0 + mulVec V r.counts s) s recs x0 t0 hboth hs

/-- **exact_run_rows_telescope.**  The same summed over intervals for the paths the simulation produces in exact mode:
row `m` − row `0` = `V ·` (the reported counts of intervals `0 .. m-1` added up), for every event-defined model with a
state-independent `V`, any positive draws, any non-decreasing grid at or after `t0` with no event on a grid point
other than the last. -/
theorem exact_run_rows_telescope (c : Cfg) (V : List Vec) (is : List IterIn) (x0 : Vec) (t0 : Rat) (grid : List Rat)
    (s : Nat) (hV : ∀ x t, (c.ev x t).cols = V) (hc : C04.GoodCfg c) (hd : C04.PosDraws is) (hs : s < x0.length)
    (h0 : ∀ k (hk : k < grid.length), t0 ≤ grid[k])
    (hle : ∀ k (hk : k + 1 < grid.length), grid[k] ≤ grid[k+1])
    (hno : ∀ r ∈ run c true x0 t0 is, ∀ k (hk : k + 1 < grid.length), r.t ≠ grid[k])
    (m : Nat) (hm : m < grid.length) :
    let recs := run c true x0 t0 is
    ((extractObservationAtTime (pathStates x0 recs) (pathTimes t0 recs) grid).getD m []).getD s 0
      - ((extractObservationAtTime (pathStates x0 recs) (pathTimes t0 recs) grid).getD 0 []).getD s 0
    = ((List.range m).map (fun k => ((List.range V.length).map (fun i => (V.getD i []).getD s 0 *
        ((((addJumpsBetweenTime V.length (pathCounts recs) (pathTimes t0 recs) grid).getD k []).getD i 0 : Int) : Rat))).sum)).sum := by
  intro recs
  induction m with
  | zero => simp
  | succ m ih =>
    have hstep := exact_run_rows_differ c V is x0 t0 grid m s hV hc hd hs hm (h0 m (by omega)) (hle m hm)
      (fun r hr => ⟨hno r hr m hm, fun h2 => hno r hr (m+1) h2⟩)
    have ih' := ih (by omega)
    rw [List.range_succ, List.map_append, List.sum_append, ← ih', List.map_singleton, List.sum_singleton, ← hstep]
    ring

/-- **exact_counts_counterexample** (the exact-mode branch before the repair).  Path `S → I → R` from `(2,0,0)`:
infection at `t = 1`, recovery at `t = 2`; grid `[0, 3]`.  The per-transition counts of the interval are
`(1, 1)`; the code reported the total number of recorded times in the bin, initial time included, for
every transition: `(3, 3)` — and `V · (3,3) ≠ row_1 − row_0`. -/
theorem exact_counts_counterexample :
    addJumpsBetweenTimeLegacy 2 [0, 1, 2] [0, 3] = [[3, 3]] ∧
    addJumpsBetweenTime 2 [[1, 0], [0, 1]] [0, 1, 2] [0, 3] = [[1, 1]] ∧
    extractObservationAtTime [[2, 0, 0], [1, 1, 0], [1, 0, 1]] [0, 1, 2] [0, 3] = [[2, 0, 0], [1, 0, 1]] := by
  decide +kernel

/-- the hypothesis of `rows_differ_by_vmat_counts` cannot be dropped: one event exactly on the interior grid
point `1` of `[0, 1, 2]` is in the row of time 1 (look-up `≤`) but counted in the second interval (`[1, 2]`) -/
theorem grid_point_coincidence_counterexample :
    extractObservationAtTime [[1, 0], [0, 1]] [0, 1] [0, 1, 2] = [[1, 0], [0, 1], [0, 1]] ∧
    addJumpsBetweenTime 1 [[1]] [0, 1] [0, 1, 2] = [[0], [1]] := by
  decide +kernel

/-- **time argument of `solve_stochast`.**  A number or a one-element list/tuple is a horizon (raw path returned);
a list/tuple of two or more times and every array is a grid whose last entry is the horizon. -/
theorem time_arg_forms (T a b : Rat) (l : List Rat) :
    normaliseTime (.number T) = some (T, none) ∧
    normaliseTime (.list [a]) = some (a, none) ∧ normaliseTime (.tuple [a]) = some (a, none) ∧
    normaliseTime (.list (a :: b :: l)) = some ((a :: b :: l).getLast (by simp), some (a :: b :: l)) ∧
    normaliseTime (.tuple (a :: b :: l)) = some ((a :: b :: l).getLast (by simp), some (a :: b :: l)) ∧
    normaliseTime (.array (a :: l)) = some ((a :: l).getLast (by simp), some (a :: l)) ∧
    normaliseTime .other = none := by
  simp [normaliseTime, List.getLast?_eq_getLast]

/-! ### non-vacuity: the hypotheses of `rows_differ_by_vmat_counts` hold on a concrete exact-mode path -/

example :
    let V : List Vec := [[-1, 1, 0], [0, -1, 1]]
    let recs : List Rec := [⟨[1, 1, 0], 1/2, [1, 0], 1/2, .exact⟩, ⟨[1, 0, 1], 3/2, [0, 1], 1, .exact⟩,
                            ⟨[0, 1, 1], 7/4, [1, 0], 1/4, .exact⟩]
    (∀ s, Steps (fun x _ r => r.x.getD s 0 = x.getD s 0 + mulVec V r.counts s) [2, 0, 0] 0 recs) ∧
    extractObservationAtTime (pathStates [2, 0, 0] recs) (pathTimes 0 recs) [0, 1, 2, 3]
      = [[2, 0, 0], [1, 1, 0], [0, 1, 1], [0, 1, 1]] ∧
    addJumpsBetweenTime 2 (pathCounts recs) (pathTimes 0 recs) [0, 1, 2, 3] = [[1, 0], [1, 1], [0, 0]] := by
  refine ⟨?_, by decide +kernel, by decide +kernel⟩
  intro s
  have h : ∀ (a b : Rat), a = b ↔ a - b = 0 := fun a b => by constructor <;> intro h <;> linarith
  refine ⟨?_, ?_, ?_, trivial⟩ <;>
  · rcases s with _ | _ | _ | s <;> simp [mulVec] <;> norm_num

end Pygom.C15
