/-
C01 — a model definition is assembled into exactly the equations it describes.

Property theorems only (helper lemmas live in Pygom/Lemmas).  `K` is an arbitrary field, `I` an
arbitrary interpretation of exp/log/sin/cos/pi and `ρ` an arbitrary environment: "identically in
states, parameters and time".  No bound on the number of states, events or transitions.
-/
import Pygom.Lemmas.Subst

set_option linter.unusedSimpArgs false
set_option linter.unnecessarySeqFocus false

namespace Pygom.C01
open Pygom Expr

variable {K : Type} [Field K]

/-- every resolved index is a position of the state list -/
def WF (n : Nat) (evs : List REvent) : Prop := ∀ ev ∈ evs, ∀ tr ∈ ev.transitions, tr.wf n

/-- **ODE entry.**  Component `k` of the assembled right-hand side is
`Σ_events rate · (net signed magnitude on k) + explicit ODE terms for k`. -/
theorem ode_entry (I : FnInterp K) (ρ : String → K) (n : Nat) (evs : List REvent)
    (odes : List (Nat × Expr)) (k : Nat) (h : WF n evs) (ho : ∀ o ∈ odes, o.1 < n) :
    comp I ρ (odeEqnR n evs odes) k
      = (evs.map (fun ev => Expr.eval I ρ ev.rate * net I ρ ev k)).sum + odeTerms I ρ odes k := by
  unfold odeEqnR
  have h1 := comp_foldl_eventStep I ρ evs (zeros n) k (by simpa [WF] using h)
  have h2 := comp_foldl_odeStep I ρ odes (evs.foldl eventStep (zeros n)) k (by rw [h1.2]; simpa using ho)
  rw [h2.1, h1.1, comp_zeros]; ring

/-- **State-change matrix entry.**  `V[k][j]` is the net signed magnitude of event `j` on state `k`. -/
theorem vmat_entry (I : FnInterp K) (ρ : String → K) (n : Nat) (ev : REvent) (k : Nat)
    (h : ∀ tr ∈ ev.transitions, tr.wf n) :
    comp I ρ (vcol n ev) k = net I ρ ev k := by
  unfold vcol net
  have := comp_foldl_vcolStep I ρ ev.transitions (zeros n) k (by simpa using h)
  rw [this.1, comp_zeros]; ring

/-- **Rate vector entry.**  The j-th reported rate is the j-th event's rate. -/
theorem rate_entry (evs : List REvent) (j : Nat) : (rateVecR evs)[j]? = (evs[j]?).map (·.rate) := by
  simp [rateVecR]

/-- **Pure ODE vector.** -/
theorem pure_entry (I : FnInterp K) (ρ : String → K) (n : Nat) (odes : List (Nat × Expr)) (k : Nat)
    (ho : ∀ o ∈ odes, o.1 < n) :
    comp I ρ (pureOdeR n odes) k = odeTerms I ρ odes k := by
  unfold pureOdeR
  have := comp_foldl_odeStep I ρ odes (zeros n) k (by simpa using ho)
  rw [this.1, comp_zeros]; ring

/-- **ODE = state-change matrix × rate vector + explicit terms**, identically. -/
theorem ode_eq_vmat_mul_rates (I : FnInterp K) (ρ : String → K) (n : Nat) (evs : List REvent)
    (odes : List (Nat × Expr)) (k : Nat) (h : WF n evs) (ho : ∀ o ∈ odes, o.1 < n) :
    comp I ρ (odeEqnR n evs odes) k
      = (((vmatColsR n evs).zip (rateVecR evs)).map (fun ca => comp I ρ ca.1 k * Expr.eval I ρ ca.2)).sum
        + comp I ρ (pureOdeR n odes) k := by
  rw [ode_entry I ρ n evs odes k h ho, pure_entry I ρ n odes k ho]
  congr 1
  unfold vmatColsR rateVecR
  induction evs with
  | nil => simp
  | cons ev evs ih =>
    have hev : ∀ tr ∈ ev.transitions, tr.wf n := h ev (by simp)
    have hrest : WF n evs := fun e he => h e (by simp [he])
    simp only [List.map_cons, List.zip_cons_cons, List.sum_cons]
    rw [ih hrest, vmat_entry I ρ n ev k hev]; ring

/-- **Reactant matrix.**  Entry `(k, j)` is 1 exactly when some transition of event `j` has `k` as its
origin or destination (according to its type), else 0. -/
def involves (tr : RTrans) (k : Nat) : Prop :=
  match tr.ttype with
  | .B => tr.dest = k
  | .D => tr.origin = k
  | .T => tr.origin = k ∨ tr.dest = k
  | .ODE => False

theorem reactant_entry (n : Nat) (trs : List RTrans) (k : Nat) (hk : k < n) (h : ∀ tr ∈ trs, tr.wf n) :
    ((trs.foldl reactColStep (List.replicate n 0))[k]? = some 1) ↔ ∃ tr ∈ trs, involves tr k := by
  suffices H : ∀ acc : List Nat, acc.length = n →
      ((trs.foldl reactColStep acc)[k]? = some 1 ↔ (acc[k]? = some 1 ∨ ∃ tr ∈ trs, involves tr k)) by
    rw [H _ (by simp)]; simp [hk]
  induction trs with
  | nil => intro acc _; simp
  | cons tr trs ih =>
    intro acc hlen
    have hwf := h tr (by simp)
    have hlen' : (reactColStep acc tr).length = n := by
      unfold reactColStep setAt; cases tr.ttype <;> simp [hlen]
    rw [List.foldl_cons, ih (fun t ht => h t (by simp [ht])) _ hlen']
    have key : ((reactColStep acc tr)[k]? = some 1) ↔ (acc[k]? = some 1 ∨ involves tr k) := by
      unfold reactColStep setAt involves
      have hk' : k < acc.length := by omega
      cases hτ : tr.ttype <;> simp only []
      · by_cases e : tr.dest = k
        · subst e; simp [hk']
        · simp [List.getElem?_set, e]
      · by_cases e : tr.origin = k
        · subst e; simp [hk']
        · simp [List.getElem?_set, e]
      · by_cases e : tr.dest = k
        · subst e; simp [hk']
        · by_cases e' : tr.origin = k
          · subst e'; simp [List.getElem?_set, e, hk']
          · simp [List.getElem?_set, e, e']
      · simp
    rw [key]
    constructor
    · rintro ((h1 | h1) | ⟨t, ht, h2⟩)
      · exact Or.inl h1
      · exact Or.inr ⟨tr, by simp, h1⟩
      · exact Or.inr ⟨t, by simp [ht], h2⟩
    · rintro (h1 | ⟨t, ht, h2⟩)
      · exact Or.inl (Or.inl h1)
      · rcases List.mem_cons.mp ht with rfl | ht'
        · exact Or.inl (Or.inr h2)
        · exact Or.inr ⟨t, ht', h2⟩

/-- **Derived parameters.**  Evaluating an equation after `checkEquation`'s sequential substitution
equals evaluating the original equation in the environment extended by the derived values. -/
theorem derived_subst (I : FnInterp K) (ρ : String → K) (m : ModelDef) (e : Expr) :
    Expr.eval I ρ (m.fix e) = Expr.eval I (extEnv I m.derived ρ) e :=
  eval_substAll I ρ m.derived e

/-- **Name resolution.**  A state name resolves exactly when it is declared, to a position holding it. -/
theorem stateIndex_ok (m : ModelDef) (s : String) (i : Nat) :
    stateIndex m (some s) = .ok i ↔ (i < m.states.length ∧ m.states.idxOf s = i) := by
  unfold stateIndex
  by_cases h : m.states.idxOf s < m.states.length
  · simp only [h, if_true]
    constructor
    · intro e; injection e with e; subst e; exact ⟨h, rfl⟩
    · rintro ⟨_, rfl⟩; rfl
  · simp only [h, if_false]
    constructor
    · intro e; cases e
    · rintro ⟨hi, hidx⟩; subst hidx; exact absurd hi h

theorem stateIndex_error_iff (m : ModelDef) (s : String) :
    stateIndex m (some s) = .error .notAState ↔ s ∉ m.states := by
  unfold stateIndex
  by_cases h : m.states.idxOf s < m.states.length
  · simp [h, List.idxOf_lt_length_iff.mp h]
  · simp [h]; intro hmem; exact h (List.idxOf_lt_length_iff.mpr hmem)

/-- resolved transitions are well-formed: every index is a position of the state list -/
theorem resolveTrans_wf (m : ModelDef) (t : Transn) (r : RTrans) (hn : 0 < m.states.length)
    (h : resolveTrans m t = .ok r) : r.wf m.states.length := by
  unfold resolveTrans at h
  have key : ∀ (o : Option String) (i : Nat), stateIndex m o = .ok i → i < m.states.length := by
    intro o i hi
    cases o with
    | none => simp [stateIndex] at hi
    | some s => exact ((stateIndex_ok m s i).mp hi).1
  cases hτ : t.ttype <;> simp only [hτ, bind, Except.bind, pure, Except.pure] at h
  · cases hd : stateIndex m t.dest with
    | error e => simp [hd] at h
    | ok d => simp [hd] at h; subst h; exact ⟨hn, key _ _ hd⟩
  · cases ho : stateIndex m t.origin with
    | error e => simp [ho] at h
    | ok o => simp [ho] at h; subst h; exact ⟨key _ _ ho, hn⟩
  · cases ho : stateIndex m t.origin with
    | error e => simp [ho] at h
    | ok o =>
      cases hd : stateIndex m t.dest with
      | error e => simp [ho, hd] at h
      | ok d => simp [ho, hd] at h; subst h; exact ⟨key _ _ ho, key _ _ hd⟩
  · simp at h; subst h; exact ⟨hn, hn⟩

/-- `mapM` over `Except` succeeds exactly with element-wise successes -/
theorem mapM_ok {α β ε : Type} (f : α → Except ε β) (l : List α) (r : List β) (h : l.mapM f = .ok r) :
    List.Forall₂ (fun a b => f a = .ok b) l r := by
  induction l generalizing r with
  | nil => simp [pure, Except.pure] at h; subst h; exact List.Forall₂.nil
  | cons a l ih =>
    rw [List.mapM_cons] at h
    cases ha : f a with
    | error e => simp [ha, bind, Except.bind] at h
    | ok b =>
      cases hl : l.mapM f with
      | error e => simp [ha, hl, bind, Except.bind] at h
      | ok bs =>
        simp [ha, hl, bind, Except.bind, pure, Except.pure] at h
        subst h
        exact List.Forall₂.cons ha (ih bs hl)

theorem forall2_mem_right {α β : Type} {R : α → β → Prop} {l : List α} {r : List β}
    (h : List.Forall₂ R l r) {b : β} (hb : b ∈ r) : ∃ a ∈ l, R a b := by
  induction h with
  | nil => simp at hb
  | cons hab _ ih =>
    rcases List.mem_cons.mp hb with rfl | hb'
    · exact ⟨_, by simp, hab⟩
    · obtain ⟨a, ha1, ha2⟩ := ih hb'; exact ⟨a, by simp [ha1], ha2⟩

/-- every successfully resolved event list is well-formed (indices are positions of the state list) -/
theorem resolveEvents_wf (m : ModelDef) (evs : List REvent) (hn : 0 < m.states.length)
    (h : resolveEvents m = .ok evs) : WF m.states.length evs := by
  have hall := mapM_ok (resolveEvent m) m.events evs h
  intro ev hev tr htr
  obtain ⟨e, _, he⟩ : ∃ e, e ∈ m.events ∧ resolveEvent m e = .ok ev := forall2_mem_right hall hev
  unfold resolveEvent at he
  cases hr : e.rate with
  | none => simp [hr] at he
  | some r =>
    simp only [hr] at he
    cases hm : e.transitions.mapM (resolveTrans m) with
    | error x => simp [hm, bind, Except.bind] at he
    | ok trs =>
      simp [hm, bind, Except.bind, pure, Except.pure] at he
      subst he
      have hall2 := mapM_ok (resolveTrans m) e.transitions trs hm
      simp only at htr
      obtain ⟨t, _, ht⟩ := forall2_mem_right hall2 htr
      exact resolveTrans_wf m _ _ hn ht

/-- every successfully resolved explicit term sits at a position of the state list -/
theorem resolveOdes_lt (m : ModelDef) (odes : List (Nat × Expr)) (h : resolveOdes m = .ok odes) :
    ∀ o ∈ odes, o.1 < m.states.length := by
  have hall := mapM_ok _ m.odes odes h
  intro o ho
  obtain ⟨t, _, hab⟩ := forall2_mem_right hall ho
  cases hs : stateIndex m t.origin with
  | error e => simp [hs, bind, Except.bind] at hab
  | ok i =>
    have hi : i < m.states.length := by
      cases horig : t.origin with
      | none => simp [stateIndex, horig] at hs
      | some s => rw [horig] at hs; exact ((stateIndex_ok m s i).mp hs).1
    cases heq : t.equation with
    | none => simp [hs, heq, bind, Except.bind] at hab
    | some e =>
      simp [hs, heq, bind, Except.bind, pure, Except.pure] at hab
      subst hab; exact hi

/-- **Top-level statement about `assemble`** (what the driver runs and the harness compares with pygom):
whenever a definition assembles, there are resolved events and explicit terms — the definition's own,
with names replaced by positions — such that every component of the reported ODE is
`Σ rate·net + explicit terms`, the reported rates are the events' rates, the reported state-change
columns are the events' net magnitudes, and ODE = V·a + pure. -/
theorem assemble_spec (I : FnInterp K) (ρ : String → K) (m : ModelDef) (a : Assembled)
    (hn : 0 < m.states.length) (h : assemble m = .ok a) :
    ∃ evs odes, resolveEvents m = .ok evs ∧ resolveOdes m = .ok odes ∧
      a.rates = evs.map (·.rate) ∧
      (∀ k, comp I ρ a.ode k
          = (evs.map (fun ev => Expr.eval I ρ ev.rate * net I ρ ev k)).sum + odeTerms I ρ odes k) ∧
      (∀ k, comp I ρ a.ode k
          = ((a.vmatCols.zip a.rates).map (fun ca => comp I ρ ca.1 k * Expr.eval I ρ ca.2)).sum
            + comp I ρ a.pureOde k) := by
  unfold assemble at h
  cases he : resolveEvents m with
  | error e => simp [he, bind, Except.bind] at h
  | ok evs =>
    cases ho : resolveOdes m with
    | error e => simp [he, ho, bind, Except.bind] at h
    | ok odes =>
      simp [he, ho, bind, Except.bind, pure, Except.pure] at h
      subst h
      have hwf := resolveEvents_wf m evs hn he
      have hlt := resolveOdes_lt m odes ho
      exact ⟨evs, odes, rfl, rfl, rfl, fun k => ode_entry I ρ _ evs odes k hwf hlt,
             fun k => ode_eq_vmat_mul_rates I ρ _ evs odes k hwf hlt⟩

/-- non-vacuity: a concrete two-event SIR model satisfies the hypotheses and assembles -/
example : WF 3 [⟨.mul (.mul (.var "beta") (.var "S")) (.var "I"), [⟨.T, 0, 1, .num 1⟩]⟩,
                ⟨.mul (.var "gamma") (.var "I"), [⟨.T, 1, 2, .num 1⟩]⟩] := by
  intro ev hev tr htr
  simp at hev
  rcases hev with rfl | rfl <;> simp at htr <;> subst htr <;> simp [RTrans.wf]

end Pygom.C01
