/-
C11 (gridded output) — the limits hold for the rows `solve_stochast` returns when output times are requested.

`C11.path_within_limits_all` is about the raw path; the rows of the gridded output are looked up from it by
`_extractObservationAtTime`.  `C15.row_is_path_state` says each such row IS a record of the raw path, so the limits carry
over to every row of every grid, in exact and in tau-leap mode, whatever the spacing of the grid (finer or coarser than
the path, points past the last event).
-/
import Pygom.Props.C11
import Pygom.Props.C15

set_option linter.unusedVariables false

namespace Pygom.C11
open Pygom Pygom.Stoch

/-- every looked-up row is one of the rows of the raw state array (increasing path times, grid point at or after `t0`) -/
theorem gridded_row_mem_path (x0 : Vec) (t0 : Rat) (recs : List Rec) (grid : List Rat) (k : Nat)
    (hs : (pathTimes t0 recs).Pairwise (· < ·)) (hk : k < grid.length) (h0 : t0 ≤ grid[k]) :
    (extractObservationAtTime (pathStates x0 recs) (pathTimes t0 recs) grid).getD k [] ∈ pathStates x0 recs := by
  obtain ⟨j, hj, hrow, _, _⟩ := C15.row_is_path_state x0 t0 recs grid k hs hk h0
  rw [hrow]
  have hj' : j < (pathStates x0 recs).length := by simpa [pathStates, pathTimes] using hj
  rw [List.getD_eq_getElem?_getD, List.getElem?_eq_getElem hj']
  exact List.getElem_mem hj'

/-- **gridded_rows_within_limits.**  For every configuration (exact or tau-leap, adaptive or fixed tau, any `ε`, any
magnitudes), every list of positive draws, every start inside the limits and EVERY grid point at or after the initial
time, the row returned for that time is within the limits. -/
theorem gridded_rows_within_limits (c : Cfg) (exact : Bool) (is : List IterIn) (x0 : Vec) (t0 : Rat) (grid : List Rat)
    (hc : C04.GoodCfg c) (hd : C04.PosDraws is) (hx0 : Within c.set.lims x0)
    (k : Nat) (hk : k < grid.length) (h0 : t0 ≤ grid[k]) :
    Within c.set.lims
      ((extractObservationAtTime (pathStates x0 (run c exact x0 t0 is)) (pathTimes t0 (run c exact x0 t0 is)) grid).getD k []) :=
  path_within_limits_all c exact is x0 t0 hx0 _
    (gridded_row_mem_path x0 t0 _ grid k (C04.path_times_increasing c exact is x0 t0 hc hd) hk h0)

end Pygom.C11
