/-
C13Link - the hypotheses of C13's derivative theorems discharged from C03.

C13 (`aug_jacobian_is_derivative`, `aug_jacobianIV_is_derivative`, `aug_jacobian_by_state_repaired_is_derivative`)
takes as HYPOTHESES that `f, J, G` read only the state block, that `J`, `DJ`, `GJ` are the state derivatives of
`f`, `J`, `G`, and that the mixed second partials in `DJ` commute.  Here these are PROVED for the objects pygom
actually builds: `f, J, G, DJ, GJ` are the values of `ode`, `jacobianEqn`, `gradEqn`, `diffJacobianEqn`,
`gradJacobianEqn` (Pygom/Model.lean) at the environment that binds the declared state names to the state
block of the augmented vector.

* `diff_comm`      : Schwarz for the symbolic differentiator `Expr.diff` (full statement; it needs no
                     definedness hypothesis at all and holds over every field and interpretation: `eval_diff_comm`)
* `envOf`, `envOf_update`, `envOf_update_ge` : the bridge vector <-> named environment
* `aug_jacobian_is_derivative_expr`, `aug_jacobianIV_is_derivative_expr`,
  `aug_jacobian_by_state_repaired_is_derivative_expr` : C13's conclusions with no derivative / symmetry
                     hypothesis left; the only analytic hypothesis is `defined` (away from singularities of the rates)
-/
import Pygom.Props.C03
import Pygom.Props.C13

set_option linter.unusedSimpArgs false
set_option linter.unusedVariables false

namespace Pygom
namespace C13Link
open Expr Function

/-! ## 1. mixed symbolic second derivatives commute -/
section field
variable {K : Type} [Field K]

theorem eq_zero_of_isZero {e : Expr} (h : e.isZero = true) : e = Expr.zero := by
  cases e <;> simp [Expr.isZero] at h
  subst h; rfl

theorem eq_one_of_isOne {e : Expr} (h : e.isOne = true) : e = Expr.one := by
  cases e <;> simp [Expr.isOne] at h
  subst h; rfl

theorem diff_zero (v : String) : diff v Expr.zero = Expr.zero := rfl
theorem diff_one (v : String) : diff v Expr.one = Expr.zero := rfl

/-- the derivative of a smart sum evaluates to the sum of the derivatives -/
theorem eval_diff_sadd (I : FnInterp K) (ρ : String → K) (v : String) (a b : Expr) :
    Expr.eval I ρ (diff v (sadd a b)) = Expr.eval I ρ (diff v a) + Expr.eval I ρ (diff v b) := by
  unfold sadd
  split
  · rename_i h; rw [eq_zero_of_isZero h, diff_zero]; simp
  · split
    · rename_i h; rw [eq_zero_of_isZero h, diff_zero]; simp
    · simp only [diff, eval_sadd]

theorem eval_diff_ssub (I : FnInterp K) (ρ : String → K) (v : String) (a b : Expr) :
    Expr.eval I ρ (diff v (ssub a b)) = Expr.eval I ρ (diff v a) - Expr.eval I ρ (diff v b) := by
  unfold ssub
  split
  · rename_i h; rw [eq_zero_of_isZero h, diff_zero]; simp
  · split
    · rename_i h; rw [eq_zero_of_isZero h, diff_zero]; simp [diff]
    · simp only [diff, eval_ssub]

theorem eval_diff_smul (I : FnInterp K) (ρ : String → K) (v : String) (a b : Expr) :
    Expr.eval I ρ (diff v (smul a b))
      = Expr.eval I ρ (diff v a) * Expr.eval I ρ b + Expr.eval I ρ a * Expr.eval I ρ (diff v b) := by
  unfold smul
  split
  · rename_i h; rw [eq_zero_of_isZero h, diff_zero]; simp
  · split
    · rename_i h; rw [eq_zero_of_isZero h, diff_zero]; simp
    · split
      · rename_i h; rw [eq_one_of_isOne h, diff_one]; simp
      · split
        · rename_i h; rw [eq_one_of_isOne h, diff_one]; simp
        · simp only [diff, eval_sadd, eval_smul]

theorem eval_diff_sneg (I : FnInterp K) (ρ : String → K) (v : String) (a : Expr) :
    Expr.eval I ρ (diff v (sneg a)) = - Expr.eval I ρ (diff v a) := by
  unfold sneg
  split
  · rename_i h; rw [eq_zero_of_isZero h, diff_zero]; simp
  · simp only [diff, eval_sneg]

theorem eval_diff_sdiv (I : FnInterp K) (ρ : String → K) (v : String) (a b : Expr) :
    Expr.eval I ρ (diff v (sdiv a b))
      = (Expr.eval I ρ (diff v a) * Expr.eval I ρ b - Expr.eval I ρ a * Expr.eval I ρ (diff v b))
          / (Expr.eval I ρ b * Expr.eval I ρ b) := by
  unfold sdiv
  split
  · rename_i h; rw [eq_zero_of_isZero h, diff_zero]; simp
  · simp only [diff, eval_sdiv, eval_ssub, eval_smul, Expr.eval]

/-- **Schwarz for `Expr.diff`, every field, every interpretation of the transcendental symbols, every
environment** - singular points included (both sides are the same rational expression in the values of the
sub-terms and their first and mixed second derivatives). -/
theorem eval_diff_comm (I : FnInterp K) (ρ : String → K) (a b : String) (e : Expr) :
    Expr.eval I ρ (diff a (diff b e)) = Expr.eval I ρ (diff b (diff a e)) := by
  induction e with
  | num q => rfl
  | pi => rfl
  | var w =>
    simp only [diff]
    split <;> split <;> rfl
  | add p q ihp ihq => simp only [diff, eval_diff_sadd, ihp, ihq]
  | sub p q ihp ihq => simp only [diff, eval_diff_ssub, ihp, ihq]
  | mul p q ihp ihq =>
    simp only [diff, eval_diff_sadd, eval_diff_smul, ihp, ihq]
    ring
  | div p q ihp ihq =>
    simp only [diff, eval_diff_sdiv, eval_diff_ssub, eval_diff_smul, eval_diff_sadd, eval_sadd, eval_ssub, eval_smul,
      Expr.eval, ihp, ihq]
    congr 1
    ring
  | neg p ih => simp only [diff, eval_diff_sneg, ih]
  | pow p n ih =>
    simp only [diff, eval_diff_smul, eval_smul, eval_zero, Expr.eval, ih]
    ring
  | exp p ih =>
    simp only [diff, eval_diff_smul, eval_smul, Expr.eval, ih]
    ring
  | log p ih =>
    simp only [diff, eval_diff_sdiv, ih]
    congr 1
    ring
  | sin p ih =>
    simp only [diff, eval_diff_smul, eval_diff_sneg, eval_smul, eval_sneg, Expr.eval, ih]
    ring
  | cos p ih =>
    simp only [diff, eval_diff_smul, eval_diff_sneg, eval_smul, eval_sneg, Expr.eval, ih]
    ring

end field

/-- **Schwarz for the symbolic differentiator** (the statement C13's `hsym` needs).  The hypothesis `h` is not
used: see `eval_diff_comm`. -/
theorem diff_comm (a b : String) (ρ : String → ℝ) (e : Expr) (h : defined ρ e) :
    evalR ρ (diff a (diff b e)) = evalR ρ (diff b (diff a e)) :=
  eval_diff_comm realI ρ a b e

/-- the mixed second derivative is a genuine second derivative in either order: `∂/∂a (∂e/∂b)` (C03) has the
value `diff b (diff a e)` too -/
theorem hasDerivAt_diff_swapped (a b : String) (ρ : String → ℝ) (e : Expr) (h : defined ρ e) :
    HasDerivAt (fun x => evalR (update ρ a x) (diff b e)) (evalR ρ (diff b (diff a e))) (ρ a) := by
  rw [← diff_comm a b ρ e h]
  exact hasDerivAt_diff a ρ _ (defined_diff b ρ e h)

/-! ## 2. vectors and named environments -/

/-- the environment that binds the state name `states[j]` to `x j` (`j < states.length`) and leaves every other
symbol (parameters, time) as in `ρ₀` -/
def envOf (states : List String) (ρ₀ : String → ℝ) (x : ℕ → ℝ) : String → ℝ :=
  fun s => if states.idxOf s < states.length then x (states.idxOf s) else ρ₀ s

theorem envOf_state (states : List String) (hnd : states.Nodup) (ρ₀ : String → ℝ) (x : ℕ → ℝ) (j : ℕ)
    (hj : j < states.length) : envOf states ρ₀ x states[j] = x j := by
  simp [envOf, hnd.idxOf_getElem j hj, hj]

theorem envOf_other (states : List String) (ρ₀ : String → ℝ) (x : ℕ → ℝ) (s : String) (hs : s ∉ states) :
    envOf states ρ₀ x s = ρ₀ s := by
  have : ¬ states.idxOf s < states.length := by
    intro h; exact hs (List.idxOf_lt_length_iff.mp h)
  simp [envOf, this]

/-- updating component `j` of the vector is updating the symbol `states[j]` of the environment -/
theorem envOf_update (states : List String) (hnd : states.Nodup) (ρ₀ : String → ℝ) (x : ℕ → ℝ) (j : ℕ)
    (hj : j < states.length) (v : ℝ) :
    envOf states ρ₀ (update x j v) = update (envOf states ρ₀ x) states[j] v := by
  funext s
  by_cases hs : s = states[j]
  · subst hs
    rw [update_self, envOf_state states hnd _ _ j hj, update_self]
  · rw [update_of_ne hs]
    unfold envOf
    split
    · rename_i hlt
      have : states.idxOf s ≠ j := by
        intro h
        apply hs
        have := List.getElem_idxOf hlt
        simp only [h] at this
        exact this.symm
      rw [update_of_ne this]
    · rfl

/-- components beyond the state block (the sensitivities) are not read -/
theorem envOf_update_ge (states : List String) (ρ₀ : String → ℝ) (x : ℕ → ℝ) (c : ℕ)
    (hc : states.length ≤ c) (v : ℝ) :
    envOf states ρ₀ (update x c v) = envOf states ρ₀ x := by
  funext s
  unfold envOf
  split
  · rename_i hlt
    rw [update_of_ne (by omega)]
  · rfl

/-! ## 3. the objects pygom builds satisfy C13's hypotheses -/
section inst
variable (states params : List String) (ode : List Expr) (ρ₀ : String → ℝ)

/-- `ode(x)`: component `i` is the value of `ode[i]` (0 outside) -/
noncomputable def fE (x : ℕ → ℝ) (i : ℕ) : ℝ := evalR (envOf states ρ₀ x) (ode.getD i Expr.zero)
/-- `jacobian(x)` : the value of `get_jacobian_eqn` -/
noncomputable def JE (x : ℕ → ℝ) (i l : ℕ) : ℝ := evalR (envOf states ρ₀ x) (mat2 (jacobianEqn states ode) i l)
/-- `grad(x)` : the value of `get_grad_eqn` -/
noncomputable def GE (x : ℕ → ℝ) (i k : ℕ) : ℝ := evalR (envOf states ρ₀ x) (mat2 (gradEqn params ode) i k)
/-- `diff_jacobian(x)` : the value of `get_diff_jacobian_eqn` (row `e*nS+i`) -/
noncomputable def DJE (x : ℕ → ℝ) (r c : ℕ) : ℝ := evalR (envOf states ρ₀ x) (mat2 (diffJacobianEqn states ode) r c)
/-- `grad_jacobian(x)` : the value of `get_grad_jacobian_eqn` (row `k*nS+i`) -/
noncomputable def GJE (x : ℕ → ℝ) (r c : ℕ) : ℝ :=
  evalR (envOf states ρ₀ x) (mat2 (gradJacobianEqn states params ode) r c)

theorem fE_local (x : ℕ → ℝ) (c : ℕ) (v : ℝ) (hc : states.length ≤ c) :
    fE states ode ρ₀ (update x c v) = fE states ode ρ₀ x := by
  funext i; simp only [fE, envOf_update_ge states ρ₀ x c hc v]

theorem JE_local (x : ℕ → ℝ) (c : ℕ) (v : ℝ) (hc : states.length ≤ c) :
    JE states ode ρ₀ (update x c v) = JE states ode ρ₀ x := by
  funext i l; simp only [JE, envOf_update_ge states ρ₀ x c hc v]

theorem GE_local (x : ℕ → ℝ) (c : ℕ) (v : ℝ) (hc : states.length ≤ c) :
    GE states params ode ρ₀ (update x c v) = GE states params ode ρ₀ x := by
  funext i k; simp only [GE, envOf_update_ge states ρ₀ x c hc v]

/-- C13's `hf` from C03 `jacobian_is_derivative` -/
theorem fE_hasDerivAt (hnd : states.Nodup) (x : ℕ → ℝ) (i j : ℕ) (hi : i < ode.length) (hj : j < states.length)
    (hdef : defined (envOf states ρ₀ x) ode[i]) :
    HasDerivAt (fun v => fE states ode ρ₀ (update x j v) i) (JE states ode ρ₀ x i j) (x j) := by
  have h := C03.jacobian_is_derivative (envOf states ρ₀ x) states ode i j hi hj hdef
  rw [envOf_state states hnd ρ₀ x j hj] at h
  have e : ode.getD i Expr.zero = ode[i] := (List.getElem_eq_getD Expr.zero).symm
  simpa only [fE, JE, envOf_update states hnd ρ₀ x j hj, e] using h

/-- C13's `hJ` from C03 `diff_jacobian_is_second_derivative` -/
theorem JE_hasDerivAt (hnd : states.Nodup) (x : ℕ → ℝ) (i l j : ℕ) (hi : i < ode.length) (hl : l < states.length)
    (hj : j < states.length) (hdef : defined (envOf states ρ₀ x) ode[i]) :
    HasDerivAt (fun v => JE states ode ρ₀ (update x j v) i l) (DJE states ode ρ₀ x (i * states.length + l) j) (x j) := by
  have h := C03.diff_jacobian_is_second_derivative (envOf states ρ₀ x) states ode i l j hi hl hj hdef
  rw [envOf_state states hnd ρ₀ x j hj] at h
  simpa only [JE, DJE, envOf_update states hnd ρ₀ x j hj] using h

/-- C13's `hG` from C03 `grad_jacobian_is_mixed_derivative` (`ode.length = nS`: one equation per state) -/
theorem GE_hasDerivAt (hnd : states.Nodup) (hlen : ode.length = states.length) (x : ℕ → ℝ) (i k j : ℕ)
    (hi : i < ode.length) (hk : k < params.length) (hj : j < states.length)
    (hdef : defined (envOf states ρ₀ x) ode[i]) :
    HasDerivAt (fun v => GE states params ode ρ₀ (update x j v) i k)
      (GJE states params ode ρ₀ x (k * states.length + i) j) (x j) := by
  have h := C03.grad_jacobian_is_mixed_derivative (envOf states ρ₀ x) states params ode k i j hk hi hj hdef
  rw [envOf_state states hnd ρ₀ x j hj, hlen] at h
  simpa only [GE, GJE, envOf_update states hnd ρ₀ x j hj] using h

/-- C13's `hsym` from `diff_comm`: `∂²f_e/∂x_a∂x_b = ∂²f_e/∂x_b∂x_a` in the stacked matrix -/
theorem DJE_symm (x : ℕ → ℝ) (e a b : ℕ) (he : e < ode.length) (ha : a < states.length) (hb : b < states.length) :
    DJE states ode ρ₀ x (e * states.length + a) b = DJE states ode ρ₀ x (e * states.length + b) a := by
  simp only [DJE, C03.diffJacobian_entry states ode e a b he ha hb, C03.diffJacobian_entry states ode e b a he hb ha]
  exact eval_diff_comm realI _ _ _ _

/-- away from singularities everywhere: every equation is `defined` at every state vector (true of polynomial /
`exp` / `sin` / `cos` right-hand sides; C13's theorems quantify their hypotheses over all `x`, which is why this
form is what they can be fed with - the pointwise form is `*_expr_at` below) -/
def DefinedEverywhere : Prop := ∀ (x : ℕ → ℝ) (i : ℕ) (hi : i < ode.length), defined (envOf states ρ₀ x) ode[i]

/-- **by parameter, no derivative hypotheses left.** -/
theorem aug_jacobian_is_derivative_expr (hnd : states.Nodup) (hlen : ode.length = states.length)
    (hdef : DefinedEverywhere states ode ρ₀)
    (z : ℕ → ℝ) (r c : ℕ) (hr : r < states.length + states.length * params.length)
    (hc : c < states.length + states.length * params.length) :
    HasDerivAt (fun v => C13.augRhs states.length params.length (fE states ode ρ₀) (JE states ode ρ₀)
        (GE states params ode ρ₀) false (update z c v) r)
      (Sens.odeAndSensitivityJacobian states.length params.length (JE states ode ρ₀ z) (GJE states params ode ρ₀ z)
        (DJE states ode ρ₀ z) z false r c) (z c) :=
  C13.aug_jacobian_is_derivative states.length params.length (fE states ode ρ₀) (JE states ode ρ₀)
    (GE states params ode ρ₀) (DJE states ode ρ₀) (GJE states params ode ρ₀)
    (fun x c v hc => fE_local states ode ρ₀ x c v hc)
    (fun x c v hc => JE_local states ode ρ₀ x c v hc)
    (fun x c v hc => GE_local states params ode ρ₀ x c v hc)
    (fun x i j hi hj => fE_hasDerivAt states ode ρ₀ hnd x i j (hlen ▸ hi) hj (hdef x i (hlen ▸ hi)))
    (fun x i l j hi hl hj => JE_hasDerivAt states ode ρ₀ hnd x i l j (hlen ▸ hi) hl hj (hdef x i (hlen ▸ hi)))
    (fun x i k j hi hk hj =>
      GE_hasDerivAt states params ode ρ₀ hnd hlen x i k j (hlen ▸ hi) hk hj (hdef x i (hlen ▸ hi)))
    (fun x e a b he ha hb => DJE_symm states ode ρ₀ x e a b (hlen ▸ he) ha hb)
    z r c hr hc

/-- **initial-value system, no derivative hypotheses left** (every `nP`, `nP = 0` included). -/
theorem aug_jacobianIV_is_derivative_expr (hnd : states.Nodup) (hlen : ode.length = states.length)
    (hdef : DefinedEverywhere states ode ρ₀)
    (z : ℕ → ℝ) (r c : ℕ)
    (hr : r < states.length + states.length * params.length + states.length * states.length)
    (hc : c < states.length + states.length * params.length + states.length * states.length) :
    HasDerivAt (fun v => C13.augRhsIV states.length params.length (fE states ode ρ₀) (JE states ode ρ₀)
        (GE states params ode ρ₀) (update z c v) r)
      (Sens.odeAndSensitivityIVJacobian states.length params.length (JE states ode ρ₀ z) (GJE states params ode ρ₀ z)
        (DJE states ode ρ₀ z) z r c) (z c) :=
  C13.aug_jacobianIV_is_derivative states.length params.length (fE states ode ρ₀) (JE states ode ρ₀)
    (GE states params ode ρ₀) (DJE states ode ρ₀) (GJE states params ode ρ₀)
    (fun x c v hc => fE_local states ode ρ₀ x c v hc)
    (fun x c v hc => JE_local states ode ρ₀ x c v hc)
    (fun x c v hc => GE_local states params ode ρ₀ x c v hc)
    (fun x i j hi hj => fE_hasDerivAt states ode ρ₀ hnd x i j (hlen ▸ hi) hj (hdef x i (hlen ▸ hi)))
    (fun x i l j hi hl hj => JE_hasDerivAt states ode ρ₀ hnd x i l j (hlen ▸ hi) hl hj (hdef x i (hlen ▸ hi)))
    (fun x i k j hi hk hj =>
      GE_hasDerivAt states params ode ρ₀ hnd hlen x i k j (hlen ▸ hi) hk hj (hdef x i (hlen ▸ hi)))
    (fun x e a b he ha hb => DJE_symm states ode ρ₀ x e a b (hlen ▸ he) ha hb)
    z r c hr hc

/-- **by state, repaired arrangement, no derivative hypotheses left.** -/
theorem aug_jacobian_by_state_repaired_is_derivative_expr (hnd : states.Nodup) (hlen : ode.length = states.length)
    (hdef : DefinedEverywhere states ode ρ₀)
    (z : ℕ → ℝ) (r c : ℕ) (hr : r < states.length + states.length * params.length)
    (hc : c < states.length + states.length * params.length) :
    HasDerivAt (fun v => C13.augRhs states.length params.length (fE states ode ρ₀) (JE states ode ρ₀)
        (GE states params ode ρ₀) true (update z c v) r)
      (Sens.odeAndSensitivityJacobianByStateRepaired states.length params.length (JE states ode ρ₀ z)
        (GJE states params ode ρ₀ z) (DJE states ode ρ₀ z) z r c) (z c) :=
  C13.aug_jacobian_by_state_repaired_is_derivative states.length params.length (fE states ode ρ₀) (JE states ode ρ₀)
    (GE states params ode ρ₀) (DJE states ode ρ₀) (GJE states params ode ρ₀)
    (fun x c v hc => fE_local states ode ρ₀ x c v hc)
    (fun x c v hc => JE_local states ode ρ₀ x c v hc)
    (fun x c v hc => GE_local states params ode ρ₀ x c v hc)
    (fun x i j hi hj => fE_hasDerivAt states ode ρ₀ hnd x i j (hlen ▸ hi) hj (hdef x i (hlen ▸ hi)))
    (fun x i l j hi hl hj => JE_hasDerivAt states ode ρ₀ hnd x i l j (hlen ▸ hi) hl hj (hdef x i (hlen ▸ hi)))
    (fun x i k j hi hk hj =>
      GE_hasDerivAt states params ode ρ₀ hnd hlen x i k j (hlen ▸ hi) hk hj (hdef x i (hlen ▸ hi)))
    (fun x e a b he ha hb => DJE_symm states ode ρ₀ x e a b (hlen ▸ he) ha hb)
    z r c hr hc

end inst

/-! ## 4. the same with hypotheses at the point only

C13's theorems quantify their hypotheses over every vector `x`, although their proofs use them at `z` alone.  For
right-hand sides with singularities (a division by the total population, a `log`) definedness at EVERY `x` is
false, so the theorems are re-proved here with every hypothesis stated at `z` (`*_at`, the proofs are C13's with
the hypotheses specialised), and then instantiated (`*_expr_at`) with the single analytic hypothesis
`defined (envOf states ρ₀ z) ode[i]` for the equations at the point `z` itself. -/
section local_versions
open Sens C13

/-- `hasDerivAt_JS_sens` of C13 with the locality hypothesis at `z`, `c` only -/
theorem hasDerivAt_JS_sens_at (nS : ℕ) (Jf : (ℕ → ℝ) → ℕ → ℕ → ℝ) (z : ℕ → ℝ) (i c : ℕ) (p : ℕ → ℕ)
    (hJl : ∀ v, Jf (update z c v) = Jf z) :
    HasDerivAt (fun v => sumTo nS (fun l => Jf (update z c v) i l * (update z c v) (p l)))
      (sumTo nS (fun l => Jf z i l * (if p l = c then 1 else 0))) (z c) := by
  have e : (fun v => sumTo nS (fun l => Jf (update z c v) i l * (update z c v) (p l)))
      = (fun v => sumTo nS (fun l => Jf z i l * (update z c v) (p l))) := by
    funext v; rw [hJl v]
  rw [e]
  refine hasDerivAt_sumTo nS _ _ _ (fun l _ => ?_)
  by_cases h : p l = c
  · have e2 : (fun v => Jf z i l * update z c v (p l)) = (fun v => Jf z i l * v) := by
      funext v; rw [h, update_self]
    rw [e2]; simp only [h, if_true]
    simpa using (hasDerivAt_id (z c)).const_mul (Jf z i l)
  · have e2 : (fun v => Jf z i l * update z c v (p l)) = (fun _ => Jf z i l * z (p l)) := by
      funext v; rw [update_of_ne h]
    rw [e2]; simp only [h, if_false, mul_zero]
    exact hasDerivAt_const _ _

/-- C13 `aug_jacobian_is_derivative`, hypotheses at `z` only -/
theorem aug_jacobian_is_derivative_at (nS nP : ℕ)
    (f : (ℕ → ℝ) → ℕ → ℝ) (Jf Gf DJf GJf : (ℕ → ℝ) → ℕ → ℕ → ℝ) (z : ℕ → ℝ)
    (hfl : ∀ c v, nS ≤ c → f (update z c v) = f z)
    (hJl : ∀ c v, nS ≤ c → Jf (update z c v) = Jf z)
    (hGl : ∀ c v, nS ≤ c → Gf (update z c v) = Gf z)
    (hf : ∀ i j, i < nS → j < nS → HasDerivAt (fun v => f (update z j v) i) (Jf z i j) (z j))
    (hJ : ∀ i l j, i < nS → l < nS → j < nS →
      HasDerivAt (fun v => Jf (update z j v) i l) (DJf z (i*nS + l) j) (z j))
    (hG : ∀ i k j, i < nS → k < nP → j < nS →
      HasDerivAt (fun v => Gf (update z j v) i k) (GJf z (k*nS + i) j) (z j))
    (hsym : ∀ e a b, e < nS → a < nS → b < nS → DJf z (e*nS + a) b = DJf z (e*nS + b) a)
    (r c : ℕ) (hr : r < nS + nS*nP) (hc : c < nS + nS*nP) :
    HasDerivAt (fun v => augRhs nS nP f Jf Gf false (update z c v) r)
      (odeAndSensitivityJacobian nS nP (Jf z) (GJf z) (DJf z) z false r c) (z c) := by
  by_cases hrs : r < nS
  · -- a state row
    have e : (fun v => augRhs nS nP f Jf Gf false (update z c v) r) = (fun v => f (update z c v) r) := by
      funext v; simp [augRhs, odeAndSensitivity, hrs]
    rw [e]
    by_cases hcs : c < nS
    · simpa [odeAndSensitivityJacobian, bmat22, hrs, hcs] using hf r c hrs hcs
    · have e2 : (fun v => f (update z c v) r) = (fun _ => f z r) := by
        funext v; rw [hfl c v (by omega)]
      rw [e2]
      simpa [odeAndSensitivityJacobian, bmat22, hrs, hcs] using hasDerivAt_const (z c) (f z r)
  · -- a sensitivity row  r = nS + k*nS + i
    have hm : r - nS < nS*nP := by omega
    have hn : 0 < nS := pos_of_lt_mul hm
    obtain ⟨k, i, hi, hk, rfl⟩ : ∃ k i, i < nS ∧ k < nP ∧ r = nS + (k*nS + i) :=
      ⟨(r - nS) / nS, (r - nS) % nS, Nat.mod_lt _ hn, div_lt_of_lt_mul' hm, by
        have := Nat.div_add_mod' (r - nS) nS; omega⟩
    have e : (fun v => augRhs nS nP f Jf Gf false (update z c v) (nS + (k*nS + i)))
        = (fun v => sumTo nS (fun l => Jf (update z c v) i l * (update z c v) (nS + k*nS + l))
            + Gf (update z c v) i k) := by
      funext v
      simp only [augRhs]
      rw [sens_layout nS nP _ _ _ _ i k hi]
      congr 1
      apply sumTo_congr; intro l _; rw [Nat.add_assoc]
    rw [e]
    have hsub : nS + (k*nS + i) - nS = k*nS + i := by omega
    by_cases hcs : c < nS
    · have h1 := hasDerivAt_JS_state nS Jf DJf z i c (fun l => nS + k*nS + l) hcs (fun l => by omega)
        (fun l hl => hJ i l c hi hl hcs)
      have h2 := h1.add (hG i k c hi hk hcs)
      refine h2.congr_deriv ?_
      simp only [odeAndSensitivityJacobian, Bool.false_eq_true, ↓reduceIte, bmat22, hrs, hcs, if_true, if_false, matAdd,
        sensJacobianState, hsub]
      rw [sensJacobianState_entry nS _ _ k i c hi hcs, add_comm]
      congr 1
      apply sumTo_congr
      intro l hl
      simp only [dropV]
      rw [hsym i l c hi hl hcs, Nat.add_assoc]
    · have h1 := hasDerivAt_JS_sens_at nS Jf z i c (fun l => nS + k*nS + l) (fun v => hJl c v (by omega))
      have e3 : (fun v => Gf (update z c v) i k) = (fun _ => Gf z i k) := by
        funext v; rw [hGl c v (by omega)]
      have h2 := h1.add (e3 ▸ hasDerivAt_const (z c) (Gf z i k))
      refine h2.congr_deriv ?_
      simp only [odeAndSensitivityJacobian, Bool.false_eq_true, ↓reduceIte, bmat22, hrs, hcs, if_false, hsub, add_zero]
      rw [← kron_eye_entry nS (Jf z) k i (c - nS) hi]
      apply sumTo_congr
      intro l _
      have : (nS + k*nS + l = c) ↔ (k*nS + l = c - nS) := by omega
      simp only [this]

/-- C13 `aug_jacobianIV_is_derivative`, hypotheses at `z` only -/
theorem aug_jacobianIV_is_derivative_at (nS nP : ℕ)
    (f : (ℕ → ℝ) → ℕ → ℝ) (Jf Gf DJf GJf : (ℕ → ℝ) → ℕ → ℕ → ℝ) (z : ℕ → ℝ)
    (hfl : ∀ c v, nS ≤ c → f (update z c v) = f z)
    (hJl : ∀ c v, nS ≤ c → Jf (update z c v) = Jf z)
    (hGl : ∀ c v, nS ≤ c → Gf (update z c v) = Gf z)
    (hf : ∀ i j, i < nS → j < nS → HasDerivAt (fun v => f (update z j v) i) (Jf z i j) (z j))
    (hJ : ∀ i l j, i < nS → l < nS → j < nS →
      HasDerivAt (fun v => Jf (update z j v) i l) (DJf z (i*nS + l) j) (z j))
    (hG : ∀ i k j, i < nS → k < nP → j < nS →
      HasDerivAt (fun v => Gf (update z j v) i k) (GJf z (k*nS + i) j) (z j))
    (hsym : ∀ e a b, e < nS → a < nS → b < nS → DJf z (e*nS + a) b = DJf z (e*nS + b) a)
    (r c : ℕ) (hr : r < nS + nS*nP + nS*nS) (hc : c < nS + nS*nP + nS*nS) :
    HasDerivAt (fun v => augRhsIV nS nP f Jf Gf (update z c v) r)
      (odeAndSensitivityIVJacobian nS nP (Jf z) (GJf z) (DJf z) z r c) (z c) := by
  rw [ivJacobian_blocks]
  by_cases hrs : r < nS
  · have e : (fun v => augRhsIV nS nP f Jf Gf (update z c v) r) = (fun v => f (update z c v) r) := by
      funext v; simp [augRhsIV, odeAndSensitivityIV, hrs]
    rw [e]
    by_cases hcs : c < nS
    · simpa [hrs, hcs] using hf r c hrs hcs
    · have e2 : (fun v => f (update z c v) r) = (fun _ => f z r) := by
        funext v; rw [hfl c v (by omega)]
      rw [e2]
      simpa [hrs, hcs] using hasDerivAt_const (z c) (f z r)
  · by_cases hrp : r < nS + nS*nP
    · -- a parameter-sensitivity row  r = nS + k*nS + i
      have hm : r - nS < nS*nP := by omega
      have hn : 0 < nS := pos_of_lt_mul hm
      obtain ⟨k, i, hi, hk, rfl⟩ : ∃ k i, i < nS ∧ k < nP ∧ r = nS + (k*nS + i) :=
        ⟨(r - nS) / nS, (r - nS) % nS, Nat.mod_lt _ hn, div_lt_of_lt_mul' hm, by
          have := Nat.div_add_mod' (r - nS) nS; omega⟩
      have e : (fun v => augRhsIV nS nP f Jf Gf (update z c v) (nS + (k*nS + i)))
          = (fun v => sumTo nS (fun l => Jf (update z c v) i l * (update z c v) (nS + k*nS + l))
              + Gf (update z c v) i k) := by
        funext v
        simp only [augRhsIV]
        rw [(sensIV_layout nS nP _ _ _ _ i k hi).2.1 hk]
        congr 1
        apply sumTo_congr; intro l _; rw [Nat.add_assoc]
      rw [e]
      have hsub : nS + (k*nS + i) - nS = k*nS + i := by omega
      by_cases hcs : c < nS
      · have h1 := hasDerivAt_JS_state nS Jf DJf z i c (fun l => nS + k*nS + l) hcs (fun l => by omega)
          (fun l hl => hJ i l c hi hl hcs)
        have h2 := h1.add (hG i k c hi hk hcs)
        refine h2.congr_deriv ?_
        simp only [hrs, hrp, hcs, if_true, if_false, matAdd, sensJacobianState, hsub]
        rw [sensJacobianState_entry nS _ _ k i c hi hcs, add_comm]
        congr 1
        apply sumTo_congr
        intro l hl
        simp only [dropV]
        rw [hsym i l c hi hl hcs, Nat.add_assoc]
      · have h1 := hasDerivAt_JS_sens_at nS Jf z i c (fun l => nS + k*nS + l) (fun v => hJl c v (by omega))
        have e3 : (fun v => Gf (update z c v) i k) = (fun _ => Gf z i k) := by
          funext v; rw [hGl c v (by omega)]
        have h2 := h1.add (e3 ▸ hasDerivAt_const (z c) (Gf z i k))
        refine h2.congr_deriv ?_
        simp only [hrs, hrp, hcs, if_true, if_false, hsub, add_zero]
        by_cases hcp : c < nS + nS*nP
        · simp only [hcp, if_true]
          rw [← kron_eye_entry nS (Jf z) k i (c - nS) hi]
          apply sumTo_congr
          intro l _
          have : (nS + k*nS + l = c) ↔ (k*nS + l = c - nS) := by omega
          simp only [this]
        · simp only [hcp, if_false]
          refine (sumTo_congr nS _ (fun _ => (0:ℝ)) (fun l hl => ?_)).trans (sumTo_zero' nS)
          have hlt := idx_lt hl hk
          have : ¬ (nS + k*nS + l = c) := by omega
          simp [this]
    · -- an initial-value row  r = nS + nS*nP + k*nS + i
      have hm : r - nS - nS*nP < nS*nS := by omega
      have hn : 0 < nS := pos_of_lt_mul hm
      obtain ⟨k, i, hi, hk, rfl⟩ : ∃ k i, i < nS ∧ k < nS ∧ r = nS + nS*nP + (k*nS + i) :=
        ⟨(r - nS - nS*nP) / nS, (r - nS - nS*nP) % nS, Nat.mod_lt _ hn, div_lt_of_lt_mul' hm, by
          have := Nat.div_add_mod' (r - nS - nS*nP) nS; omega⟩
      have e : (fun v => augRhsIV nS nP f Jf Gf (update z c v) (nS + nS*nP + (k*nS + i)))
          = (fun v => sumTo nS (fun l => Jf (update z c v) i l * (update z c v) (nS + nS*nP + k*nS + l))) := by
        funext v
        simp only [augRhsIV]
        rw [(sensIV_layout nS nP _ _ _ _ i k hi).2.2]
        apply sumTo_congr; intro l _
        have : nS + (nS*nP + (k*nS + l)) = nS + nS*nP + k*nS + l := by omega
        rw [this]
      rw [e]
      have hsub : nS + nS*nP + (k*nS + i) - nS - nS*nP = k*nS + i := by omega
      by_cases hcs : c < nS
      · have h1 := hasDerivAt_JS_state nS Jf DJf z i c (fun l => nS + nS*nP + k*nS + l) hcs (fun l => by omega)
          (fun l hl => hJ i l c hi hl hcs)
        refine h1.congr_deriv ?_
        simp only [hrs, hrp, hcs, if_true, if_false, hsub]
        rw [sensJacobianState_entry nS _ _ k i c hi hcs]
        apply sumTo_congr
        intro l hl
        simp only [dropV]
        rw [hsym i l c hi hl hcs]
        have : nS*(nP+1) + (k*nS + l) = nS + nS*nP + k*nS + l := by ring
        rw [this]
      · have h1 := hasDerivAt_JS_sens_at nS Jf z i c (fun l => nS + nS*nP + k*nS + l) (fun v => hJl c v (by omega))
        refine h1.congr_deriv ?_
        simp only [hrs, hrp, hcs, if_true, if_false, hsub]
        by_cases hcp : c < nS + nS*nP
        · simp only [hcp, if_true]
          refine (sumTo_congr nS _ (fun _ => (0:ℝ)) (fun l hl => ?_)).trans (sumTo_zero' nS)
          have : ¬ (nS + nS*nP + k*nS + l = c) := by omega
          simp [this]
        · simp only [hcp, if_false]
          rw [← kron_eye_entry nS (Jf z) k i (c - nS - nS*nP) hi]
          apply sumTo_congr
          intro l _
          have : (nS + nS*nP + k*nS + l = c) ↔ (k*nS + l = c - nS - nS*nP) := by omega
          simp only [this]

/-- C13 `aug_jacobian_by_state_repaired_is_derivative`, hypotheses at `z` only -/
theorem aug_jacobian_by_state_repaired_is_derivative_at (nS nP : ℕ)
    (f : (ℕ → ℝ) → ℕ → ℝ) (Jf Gf DJf GJf : (ℕ → ℝ) → ℕ → ℕ → ℝ) (z : ℕ → ℝ)
    (hfl : ∀ c v, nS ≤ c → f (update z c v) = f z)
    (hJl : ∀ c v, nS ≤ c → Jf (update z c v) = Jf z)
    (hGl : ∀ c v, nS ≤ c → Gf (update z c v) = Gf z)
    (hf : ∀ i j, i < nS → j < nS → HasDerivAt (fun v => f (update z j v) i) (Jf z i j) (z j))
    (hJ : ∀ i l j, i < nS → l < nS → j < nS →
      HasDerivAt (fun v => Jf (update z j v) i l) (DJf z (i*nS + l) j) (z j))
    (hG : ∀ i k j, i < nS → k < nP → j < nS →
      HasDerivAt (fun v => Gf (update z j v) i k) (GJf z (k*nS + i) j) (z j))
    (hsym : ∀ e a b, e < nS → a < nS → b < nS → DJf z (e*nS + a) b = DJf z (e*nS + b) a)
    (r c : ℕ) (hr : r < nS + nS*nP) (hc : c < nS + nS*nP) :
    HasDerivAt (fun v => augRhs nS nP f Jf Gf true (update z c v) r)
      (odeAndSensitivityJacobianByStateRepaired nS nP (Jf z) (GJf z) (DJf z) z r c) (z c) := by
  by_cases hrs : r < nS
  · have e : (fun v => augRhs nS nP f Jf Gf true (update z c v) r) = (fun v => f (update z c v) r) := by
      funext v; simp [augRhs, odeAndSensitivity, hrs]
    rw [e]
    by_cases hcs : c < nS
    · simpa [odeAndSensitivityJacobianByStateRepaired, bmat22, hrs, hcs] using hf r c hrs hcs
    · have e2 : (fun v => f (update z c v) r) = (fun _ => f z r) := by
        funext v; rw [hfl c v (by omega)]
      rw [e2]
      simpa [odeAndSensitivityJacobianByStateRepaired, bmat22, hrs, hcs] using hasDerivAt_const (z c) (f z r)
  · -- a sensitivity row  r = nS + i*nP + k
    have hm : r - nS < nP*nS := by rw [Nat.mul_comm]; omega
    have hn : 0 < nP := pos_of_lt_mul hm
    obtain ⟨i, k, hk, hi, rfl⟩ : ∃ i k, k < nP ∧ i < nS ∧ r = nS + (i*nP + k) :=
      ⟨(r - nS) / nP, (r - nS) % nP, Nat.mod_lt _ hn, div_lt_of_lt_mul' hm, by
        have := Nat.div_add_mod' (r - nS) nP; omega⟩
    have e : (fun v => augRhs nS nP f Jf Gf true (update z c v) (nS + (i*nP + k)))
        = (fun v => sumTo nS (fun l => Jf (update z c v) i l * (update z c v) (nS + (l*nP + k)))
            + Gf (update z c v) i k) := by
      funext v
      simp only [augRhs]
      rw [sens_layout_by_state nS nP _ _ _ _ i k hk]
    rw [e]
    have hsub : nS + (i*nP + k) - nS = i*nP + k := by omega
    by_cases hcs : c < nS
    · have h1 := hasDerivAt_JS_state nS Jf DJf z i c (fun l => nS + (l*nP + k)) hcs (fun l => by omega)
        (fun l hl => hJ i l c hi hl hcs)
      have h2 := h1.add (hG i k c hi hk hcs)
      refine h2.congr_deriv ?_
      simp only [odeAndSensitivityJacobianByStateRepaired, bmat22, hrs, hcs, if_true, if_false, matAdd, hsub,
        idx_mod i hk, idx_div i hk]
      rw [sensJacobianState_entry nS _ _ k i c hi hcs, add_comm]
      congr 1
      apply sumTo_congr
      intro l hl
      simp only [matToVecSens, flattenF, reshapeC, dropV, idx_mod k hl, idx_div k hl]
      rw [hsym i l c hi hl hcs]
    · have h1 := hasDerivAt_JS_sens_at nS Jf z i c (fun l => nS + (l*nP + k)) (fun v => hJl c v (by omega))
      have e3 : (fun v => Gf (update z c v) i k) = (fun _ => Gf z i k) := by
        funext v; rw [hGl c v (by omega)]
      have h2 := h1.add (e3 ▸ hasDerivAt_const (z c) (Gf z i k))
      refine h2.congr_deriv ?_
      simp only [odeAndSensitivityJacobianByStateRepaired, bmat22, hrs, hcs, if_false, hsub, add_zero]
      rw [← kron_J_eye_entry nS nP (Jf z) k i (c - nS) hk (by omega)]
      apply sumTo_congr
      intro l _
      have : (nS + (l*nP + k) = c) ↔ (l*nP + k = c - nS) := by omega
      simp only [this]

end local_versions

/-- the `*_at` theorems generalise C13's: C13's statement is the special case "hypotheses at every `x`" -/
example (nS nP : ℕ) (f : (ℕ → ℝ) → ℕ → ℝ) (Jf Gf DJf GJf : (ℕ → ℝ) → ℕ → ℕ → ℝ)
    (hfl : ∀ x c v, nS ≤ c → f (update x c v) = f x)
    (hJl : ∀ x c v, nS ≤ c → Jf (update x c v) = Jf x)
    (hGl : ∀ x c v, nS ≤ c → Gf (update x c v) = Gf x)
    (hf : ∀ x i j, i < nS → j < nS → HasDerivAt (fun v => f (update x j v) i) (Jf x i j) (x j))
    (hJ : ∀ x i l j, i < nS → l < nS → j < nS →
      HasDerivAt (fun v => Jf (update x j v) i l) (DJf x (i*nS + l) j) (x j))
    (hG : ∀ x i k j, i < nS → k < nP → j < nS →
      HasDerivAt (fun v => Gf (update x j v) i k) (GJf x (k*nS + i) j) (x j))
    (hsym : ∀ x e a b, e < nS → a < nS → b < nS → DJf x (e*nS + a) b = DJf x (e*nS + b) a)
    (z : ℕ → ℝ) (r c : ℕ) (hr : r < nS + nS*nP) (hc : c < nS + nS*nP) :
    HasDerivAt (fun v => C13.augRhs nS nP f Jf Gf false (update z c v) r)
      (Sens.odeAndSensitivityJacobian nS nP (Jf z) (GJf z) (DJf z) z false r c) (z c) :=
  aug_jacobian_is_derivative_at nS nP f Jf Gf DJf GJf z (hfl z) (hJl z) (hGl z) (hf z) (hJ z) (hG z) (hsym z) r c hr hc

section inst_at
variable (states params : List String) (ode : List Expr) (ρ₀ : String → ℝ)

/-- away from singularities AT THE POINT: every equation is `defined` at the state block of `z` -/
def DefinedAt (z : ℕ → ℝ) : Prop := ∀ (i : ℕ) (hi : i < ode.length), defined (envOf states ρ₀ z) ode[i]

/-- **by parameter, pointwise.**  Entry `(r,c)` of `ode_and_sensitivity_jacobian(z,t)` assembled from the values of
`get_jacobian_eqn`, `get_grad_jacobian_eqn`, `get_diff_jacobian_eqn` is the derivative in `z_c` of component `r` of
`ode_and_sensitivity(z,t)` assembled from the values of `get_ode_eqn`, `get_jacobian_eqn`, `get_grad_eqn` - whenever
the equations are defined at `z`.  No derivative or symmetry hypothesis. -/
theorem aug_jacobian_is_derivative_expr_at (hnd : states.Nodup) (hlen : ode.length = states.length)
    (z : ℕ → ℝ) (hdef : DefinedAt states ode ρ₀ z) (r c : ℕ)
    (hr : r < states.length + states.length * params.length)
    (hc : c < states.length + states.length * params.length) :
    HasDerivAt (fun v => C13.augRhs states.length params.length (fE states ode ρ₀) (JE states ode ρ₀)
        (GE states params ode ρ₀) false (update z c v) r)
      (Sens.odeAndSensitivityJacobian states.length params.length (JE states ode ρ₀ z) (GJE states params ode ρ₀ z)
        (DJE states ode ρ₀ z) z false r c) (z c) :=
  aug_jacobian_is_derivative_at states.length params.length (fE states ode ρ₀) (JE states ode ρ₀)
    (GE states params ode ρ₀) (DJE states ode ρ₀) (GJE states params ode ρ₀) z
    (fun c v hc => fE_local states ode ρ₀ z c v hc)
    (fun c v hc => JE_local states ode ρ₀ z c v hc)
    (fun c v hc => GE_local states params ode ρ₀ z c v hc)
    (fun i j hi hj => fE_hasDerivAt states ode ρ₀ hnd z i j (hlen ▸ hi) hj (hdef i (hlen ▸ hi)))
    (fun i l j hi hl hj => JE_hasDerivAt states ode ρ₀ hnd z i l j (hlen ▸ hi) hl hj (hdef i (hlen ▸ hi)))
    (fun i k j hi hk hj =>
      GE_hasDerivAt states params ode ρ₀ hnd hlen z i k j (hlen ▸ hi) hk hj (hdef i (hlen ▸ hi)))
    (fun e a b he ha hb => DJE_symm states ode ρ₀ z e a b (hlen ▸ he) ha hb)
    r c hr hc

/-- **initial-value system, pointwise** (every `nP`, `nP = 0` included). -/
theorem aug_jacobianIV_is_derivative_expr_at (hnd : states.Nodup) (hlen : ode.length = states.length)
    (z : ℕ → ℝ) (hdef : DefinedAt states ode ρ₀ z) (r c : ℕ)
    (hr : r < states.length + states.length * params.length + states.length * states.length)
    (hc : c < states.length + states.length * params.length + states.length * states.length) :
    HasDerivAt (fun v => C13.augRhsIV states.length params.length (fE states ode ρ₀) (JE states ode ρ₀)
        (GE states params ode ρ₀) (update z c v) r)
      (Sens.odeAndSensitivityIVJacobian states.length params.length (JE states ode ρ₀ z) (GJE states params ode ρ₀ z)
        (DJE states ode ρ₀ z) z r c) (z c) :=
  aug_jacobianIV_is_derivative_at states.length params.length (fE states ode ρ₀) (JE states ode ρ₀)
    (GE states params ode ρ₀) (DJE states ode ρ₀) (GJE states params ode ρ₀) z
    (fun c v hc => fE_local states ode ρ₀ z c v hc)
    (fun c v hc => JE_local states ode ρ₀ z c v hc)
    (fun c v hc => GE_local states params ode ρ₀ z c v hc)
    (fun i j hi hj => fE_hasDerivAt states ode ρ₀ hnd z i j (hlen ▸ hi) hj (hdef i (hlen ▸ hi)))
    (fun i l j hi hl hj => JE_hasDerivAt states ode ρ₀ hnd z i l j (hlen ▸ hi) hl hj (hdef i (hlen ▸ hi)))
    (fun i k j hi hk hj =>
      GE_hasDerivAt states params ode ρ₀ hnd hlen z i k j (hlen ▸ hi) hk hj (hdef i (hlen ▸ hi)))
    (fun e a b he ha hb => DJE_symm states ode ρ₀ z e a b (hlen ▸ he) ha hb)
    r c hr hc

/-- **by state, repaired arrangement, pointwise.** -/
theorem aug_jacobian_by_state_repaired_is_derivative_expr_at (hnd : states.Nodup) (hlen : ode.length = states.length)
    (z : ℕ → ℝ) (hdef : DefinedAt states ode ρ₀ z) (r c : ℕ)
    (hr : r < states.length + states.length * params.length)
    (hc : c < states.length + states.length * params.length) :
    HasDerivAt (fun v => C13.augRhs states.length params.length (fE states ode ρ₀) (JE states ode ρ₀)
        (GE states params ode ρ₀) true (update z c v) r)
      (Sens.odeAndSensitivityJacobianByStateRepaired states.length params.length (JE states ode ρ₀ z)
        (GJE states params ode ρ₀ z) (DJE states ode ρ₀ z) z r c) (z c) :=
  aug_jacobian_by_state_repaired_is_derivative_at states.length params.length (fE states ode ρ₀) (JE states ode ρ₀)
    (GE states params ode ρ₀) (DJE states ode ρ₀) (GJE states params ode ρ₀) z
    (fun c v hc => fE_local states ode ρ₀ z c v hc)
    (fun c v hc => JE_local states ode ρ₀ z c v hc)
    (fun c v hc => GE_local states params ode ρ₀ z c v hc)
    (fun i j hi hj => fE_hasDerivAt states ode ρ₀ hnd z i j (hlen ▸ hi) hj (hdef i (hlen ▸ hi)))
    (fun i l j hi hl hj => JE_hasDerivAt states ode ρ₀ hnd z i l j (hlen ▸ hi) hl hj (hdef i (hlen ▸ hi)))
    (fun i k j hi hk hj =>
      GE_hasDerivAt states params ode ρ₀ hnd hlen z i k j (hlen ▸ hi) hk hj (hdef i (hlen ▸ hi)))
    (fun e a b he ha hb => DJE_symm states ode ρ₀ z e a b (hlen ▸ he) ha hb)
    r c hr hc

/-- the by-state matrix AS CODED, on the objects pygom builds: wherever it differs from the repaired matrix that
entry is not the derivative (derivatives are unique) -/
theorem aug_jacobian_by_state_coded_not_derivative_expr_at (hnd : states.Nodup) (hlen : ode.length = states.length)
    (z : ℕ → ℝ) (hdef : DefinedAt states ode ρ₀ z) (r c : ℕ)
    (hr : r < states.length + states.length * params.length)
    (hc : c < states.length + states.length * params.length)
    (hne : Sens.odeAndSensitivityJacobian states.length params.length (JE states ode ρ₀ z) (GJE states params ode ρ₀ z)
        (DJE states ode ρ₀ z) z true r c
      ≠ Sens.odeAndSensitivityJacobianByStateRepaired states.length params.length (JE states ode ρ₀ z)
        (GJE states params ode ρ₀ z) (DJE states ode ρ₀ z) z r c) :
    ¬ HasDerivAt (fun v => C13.augRhs states.length params.length (fE states ode ρ₀) (JE states ode ρ₀)
        (GE states params ode ρ₀) true (update z c v) r)
      (Sens.odeAndSensitivityJacobian states.length params.length (JE states ode ρ₀ z) (GJE states params ode ρ₀ z)
        (DJE states ode ρ₀ z) z true r c) (z c) := fun h =>
  hne (h.unique (aug_jacobian_by_state_repaired_is_derivative_expr_at states params ode ρ₀ hnd hlen z hdef r c hr hc))

end inst_at

/-! ## non-vacuity -/
section nonvacuity

/-- SIR: `S' = -β S I`, `I' = β S I - γ I` -/
def sirStates : List String := ["S", "I"]
def sirParams : List String := ["beta", "gamma"]
def sirOde : List Expr :=
  [.neg (.mul (.mul (.var "beta") (.var "S")) (.var "I")),
   .sub (.mul (.mul (.var "beta") (.var "S")) (.var "I")) (.mul (.var "gamma") (.var "I"))]

example : sirStates.Nodup := by decide
example : sirOde.length = sirStates.length := rfl

/-- a polynomial right-hand side is defined everywhere: the hypotheses of the `*_expr` theorems are satisfiable -/
theorem sir_definedEverywhere (ρ₀ : String → ℝ) : DefinedEverywhere sirStates sirOde ρ₀ := by
  intro x i hi
  have : i = 0 ∨ i = 1 := by simp [sirOde] at hi; omega
  rcases this with rfl | rfl <;> simp [sirOde, defined]

/-- ... and the conclusion is about a non-trivial object: the `(S, I)` second derivative of `S'` is `-β`
(symbolically `neg (var beta)`), and the matrix is symmetric there -/
example : mat2 (diffJacobianEqn sirStates sirOde) (0 * 2 + 0) 1 = .neg (.var "beta") := by decide
example : mat2 (diffJacobianEqn sirStates sirOde) (0 * 2 + 1) 0 = .neg (.var "beta") := by decide

example (ρ₀ : String → ℝ) (z : ℕ → ℝ) :
    HasDerivAt (fun v => C13.augRhs 2 2 (fE sirStates sirOde ρ₀) (JE sirStates sirOde ρ₀)
        (GE sirStates sirParams sirOde ρ₀) false (update z 1 v) 2)
      (Sens.odeAndSensitivityJacobian 2 2 (JE sirStates sirOde ρ₀ z) (GJE sirStates sirParams sirOde ρ₀ z)
        (DJE sirStates sirOde ρ₀ z) z false 2 1) (z 1) :=
  aug_jacobian_is_derivative_expr sirStates sirParams sirOde ρ₀ (by decide) rfl (sir_definedEverywhere ρ₀) z 2 1
    (by decide) (by decide)

/-- frequency-dependent SIR: `S' = -β S I / (S + I)`, `I' = β S I / (S + I)`: singular on `S + I = 0`, so
`DefinedEverywhere` FAILS and only the pointwise theorems apply -/
def fdOde : List Expr :=
  [.neg (.div (.mul (.mul (.var "beta") (.var "S")) (.var "I")) (.add (.var "S") (.var "I"))),
   .div (.mul (.mul (.var "beta") (.var "S")) (.var "I")) (.add (.var "S") (.var "I"))]

theorem fd_eval_N (ρ₀ : String → ℝ) (z : ℕ → ℝ) :
    evalR (envOf sirStates ρ₀ z) (.add (.var "S") (.var "I")) = z 0 + z 1 := by
  have h0 := envOf_state sirStates (by decide) ρ₀ z 0 (by decide)
  have h1 := envOf_state sirStates (by decide) ρ₀ z 1 (by decide)
  simp only [sirStates, List.getElem_cons_zero, List.getElem_cons_succ] at h0 h1
  simp only [evalR, Expr.eval]
  exact congrArg₂ (· + ·) h0 h1

theorem fd_definedAt (ρ₀ : String → ℝ) (z : ℕ → ℝ) (hz : z 0 + z 1 ≠ 0) : DefinedAt sirStates fdOde ρ₀ z := by
  have hN := fd_eval_N ρ₀ z
  intro i hi
  have : i = 0 ∨ i = 1 := by simp [fdOde] at hi; omega
  rcases this with rfl | rfl <;> simp [fdOde, defined, hN, hz]

theorem fd_not_definedEverywhere (ρ₀ : String → ℝ) : ¬ DefinedEverywhere sirStates fdOde ρ₀ := by
  intro h
  have h1 := h (fun _ => 0) 1 (by decide)
  have hN := fd_eval_N ρ₀ (fun _ => 0)
  simp [fdOde, defined, hN] at h1

example (ρ₀ : String → ℝ) (z : ℕ → ℝ) (hz : z 0 + z 1 ≠ 0) :
    HasDerivAt (fun v => C13.augRhsIV 2 1 (fE sirStates fdOde ρ₀) (JE sirStates fdOde ρ₀)
        (GE sirStates ["beta"] fdOde ρ₀) (update z 0 v) 5)
      (Sens.odeAndSensitivityIVJacobian 2 1 (JE sirStates fdOde ρ₀ z) (GJE sirStates ["beta"] fdOde ρ₀ z)
        (DJE sirStates fdOde ρ₀ z) z 5 0) (z 0) :=
  aug_jacobianIV_is_derivative_expr_at sirStates ["beta"] fdOde ρ₀ (by decide) rfl z (fd_definedAt ρ₀ z hz) 5 0
    (by decide) (by decide)

/-- `diff_comm` on an expression with every kind of node, singular point included (`x = 0`: `log 0`, `1/0`) -/
example (ρ : String → ℝ) :
    evalR ρ (diff "x" (diff "y" (.div (.log (.var "x")) (.pow (.mul (.var "x") (.sin (.var "y"))) 3))))
      = evalR ρ (diff "y" (diff "x" (.div (.log (.var "x")) (.pow (.mul (.var "x") (.sin (.var "y"))) 3)))) :=
  eval_diff_comm realI ρ "x" "y" _

end nonvacuity

end C13Link
end Pygom
