/-
C13Link - the hypotheses of C13's derivative theorems discharged from C03.

C13 (`aug_jacobian_is_derivative`, `aug_jacobianIV_is_derivative`, `aug_jacobian_by_state_repaired_is_derivative`)
takes as HYPOTHESES that `f, J, G` read only the state block, that `J`, `DJ`, `GJ` are the state derivatives of
`f`, `J`, `G`, and that the mixed second partials in `DJ` commute.  Here these are PROVED for the objects pygom
actually builds: `f, J, G, DJ, GJ` are the values of `ode`, `jacobianEqn`, `gradEqn`, `diffJacobianEqn`,
`gradJacobianEqn` (Pygom/Model.lean) at the environment that binds the declared state names to the state
block of the augmented vector.

* `diff_comm`      : Schwarz for the symbolic differentiator `Expr.diff` (full statement; it needs no
                     definedness hypothesis at all and holds over every field and interpretation: `eval_diff_comm`)
* `envOf`, `envOf_update`, `envOf_update_ge` : the bridge vector <-> named environment
* `aug_jacobian_is_derivative_expr`, `aug_jacobianIV_is_derivative_expr`,
  `aug_jacobian_by_state_repaired_is_derivative_expr` : C13's conclusions with no derivative / symmetry
                     hypothesis left; the only analytic hypothesis is `defined` (away from singularities of the rates)
-/
import Pygom.Props.C03
import Pygom.Props.C13

set_option linter.unusedSimpArgs false
set_option linter.unusedVariables false

namespace Pygom
namespace C13Link
open Expr Function

/-! ## 1. mixed symbolic second derivatives commute -/
section field
variable {K : Type} [Field K]

theorem eq_zero_of_isZero {e : Expr} (h : e.isZero = true) : e = Expr.zero := by
  cases e <;> simp [Expr.isZero] at h
  subst h; rfl

theorem eq_one_of_isOne {e : Expr} (h : e.isOne = true) : e = Expr.one := by
  cases e <;> simp [Expr.isOne] at h
  subst h; rfl

theorem diff_zero (v : String) : diff v Expr.zero = Expr.zero := rfl
theorem diff_one (v : String) : diff v Expr.one = Expr.zero := rfl

/-- the derivative of a smart sum evaluates to the sum of the derivatives -/
theorem eval_diff_sadd (I : FnInterp K) (ρ : String → K) (v : String) (a b : Expr) :
    Expr.eval I ρ (diff v (sadd a b)) = Expr.eval I ρ (diff v a) + Expr.eval I ρ (diff v b) := by
  unfold sadd
  split
  · rename_i h; rw [eq_zero_of_isZero h, diff_zero]; simp
  · split
    · rename_i h; rw [eq_zero_of_isZero h, diff_zero]; simp
    · simp only [diff, eval_sadd]

theorem eval_diff_ssub (I : FnInterp K) (ρ : String → K) (v : String) (a b : Expr) :
    Expr.eval I ρ (diff v (ssub a b)) = Expr.eval I ρ (diff v a) - Expr.eval I ρ (diff v b) := by
  unfold ssub
  split
  · rename_i h; rw [eq_zero_of_isZero h, diff_zero]; simp
  · split
    · rename_i h; rw [eq_zero_of_isZero h, diff_zero]; simp [diff]
    · simp only [diff, eval_ssub]

theorem eval_diff_smul (I : FnInterp K) (ρ : String → K) (v : String) (a b : Expr) :
    Expr.eval I ρ (diff v (smul a b))
      = Expr.eval I ρ (diff v a) * Expr.eval I ρ b + Expr.eval I ρ a * Expr.eval I ρ (diff v b) := by
  unfold smul
  split
  · rename_i h; rw [eq_zero_of_isZero h, diff_zero]; simp
  · split
    · rename_i h; rw [eq_zero_of_isZero h, diff_zero]; simp
    · split
      · rename_i h; rw [eq_one_of_isOne h, diff_one]; simp
      · split
        · rename_i h; rw [eq_one_of_isOne h, diff_one]; simp
        · simp only [diff, eval_sadd, eval_smul]

theorem eval_diff_sneg (I : FnInterp K) (ρ : String → K) (v : String) (a : Expr) :
    Expr.eval I ρ (diff v (sneg a)) = - Expr.eval I ρ (diff v a) := by
  unfold sneg
  split
  · rename_i h; rw [eq_zero_of_isZero h, diff_zero]; simp
  · simp only [diff, eval_sneg]

theorem eval_diff_sdiv (I : FnInterp K) (ρ : String → K) (v : String) (a b : Expr) :
    Expr.eval I ρ (diff v (sdiv a b))
      = (Expr.eval I ρ (diff v a) * Expr.eval I ρ b - Expr.eval I ρ a * Expr.eval I ρ (diff v b))
          / (Expr.eval I ρ b * Expr.eval I ρ b) := by
  unfold sdiv
  split
  · rename_i h; rw [eq_zero_of_isZero h, diff_zero]; simp
  · simp only [diff, eval_sdiv, eval_ssub, eval_smul, Expr.eval]

/-- **Schwarz for `Expr.diff`, every field, every interpretation of the transcendental symbols, every
environment** - singular points included (both sides are the same rational expression in the values of the
sub-terms and their first and mixed second derivatives). -/
theorem eval_diff_comm (I : FnInterp K) (ρ : String → K) (a b : String) (e : Expr) :
    Expr.eval I ρ (diff a (diff b e)) = Expr.eval I ρ (diff b (diff a e)) := by
  induction e with
  | num q => rfl
  | pi => rfl
  | var w =>
    simp only [diff]
    split <;> split <;> rfl
  | add p q ihp ihq => simp only [diff, eval_diff_sadd, ihp, ihq]
  | sub p q ihp ihq => simp only [diff, eval_diff_ssub, ihp, ihq]
  | mul p q ihp ihq =>
    simp only [diff, eval_diff_sadd, eval_diff_smul, ihp, ihq]
    ring
  | div p q ihp ihq =>
    simp only [diff, eval_diff_sdiv, eval_diff_ssub, eval_diff_smul, eval_diff_sadd, eval_sadd, eval_ssub, eval_smul,
      Expr.eval, ihp, ihq]
    congr 1
    ring
  | neg p ih => simp only [diff, eval_diff_sneg, ih]
  | pow p n ih =>
    simp only [diff, eval_diff_smul, eval_smul, eval_zero, Expr.eval, ih]
    ring
  | exp p ih =>
    simp only [diff, eval_diff_smul, eval_smul, Expr.eval, ih]
    ring
  | log p ih =>
    simp only [diff, eval_diff_sdiv, ih]
    congr 1
    ring
  | sin p ih =>
    simp only [diff, eval_diff_smul, eval_diff_sneg, eval_smul, eval_sneg, Expr.eval, ih]
    ring
  | cos p ih =>
    simp only [diff, eval_diff_smul, eval_diff_sneg, eval_smul, eval_sneg, Expr.eval, ih]
    ring

end field

/-- **Schwarz for the symbolic differentiator** (the statement C13's `hsym` needs).  The hypothesis `h` is not
used: see `eval_diff_comm`. -/
theorem diff_comm (a b : String) (ρ : String → ℝ) (e : Expr) (h : defined ρ e) :
    evalR ρ (diff a (diff b e)) = evalR ρ (diff b (diff a e)) :=
  eval_diff_comm realI ρ a b e

/-- the mixed second derivative is a genuine second derivative in either order: `∂/∂a (∂e/∂b)` (C03) has the
value `diff b (diff a e)` too -/
theorem hasDerivAt_diff_swapped (a b : String) (ρ : String → ℝ) (e : Expr) (h : defined ρ e) :
    HasDerivAt (fun x => evalR (update ρ a x) (diff b e)) (evalR ρ (diff b (diff a e))) (ρ a) := by
  rw [← diff_comm a b ρ e h]
  exact hasDerivAt_diff a ρ _ (defined_diff b ρ e h)

/-! ## 2. vectors and named environments -/

/-- the environment that binds the state name `states[j]` to `x j` (`j < states.length`) and leaves every other
symbol (parameters, time) as in `ρ₀` -/
def envOf (states : List String) (ρ₀ : String → ℝ) (x : ℕ → ℝ) : String → ℝ :=
  fun s => if states.idxOf s < states.length then x (states.idxOf s) else ρ₀ s

theorem envOf_state (states : List String) (hnd : states.Nodup) (ρ₀ : String → ℝ) (x : ℕ → ℝ) (j : ℕ)
    (hj : j < states.length) : envOf states ρ₀ x states[j] = x j := by
  simp [envOf, hnd.idxOf_getElem j hj, hj]

theorem envOf_other (states : List String) (ρ₀ : String → ℝ) (x : ℕ → ℝ) (s : String) (hs : s ∉ states) :
    envOf states ρ₀ x s = ρ₀ s := by
  have : ¬ states.idxOf s < states.length := by
    intro h; exact hs (List.idxOf_lt_length_iff.mp h)
  simp [envOf, this]

/-- updating component `j` of the vector is updating the symbol `states[j]` of the environment -/
theorem envOf_update (states : List String) (hnd : states.Nodup) (ρ₀ : String → ℝ) (x : ℕ → ℝ) (j : ℕ)
    (hj : j < states.length) (v : ℝ) :
    envOf states ρ₀ (update x j v) = update (envOf states ρ₀ x) states[j] v := by
  funext s
  by_cases hs : s = states[j]
  · subst hs
    rw [update_self, envOf_state states hnd _ _ j hj, update_self]
  · rw [update_of_ne hs]
    unfold envOf
    split
    · rename_i hlt
      have : states.idxOf s ≠ j := by
        intro h
        apply hs
        have := List.getElem_idxOf hlt
        simp only [h] at this
        exact this.symm
      rw [update_of_ne this]
    · rfl

/-- components beyond the state block (the sensitivities) are not read -/
theorem envOf_update_ge (states : List String) (ρ₀ : String → ℝ) (x : ℕ → ℝ) (c : ℕ)
    (hc : states.length ≤ c) (v : ℝ) :
    envOf states ρ₀ (update x c v) = envOf states ρ₀ x := by
  funext s
  unfold envOf
  split
  · rename_i hlt
    rw [update_of_ne (by omega)]
  · rfl

/-! ## 3. the objects pygom builds satisfy C13's hypotheses -/
section inst
variable (states params : List String) (ode : List Expr) (ρ₀ : String → ℝ)

/-- `ode(x)`: component `i` is the value of `ode[i]` (0 outside) -/
noncomputable def fE (x : ℕ → ℝ) (i : ℕ) : ℝ := evalR (envOf states ρ₀ x) (ode.getD i Expr.zero)
/-- `jacobian(x)` : the value of `get_jacobian_eqn` -/
noncomputable def JE (x : ℕ → ℝ) (i l : ℕ) : ℝ := evalR (envOf states ρ₀ x) (mat2 (jacobianEqn states ode) i l)
/-- `grad(x)` : the value of `get_grad_eqn` -/
noncomputable def GE (x : ℕ → ℝ) (i k : ℕ) : ℝ := evalR (envOf states ρ₀ x) (mat2 (gradEqn params ode) i k)
/-- `diff_jacobian(x)` : the value of `get_diff_jacobian_eqn` (row `e*nS+i`) -/
noncomputable def DJE (x : ℕ → ℝ) (r c : ℕ) : ℝ := evalR (envOf states ρ₀ x) (mat2 (diffJacobianEqn states ode) r c)
/-- `grad_jacobian(x)` : the value of `get_grad_jacobian_eqn` (row `k*nS+i`) -/
noncomputable def GJE (x : ℕ → ℝ) (r c : ℕ) : ℝ :=
  evalR (envOf states ρ₀ x) (mat2 (gradJacobianEqn states params ode) r c)

theorem fE_local (x : ℕ → ℝ) (c : ℕ) (v : ℝ) (hc : states.length ≤ c) :
    fE states ode ρ₀ (update x c v) = fE states ode ρ₀ x := by
  funext i; simp only [fE, envOf_update_ge states ρ₀ x c hc v]

theorem JE_local (x : ℕ → ℝ) (c : ℕ) (v : ℝ) (hc : states.length ≤ c) :
    JE states ode ρ₀ (update x c v) = JE states ode ρ₀ x := by
  funext i l; simp only [JE, envOf_update_ge states ρ₀ x c hc v]

theorem GE_local (x : ℕ → ℝ) (c : ℕ) (v : ℝ) (hc : states.length ≤ c) :
    GE states params ode ρ₀ (update x c v) = GE states params ode ρ₀ x := by
  funext i k; simp only [GE, envOf_update_ge states ρ₀ x c hc v]

/-- C13's `hf` from C03 `jacobian_is_derivative` -/
theorem fE_hasDerivAt (hnd : states.Nodup) (x : ℕ → ℝ) (i j : ℕ) (hi : i < ode.length) (hj : j < states.length)
    (hdef : defined (envOf states ρ₀ x) ode[i]) :
    HasDerivAt (fun v => fE states ode ρ₀ (update x j v) i) (JE states ode ρ₀ x i j) (x j) := by
  have h := C03.jacobian_is_derivative (envOf states ρ₀ x) states ode i j hi hj hdef
  rw [envOf_state states hnd ρ₀ x j hj] at h
  have e : ode.getD i Expr.zero = ode[i] := (List.getElem_eq_getD Expr.zero).symm
  simpa only [fE, JE, envOf_update states hnd ρ₀ x j hj, e] using h

/-- C13's `hJ` from C03 `diff_jacobian_is_second_derivative` -/
theorem JE_hasDerivAt (hnd : states.Nodup) (x : ℕ → ℝ) (i l j : ℕ) (hi : i < ode.length) (hl : l < states.length)
    (hj : j < states.length) (hdef : defined (envOf states ρ₀ x) ode[i]) :
    HasDerivAt (fun v => JE states ode ρ₀ (update x j v) i l) (DJE states ode ρ₀ x (i * states.length + l) j) (x j) := by
  have h := C03.diff_jacobian_is_second_derivative (envOf states ρ₀ x) states ode i l j hi hl hj hdef
  rw [envOf_state states hnd ρ₀ x j hj] at h
  simpa only [JE, DJE, envOf_update states hnd ρ₀ x j hj] using h

/-- C13's `hG` from C03 `grad_jacobian_is_mixed_derivative` (`ode.length = nS`: one equation per state) -/
theorem GE_hasDerivAt (hnd : states.Nodup) (hlen : ode.length = states.length) (x : ℕ → ℝ) (i k j : ℕ)
    (hi : i < ode.length) (hk : k < params.length) (hj : j < states.length)
    (hdef : defined (envOf states ρ₀ x) ode[i]) :
    HasDerivAt (fun v => GE states params ode ρ₀ (update x j v) i k)
      (GJE states params ode ρ₀ x (k * states.length + i) j) (x j) := by
  have h := C03.grad_jacobian_is_mixed_derivative (envOf states ρ₀ x) states params ode k i j hk hi hj hdef
  rw [envOf_state states hnd ρ₀ x j hj, hlen] at h
  simpa only [GE, GJE, envOf_update states hnd ρ₀ x j hj] using h

/-- C13's `hsym` from `diff_comm`: `∂²f_e/∂x_a∂x_b = ∂²f_e/∂x_b∂x_a` in the stacked matrix -/
theorem DJE_symm (x : ℕ → ℝ) (e a b : ℕ) (he : e < ode.length) (ha : a < states.length) (hb : b < states.length) :
    DJE states ode ρ₀ x (e * states.length + a) b = DJE states ode ρ₀ x (e * states.length + b) a := by
  simp only [DJE, C03.diffJacobian_entry states ode e a b he ha hb, C03.diffJacobian_entry states ode e b a he hb ha]
  exact eval_diff_comm realI _ _ _ _

/-- away from singularities everywhere: every equation is `defined` at every state vector (true of polynomial /
`exp` / `sin` / `cos` right-hand sides; C13's theorems quantify their hypotheses over all `x`, which is why this
form is what they can be fed with - the pointwise form is `*_expr_at` below) -/
def DefinedEverywhere : Prop := ∀ (x : ℕ → ℝ) (i : ℕ) (hi : i < ode.length), defined (envOf states ρ₀ x) ode[i]

/-- **by parameter, no derivative hypotheses left.** -/
theorem aug_jacobian_is_derivative_expr (hnd : states.Nodup) (hlen : ode.length = states.length)
    (hdef : DefinedEverywhere states ode ρ₀)
    (z : ℕ → ℝ) (r c : ℕ) (hr : r < states.length + states.length * params.length)
    (hc : c < states.length + states.length * params.length) :
    HasDerivAt (fun v => C13.augRhs states.length params.length (fE states ode ρ₀) (JE states ode ρ₀)
        (GE states params ode ρ₀) false (update z c v) r)
      (Sens.odeAndSensitivityJacobian states.length params.length (JE states ode ρ₀ z) (GJE states params ode ρ₀ z)
        (DJE states ode ρ₀ z) z false r c) (z c) :=
  C13.aug_jacobian_is_derivative states.length params.length (fE states ode ρ₀) (JE states ode ρ₀)
    (GE states params ode ρ₀) (DJE states ode ρ₀) (GJE states params ode ρ₀)
    (fun x c v hc => fE_local states ode ρ₀ x c v hc)
    (fun x c v hc => JE_local states ode ρ₀ x c v hc)
    (fun x c v hc => GE_local states params ode ρ₀ x c v hc)
    (fun x i j hi hj => fE_hasDerivAt states ode ρ₀ hnd x i j (hlen ▸ hi) hj (hdef x i (hlen ▸ hi)))
    (fun x i l j hi hl hj => JE_hasDerivAt states ode ρ₀ hnd x i l j (hlen ▸ hi) hl hj (hdef x i (hlen ▸ hi)))
    (fun x i k j hi hk hj =>
      GE_hasDerivAt states params ode ρ₀ hnd hlen x i k j (hlen ▸ hi) hk hj (hdef x i (hlen ▸ hi)))
    (fun x e a b he ha hb => DJE_symm states ode ρ₀ x e a b (hlen ▸ he) ha hb)
    z r c hr hc

/-- **initial-value system, no derivative hypotheses left** (every `nP`, `nP = 0` included). -/
theorem aug_jacobianIV_is_derivative_expr (hnd : states.Nodup) (hlen : ode.length = states.length)
    (hdef : DefinedEverywhere states ode ρ₀)
    (z : ℕ → ℝ) (r c : ℕ)
    (hr : r < states.length + states.length * params.length + states.length * states.length)
    (hc : c < states.length + states.length * params.length + states.length * states.length) :
    HasDerivAt (fun v => C13.augRhsIV states.length params.length (fE states ode ρ₀) (JE states ode ρ₀)
        (GE states params ode ρ₀) (update z c v) r)
      (Sens.odeAndSensitivityIVJacobian states.length params.length (JE states ode ρ₀ z) (GJE states params ode ρ₀ z)
        (DJE states ode ρ₀ z) z r c) (z c) :=
  C13.aug_jacobianIV_is_derivative states.length params.length (fE states ode ρ₀) (JE states ode ρ₀)
    (GE states params ode ρ₀) (DJE states ode ρ₀) (GJE states params ode ρ₀)
    (fun x c v hc => fE_local states ode ρ₀ x c v hc)
    (fun x c v hc => JE_local states ode ρ₀ x c v hc)
    (fun x c v hc => GE_local states params ode ρ₀ x c v hc)
    (fun x i j hi hj => fE_hasDerivAt states ode ρ₀ hnd x i j (hlen ▸ hi) hj (hdef x i (hlen ▸ hi)))
    (fun x i l j hi hl hj => JE_hasDerivAt states ode ρ₀ hnd x i l j (hlen ▸ hi) hl hj (hdef x i (hlen ▸ hi)))
    (fun x i k j hi hk hj =>
      GE_hasDerivAt states params ode ρ₀ hnd hlen x i k j (hlen ▸ hi) hk hj (hdef x i (hlen ▸ hi)))
    (fun x e a b he ha hb => DJE_symm states ode ρ₀ x e a b (hlen ▸ he) ha hb)
    z r c hr hc

/-- **by state, repaired arrangement, no derivative hypotheses left.** -/
theorem aug_jacobian_by_state_repaired_is_derivative_expr (hnd : states.Nodup) (hlen : ode.length = states.length)
    (hdef : DefinedEverywhere states ode ρ₀)
    (z : ℕ → ℝ) (r c : ℕ) (hr : r < states.length + states.length * params.length)
    (hc : c < states.length + states.length * params.length) :
    HasDerivAt (fun v => C13.augRhs states.length params.length (fE states ode ρ₀) (JE states ode ρ₀)
        (GE states params ode ρ₀) true (update z c v) r)
      (Sens.odeAndSensitivityJacobianByStateRepaired states.length params.length (JE states ode ρ₀ z)
        (GJE states params ode ρ₀ z) (DJE states ode ρ₀ z) z r c) (z c) :=
  C13.aug_jacobian_by_state_repaired_is_derivative states.length params.length (fE states ode ρ₀) (JE states ode ρ₀)
    (GE states params ode ρ₀) (DJE states ode ρ₀) (GJE states params ode ρ₀)
    (fun x c v hc => fE_local states ode ρ₀ x c v hc)
    (fun x c v hc => JE_local states ode ρ₀ x c v hc)
    (fun x c v hc => GE_local states params ode ρ₀ x c v hc)
    (fun x i j hi hj => fE_hasDerivAt states ode ρ₀ hnd x i j (hlen ▸ hi) hj (hdef x i (hlen ▸ hi)))
    (fun x i l j hi hl hj => JE_hasDerivAt states ode ρ₀ hnd x i l j (hlen ▸ hi) hl hj (hdef x i (hlen ▸ hi)))
    (fun x i k j hi hk hj =>
      GE_hasDerivAt states params ode ρ₀ hnd hlen x i k j (hlen ▸ hi) hk hj (hdef x i (hlen ▸ hi)))
    (fun x e a b he ha hb => DJE_symm states ode ρ₀ x e a b (hlen ▸ he) ha hb)
    z r c hr hc

end inst

end C13Link
end Pygom
