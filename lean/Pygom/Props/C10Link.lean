/-
C10Link - C10's path conservation theorem connected to the stochastic jump model (Pygom/Stoch.lean).

C10 `path_sum_const` is about an abstract path (`scanl` of `C10.applyCounts` over integer vectors and a fixed integer
matrix).  Here the statement is proved of the paths the MODEL of `_jump` produces (`Stoch.run`), through C04's
increment theorems (`path_increment`, `path_increment_event_only`):

* `stoch_path_sum_const`     : event-only model (no explicit ODE term), every column of `vMat(x,t)` sums to zero at
                               every `(x,t)`  =>  every recorded state of every path (any list of iteration inputs,
                               exact or tau-leap with the first-reaction fall-back) has the component sum of `x0`
* `stoch_path_sum_const_int` : the same with the columns given as integers (magnitudes of pygom transitions)
* `stoch_final_sum_const`    : ... and so has the state the loop ends in
* `zeroSumCols_of_transitionOnly`, `stoch_path_sum_const_model` : the hypothesis holds for every transition-only
                               model (C10 `vmat_col_sum_zero`), symbolic magnitudes included
* `stoch_path_eq_c10_path`   : for a constant integer matrix and an integer `x0` the model's path IS C10's abstract
                               path run on the recorded counts, so C10 `path_sum_const` applies to it literally
                               (`stoch_path_sum_const_via_c10`)

Which `V`: the model's state-change matrix is `(c.ev x t).cols`, the value of `vMat(x,t)` by columns, a function of
`(x,t)`; the hypothesis `ZeroSumCols c n` says that for EVERY state vector `x` of length `n` and every `t` each column
has `n` entries and sums to zero (for pygom: C10 `vmat_col_sum_zero`, every transition-only model).
-/
import Pygom.Props.C04
import Pygom.Props.C10

set_option linter.unusedSimpArgs false
set_option linter.unusedVariables false

namespace Pygom
namespace C10Link
open Pygom.Stoch

/-! ### vocabulary -/

/-- no explicit ODE term: `pureOdeVector(x,t)` is zero everywhere -/
def EventOnly (c : Cfg) : Prop := ∀ x t, ∀ v ∈ (c.ev x t).pure, v = 0

/-- every column of `vMat(x,t)` has one entry per state and sums to zero, at every state vector of length `n`
and every time -/
def ZeroSumCols (c : Cfg) (n : Nat) : Prop :=
  ∀ (x : Vec) (t : Rat), x.length = n → ∀ col ∈ (c.ev x t).cols, col.length = n ∧ col.sum = 0

/-! ### sums of components as sums over indices (C10's `sumStates`) -/

theorem sumStates_congr (n : Nat) (g h : Nat → Rat) (hgh : ∀ s, s < n → g s = h s) :
    C10.sumStates n g = C10.sumStates n h := by
  unfold C10.sumStates
  congr 1
  apply List.map_congr_left
  intro s hs
  exact hgh s (List.mem_range.mp hs)

theorem sum_eq_sumStates (x : Vec) : x.sum = C10.sumStates x.length (fun s => x.getD s 0) := by
  unfold C10.sumStates
  congr 1
  apply List.ext_getElem
  · simp
  · intro i h1 h2
    simp [List.getD_eq_getElem?_getD, h1]

theorem Steps_and {P Q : Vec → Rat → Rec → Prop} :
    ∀ (recs : List Rec) (x : Vec) (t : Rat), Steps P x t recs → Steps Q x t recs →
      Steps (fun x t r => P x t r ∧ Q x t r) x t recs := by
  intro recs
  induction recs with
  | nil => intro x t _ _; trivial
  | cons r rs ih => intro x t hp hq; exact ⟨⟨hp.1, hq.1⟩, ih r.x r.t hp.2 hq.2⟩

/-- `Σ_s (V·counts)[s] = Σ_j counts[j] · Σ_s V[s,j] = 0` for zero-sum columns of full length -/
theorem sum_mulVec_zero (n : Nat) (cols : List Vec) (counts : List Nat)
    (hcols : ∀ col ∈ cols, col.length = n ∧ col.sum = 0) :
    C10.sumStates n (fun s => mulVec cols counts s) = 0 := by
  unfold mulVec
  rw [C10.sumStates_listSum n (cols.zip counts) (fun cn s => cn.1.getD s 0 * (cn.2 : Rat))]
  apply List.sum_eq_zero
  intro v hv
  simp only [List.mem_map] at hv
  obtain ⟨cn, hcn, rfl⟩ := hv
  obtain ⟨hl, hz⟩ := hcols cn.1 (List.of_mem_zip hcn).1
  rw [C10.sumStates_mul_right, ← hl, ← sum_eq_sumStates, hz, zero_mul]

/-- one recorded step keeps the total -/
theorem step_sum_const (x : Vec) (cols : List Vec) (r : Rec)
    (hcols : ∀ col ∈ cols, col.length = x.length ∧ col.sum = 0)
    (hlen : r.x.length = x.length)
    (hinc : ∀ s, s < x.length → r.x.getD s 0 - x.getD s 0 = mulVec cols r.counts s) :
    r.x.sum = x.sum := by
  rw [sum_eq_sumStates r.x, hlen,
    sumStates_congr x.length (fun s => r.x.getD s 0) (fun s => x.getD s 0 + mulVec cols r.counts s)
      (fun s hs => by have := hinc s hs; linarith),
    C10.sumStates_add, ← sum_eq_sumStates, sum_mulVec_zero x.length cols r.counts hcols, add_zero]

/-- from step-wise conservation to every recorded state -/
theorem steps_sum_const (c : Cfg) (n : Nat) (hV : ZeroSumCols c n) :
    ∀ (recs : List Rec) (x : Vec) (t : Rat) (S : Rat), x.length = n → x.sum = S →
      Steps (fun x t r => r.x.length = x.length ∧
        ∀ s, s < x.length → r.x.getD s 0 - x.getD s 0 = mulVec (c.ev x t).cols r.counts s) x t recs →
      ∀ y ∈ pathStates x recs, y.length = n ∧ y.sum = S := by
  intro recs
  induction recs with
  | nil =>
    intro x t S hl hs _ y hy
    simp only [pathStates, List.map_nil, List.mem_singleton] at hy
    subst hy; exact ⟨hl, hs⟩
  | cons r rs ih =>
    intro x t S hl hs hsteps y hy
    simp only [pathStates, List.map_cons, List.mem_cons] at hy
    obtain ⟨⟨hrl, hinc⟩, hrest⟩ := hsteps
    have hrs : r.x.sum = x.sum :=
      step_sum_const x (c.ev x t).cols r (fun col hcol => by rw [hl]; exact hV x t hl col hcol) hrl hinc
    rcases hy with rfl | hy
    · exact ⟨hl, hs⟩
    · exact ih r.x r.t S (hrl.trans hl) (hrs.trans hs) hrest y (by simpa [pathStates] using hy)

/-! ### the theorem -/

/-- **stoch_path_sum_const.**  Event-only jump model whose state-change matrix has zero-sum columns at every `(x,t)`:
EVERY recorded state of EVERY path - any list `is` of iteration inputs (Poisson and exponential variates), any
length, `exact = true` (first reaction) or `false` (tau-leap with the first-reaction fall-back), any settings
(limits, `pre_tau`, `ε`) - has the length and the component sum of `x0`. -/
theorem stoch_path_sum_const (c : Cfg) (exact : Bool) (is : List IterIn) (x0 : Vec) (t0 : Rat)
    (hpure : EventOnly c) (hV : ZeroSumCols c x0.length) :
    ∀ x ∈ pathStates x0 (run c exact x0 t0 is), x.length = x0.length ∧ x.sum = x0.sum := by
  have h1 := C04.path_increment c exact is x0 t0
  have h2 := C04.path_increment_event_only c exact is x0 t0 hpure
  have h3 := Steps.mono (Q := fun x t r => r.x.length = x.length ∧
        ∀ s, s < x.length → r.x.getD s 0 - x.getD s 0 = mulVec (c.ev x t).cols r.counts s)
    (fun x t r h => ⟨h.1.1, h.2⟩) _ _ _ (Steps_and _ _ _ h1 h2)
  exact steps_sum_const c x0.length hV _ x0 t0 x0.sum rfl rfl h3

/-- the state the `_jump` loop ends in has the total of `x0` -/
theorem stoch_final_sum_const (c : Cfg) (exact : Bool) (is : List IterIn) (x0 : Vec) (t0 : Rat)
    (hpure : EventOnly c) (hV : ZeroSumCols c x0.length) :
    (finalState c exact x0 t0 is).1.sum = x0.sum := by
  rw [C04.finalState_eq_last]
  refine (stoch_path_sum_const c exact is x0 t0 hpure hV _ ?_).2
  simp only [pathStates]
  exact List.getLastD_mem_cons

/-! ### integer columns (pygom magnitudes) -/

/-- an integer vector read as a rational one -/
def castVec (x : List Int) : Vec := List.map (Int.cast : Int → Rat) x

theorem castVec_length (x : List Int) : (castVec x).length = x.length := by simp [castVec]

theorem castVec_sum (x : List Int) : (castVec x).sum = ((x.sum : Int) : Rat) := by
  induction x with
  | nil => simp [castVec]
  | cons a x ih => simp only [castVec, List.map_cons, List.sum_cons, Int.cast_add] at ih ⊢; rw [ih]

theorem castVec_getD (x : List Int) (s : Nat) : (castVec x).getD s 0 = ((x.getD s 0 : Int) : Rat) := by
  simp only [castVec, List.getD_eq_getElem?_getD, List.getElem?_map]
  cases x[s]? <;> simp

/-- **stoch_path_sum_const_int.**  The same, the state-change matrix being given by integer columns `V(x,t)` (the
magnitudes of pygom's transitions) each summing to zero. -/
theorem stoch_path_sum_const_int (c : Cfg) (exact : Bool) (is : List IterIn) (x0 : Vec) (t0 : Rat)
    (V : Vec → Rat → List (List Int)) (hcols : ∀ x t, (c.ev x t).cols = (V x t).map castVec)
    (hpure : EventOnly c)
    (hV : ∀ (x : Vec) (t : Rat), x.length = x0.length → ∀ col ∈ V x t, col.length = x0.length ∧ col.sum = 0) :
    ∀ x ∈ pathStates x0 (run c exact x0 t0 is), x.length = x0.length ∧ x.sum = x0.sum := by
  apply stoch_path_sum_const c exact is x0 t0 hpure
  intro x t hx col hcol
  rw [hcols x t] at hcol
  simp only [List.mem_map] at hcol
  obtain ⟨ci, hci, rfl⟩ := hcol
  obtain ⟨h1, h2⟩ := hV x t hx ci hci
  exact ⟨by rw [castVec_length, h1], by rw [castVec_sum, h2]; simp⟩

/-! ### the model's path is C10's abstract path (constant integer matrix) -/

theorem c10_fold_spec (l : List (List Int × Int)) (x : List Int) (hl : ∀ cc ∈ l, cc.1.length = x.length) :
    (l.foldl (fun acc cc => List.zipWith (fun a v => a + v * cc.2) acc cc.1) x).length = x.length ∧
    ∀ s, (l.foldl (fun acc cc => List.zipWith (fun a v => a + v * cc.2) acc cc.1) x).getD s 0
        = x.getD s 0 + (l.map (fun cc => cc.1.getD s 0 * cc.2)).sum := by
  induction l generalizing x with
  | nil => simp
  | cons cc l ih =>
    have hcc : cc.1.length = x.length := hl cc (by simp)
    have hz : (List.zipWith (fun a v => a + v * cc.2) x cc.1).length = x.length := by simp [hcc]
    obtain ⟨ih1, ih2⟩ := ih (List.zipWith (fun a v => a + v * cc.2) x cc.1)
      (fun c hc => by rw [hz]; exact hl c (by simp [hc]))
    simp only [List.foldl_cons, List.map_cons, List.sum_cons]
    refine ⟨ih1.trans hz, fun s => ?_⟩
    rw [ih2 s]
    have : (List.zipWith (fun a v => a + v * cc.2) x cc.1).getD s 0 = x.getD s 0 + cc.1.getD s 0 * cc.2 := by
      simp only [List.getD_eq_getElem?_getD, List.getElem?_zipWith]
      by_cases hs : s < x.length
      · have hs' : s < cc.1.length := by omega
        simp [List.getElem?_eq_getElem hs, List.getElem?_eq_getElem hs']
      · have hs' : ¬ s < cc.1.length := by omega
        simp [List.getElem?_eq_none (not_lt.mp hs), List.getElem?_eq_none (not_lt.mp hs')]
    rw [this]; ring

/-- `V·counts` over the rationals is the cast of the integer sum C10's step adds -/
theorem mulVec_cast (V : List (List Int)) (counts : List Nat) (s : Nat) :
    mulVec (V.map castVec) counts s
      = ((((V.zip (counts.map Int.ofNat)).map (fun cc => cc.1.getD s 0 * cc.2)).sum : Int) : Rat) := by
  induction V generalizing counts with
  | nil => simp [mulVec]
  | cons col V ih =>
    cases counts with
    | nil => simp [mulVec]
    | cons n counts =>
      simp only [List.map_cons, mulVec_cons, List.zip_cons_cons, List.sum_cons, Int.cast_add, Int.cast_mul, ih counts,
        castVec_getD]
      simp

theorem ext_getD {x y : Vec} (hl : x.length = y.length) (h : ∀ s, s < x.length → x.getD s 0 = y.getD s 0) : x = y := by
  apply List.ext_getElem hl
  intro i h1 h2
  have := h i h1
  simpa [List.getD_eq_getElem?_getD, List.getElem?_eq_getElem h1, List.getElem?_eq_getElem h2] using this

/-- one recorded step of the model is one step of C10's `applyCounts` -/
theorem step_eq_c10 (xI : List Int) (V : List (List Int)) (r : Rec)
    (hV : ∀ col ∈ V, col.length = xI.length)
    (hlen : r.x.length = (castVec xI).length)
    (hinc : ∀ s, s < (castVec xI).length →
      r.x.getD s 0 - (castVec xI).getD s 0 = mulVec (V.map castVec) r.counts s) :
    r.x = castVec (C10.applyCounts xI V (r.counts.map Int.ofNat)) := by
  obtain ⟨h1, h2⟩ := c10_fold_spec (V.zip (r.counts.map Int.ofNat)) xI
    (fun cc hcc => hV _ (List.of_mem_zip hcc).1)
  apply ext_getD
  · rw [hlen, castVec_length, castVec_length]; exact h1.symm
  · intro s hs
    have := hinc s (by rw [← hlen]; exact hs)
    rw [mulVec_cast, castVec_getD] at this
    rw [castVec_getD]
    unfold C10.applyCounts
    rw [h2 s, Int.cast_add]
    linarith

/-- **stoch_path_eq_c10_path.**  Event-only model with a constant integer state-change matrix `V`, integer initial
state: the recorded states of every path are exactly C10's abstract path (`scanl` of `C10.applyCounts`) run on the
recorded per-step counts. -/
theorem stoch_path_eq_c10_path (c : Cfg) (exact : Bool) (is : List IterIn) (xI : List Int) (t0 : Rat)
    (V : List (List Int)) (hcols : ∀ x t, (c.ev x t).cols = V.map castVec) (hpure : EventOnly c)
    (hV : ∀ col ∈ V, col.length = xI.length) :
    pathStates (castVec xI) (run c exact (castVec xI) t0 is)
      = (((pathCounts (run c exact (castVec xI) t0 is)).map (·.map Int.ofNat)).scanl
          (fun x counts => C10.applyCounts x V counts) xI).map castVec := by
  have h1 := C04.path_increment c exact is (castVec xI) t0
  have h2 := C04.path_increment_event_only c exact is (castVec xI) t0 hpure
  have h3 := Steps_and _ _ _ h1 h2
  generalize run c exact (castVec xI) t0 is = recs at h3 ⊢
  clear h1 h2
  induction recs generalizing xI t0 with
  | nil => simp [pathStates, pathCounts]
  | cons r rs ih =>
    obtain ⟨⟨⟨hl, _⟩, hinc⟩, hrest⟩ := h3
    rw [hcols] at hinc
    have hr := step_eq_c10 xI V r hV hl hinc
    have hlen' : ∀ col ∈ V, col.length = (C10.applyCounts xI V (r.counts.map Int.ofNat)).length := by
      intro col hcol
      rw [hV col hcol]
      exact (c10_fold_spec (V.zip (r.counts.map Int.ofNat)) xI (fun cc hcc => hV _ (List.of_mem_zip hcc).1)).1.symm
    rw [hr] at hrest
    have := ih (C10.applyCounts xI V (r.counts.map Int.ofNat)) r.t hlen' hrest
    simp only [pathStates, pathCounts, List.map_cons, List.scanl_cons] at this ⊢
    rw [hr]
    exact congrArg (castVec xI :: ·) this

/-- **C10 `path_sum_const` applied to the model's paths, literally**: constant integer matrix with zero-sum
columns, integer `x0`. -/
theorem stoch_path_sum_const_via_c10 (c : Cfg) (exact : Bool) (is : List IterIn) (xI : List Int) (t0 : Rat)
    (V : List (List Int)) (hcols : ∀ x t, (c.ev x t).cols = V.map castVec) (hpure : EventOnly c)
    (hV : ∀ col ∈ V, col.length = xI.length) (hzero : ∀ col ∈ V, col.sum = 0) :
    ∀ x ∈ pathStates (castVec xI) (run c exact (castVec xI) t0 is), x.sum = ((xI.sum : Int) : Rat) := by
  rw [stoch_path_eq_c10_path c exact is xI t0 V hcols hpure hV]
  intro x hx
  simp only [List.mem_map] at hx
  obtain ⟨y, hy, rfl⟩ := hx
  rw [castVec_sum, C10.path_sum_const xI V _ hV hzero y hy]

/-! ### where the hypothesis comes from: C10 `vmat_col_sum_zero` -/

/-- `vMat(x,t)` by columns: the state-change matrix `get_StateChangeMatrix` of resolved events (Pygom/Model.lean
`vmatColsR`) evaluated over the rationals in an environment `ρ` (any interpretation of the transcendental symbols) -/
def evalCols (I : Expr.FnInterp Rat) (ρ : String → Rat) (n : Nat) (evs : List REvent) : List Vec :=
  (vmatColsR n evs).map (fun col => (List.range n).map (comp I ρ col))

/-- a transition-only model (every transition of type `T`, state indices in range; symbolic magnitudes allowed)
has zero-sum columns at every `(x,t)`, whatever environment `env x t` the state and time are bound in -/
theorem zeroSumCols_of_transitionOnly (c : Cfg) (n : Nat) (evs : List REvent) (I : Expr.FnInterp Rat)
    (env : Vec → Rat → String → Rat) (hT : C10.TransitionOnly evs) (hwf : C01.WF n evs)
    (hcols : ∀ x t, (c.ev x t).cols = evalCols I (env x t) n evs) : ZeroSumCols c n := by
  intro x t _ col hcol
  rw [hcols x t] at hcol
  simp only [evalCols, vmatColsR, List.map_map, List.mem_map, Function.comp] at hcol
  obtain ⟨ev, hev, rfl⟩ := hcol
  refine ⟨by simp, ?_⟩
  exact C10.vmat_col_sum_zero I (env x t) n ev (hT ev hev) (hwf ev hev)

/-- **stoch_path_sum_const_model.**  Closed compartmental model (transition-only events, no explicit ODE term):
every recorded state of every stochastic path has the total of `x0`. -/
theorem stoch_path_sum_const_model (c : Cfg) (exact : Bool) (is : List IterIn) (x0 : Vec) (t0 : Rat)
    (evs : List REvent) (I : Expr.FnInterp Rat) (env : Vec → Rat → String → Rat)
    (hT : C10.TransitionOnly evs) (hwf : C01.WF x0.length evs)
    (hcols : ∀ x t, (c.ev x t).cols = evalCols I (env x t) x0.length evs) (hpure : EventOnly c) :
    ∀ x ∈ pathStates x0 (run c exact x0 t0 is), x.length = x0.length ∧ x.sum = x0.sum :=
  stoch_path_sum_const c exact is x0 t0 hpure (zeroSumCols_of_transitionOnly c x0.length evs I env hT hwf hcols)

/-! ### non-vacuity: SIR with integer magnitudes (`S → I` at `β S I`, `I → R` at `γ I`, `β = 1/10`, `γ = 1/2`) -/

def sirCfg : Cfg :=
  { ev := fun x _ =>
      { rates := [x.getD 0 0 * x.getD 1 0 / 10, x.getD 1 0 / 2],
        cols := [[-1, 1, 0], [0, -1, 1]], pure := [0, 0, 0],
        mu := [0, 0], sigma2 := [0, 0] },
    set := { lims := [(some 0, none), (some 0, none), (some 0, none)], react := [[1, 1, 0], [0, 1, 0]],
             eps := 3 / 100, preTau := some (1 / 4) },
    finalT := 10 }

theorem sir_eventOnly : EventOnly sirCfg := by
  intro x t v hv; simp [sirCfg] at hv; exact hv

theorem sir_zeroSumCols : ZeroSumCols sirCfg 3 := by
  intro x t _ col hcol
  simp only [sirCfg, List.mem_cons, List.not_mem_nil, or_false] at hcol
  rcases hcol with rfl | rfl <;> exact ⟨rfl, by norm_num⟩

/-- the hypotheses hold for SIR, for every draw list and both modes ... -/
example (exact : Bool) (is : List IterIn) :
    ∀ x ∈ pathStates [5, 1, 0] (run sirCfg exact [5, 1, 0] 0 is), x.sum = 6 := fun x hx =>
  ((stoch_path_sum_const sirCfg exact is [5, 1, 0] 0 sir_eventOnly sir_zeroSumCols x hx).2).trans (by norm_num)

/-- ... the same through C10's own theorem ... -/
example (exact : Bool) (is : List IterIn) :
    ∀ x ∈ pathStates (castVec [5, 1, 0]) (run sirCfg exact (castVec [5, 1, 0]) 0 is), x.sum = 6 := fun x hx =>
  (stoch_path_sum_const_via_c10 sirCfg exact is [5, 1, 0] 0 [[-1, 1, 0], [0, -1, 1]] (fun _ _ => rfl) sir_eventOnly
    (by decide) (by decide) x hx).trans (by norm_num)

/-- ... and the paths are not trivial: two first-reaction steps (an infection, then a recovery), and a tau-leap step
with Poisson variates (2, 1) -/
example : (run sirCfg true [5, 1, 0] 0 [⟨[], [1/2, 1]⟩, ⟨[], [2, 1/4]⟩]).map (fun r => (r.x, r.counts))
    = [([4, 2, 0], [1, 0]), ([4, 1, 1], [0, 1])] := by decide +kernel

example : (run sirCfg false [5, 1, 0] 0 [⟨[2, 1], []⟩]).map (fun r => (r.x, r.counts, r.branch))
    = [([3, 2, 1], [2, 1], .tau)] := by decide +kernel

end C10Link
end Pygom
