/-
C04 — every simulated path is a legal walk of the model's events.

Property theorems about the executable model `Pygom/Stoch.lean` (helper lemmas in Pygom/Lemmas/Stoch.lean).
A path is what `_jump` returns: the initial record `(x0, t0)` followed by `run c exact x0 t0 is`, where `is` is
the list of random inputs of the successive loop iterations (ANY list, any length: "for all seeds") and
`c.ev x t` are the values of the compiled evaluators at `(x, t)` (ANY functions: "for all models").
`Steps P x0 t0 recs` says that `P x t r` holds for every record `r`, `(x, t)` being the record before it.
-/
import Pygom.Lemmas.Stoch

set_option linter.unusedSimpArgs false
set_option linter.unnecessarySeqFocus false
set_option linter.unusedVariables false

namespace Pygom.C04
open Pygom Pygom.Stoch

/-- every exponential variate handed to the loop is positive -/
def PosDraws (is : List IterIn) : Prop := ∀ i ∈ is, ∀ a ∈ i.expo, 0 < a

/-- `ε > 0`, a 0/1 reactant matrix, a positive `pre_tau` if one is set (a hypothesis about the user's setting),
non-negative rates and variances -/
structure GoodCfg (c : Cfg) : Prop where
  settings : GoodSettings c.set
  evals : ∀ x t, GoodEval (c.ev x t)

/-- **path_start.**  The returned arrays start with the initial state and time, and have matching lengths
(one count vector per step). -/
theorem path_start (c : Cfg) (exact : Bool) (is : List IterIn) (x0 : Vec) (t0 : Rat) :
    let recs := run c exact x0 t0 is
    (pathStates x0 recs).head? = some x0 ∧ (pathTimes t0 recs).head? = some t0 ∧
    (pathStates x0 recs).length = (pathTimes t0 recs).length ∧
    (pathCounts recs).length + 1 = (pathTimes t0 recs).length := by
  simp [pathStates, pathTimes, pathCounts]

/-- the adaptive step of `_get_adaptive_tau_step` is positive when `ε > 0`, the rates are non-negative and
not all zero, and the variances are non-negative -/
theorem adaptiveTau_pos {eps : Rat} {rates mu sigma2 : List Rat} (heps : 0 < eps)
    (hr : ∀ r ∈ rates, 0 ≤ r) (hnz : allZero rates = false) (hs : ∀ v ∈ sigma2, 0 ≤ v) :
    0 < adaptiveTau eps rates mu sigma2 := Stoch.adaptiveTau_pos heps hr hnz hs

/-- the variance vector `σ²_i = Σ_j F_ij² a_j` of `get_TransitionVar` is non-negative when the rates are -/
theorem sigma2_nonneg_of_rates_nonneg (Frow rates : List Rat) (hr : ∀ r ∈ rates, 0 ≤ r) :
    0 ≤ (List.zipWith (fun f a => f * f * a) Frow rates).sum := by
  apply List.sum_nonneg
  intro v hv
  obtain ⟨n, hn, rfl⟩ := List.mem_iff_getElem.mp hv
  simp only [List.getElem_zipWith]
  exact mul_nonneg (mul_self_nonneg _) (hr _ (List.getElem_mem _))

/-- the cython safety loop returns the step size it was given (the loss matrix built from a 0/1 reactant
matrix is all zero), whatever the Poisson cdf -/
theorem safety_loop_is_identity (s : Settings) (e : Eval) (x : Vec) (hs : GoodSettings s) :
    tauOf s e x = some (match s.preTau with | none => adaptiveTau s.eps e.rates e.mu e.sigma2 | some p => p) := by
  unfold tauOf
  simp only
  rw [safetyLoop_noop _ _ _ _ _ _ 257 (lossMat_zero s.react hs.react01) (le_of_lt hs.eps_pos)]
  cases s.preTau <;> rfl

/-- **path_times_increasing.**  Recorded times are strictly increasing, in both modes, for every draw list with
positive exponential variates. -/
theorem path_times_increasing (c : Cfg) (exact : Bool) (is : List IterIn) (x0 : Vec) (t0 : Rat)
    (hc : GoodCfg c) (hd : PosDraws is) :
    (pathTimes t0 (run c exact x0 t0 is)).Pairwise (· < ·) := by
  suffices H : ∀ (is : List IterIn), PosDraws is → ∀ (x : Vec) (t : Rat),
      (∀ r ∈ run c exact x t is, t < r.t) ∧ ((run c exact x t is).map (·.t)).Pairwise (· < ·) by
    obtain ⟨h1, h2⟩ := H is hd x0 t0
    simp only [pathTimes, List.pairwise_cons, List.mem_map]
    exact ⟨by rintro a ⟨r, hr, rfl⟩; exact h1 r hr, h2⟩
  intro is
  induction is with
  | nil => intro _ x t; simp [run]
  | cons i is ih =>
    intro hd x t
    unfold run
    split
    · split
      · simp
      · rename_i r hstep
        have hlt := (iter_next_later hc.settings (hc.evals x t) (hd i (by simp)) hstep).2
        obtain ⟨h1, h2⟩ := ih (fun j hj => hd j (by simp [hj])) r.x r.t
        constructor
        · intro r' hr'
          simp only [List.mem_cons] at hr'
          rcases hr' with rfl | hr'
          · exact hlt
          · exact lt_trans hlt (h1 r' hr')
        · simp only [List.map_cons, List.pairwise_cons, List.mem_map]
          exact ⟨by rintro a ⟨r', hr', rfl⟩; exact h1 r' hr', h2⟩
    · simp

theorem onehot_sum (n k : Nat) (hk : k < n) : (onehot n k).sum = 1 := by
  induction n generalizing k with
  | zero => omega
  | succ n ih =>
    cases k with
    | zero => simp [onehot, List.replicate_succ]
    | succ k =>
      have : onehot (n + 1) (k + 1) = 0 :: onehot n k := by simp [onehot, List.replicate_succ]
      rw [this]; simpa using ih k (by omega)

/-- **path_counts.**  Every step reports one natural number per event; a first-reaction step (every step in
exact mode) reports a one-hot vector: exactly one event, and that event has a positive rate at the pre-state
(it can fire); a tau-leap step reports the Poisson variates it drew. -/
theorem path_counts (c : Cfg) (exact : Bool) (is : List IterIn) (x0 : Vec) (t0 : Rat) :
    Steps (fun x t r =>
      r.counts.length = (c.ev x t).rates.length ∧
      (exact = true → r.branch = .exact) ∧
      (r.branch ≠ .tau → ∃ k, k < (c.ev x t).rates.length ∧ r.counts = onehot (c.ev x t).rates.length k ∧ r.counts.sum = 1 ∧
          ∃ rk, (c.ev x t).rates[k]? = some rk ∧ 0 < rk))
      x0 t0 (run c exact x0 t0 is) := by
  apply run_steps
  intro x t i r _ _ h
  have sp := iter_next_spec h
  refine ⟨?_, sp.mode.1, ?_⟩
  · rcases sp.kind with ⟨_, k, hk, _, _, hc, _⟩ | ⟨_, _, _, hc, hlen, _⟩
    · rw [hc, onehot_length]
    · rw [hc, List.length_take]; omega
  · intro hb
    rcases sp.kind with ⟨_, k, hk, _, hpos, hc, _⟩ | ⟨hb', _⟩
    · exact ⟨k, hk, hc, by rw [hc]; exact onehot_sum _ _ hk, hpos⟩
    · exact absurd hb' hb

/-- "first reaction": the step taken is the one with the smallest drawn waiting time, the first such in event
order (`np.argmin`), among the events with a positive rate -/
theorem first_reaction_minimal {cols : List Vec} {rates : List Rat} {lims : List Lim} {x : Vec} {t : Rat}
    {expo : List Rat} {r : StepRes} (h : firstReaction cols rates lims x t expo = .checked r) :
    ∃ jt k, newJumpTimes rates expo = some jt ∧ argminOpt jt = some (k, r.dt) ∧ r.counts = onehot rates.length k ∧
      (∀ (j : Nat) (b : Rat), jt[j]? = some (some b) → r.dt ≤ b) ∧
      (∀ (j : Nat) (b : Rat), j < k → jt[j]? = some (some b) → r.dt < b) := by
  unfold firstReaction at h
  split at h
  · simp at h
  · split at h
    · simp at h
    · rename_i jt hjt
      split at h
      · simp at h
      · rename_i k dt harg
        simp only [Outcome.checked.injEq] at h
        subst h
        have hdt : (checkJump x (updateStateWithJump x cols k 1) lims t dt (onehot rates.length k)).dt = dt := by
          unfold checkJump; split <;> rfl
        have hc : (checkJump x (updateStateWithJump x cols k 1) lims t dt (onehot rates.length k)).counts = onehot rates.length k := by
          unfold checkJump; split <;> rfl
        rw [hdt, hc]
        exact ⟨jt, k, hjt, harg, rfl, (argminOpt_min harg).1, (argminOpt_min harg).2⟩

/-- **path_increment.**  For every step and every state component `s`:
`x_{k+1}[s] − x_k[s] = (V(x_k,t_k) · counts_k)[s]`, plus `pureOde(x_k,t_k)[s] · tau` on a tau-leap step
(the explicit-ODE summand; first-reaction steps have none). -/
theorem path_increment (c : Cfg) (exact : Bool) (is : List IterIn) (x0 : Vec) (t0 : Rat) :
    Steps (fun x t r => r.x.length = x.length ∧ ∀ s, s < x.length →
      r.x.getD s 0 - x.getD s 0
        = mulVec (c.ev x t).cols r.counts s
          + (if r.branch = .tau then (c.ev x t).pure.getD s 0 * r.dt else 0))
      x0 t0 (run c exact x0 t0 is) := by
  apply run_steps
  intro x t i r _ _ h
  have sp := iter_next_spec h
  refine ⟨sp.len, ?_⟩
  intro s hs
  rcases sp.kind with ⟨hb, k, hk, _, _, hc, hx⟩ | ⟨hb, _, _, _, _, hx⟩
  · rw [hx, hc, if_neg hb, mulVec_onehot _ _ _ _ hk, updateStateWithJump, vadd_getD _ _ _ hs, vscale_getD]
    ring
  · rw [if_pos hb, hx, vadd_getD _ _ _ (by rw [applyCounts_length]; exact hs), applyCounts_getD _ _ _ _ hs, vscale_getD]
    ring

/-- `path_increment` for event-only models (no explicit ODE term): every state change is the state-change
matrix times that step's counts, in both modes. -/
theorem path_increment_event_only (c : Cfg) (exact : Bool) (is : List IterIn) (x0 : Vec) (t0 : Rat)
    (hpure : ∀ x t, ∀ v ∈ (c.ev x t).pure, v = 0) :
    Steps (fun x t r => ∀ s, s < x.length → r.x.getD s 0 - x.getD s 0 = mulVec (c.ev x t).cols r.counts s)
      x0 t0 (run c exact x0 t0 is) := by
  refine Steps.mono ?_ _ _ _ (path_increment c exact is x0 t0)
  intro x t r ⟨_, h⟩ s hs
  rw [h s hs]
  have : (c.ev x t).pure.getD s 0 = 0 := by
    rw [List.getD_eq_getElem?_getD]
    cases hg : (c.ev x t).pure[s]? with
    | none => simp
    | some v => simpa using hpure x t v (List.mem_of_getElem? hg)
  rw [this]; simp

/-- the loop ends in the last recorded state -/
theorem finalState_eq_last (c : Cfg) (exact : Bool) (is : List IterIn) (x : Vec) (t : Rat) :
    finalState c exact x t is
      = (((run c exact x t is).map (·.x)).getLastD x, ((run c exact x t is).map (·.t)).getLastD t) := by
  induction is generalizing x t with
  | nil => simp [finalState, run]
  | cons i is ih =>
    unfold finalState run
    split
    · split
      · simp
      · rename_i r _
        rw [ih r.x r.t]; simp only [List.map_cons, List.getLastD_cons]
    · simp

/-- a `zero_rates` break happens exactly when every rate is zero -/
theorem stop_zeroRates_iff (s : Settings) (e : Eval) (exact : Bool) (x : Vec) (t : Rat) (i : IterIn) :
    iter s e exact x t i = .stop .zeroRates ↔ allZero e.rates = true := by
  have hfirst : ∀ b, ofFirst b (firstReaction e.cols e.rates s.lims x t i.expo) = .stop .zeroRates ↔ allZero e.rates = true := by
    intro b
    unfold firstReaction
    split
    · rename_i hz; simp [ofFirst, hz]
    · rename_i hz
      split
      · simp [ofFirst, hz]
      · split
        · simp [ofFirst, hz]
        · simp only [ofFirst]; split <;> simp [hz]
  unfold iter
  split
  · exact hfirst _
  · have htau : allZero e.rates = true → tauLeap s e x t i.pois = .zeroRates := by
      intro hz; simp [tauLeap, hz]
    constructor
    · intro h
      split at h
      · split at h
        · simp at h
        · exact (hfirst _).mp h
      · exact (hfirst _).mp h
      · simp at h
      · simp at h
      · simp at h
    · intro hz
      rw [htau hz]
      exact (hfirst _).mpr hz

/-- a `rejected` break means a first-reaction proposal `x + V[:, k]` left the limits -/
theorem stop_rejected (s : Settings) (e : Eval) (exact : Bool) (x : Vec) (t : Rat) (i : IterIn)
    (h : iter s e exact x t i = .stop .rejected) :
    ∃ k, k < e.rates.length ∧ failedJump s.lims (updateStateWithJump x e.cols k 1) = true := by
  have hfirst : ∀ b, ofFirst b (firstReaction e.cols e.rates s.lims x t i.expo) = .stop .rejected →
      ∃ k, k < e.rates.length ∧ failedJump s.lims (updateStateWithJump x e.cols k 1) = true := by
    intro b hb
    cases ho : firstReaction e.cols e.rates s.lims x t i.expo with
    | checked sr =>
      rw [ho] at hb
      simp only [ofFirst] at hb
      split at hb
      · simp at hb
      · rename_i hs
        obtain ⟨_, k, dt, hk, _, _, rfl⟩ := firstReaction_checked ho
        exact ⟨k, hk, (checkJump_failure (by simpa using hs)).1⟩
    | _ => rw [ho] at hb; simp [ofFirst] at hb
  unfold iter at h
  split at h
  · exact hfirst _ h
  · split at h
    · split at h
      · simp at h
      · exact hfirst _ h
    · exact hfirst _ h
    · simp at h
    · simp at h
    · simp at h

/-- **path_exit.**  How the loop is left, in terms of the last recorded state `(x_end, t_end)`:
* `horizon`: `t_end ≥ finalT` (the `while` condition failed);
* `stop w`: `t_end < finalT` and the iteration run from `(x_end, t_end)` broke with reason `w`
  (`zeroRates` ⇔ all rates are zero there — `stop_zeroRates_iff`; `rejected` ⇒ a first-reaction proposal left the
  limits — `stop_rejected`; `raises`: a step function returned its 3-tuple, unreachable with non-negative rates;
  `starved`: an artefact of a too short draw list);
* `inputEnded`: the supplied list of iteration inputs was exhausted before any of these (never for the real,
  unbounded, stream).
No record follows the exit: the path is exactly `run`. -/
theorem path_exit (c : Cfg) (exact : Bool) (is : List IterIn) (x0 : Vec) (t0 : Rat) :
    let fs := finalState c exact x0 t0 is
    (exitOf c exact x0 t0 is = .horizon → c.finalT ≤ fs.2) ∧
    (∀ w, exitOf c exact x0 t0 is = .stop w →
        fs.2 < c.finalT ∧ ∃ i ∈ is, iter c.set (c.ev fs.1 fs.2) exact fs.1 fs.2 i = .stop w) ∧
    (exitOf c exact x0 t0 is = .inputEnded → fs.2 < c.finalT) := by
  induction is generalizing x0 t0 with
  | nil =>
    simp only [exitOf, finalState]
    refine ⟨?_, ?_, ?_⟩
    · intro h; split at h
      · simp at h
      · rename_i hlt; exact not_lt.mp hlt
    · intro w h; split at h <;> simp at h
    · intro h; split at h
      · assumption
      · simp at h
  | cons i is ih =>
    simp only [exitOf, finalState]
    split
    · rename_i hlt
      split
      · rename_i w hstop
        refine ⟨by simp, ?_, by simp⟩
        intro w' hw'
        simp only [Exit.stop.injEq] at hw'
        subst hw'
        exact ⟨hlt, i, by simp, hstop⟩
      · rename_i r hnext
        obtain ⟨h1, h2, h3⟩ := ih r.x r.t
        refine ⟨h1, ?_, h3⟩
        intro w hw
        obtain ⟨ha, j, hj, hb⟩ := h2 w hw
        exact ⟨ha, j, by simp [hj], hb⟩
    · rename_i hnlt
      refine ⟨fun _ => not_lt.mp hnlt, by simp, by simp⟩

/-- **path_exit_partial.**  Termination after finitely many iterations is NOT proved: it is a probability-one
statement about the draw stream (no explosion: infinitely many events in finite time have probability zero
for bounded rates), which a model over explicit draw lists cannot express.  What is proved: each iteration
either leaves the loop or records a strictly later time (so the loop cannot stall), and by `path_exit` it
runs only while `t < finalT`.

Full statement (not provable here): for almost every draw stream there is `n` with
`exitOf c exact x0 t0 (stream.take n) ≠ .inputEnded`. -/
theorem path_exit_partial (c : Cfg) (exact : Bool) (x : Vec) (t : Rat) (i : IterIn)
    (hc : GoodCfg c) (hi : ∀ a ∈ i.expo, 0 < a) :
    (∃ w, iter c.set (c.ev x t) exact x t i = .stop w) ∨
    (∃ r, iter c.set (c.ev x t) exact x t i = .next r ∧ t < r.t ∧ 0 < r.dt) := by
  cases h : iter c.set (c.ev x t) exact x t i with
  | stop w => exact Or.inl ⟨w, rfl⟩
  | next r =>
    have := iter_next_later hc.settings (hc.evals x t) hi h
    exact Or.inr ⟨r, rfl, this.2, this.1⟩

/-! ### non-vacuity: a concrete one-event, one-state model (`X → ∅` at rate `X/2`, default limit `(0, None)`) -/

def demoCfg : Cfg :=
  { ev := fun x _ => { rates := [x.getD 0 0 / 2], cols := [[-1]], pure := [0], mu := [-(x.getD 0 0) / 4], sigma2 := [x.getD 0 0 / 8] },
    set := { lims := [(some 0, none)], react := [[1]], eps := 3 / 100, preTau := none },
    finalT := 10 }

/-- the hypotheses of `path_times_increasing` are satisfiable on states `x ≥ 0` … -/
example : GoodSettings demoCfg.set :=
  ⟨by norm_num [demoCfg], by simp [demoCfg], by simp [demoCfg]⟩

/-- … and the model takes real steps: exact mode from `x = 2` with waiting times 1/2 then 3/4 records
`(1, 1/2)` then `(0, 5/4)` and stops because all rates are zero. -/
example : (run demoCfg true [2] 0 [⟨[], [1/2]⟩, ⟨[], [3/4]⟩, ⟨[], [1]⟩]).map (fun r => (r.x, r.t, r.counts))
    = [([1], 1/2, [1]), ([0], 5/4, [1])] := by decide +kernel

example : exitOf demoCfg true [2] 0 [⟨[], [1/2]⟩, ⟨[], [3/4]⟩, ⟨[], [1]⟩] = .stop .zeroRates := by decide +kernel

/-- a tau-leap step with fixed `pre_tau = 1/2` and Poisson variate 3 from `x = 2` is rejected (`2 − 3 < 0`) and
retried by first reaction -/
example : (run { demoCfg with set := { demoCfg.set with preTau := some (1/2) } } false [2] 0 [⟨[3], [1/4]⟩]).map
    (fun r => (r.x, r.t, r.counts, r.branch)) = [([1], 1/4, [1], .retry)] := by decide +kernel

end Pygom.C04
