/-
C03 — Jacobian, gradient and higher derivative functions are the true derivatives.

`jacobianEqn`, `gradEqn`, `diffJacobianEqn`, `gradJacobianEqn`, `gradGradEqn`, `transitionJacobian/Mean/Var`
(Pygom/Model.lean) are the loops of `get_jacobian_eqn`, `get_grad_eqn`, `get_diff_jacobian_eqn`,
`get_grad_jacobian_eqn`, `get_grad_grad_eqn`, `get_TransitionJacobian/Mean/Var` with the verified `Expr.diff` in the place
of `sympy.diff` (sympy's diff is translation-validated against it on every generated model of every
run).  "Away from singularities of the rates" is the explicit hypothesis `defined ρ`.
-/
import Pygom.Lemmas.Layout

set_option linter.unusedSimpArgs false
set_option linter.unusedVariables false

namespace Pygom.C03
open Pygom Expr

/-! ### layouts: which entry holds which derivative -/

/-- row `i`, column `j` of the Jacobian is `∂f_i/∂x_j` (rows = declared states' equations, columns =
declared state list) -/
theorem jacobian_entry (states : List String) (ode : List Expr) (i j : Nat)
    (hi : i < ode.length) (hj : j < states.length) :
    mat2 (jacobianEqn states ode) i j = diff states[j] ode[i] := by
  simp [mat2, jacobianEqn, hi, hj]

/-- row `i`, column `k` of the gradient is `∂f_i/∂θ_k` (columns = declared parameter list) -/
theorem grad_entry (params : List String) (ode : List Expr) (i k : Nat)
    (hi : i < ode.length) (hk : k < params.length) :
    mat2 (gradEqn params ode) i k = diff params[k] ode[i] := by
  simp [mat2, gradEqn, hi, hk]

/-- row `e*nS + i`, column `j` of the stacked second-derivative matrix is `∂²f_e/∂x_i∂x_j` -/
theorem diffJacobian_entry (states : List String) (ode : List Expr) (e i j : Nat)
    (he : e < ode.length) (hi : i < states.length) (hj : j < states.length) :
    mat2 (diffJacobianEqn states ode) (e * states.length + i) j = diff states[j] (diff states[i] ode[e]) := by
  unfold mat2 diffJacobianEqn
  rw [getElem?_flatMap_blocks ode _ states.length (by intro a _; simp) e i hi]
  simp [he, hi, hj]

/-- row `k*nS + i`, column `j` of the gradient-Jacobian is `∂/∂x_j (∂f_i/∂θ_k)` -/
theorem gradJacobian_entry (states params : List String) (ode : List Expr) (k i j : Nat)
    (hk : k < params.length) (hi : i < ode.length) (hj : j < states.length) :
    mat2 (gradJacobianEqn states params ode) (k * ode.length + i) j = diff states[j] (diff params[k] ode[i]) := by
  unfold mat2 gradJacobianEqn
  rw [getElem?_flatMap_blocks params _ ode.length (by intro a _; simp) k i hi]
  simp [hk, hi, hj]

/-- row `i*nP + j`, column `k` of the parameter-parameter second-derivative matrix is `∂/∂θ_k (∂f_i/∂θ_j)` -/
theorem gradGrad_entry (params : List String) (ode : List Expr) (i j k : Nat)
    (hi : i < ode.length) (hj : j < params.length) (hk : k < params.length) :
    mat2 (gradGradEqn params ode) (i * params.length + j) k = diff params[k] (diff params[j] ode[i]) := by
  unfold mat2 gradGradEqn
  rw [getElem?_flatMap_blocks ode _ params.length (by intro a _; simp) i j hj]
  simp [hi, hj, hk]

/-! ### the entries are the true derivatives -/

/-- **State Jacobian.** -/
theorem jacobian_is_derivative (ρ : String → ℝ) (states : List String) (ode : List Expr) (i j : Nat)
    (hi : i < ode.length) (hj : j < states.length) (hdef : defined ρ ode[i]) :
    HasDerivAt (fun x => evalR (Function.update ρ states[j] x) ode[i])
      (evalR ρ (mat2 (jacobianEqn states ode) i j)) (ρ states[j]) := by
  rw [jacobian_entry states ode i j hi hj]; exact hasDerivAt_diff _ ρ _ hdef

/-- **Parameter gradient.** -/
theorem grad_is_derivative (ρ : String → ℝ) (params : List String) (ode : List Expr) (i k : Nat)
    (hi : i < ode.length) (hk : k < params.length) (hdef : defined ρ ode[i]) :
    HasDerivAt (fun x => evalR (Function.update ρ params[k] x) ode[i])
      (evalR ρ (mat2 (gradEqn params ode) i k)) (ρ params[k]) := by
  rw [grad_entry params ode i k hi hk]; exact hasDerivAt_diff _ ρ _ hdef

/-- **Second state derivatives**: entry `(e*nS+i, j)` is the derivative in `x_j` of the function
`∂f_e/∂x_i` (itself the true first derivative by `jacobian_is_derivative`). -/
theorem diff_jacobian_is_second_derivative (ρ : String → ℝ) (states : List String) (ode : List Expr)
    (e i j : Nat) (he : e < ode.length) (hi : i < states.length) (hj : j < states.length)
    (hdef : defined ρ ode[e]) :
    HasDerivAt (fun x => evalR (Function.update ρ states[j] x) (mat2 (jacobianEqn states ode) e i))
      (evalR ρ (mat2 (diffJacobianEqn states ode) (e * states.length + i) j)) (ρ states[j]) := by
  rw [diffJacobian_entry states ode e i j he hi hj, jacobian_entry states ode e i he hi]
  exact hasDerivAt_diff _ ρ _ (defined_diff _ ρ _ hdef)

/-- **State derivative of the parameter gradient**: entry `(k*nS+i, j)` is the derivative in `x_j` of
`∂f_i/∂θ_k`. -/
theorem grad_jacobian_is_mixed_derivative (ρ : String → ℝ) (states params : List String) (ode : List Expr)
    (k i j : Nat) (hk : k < params.length) (hi : i < ode.length) (hj : j < states.length)
    (hdef : defined ρ ode[i]) :
    HasDerivAt (fun x => evalR (Function.update ρ states[j] x) (mat2 (gradEqn params ode) i k))
      (evalR ρ (mat2 (gradJacobianEqn states params ode) (k * ode.length + i) j)) (ρ states[j]) := by
  rw [gradJacobian_entry states params ode k i j hk hi hj, grad_entry params ode i k hi hk]
  exact hasDerivAt_diff _ ρ _ (defined_diff _ ρ _ hdef)

/-- **Second parameter derivatives** (`grad_grad`): entry `(i*nP+j, k)` is the derivative in `θ_k` of the function
`∂f_i/∂θ_j` (itself the true first derivative by `grad_is_derivative`). -/
theorem grad_grad_is_second_derivative (ρ : String → ℝ) (params : List String) (ode : List Expr)
    (i j k : Nat) (hi : i < ode.length) (hj : j < params.length) (hk : k < params.length)
    (hdef : defined ρ ode[i]) :
    HasDerivAt (fun x => evalR (Function.update ρ params[k] x) (mat2 (gradEqn params ode) i j))
      (evalR ρ (mat2 (gradGradEqn params ode) (i * params.length + j) k)) (ρ params[k]) := by
  rw [gradGrad_entry params ode i j k hi hj hk, grad_entry params ode i j hi hj]
  exact hasDerivAt_diff _ ρ _ (defined_diff _ ρ _ hdef)

/-! ### definedness of the assembled right-hand side follows from that of its ingredients -/

def AllDefined (ρ : String → ℝ) (l : List Expr) : Prop := ∀ e ∈ l, defined ρ e

theorem allDefined_modify (ρ : String → ℝ) (acc : List Expr) (i : Nat) (g : Expr → Expr)
    (h : AllDefined ρ acc) (hg : ∀ a, defined ρ a → defined ρ (g a)) : AllDefined ρ (acc.modify i g) := by
  intro e he
  rw [List.mem_iff_getElem?] at he
  obtain ⟨k, hk⟩ := he
  rw [List.getElem?_modify] at hk
  cases hacc : acc[k]? with
  | none => simp [hacc] at hk
  | some a =>
    have ha : defined ρ a := h a (List.mem_iff_getElem?.mpr ⟨k, hacc⟩)
    simp only [hacc, Option.map_eq_map, Option.map_some, Option.some.injEq] at hk
    subst hk
    split
    · exact hg a ha
    · exact ha

/-- if every rate, magnitude and explicit term is defined at `ρ`, so is every component of the ODE -/
theorem defined_odeEqnR (ρ : String → ℝ) (n : Nat) (evs : List REvent) (odes : List (Nat × Expr))
    (hr : ∀ ev ∈ evs, defined ρ ev.rate ∧ ∀ tr ∈ ev.transitions, defined ρ tr.magnitude)
    (ho : ∀ o ∈ odes, defined ρ o.2) : AllDefined ρ (odeEqnR n evs odes) := by
  unfold odeEqnR
  have hadd : ∀ acc i e, AllDefined ρ acc → defined ρ e → AllDefined ρ (addAt acc i e) := by
    intro acc i e h he; exact allDefined_modify ρ acc i _ h (fun a ha => ⟨ha, he⟩)
  have hsub : ∀ acc i e, AllDefined ρ acc → defined ρ e → AllDefined ρ (subAt acc i e) := by
    intro acc i e h he; exact allDefined_modify ρ acc i _ h (fun a ha => ⟨ha, he⟩)
  have hz : AllDefined ρ (zeros n) := by
    intro e he; simp [zeros] at he; rw [he.2]; trivial
  have htr : ∀ (rate : Expr) (trs : List RTrans) (acc : List Expr), defined ρ rate →
      (∀ tr ∈ trs, defined ρ tr.magnitude) → AllDefined ρ acc → AllDefined ρ (trs.foldl (transStep rate) acc) := by
    intro rate trs
    induction trs with
    | nil => intro acc _ _ h; simpa using h
    | cons tr trs ih =>
      intro acc hrate hm h
      simp only [List.foldl_cons]
      apply ih _ hrate (fun t ht => hm t (by simp [ht]))
      have hroc : defined ρ (Expr.mul tr.magnitude rate) := ⟨hm tr (by simp), hrate⟩
      unfold transStep
      cases tr.ttype <;> simp only []
      · exact hadd _ _ _ h hroc
      · exact hsub _ _ _ h hroc
      · exact hadd _ _ _ (hsub _ _ _ h hroc) hroc
      · exact h
  have hev : ∀ (evs : List REvent) (acc : List Expr),
      (∀ ev ∈ evs, defined ρ ev.rate ∧ ∀ tr ∈ ev.transitions, defined ρ tr.magnitude) →
      AllDefined ρ acc → AllDefined ρ (evs.foldl eventStep acc) := by
    intro evs
    induction evs with
    | nil => intro acc _ h; simpa using h
    | cons ev evs ih =>
      intro acc hh h
      simp only [List.foldl_cons]
      apply ih _ (fun e he => hh e (by simp [he]))
      exact htr ev.rate ev.transitions acc (hh ev (by simp)).1 (hh ev (by simp)).2 h
  have hod : ∀ (odes : List (Nat × Expr)) (acc : List Expr), (∀ o ∈ odes, defined ρ o.2) →
      AllDefined ρ acc → AllDefined ρ (odes.foldl odeStep acc) := by
    intro odes
    induction odes with
    | nil => intro acc _ h; simpa using h
    | cons o odes ih =>
      intro acc hh h
      simp only [List.foldl_cons]
      exact ih _ (fun o' ho' => hh o' (by simp [ho'])) (hadd _ _ _ h (hh o (by simp)))
  exact hod odes _ ho (hev evs _ hr hz)

/-! ### tau-leap statistics equal their definitions (Cao et al. (7), (8a), (8b)) -/

/-- `F[i][j] = Σ_k ∂a_i/∂x_k · V[k][j]` with the true partial derivatives -/
theorem transition_jacobian_def (ρ : String → ℝ) (states : List String) (rates : List Expr)
    (vmatCols : List (List Expr)) (i j : Nat) (hi : i < rates.length) (hj : j < vmatCols.length)
    (hdef : defined ρ rates[i]) :
    evalR ρ (mat2 (transitionJacobian states rates vmatCols) i j)
      = ((states.zip vmatCols[j]).map (fun sv =>
          deriv (fun x => evalR (Function.update ρ sv.1 x) rates[i]) (ρ sv.1) * evalR ρ sv.2)).sum := by
  have : mat2 (transitionJacobian states rates vmatCols) i j
      = sumExprs ((states.zip vmatCols[j]).map (fun sk => Expr.mul (diff sk.1 rates[i]) sk.2)) := by
    simp [mat2, transitionJacobian, hi, hj]
  rw [this, evalR_sumExprs, List.map_map]
  congr 1
  apply List.map_congr_left
  intro sv _
  simp only [Function.comp, evalR, Expr.eval]
  have := (hasDerivAt_diff sv.1 ρ rates[i] hdef).deriv
  simp only [evalR] at this
  rw [this]

/-- `μ_i = Σ_j F[i][j]·a_j` -/
theorem transition_mean_def (ρ : String → ℝ) (F : List (List Expr)) (rates : List Expr) (i : Nat)
    (hi : i < F.length) :
    evalR ρ ((transitionMean F rates)[i]'(by simpa [transitionMean] using hi))
      = ((F[i].zip rates).map (fun fa => evalR ρ fa.1 * evalR ρ fa.2)).sum := by
  simp only [transitionMean, List.getElem_map]
  rw [evalR_sumExprs, List.map_map]
  congr 1

/-- `σ²_i = Σ_j F[i][j]²·a_j` -/
theorem transition_var_def (ρ : String → ℝ) (F : List (List Expr)) (rates : List Expr) (i : Nat)
    (hi : i < F.length) :
    evalR ρ ((transitionVar F rates)[i]'(by simpa [transitionVar] using hi))
      = ((F[i].zip rates).map (fun fa => evalR ρ fa.1 ^ 2 * evalR ρ fa.2)).sum := by
  simp only [transitionVar, List.getElem_map]
  rw [evalR_sumExprs, List.map_map]
  congr 1
  apply List.map_congr_left
  intro fa _
  simp only [Function.comp, evalR, Expr.eval]; ring

/-- non-vacuity: the SIR infection rate is defined everywhere, and its Jacobian entry is what it should be -/
example : defined (fun _ => 1) (.mul (.mul (.var "beta") (.var "S")) (.var "I")) := ⟨⟨trivial, trivial⟩, trivial⟩

example : mat2 (jacobianEqn ["S", "I"] [.mul (.var "b") (.var "S"), .var "I"]) 0 0 = .var "b" := by
  decide

/-- the `grad_grad` layout distinguishes `i*nP+j` from `j*nS+i`: two equations, three parameters, entry
(state 1, parameters 2 and 0) sits in row `1*3+2 = 5`, column `0` -/
example : mat2 (gradGradEqn ["a", "b", "c"] [.var "S", .mul (.mul (.var "a") (.var "c")) (.var "S")]) 5 0
    = diff "a" (diff "c" (.mul (.mul (.var "a") (.var "c")) (.var "S"))) := by
  decide

end Pygom.C03
