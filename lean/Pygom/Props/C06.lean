/-
C06 — cost is the stated loss of the model trajectory against the data.

PARTIAL: the integrator is assumed accurate.  "Row i of what `integrateFuncJac` returns is the state of the
model at observation time i" is the explicit hypothesis `hrows` (C02 `rows_correct` + solver accuracy);
"the model's parameters are bound to θ by name" (C09 `binding_refines_spec`, also for `target_param`
subsets in any order) is part of the meaning of `x i` — the state, *for θ*, at observation time i.
The per-entry kernel `ker y ŷ w spread` is a parameter (C14 owns the kernels and proves what they are).

Property theorems only; helper lemmas are in `Pygom/Lemmas/Loss.lean`.  `α` is the entry type.
-/
import Pygom.Lemmas.Loss

set_option linter.unusedSimpArgs false
set_option linter.unnecessarySeqFocus false
set_option linter.unusedVariables false

namespace Pygom.C06
open Pygom Pygom.Loss

variable {α : Type}

/-! ### weight / spread broadcasting -/

/-- the documented meanings of a `state_weight` / spread argument for `n` observations of `p` states:
`f i j` is the value meant for observation `i` and observed state `j` -/
def Documented [Inhabited α] (n p : Nat) (x : WInput α) (f : Nat → Nat → α) : Prop :=
  (∃ v, (x = .scalar v ∨ x = .vec [v] ∨ x = .mat [[v]]) ∧ ∀ i j, f i j = v) ∨
  (∃ l : List α, l.length = p ∧ p ≠ 1 ∧ (x = .vec l ∨ x = .mat [l]) ∧ ∀ i j, f i j = l.getD j default) ∨
  (∃ l : List α, l.length = n ∧ p = 1 ∧ (x = .vec l ∨ x = .mat (l.map fun v => [v])) ∧
      ∀ i j, f i j = l.getD i default) ∨
  (∃ rows : List (List α), rows.length = n ∧ (∀ r ∈ rows, r.length = p) ∧ x = .mat rows ∧
      ∀ i j, f i j = entry rows i j)

/-- **Broadcast, accepted shapes.**  For every `n, p ≥ 1` and every documented input the result is an
`n × p` array whose entry `(i, j)` is the scalar, `x[j]` (per state), `x[i]` (per observation, `p = 1`)
or `x[i][j]`. -/
theorem broadcast_spec [Inhabited α] (n p : Nat) (hn : 0 < n) (hp : 0 < p) (x : WInput α) (f : Nat → Nat → α)
    (h : Documented n p x f) :
    ∃ W, setWeightOrSpread n p x = .ok W ∧ W.length = n ∧ (∀ r ∈ W, r.length = p) ∧
      ∀ i, i < n → ∀ j, j < p → entry W i j = f i j := by
  have conv : ∀ g : Nat → Nat → α, (∀ i j, f i j = g i j) → Good n p x g →
      ∃ W, setWeightOrSpread n p x = .ok W ∧ W.length = n ∧ (∀ r ∈ W, r.length = p) ∧
        ∀ i, i < n → ∀ j, j < p → entry W i j = f i j := by
    intro g hg ⟨W, h1, h2, h3, h4⟩
    exact ⟨W, h1, h2, h3, fun i hi j hj => by rw [h4 i hi j hj, hg]⟩
  rcases h with ⟨v, hx, hf⟩ | ⟨l, hl, hp1, hx, hf⟩ | ⟨l, hl, hp1, hx, hf⟩ | ⟨rows, hr, hc, hx, hf⟩
  · rcases hx with rfl | rfl | rfl
    · exact conv _ hf (by simpa [Good, setWeightOrSpread, toNp] using bc_vec1 n p hn hp v)
    · exact conv _ hf (bc_vec1 n p hn hp v)
    · exact conv _ hf (bc_mat11 n p hn hp v)
  · rcases hx with rfl | rfl
    · exact conv _ hf (bc_perState n p hn hp l hl hp1)
    · exact conv _ hf (bc_row n p hn hp l hl hp1)
  · subst hp1
    rcases hx with rfl | rfl
    · exact conv _ hf (bc_perObs n hn l hl)
    · exact conv _ hf (bc_perObsCol n hn l hl)
  · subst hx
    exact conv _ hf (bc_full n p hn hp rows hr hc)

/-- **Broadcast, every other shape is rejected.**  `_setWeight_or_spread` succeeds exactly on the numpy
shapes `(1,)`, `(p,)`, `(n,)` with `p = 1`, `(n, p)`, `(1, p)`, `(1, 1)` — and on a `(p, 1)` column when numpy
can broadcast it (see `broadcast_column_quirk`); ragged input never passes. -/
theorem broadcast_accepts_iff [Inhabited α] (n p : Nat) (hn : 0 < n) (hp : 0 < p) (x : WInput α) :
    (∃ W, setWeightOrSpread n p x = .ok W) ↔ AcceptedShape n p (shapeOf x) := by
  cases x with
  | scalar v =>
    have := tree_d1 n p hn hp [v]
    simpa [shapeOf, AcceptedShape, setWeightOrSpread, toNp] using this
  | vec l => simpa [shapeOf, AcceptedShape] using tree_d1 n p hn hp l
  | mat rows =>
    cases rows with
    | nil =>
      have := tree_d1 n p hn hp ([] : List α)
      simpa [shapeOf, AcceptedShape, setWeightOrSpread, toNp] using this
    | cons r rs =>
      by_cases hall : rs.all (fun r' => r'.length == r.length) = true
      · simpa [shapeOf, hall] using tree_d2 n p hn hp r rs hall
      · simp [shapeOf, hall, AcceptedShape, setWeightOrSpread, toNp]

/-- **Which exception.**  A rejected argument raises `AssertionError` (from the decision tree) unless numpy
itself refuses: `ValueError` only for ragged nested lists and for a `(p, 1)` column (`p ≠ 1`) that cannot be
broadcast against `(n, p)`. -/
theorem broadcast_error_class [Inhabited α] (n p : Nat) (hn : 0 < n) (hp : 0 < p) (x : WInput α) (e : WErr)
    (h : setWeightOrSpread n p x = .error e) (hcls : e.pyClass = "ValueError") :
    shapeOf x = .ragged ∨ (shapeOf x = .d2 p 1 ∧ p ≠ 1 ∧ n ≠ p ∧ n ≠ 1) := by
  have hv : e = .valueBroadcast ∨ e = .valueRagged := by
    cases e <;> simp [WErr.pyClass] at hcls <;> simp
  cases x with
  | scalar v =>
    have := value_error_d1 n p [v] e (by simpa [setWeightOrSpread, toNp] using h)
    rcases hv with hv | hv <;> simp [hv] at this
  | vec l =>
    have := value_error_d1 n p l e h
    rcases hv with hv | hv <;> simp [hv] at this
  | mat rows =>
    cases rows with
    | nil =>
      have := value_error_d1 n p ([] : List α) e (by simpa [setWeightOrSpread, toNp] using h)
      rcases hv with hv | hv <;> simp [hv] at this
    | cons r rs =>
      by_cases hall : rs.all (fun r' => r'.length == r.length) = true
      · obtain ⟨h1, h2, h3, h4, h5⟩ := value_error_d2 n p hn hp r rs hall e h hv
        exact Or.inr ⟨by rw [h1] at hall; simp only [shapeOf, h1, hall, if_true, h2], h3, h4, h5⟩
      · exact Or.inl (by simp [shapeOf, hall])

/-- documented non-claim: a `(p, 1)`-shaped 2-D argument with `p ≠ 1` is read by numpy's broadcasting as one
value per *row*; when `n = p` it is accepted and means "per observation", not "per state" -/
theorem broadcast_column_quirk [Inhabited α] (p : Nat) (hp : 1 < p) (l : List α) (hl : l.length = p) :
    ∃ W, setWeightOrSpread p p (.mat (l.map fun v => [v])) = .ok W ∧
      ∀ i, i < p → ∀ j, j < p → entry W i j = l.getD i default := by
  cases l with
  | nil => simp at hl; omega
  | cons a t =>
    have hl' : t.length + 1 = p := by simpa using hl
    have hp1 : ¬ p = 1 := by omega
    have hp1' : ¬ 1 = p := by omega
    refine ⟨(List.range p).map fun i => (List.range p).map fun _ => (a :: t).getD i default, ?_, ?_⟩
    · simp [setWeightOrSpread, toNp, dims, npMulOnes, bdim, hl', hp1, hp1']
      intro i hi
      have hi' : i < (a :: t).length := by rw [hl]; exact hi
      cases i with
      | zero => simp
      | succ k =>
        have hk : k < t.length := by simpa using hi'
        simp [List.getElem?_map, List.getElem?_eq_getElem hk]
    · intro i hi j hj
      simp [entry, List.getD_eq_getElem?_getD, hi, hj]

/-! ### which column the kernel sees -/

/-- **Solution selection.**  Let `x i` be the state vector of the model at observation time `i`
(hypothesis `hrows`: the rows the integrator returned are these — C02).  Then row `i`, column `j` of what the
kernel receives is component `idxOf (obs[j])` of `x i`: observation row `i` ↔ time `i`, column `j` ↔ the
`j`-th *named* state, in the order the names were given; and every name is a state of the model. -/
theorem solution_selection [Inhabited α] (states obs : List String) (idx : List Nat)
    (hidx : stateIndexOf states obs = .ok idx)
    (n : Nat) (x : Nat → List α) (traj : List (List α))
    (hlen : traj.length = n) (hrows : ∀ i, i < n → traj.getD i [] = x i)
    (i j : Nat) (hi : i < n) (hj : j < obs.length) :
    entry (selectCols traj idx) i j = (x i).getD (states.idxOf (obs.getD j "")) default
      ∧ obs.getD j "" ∈ states := by
  obtain ⟨h1, h2⟩ := lookupAll_ok states obs idx hidx
  have hjl : j < idx.length := by rw [h1]; simpa using hj
  rw [entry_selectCols traj idx i j (by omega) hjl, hrows i hi]
  constructor
  · congr 1
    rw [h1]
    simp [List.getD_eq_getElem?_getD, hj]
  · apply h2
    simp [List.getD_eq_getElem?_getD, hj]

/-- **Replicate observations.**  When the model state at observation times `i` and `i'` is the same — replicate
measurements taken at one time: C02 `repeated_times_equal_rows` — the kernel receives the same prediction in rows
`i` and `i'`, column by column: the second replicate is compared with the solution at its time like the first, not
with the initial state. -/
theorem replicate_observations_same_prediction [Inhabited α] (states obs : List String) (idx : List Nat)
    (hidx : stateIndexOf states obs = .ok idx)
    (n : Nat) (x : Nat → List α) (traj : List (List α))
    (hlen : traj.length = n) (hrows : ∀ i, i < n → traj.getD i [] = x i)
    (i i' j : Nat) (hi : i < n) (hi' : i' < n) (hj : j < obs.length) (hrep : x i = x i') :
    entry (selectCols traj idx) i j = entry (selectCols traj idx) i' j := by
  rw [(solution_selection states obs idx hidx n x traj hlen hrows i j hi hj).1,
      (solution_selection states obs idx hidx n x traj hlen hrows i' j hi' hj).1, hrep]

/-! ### θ is bound by name -/

/-- **Values go to the names they were given for.**  With `target_param = tp` (any subset, any order, no
repetition) and a value vector of the same length, `_setParam` hands the model exactly the pairs
`(tp[k], θ[k])`: the value looked up under the `k`-th supplied name is the `k`-th supplied value.  (What the
model does with the pairs — override only the names mentioned — is C09 `binding_refines_spec`.) -/
theorem theta_bound_by_name (numParam : Nat) (hnp : 0 < numParam) (tp : List String) (theta : List α)
    (hlen : theta.length = tp.length) (hne : tp ≠ []) (hnd : tp.Nodup) :
    setParam numParam (some tp) theta = .ok (.byName (tp.zip theta)) ∧
    ∀ k (hk : k < tp.length), (tp.zip theta).lookup tp[k] = some (theta[k]'(by omega)) := by
  constructor
  · have h0 : (numParam == 0) = false := by simp; omega
    by_cases h1 : tp.length > 1
    · simp [setParam, h0, h1, hlen]
    · match tp, theta, hlen, hne, h1 with
      | [t], [v], _, _, _ => simp [setParam, h0]
      | [], _, _, hne, _ => exact absurd rfl hne
      | _ :: _ :: _, _, _, _, h1 => simp at h1
  · intro k hk
    induction tp generalizing theta k with
    | nil => simp at hk
    | cons t rest ih =>
      cases theta with
      | nil => simp at hlen
      | cons v vs =>
        have hnd' := List.nodup_cons.mp hnd
        cases k with
        | zero => simp [List.lookup]
        | succ j =>
          have hj : j < rest.length := by simpa using hk
          have hne_t : (rest[j] == t) = false := by
            simp only [beq_eq_false_iff_ne, ne_eq]
            intro h
            exact hnd'.1 (h ▸ List.getElem_mem hj)
          have hrest : rest ≠ [] := by intro h; subst h; simp at hj
          simp only [List.zip_cons_cons, List.getElem_cons_succ, List.lookup, hne_t]
          exact ih vs (by simpa using hlen) hrest hnd'.2 j hj

/-! ### cost -/

/-- **Cost is the stated loss.**  With the trajectory rows `x i` (C02), the names resolved (`hidx`) and the
weights / spread accepted (`hW`, `hS`), `cost θ` is
`Σ_{i<n} Σ_{j<p} ℓ(y_ij, x_i[idxOf name_j]; w_ij, spread_ij)` with `w`, `spread` the broadcast arrays of
`broadcast_spec`. -/
theorem cost_is_loss [Add α] [Zero α] [Inhabited α] (ker : α → α → α → α → α) (cfg : LossCfg α)
    (idx : List Nat) (hidx : stateIndexOf cfg.states cfg.obsNames = .ok idx)
    (W : List (List α)) (hW : setWeightOrSpread cfg.n cfg.obsNames.length cfg.weightIn = .ok W)
    (S : List (List α))
    (hS : match cfg.spreadIn with
          | none => S = []
          | some sIn => setWeightOrSpread cfg.n cfg.obsNames.length sIn = .ok S)
    (x : Nat → List α) (traj : List (List α))
    (hlen : traj.length = cfg.n) (hrows : ∀ i, i < cfg.n → traj.getD i [] = x i) :
    costModel ker cfg traj = .ok (sum2 cfg.n cfg.obsNames.length fun i j =>
      ker (entry cfg.y i j) ((x i).getD (cfg.states.idxOf (cfg.obsNames.getD j "")) default)
          (entry W i j) (entry S i j)) := by
  have key : costOf ker cfg.n cfg.obsNames.length cfg.y (selectCols traj idx) W S
      = sum2 cfg.n cfg.obsNames.length fun i j =>
          ker (entry cfg.y i j) ((x i).getD (cfg.states.idxOf (cfg.obsNames.getD j "")) default)
              (entry W i j) (entry S i j) := by
    unfold costOf
    apply sum2_congr
    intro i hi j hj
    rw [(solution_selection cfg.states cfg.obsNames idx hidx cfg.n x traj hlen hrows i j hi hj).1]
  unfold costModel
  rw [hidx]
  simp only [hW]
  cases hsp : cfg.spreadIn with
  | none =>
    rw [hsp] at hS
    simp only at hS
    subst hS
    simp only [key]
  | some sIn =>
    rw [hsp] at hS
    simp only at hS
    simp only [hS, key]

/-- **Square cost is zero at the truth.**  In any ring: if every observation equals the model's value
(`y_ij = x_i[idxOf name_j]`, e.g. data generated by the model at θ*), the square cost at θ* is `0`,
whatever the weights. -/
theorem square_cost_zero_at_truth {R : Type} [Ring R] [Inhabited R] (cfg : LossCfg R)
    (idx : List Nat) (hidx : stateIndexOf cfg.states cfg.obsNames = .ok idx)
    (W : List (List R)) (hW : setWeightOrSpread cfg.n cfg.obsNames.length cfg.weightIn = .ok W)
    (hsp : cfg.spreadIn = none)
    (x : Nat → List R) (traj : List (List R))
    (hlen : traj.length = cfg.n) (hrows : ∀ i, i < cfg.n → traj.getD i [] = x i)
    (htruth : ∀ i, i < cfg.n → ∀ j, j < cfg.obsNames.length →
      entry cfg.y i j = (x i).getD (cfg.states.idxOf (cfg.obsNames.getD j "")) default) :
    costModel squareKer cfg traj = .ok 0 := by
  rw [cost_is_loss squareKer cfg idx hidx W hW [] (by rw [hsp]) x traj hlen hrows]
  congr 1
  have : sum2 cfg.n cfg.obsNames.length (fun i j =>
      squareKer (entry cfg.y i j) ((x i).getD (cfg.states.idxOf (cfg.obsNames.getD j "")) default)
        (entry W i j) (entry ([] : List (List R)) i j)) = sum2 cfg.n cfg.obsNames.length (fun _ _ => (0 : R)) := by
    apply sum2_congr
    intro i hi j hj
    rw [htruth i hi j hj]
    simp [squareKer]
  rw [this]
  unfold sum2
  apply List.sum_eq_zero
  intro v hv
  simp only [List.mem_map, List.mem_range] at hv
  obtain ⟨i, _, rfl⟩ := hv
  apply List.sum_eq_zero
  intro v hv
  simp only [List.mem_map, List.mem_range] at hv
  obtain ⟨j, _, rfl⟩ := hv
  rfl

/-! ### the values a loss object holds: histories of calls

`costModel` above (and `Sens.sensToGrad` for C07) is a PURE function of the trajectory for the current
(θ, x0), the data and the layout.  The real loss object is stateful: it keeps the parameter values and the
initial state it was last given.  The specification of that state is the small machine below; the harness
(`harness/props/losshist.py`) runs scripts of calls on the real objects and on this machine in lock step and
judges every result against the independent reference for the values held.  The theorems say what the
machine guarantees: a call's result depends on the held values only (`outputs` is `ev` of the state), results of
earlier calls are unaffected by later ones, a call "at the stored values" reproduces the previous result, and
`_unrollState` writes the k-th supplied initial value at the k-th targeted position and nothing else. -/

/-- what a loss object holds between calls: stored values of its free parameters, stored initial state -/
structure Held (α : Type) where
  theta : List α
  x0 : List α

/-- an entry-point call as the specification reads it -/
inductive Call (α : Type) where
  /-- `theta=None` -/
  | atStored
  /-- `cost(θ)`, `residual(θ)`, `sensitivity(θ)`, `jac(θ)`, … -/
  | params (θ : List α)
  /-- `costIV(θ ++ xs)`, `sensitivityIV(θ ++ xs)`, …: `xs` are the targeted initial values -/
  | paramsIV (θ : List α) (xs : List α)

/-- `_unrollState`: the k-th supplied value is written at position `idx[k]` of the stored initial state -/
def unrollState (x0 : List α) : List Nat → List α → List α
  | i :: idx, v :: vs => unrollState (x0.set i v) idx vs
  | _, _ => x0

/-- the held values after one call (`tsIdx`: positions of `target_state`, all positions when it is absent) -/
def step (tsIdx : List Nat) (h : Held α) : Call α → Held α
  | .atStored => h
  | .params θ => { h with theta := θ }
  | .paramsIV θ xs => { theta := θ, x0 := unrollState h.x0 tsIdx xs }

/-- the results of a history of calls when every entry point is a pure function `ev` of the held values -/
def outputs {β : Type} (ev : Held α → β) (tsIdx : List Nat) : Held α → List (Call α) → List β
  | _, [] => []
  | h, c :: cs => ev (step tsIdx h c) :: outputs ev tsIdx (step tsIdx h c) cs

theorem unrollState_length (x0 : List α) (idx : List Nat) (vs : List α) :
    (unrollState x0 idx vs).length = x0.length := by
  induction idx generalizing x0 vs with
  | nil => simp [unrollState]
  | cons i idx ih =>
    cases vs with
    | nil => simp [unrollState]
    | cons v vs => simp [unrollState, ih]

/-- positions that are not targeted keep their value -/
theorem unrollState_other (x0 : List α) (idx : List Nat) (vs : List α) (i : Nat) (hi : i ∉ idx) :
    (unrollState x0 idx vs)[i]? = x0[i]? := by
  induction idx generalizing x0 vs with
  | nil => simp [unrollState]
  | cons j idx ih =>
    cases vs with
    | nil => simp [unrollState]
    | cons v vs =>
      have hj : j ≠ i := fun h => hi (by simp [h])
      have hi' : i ∉ idx := fun h => hi (by simp [h])
      simp only [unrollState]
      rw [ih _ _ hi', List.getElem?_set_ne hj]

/-- **free initial values land where they were aimed.**  With distinct targeted positions inside the state
vector, after `_unrollState` the k-th targeted position holds the k-th supplied value (exactly: no rounding, no
truncation - the stored initial state has the entry type of the values supplied). -/
theorem unrollState_target (x0 : List α) (idx : List Nat) (vs : List α) (hnd : idx.Nodup)
    (hin : ∀ i ∈ idx, i < x0.length) (k : Nat) (hk : k < idx.length) (hkv : k < vs.length) :
    (unrollState x0 idx vs)[idx[k]]? = some vs[k] := by
  induction idx generalizing x0 vs k with
  | nil => simp at hk
  | cons j idx ih =>
    cases vs with
    | nil => simp at hkv
    | cons v vs =>
      simp only [unrollState]
      have hnd' := List.nodup_cons.mp hnd
      cases k with
      | zero =>
        simp only [List.getElem_cons_zero]
        rw [unrollState_other _ _ _ _ hnd'.1]
        exact List.getElem?_set_self (hin j (by simp))
      | succ k =>
        simp only [List.getElem_cons_succ]
        exact ih (x0.set j v) vs hnd'.2 (fun i hi => by simpa using hin i (by simp [hi])) k
          (by simpa using hk) (by simpa using hkv)

/-- **results of earlier calls are unaffected by later ones** -/
theorem earlier_outputs_unaffected {β : Type} (ev : Held α → β) (tsIdx : List Nat) (h : Held α)
    (cs ds : List (Call α)) :
    (outputs ev tsIdx h (cs ++ ds)).take cs.length = outputs ev tsIdx h cs := by
  induction cs generalizing h with
  | nil => simp [outputs]
  | cons c cs ih => simp [outputs, ih]

/-- **a call at the stored values reproduces the previous result**, whatever the previous call was -/
theorem atStored_reproduces {β : Type} (ev : Held α → β) (tsIdx : List Nat) (h : Held α) (c : Call α)
    (cs : List (Call α)) :
    ∃ r rest, outputs ev tsIdx h (c :: .atStored :: cs) = r :: r :: rest :=
  ⟨ev (step tsIdx h c), outputs ev tsIdx (step tsIdx h c) cs, by simp [outputs, step]⟩

/-- the result of every call is `ev` of the values held after it: nothing else of the history enters -/
theorem output_depends_on_held_values_only {β : Type} (ev : Held α → β) (tsIdx : List Nat) (h h' : Held α)
    (c c' : Call α) (cs cs' : List (Call α)) (hsame : step tsIdx h c = step tsIdx h' c') :
    (outputs ev tsIdx h (c :: cs)).head? = (outputs ev tsIdx h' (c' :: cs')).head? := by
  simp [outputs, hsame]

/-- non-vacuity: states (S, I, R), `target_state = ['R', 'I']` (positions 2, 1): `costIV(θ ++ [7, 5])` after
`cost(θ')` holds θ and x0 = (9, 5, 7) -/
example : step [2, 1] ⟨[1], [9, 1, 0]⟩ (.paramsIV [(3 : Int)] [7, 5]) = ⟨[3], [9, 5, 7]⟩ := rfl

/-! ### non-vacuity: a concrete SIR-like setting over `Int` -/

/-- states S, I, R; observations of R and I **in that order** at three times; per-state weights (2, 3) -/
def exCfg : LossCfg Int :=
  { states := ["S", "I", "R"], obsNames := ["R", "I"], n := 3,
    y := [[2, 7], [4, 5], [6, 3]], weightIn := .vec [2, 3], spreadIn := none }

/-- the trajectory rows (S, I, R) at the three observation times -/
def exTraj : List (List Int) := [[91, 7, 2], [90, 6, 4], [89, 5, 6]]

example : stateIndexOf exCfg.states exCfg.obsNames = .ok [2, 1] := by decide
example : setWeightOrSpread 3 2 (WInput.vec [(2 : Int), 3]) = .ok [[2, 3], [2, 3], [2, 3]] := by decide
/-- column j is the j-th *named* state: the kernel sees (R, I), not (I, R) -/
example : selectCols exTraj [2, 1] = [[2, 7], [4, 6], [6, 5]] := by decide
/-- hypotheses of `cost_is_loss` are satisfiable and the value is the weighted sum of squares:
row 2: (5-6)·3 → 9, row 3: (3-5)·3 → 36 -/
example : costModel squareKer exCfg exTraj = .ok 45 := by decide
/-- target_param = [γ, β] with values (3, 5): γ ↦ 3, β ↦ 5 -/
example : setParam 2 (some ["gamma", "beta"]) [(3 : Int), 5] = .ok (.byName [("gamma", 3), ("beta", 5)]) := by decide
/-- zero at the truth -/
example : costModel squareKer { exCfg with y := [[2, 7], [4, 6], [6, 5]] } exTraj = .ok 0 := by decide
/-- a rejected shape: three weights for two states and three observations of them -/
example : setWeightOrSpread 3 2 (WInput.vec [(1 : Int), 1, 1]) = .error .assertDiffers := by decide
/-- numpy's own refusal: a (2,1) column against (3,2) -/
example : setWeightOrSpread 3 2 (WInput.mat [[(1 : Int)], [1]]) = .error .valueBroadcast := by decide

end Pygom.C06
