/-
C19 - R-style distribution helpers are the distributions they name.

`Pygom.Gen.wrappers` / `Pygom.Gen.seedTable` (Gen/Wrappers.lean) are REGENERATED from `utilR/distn.py` of the tree under
test on every run by harness/translate_wrappers.py; `Pygom.Gen.nb2pmf_*` (Gen/Kernels.lean) by translate_kernels.py.
The quantifier of the property ("every family provided, d/p/q, plain and log, every kind of seed") ranges over a finite
table, so `decide` over the whole generated table is a proof; the specification (`Distn.wrapperOK`, `Distn.seedRowOK`,
`Distn.testSeed`) is hand-written in Pygom/DistnSpec.lean.  A wrong row makes `decide` fail: the build error is the
broken obligation, `Distn.offenders Gen.wrappers` names the rows, and the harness replays those wrappers numerically.
-/
import Pygom.Gen.Wrappers
import Pygom.Gen.Kernels
import Pygom.DistnSpec
import Pygom.Lemmas.Densities

set_option linter.unusedSimpArgs false
set_option linter.unusedVariables false
set_option maxRecDepth 100000

open Real ProbabilityTheory

namespace Pygom
namespace C19
open Pygom.Distn

/-! ### the tables -/

/-- every d/p/q row of the generated table calls the density / cdf / quantile function of the family it is named after,
in plain and log form, with R's parameterisation -/
theorem all_wrappers_correct : Gen.wrappers.all wrapperOK = true := by decide

/-- every family × kind the property lists (and every way of giving the negative binomial) has its rows -/
theorem all_families_present : complete Gen.wrappers = true := by decide

/-- every generator row: the draw is served by the generator `test_seed` prescribes for that kind of seed, through the
numpy method of the family, R-parameterised, scalar exactly when n = 1 -/
theorem all_generators_correct :
    ((Gen.seedTable.filter fun r => checkedGenerators.contains r.name).all seedRowOK) = true := by decide

theorem seed_table_complete : seedsComplete Gen.seedTable = true := by decide

/-! ### seed handling -/

/-- `test_seed` as a decision table.  `False` never reaches its own branch: `isinstance(False, int)` holds in Python, so
`test_seed(False)` is `RandomState(False) = RandomState(0)`. -/
theorem test_seed_decision_table :
    testSeed .true_ = .fresh ∧ testSeed .rstate = .given ∧ testSeed .int = .seeded ∧ testSeed .int0 = .seeded
    ∧ testSeed .false_ = .seeded ∧ testSeed .none = .raises := by decide

theorem seedRowOK_source (r : SeedRow) (h : seedRowOK r = true) : r.source = expectedSource r.seed := by
  unfold seedRowOK at h
  split at h
  · split at h
    · simp only [Bool.and_eq_true, beq_iff_eq] at h
      exact h.1.1.1.1
    · exact absurd h (by simp)
  · exact absurd h (by simp)

/-- For an integer seed every generator that documents seeding draws only from `RandomState(seed)`: whatever the global
generator state, the operating-system entropy or any other generator object, the draw is served by the state
`mk seed`, so two calls with the same integer seed are served by equal generator states. -/
theorem seeded_generators_reproducible (r : SeedRow) (hr : r ∈ Gen.seedTable)
    (hdoc : r.name ∈ documentedSeeders) (hint : isIntSeed r.seed = true)
    {G : Type} (mk : Int → G) (w₁ w₂ : World G) (seed : Int) :
    served mk w₁ seed r.source = some (mk seed) ∧ served mk w₁ seed r.source = served mk w₂ seed r.source := by
  have hall := all_generators_correct
  rw [List.all_eq_true] at hall
  have hchk : checkedGenerators.contains r.name = true := by
    simp only [checkedGenerators, List.contains_eq_mem, List.mem_append, decide_eq_true_eq]
    exact Or.inl hdoc
  have hok : seedRowOK r = true := hall r (List.mem_filter.mpr ⟨hr, hchk⟩)
  have hs : r.source = .seeded := by
    rw [seedRowOK_source r hok]
    cases hk : r.seed <;> simp_all [isIntSeed, expectedSource, testSeed, isInstanceInt]
  rw [hs]
  exact ⟨rfl, rfl⟩

/-- non-vacuity of the above: such rows exist (e.g. `runif(n > 1, seed = non-zero int)`) -/
example : ∃ r ∈ Gen.seedTable, r.name ∈ documentedSeeders ∧ isIntSeed r.seed = true ∧ r.name = "runif" ∧ r.seed = .int := by
  decide

/-! ### parameterisation: the argument expressions of the specification denote R's rate parameterisation -/

noncomputable def realI : Expr.FnInterp ℝ := ⟨Real.exp, Real.log, Real.sin, Real.cos, Real.pi⟩

/-- `dexp`: scipy's `expon.pdf(x, scale = 1/rate)` is the exponential density with *rate* `rate` -/
theorem exp_rate_parameterisation (ρ : String → ℝ) (x : ℝ) (hr : 0 < ρ "rate") :
    ∀ fs, familySpec "exp" = some fs → ∀ e, fs.params.lookup "scale" = some e →
      Spec.scipyExponPdf (Expr.eval realI ρ e) x = exponentialPDFReal (ρ "rate") x := by
  intro fs hfs e he
  simp only [familySpec, Option.some.injEq] at hfs
  subst hfs
  simp only [List.lookup, beq_self_eq_true, Option.some.injEq] at he
  subst he
  have : Expr.eval realI ρ (.div (.num 1) (.var "rate")) = 1 / ρ "rate" := by
    simp [Expr.eval]
  simp only [Distn.inv, Distn.v]
  rw [this]
  exact Spec.expon_scale_is_rate _ _ hr

/-- `dgamma`: scipy's `gamma.pdf(x, a = shape, scale = 1/rate)` is the Gamma density with shape `shape` and *rate* `rate` -/
theorem gamma_rate_parameterisation (ρ : String → ℝ) (x : ℝ) (ha : 0 < ρ "shape") (hr : 0 < ρ "rate") :
    ∀ fs, familySpec "gamma" = some fs → ∀ a s, fs.params.lookup "a" = some a → fs.params.lookup "scale" = some s →
      Spec.scipyGammaPdf (Expr.eval realI ρ a) (Expr.eval realI ρ s) x = gammaPDFReal (ρ "shape") (ρ "rate") x := by
  intro fs hfs a s h1 h2
  simp only [familySpec, Option.some.injEq] at hfs
  subst hfs
  simp [List.lookup] at h1 h2
  subst h1 h2
  have : Expr.eval realI ρ (.div (.num 1) (.var "rate")) = 1 / ρ "rate" := by
    simp [Expr.eval]
  simp only [Distn.inv, Distn.v]
  rw [this]
  exact Spec.gamma_scale_is_rate _ _ _ ha hr

/-- `dnorm`: scipy's `norm.pdf(x, loc = mean, scale = sd)` is the Gaussian density with mean `mean` and variance `sd²` -/
theorem norm_sd_parameterisation (ρ : String → ℝ) (x : ℝ) (hs : 0 < ρ "sd") (v : NNReal) (hv : (v : ℝ) = ρ "sd" ^ 2) :
    ∀ fs, familySpec "norm" = some fs → ∀ l s, fs.params.lookup "loc" = some l → fs.params.lookup "scale" = some s →
      Spec.scipyNormPdf (Expr.eval realI ρ l) (Expr.eval realI ρ s) x = gaussianPDFReal (ρ "mean") v x := by
  intro fs hfs l s h1 h2
  simp only [familySpec, Option.some.injEq] at hfs
  subst hfs
  simp [List.lookup] at h1 h2
  subst h1 h2
  simp only [Distn.inv, Distn.v]
  exact Spec.norm_scale_is_sd _ _ _ hs v hv

/-! ### the negative binomial: mean/size form = standard (n, p) form -/

/-- the translated `nb2pmf` (what `dnbinom(x, size, mu=…)` computes) is the negative-binomial mass function, log and plain -/
theorem nb2pmf_is_mass (n : ℕ) (mu k : ℝ) (hm : 0 < mu) (hk : 0 < k) :
    Gen.nb2pmf_log n mu k = Real.log (Spec.nbPMF k mu n) ∧ Gen.nb2pmf_plain n mu k = Spec.nbPMF k mu n := by
  have h : Gen.nb2pmf_log n mu k = Real.log (Spec.nbPMF k mu n) := by
    have e := Spec.nbNLL_eq n mu k hm hk
    have : Gen.nb2pmf_log n mu k = -Spec.nbNLL n mu k := by
      unfold Gen.nb2pmf_log Spec.nbNLL; ring
    rw [this, e]; ring
  refine ⟨h, ?_⟩
  have : Gen.nb2pmf_plain n mu k = Real.exp (Gen.nb2pmf_log n mu k) := by
    unfold Gen.nb2pmf_plain Gen.nb2pmf_log; rfl
  rw [this, h, Real.exp_log (Spec.nbPMF_pos k mu n hk hm)]

/-- the mean/size form agrees with the standard `(n, p)` form at `p = size/(size+mu)` - the value the specification
(`Distn.nbMuParams`) requires of the p/q/r functions given `mu` -/
theorem nb_mean_size_eq_np (n : ℕ) (ρ : String → ℝ) (hs : 0 < ρ "size") (hm : 0 < ρ "mu") :
    ∀ e, nbMuParams.lookup "p" = some e →
      Gen.nb2pmf_plain n (ρ "mu") (ρ "size") = Spec.nbPMFnp (ρ "size") (Expr.eval realI ρ e) n
      ∧ Gen.nb2pmf_log n (ρ "mu") (ρ "size") = Real.log (Spec.nbPMFnp (ρ "size") (Expr.eval realI ρ e) n) := by
  intro e he
  simp [nbMuParams, List.lookup] at he
  subst he
  have hp : Expr.eval realI ρ (.div (.var "size") (.add (.var "size") (.var "mu"))) = ρ "size" / (ρ "size" + ρ "mu") := by
    simp [Expr.eval]
  simp only [Distn.inv, Distn.v]
  rw [hp, ← Spec.nbPMF_eq_np _ _ _ hs hm]
  exact ⟨(nb2pmf_is_mass n _ _ hm hs).2, (nb2pmf_is_mass n _ _ hm hs).1⟩

end C19
end Pygom
