/-
C08 — evaluators never go stale after a model is modified.

State machine: `Pygom/Canary.lean` (mirrors add_func / add_compiled_sympy_object / CompileCanary and the
mutators of base_ode_model.py).  All theorems are about histories of ANY length and ANY interleaving of
mutators, parameter assignments and evaluations, and about ANY semantics `sem` of "compile, then call"
(so they do not depend on what sympy/lambdify compute).

* `never_stale`         full statement, for every source variant `cfg` that is `Good`
                        (every mutator trips; the declaration setters refresh `_sp`) and histories that only
                        call evaluators the instance's canary watches;
* `never_stale_source`  the same, unconditionally, for the source as modelled (`sourceCfg`, = the tree with
                        proposed_fixes/C08-*.diff applied);
* `never_stale_partial` ANY variant (e.g. the tree as found): histories whose "bad" mutators (non-tripping,
                        or declaration setters that do not refresh `_sp`) all occur before the first
                        evaluation;
* `stale_after_add_ode`, `stale_sp_after_add_param`
                        the two defects of the tree as found, each on a concrete short history;
* `stale_unwatched_counterexample`  an evaluator missing from the canary's list goes stale although every
                        mutator trips (the `evalsWatched` hypothesis is needed).
* `two_instance_noninterference`, `never_stale_pair`, `never_stale_pair_source`
                        two live instances, any interleaving of operations addressed to either: with one flag store per
                        canary object nothing done to one instance changes an observation of the other;
* `alias_method_eq_primary`, `alias_direct_own_guard_eq_primary`, `arun_lower`, `never_stale_aliases`, `never_stale_aliases_source`
                        secondary entry points (`ode_T`, `jacobian_T`, ..., `total_transition`): an alias evaluates the SAME
                        compiled object behind the SAME flag, so an alias observation equals the primary one in every state;
                        `alias_wrong_guard_counterexample`: a fast path behind another evaluator's flag goes stale.
* `shared_store_stale_counterexample`  with ONE store shared by all canaries (class-level dict updated in place) the
                        other instance's compile marks a just-modified model's evaluator up to date.
-/
import Pygom.Lemmas.Canary

set_option linter.unusedSimpArgs false
set_option linter.unusedVariables false

namespace Pygom.C08
open Pygom Pygom.Canary

/-- **inv_init**: a freshly constructed instance satisfies the invariant (whatever the variant). -/
theorem inv_init (cfg : Cfg) (d : ModelDef) (pv : List Rat) : Inv cfg (cinit cfg d pv) := by
  refine ⟨rfl, ?_⟩
  intro n sn _ _ hs
  simp [cinit] at hs

/-- **inv_step**: every operation that is `okOp` for the variant preserves the invariant; when the variant
is `Good` that is every operation. -/
theorem inv_step (cfg : Cfg) (s : CState) (op : Op) (h : Inv cfg s) (hok : okOp cfg op = true) :
    Inv cfg (step cfg s op).1 := inv_step_aux cfg s op h hok

/-- **C08, full statement.**  For every source variant in which every mutator trips the flags and the
declaration setters refresh `_sp`: for every initial definition, every history (any length, any
interleaving of mutators, parameter assignments and evaluations of watched evaluators) and every semantics
of compile-and-call, EVERY evaluation returns what the same call returns on a freshly constructed model
with the same (final, i.e. current at that moment) definition and parameter values. -/
theorem never_stale {V} (cfg : Cfg) (hg : Good cfg) (sem : Sem V) (d0 : ModelDef) (pv0 : List Rat) (ops : List Op)
    (hw : evalsWatched cfg ops) :
    ∀ o ∈ run cfg (cinit cfg d0 pv0) ops, o.value sem = freshValue cfg sem o.cur o.pvals o.ev o.x o.t := by
  intro o ho
  exact value_of_fresh cfg sem o
    (never_stale_from cfg ops _ (inv_init cfg d0 pv0) (fun op _ => okOp_of_good hg op) hw o ho)

/-- the source as modelled (`sourceCfg` = tree with the proposed fixes) is `Good` -/
theorem source_good : Good sourceCfg := ⟨fun k => by cases k <;> rfl, rfl⟩

theorem evalsWatched_source (ops : List Op) : evalsWatched sourceCfg ops := by
  induction ops with
  | nil => trivial
  | cons op ops ih =>
    cases op with
    | mutate m => exact ih
    | setParams v => exact ih
    | evaluate e x t => exact ⟨rfl, ih⟩

/-- **C08 for the source as modelled, unconditionally**: every history, every evaluator. -/
theorem never_stale_source {V} (sem : Sem V) (d0 : ModelDef) (pv0 : List Rat) (ops : List Op) :
    ∀ o ∈ run sourceCfg (cinit sourceCfg d0 pv0) ops,
      o.value sem = freshValue sourceCfg sem o.cur o.pvals o.ev o.x o.t :=
  never_stale _ source_good sem d0 pv0 ops (evalsWatched_source ops)

/-! ### any variant: bad mutators only before the first evaluation -/

/-- **C08, partial (any source variant, in particular the tree as found).**  If the mutators that do not
trip (and declaration setters that do not refresh `_sp`) all occur before the first evaluation, every
evaluation returns what a freshly constructed model returns.
Full statement (no restriction on where such mutators occur) is FALSE for the tree as found:
`stale_after_add_ode`, `stale_sp_after_add_param`. -/
theorem never_stale_partial {V} (cfg : Cfg) (sem : Sem V) (d0 : ModelDef) (pv0 : List Rat) (pre post : List Op)
    (hne : noEval pre) (hd : declOk cfg pre) (hok : ∀ op ∈ post, okOp cfg op = true)
    (hw : evalsWatched cfg post) :
    ∀ o ∈ run cfg (cinit cfg d0 pv0) (pre ++ post),
      o.value sem = freshValue cfg sem o.cur o.pvals o.ev o.x o.t := by
  intro o ho
  rw [run_append] at ho
  obtain ⟨h1, h2, h3⟩ := prefix_no_eval cfg pre (cinit cfg d0 pv0) hne hd rfl (fun _ => rfl)
  rw [h1, List.nil_append] at ho
  have hinv : Inv cfg (runState cfg (cinit cfg d0 pv0) pre) := ⟨h2, fun n sn _ _ hs => by rw [h3 n] at hs; cases hs⟩
  exact value_of_fresh cfg sem o (never_stale_from cfg post _ hinv hok hw o ho)

/-! ### version numbers reported by the driver identify definitions -/

/-- the driver's `def_ver` is sound: a snapshot whose version number is the current one holds the current
definition (any variant, any history) -/
theorem ver_sound (cfg : Cfg) (ops : List Op) (s : CState) (h : VInv s) :
    ∀ o ∈ run cfg s ops, o.used.ver ≤ o.curVer ∧ (o.used.ver = o.curVer → o.used.defn = o.cur) := by
  induction ops generalizing s with
  | nil => simp [run]
  | cons op ops ih =>
    have h' := vinv_step cfg s op h
    cases op with
    | mutate m => simp only [run, step]; exact ih _ h'
    | setParams v => simp only [run, step]; exact ih _ h'
    | evaluate e x t =>
      simp only [run, step, List.mem_cons]
      intro o ho
      rcases ho with rfl | ho
      · simp only
        unfold evalStep
        split
        · exact ⟨Nat.le_refl _, fun _ => rfl⟩
        · rename_i sn hs
          split
          · exact ⟨Nat.le_refl _, fun _ => rfl⟩
          · exact h e sn hs
      · exact ih _ h' o ho

/-! ### the tree as found: three concrete stale histories -/

def d1 : ModelDef := { states := ["S"], stateLims := [], params := ["beta"], derived := [], events := [], odes := [] }
def odeT : TransnIn := ⟨some "S", some (.var "beta"), .ODE, none, .num 1⟩
def deathEv : EventIn := .ev (some (.var "beta")) [⟨some "S", none, .D, none, .num 1⟩]

/-- (snapshot version, current version, |snapshot `_sp`|, |current symbols|) of every observation -/
def summary (os : List Obs) : List (Nat × Nat × Nat × Nat) :=
  os.map (fun o => (o.used.ver, o.curVer, o.used.sp.length, (freshSp o.cur).length))

/-- **Defect 1 (as found).** `add_ode` after `ode` was evaluated: the second evaluation still runs the
closure compiled from definition version 0 although the definition is at version 1. -/
theorem stale_after_add_ode :
    summary (run Cfg.simulateAsFound (cinit Cfg.simulateAsFound d1 [1])
      [.evaluate .ode [3] 0, .mutate (.addOde odeT), .evaluate .ode [3] 0])
      = [(0, 0, 3, 3), (0, 1, 3, 3)] := by
  decide

/-- ... and the two definitions really differ -/
theorem stale_after_add_ode_defs_differ :
    ((run Cfg.simulateAsFound (cinit Cfg.simulateAsFound d1 [1])
      [.evaluate .ode [3] 0, .mutate (.addOde odeT), .evaluate .ode [3] 0]).map
        (fun o => (o.used.defn.odes.length, o.cur.odes.length))) = [(0, 0), (0, 1)] := by
  decide

/-- the same history on the patched variant is fresh -/
theorem fresh_after_add_ode_patched :
    summary (run Cfg.simulate (cinit Cfg.simulate d1 [1])
      [.evaluate .ode [3] 0, .mutate (.addOde odeT), .evaluate .ode [3] 0])
      = [(0, 0, 3, 3), (1, 1, 3, 3)] := by
  decide

/-- **An evaluator missing from the flag list** (`Cfg.unwatched`, e.g. the base canary with `states = []`): even
though every mutator trips, a compiled evaluator stays stale - the `evalsWatched` hypothesis of
`never_stale` cannot be dropped. -/
theorem stale_unwatched_counterexample :
    summary (run Cfg.unwatched (cinit Cfg.unwatched d1 [1])
      [.evaluate .ode [3] 0, .mutate (.addEvent deathEv), .evaluate .ode [3] 0])
      = [(0, 0, 3, 3), (0, 1, 3, 3)] := by
  decide

/-- **Defect 2 (as found).** a parameter declared after `ode` was compiled: the `param_list` setter trips the
flags but leaves `_sp` alone, so the recompiled closure takes 3 arguments (S, t, beta); the `parameters`
setter then refreshes `_sp` (4 symbols) WITHOUT tripping, and the third call hands 4 values to the
3-argument closure (a `TypeError` in pygom; a fresh model evaluates normally). -/
theorem stale_sp_after_add_param :
    summary (run Cfg.simulateAsFound (cinit Cfg.simulateAsFound d1 [1])
      [.evaluate .ode [3] 0, .mutate (.addParams ["kappa"]), .evaluate .ode [3] 0, .setParams [1, 2],
       .evaluate .ode [3] 0])
      = [(0, 0, 3, 3), (1, 1, 3, 4), (1, 1, 3, 4)] := by
  decide

/-- the same history on the patched variant: recompiled against the 4 symbols at once -/
theorem fresh_after_add_param_patched :
    summary (run Cfg.simulate (cinit Cfg.simulate d1 [1])
      [.evaluate .ode [3] 0, .mutate (.addParams ["kappa"]), .evaluate .ode [3] 0, .setParams [1, 2],
       .evaluate .ode [3] 0])
      = [(0, 0, 3, 3), (1, 1, 4, 4), (1, 1, 4, 4)] := by
  decide

/-- the variants as found are not `Good` -/
theorem asFound_not_good : ¬ Good asFoundCfg := fun h => absurd h.decl (by decide)

/-! ### two live instances -/

/-- **Two-instance non-interference.**  With one flag store per canary object (`shared = false`: `trip()` rebinds
`self._states`), in EVERY interleaving of operations addressed to two live instances, what instance A observes is
exactly what it observes when its own operations are run alone, and the same for B: operations on the other
instance (mutators, parameter assignments, evaluations - e.g. a reference model evaluating the same evaluator
between a mutation and the re-evaluation) never change an observation.  Any source variant. -/
theorem two_instance_noninterference (cfg : Cfg) (p : PState) (ops : List (Who × Op)) :
    obsOf .A (prun cfg false p ops) = run cfg p.a (opsOf .A ops) ∧
    obsOf .B (prun cfg false p ops) = run cfg p.b (opsOf .B ops) := obsOf_prun cfg ops p

/-- **C08 for two live instances** (per-instance flag stores, a `Good` variant): every evaluation by either instance,
in any interleaving, returns what a freshly constructed model with that instance's current definition and parameter
values returns. -/
theorem never_stale_pair {V} (cfg : Cfg) (hg : Good cfg) (sem : Sem V) (dA dB : ModelDef) (pvA pvB : List Rat)
    (ops : List (Who × Op)) (hw : ∀ wo ∈ ops, ∀ e x t, wo.2 = Op.evaluate e x t → cfg.watched e = true) :
    ∀ wo ∈ prun cfg false (pinit cfg dA pvA dB pvB) ops,
      wo.2.value sem = freshValue cfg sem wo.2.cur wo.2.pvals wo.2.ev wo.2.x wo.2.t := by
  intro wo hwo
  obtain ⟨w, o⟩ := wo
  have hm := mem_obsOf hwo
  obtain ⟨hA, hB⟩ := two_instance_noninterference cfg (pinit cfg dA pvA dB pvB) ops
  cases w with
  | A =>
    rw [hA] at hm
    exact never_stale cfg hg sem dA pvA (opsOf .A ops) (evalsWatched_opsOf cfg .A ops hw) o hm
  | B =>
    rw [hB] at hm
    exact never_stale cfg hg sem dB pvB (opsOf .B ops) (evalsWatched_opsOf cfg .B ops hw) o hm

/-- the same for the source as modelled (`sourceCfg`, `sourceShared = false`), unconditionally -/
theorem never_stale_pair_source {V} (sem : Sem V) (dA dB : ModelDef) (pvA pvB : List Rat) (ops : List (Who × Op)) :
    ∀ wo ∈ prun sourceCfg sourceShared (pinit sourceCfg dA pvA dB pvB) ops,
      wo.2.value sem = freshValue sourceCfg sem wo.2.cur wo.2.pvals wo.2.ev wo.2.x wo.2.t :=
  never_stale_pair sourceCfg source_good sem dA dB pvA pvB ops (fun _ _ _ _ _ _ => rfl)

/-- (instance, snapshot version, current version) of every observation -/
def psummary (os : List (Who × Obs)) : List (Who × Nat × Nat) := os.map (fun wo => (wo.1, wo.2.used.ver, wo.2.curVer))

/-- the interleaving that needs two live instances: A is evaluated, A is modified, the OTHER instance evaluates the
same evaluator, A is evaluated again -/
def sharedOps : List (Who × Op) :=
  [(.A, .evaluate .ode [3] 0), (.A, .mutate (.addEvent deathEv)), (.B, .evaluate .ode [3] 0), (.A, .evaluate .ode [3] 0)]

/-- **One class-level flag store shared by all canaries** (`shared = true`: a `trip()` that updates `self._states` in
place): although every mutator trips and every evaluator is watched (`Cfg.simulate` is `Good`), B's compile of `ode`
resets the one shared flag and A's last evaluation runs the closure compiled from definition version 0 while A's
definition is at version 1.  The hypothesis `shared = false` of `two_instance_noninterference` / `never_stale_pair`
cannot be dropped. -/
theorem shared_store_stale_counterexample :
    psummary (prun Cfg.simulate true (pinit Cfg.simulate d1 [1] d1 [1]) sharedOps) = [(.A, 0, 0), (.B, 0, 0), (.A, 0, 1)] := by
  decide

/-- the same interleaving with per-instance stores is fresh -/
theorem per_instance_store_fresh :
    psummary (prun Cfg.simulate false (pinit Cfg.simulate d1 [1] d1 [1]) sharedOps) = [(.A, 0, 0), (.B, 0, 0), (.A, 1, 1)] := by
  decide

/-! ### secondary entry points (aliases) -/

/-- **an alias observation equals the primary observation, in every state** (alias written as in the source:
`return self.<target>(state, t)`): same successor state, same snapshot called, same "recompiled". -/
theorem alias_method_eq_primary (cfg : Cfg) (impl : Alias → AliasImpl) (s : CState) (a : Alias) (x : List Rat) (t : Rat)
    (h : impl a = .method) :
    astep cfg impl s (.alias a x t) = step cfg s (.evaluate a.target x t) := by
  simp only [astep, step, aliasStep, h]

/-- the same for a fast path guarded by the target's OWN flag: when `<target>Compiled` exists and the target's flag is
down, `add_func`'s closure would have called that very object -/
theorem alias_direct_own_guard_eq_primary (cfg : Cfg) (impl : Alias → AliasImpl) (s : CState) (a : Alias) (x : List Rat)
    (t : Rat) (h : impl a = .direct a.target) :
    astep cfg impl s (.alias a x t) = step cfg s (.evaluate a.target x t) := by
  simp only [astep, step, aliasStep, h]
  unfold evalStep
  cases hs : s.snap a.target with
  | none => simp
  | some sn => cases hf : s.flag a.target <;> simp

/-- an alias implementation that cannot go stale: through the method, or directly behind the target's own flag -/
def AliasOk (impl : Alias → AliasImpl) : Prop := ∀ a, impl a = .method ∨ impl a = .direct a.target

theorem astep_lower (cfg : Cfg) (impl : Alias → AliasImpl) (hi : AliasOk impl) (s : CState) (op : AOp) :
    astep cfg impl s op = step cfg s op.lower := by
  cases op with
  | op o => rfl
  | alias a x t =>
    rcases hi a with h | h
    · exact alias_method_eq_primary cfg impl s a x t h
    · exact alias_direct_own_guard_eq_primary cfg impl s a x t h

/-- a history with aliases observes exactly what the history with every alias replaced by its target observes -/
theorem arun_lower (cfg : Cfg) (impl : Alias → AliasImpl) (hi : AliasOk impl) (ops : List AOp) (s : CState) :
    arun cfg impl s ops = run cfg s (ops.map AOp.lower) := by
  induction ops generalizing s with
  | nil => rfl
  | cons op ops ih =>
    simp only [arun, List.map_cons, run, astep_lower cfg impl hi s op]
    cases (step cfg s op.lower).2 <;> simp [ih]

/-- **C08 through the secondary entry points.**  For a `Good` variant that watches every evaluator and aliases that go
through the method (or a fast path behind their own flag): in every history of mutators, parameter assignments,
evaluations AND alias calls, every observation - primary or alias - is what a freshly constructed model returns. -/
theorem never_stale_aliases {V} (cfg : Cfg) (hg : Good cfg) (hw : ∀ e, cfg.watched e = true) (impl : Alias → AliasImpl)
    (hi : AliasOk impl) (sem : Sem V) (d0 : ModelDef) (pv0 : List Rat) (ops : List AOp) :
    ∀ o ∈ arun cfg impl (cinit cfg d0 pv0) ops, o.value sem = freshValue cfg sem o.cur o.pvals o.ev o.x o.t := by
  rw [arun_lower cfg impl hi]
  refine never_stale cfg hg sem d0 pv0 _ ?_
  generalize ops.map AOp.lower = l
  induction l with
  | nil => trivial
  | cons op l ih =>
    cases op with
    | mutate m => exact ih
    | setParams v => exact ih
    | evaluate e x t => exact ⟨hw e, ih⟩

/-- the source as modelled: aliases through the method -/
theorem source_alias_ok : AliasOk sourceAliasImpl := fun _ => Or.inl rfl

theorem never_stale_aliases_source {V} (sem : Sem V) (d0 : ModelDef) (pv0 : List Rat) (ops : List AOp) :
    ∀ o ∈ arun sourceCfg sourceAliasImpl (cinit sourceCfg d0 pv0) ops,
      o.value sem = freshValue sourceCfg sem o.cur o.pvals o.ev o.x o.t :=
  never_stale_aliases sourceCfg source_good (fun _ => rfl) sourceAliasImpl source_alias_ok sem d0 pv0 ops

/-- a fast path in `jacobian_T` guarded by the MASTER canary `ode` instead of `jacobian` -/
def wrongGuardImpl : Alias → AliasImpl
  | .jacobianT => .direct .ode
  | .odeT => .direct .ode
  | _ => .method

/-- the history an integrator produces: jacobian compiled, the model modified, the ode evaluated once, then the Jacobian
requested through `jacobian_T` before `jacobian()` itself was called -/
def integratorOps : List AOp :=
  [.op (.evaluate .jacobian [3] 0), .op (.mutate (.addEvent deathEv)), .alias .odeT [3] 0, .alias .jacobianT [3] 0]

/-- **`jacobian_T` short-cut behind the wrong canary.**  Although every mutator trips and every evaluator is watched,
recompiling the ode resets the flag `ode` while `jacobian` is still tripped: `jacobian_T` then calls the closure compiled
from definition version 0 while the model is at version 1 (the hypothesis `AliasOk` of `never_stale_aliases` cannot be
dropped; `ode_T` behind its own flag `ode` is fine).  With the aliases as the source writes them the same history is fresh. -/
theorem alias_wrong_guard_counterexample :
    summary (arun Cfg.simulate wrongGuardImpl (cinit Cfg.simulate d1 [1]) integratorOps)
      = [(0, 0, 3, 3), (1, 1, 3, 3), (0, 1, 3, 3)] ∧
    summary (arun Cfg.simulate sourceAliasImpl (cinit Cfg.simulate d1 [1]) integratorOps)
      = [(0, 0, 3, 3), (1, 1, 3, 3), (1, 1, 3, 3)] := by
  constructor <;> decide

/-! ### non-vacuity -/

/-- a history with mutations AFTER compiles (an event, an ODE term, a new parameter, new values),
to which `never_stale_source` applies -/
def demoOps : List Op :=
  [.evaluate .ode [3] 0, .evaluate .vMat [3] 0, .mutate (.addEvent deathEv), .evaluate .jacobian [3] 0,
   .mutate (.addOde odeT), .evaluate .ode [3] 0, .mutate (.addParams ["kappa"]), .evaluate .grad [3] 0,
   .setParams [1, 2], .evaluate .ode [3] 0, .evaluate .transitionVar [3] 0]

example : Good sourceCfg := source_good
/-- seven observations, mutations in between, three definition versions, all fresh -/
example : summary (run sourceCfg (cinit sourceCfg d1 [1]) demoOps)
    = [(0, 0, 3, 3), (0, 0, 3, 3), (1, 1, 3, 3), (2, 2, 3, 3), (3, 3, 4, 4), (3, 3, 4, 4), (3, 3, 4, 4)] := by decide
/-- the hypotheses of `never_stale_partial` are satisfiable for the tree as found with an `add_ode` in the prefix -/
example : noEval [Op.mutate (.addOde odeT)] ∧ declOk Cfg.simulateAsFound [Op.mutate (.addOde odeT)]
    ∧ (∀ op ∈ [Op.evaluate .ode [3] 0, .mutate (.addEvent deathEv), .evaluate .ode [3] 0], okOp Cfg.simulateAsFound op = true) := by
  refine ⟨trivial, ⟨Or.inr rfl, trivial⟩, ?_⟩
  intro op hop
  simp only [List.mem_cons, List.mem_nil_iff, or_false] at hop
  rcases hop with rfl | rfl | rfl <;> rfl

end Pygom.C08
