/-
C11 — declared state limits are never violated in stochastic simulation.

Property theorems about `checkJump`, the `_jump` loop (`run`) and the limit list `_state_lims` of
`Pygom/Stoch.lean`.  `Within lims x` says that every state that HAS an entry in the limit list respects it;
`stateLims_length` / `stateLims_aligned` show that the (repaired) limit list has exactly one entry per state,
aligned with the state it was declared for, so that "has an entry" is "every state"
(`path_within_declared_limits`).  `legacy_limits_counterexample` is the behaviour of the tree before the
repair: a range-style declaration ("y1:3", two states) contributes ONE entry, later entries are applied to
the wrong states and the trailing states are not checked at all.
-/
import Pygom.Lemmas.Stoch

set_option linter.unusedSimpArgs false
set_option linter.unnecessarySeqFocus false
set_option linter.unusedVariables false

namespace Pygom.C11
open Pygom Pygom.Stoch

/-- **checkJump_reject_unchanged.**  A step that would leave the limits is not taken: `_checkJump` hands back the
OLD state and the OLD time (and `success = False`). -/
theorem checkJump_reject_unchanged (x xNew : Vec) (lims : List Lim) (t dt : Rat) (counts : List Nat)
    (h : (checkJump x xNew lims t dt counts).success = false) :
    (checkJump x xNew lims t dt counts).x = x ∧ (checkJump x xNew lims t dt counts).t = t ∧
    ¬ Within lims xNew := by
  obtain ⟨hf, heq⟩ := checkJump_failure h
  rw [heq]
  refine ⟨rfl, rfl, ?_⟩
  intro hw
  rw [(failedJump_false_iff lims xNew).mpr hw] at hf
  simp at hf

/-- rejection happens exactly when the proposal violates an entry of the limit list -/
theorem checkJump_reject_iff (x xNew : Vec) (lims : List Lim) (t dt : Rat) (counts : List Nat) :
    (checkJump x xNew lims t dt counts).success = false ↔ ¬ Within lims xNew := by
  rw [← failedJump_false_iff]
  unfold checkJump
  split <;> simp_all

/-- **checkJump_accept_within.**  An accepted step is the proposed one, advances the time by the step size, and
every component of the new state is within its limits. -/
theorem checkJump_accept_within (x xNew : Vec) (lims : List Lim) (t dt : Rat) (counts : List Nat)
    (h : (checkJump x xNew lims t dt counts).success = true) :
    Within lims (checkJump x xNew lims t dt counts).x ∧
    (checkJump x xNew lims t dt counts).x = xNew ∧ (checkJump x xNew lims t dt counts).t = t + dt := by
  obtain ⟨hf, heq⟩ := checkJump_success h
  rw [heq]
  exact ⟨(failedJump_false_iff _ _).mp hf, rfl, rfl⟩

/-- **every tau-leap proposal goes through `_checkJump`, the drift included.**  Whenever `tauLeap` gets as far as proposing
a state (some rate is positive, the safety loop returns a step size, the Poisson counts are there), what it returns is
`_checkJump` applied to `x + V·n + pure(x,t)·tau` - for EVERY vector of counts `n`, in particular when every event fires
zero times and the explicit ODE terms alone move the state.  There is no exit that reports success without the test. -/
theorem tau_proposal_always_checked (s : Settings) (e : Eval) (x : Vec) (t tau : Rat) (pois : List Nat)
    (hz : allZero e.rates = false) (htau : tauOf s e x = some tau) (hlen : e.rates.length ≤ pois.length) :
    tauLeap s e x t pois =
      .checked (checkJump x (vadd (applyCounts x e.cols (pois.take e.rates.length)) (vscale e.pure tau)) s.lims t tau
        (pois.take e.rates.length)) := by
  unfold tauLeap
  simp only [hz, htau, Bool.false_eq_true, if_false]
  rw [if_neg (by omega)]

/-- … hence a leap is taken exactly when the proposed state (jumps AND drift) is within the limits; otherwise state and
time are the old ones (`checkJump_reject_unchanged`) -/
theorem tau_leap_success_iff (s : Settings) (e : Eval) (x : Vec) (t tau : Rat) (pois : List Nat)
    (hz : allZero e.rates = false) (htau : tauOf s e x = some tau) (hlen : e.rates.length ≤ pois.length) :
    ∃ r, tauLeap s e x t pois = .checked r ∧
      (r.success = true ↔ Within s.lims (vadd (applyCounts x e.cols (pois.take e.rates.length)) (vscale e.pure tau))) ∧
      (r.success = false → r.x = x ∧ r.t = t) := by
  refine ⟨_, tau_proposal_always_checked s e x t tau pois hz htau hlen, ?_, ?_⟩
  · have h := checkJump_reject_iff x (vadd (applyCounts x e.cols (pois.take e.rates.length)) (vscale e.pure tau)) s.lims t tau
      (pois.take e.rates.length)
    constructor
    · intro hs
      by_contra hw
      rw [h.mpr hw] at hs
      cases hs
    · intro hw
      cases hsucc : (checkJump x (vadd (applyCounts x e.cols (pois.take e.rates.length)) (vscale e.pure tau)) s.lims t tau
          (pois.take e.rates.length)).success
      · exact absurd hw (h.mp hsucc)
      · rfl
  · intro hf
    have := checkJump_reject_unchanged x _ s.lims t tau _ hf
    exact ⟨this.1, this.2.1⟩

/-- the four cases of the limit test, spelled out: `(None, None)` is skipped, lower-only, upper-only, two-sided -/
theorem okLim_cases (v : Rat) (lo hi : Int) :
    okLim (none, none) v ∧ (okLim (some lo, none) v ↔ (lo : Rat) ≤ v) ∧
    (okLim (none, some hi) v ↔ v ≤ (hi : Rat)) ∧ (okLim (some lo, some hi) v ↔ (lo : Rat) ≤ v ∧ v ≤ (hi : Rat)) := by
  simp [okLim]

/-- **path_within_limits.**  Every state recorded by the loop is within the limits — exact mode, adaptive or
fixed tau, any `ε`, any magnitudes, with or without the first-reaction retry, for EVERY list of draws
(no hypothesis on the draws at all) and every model. -/
theorem path_within_limits (c : Cfg) (exact : Bool) (is : List IterIn) (x0 : Vec) (t0 : Rat) :
    ∀ r ∈ run c exact x0 t0 is, Within c.set.lims r.x := by
  have h := run_steps c exact (fun _ _ r => Within c.set.lims r.x) is
    (fun x t i r _ _ hstep => (iter_next_spec hstep).within) x0 t0
  intro r hr
  obtain ⟨_, _, hw⟩ := Steps.mem _ _ _ h r hr
  exact hw

/-- … hence every row of the returned state array, the initial one included -/
theorem path_within_limits_all (c : Cfg) (exact : Bool) (is : List IterIn) (x0 : Vec) (t0 : Rat)
    (h0 : Within c.set.lims x0) :
    ∀ x ∈ pathStates x0 (run c exact x0 t0 is), Within c.set.lims x := by
  intro x hx
  simp only [pathStates, List.mem_cons, List.mem_map] at hx
  rcases hx with rfl | ⟨r, hr, rfl⟩
  · exact h0
  · exact path_within_limits c exact is x0 t0 r hr

/-- the state vector keeps its length along the path -/
theorem path_length (c : Cfg) (exact : Bool) (is : List IterIn) (x0 : Vec) (t0 : Rat) :
    ∀ x ∈ pathStates x0 (run c exact x0 t0 is), x.length = x0.length := by
  suffices H : ∀ (is : List IterIn) (x : Vec) (t : Rat), ∀ r ∈ run c exact x t is, r.x.length = x.length by
    intro x hx
    simp only [pathStates, List.mem_cons, List.mem_map] at hx
    rcases hx with rfl | ⟨r, hr, rfl⟩
    · rfl
    · exact H is x0 t0 r hr
  intro is
  induction is with
  | nil => intro x t r hr; simp [run] at hr
  | cons i is ih =>
    intro x t r hr
    unfold run at hr
    split at hr
    · split at hr
      · simp at hr
      · rename_i r' hstep
        simp only [List.mem_cons] at hr
        rcases hr with rfl | hr
        · exact (iter_next_spec hstep).len
        · rw [ih r'.x r'.t r hr, (iter_next_spec hstep).len]
    · simp at hr

/-- **limits_default.**  A state declared by name only gets `(0, None)`; a declared pair is kept as given. -/
theorem limits_default : declLim none = (some 0, none) ∧ ∀ l : Lim, declLim (some l) = l := by
  simp [declLim]

/-- the limit list has one entry per state (`Σ widths` states) -/
theorem stateLims_length (widths : List Nat) (given : List (Option Lim)) (h : widths.length = given.length) :
    (stateLims widths given).length = widths.sum := by
  induction widths generalizing given with
  | nil => simp [stateLims]
  | cons w ws ih =>
    cases given with
    | nil => simp at h
    | cons g gs =>
      have := ih gs (by simpa using h)
      simp only [stateLims, List.zip_cons_cons, List.flatMap_cons, List.length_append, List.length_replicate, List.sum_cons] at this ⊢
      omega

/-- **stateLims_aligned.**  The declaration parser keeps `(lo, hi)` aligned with its state: the `k`-th state of
declared entry `j` (states are numbered in declaration order, entry `j` starting after the `Σ_{i<j} widths[i]`
states of the earlier entries) carries the limit declared for entry `j`. -/
theorem stateLims_aligned (widths : List Nat) (given : List (Option Lim)) (j k : Nat)
    (hj : j < widths.length) (hg : j < given.length) (hk : k < widths[j]) :
    (stateLims widths given)[(widths.take j).sum + k]? = some (declLim given[j]) := by
  induction widths generalizing given j with
  | nil => simp at hj
  | cons w ws ih =>
    cases given with
    | nil => simp at hg
    | cons g gs =>
      have hcons : stateLims (w :: ws) (g :: gs) = List.replicate w (declLim g) ++ stateLims ws gs := by
        simp [stateLims]
      rw [hcons]
      cases j with
      | zero =>
        simp only [List.take_zero, List.sum_nil, zero_add, List.getElem_cons_zero] at hk ⊢
        rw [List.getElem?_append_left (by simpa using hk)]
        simp [List.getElem?_replicate, hk]
      | succ j =>
        simp only [List.take_succ_cons, List.sum_cons, List.getElem_cons_succ] at hk ⊢
        rw [List.getElem?_append_right (by simp; omega)]
        simp only [List.length_replicate]
        have : w + (ws.take j).sum + k - w = (ws.take j).sum + k := by omega
        rw [this]
        exact ih gs j (by simpa using hj) (by simpa using hg) hk

/-- every state of every recorded row respects the limit of ITS OWN declaration: with the repaired limit list
every state has an entry (`stateLims_length`), so nothing is left unchecked -/
theorem path_within_declared_limits (c : Cfg) (exact : Bool) (is : List IterIn) (x0 : Vec) (t0 : Rat)
    (widths : List Nat) (given : List (Option Lim)) (hl : c.set.lims = stateLims widths given)
    (hw : widths.length = given.length) (hn : x0.length = widths.sum) (h0 : Within c.set.lims x0) :
    ∀ x ∈ pathStates x0 (run c exact x0 t0 is), ∀ i, i < x.length →
      ∃ l, c.set.lims[i]? = some l ∧ okLim l (x.getD i 0) := by
  intro x hx i hi
  have hlen := path_length c exact is x0 t0 x hx
  have hil : i < c.set.lims.length := by rw [hl, stateLims_length _ _ hw, ← hn, ← hlen]; exact hi
  refine ⟨c.set.lims[i], by simp [hil], ?_⟩
  have := path_within_limits_all c exact is x0 t0 h0 x hx i c.set.lims[i] x[i] (by simp [hil]) (by simp [hi])
  simpa [List.getD_eq_getElem?_getD, hi] using this

/-- **legacy_limits_counterexample** (the tree before the repair).  States declared as `["y1:3", "I"]` are
`y1, y2, I`, but the limit list had one entry per DECLARED entry: `[(0,None), (0,None)]`.  A proposal that
takes `I` (third state, declared with lower limit 0) to `−1` is ACCEPTED by `_checkJump` with that list; with the
repaired, per-state list it is rejected. -/
theorem legacy_limits_counterexample :
    (checkJump [5, 0, 1] [5, 0, -1] (stateLimsLegacy [none, none]) 0 1 [1]).success = true ∧
    (checkJump [5, 0, 1] [5, 0, -1] (stateLims [2, 1] [none, none]) 0 1 [1]).success = false ∧
    stateLimsLegacy [none, none] = [(some 0, none), (some 0, none)] ∧
    stateLims [2, 1] [none, none] = [(some 0, none), (some 0, none), (some 0, none)] := by
  decide +kernel

/-- misalignment, second face of the same defect: declared `[("y1:3", (0, None)), ("I", (0, 4))]` — the upper limit 4
of `I` was applied to `y2` (index 1), so a legal proposal `y2 = 6` is rejected while `I = 9` passes -/
theorem legacy_limits_misaligned :
    (checkJump [0, 3, 3] [0, 6, 3] (stateLimsLegacy [some (some 0, none), some (some 0, some 4)]) 0 1 [1]).success = false ∧
    (checkJump [0, 3, 3] [0, 3, 9] (stateLimsLegacy [some (some 0, none), some (some 0, some 4)]) 0 1 [1]).success = true ∧
    (checkJump [0, 3, 3] [0, 6, 3] (stateLims [2, 1] [some (some 0, none), some (some 0, some 4)]) 0 1 [1]).success = true ∧
    (checkJump [0, 3, 3] [0, 3, 9] (stateLims [2, 1] [some (some 0, none), some (some 0, some 4)]) 0 1 [1]).success = false := by
  decide +kernel

/-! ### non-vacuity -/

/-- a tau-leap that would overshoot is rejected and the first-reaction retry is recorded instead; the recorded
state is within `(0, 3)` -/
example :
    let c : Cfg := { ev := fun x _ => { rates := [x.getD 0 0], cols := [[-2]], pure := [0], mu := [], sigma2 := [] },
                     set := { lims := stateLims [1] [some (some 0, some 3)], react := [[1]], eps := 3/100, preTau := some 1 },
                     finalT := 5 }
    (run c false [3] 0 [⟨[2], [1/3]⟩]).map (fun r => (r.x, r.branch)) = [([1], .retry)] ∧ Within c.set.lims [1] ∧
    Within c.set.lims [3] := by
  refine ⟨by decide +kernel, ?_, ?_⟩ <;>
  · rw [← failedJump_false_iff]; decide +kernel

/-- one slow birth event into `S` (rate 1/5) next to the explicit ODE term `dW/dt = -3` -/
def driftEval : Eval := { rates := [1/5], cols := [[1, 0]], pure := [0, -3], mu := [], sigma2 := [] }
/-- the same with `dW/dt = +3` -/
def driftEvalUp : Eval := { rates := [1/5], cols := [[1, 0]], pure := [0, 3], mu := [], sigma2 := [] }
/-- `S` declared by name, `W` with limits `(0, 40)`; fixed `tau = 1` -/
def driftSet : Settings :=
  { lims := stateLims [1, 1] [none, some (some 0, some 40)], react := [[0, 0]], eps := 3/100, preTau := some 1 }
/-- (success, state, time, counts) of a step that went through `_checkJump` -/
def view : Outcome → Option (Bool × Vec × Rat × List Nat)
  | .checked r => some (r.success, r.x, r.t, r.counts)
  | _ => none

/-- **a zero-event leap rejected because of the drift alone.**  States `(S, W)`, `W` declared with limits `(0, 40)`, one slow
birth event into `S` (rate 1/5), explicit ODE term `dW/dt = -3`, fixed `tau = 1`.  At `W = 2` the Poisson count is 0 and the
proposal is `W = 2 - 3·1 = -1`: `tauLeap` reports failure with the OLD state and time, `_jump` falls back to one first-reaction
step (the birth; no drift) and records `(1, 2)`.  Away from the bound (`W = 10`) the same zero-event leap is taken and the
drift is applied (`W = 7`).  Upper bound: `dW/dt = +3` at `W = 39`. -/
theorem drift_only_leap_rejected :
    view (tauLeap driftSet driftEval [0, 2] 0 [0]) = some (false, [0, 2], 0, [0])
    ∧ view (tauLeap driftSet driftEval [0, 10] 0 [0]) = some (true, [0, 7], 1, [0])
    ∧ view (tauLeap driftSet driftEvalUp [0, 39] 0 [0]) = some (false, [0, 39], 0, [0])
    ∧ (run { ev := fun _ _ => driftEval, set := driftSet, finalT := 5 } false [0, 2] 0 [⟨[0], [1/2]⟩]).map
        (fun r => (r.x, r.t, r.branch)) = [([1, 2], 1/2, .retry)] := by
  refine ⟨?_, ?_, ?_, ?_⟩ <;> decide +kernel

end Pygom.C11
