/-
C04, several paths and left-over configuration.

`Props/C04.lean` is about ONE path: `run c exact x0 t0 is`, a pure function of the configuration in force, the initial
state and time, and the variates.  A `solve_stochast(T, n)` call makes `n` paths one after the other on one model
object, and a user makes several such calls with other settings in between.  In the model (`Seed.lean`: `jumpOnce`,
`runMany`, `solveStochast`) the only thing handed from one path to the next is the world `(parameter values,
generator state)`; this file states what that means for C04:

* `runMany_all_start` — every one of the `n` successive paths of a call is the C04 loop started at the SAME
  `(x0, t0)` (so `C04.path_start` and every other theorem of Props/C04.lean applies to each of them), whatever the
  earlier paths did;
* `exact_ignores_tau_config` — the exact algorithm reads the limits only: a `pre_tau` / `epsilon` left over from
  an earlier tau-leap configuration does not change an exact path;
* `exact_steps_one_event_any_tau_config` — in particular every exact step reports exactly one event whatever
  `pre_tau` / `epsilon` are set to.

The harness probes the same three facts on the real code (harness/props/stoch_common.py `run_session`): a float64 ndarray
initial state walked in place, or a stored `pre_tau` overriding `exact=True`, are exactly what these statements exclude.
-/
import Pygom.Props.C04
import Pygom.Lemmas.Seed

set_option linter.unusedSimpArgs false
set_option linter.unusedVariables false

namespace Pygom.C04
open Pygom Pygom.Stoch Pygom.Seed

/-- one `_jump` is the C04 loop started at the model's `(x0, t0)`, for the parameter values in force during that jump -/
theorem jumpOnce_is_run_from_start {σ : Type} (g : Gen σ) (m : JumpModel) (w : World σ) :
    ∃ cur : List Rat, (jumpOnce g m w).1.recs = run (m.cfg cur) m.exact m.x0 m.t0 (jumpOnce g m w).1.inputs := by
  unfold jumpOnce
  cases m.spec with
  | none => exact ⟨w.1, jumpS_recs_eq_run g _ _ _ _ _ _⟩
  | some spec => exact ⟨(redraw g spec w.1 w.2).1, jumpS_recs_eq_run g _ _ _ _ _ _⟩

/-- **runMany_all_start.**  Each of the `n` successive paths of `solve_stochast(T, n)` is `run` started at the same
`(x0, t0)`; its arrays therefore begin with `x0` and `t0` (`path_start`), for every `n`, every generator, every history. -/
theorem runMany_all_start {σ : Type} (g : Gen σ) (m : JumpModel) (n : Nat) (w : World σ) :
    ∀ k, k < n → ∃ j cur, (solveStochast g m n w).1[k]? = some j ∧
      j.recs = run (m.cfg cur) m.exact m.x0 m.t0 j.inputs ∧
      (pathStates m.x0 j.recs).head? = some m.x0 ∧ (pathTimes m.t0 j.recs).head? = some m.t0 := by
  intro k hk
  obtain ⟨cur, h⟩ := jumpOnce_is_run_from_start g m (after (jumpOnce g m) k w)
  refine ⟨(jumpOnce g m (after (jumpOnce g m) k w)).1, cur, ?_, h, ?_, ?_⟩
  · exact runMany_getElem? _ n k w hk
  · simp [pathStates]
  · simp [pathTimes]

/-- the exact iteration reads the settings through the limits only -/
theorem iter_exact_ignores_tau_config (s : Settings) (eps' : Rat) (pt' : Option Rat) (e : Eval) (x : Vec) (t : Rat) (i : IterIn) :
    iter { s with eps := eps', preTau := pt' } e true x t i = iter s e true x t i := by
  simp [iter]

/-- **exact_ignores_tau_config.**  An exact path is the same whatever `epsilon` / `pre_tau` the model object carries. -/
theorem exact_ignores_tau_config (c : Cfg) (eps' : Rat) (pt' : Option Rat) (x : Vec) (t : Rat) (is : List IterIn) :
    run { c with set := { c.set with eps := eps', preTau := pt' } } true x t is = run c true x t is := by
  induction is generalizing x t with
  | nil => simp [run]
  | cons i is ih =>
    simp only [run, iter_exact_ignores_tau_config]
    split
    · split
      · rfl
      · rw [ih]
    · rfl

/-- **exact_steps_one_event_any_tau_config.**  With any left-over `epsilon` / `pre_tau`, every step of an exact path is still a
first-reaction step reporting exactly one event (`path_counts` transported along `exact_ignores_tau_config`). -/
theorem exact_steps_one_event_any_tau_config (c : Cfg) (eps' : Rat) (pt' : Option Rat) (x0 : Vec) (t0 : Rat) (is : List IterIn) :
    Steps (fun x t r => r.branch = .exact ∧ r.counts.sum = 1 ∧ r.counts.length = (c.ev x t).rates.length)
      x0 t0 (run { c with set := { c.set with eps := eps', preTau := pt' } } true x0 t0 is) := by
  rw [exact_ignores_tau_config]
  refine Steps.mono ?_ _ _ _ (path_counts c true is x0 t0)
  intro x t r h
  have hb : r.branch = .exact := h.2.1 rfl
  obtain ⟨k, _, _, hs, _⟩ := h.2.2 (by rw [hb]; decide)
  exact ⟨hb, hs, h.1⟩

/-- non-vacuity: the demo configuration with a left-over fixed leap gives the same exact path -/
example : run { demoCfg with set := { demoCfg.set with preTau := some (1/4) } } true [3] 0 [⟨[], [1/2]⟩]
    = run demoCfg true [3] 0 [⟨[], [1/2]⟩] := exact_ignores_tau_config demoCfg _ _ _ _ _

end Pygom.C04
