/-
C12 — equivalent ways of specifying a model give the same model.

A *process* is a rate and a list of constructed transitions (no member carries an equation).  Every API
route turns it into an `Event` with the same *core* (rate, and per transition: type, origin, destination,
magnitude); resolution and assembly only read the core, so the assembled expressions are syntactically
equal (`assemble_congr`).  Order of events / ODE terms and the explicit-ODE route change the syntax but
not the value (`order_irrelevant`, `explicit_ode_route`), for every field and interpretation.
-/
import Pygom.Props.C01
import Pygom.Build
import Mathlib.Algebra.BigOperators.Group.List.Lemmas

set_option linter.unusedSimpArgs false
set_option linter.unusedVariables false

namespace Pygom.C12
open Pygom Expr

/-- what assembly reads from a transition -/
def tcore (t : Transn) : TType × Option String × Option String × Expr := (t.ttype, t.origin, t.dest, t.magnitude)

/-- what assembly reads from an event -/
def ecore (e : Event) : Option Expr × List (TType × Option String × Option String × Expr) :=
  (e.rate, e.transitions.map tcore)

theorem resolveTrans_congr (m : ModelDef) (t t' : Transn) (h : tcore t = tcore t') :
    resolveTrans m t = resolveTrans m t' := by
  simp only [tcore, Prod.mk.injEq] at h
  obtain ⟨h1, h2, h3, h4⟩ := h
  unfold resolveTrans; rw [h1, h2, h3, h4]

theorem mapM_resolveTrans_congr (m : ModelDef) (l l' : List Transn) (h : l.map tcore = l'.map tcore) :
    l.mapM (resolveTrans m) = l'.mapM (resolveTrans m) := by
  induction l generalizing l' with
  | nil => cases l' with
    | nil => rfl
    | cons a l' => simp at h
  | cons a l ih =>
    cases l' with
    | nil => simp at h
    | cons b l' =>
      simp only [List.map_cons, List.cons.injEq] at h
      simp only [List.mapM_cons]
      rw [resolveTrans_congr m a b h.1, ih l' h.2]

theorem resolveEvent_congr (m : ModelDef) (e e' : Event) (h : ecore e = ecore e') :
    resolveEvent m e = resolveEvent m e' := by
  simp only [ecore, Prod.mk.injEq] at h
  unfold resolveEvent
  rw [h.1, mapM_resolveTrans_congr m _ _ h.2]

theorem mapM_resolveEvent_congr (m : ModelDef) (l l' : List Event) (h : l.map ecore = l'.map ecore) :
    l.mapM (resolveEvent m) = l'.mapM (resolveEvent m) := by
  induction l generalizing l' with
  | nil => cases l' with
    | nil => rfl
    | cons a l' => simp at h
  | cons a l ih =>
    cases l' with
    | nil => simp at h
    | cons b l' =>
      simp only [List.map_cons, List.cons.injEq] at h
      simp only [List.mapM_cons]
      rw [resolveEvent_congr m a b h.1, ih l' h.2]

/-- **Assembly only reads the cores**: two definitions whose events have the same cores (and equal
states, parameters, derived parameters and explicit terms) assemble to the same expressions. -/
theorem assemble_congr (m m' : ModelDef) (hs : m.states = m'.states) (hd : m.derived = m'.derived)
    (ho : m.odes = m'.odes) (he : m.events.map ecore = m'.events.map ecore) :
    (assemble m).map (fun a => (a.ode, a.vmatCols, a.rates, a.pureOde, a.reactCols))
      = (assemble m').map (fun a => (a.ode, a.vmatCols, a.rates, a.pureOde, a.reactCols)) := by
  have hfix : m.fix = m'.fix := by funext e; simp [ModelDef.fix, hd]
  have hidx : stateIndex m = stateIndex m' := by funext s; simp [stateIndex, hs]
  have hrt : resolveTrans m = resolveTrans m' := by funext t; simp [resolveTrans, hfix, hidx]
  have hre : resolveEvent m = resolveEvent m' := by funext e; simp [resolveEvent, hfix, hrt]
  have h1 : resolveEvents m = resolveEvents m' := by
    unfold resolveEvents; rw [hre]; exact mapM_resolveEvent_congr m' _ _ he
  have h2 : resolveOdes m = resolveOdes m' := by unfold resolveOdes; rw [ho, hidx, hfix]
  unfold assemble; rw [h1, h2, hs]

/-! ### every route yields the same core -/

/-- the shape `Transition.__init__` guarantees for a transition that can sit in an Event -/
def Valid (t : Transn) : Prop :=
  match t.ttype with
  | .T => ∃ o d, t.origin = some o ∧ t.dest = some d ∧ o ≠ d
  | .B => t.origin = none ∧ ∃ d, t.dest = some d
  | .D => (∃ o, t.origin = some o) ∧ t.dest = none
  | .ODE => False

theorem mkTransition_valid (o : Option String) (e : Option Expr) (tt : TType) (d : Option String) (mag : Expr)
    (t : Transn) (h : mkTransition o e tt d mag = .ok t) (hne : tt ≠ .ODE) : Valid t := by
  unfold mkTransition at h
  cases tt with
  | ODE => exact absurd rfl hne
  | B =>
    cases o <;> cases d <;> simp at h <;> subst h <;> simp [Valid]
  | D =>
    cases o <;> cases d <;> simp at h
    subst h; simp [Valid]
  | T =>
    cases o with
    | none => simp at h
    | some o' =>
      cases d with
      | none => simp at h
      | some d' =>
        by_cases hod : o' = d'
        · simp [hod] at h
        · simp [hod] at h; subst h; exact ⟨o', d', rfl, rfl, hod⟩

/-- **Births named by origin or by destination are the same transition.** -/
theorem birth_origin_eq_destination (s : String) (e : Option Expr) (mag : Expr) :
    mkTransition (some s) e .B none mag = mkTransition none e .B (some s) mag := by
  simp [mkTransition]

/-- a single-transition process given as an Event with a rate -/
theorem route_event_single (t : Transn) (r : Expr) (hv : Valid t) (he : t.equation = none) :
    mkEvent [t] (some r) = .ok ⟨some r, [t]⟩ := by
  have hne : t.ttype ≠ .ODE := by intro h; simp [Valid, h] at hv
  unfold mkEvent
  have : ([t].any fun t => t.ttype == TType.ODE) = false := by
    simp; cases h : t.ttype <;> first | exact absurd h hne | rfl
  simp [this, he]

/-- ... as an Event whose transition carries the rate -/
theorem route_event_eq (t : Transn) (r : Expr) (hv : Valid t) :
    ∃ e, mkEvent [{ t with equation := some r }] none = .ok e ∧ ecore e = ecore ⟨some r, [t]⟩ := by
  have hne : t.ttype ≠ .ODE := by intro h; simp [Valid, h] at hv
  refine ⟨⟨some r, [{ t with equation := some r }]⟩, ?_, by simp [ecore, tcore]⟩
  unfold mkEvent
  have : ([{ t with equation := some r }].any fun t => t.ttype == TType.ODE) = false := by
    simp; cases h : t.ttype <;> first | exact absurd h hne | rfl
  simp [this]

/-- ... as a bare Transition handed to `add_event` -/
theorem route_bare (m : ModelDef) (t : Transn) (r : Expr) (hv : Valid t) (he : t.equation = none) :
    addEventTransition m { t with equation := some r } = .ok (addEvent m ⟨some r, [t]⟩) := by
  unfold addEventTransition
  have : ({ { t with equation := some r } with equation := none } : Transn) = t := by
    cases t; simp_all
  simp only [this]
  rw [route_event_single t r hv he]; rfl

/-- ... through the legacy `transition=` list / `add_transition` -/
theorem route_legacy_T (m : ModelDef) (t : Transn) (r : Expr) (hv : Valid t) (hT : t.ttype = .T)
    (he : t.equation = none) :
    addTransition m { t with equation := some r } = .ok (addEvent m ⟨some r, [t]⟩) := by
  obtain ⟨o, d, ho, hd, hod⟩ : ∃ o d, t.origin = some o ∧ t.dest = some d ∧ o ≠ d := by simpa [Valid, hT] using hv
  have ht : t = ⟨.T, some o, some d, t.magnitude, none⟩ := by cases t; simp_all
  unfold addTransition
  simp only [hT, ho, hd, mkTransition, hod, bne_self_eq_false, Bool.false_eq_true, if_false]
  have hv' : Valid ⟨.T, some o, some d, t.magnitude, none⟩ := ⟨o, d, rfl, rfl, hod⟩
  simp only [bind, Except.bind]
  rw [route_event_single _ r hv' rfl, ← ht]; rfl

/-- ... through the legacy `birth_death=` list / `add_birth_death` -/
theorem route_legacy_BD (m : ModelDef) (t : Transn) (r : Expr) (hv : Valid t)
    (hBD : t.ttype = .B ∨ t.ttype = .D) (he : t.equation = none) :
    addBirthDeath m { t with equation := some r } = .ok (addEvent m ⟨some r, [t]⟩) := by
  rcases hBD with hB | hD
  · obtain ⟨ho, d, hd⟩ : t.origin = none ∧ ∃ d, t.dest = some d := by simpa [Valid, hB] using hv
    have ht : t = ⟨.B, none, some d, t.magnitude, none⟩ := by cases t; simp_all
    unfold addBirthDeath
    simp only [hB, hd, mkTransition]
    have hv' : Valid ⟨.B, none, some d, t.magnitude, none⟩ := ⟨rfl, d, rfl⟩
    simp only [bind, Except.bind]
    rw [route_event_single _ r hv' rfl, ← ht]; rfl
  · obtain ⟨⟨o, ho⟩, hd⟩ : (∃ o, t.origin = some o) ∧ t.dest = none := by simpa [Valid, hD] using hv
    have ht : t = ⟨.D, some o, none, t.magnitude, none⟩ := by cases t; simp_all
    unfold addBirthDeath
    simp only [hD, ho, mkTransition, Option.isNone_some, Option.isSome_none, Bool.false_eq_true, if_false]
    have hv' : Valid ⟨.D, some o, none, t.magnitude, none⟩ := ⟨⟨o, rfl⟩, rfl⟩
    simp only [bind, Except.bind]
    rw [route_event_single _ r hv' rfl, ← ht]; rfl

/-- ... and a multi-transition Event whose rate is carried by one member transition (the constructor's
documented input form 4) has the same core as the Event given the rate directly -/
theorem route_member_eq (pre post : List Transn) (t : Transn) (r : Expr)
    (hpre : ∀ x ∈ pre, x.equation = none ∧ x.ttype ≠ .ODE) (hpost : ∀ x ∈ post, x.equation = none ∧ x.ttype ≠ .ODE)
    (ht : t.ttype ≠ .ODE) (hlen : 2 ≤ (pre ++ t :: post).length) :
    ∃ e, mkEvent (pre ++ { t with equation := some r } :: post) none = .ok e
      ∧ ecore e = ecore ⟨some r, pre ++ t :: post⟩ := by
  have hfpre : pre.filter (fun x => x.equation.isSome) = [] := by
    apply List.filter_eq_nil_iff.mpr; intro x hx; simp [(hpre x hx).1]
  have hfpost : post.filter (fun x => x.equation.isSome) = [] := by
    apply List.filter_eq_nil_iff.mpr; intro x hx; simp [(hpost x hx).1]
  have hmpre : pre.filterMap (·.equation) = [] := by
    apply List.filterMap_eq_nil_iff.mpr; intro x hx; exact (hpre x hx).1
  have hany : ((pre ++ { t with equation := some r } :: post).any fun x => x.ttype == TType.ODE) = false := by
    simp only [List.any_append, List.any_cons, Bool.or_eq_false_iff, List.any_eq_false]
    have key : ∀ x : Transn, x.ttype ≠ .ODE → (x.ttype == TType.ODE) = false := by
      intro x hx; cases h : x.ttype <;> first | exact absurd h hx | rfl
    exact ⟨fun x hx => by simp [key x (hpre x hx).2], key _ ht, fun x hx => by simp [key x (hpost x hx).2]⟩
  refine ⟨⟨some r, pre ++ { t with equation := some r } :: post⟩, ?_, by simp [ecore, tcore]⟩
  unfold mkEvent
  rw [if_neg (by simp [hany])]
  have hshape : ∀ x, pre ++ { t with equation := some r } :: post ≠ [x] := by
    intro x hx
    have := congrArg List.length hx
    simp at this hlen; omega
  split
  · rename_i x heq; exact absurd heq (hshape x)
  · simp [List.filter_append, hfpre, hfpost, List.filterMap_append, hmpre]

/-- **All single-transition routes agree**: Event with rate, Event whose transition carries the rate,
bare Transition, legacy list — the event appended to the model has the same core, hence (by
`assemble_congr`) the same assembled equations. -/
theorem routes_agree (m : ModelDef) (t : Transn) (r : Expr) (hv : Valid t) (he : t.equation = none) :
    (∃ e, mkEvent [t] (some r) = .ok e ∧ ecore e = ecore ⟨some r, [t]⟩)
    ∧ (∃ e, mkEvent [{ t with equation := some r }] none = .ok e ∧ ecore e = ecore ⟨some r, [t]⟩)
    ∧ addEventTransition m { t with equation := some r } = .ok (addEvent m ⟨some r, [t]⟩)
    ∧ (t.ttype = .T → addTransition m { t with equation := some r } = .ok (addEvent m ⟨some r, [t]⟩))
    ∧ (t.ttype = .B ∨ t.ttype = .D → addBirthDeath m { t with equation := some r } = .ok (addEvent m ⟨some r, [t]⟩)) :=
  ⟨⟨_, route_event_single t r hv he, rfl⟩, route_event_eq t r hv, route_bare m t r hv he,
   fun hT => route_legacy_T m t r hv hT he, fun hBD => route_legacy_BD m t r hv hBD he⟩

/-! ### order and the explicit-ODE route (values, every field and interpretation) -/

variable {K : Type} [Field K]

/-- **Order of events and of explicit terms is irrelevant.** -/
theorem order_irrelevant (I : FnInterp K) (ρ : String → K) (n : Nat) (evs evs' : List REvent)
    (odes odes' : List (Nat × Expr)) (k : Nat) (hp : evs.Perm evs') (hq : odes.Perm odes')
    (h : C01.WF n evs) (ho : ∀ o ∈ odes, o.1 < n) :
    comp I ρ (odeEqnR n evs odes) k = comp I ρ (odeEqnR n evs' odes') k := by
  have h' : C01.WF n evs' := fun ev hev => h ev (hp.symm.subset hev)
  have ho' : ∀ o ∈ odes', o.1 < n := fun o hmem => ho o (hq.symm.subset hmem)
  rw [C01.ode_entry I ρ n evs odes k h ho, C01.ode_entry I ρ n evs' odes' k h' ho']
  unfold odeTerms
  rw [(hp.map _).sum_eq, (hq.map _).sum_eq]

/-- **Explicit-ODE route**: a between-state process written as the two explicit terms `−m·r` at the
origin and `+m·r` at the destination gives the same right-hand side. -/
theorem explicit_ode_route (I : FnInterp K) (ρ : String → K) (n : Nat) (evs : List REvent)
    (odes : List (Nat × Expr)) (r mag : Expr) (o d k : Nat) (ho' : o < n) (hd' : d < n)
    (h : C01.WF n evs) (ho : ∀ x ∈ odes, x.1 < n) :
    comp I ρ (odeEqnR n (⟨r, [⟨.T, o, d, mag⟩]⟩ :: evs) odes) k
      = comp I ρ (odeEqnR n evs ((o, Expr.neg (Expr.mul mag r)) :: (d, Expr.mul mag r) :: odes)) k := by
  have hwf : C01.WF n (⟨r, [⟨.T, o, d, mag⟩]⟩ :: evs) := by
    intro ev hev tr htr
    rcases List.mem_cons.mp hev with rfl | hev'
    · simp at htr; subst htr; exact ⟨ho', hd'⟩
    · exact h ev hev' tr htr
  have hodes : ∀ x ∈ ((o, Expr.neg (Expr.mul mag r)) :: (d, Expr.mul mag r) :: odes), x.1 < n := by
    intro x hx
    simp only [List.mem_cons] at hx
    rcases hx with rfl | rfl | hx
    · exact ho'
    · exact hd'
    · exact ho x hx
  rw [C01.ode_entry I ρ n _ odes k hwf ho, C01.ode_entry I ρ n evs _ k h hodes]
  simp only [List.map_cons, List.sum_cons, odeTerms, net, sgn, List.map_nil, List.sum_nil, Expr.eval]
  by_cases h1 : d = k <;> by_cases h2 : o = k <;> simp [h1, h2] <;> ring

/-! ### string and list declarations -/

/-- a name is a non-empty run of characters that are neither commas nor white space -/
def IsName (w : List Char) : Prop := w ≠ [] ∧ ∀ c ∈ w, ¬ (c == ',' || c.isWhitespace) = true

theorem splitChars_acc (sep : Char → Bool) (w : List Char) (hw : ∀ c ∈ w, ¬ sep c = true) (rest cur : List Char) :
    splitChars sep (w ++ rest) cur = splitChars sep rest (w.reverse ++ cur) := by
  induction w generalizing cur with
  | nil => simp
  | cons c w ih =>
    have hc : sep c = false := by simpa using hw c (by simp)
    simp only [List.cons_append, splitChars, hc, Bool.false_eq_true, if_false]
    rw [ih (fun c' hc' => hw c' (by simp [hc']))]
    simp

/-- leading separators are skipped -/
theorem splitChars_skip (s rest : List Char) (hs : ∀ c ∈ s, (c == ',' || c.isWhitespace) = true) :
    splitChars (fun c => c == ',' || c.isWhitespace) (s ++ rest) [] =
    splitChars (fun c => c == ',' || c.isWhitespace) rest [] := by
  induction s with
  | nil => simp
  | cons c s ih =>
    have hc := hs c (by simp)
    simp only [List.cons_append, splitChars, hc, if_true, List.isEmpty_nil]
    exact ih (fun c' hc' => hs c' (by simp [hc']))

/-- a name followed by the end of input or by a separator is emitted as one piece -/
theorem splitChars_word (w rest : List Char) (hw : IsName w)
    (hrest : rest = [] ∨ ∃ c rest', rest = c :: rest' ∧ (c == ',' || c.isWhitespace) = true) :
    splitChars (fun c => c == ',' || c.isWhitespace) (w ++ rest) [] =
    w :: splitChars (fun c => c == ',' || c.isWhitespace) rest [] := by
  rw [splitChars_acc _ w (by intro c hc; simpa using hw.2 c hc)]
  have hne : (w.reverse).isEmpty = false := by
    cases w with
    | nil => exact absurd rfl hw.1
    | cons _ _ => simp
  rcases hrest with rfl | ⟨c, rest', rfl, hc⟩
  · simp [splitChars, hne]
  · simp [splitChars, hc, hne]

/-- **A string declaration splits into exactly the names it lists**: names preceded by non-empty runs
of separators (commas / white space; the first run may be given as any run), with optional trailing
separators. -/
theorem splitDecl_join_chars (names : List (List Char)) (hn : ∀ w ∈ names, IsName w)
    (seps : List (List Char)) (tail : List Char)
    (hs : ∀ s ∈ seps, s ≠ [] ∧ ∀ c ∈ s, (c == ',' || c.isWhitespace) = true)
    (ht : ∀ c ∈ tail, (c == ',' || c.isWhitespace) = true) (hlen : seps.length = names.length) :
    splitChars (fun c => c == ',' || c.isWhitespace)
      ((List.zipWith (fun s w => s ++ w) seps names).flatten ++ tail) [] = names := by
  induction names generalizing seps with
  | nil =>
    cases seps with
    | nil =>
      simp only [List.zipWith_nil_right, List.flatten_nil, List.nil_append]
      have := splitChars_skip tail [] ht
      simpa [splitChars] using this
    | cons s seps => simp at hlen
  | cons w names ih =>
    cases seps with
    | nil => simp at hlen
    | cons s seps =>
      have hw := hn w (by simp)
      have hs0 := hs s (by simp)
      have hrest := ih (fun w' hw' => hn w' (by simp [hw'])) seps (fun s' hs' => hs s' (by simp [hs'])) (by simpa using hlen)
      simp only [List.zipWith_cons_cons, List.flatten_cons, List.append_assoc]
      rw [splitChars_skip s _ hs0.2, splitChars_word w _ hw ?_, hrest]
      -- what follows the word is empty or starts with a separator
      cases names with
      | nil =>
        cases seps with
        | cons _ _ => simp at hlen
        | nil =>
          simp only [List.zipWith_nil_right, List.flatten_nil, List.nil_append]
          cases tail with
          | nil => exact Or.inl rfl
          | cons c tail => exact Or.inr ⟨c, tail, rfl, ht c (by simp)⟩
      | cons w2 names2 =>
        cases seps with
        | nil => simp at hlen
        | cons s2 seps2 =>
          have hs2 := hs s2 (by simp)
          cases s2 with
          | nil => exact absurd rfl hs2.1
          | cons c s2' =>
            refine Or.inr ⟨c, s2' ++ w2 ++ ((List.zipWith (fun s w => s ++ w) seps2 names2).flatten ++ tail), ?_, hs2.2 c (by simp)⟩
            simp [List.zipWith_cons_cons, List.flatten_cons]

/-- the string form of the same statement: `"S, I R"`-style declarations list the same names as the list form -/
theorem splitDecl_join (names : List (List Char)) (hn : ∀ w ∈ names, IsName w)
    (seps : List (List Char)) (tail : List Char)
    (hs : ∀ s ∈ seps, s ≠ [] ∧ ∀ c ∈ s, (c == ',' || c.isWhitespace) = true)
    (ht : ∀ c ∈ tail, (c == ',' || c.isWhitespace) = true) (hlen : seps.length = names.length) :
    splitDecl (String.ofList ((List.zipWith (fun s w => s ++ w) seps names).flatten ++ tail))
      = names.map String.ofList := by
  unfold splitDecl
  rw [String.toList_ofList, splitDecl_join_chars names hn seps tail hs ht hlen]

/-! ### Staged construction (incremental route observed between operations) -/

/-- Building with the incremental operations `ops₁ ++ ops₂` is building with `ops₁` and then folding `ops₂` over
the result.  Hence the model the harness observes between two incremental operations is the model of the spec
read up to there (the driver is asked for exactly that prefix), and since `buildModel` has no argument besides
the spec, neither observing the intermediate model nor the existence of another instance can change what the
remaining operations produce: the interleaving probes of the harness hold the real code to this. -/
theorem staged_build (s : Spec) (ops₁ ops₂ : List Mut) :
    buildModel { s with thenOps := ops₁ ++ ops₂ }
      = (buildModel { s with thenOps := ops₁ }) >>= fun m => ops₂.foldlM applyMut m := by
  unfold buildModel
  simp only [List.foldlM_append, bind_assoc]

/-- one more incremental operation = the operation applied to the model built so far -/
theorem staged_build_snoc (s : Spec) (ops : List Mut) (op : Mut) :
    buildModel { s with thenOps := ops ++ [op] }
      = (buildModel { s with thenOps := ops }) >>= fun m => applyMut m op := by
  rw [staged_build]
  simp [List.foldlM_cons, List.foldlM_nil]

/-- non-vacuity -/
example : splitDecl " S, I  R " = ["S", "I", "R"] := by decide
example : Valid ⟨.T, some "S", some "I", .num 1, none⟩ := ⟨"S", "I", rfl, rfl, by decide⟩

end Pygom.C12
