/-
C09 - parameter values are bound to the parameters they were given for.

The setter model is `Pygom/Params.lean` (`stepLegacy` = the code as written, `step true` = the same
computation made atomic).  `V` is an arbitrary value type; there is no bound on the number of
parameters nor on the length of a history of assignments.

Specification (two lines): a full assignment (positional list / tuple / array, pair list) starts
from the all-zero map and a partial one (dict) from the current map; then the names mentioned are
overridden in input order (`Spec.step`).  An assignment that is not `valid` (wrong length, unknown
name, too many entries, unsupported value or input type) changes nothing (`specRun`).

From `Pygom/Lemmas/Params.lean`: `Spec.update` (pointwise override in input order), the abstraction
`abs s n` = value of the *last* dict entry named `n` (what the unroll loop leaves at `index n`),
and the representation invariant `Good s`:
  distinct declared names;  `Inv`: **no entry named `n` follows a symbol-keyed entry named `n`**
  (string-keyed entries come from a positional assignment and precede every symbol-keyed entry; a
  symbol key is written by `dset`, which replaces in place, so it stays the most recent entry of its
  name - this is why the later duplicate key wins the unroll loop, `lv_dset`);  every key is a
  declared name;  `_paramValue` is the unroll of `_parameters`.

Copies: `copies_bind_by_name` (any interleaving of assignments to several live instances and `copy.deepcopy`),
`restore_preserves_abs`, `setstate_rebuild_counterexample`.
Value coincidences: `early_exit_input_order_counterexample`.  Value scales: `early_exit_close_values_counterexample`.
-/
import Pygom.Lemmas.Params

set_option linter.unusedSimpArgs false
set_option linter.unusedVariables false
set_option linter.unnecessarySeqFocus false
set_option linter.unusedSectionVars false

namespace Pygom.C09
open Pygom.Params

variable {V : Type} [Zero V]

/-! ## specification -/

/-- the `(name, value)` pairs an assignment mentions, in input order -/
def mentions (params : List String) : Op V → List (String × V)
  | .nums vals => params.zip vals
  | .arr _ flat => params.zip flat
  | .pairs ps => ps.map (fun p => (p.1.name, p.2))
  | .dict es => es.filterMap (fun e => e.2.map (fun v => (e.1.name, v)))
  | _ => []

/-- only a dict is a partial update -/
def isPartial : Op V → Bool
  | .dict _ => true
  | _ => false

/-- the assignments the property calls acceptable: right length, every name a declared parameter,
at most `n` dict entries, numeric values -/
def valid (params : List String) : Op V → Prop
  | .none => params.length = 0
  | .nums vals => vals.length = params.length ∧ params ≠ []
  | .arr len flat => len = params.length ∧ flat.length = params.length ∧ params ≠ []
  | .pairs ps => ps.length = params.length ∧ params ≠ [] ∧ ∀ p ∈ ps, pairOk p.1 ∧ p.1.name ∈ params
  | .dict es => es.length ≤ params.length ∧ ∀ e ∈ es, e.1.name ∈ params ∧ e.2.isSome
  | _ => False

instance (params : List String) (op : Op V) : Decidable (valid params op) := by
  cases op <;> unfold valid <;> exact inferInstance

/-- **the two-line spec**: full assignment replaces every name; partial update overrides only the
names it mentions -/
def Spec.step (params : List String) (f : String → V) (op : Op V) : String → V :=
  Spec.update (if isPartial op then f else fun _ => 0) (mentions params op)

/-- the spec over a history: assignments that are not valid are skipped -/
def specRun (params : List String) (f : String → V) (ops : List (Op V)) : String → V :=
  ops.foldl (fun g op => if valid params op then Spec.step params g op else g) f

/-! ## every accepted assignment refines the spec -/

/-- **binding_refines_spec (one step).**  From a state satisfying the invariant, every valid
assignment is accepted, re-establishes the invariant, and changes the abstract name → value map
exactly as the two-line spec says. -/
theorem binding_refines_spec (s : State V) (hg : Good s) (op : Op V) (hv : valid s.params op) :
    ∃ s', stepLegacy s op = (s', none) ∧ Good s' ∧ s'.params = s.params
      ∧ Params.abs s' = Spec.step s.params (Params.abs s) op := by
  cases op with
  | none =>
    simp only [valid] at hv
    simp only [stepLegacy, hv, if_true]
    refine ⟨_, commit_ok s [] (by simp), good_commit s [] hg.nodup trivial (by simp), rfl, ?_⟩
    rw [abs_commit]; funext n; simp [Spec.step, isPartial, mentions]
  | nums vals =>
    obtain ⟨hlen, hne⟩ := hv
    obtain ⟨s', h1, h2, h3, h4⟩ := nums_valid s hg vals hlen hne
    refine ⟨s', ?_, h2, h3, by simpa [Spec.step, isPartial, mentions] using h4⟩
    simp only [stepLegacy, hlen, ne_eq, not_true_eq_false, if_false]
    cases vals with
    | nil => exact absurd (List.length_eq_zero_iff.mp hlen.symm) hne
    | cons a l => exact h1
  | arr len flat =>
    obtain ⟨hl, hlen, hne⟩ := hv
    obtain ⟨s', h1, h2, h3, h4⟩ := nums_valid s hg flat hlen hne
    refine ⟨s', ?_, h2, h3, by simpa [Spec.step, isPartial, mentions] using h4⟩
    simp only [stepLegacy, hl, hlen, ne_eq, not_true_eq_false, if_false]
    cases flat with
    | nil => exact absurd (List.length_eq_zero_iff.mp hlen.symm) hne
    | cons a l => exact h1
  | pairs ps =>
    obtain ⟨hlen, hne, hall⟩ := hv
    have hb := buildPairs_of_valid s.params ps [] hall
    have hw := lv_foldl_dset (ps.map (fun p => (p.1.name, p.2))) ([] : Dict V) trivial (0 : V)
    have hn : ∀ kv ∈ writes ([] : Dict V) (ps.map (fun p => (p.1.name, p.2))), kv.1.name ∈ s.params := by
      intro kv hkv
      rcases mem_foldl_dset _ _ _ hkv with h | ⟨q, hq, rfl⟩
      · simp at h
      · obtain ⟨p, hp, rfl⟩ := List.mem_map.mp hq
        exact (hall p hp).2
    refine ⟨_, ?_, good_commit s _ hg.nodup hw.2 hn, rfl, ?_⟩
    · simp only [stepLegacy, hlen, ne_eq, not_true_eq_false, if_false]
      cases ps with
      | nil => exact absurd (List.length_eq_zero_iff.mp hlen.symm) hne
      | cons a l => simp only [hb]; exact commit_ok s _ hn
    · rw [abs_commit]
      simpa [Spec.step, isPartial, mentions] using hw.1
  | dict es =>
    obtain ⟨hlen, hall⟩ := hv
    have hw := lv_foldl_dset (es.filterMap (fun e => e.2.map (fun v => (e.1.name, v)))) s.items hg.inv (0 : V)
    have hn : ∀ kv ∈ writes s.items (es.filterMap (fun e => e.2.map (fun v => (e.1.name, v)))),
        kv.1.name ∈ s.params := by
      intro kv hkv
      rcases mem_foldl_dset _ _ _ hkv with h | ⟨q, hq, rfl⟩
      · exact hg.names kv h
      · obtain ⟨e, he, hq'⟩ := List.mem_filterMap.mp hq
        cases hv' : e.2 with
        | none => simp [hv'] at hq'
        | some v => simp [hv'] at hq'; subst hq'; exact (hall e he).1
    refine ⟨_, ?_, good_commit s _ hg.nodup hw.2 hn, rfl, ?_⟩
    · simp only [stepLegacy, Nat.not_lt.mpr hlen, if_false]
      cases hd : s.dict with
      | none =>
        have : s.items = [] := by simp [State.items, hd]
        simp only [buildDict_of_valid s.params es [] hall]
        rw [← this]; exact commit_ok s _ hn
      | some d0 =>
        have : s.items = d0 := by simp [State.items, hd]
        simp only [buildDict_of_valid s.params es d0 hall]
        rw [← this]; exact commit_ok s _ hn
    · rw [abs_commit]
      have ha : Params.abs s = fun m => lv m 0 s.items := rfl
      simpa [Spec.step, isPartial, mentions, ha] using hw.1
  | seqOther len => exact absurd hv (by simp [valid])
  | scalar v => exact absurd hv (by simp [valid])
  | other => exact absurd hv (by simp [valid])

/-- **rejection, in general.**  Whatever the state (even one corrupted by an earlier failure), an
assignment that is not valid raises. -/
theorem invalid_rejected (s : State V) (op : Op V) (hv : ¬ valid s.params op) :
    (stepLegacy s op).2 ≠ none := by
  cases op with
  | none =>
    simp only [valid] at hv
    simp [stepLegacy, hv]
  | nums vals =>
    simp only [valid, not_and_or, ne_eq, not_not] at hv
    simp only [stepLegacy]
    split
    · simp
    · rename_i hlen; simp only [ne_eq, not_not] at hlen
      cases vals with
      | nil => simp
      | cons a l =>
        rcases hv with h | h
        · exact absurd hlen h
        · rw [h] at hlen; simp at hlen
  | arr len flat =>
    simp only [valid, not_and_or, ne_eq, not_not] at hv
    simp only [stepLegacy]
    split
    · simp
    · split
      · simp
      · rename_i hl hlen; simp only [ne_eq, not_not] at hl hlen
        cases flat with
        | nil => simp
        | cons a l =>
          rcases hv with h | h | h
          · exact absurd hl h
          · exact absurd hlen h
          · rw [h] at hlen; simp at hlen
  | pairs ps =>
    simp only [stepLegacy]
    split
    · simp
    · rename_i hlen; simp only [ne_eq, not_not] at hlen
      cases ps with
      | nil => simp
      | cons a l =>
        simp only
        split
        · simp
        · rename_i d hd
          obtain ⟨e1, e2⟩ := buildPairs_ok_inv _ _ _ _ hd
          have hne : s.params ≠ [] := by
            intro h; rw [h] at hlen; simp at hlen
          have : ∃ p ∈ a :: l, p.1.name ∉ s.params := by
            by_contra hc
            push Not at hc
            exact hv ⟨hlen, hne, fun p hp => ⟨e2 p hp, hc p hp⟩⟩
          obtain ⟨p, hp, hpn⟩ := this
          obtain ⟨v0, hv0⟩ := foldl_dset_has_keys ((a :: l).map (fun p => (p.1.name, p.2))) []
            (p.1.name, p.2) (List.mem_map_of_mem (f := fun p => (p.1.name, p.2)) hp)
          rw [e1]
          exact commit_err s _ (Key.sym p.1.name, v0) hv0 hpn
  | seqOther len =>
    simp only [stepLegacy]
    split
    · simp
    · split <;> simp
  | dict es =>
    simp only [stepLegacy]
    split
    · simp
    · rename_i hlen
      have key : ∀ d0 d : Dict V, buildDict s.params es d0 = (d, none) → (commit s d).2 ≠ none := by
        intro d0 d hd
        obtain ⟨e1, e2⟩ := buildDict_none_inv _ _ _ _ hd
        have : ∃ e ∈ es, e.1.name ∉ s.params := by
          by_contra hc
          push Not at hc
          exact hv ⟨Nat.not_lt.mp hlen, fun e he => ⟨hc e he, e2 e he⟩⟩
        obtain ⟨e, he, hen⟩ := this
        obtain ⟨v, hv'⟩ := Option.isSome_iff_exists.mp (e2 e he)
        have hm : (e.1.name, v) ∈ es.filterMap (fun e => e.2.map (fun v => (e.1.name, v))) :=
          List.mem_filterMap.mpr ⟨e, he, by simp [hv']⟩
        obtain ⟨v0, hv0⟩ := foldl_dset_has_keys _ d0 _ hm
        rw [e1]
        exact commit_err s _ (Key.sym e.1.name, v0) hv0 hen
      cases hd : s.dict with
      | none =>
        simp only
        rcases hb : buildDict s.params es [] with ⟨d, _ | e⟩
        · simpa using key [] d hb
        · simp
      | some d0 =>
        simp only
        rcases hb : buildDict s.params es d0 with ⟨d, _ | e⟩
        · simpa using key d0 d hb
        · simp
  | scalar v => simp only [stepLegacy]; split <;> simp
  | other => simp [stepLegacy]

/-! ## the two variants of the transition -/

theorem step_err (atomic : Bool) (s : State V) (op : Op V) :
    (step atomic s op).2 = (stepLegacy s op).2 := by
  unfold step
  cases atomic
  · simp
  · simp only [if_true]
    split
    · rename_i e he; simp [he]
    · rename_i he; simp [he]

/-- a valid assignment behaves identically in both variants -/
theorem step_of_valid (atomic : Bool) (s : State V) (hg : Good s) (op : Op V) (hv : valid s.params op) :
    ∃ s', step atomic s op = (s', none) ∧ Good s' ∧ s'.params = s.params
      ∧ Params.abs s' = Spec.step s.params (Params.abs s) op := by
  obtain ⟨s', h1, h2, h3, h4⟩ := binding_refines_spec s hg op hv
  refine ⟨s', ?_, h2, h3, h4⟩
  unfold step
  cases atomic <;> simp [h1]

/-- atomic variant: a rejected assignment leaves the state untouched -/
theorem rejected_leaves_state (s : State V) (op : Op V) (h : (step true s op).2 ≠ none) :
    (step true s op).1 = s := by
  unfold step at h ⊢
  simp only [if_true] at h ⊢
  split
  · rfl
  · rename_i he; simp [he] at h

/-- from a state satisfying the invariant: accepted ⇔ valid (both variants) -/
theorem accepted_iff_valid (atomic : Bool) (s : State V) (hg : Good s) (op : Op V) :
    (step atomic s op).2 = none ↔ valid s.params op := by
  constructor
  · intro h
    by_contra hv
    exact invalid_rejected s op hv (by rw [← step_err atomic]; exact h)
  · intro hv
    obtain ⟨s', h1, _⟩ := step_of_valid atomic s hg op hv
    rw [h1]

/-- `_paramValue[i]` is the abstract value of `params[i]` -/
theorem pv_get (s : State V) (hg : Good s) (i : Nat) (hi : i < s.params.length) :
    s.pv[i]? = some (Params.abs s s.params[i]) := by
  rw [hg.pv]
  exact unrollPure_get s.params hg.nodup s.items hg.names i hi _ 0 (by simp) (by simp [hi])

theorem pv_length (s : State V) (hg : Good s) : s.pv.length = s.params.length := by
  rw [hg.pv, unrollPure_length]; simp

theorem pv_eq_of_abs_eq (s₁ s₂ : State V) (h₁ : Good s₁) (h₂ : Good s₂) (hp : s₁.params = s₂.params)
    (ha : Params.abs s₁ = Params.abs s₂) : s₁.pv = s₂.pv := by
  apply List.ext_getElem?
  intro i
  by_cases hi : i < s₁.params.length
  · rw [pv_get s₁ h₁ i hi, pv_get s₂ h₂ i (hp ▸ hi), ha]
    simp [hp]
  · have l1 := pv_length s₁ h₁
    have l2 := pv_length s₂ h₂
    rw [List.getElem?_eq_none (by omega), List.getElem?_eq_none (by rw [l2, ← hp]; omega)]

/-! ## histories -/

theorem run_cons (atomic : Bool) (s : State V) (op : Op V) (ops : List (Op V)) :
    run atomic s (op :: ops) = run atomic (step atomic s op).1 ops := rfl

theorem specRun_cons (params : List String) (f : String → V) (op : Op V) (ops : List (Op V)) :
    specRun params f (op :: ops)
      = specRun params (if valid params op then Spec.step params f op else f) ops := rfl

/-- atomic variant, every history (valid and invalid assignments in any order, any formats):
the invariant holds throughout and the abstract map is the spec's -/
theorem run_atomic_refines (s : State V) (hg : Good s) (ops : List (Op V)) :
    Good (run true s ops) ∧ (run true s ops).params = s.params
      ∧ Params.abs (run true s ops) = specRun s.params (Params.abs s) ops := by
  induction ops generalizing s with
  | nil => exact ⟨hg, rfl, rfl⟩
  | cons op ops ih =>
    rw [run_cons, specRun_cons]
    by_cases hv : valid s.params op
    · obtain ⟨s', h1, h2, h3, h4⟩ := step_of_valid true s hg op hv
      rw [h1, if_pos hv]
      obtain ⟨i1, i2, i3⟩ := ih s' h2
      exact ⟨i1, by rw [i2, h3], by rw [i3, h3, h4]⟩
    · have hr : (step true s op).2 ≠ none := by
        rw [step_err]; exact invalid_rejected s op hv
      rw [rejected_leaves_state s op hr, if_neg hv]
      exact ih s hg

/-- either variant, histories of valid assignments only -/
theorem run_valid_refines (atomic : Bool) (s : State V) (hg : Good s) (ops : List (Op V))
    (hall : ∀ op ∈ ops, valid s.params op) :
    Good (run atomic s ops) ∧ (run atomic s ops).params = s.params
      ∧ Params.abs (run atomic s ops) = specRun s.params (Params.abs s) ops := by
  induction ops generalizing s with
  | nil => exact ⟨hg, rfl, rfl⟩
  | cons op ops ih =>
    rw [run_cons, specRun_cons]
    have hv := hall op (by simp)
    obtain ⟨s', h1, h2, h3, h4⟩ := step_of_valid atomic s hg op hv
    rw [h1, if_pos hv]
    obtain ⟨i1, i2, i3⟩ := ih s' h2 (fun o ho => by rw [h3]; exact hall o (by simp [ho]))
    exact ⟨i1, by rw [i2, h3], by rw [i3, h3, h4]⟩

/-- **history_binding** (atomic setter).  For every list of distinct declared names and **every**
sequence of assignments in mixed formats - accepted or rejected - started on a new model:
`_paramValue[i]` is the value the two-line spec gives `params[i]`, i.e. the latest value supplied
for that name by an accepted assignment since the last full assignment (0 if none). -/
theorem history_binding (params : List String) (hnd : params.Nodup) (ops : List (Op V))
    (i : Nat) (hi : i < params.length) :
    (run true (init params) ops).pv[i]? = some (specRun params (fun _ => 0) ops params[i]) := by
  obtain ⟨h1, h2, h3⟩ := run_atomic_refines (init params) (good_init params hnd) ops
  have hp : (run true (init (V := V) params) ops).params = params := h2
  have hi' : i < (run true (init (V := V) params) ops).params.length := by rw [hp]; exact hi
  have e : (run true (init (V := V) params) ops).params[i]'hi' = params[i] := by simp [hp]
  have ha : Params.abs (init (V := V) params) = fun _ => 0 := by
    funext n; simp [Params.abs, lastVal, State.items, init]
  rw [pv_get _ h1 i hi', e, h3, ha]
  rfl

/-- **history_binding, code as written** (`atomic = false`): the same conclusion for every history
all of whose assignments are valid.
FULL STATEMENT (false of `stepLegacy`, see `legacy_rejected_dict_leaks_counterexample` and
`legacy_time_symbol_commits_counterexample`): the conclusion of `history_binding` for
`run false` and arbitrary histories. -/
theorem history_binding_legacy_partial (params : List String) (hnd : params.Nodup) (ops : List (Op V))
    (hall : ∀ op ∈ ops, valid params op) (i : Nat) (hi : i < params.length) :
    (run false (init params) ops).pv[i]? = some (specRun params (fun _ => 0) ops params[i]) := by
  obtain ⟨h1, h2, h3⟩ := run_valid_refines false (init params) (good_init params hnd) ops hall
  have hp : (run false (init (V := V) params) ops).params = params := h2
  have hi' : i < (run false (init (V := V) params) ops).params.length := by rw [hp]; exact hi
  have e : (run false (init (V := V) params) ops).params[i]'hi' = params[i] := by simp [hp]
  have ha : Params.abs (init (V := V) params) = fun _ => 0 := by
    funext n; simp [Params.abs, lastVal, State.items, init]
  rw [pv_get _ h1 i hi', e, h3, ha]
  rfl

/-! ## permutation invariance -/

theorem mentions_dict_fst (es : List (NameRef × Option V)) (h : ∀ e ∈ es, e.2.isSome) :
    (es.filterMap (fun e => e.2.map (fun v => (e.1.name, v)))).map Prod.fst = es.map (fun e => e.1.name) := by
  induction es with
  | nil => rfl
  | cons e es ih =>
    obtain ⟨v, hv⟩ := Option.isSome_iff_exists.mp (h e (by simp))
    rw [List.filterMap_cons]
    simp only [hv, Option.map_some, List.map_cons]
    rw [ih (fun q hq => h q (by simp [hq]))]

/-- **permutation_invariance.**  Pairs in any order, a dict in any order (distinct names): the same
accept/reject decision, the same name → value map and the same `_paramValue`. -/
theorem permutation_invariance (atomic : Bool) (s : State V) (hg : Good s) :
    (∀ ps qs : List (NameRef × V), ps.Perm qs → (ps.map (fun p => p.1.name)).Nodup →
      ((step atomic s (.pairs ps)).2 = none ↔ (step atomic s (.pairs qs)).2 = none) ∧
      ((step atomic s (.pairs ps)).2 = none →
        Params.abs (step atomic s (.pairs ps)).1 = Params.abs (step atomic s (.pairs qs)).1 ∧
        (step atomic s (.pairs ps)).1.pv = (step atomic s (.pairs qs)).1.pv)) ∧
    (∀ es fs : List (NameRef × Option V), es.Perm fs → (es.map (fun e => e.1.name)).Nodup →
      ((step atomic s (.dict es)).2 = none ↔ (step atomic s (.dict fs)).2 = none) ∧
      ((step atomic s (.dict es)).2 = none →
        Params.abs (step atomic s (.dict es)).1 = Params.abs (step atomic s (.dict fs)).1 ∧
        (step atomic s (.dict es)).1.pv = (step atomic s (.dict fs)).1.pv)) := by
  constructor
  · intro ps qs hperm hnd
    have hvv : valid s.params (Op.pairs ps) ↔ valid s.params (Op.pairs qs) := by
      simp only [valid]
      constructor
      · rintro ⟨a, b, c⟩; exact ⟨by rw [← hperm.length_eq]; exact a, b, fun p hp => c p (hperm.mem_iff.mpr hp)⟩
      · rintro ⟨a, b, c⟩; exact ⟨by rw [hperm.length_eq]; exact a, b, fun p hp => c p (hperm.mem_iff.mp hp)⟩
    refine ⟨by rw [accepted_iff_valid atomic s hg, accepted_iff_valid atomic s hg, hvv], ?_⟩
    intro hacc
    have hv1 := (accepted_iff_valid atomic s hg _).mp hacc
    have hv2 := hvv.mp hv1
    obtain ⟨s1, a1, g1, p1, e1⟩ := step_of_valid atomic s hg _ hv1
    obtain ⟨s2, a2, g2, p2, e2⟩ := step_of_valid atomic s hg _ hv2
    rw [a1, a2]
    have habs : Params.abs s1 = Params.abs s2 := by
      rw [e1, e2]
      simp only [Spec.step, isPartial, mentions]
      apply Spec.update_perm
      · exact hperm.map _
      · simpa [List.map_map, Function.comp_def] using hnd
    exact ⟨habs, pv_eq_of_abs_eq s1 s2 g1 g2 (by rw [p1, p2]) habs⟩
  · intro es fs hperm hnd
    have hvv : valid s.params (Op.dict es) ↔ valid s.params (Op.dict fs) := by
      simp only [valid]
      constructor
      · rintro ⟨a, c⟩; exact ⟨by rw [← hperm.length_eq]; exact a, fun p hp => c p (hperm.mem_iff.mpr hp)⟩
      · rintro ⟨a, c⟩; exact ⟨by rw [hperm.length_eq]; exact a, fun p hp => c p (hperm.mem_iff.mp hp)⟩
    refine ⟨by rw [accepted_iff_valid atomic s hg, accepted_iff_valid atomic s hg, hvv], ?_⟩
    intro hacc
    have hv1 := (accepted_iff_valid atomic s hg _).mp hacc
    have hv2 := hvv.mp hv1
    obtain ⟨s1, a1, g1, p1, e1⟩ := step_of_valid atomic s hg _ hv1
    obtain ⟨s2, a2, g2, p2, e2⟩ := step_of_valid atomic s hg _ hv2
    rw [a1, a2]
    have habs : Params.abs s1 = Params.abs s2 := by
      rw [e1, e2]
      simp only [Spec.step, isPartial, mentions]
      apply Spec.update_perm
      · exact hperm.filterMap _
      · rw [mentions_dict_fst es (fun e he => (hv1.2 e he).2)]; exact hnd
    exact ⟨habs, pv_eq_of_abs_eq s1 s2 g1 g2 (by rw [p1, p2]) habs⟩

/-- all accepted forms agree: a positional list, the same values as pairs in any order and as a
full dict in any order bind every declared name to the same value -/
theorem forms_agree (atomic : Bool) (s : State V) (hg : Good s) (vals : List V)
    (hlen : vals.length = s.params.length) (hne : s.params ≠ [])
    (ps : List (NameRef × V)) (hps : (ps.map (fun p => (p.1.name, p.2))).Perm (s.params.zip vals))
    (hok : ∀ p ∈ ps, pairOk p.1)
    (es : List (NameRef × Option V))
    (hes : (es.filterMap (fun e => e.2.map (fun v => (e.1.name, v)))).Perm (s.params.zip vals))
    (hsome : ∀ e ∈ es, e.2.isSome) :
    (step atomic s (.pairs ps)).1.pv = (step atomic s (.nums vals)).1.pv ∧
    (step atomic s (.dict es)).1.pv = (step atomic s (.nums vals)).1.pv ∧
    (step atomic s (.nums vals)).2 = none ∧ (step atomic s (.pairs ps)).2 = none ∧
    (step atomic s (.dict es)).2 = none := by
  have hfst : (s.params.zip vals).map Prod.fst = s.params := by rw [List.map_fst_zip]; omega
  have hndz : ((s.params.zip vals).map Prod.fst).Nodup := by rw [hfst]; exact hg.nodup
  have hv0 : valid s.params (Op.nums vals) := ⟨hlen, hne⟩
  have hlz : (s.params.zip vals).length = s.params.length := by simp [hlen]
  have hv1 : valid s.params (Op.pairs ps) := by
    refine ⟨?_, hne, ?_⟩
    · have := hps.length_eq; simp at this; omega
    · intro p hp
      refine ⟨hok p hp, ?_⟩
      have : (p.1.name, p.2) ∈ s.params.zip vals :=
        hps.mem_iff.mp (List.mem_map_of_mem (f := fun p => (p.1.name, p.2)) hp)
      exact (List.of_mem_zip this).1
  have hv2 : valid s.params (Op.dict es) := by
    refine ⟨?_, ?_⟩
    · have h1 := hes.length_eq
      have h2 := congrArg List.length (mentions_dict_fst es hsome)
      rw [List.length_map, List.length_map] at h2
      rw [h2] at h1
      omega
    · intro e he
      refine ⟨?_, hsome e he⟩
      obtain ⟨v, hv⟩ := Option.isSome_iff_exists.mp (hsome e he)
      have : (e.1.name, v) ∈ s.params.zip vals :=
        hes.mem_iff.mp (List.mem_filterMap.mpr ⟨e, he, by simp [hv]⟩)
      exact (List.of_mem_zip this).1
  obtain ⟨s0, a0, g0, p0, e0⟩ := step_of_valid atomic s hg _ hv0
  obtain ⟨s1, a1, g1, p1, e1⟩ := step_of_valid atomic s hg _ hv1
  obtain ⟨s2, a2, g2, p2, e2⟩ := step_of_valid atomic s hg _ hv2
  rw [a0, a1, a2]
  -- pv is determined by abs on the declared names
  have key : ∀ (t : State V), Good t → t.params = s.params →
      (∀ n ∈ s.params, Params.abs t n = Params.abs s0 n) → t.pv = s0.pv := by
    intro t gt pt hab
    apply List.ext_getElem?
    intro i
    by_cases hi : i < s.params.length
    · rw [pv_get t gt i (pt ▸ hi), pv_get s0 g0 i (p0 ▸ hi)]
      have : t.params[i]'(pt ▸ hi) = s.params[i] := by simp [pt]
      have h0 : s0.params[i]'(p0 ▸ hi) = s.params[i] := by simp [p0]
      rw [this, h0, hab _ (List.getElem_mem hi)]
    · have l1 := pv_length t gt
      have l2 := pv_length s0 g0
      have l3 := congrArg List.length pt
      have l4 := congrArg List.length p0
      rw [List.getElem?_eq_none (by omega), List.getElem?_eq_none (by omega)]
  refine ⟨key s1 g1 p1 ?_, key s2 g2 p2 ?_, rfl, rfl, rfl⟩
  · intro n hn
    rw [e1, e0]
    simp only [Spec.step, isPartial, mentions]
    rw [Spec.update_perm _ _ _ hps ((hps.map Prod.fst).nodup_iff.mpr hndz)]
    simp
  · intro n hn
    rw [e2, e0]
    simp only [Spec.step, isPartial, mentions]
    rw [Spec.update_perm _ _ _ hes ((hes.map Prod.fst).nodup_iff.mpr hndz)]
    -- every declared name is mentioned, so the starting map is irrelevant
    obtain ⟨i, hi, rfl⟩ := List.getElem_of_mem hn
    have hiv : i < vals.length := by omega
    have hm : (s.params[i], vals[i]) ∈ s.params.zip vals := by
      rw [List.mem_iff_getElem]
      exact ⟨i, by simp [hi, hiv], by simp⟩
    rw [Spec.update_mem_nodup _ _ hndz _ hm, Spec.update_mem_nodup _ _ hndz _ hm]

/-! ## rejections -/

/-- **rejects_unknown_and_bad_length.**  Wrong lengths are rejected without touching the state (a
short or long *list/tuple* raises `AttributeError` while the message is formatted - still a
rejection), too many dict entries likewise; an unknown name in a pair list or dict is rejected.
Holds in every state, for both variants. -/
theorem rejects_unknown_and_bad_length (atomic : Bool) (s : State V) :
    (∀ vals : List V, vals.length ≠ s.params.length →
        step atomic s (.nums vals) = (s, some .badLengthAttr)) ∧
    (∀ (len : Nat) (flat : List V), (len ≠ s.params.length ∨ flat.length ≠ s.params.length) →
        step atomic s (.arr len flat) = (s, some .badLength)) ∧
    (∀ ps : List (NameRef × V), ps.length ≠ s.params.length →
        step atomic s (.pairs ps) = (s, some .badLengthAttr)) ∧
    (∀ es : List (NameRef × Option V), es.length > s.params.length →
        step atomic s (.dict es) = (s, some .tooMany)) ∧
    (∀ ps : List (NameRef × V), (∃ p ∈ ps, p.1.name ∉ s.params) → (step atomic s (.pairs ps)).2 ≠ none) ∧
    (∀ es : List (NameRef × Option V), (∃ e ∈ es, e.1.name ∉ s.params) → (step atomic s (.dict es)).2 ≠ none) := by
  refine ⟨?_, ?_, ?_, ?_, ?_, ?_⟩
  · intro vals h
    unfold step; cases atomic <;> simp [stepLegacy, h]
  · intro len flat h
    unfold step
    rcases h with h | h
    · cases atomic <;> simp [stepLegacy, h]
    · by_cases hl : len = s.params.length
      · cases atomic <;> simp [stepLegacy, h, hl]
      · cases atomic <;> simp [stepLegacy, hl]
  · intro ps h
    unfold step; cases atomic <;> simp [stepLegacy, h]
  · intro es h
    unfold step; cases atomic <;> simp [stepLegacy, h]
  · rintro ps ⟨p, hp, hn⟩
    rw [step_err]
    apply invalid_rejected
    intro hv
    exact hn (hv.2.2 p hp).2
  · rintro es ⟨e, he, hn⟩
    rw [step_err]
    apply invalid_rejected
    intro hv
    exact hn (hv.2 e he).1

/-! ## documented non-claims -/

/-- a partial update on a model whose parameters were never set is accepted and binds every
unmentioned name to 0 (there is no "not set yet" error afterwards) -/
theorem partial_update_on_unset_binds_zero (atomic : Bool) (params : List String) (hnd : params.Nodup)
    (es : List (NameRef × Option V)) (hv : valid params (.dict es)) (n : String)
    (hn : ∀ e ∈ es, e.1.name ≠ n) :
    (step atomic (init params) (.dict es)).2 = none ∧
    Params.abs (step atomic (init params) (.dict es)).1 n = 0 := by
  obtain ⟨s', h1, _, _, h4⟩ := step_of_valid atomic (init params) (good_init params hnd) (.dict es) hv
  rw [h1]
  refine ⟨rfl, ?_⟩
  rw [h4]
  simp only [Spec.step, isPartial, mentions, if_true]
  rw [Spec.update_not_mem]
  · simp [Params.abs, lastVal, State.items, init]
  · intro p hp
    obtain ⟨e, he, hq⟩ := List.mem_filterMap.mp hp
    cases hv' : e.2 with
    | none => simp [hv'] at hq
    | some v => simp [hv'] at hq; subst hq; exact hn e he

/-- a pair list may repeat a name (the length check counts entries, not names): the last value
given for a name wins ... -/
theorem pairs_duplicate_keeps_last (atomic : Bool) (s : State V) (hg : Good s)
    (ps : List (NameRef × V)) (r : NameRef) (v : V) (hv : valid s.params (.pairs (ps ++ [(r, v)]))) :
    Params.abs (step atomic s (.pairs (ps ++ [(r, v)]))).1 r.name = v := by
  obtain ⟨s', h1, _, _, h4⟩ := step_of_valid atomic s hg _ hv
  rw [h1, h4]
  simp only [Spec.step, isPartial, mentions, List.map_append, List.map_cons, List.map_nil]
  exact Spec.update_last _ _ _ _

/-- ... and a declared name the pair list then fails to mention is bound to 0 -/
theorem pairs_unmentioned_binds_zero (atomic : Bool) (s : State V) (hg : Good s)
    (ps : List (NameRef × V)) (hv : valid s.params (.pairs ps)) (n : String)
    (hn : ∀ p ∈ ps, p.1.name ≠ n) :
    Params.abs (step atomic s (.pairs ps)).1 n = 0 := by
  obtain ⟨s', h1, _, _, h4⟩ := step_of_valid atomic s hg _ hv
  rw [h1, h4]
  simp only [Spec.step, isPartial, mentions]
  rw [Spec.update_not_mem]
  · simp
  · intro p hp
    obtain ⟨q, hq, rfl⟩ := List.mem_map.mp hp
    exact hn q hq

/-! ## copies and several live instances

A system of live instances: `assign i op` is `instance_i.parameters = ...`, `clone i` appends `copy.deepcopy(instance_i)`
(`Params.mstep`; the copy is restored by `__setstate__` = `Params.restore false`).  The spec keeps one name -> value map
per instance; a copy starts with its original's map (`mspecStep`). -/

def mspecStep (params : List String) (fs : List (String → V)) : MOp V → List (String → V)
  | .assign i op =>
    match fs[i]? with
    | some f => fs.set i (if valid params op then Spec.step params f op else f)
    | Option.none => fs
  | .clone i =>
    match fs[i]? with
    | some f => fs ++ [f]
    | Option.none => fs

def mspecRun (params : List String) (fs : List (String → V)) (ops : List (MOp V)) : List (String → V) :=
  ops.foldl (mspecStep params) fs

def Rel (params : List String) (sys : List (State V)) (fs : List (String → V)) : Prop :=
  sys.length = fs.length ∧
  ∀ (j : Nat) (s : State V) (f : String → V), sys[j]? = some s → fs[j]? = some f → Good s ∧ s.params = params ∧ Params.abs s = f

/-- as written, `__setstate__` leaves the copied binding state as it is -/
theorem restore_false (s : State V) : restore false s = s := rfl

/-- one operation on the system preserves: every instance satisfies the representation invariant and stands for its
spec map -/
theorem rel_mstep (params : List String) (sys : List (State V)) (fs : List (String → V)) (h : Rel params sys fs)
    (mop : MOp V) : Rel params (mstep true false sys mop).1 (mspecStep params fs mop) := by
  obtain ⟨hl, hr⟩ := h
  cases mop with
  | assign i op =>
    simp only [mstep, mspecStep]
    cases hs : sys[i]? with
    | none =>
      have hi : sys.length ≤ i := List.getElem?_eq_none_iff.mp hs
      have hf : fs[i]? = none := List.getElem?_eq_none_iff.mpr (by omega)
      simp only [hf]
      exact ⟨hl, hr⟩
    | some s =>
      have hi : i < sys.length := (List.getElem?_eq_some_iff.mp hs).1
      have hif : i < fs.length := by omega
      have hf : fs[i]? = some fs[i] := List.getElem?_eq_getElem hif
      simp only [hf]
      obtain ⟨g1, g2, g3⟩ := hr i s fs[i] hs hf
      refine ⟨by simp [hl], ?_⟩
      intro j s' f' hs' hf'
      by_cases hij : i = j
      · subst hij
        rw [List.getElem?_set_self hi] at hs'
        rw [List.getElem?_set_self hif] at hf'
        simp only [Option.some.injEq] at hs' hf'
        subst hs' hf'
        by_cases hv : valid params op
        · obtain ⟨s2, h1, h2, h3, h4⟩ := step_of_valid true s g1 op (g2 ▸ hv)
          rw [h1, if_pos hv]
          exact ⟨h2, by rw [h3, g2], by rw [h4, g2, g3]⟩
        · have hne : (step true s op).2 ≠ none := by
            rw [step_err]; exact invalid_rejected s op (g2 ▸ hv)
          rw [rejected_leaves_state s op hne, if_neg hv]
          exact ⟨g1, g2, g3⟩
      · rw [List.getElem?_set_ne hij] at hs' hf'
        exact hr j s' f' hs' hf'
  | clone i =>
    simp only [mstep, mspecStep]
    cases hs : sys[i]? with
    | none =>
      have hi : sys.length ≤ i := List.getElem?_eq_none_iff.mp hs
      have hf : fs[i]? = none := List.getElem?_eq_none_iff.mpr (by omega)
      simp only [hf]
      exact ⟨hl, hr⟩
    | some s =>
      have hi : i < sys.length := (List.getElem?_eq_some_iff.mp hs).1
      have hif : i < fs.length := by omega
      have hf : fs[i]? = some fs[i] := List.getElem?_eq_getElem hif
      simp only [hf, restore_false]
      obtain ⟨g1, g2, g3⟩ := hr i s fs[i] hs hf
      refine ⟨by simp [hl], ?_⟩
      intro j s' f' hs' hf'
      by_cases hj : j < sys.length
      · rw [List.getElem?_append_left hj] at hs'
        rw [List.getElem?_append_left (by omega)] at hf'
        exact hr j s' f' hs' hf'
      · have hj' : sys.length ≤ j := by omega
        rw [List.getElem?_append_right hj'] at hs'
        rw [List.getElem?_append_right (by omega)] at hf'
        rw [hl] at hs'
        cases hk : j - fs.length with
        | zero =>
          rw [hk] at hs' hf'
          simp only [List.getElem?_cons_zero, Option.some.injEq] at hs' hf'
          subst hs' hf'
          exact ⟨g1, g2, g3⟩
        | succ k =>
          rw [hk] at hs'
          simp at hs'

theorem rel_mrun (params : List String) (ops : List (MOp V)) (sys : List (State V)) (fs : List (String → V))
    (h : Rel params sys fs) : Rel params (mrun true false sys ops) (mspecRun params fs ops) := by
  induction ops generalizing sys fs with
  | nil => exact h
  | cons op ops ih => exact ih _ _ (rel_mstep params sys fs h op)


theorem rel_init (params : List String) (hnd : params.Nodup) :
    Rel params [init (V := V) params] [fun _ => (0 : V)] := by
  refine ⟨rfl, ?_⟩
  intro j s f hs hf
  cases j with
  | zero =>
    simp only [List.getElem?_cons_zero, Option.some.injEq] at hs hf
    subst hs hf
    refine ⟨good_init params hnd, rfl, ?_⟩
    funext n; simp [Params.abs, lastVal, State.items, init, lv]
  | succ k => simp at hs

/-- **copies_bind_by_name.**  For every list of distinct declared names and EVERY history of assignments (any format,
accepted or rejected) addressed to any live instance, interleaved with `copy.deepcopy` of any instance at any moment:
in every instance - original or copy, copy of a copy - `_paramValue[i]` is the value the two-line spec gives `params[i]`
in THAT instance's map: what its original had when the copy was made, overridden by what the copy itself was assigned
since.  Assignments to one instance never change another. -/
theorem copies_bind_by_name (params : List String) (hnd : params.Nodup) (ops : List (MOp V)) (j : Nat) (s : State V)
    (hs : (mrun true false [init params] ops)[j]? = some s) :
    ∃ f, (mspecRun params [fun _ => (0 : V)] ops)[j]? = some f ∧
      ∀ (i : Nat) (hi : i < params.length), s.pv[i]? = some (f params[i]) := by
  obtain ⟨hl, hr⟩ := rel_mrun params ops _ _ (rel_init (V := V) params hnd)
  have hj : j < (mrun true false [init params] ops).length := (List.getElem?_eq_some_iff.mp hs).1
  have hjf : j < (mspecRun params [fun _ => (0 : V)] ops).length := by omega
  refine ⟨_, List.getElem?_eq_getElem hjf, ?_⟩
  obtain ⟨g1, g2, g3⟩ := hr j s _ hs (List.getElem?_eq_getElem hjf)
  intro i hi
  have hi' : i < s.params.length := by rw [g2]; exact hi
  rw [pv_get s g1 i hi', g3]
  simp [g2]

/-- the name -> value map the `parameters` getter shows is the original's under either `__setstate__` (which is why
a `__setstate__` that rebuilds `_paramValue` wrongly is invisible through the getter) -/
theorem restore_preserves_abs (rebuild : Bool) (s : State V) : Params.abs (restore rebuild s) = Params.abs s := by
  cases rebuild <;> rfl

/-- **a `__setstate__` that rebuilds `_paramValue` from `list(_parameters.values())`** (insertion order of the map instead
of declared order): after a permuted pair list the copy's map still reads b=5, g=7, but its `_paramValue` is `[7, 5]`:
the copy evaluates with the values attached to the wrong parameters.  As written (`rebuild = false`) it is `[5, 7]`. -/
theorem setstate_rebuild_counterexample :
    let params := ["b", "g"]
    let ops : List (MOp Int) := [.assign 0 (.pairs [(.str "g", 7), (.str "b", 5)]), .clone 0]
    (mrun true false [init params] ops).map (fun s => s.pv) = [[5, 7], [5, 7]]
    ∧ (mrun true true [init params] ops).map (fun s => s.pv) = [[5, 7], [7, 5]]
    ∧ (mrun true true [init params] ops).map (fun s => params.map (Params.abs s)) = [[5, 7], [5, 7]]
    ∧ (mspecRun params [fun _ => 0] ops).map (fun f => params.map f) = [[5, 7], [5, 7]] := by
  decide


/-- **a "nothing changed" early exit that compares the new values in INPUT order with `_paramValue`** (which is in declared
order; `Params.stepEarlyExit`): the model holds beta=4, gamma=2, mu=1; the pair list `[(gamma,4), (beta,2), (mu,1)]` reads
`4, 2, 1` in the order it is written, "equals" `_paramValue` and is dropped - the setter as written (and the spec) bind
beta=2, gamma=4.  Second history: pairs written in reverse order fill the map as (mu, gamma, beta); the partial dict
`{mu: 4, beta: 1}` then makes the map read `4, 2, 1` in insertion order and is dropped as well.  The binding theorems hold
for EVERY value because the unroll is by name and unconditional; the harness probes the real setter with such coincidences
(`coincide:*` cases of harness/props/c09.py). -/
theorem early_exit_input_order_counterexample :
    let params := ["beta", "gamma", "mu"]
    let s0 := run true (init (V := Int) params) [.nums [4, 2, 1]]
    let op : Op Int := .pairs [(.str "gamma", 4), (.str "beta", 2), (.str "mu", 1)]
    let s1 := run true (init (V := Int) params) [.pairs [(.str "mu", 1), (.str "gamma", 2), (.str "beta", 4)]]
    let op1 : Op Int := .dict [(.str "mu", some 4), (.str "beta", some 1)]
    (step true s0 op).1.pv = [2, 4, 1]
    ∧ params.map (specRun params (fun _ => 0) [.nums [4, 2, 1], op]) = [2, 4, 1]
    ∧ (stepEarlyExit s0 op).1.pv = [4, 2, 1]
    ∧ s1.pv = [4, 2, 1]
    ∧ (step true s1 op1).1.pv = [1, 2, 4]
    ∧ (stepEarlyExit s1 op1).1.pv = [4, 2, 1]
    -- an assignment whose values differ from the held ones in input order takes the ordinary path
    ∧ (stepEarlyExit s0 (.pairs [(.str "gamma", 7), (.str "beta", 2), (.str "mu", 1)])).1.pv = [2, 7, 1] := by
  decide

/-- The setter with a "nothing changed" early exit on CLOSENESS (seeded change `C09-d1`:
`if np.allclose(param_value, self._paramValue): return` after the value vector has been resolved by name).  `close` is any
tolerance relation on values; on the fast path neither `_parameters` nor `_paramValue` is touched. -/
def stepEarlyExitClose {V : Type} [Zero V] (close : V → V → Bool) (s : State V) (op : Op V) : State V × Option Err :=
  let r := step true s op
  match r.2, s.dict with
  | Option.none, some _ =>
      if (r.1.pv.length == s.pv.length) && (List.zipWith close r.1.pv s.pv).all id then (s, Option.none) else r
  | _, _ => r

/-- **a "nothing changed" early exit that compares VALUES UP TO A TOLERANCE**: whatever the tolerance, an assignment that moves
every parameter by less than it is dropped although the setter as written (and the spec) bind the new value.  Here (values in
`Int`, tolerance 1): the model holds beta=4, gamma=2000; `{beta: 5}` and the full list `[3, 2001]` are dropped, `{beta: 0}` is
not.  The binding theorems hold for EVERY value and every size of change because the setter never compares values; the
harness probes the real setter on value scales (`stream:scale` cases of harness/props/c09.py: per-capita rates of 1e-9,
changes of 1 part in 1e6 .. 1 ulp, to and from exactly 0). -/
theorem early_exit_close_values_counterexample :
    let params := ["beta", "gamma"]
    let close : Int → Int → Bool := fun a b => decide ((a - b).natAbs ≤ 1)
    let s0 := run true (init (V := Int) params) [.nums [4, 2000]]
    let op : Op Int := .dict [(.str "beta", some 5)]
    (step true s0 op).1.pv = [5, 2000]
    ∧ params.map (specRun params (fun _ => 0) [.nums [4, 2000], op]) = [5, 2000]
    ∧ (stepEarlyExitClose close s0 op).1.pv = [4, 2000]
    ∧ (stepEarlyExitClose close s0 (.nums [3, 2001])).1.pv = [4, 2000]
    ∧ (step true s0 (.nums [3, 2001])).1.pv = [3, 2001]
    -- a change larger than the tolerance takes the ordinary path
    ∧ (stepEarlyExitClose close s0 (.dict [(.str "beta", some 0)])).1.pv = [0, 2000] := by
  decide

/-! ## the code as written is not atomic: counterexamples (values in `Int`, by evaluation) -/

/-- A dict whose second key is unknown is rejected, but its first key has already been written into
the live `_parameters`; the next (valid, unrelated) dict update binds it.  `g` was given 2, the
only later accepted assignment mentions `b` alone, yet `_paramValue = [5, 19]`.  The atomic variant
gives `[5, 2]`, as the spec does. -/
theorem legacy_rejected_dict_leaks_counterexample :
    let params := ["b", "g"]
    let ops : List (Op Int) :=
      [.nums [1, 2], .dict [(.str "g", some 19), (.str "zz", some 1)], .dict [(.str "b", some 5)]]
    (stepLegacy (run false (init params) (ops.take 1)) (.dict [(.str "g", some 19), (.str "zz", some 1)])).2
        = some .unknownParam
    ∧ (run false (init params) (ops.take 2)).pv = [1, 2]
    ∧ (run false (init params) ops).pv = [5, 19]
    ∧ (run true (init params) ops).pv = [5, 2]
    ∧ specRun params (fun _ => 0) ops "g" = 2 := by
  decide

/-- The time symbol `t` passes `_extractParamSymbol` (it is in `_paramDict`) and fails only inside
the unroll loop, after `_parameters` was replaced and `_paramValue` zeroed and partly rewritten: the
assignment is rejected (ValueError) *and* evaluations change (`[1, 2]` becomes `[0, 5]`). -/
theorem legacy_time_symbol_commits_counterexample :
    let params := ["b", "g"]
    let ops : List (Op Int) := [.nums [1, 2], .pairs [(.str "g", 5), (.str "t", 7)]]
    (stepLegacy (run false (init params) (ops.take 1)) (.pairs [(.str "g", 5), (.str "t", 7)])).2
        = some .notInList
    ∧ (run false (init params) ops).pv = [0, 5]
    ∧ (run true (init params) ops).pv = [1, 2]
    ∧ specRun params (fun _ => 0) ops "b" = 1 := by
  decide

/-- hence the full-strength `history_binding` is false of the code as written -/
theorem history_binding_legacy_counterexample :
    ¬ ∀ (params : List String), params.Nodup → ∀ (ops : List (Op Int)) (i : Nat) (hi : i < params.length),
        (run false (init params) ops).pv[i]? = some (specRun params (fun _ => 0) ops params[i]) := by
  intro h
  have := h ["b", "g"] (by decide)
    [.nums [1, 2], .dict [(.str "g", some 19), (.str "zz", some 1)], .dict [(.str "b", some 5)]] 1 (by decide)
  revert this
  decide

/-! ## non-vacuity -/

/-- the invariant is satisfiable, and reachable with both key kinds present for the same name:
after `[1,2,3]` and `{'mu': 5}` the dict holds `'mu': 3` *and* `mu: 5`; the symbol key comes last
and wins the unroll loop -/
example :
    let s := run true (init (V := Int) ["beta", "gamma", "mu"]) [.nums [1, 2, 3], .dict [(.str "mu", some 5)]]
    s.dict = some [(.str "beta", 1), (.str "gamma", 2), (.str "mu", 3), (.sym "mu", 5)] ∧ s.pv = [1, 2, 5] := by
  decide

example : Good (init (V := Int) ["beta", "gamma", "mu"]) := good_init _ (by decide)

/-- valid assignments of every accepted form exist, as do invalid ones -/
example : valid ["beta", "gamma"] (Op.nums [(1 : Int), 2])
    ∧ valid ["beta", "gamma"] (Op.arr 2 [(1 : Int), 2])
    ∧ valid ["beta", "gamma"] (Op.pairs [(.str "gamma", (1 : Int)), (.odevar "beta", 2)])
    ∧ valid ["beta", "gamma"] (Op.dict [(.sym "gamma", some (1 : Int))])
    ∧ ¬ valid ["beta", "gamma"] (Op.pairs [(.sym "gamma", (1 : Int)), (.str "beta", 2)])
    ∧ ¬ valid ["beta", "gamma"] (Op.dict [(.str "zz", some (1 : Int))])
    ∧ ¬ valid ["beta", "gamma"] (Op.nums [(1 : Int)]) := by
  decide

/-- a mixed history (positional, permuted pairs, rejected, partial by symbol, partial by name):
the model's `_paramValue` is what the spec says, entry by entry -/
example :
    let params := ["beta", "gamma", "mu"]
    let ops : List (Op Int) :=
      [.nums [1, 2, 3], .pairs [(.str "mu", 7), (.str "beta", 5), (.str "gamma", 6)],
       .dict [(.str "zz", some 9)], .dict [(.sym "gamma", some 8)], .nums [4],
       .dict [(.str "beta", some 10), (.str "mu", some 11)]]
    (run true (init params) ops).pv = [10, 8, 11]
    ∧ params.map (specRun params (fun _ => 0) ops) = [10, 8, 11] := by
  decide

/-- duplicate names in a pair list: accepted, last wins, the unmentioned name becomes 0 -/
example :
    let s := step false (init (V := Int) ["beta", "gamma", "mu"])
      (.pairs [(.str "gamma", 5), (.str "gamma", 6), (.str "mu", 7)])
    s.2 = none ∧ s.1.pv = [0, 6, 7] := by
  decide

end Pygom.C09
