/-
C20 - curvature information matches the cost it is meant to describe.

About `Pygom/Sens.lean` (`sens_to_jtj`, `eval_forwardforward`, the assembly at the end of `hessian`), which mirror the
code WITH the repair of finding C20-hessian-mixed-terms (new evaluator `grad_grad`, three more terms in
`eval_forwardforward`) and the earlier sign / weight repair of the second-order term (fix 0f0d14a):

* `jtj_entry`, `jtj_symm`, `jtj_posSemidef` : `jtj[a][b] = Σ_i Σ_j w_ij²·S_ija·S_ijb`, symmetric, positive
  semi-definite - for every number of observations, observed states and free parameters;
  `jtj_perm_equivariant` : re-ordering the observed states leaves `jtj` unchanged when the weights are re-ordered along with
  the selected sensitivities (the sum over observed states is order independent), `jtj_weights_not_permuted_counterexample` :
  and changes it when they are not - the selection must follow `state_name`, the order the weights are given in;
* `ff_rhs_entry` : what the coded forward-forward right-hand side computes, entry by entry, for every `nS`, `nP`
  (the `reshape(nP,nS,nP).transpose(1,0,2)`, `+ transpose(0,2,1)`, `reshape(nS*nP,nP)` index arithmetic included);
  `ffTrue_is_total_derivative_of_sens_rhs` : the true second-order sensitivity equation (the total derivative of the
  first-order right-hand side `J·S_a + G_a` in `θ_b`);
  `ff_rhs_is_true` : FULL - the coded right-hand side IS the true one, every state `i`, parameters `a`, `b`;
  `ff_asFound_entry`, `ff_rhs_asFound_partial`, `ff_rhs_asFound_counterexample` : history - the right-hand side as found
  lacked the three groups of terms with a parameter derivative (`f = θ·x`); a regression to it is what the harness
  signature `hessian:missing-mixed-terms` names;
* `hessianH_entry`; `hessian_is_second_derivative_partial` : entry `(a,b)` of `hessian` is the derivative in the `b`-th
  target parameter of component `a` of `gradient` for the weighted square loss, GIVEN the two facts that are not
  provable with Mathlib today (see ASSUMED below); `hessian_asFound_sign_counterexample` : history (before fix 0f0d14a).

FULL STATEMENT:  `hessian(θ)[a][b]` is the derivative of `gradient(θ)[a]` in `θ_b` for every model.
PROVED of the model of the code: every algebraic step - the second-order system that is integrated is the second-order
variational equation (`ff_rhs_is_true` + `ffTrue_is_total_derivative_of_sens_rhs`, given C03's derivative objects), and
the assembly turns second-order sensitivities into the derivative of the gradient (`hessian_is_second_derivative_partial`).
ASSUMED (hypotheses `hy`, `hs` of `hessian_is_second_derivative_partial`; as in C13 / C07):
  (A1) the integrated first-order block is the first-order sensitivity `∂x(t_i)/∂θ` (hypothesis `hy`),
  (A2) the integrated forward-forward block is its derivative: for every observation time `t_i`, observed state `q`
       and target parameters `a`, `b`, the map `θ_b ↦ S_{q,a}(t_i; θ)` has derivative `FF_i[stateIdx[q]*nP + a][b]`
       (hypothesis `hs`).
  Both are instances of the theorem "the solution of the variational initial value problem `X' = (total derivative of the
  right-hand side), X(t0) = 0` is the derivative of the flow in the parameter" (differentiable dependence on parameters,
  e.g. Hartman, ODE, Thm V.3.1/V.4.1, applied to `x' = f` and then to the first-order augmented system), which is not in
  Mathlib, together with the accuracy of scipy's integrator.  Checked on every run against finite differences of 1e-12
  reference solutions.
-/
import Pygom.Lemmas.SensDeriv
import Mathlib.LinearAlgebra.Matrix.PosDef
import Mathlib.Algebra.Order.Star.Real

set_option linter.unusedSimpArgs false
set_option linter.unusedVariables false

namespace Pygom
namespace C20
open Sens

/-! ## J^T J -/
section jtj

/-- `S_ija` inside `sens_to_jtj`: entry `(j, a)` of `np.reshape(sens, (n, num_s, num_out), 'F')[i]` -/
def S3 {R : Type} (numS : ℕ) (sens : Mat R) (i j a : ℕ) : R := sens i (j + a*numS)

theorem jtj_entry {R : Type} [CommSemiring R] (n numS : ℕ) (w sens : Mat R) (a b : ℕ) :
    sensToJtj n numS w sens a b
      = sumTo n (fun i => sumTo numS (fun j => w i j ^ 2 * S3 numS sens i j a * S3 numS sens i j b)) := by
  unfold sensToJtj
  apply sumTo_congr; intro i _
  unfold matMul
  apply sumTo_congr; intro j _
  simp only [transpose, sensBlock, S3]; ring

theorem jtj_symm {R : Type} [CommSemiring R] (n numS : ℕ) (w sens : Mat R) (a b : ℕ) :
    sensToJtj n numS w sens a b = sensToJtj n numS w sens b a := by
  rw [jtj_entry, jtj_entry]
  apply sumTo_congr; intro i _
  apply sumTo_congr; intro j _
  ring

/-- the `p × p` matrix `sens_to_jtj` returns -/
noncomputable def jtjMatrix (n numS p : ℕ) (w sens : Mat ℝ) : Matrix (Fin p) (Fin p) ℝ :=
  Matrix.of (fun a b => sensToJtj n numS w sens a b)

theorem jtjMatrix_eq_sum (n numS p : ℕ) (w sens : Mat ℝ) :
    jtjMatrix n numS p w sens
      = ∑ i : Fin n, (Matrix.of (fun (j : Fin numS) (k : Fin p) => sensBlock numS w sens i j k)).transpose
                      * Matrix.of (fun (j : Fin numS) (k : Fin p) => sensBlock numS w sens i j k) := by
  ext a b
  simp only [jtjMatrix, Matrix.of_apply, sensToJtj, matMul, transpose, sumTo_eq_sum, Matrix.sum_apply,
    Matrix.mul_apply, Matrix.transpose_apply]
  rw [← Fin.sum_univ_eq_sum_range (fun i => ∑ l ∈ Finset.range numS, sensBlock numS w sens i l a * sensBlock numS w sens i l b) n]
  apply Finset.sum_congr rfl; intro i _
  rw [← Fin.sum_univ_eq_sum_range (fun l => sensBlock numS w sens i l a * sensBlock numS w sens i l b) numS]

/-- positive semi-definite, for every number of observations `n`, observed states `numS` and free parameters `p` -/
theorem jtj_posSemidef (n numS p : ℕ) (w sens : Mat ℝ) : (jtjMatrix n numS p w sens).PosSemidef := by
  rw [jtjMatrix_eq_sum]
  apply Matrix.posSemidef_sum
  intro i _
  have := Matrix.posSemidef_conjTranspose_mul_self
    (Matrix.of (fun (j : Fin numS) (k : Fin p) => sensBlock numS w sens i j k))
  simpa [Matrix.conjTranspose_eq_transpose_of_trivial] using this

/-- ORDER OF THE OBSERVED STATES.  `sens_to_jtj` sums over the observed states, so the result does not depend on the order in
which they are named - PROVIDED the weights travel with the states: if the observed states are re-ordered by a permutation `σ`
(columns of the selected sensitivities AND the columns of the weight matrix), `jtj` is unchanged.  This is why the selection
`sens[:, index]` has to follow `state_name` (the order the weights and the observations are given in) and not the order of
declaration (seeded change C20-c2: a fast path slicing the whole block in declared order, weights left in named order). -/
theorem jtj_perm_equivariant {R : Type} [CommSemiring R] (n numS : ℕ) (σ : Equiv.Perm (Fin numS)) (w sens w' sens' : Mat R)
    (hw : ∀ i (j : Fin numS), w' i j = w i (σ j))
    (hs : ∀ i (j : Fin numS) c, S3 numS sens' i j c = S3 numS sens i (σ j) c) (a b : ℕ) :
    sensToJtj n numS w' sens' a b = sensToJtj n numS w sens a b := by
  rw [jtj_entry, jtj_entry]
  apply sumTo_congr; intro i _
  rw [sumTo_eq_sum, sumTo_eq_sum,
    ← Fin.sum_univ_eq_sum_range (fun j => w' i j ^ 2 * S3 numS sens' i j a * S3 numS sens' i j b) numS,
    ← Fin.sum_univ_eq_sum_range (fun j => w i j ^ 2 * S3 numS sens i j a * S3 numS sens i j b) numS]
  rw [← Equiv.sum_comp σ (fun j : Fin numS => w i j ^ 2 * S3 numS sens i j a * S3 numS sens i j b)]
  apply Finset.sum_congr rfl; intro j _
  rw [hw, hs, hs]

/-- the hypotheses of `jtj_perm_equivariant` are satisfiable (identity permutation) -/
example {R : Type} [CommSemiring R] (n numS : ℕ) (w sens : Mat R) (a b : ℕ) :
    sensToJtj n numS w sens a b = sensToJtj n numS w sens a b :=
  jtj_perm_equivariant n numS (Equiv.refl _) w sens w sens (fun _ _ => rfl) (fun _ _ _ => rfl) a b

/-- ... and the proviso is needed: re-ordering the sensitivities of two observed states while the weights stay where they were
changes `jtj` (one observation, two observed states with weights 1 and 2, one parameter, sensitivities 1 and 0: 1 versus 4). -/
theorem jtj_weights_not_permuted_counterexample :
    sensToJtj (α := ℤ) 1 2 (fun _ j => if j = 0 then 1 else 2) (fun _ c => if c = 0 then 0 else 1) 0 0
      ≠ sensToJtj (α := ℤ) 1 2 (fun _ j => if j = 0 then 1 else 2) (fun _ c => if c = 0 then 1 else 0) 0 0 := by
  decide

end jtj

/-! ## second-order (forward-forward) sensitivities -/
section ff

/-- what `eval_forwardforward` computed AS FOUND: row `i*nP + a`, column `b` (state `i`, parameters `a`, `b`) is
`Σ_l J_il·FF[l*nP+a][b] + Σ_j (Σ_k S_ka·∂²f_i/∂x_k∂x_j)·S_jb`; these are the first two lines of the code today -/
theorem ff_asFound_entry {R : Type} [CommSemiring R] (nS nP : ℕ) (J DJ FF S : Mat R) (i a b : ℕ)
    (hi : i < nS) (ha : a < nP) :
    evalForwardForwardAsFound nS nP J DJ FF S (i*nP + a) b
      = sumTo nS (fun l => J i l * FF (l*nP + a) b)
        + sumTo nS (fun j => sumTo nS (fun k => S k a * DJ (i*nS + k) j) * S j b) := by
  unfold evalForwardForwardAsFound matAdd
  congr 1
  · -- kronParam(J).dot(FF)
    simp only [matMul, kronParam, Bool.false_eq_true, if_false, kron]
    rw [sumTo_mul]
    apply sumTo_congr; intro l _
    have e : sumTo nP (fun a' => J ((i*nP + a) / nP) ((l*nP + a') / nP)
          * (eye : Mat R) ((i*nP + a) % nP) ((l*nP + a') % nP) * FF (l*nP + a') b)
        = sumTo nP (fun a' => if a' = a then J i l * FF (l*nP + a') b else 0) := by
      apply sumTo_congr; intro a' ha'
      rw [idx_div i ha, idx_mod i ha, idx_div l ha', idx_mod l ha']
      by_cases h : a' = a
      · subst h; simp [eye]
      · have : ¬ a = a' := fun h' => h h'.symm
        simp [eye, h, this]
    rw [e, sumTo_indicator]; simp [ha]
  · -- kronState(S.T, pre=True).dot(diffJ).dot(S)
    simp only [matMul, kronState, if_true, kron, transpose]
    apply sumTo_congr; intro j _
    congr 1
    rw [sumTo_mul]
    have e : sumTo nS (fun e' => sumTo nS (fun k => (eye : Mat R) ((i*nP + a) / nP) ((e'*nS + k) / nS)
          * S ((e'*nS + k) % nS) ((i*nP + a) % nP) * DJ (e'*nS + k) j))
        = sumTo nS (fun e' => if e' = i then sumTo nS (fun k => S k a * DJ (e'*nS + k) j) else 0) := by
      apply sumTo_congr; intro e' _
      by_cases h : e' = i
      · subst h
        simp only [if_true]
        apply sumTo_congr; intro k hk
        rw [idx_div e' ha, idx_mod e' ha, idx_div e' hk, idx_mod e' hk]; simp [eye]
      · simp only [h, if_false]
        refine (sumTo_congr nS _ (fun _ => (0:R)) (fun k hk => ?_)).trans (sumTo_zero nS)
        have : ¬ i = e' := fun h' => h h'.symm
        rw [idx_div i ha, idx_div e' hk]; simp [eye, this]
    rw [e, sumTo_indicator]; simp [hi]

/-- the index arithmetic of
`GJS = M.reshape(nP, nS, nP).transpose(1, 0, 2); (GJS + GJS.transpose(0, 2, 1)).reshape(nS*nP, nP)`
for any matrix `M` with `nP` columns (in the code `M = grad_jacobian.dot(S)`, shape `nP*nS × nP`):
row `i*nP + a`, column `b` is `M[a*nS+i][b] + M[b*nS+i][a]` -/
theorem gjs_entry {R : Type} [Add R] (nS nP : ℕ) (M : Mat R) (i a b : ℕ) (ha : a < nP) (hb : b < nP) :
    reshapeC nP (flatten3C nP nP (tenAdd (transpose102 (reshape3C nS nP (flattenC nP M)))
        (transpose021 (transpose102 (reshape3C nS nP (flattenC nP M)))))) (i*nP + a) b
      = M (a*nS + i) b + M (b*nS + i) a := by
  have h1 : ((i*nP + a)*nP + b) / nP = i*nP + a := idx_div (i*nP + a) hb
  have h2 : ((i*nP + a)*nP + b) % nP = b := idx_mod (i*nP + a) hb
  have h3 : ((i*nP + a)*nP + b) / (nP*nP) = i := by
    rw [← Nat.div_div_eq_div_mul, h1, idx_div i ha]
  simp only [reshapeC, flatten3C, tenAdd, transpose102, transpose021, reshape3C, flattenC]
  rw [h3, h1, h2, idx_mod i ha, idx_div (a*nS + i) hb, idx_mod (a*nS + i) hb, idx_div (b*nS + i) ha, idx_mod (b*nS + i) ha]

/-- **what `eval_forwardforward` computes**, every `nS`, `nP`: row `i*nP + a`, column `b` (state `i`, parameters `a`, `b`) is
`Σ_l J_il·FF[l*nP+a][b] + Σ_j (Σ_k S_ka·∂²f_i/∂x_k∂x_j)·S_jb + (Σ_l GJ[a*nS+i][l]·S_lb + Σ_l GJ[b*nS+i][l]·S_la) + GG[i*nP+a][b]` -/
theorem ff_rhs_entry {R : Type} [CommSemiring R] (nS nP : ℕ) (J DJ GJ GG FF S : Mat R) (i a b : ℕ)
    (hi : i < nS) (ha : a < nP) (hb : b < nP) :
    evalForwardForward nS nP J DJ GJ GG FF S (i*nP + a) b
      = sumTo nS (fun l => J i l * FF (l*nP + a) b)
        + sumTo nS (fun j => sumTo nS (fun k => S k a * DJ (i*nS + k) j) * S j b)
        + (sumTo nS (fun l => GJ (a*nS + i) l * S l b) + sumTo nS (fun l => GJ (b*nS + i) l * S l a))
        + GG (i*nP + a) b := by
  have h0 := ff_asFound_entry nS nP J DJ FF S i a b hi ha
  have h1 := gjs_entry nS nP (matMul nS GJ S) i a b ha hb
  unfold evalForwardForwardAsFound matAdd at h0
  unfold evalForwardForward
  simp only [matAdd]
  rw [h0, h1]
  rfl

/-- the TRUE right-hand side of the second-order sensitivity equation for `X_iab = ∂²x_i/∂θ_a∂θ_b`:
`J·X_ab + Σ_kl ∂²f_i/∂x_k∂x_l·S_ka·S_lb + Σ_k ∂²f_i/∂x_k∂θ_b·S_ka + Σ_k ∂²f_i/∂x_k∂θ_a·S_kb + ∂²f_i/∂θ_a∂θ_b`.
`GJ` is `grad_jacobian` (row `b*nS+i`, column `k` ↦ `∂/∂x_k ∂f_i/∂θ_b`), `GG` is `grad_grad` (row `i*nP+a`, column `b` ↦
`∂²f_i/∂θ_a∂θ_b`) - C03 proves that these objects hold these derivatives. -/
def ffTrue {R : Type} [Zero R] [Add R] [Mul R] (nS nP : ℕ) (J DJ GJ GG FF S : Mat R) (i a b : ℕ) : R :=
  sumTo nS (fun l => J i l * FF (l*nP + a) b)
  + sumTo nS (fun j => sumTo nS (fun k => S k a * DJ (i*nS + k) j) * S j b)
  + (sumTo nS (fun k => GJ (b*nS + i) k * S k a) + sumTo nS (fun k => GJ (a*nS + i) k * S k b) + GG (i*nP + a) b)

/-- `ffTrue` is the derivative in `θ_b` (variable `v`) of the first-order right-hand side `Σ_l J_il·S_la + G_ia`
evaluated along the solution: `St v l a` has derivative `X_lab = FF[l*nP+a][b]`; the Jacobian and gradient entries
along the solution have the total derivatives the chain rule gives them. -/
theorem ffTrue_is_total_derivative_of_sens_rhs (nS nP : ℕ) (J DJ GJ GG FF S : Mat ℝ)
    (Jt Gt St : ℝ → ℕ → ℕ → ℝ) (v0 : ℝ) (i a b : ℕ)
    (hJ0 : ∀ l, Jt v0 i l = J i l) (hS0 : ∀ l, St v0 l a = S l a)
    (hS : ∀ l, l < nS → HasDerivAt (fun v => St v l a) (FF (l*nP + a) b) v0)
    (hJt : ∀ l, l < nS → HasDerivAt (fun v => Jt v i l) (sumTo nS (fun k => DJ (i*nS + l) k * S k b) + GJ (b*nS + i) l) v0)
    (hGt : HasDerivAt (fun v => Gt v i a) (sumTo nS (fun k => GJ (a*nS + i) k * S k b) + GG (i*nP + a) b) v0)
    (hsym : ∀ k l, DJ (i*nS + l) k = DJ (i*nS + k) l) :
    HasDerivAt (fun v => sumTo nS (fun l => Jt v i l * St v l a) + Gt v i a)
      (ffTrue nS nP J DJ GJ GG FF S i a b) v0 := by
  have h1 := hasDerivAt_sumTo nS (fun l v => Jt v i l * St v l a) _ v0 (fun l hl => (hJt l hl).mul (hS l hl))
  refine (h1.add hGt).congr_deriv ?_
  unfold ffTrue
  simp only [hJ0, hS0]
  have e1 : sumTo nS (fun l => (sumTo nS (fun k => DJ (i*nS + l) k * S k b) + GJ (b*nS + i) l) * S l a + J i l * FF (l*nP + a) b)
      = sumTo nS (fun l => sumTo nS (fun k => DJ (i*nS + l) k * S k b) * S l a)
        + sumTo nS (fun l => GJ (b*nS + i) l * S l a) + sumTo nS (fun l => J i l * FF (l*nP + a) b) := by
    rw [← sumTo_add_fun, ← sumTo_add_fun]
    apply sumTo_congr; intro l _; ring
  have e2 : sumTo nS (fun l => sumTo nS (fun k => DJ (i*nS + l) k * S k b) * S l a)
      = sumTo nS (fun j => sumTo nS (fun k => S k a * DJ (i*nS + k) j) * S j b) := by
    simp only [sumTo_eq_sum, Finset.sum_mul]
    rw [Finset.sum_comm]
    apply Finset.sum_congr rfl; intro j _
    apply Finset.sum_congr rfl; intro k _
    rw [hsym j k]; ring
  rw [e1, e2]; ring

/-- **FULL: the coded right-hand side is the second-order sensitivity equation**, for every number of states and
parameters, every state `i` and every pair of parameters `a`, `b` -/
theorem ff_rhs_is_true {R : Type} [CommSemiring R] (nS nP : ℕ) (J DJ GJ GG FF S : Mat R)
    (i a b : ℕ) (hi : i < nS) (ha : a < nP) (hb : b < nP) :
    evalForwardForward nS nP J DJ GJ GG FF S (i*nP + a) b = ffTrue nS nP J DJ GJ GG FF S i a b := by
  rw [ff_rhs_entry nS nP J DJ GJ GG FF S i a b hi ha hb]
  unfold ffTrue
  ring

/-- what is integrated: position `nS + nS*nP + (i*nP + a)*nP + b` of `ode_and_forwardforward(z, t)` is the true
second-order right-hand side for (state `i`, parameters `a`, `b`) at `S = vecToMatSens(z[nS:nS*(nP+1)])`,
`FF = vecToMatFF(z[nS*(nP+1):])` -/
theorem odeAndForwardForward_ff_block {R : Type} [CommRing R] (nS nP : ℕ) (f : Vec R) (J G DJ GJ GG : Mat R) (z : Vec R)
    (i a b : ℕ) (hi : i < nS) (ha : a < nP) (hb : b < nP) :
    odeAndForwardForward nS nP f J G DJ GJ GG z (nS + nS*nP + ((i*nP + a)*nP + b))
      = ffTrue nS nP J DJ GJ GG (vecToMatFF nP (dropV (nS*(nP+1)) z)) (vecToMatSens nS (dropV nS z)) i a b := by
  have h1 : ¬ (nS + nS*nP + ((i*nP + a)*nP + b) < nS) := by omega
  have h2 : ¬ (nS + nS*nP + ((i*nP + a)*nP + b) < nS + nS*nP) := by omega
  have h3 : nS + nS*nP + ((i*nP + a)*nP + b) - nS - nS*nP = (i*nP + a)*nP + b := by omega
  simp only [odeAndForwardForward, h1, h2, if_false, h3, forwardForward, matToVecFF, flattenC]
  rw [idx_div (i*nP + a) hb, idx_mod (i*nP + a) hb]
  exact ff_rhs_is_true nS nP J DJ GJ GG _ _ i a b hi ha hb

/-- history: the right-hand side AS FOUND was the true one only WHEN the three groups carrying a parameter derivative vanish -/
theorem ff_rhs_asFound_partial {R : Type} [CommSemiring R] (nS nP : ℕ) (J DJ GJ GG FF S : Mat R)
    (i a b : ℕ) (hi : i < nS) (ha : a < nP)
    (hvanish : sumTo nS (fun k => GJ (b*nS + i) k * S k a) + sumTo nS (fun k => GJ (a*nS + i) k * S k b) + GG (i*nP + a) b = 0) :
    evalForwardForwardAsFound nS nP J DJ FF S (i*nP + a) b = ffTrue nS nP J DJ GJ GG FF S i a b := by
  rw [ff_asFound_entry nS nP J DJ FF S i a b hi ha]
  unfold ffTrue
  rw [hvanish, add_zero]

end ff

/-- history, and what a regression looks like: `eval_forwardforward` AS FOUND was not the second-order right-hand side.
`f = θ·x` (one state, one parameter; `θ = 2`, `S = 1`, `X = 0`): `J = 2`, `∂²f/∂x² = 0`, `∂²f/∂x∂θ = 1`,
`∂²f/∂θ² = 0`.  As found the code returned `2·0 + 0 = 0`; the true right-hand side is `0 + 0 + 1 + 1 + 0 = 2`,
which is what the code returns now. -/
theorem ff_rhs_asFound_counterexample :
    evalForwardForwardAsFound 1 1 (fun _ _ => (2:Int)) (fun _ _ => 0) (fun _ _ => 0) (fun _ _ => 1) 0 0 = 0 ∧
    ffTrue 1 1 (fun _ _ => (2:Int)) (fun _ _ => 0) (fun _ _ => 1) (fun _ _ => 0) (fun _ _ => 0) (fun _ _ => 1) 0 0 0 = 2 ∧
    evalForwardForward 1 1 (fun _ _ => (2:Int)) (fun _ _ => 0) (fun _ _ => 1) (fun _ _ => 0) (fun _ _ => 0) (fun _ _ => 1) 0 0 = 2 := by
  decide

/-- each of the three new lines matters (two states, two parameters, entry `(i,a,b) = (0,0,1)`, all other inputs zero):
dropping `GJS` loses `GJ[a*nS+i]·S_b`, dropping `GJS.transpose(0,2,1)` loses `GJ[b*nS+i]·S_a`, dropping `grad_grad`
loses `∂²f_i/∂θ_a∂θ_b` -/
theorem ff_rhs_terms_independent :
    evalForwardForward 2 2 (fun _ _ => (0:Int)) (fun _ _ => 0) (fun r c => if r = 0 ∧ c = 0 then 1 else 0) (fun _ _ => 0)
      (fun _ _ => 0) (fun r c => if r = 0 ∧ c = 1 then 1 else 0) 0 1 = 1 ∧
    evalForwardForward 2 2 (fun _ _ => (0:Int)) (fun _ _ => 0) (fun r c => if r = 2 ∧ c = 0 then 1 else 0) (fun _ _ => 0)
      (fun _ _ => 0) (fun r c => if r = 0 ∧ c = 0 then 1 else 0) 0 1 = 1 ∧
    evalForwardForward 2 2 (fun _ _ => (0:Int)) (fun _ _ => 0) (fun _ _ => 0) (fun r c => if r = 0 ∧ c = 1 then 1 else 0)
      (fun _ _ => 0) (fun _ _ => 0) 0 1 = 1 := by
  decide

/-! ## the Hessian assembly -/
section hessian

theorem scatter_cons {R : Type} [Zero R] [Add R] (x : ℕ) (L : List ℕ) (v : ℕ → R) (j : ℕ) :
    scatter (x :: L) v j = (if j = x then v 0 else 0) + scatter L (fun q => v (q+1)) j := rfl

theorem scatter_not_mem {R : Type} [AddMonoid R] (L : List ℕ) (v : ℕ → R) (j : ℕ) (h : j ∉ L) : scatter L v j = 0 := by
  induction L generalizing v with
  | nil => rfl
  | cons x L ih =>
    have hx : ¬ j = x := fun e => h (e ▸ List.mem_cons_self)
    rw [scatter_cons, if_neg hx, zero_add]
    exact ih _ (fun hm => h (List.mem_cons_of_mem _ hm))

/-- entry `j` of the accumulated vector is the sum of the positions whose index is `j` (`np.add.at`) -/
theorem scatter_entry {R : Type} [AddCommMonoid R] (L : List ℕ) (v : ℕ → R) (j : ℕ) :
    scatter L v j = sumTo L.length (fun q => if L.getD q 0 = j then v q else 0) := by
  induction L generalizing v with
  | nil => rfl
  | cons x L ih =>
    rw [scatter_cons, ih, List.length_cons, sumTo_succ']
    congr 1
    by_cases hj : j = x
    · subst hj; simp
    · have : ¬ x = j := fun e => hj e.symm
      simp [hj, this]

/-- summing against an accumulated vector is summing over the POSITIONS of the index list - repeated indices included
(no `Nodup` hypothesis: that is what `np.add.at` buys) -/
theorem scatter_sum {R : Type} [CommSemiring R] (nS : ℕ) (L : List ℕ) (hlt : ∀ x ∈ L, x < nS)
    (v h : ℕ → R) :
    sumTo nS (fun j => scatter L v j * h j) = sumTo L.length (fun q => v q * h (L.getD q 0)) := by
  induction L generalizing v with
  | nil =>
    simp only [List.length_nil, sumTo]
    refine (sumTo_congr nS _ (fun _ => (0:R)) (fun j _ => ?_)).trans (sumTo_zero nS)
    simp [scatter]
  | cons x L ih =>
    have e : sumTo nS (fun j => scatter (x :: L) v j * h j)
        = sumTo nS (fun j => (if j = x then v 0 * h j else 0) + scatter L (fun q => v (q+1)) j * h j) := by
      apply sumTo_congr; intro j _
      rw [scatter_cons, add_mul]
      by_cases hj : j = x
      · simp [hj]
      · simp [hj]
    rw [e, sumTo_add_fun, sumTo_indicator, ih (fun y hy => hlt y (List.mem_cons_of_mem _ hy)), List.length_cons, sumTo_succ']
    simp [hlt x (List.mem_cons_self)]

/-- without repetition the buffered `out[idx] += v` (as found) and `np.add.at` agree -/
theorem scatterAsFound_eq_of_nodup {R : Type} [AddMonoid R] (L : List ℕ) (hn : L.Nodup) (v : ℕ → R) (j : ℕ) :
    scatterAsFound L v j = scatter L v j := by
  induction L generalizing v with
  | nil => rfl
  | cons x L ih =>
    have hx : x ∉ L := (List.nodup_cons.mp hn).1
    have hL : L.Nodup := (List.nodup_cons.mp hn).2
    rw [scatter_cons]
    simp only [scatterAsFound]
    by_cases hj : j = x
    · subst hj; simp [hx, scatter_not_mem L _ j hx]
    · simp [hj, ih hL]

/-- history (before fix 9e5845f): with a state observed twice, `stateIndex = [1,1]`, the buffered `E[stateIndex] += v`
keeps only the last value (`v 1 = 5`), `np.add.at` - and the cost, the gradient and `jtj`, which sum over the observed
COLUMNS - both (`v 0 + v 1 = 8`) -/
theorem scatter_asFound_counterexample :
    scatterAsFound [1, 1] (fun q => if q = 0 then (3:Int) else 5) 1 = 5 ∧
    scatter [1, 1] (fun q => if q = 0 then (3:Int) else 5) 1 = 8 := by
  decide

/-- `kron(E, eye(nP)).dot(F)`, entry `(a, b)` -/
theorem kronE_entry {R : Type} [CommSemiring R] (nS nP : ℕ) (e : Vec R) (F : Mat R) (a b : ℕ) (ha : a < nP) :
    matMul (nS*nP) (kron nP nP (rowMat e) eye) F a b = sumTo nS (fun j => e j * F (j*nP + a) b) := by
  simp only [matMul, kron, rowMat]
  rw [sumTo_mul]
  apply sumTo_congr; intro j _
  have e1 : sumTo nP (fun a' => e ((j*nP + a') / nP) * (eye : Mat R) (a % nP) ((j*nP + a') % nP) * F (j*nP + a') b)
      = sumTo nP (fun a' => if a' = a then e j * F (j*nP + a') b else 0) := by
    apply sumTo_congr; intro a' ha'
    rw [idx_div j ha', idx_mod j ha', Nat.mod_eq_of_lt ha]
    by_cases h : a' = a
    · subst h; simp [eye]
    · have : ¬ a = a' := fun h' => h h'.symm
      simp [eye, h, this]
  rw [e1, sumTo_indicator]; simp [ha]

/-- what the accumulation loop of `hessian` computes:
`H[a][b] = Σ_i Σ_q diff_loss[i][q]·weight[i][q]·FF_i[stateIndex[q]*nP + a][b]` -/
theorem hessianH_entry {R : Type} [CommRing R] (nS nP n : ℕ) (stateIdx : List ℕ)
    (hlt : ∀ x ∈ stateIdx, x < nS) (dl w : Mat R) (FF : ℕ → Mat R) (a b : ℕ) (ha : a < nP) :
    hessianH nS nP n stateIdx dl w FF a b
      = sumTo n (fun i => sumTo stateIdx.length (fun q => dl i q * w i q * FF i (stateIdx.getD q 0 * nP + a) b)) := by
  unfold hessianH
  apply sumTo_congr; intro i _
  rw [kronE_entry nS nP _ _ a b ha, hessE, scatter_sum nS stateIdx hlt]

/-- the derivative in `θ_b` of the gradient component `a` of the weighted square loss, as `sens_to_grad` computes it:
`yh i q` is the prediction for observation `i`, observed state number `q`, as a function of `θ_b`; `sa i q` its
sensitivity in `θ_a`. -/
theorem gradient_hasDerivAt (n numS : ℕ) (Y w sb X : Mat ℝ) (yh sa : ℕ → ℕ → ℝ → ℝ) (v0 : ℝ)
    (hy : ∀ i q, HasDerivAt (yh i q) (sb i q) v0) (hs : ∀ i q, HasDerivAt (sa i q) (X i q) v0) :
    HasDerivAt (fun v => sumTo n (fun i => sumTo numS (fun q => (-2 * ((Y i q - yh i q v) * w i q)) * (sa i q v * w i q))))
      (sumTo n (fun i => sumTo numS (fun q => (-2 * ((Y i q - yh i q v0) * w i q)) * w i q * X i q))
        + 2 * sumTo n (fun i => sumTo numS (fun q => (sa i q v0 * w i q) * (sb i q * w i q)))) v0 := by
  have h : ∀ i q, HasDerivAt (fun v => (-2 * ((Y i q - yh i q v) * w i q)) * (sa i q v * w i q))
      ((-2 * ((Y i q - yh i q v0) * w i q)) * w i q * X i q + 2 * ((sa i q v0 * w i q) * (sb i q * w i q))) v0 := by
    intro i q
    have h1 := (((hasDerivAt_const v0 (Y i q)).sub (hy i q)).mul_const (w i q)).const_mul (-2:ℝ)
    have h2 := (hs i q).mul_const (w i q)
    exact (h1.mul h2).congr_deriv (by simp only [Pi.sub_apply]; ring)
  have h3 := hasDerivAt_sumTo n (fun i v => sumTo numS (fun q => (-2 * ((Y i q - yh i q v) * w i q)) * (sa i q v * w i q))) _ v0
    (fun i _ => hasDerivAt_sumTo numS (fun q v => (-2 * ((Y i q - yh i q v) * w i q)) * (sa i q v * w i q)) _ v0 (fun q _ => h i q))
  refine h3.congr_deriv ?_
  rw [← sumTo_mul_left, ← sumTo_add_fun]
  apply sumTo_congr; intro i _
  rw [← sumTo_mul_left, ← sumTo_add_fun]

/-- **the Hessian assembly.**  Entry `(a,b)` of `hessian(θ)` is the derivative in the `b`-th target parameter (variable
`v`, at `v0`) of component `a` of `gradient(θ)` of the weighted square loss
`gradient_a(v) = Σ_i Σ_q -2·(y_iq - ŷ_iq(v))·w_iq · (s_iqa(v)·w_iq)`,
for every number of states, parameters, observations, every selection and order of observed states (`stateIdx`,
distinct) and of target parameters (`paramIdx`), every weight array.

PARTIAL because of the two hypotheses that are the variational-equation theorem (see the header, (A1), (A2)):
* `hy` : `ŷ_iq` (the integrated state) has derivative `sb i q` (the integrated first-order sensitivity in `θ_b`);
* `hs` : `s_iqa` (the integrated first-order sensitivity in `θ_a`) has derivative
  `FF_i[stateIdx[q]*nP + paramIdx[a]][paramIdx[b]]`, the entry of the integrated forward-forward block
  (`ff_rhs_is_true`: the system integrated for it IS the second-order variational equation);
`hJTJ` says `JTJ` is the `sens_to_jtj` value at these sensitivities (`jtj_entry`), `dl = -2·(y - ŷ)·w` is `diff_loss`. -/
theorem hessian_is_second_derivative_partial (nS nP n : ℕ) (stateIdx paramIdx : List ℕ)
    (hlt : ∀ x ∈ stateIdx, x < nS) (a b : ℕ) (ha : paramIdx.getD a 0 < nP)
    (Y w sb JTJ : Mat ℝ) (FF : ℕ → Mat ℝ) (yh sa : ℕ → ℕ → ℝ → ℝ) (v0 : ℝ)
    (hy : ∀ i q, HasDerivAt (yh i q) (sb i q) v0)
    (hs : ∀ i q, HasDerivAt (sa i q) (FF i (stateIdx.getD q 0 * nP + paramIdx.getD a 0) (paramIdx.getD b 0)) v0)
    (hJTJ : JTJ a b = sumTo n (fun i => sumTo stateIdx.length (fun q => (sa i q v0 * w i q) * (sb i q * w i q)))) :
    HasDerivAt (fun v => sumTo n (fun i => sumTo stateIdx.length (fun q => (-2 * ((Y i q - yh i q v) * w i q)) * (sa i q v * w i q))))
      (hessian nS nP n stateIdx paramIdx (fun i q => -2 * ((Y i q - yh i q v0) * w i q)) w FF JTJ a b) v0 := by
  refine (gradient_hasDerivAt n stateIdx.length Y w sb _ yh sa v0 hy hs).congr_deriv ?_
  unfold hessian
  rw [hJTJ, hessianH_entry nS nP n stateIdx hlt _ w FF _ _ ha]
  congr 1
  ring

end hessian

/-- history (before fix 0f0d14a): the assembly AS FOUND had the wrong sign (and no weight) on its second-order term.
One observation, one state, one parameter, `diff_loss = 1`, weight 1, second-order sensitivity 1, `JTJ = 0`: the
derivative of the gradient is `diff_loss·w·X + 2·JTJ = 1`, which is what the code returns now; as found it returned `-1`. -/
theorem hessian_asFound_sign_counterexample :
    hessianAsFound 1 1 1 [0] [0] (fun _ _ => (1:Int)) (fun _ _ _ => 1) (fun _ _ => 0) 0 0 = -1 ∧
    hessian 1 1 1 [0] [0] (fun _ _ => (1:Int)) (fun _ _ => 1) (fun _ _ _ => 1) (fun _ _ => 0) 0 0 = 1 := by
  decide

/-- history (before fix 9e5845f): one observation time, two states, one parameter, state 1 observed twice
(`stateIdx = [1,1]`) with `diff_loss·weight = 3` and `5`, second-order sensitivity of state 1 equal to 1, `JTJ = 0`:
the derivative of the gradient is `(3 + 5)·1 = 8` (`hessianH_entry`, sum over the two POSITIONS), which is what the
code returns now; with the buffered `E[stateIndex] += …` it returned `5`. -/
theorem hessian_overwrite_asFound_counterexample :
    hessianOverwrite 2 1 1 [1, 1] [0] (fun _ q => if q = 0 then (3:Int) else 5) (fun _ _ => 1) (fun _ _ _ => 1) (fun _ _ => 0) 0 0 = 5 ∧
    hessian 2 1 1 [1, 1] [0] (fun _ q => if q = 0 then (3:Int) else 5) (fun _ _ => 1) (fun _ _ _ => 1) (fun _ _ => 0) 0 0 = 8 := by
  decide

/-! ## non-vacuity -/

/-- the hypotheses of `hessian_is_second_derivative_partial` are satisfiable with non-zero data:
one observation of a one-state model with `ŷ(θ) = θ²`, so `s = 2θ`, `X = 2`, at `θ = 1`, `y = 3`, weight `2` -/
example : HasDerivAt (fun v : ℝ => sumTo 1 (fun i => sumTo 1 (fun q => (-2 * (((3:ℝ) - v*v) * 2)) * ((2*v) * 2))))
    (hessian 1 1 1 [0] [0] (fun _ _ => -2 * (((3:ℝ) - 1*1) * 2)) (fun _ _ => 2) (fun _ _ _ => 2)
      (fun _ _ => (2*1*2) * (2*2)) 0 0) 1 := by
  have hy : ∀ i q : ℕ, HasDerivAt (fun v : ℝ => v*v) ((fun _ _ => (2:ℝ)) i q) 1 := by
    intro i q
    have := (hasDerivAt_id (1:ℝ)).mul (hasDerivAt_id (1:ℝ))
    refine this.congr_deriv ?_; simp; norm_num
  have hs : ∀ i q : ℕ, HasDerivAt (fun v : ℝ => 2*v) ((fun (_ : ℕ) (_ _ : ℕ) => (2:ℝ)) i (([0] : List ℕ).getD q 0 * 1 + ([0] : List ℕ).getD 0 0) (([0] : List ℕ).getD 0 0)) 1 := by
    intro i q
    simpa using (hasDerivAt_id (1:ℝ)).const_mul (2:ℝ)
  have h := hessian_is_second_derivative_partial 1 1 1 [0] [0] (by simp) 0 0 (by simp)
    (fun _ _ => (3:ℝ)) (fun _ _ => 2) (fun _ _ => 2) (fun _ _ => (2*1*2) * (2*2)) (fun _ _ _ => 2)
    (fun _ _ v => v*v) (fun _ _ v => 2*v) 1 hy hs (by simp [sumTo])
  simpa using h

/-- the hypotheses of `ffTrue_is_total_derivative_of_sens_rhs` are satisfiable with every group of terms non-zero:
one state, one parameter, `f(x, θ) = θ²·x²` along `x(θ) = θ` (so `S = 1`, `X = 0`) at `θ = 1`:
`J(θ) = 2θ²·x(θ) = 2θ³`, `G(θ) = 2θ·x(θ)² = 2θ³`, `∂²f/∂x² = 2`, `∂²f/∂x∂θ = 4`, `∂²f/∂θ² = 2`;
the derivative of `J·S + G = 2θ³·1 + 2θ³` at `1` is `12 = 2·0 + 2 + 4 + 4 + 2`. -/
example : HasDerivAt (fun v : ℝ => sumTo 1 (fun l => (2*(v*v*v)) * (1:ℝ)) + 2*(v*v*v))
    (ffTrue 1 1 (fun _ _ => (2:ℝ)) (fun _ _ => 2) (fun _ _ => 4) (fun _ _ => 2) (fun _ _ => 0) (fun _ _ => 1) 0 0 0) 1 := by
  have hp : HasDerivAt (fun v : ℝ => 2*(v*v*v)) 6 1 := by
    have := ((((hasDerivAt_id (1:ℝ)).mul (hasDerivAt_id (1:ℝ))).mul (hasDerivAt_id (1:ℝ)))).const_mul (2:ℝ)
    refine this.congr_deriv ?_; simp; norm_num
  have h := ffTrue_is_total_derivative_of_sens_rhs 1 1 (fun _ _ => (2:ℝ)) (fun _ _ => 2) (fun _ _ => 4) (fun _ _ => 2)
    (fun _ _ => 0) (fun _ _ => 1) (fun v _ _ => 2*(v*v*v)) (fun v _ _ => 2*(v*v*v)) (fun _ _ _ => 1) 1 0 0 0
    (by intro l; norm_num) (by intro l; rfl)
    (by intro l _; exact hasDerivAt_const (1:ℝ) (1:ℝ))
    (by intro l _; refine hp.congr_deriv ?_; simp [sumTo]; norm_num)
    (by refine hp.congr_deriv ?_; simp [sumTo]; norm_num)
    (by intro k l; rfl)
  exact h

end C20
end Pygom
