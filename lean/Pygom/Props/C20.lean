/-
C20 - curvature information matches the cost it is meant to describe.

About `Pygom/Sens.lean` (`sens_to_jtj`, `eval_forwardforward`, the assembly at the end of `hessian`):

* `jtj_entry`, `jtj_symm`, `jtj_posSemidef` : `jtj[a][b] = Σ_i Σ_j w_ij²·S_ija·S_ijb`, symmetric, positive
  semi-definite - for every number of observations, observed states and free parameters;
* `ff_rhs_entry` : what the coded forward-forward right-hand side computes;
  `ffTrue_is_total_derivative_of_sens_rhs` : the true second-order sensitivity equation (the total derivative of the
  first-order right-hand side `J·S_a + G_a` in `θ_b`);
  `ff_rhs_partial` : the two agree WHEN the three groups of terms with a parameter derivative vanish;
  `ff_rhs_counterexample` : they do not in general (`f = θ·x`): the code omits those groups;
* `hessianH_entry`; `hessian_repaired_is_derivative_of_gradient` : with the sign/weight repair of the second-order
  term the assembly is the derivative of `gradient` (given second-order sensitivities);
  `hessian_is_second_derivative_partial` : AS CODED it is so only when the second-order sensitivities of the observed
  states vanish; `hessian_sign_counterexample`.

FULL STATEMENT (false of the code today, for two independent reasons - see the counterexamples):
  `hessian(θ)[a][b]` is the derivative of `gradient(θ)[a]` in `θ_b` for every model.
Assumed throughout (as in C13): integrating a sensitivity system yields the derivative of the solution.
-/
import Pygom.Lemmas.SensDeriv
import Mathlib.LinearAlgebra.Matrix.PosDef
import Mathlib.Algebra.Order.Star.Real

set_option linter.unusedSimpArgs false
set_option linter.unusedVariables false

namespace Pygom
namespace C20
open Sens

/-! ## J^T J -/
section jtj

/-- `S_ija` inside `sens_to_jtj`: entry `(j, a)` of `np.reshape(sens, (n, num_s, num_out), 'F')[i]` -/
def S3 {R : Type} (numS : ℕ) (sens : Mat R) (i j a : ℕ) : R := sens i (j + a*numS)

theorem jtj_entry {R : Type} [CommSemiring R] (n numS : ℕ) (w sens : Mat R) (a b : ℕ) :
    sensToJtj n numS w sens a b
      = sumTo n (fun i => sumTo numS (fun j => w i j ^ 2 * S3 numS sens i j a * S3 numS sens i j b)) := by
  unfold sensToJtj
  apply sumTo_congr; intro i _
  unfold matMul
  apply sumTo_congr; intro j _
  simp only [transpose, sensBlock, S3]; ring

theorem jtj_symm {R : Type} [CommSemiring R] (n numS : ℕ) (w sens : Mat R) (a b : ℕ) :
    sensToJtj n numS w sens a b = sensToJtj n numS w sens b a := by
  rw [jtj_entry, jtj_entry]
  apply sumTo_congr; intro i _
  apply sumTo_congr; intro j _
  ring

/-- the `p × p` matrix `sens_to_jtj` returns -/
noncomputable def jtjMatrix (n numS p : ℕ) (w sens : Mat ℝ) : Matrix (Fin p) (Fin p) ℝ :=
  Matrix.of (fun a b => sensToJtj n numS w sens a b)

theorem jtjMatrix_eq_sum (n numS p : ℕ) (w sens : Mat ℝ) :
    jtjMatrix n numS p w sens
      = ∑ i : Fin n, (Matrix.of (fun (j : Fin numS) (k : Fin p) => sensBlock numS w sens i j k)).transpose
                      * Matrix.of (fun (j : Fin numS) (k : Fin p) => sensBlock numS w sens i j k) := by
  ext a b
  simp only [jtjMatrix, Matrix.of_apply, sensToJtj, matMul, transpose, sumTo_eq_sum, Matrix.sum_apply,
    Matrix.mul_apply, Matrix.transpose_apply]
  rw [← Fin.sum_univ_eq_sum_range (fun i => ∑ l ∈ Finset.range numS, sensBlock numS w sens i l a * sensBlock numS w sens i l b) n]
  apply Finset.sum_congr rfl; intro i _
  rw [← Fin.sum_univ_eq_sum_range (fun l => sensBlock numS w sens i l a * sensBlock numS w sens i l b) numS]

/-- positive semi-definite, for every number of observations `n`, observed states `numS` and free parameters `p` -/
theorem jtj_posSemidef (n numS p : ℕ) (w sens : Mat ℝ) : (jtjMatrix n numS p w sens).PosSemidef := by
  rw [jtjMatrix_eq_sum]
  apply Matrix.posSemidef_sum
  intro i _
  have := Matrix.posSemidef_conjTranspose_mul_self
    (Matrix.of (fun (j : Fin numS) (k : Fin p) => sensBlock numS w sens i j k))
  simpa [Matrix.conjTranspose_eq_transpose_of_trivial] using this

end jtj

/-! ## second-order (forward-forward) sensitivities -/
section ff

/-- what `eval_forwardforward` computes: row `i*nP + a`, column `b` (state `i`, parameters `a`, `b`) is
`Σ_l J_il·FF[l*nP+a][b] + Σ_j (Σ_k S_ka·∂²f_i/∂x_k∂x_j)·S_jb` -/
theorem ff_rhs_entry {R : Type} [CommSemiring R] (nS nP : ℕ) (J DJ FF S : Mat R) (i a b : ℕ)
    (hi : i < nS) (ha : a < nP) :
    evalForwardForward nS nP J DJ FF S (i*nP + a) b
      = sumTo nS (fun l => J i l * FF (l*nP + a) b)
        + sumTo nS (fun j => sumTo nS (fun k => S k a * DJ (i*nS + k) j) * S j b) := by
  unfold evalForwardForward matAdd
  congr 1
  · -- kronParam(J).dot(FF)
    simp only [matMul, kronParam, Bool.false_eq_true, if_false, kron]
    rw [sumTo_mul]
    apply sumTo_congr; intro l _
    have e : sumTo nP (fun a' => J ((i*nP + a) / nP) ((l*nP + a') / nP)
          * (eye : Mat R) ((i*nP + a) % nP) ((l*nP + a') % nP) * FF (l*nP + a') b)
        = sumTo nP (fun a' => if a' = a then J i l * FF (l*nP + a') b else 0) := by
      apply sumTo_congr; intro a' ha'
      rw [idx_div i ha, idx_mod i ha, idx_div l ha', idx_mod l ha']
      by_cases h : a' = a
      · subst h; simp [eye]
      · have : ¬ a = a' := fun h' => h h'.symm
        simp [eye, h, this]
    rw [e, sumTo_indicator]; simp [ha]
  · -- kronState(S.T, pre=True).dot(diffJ).dot(S)
    simp only [matMul, kronState, if_true, kron, transpose]
    apply sumTo_congr; intro j _
    congr 1
    rw [sumTo_mul]
    have e : sumTo nS (fun e' => sumTo nS (fun k => (eye : Mat R) ((i*nP + a) / nP) ((e'*nS + k) / nS)
          * S ((e'*nS + k) % nS) ((i*nP + a) % nP) * DJ (e'*nS + k) j))
        = sumTo nS (fun e' => if e' = i then sumTo nS (fun k => S k a * DJ (e'*nS + k) j) else 0) := by
      apply sumTo_congr; intro e' _
      by_cases h : e' = i
      · subst h
        simp only [if_true]
        apply sumTo_congr; intro k hk
        rw [idx_div e' ha, idx_mod e' ha, idx_div e' hk, idx_mod e' hk]; simp [eye]
      · simp only [h, if_false]
        refine (sumTo_congr nS _ (fun _ => (0:R)) (fun k hk => ?_)).trans (sumTo_zero nS)
        have : ¬ i = e' := fun h' => h h'.symm
        rw [idx_div i ha, idx_div e' hk]; simp [eye, this]
    rw [e, sumTo_indicator]; simp [hi]

/-- the TRUE right-hand side of the second-order sensitivity equation for `X_iab = ∂²x_i/∂θ_a∂θ_b`:
`J·X_ab + Σ_kl ∂²f_i/∂x_k∂x_l·S_ka·S_lb + Σ_k ∂²f_i/∂x_k∂θ_b·S_ka + Σ_k ∂²f_i/∂x_k∂θ_a·S_kb + ∂²f_i/∂θ_a∂θ_b`.
`GJ` is `grad_jacobian` (row `b*nS+i`, column `k` ↦ `∂/∂x_k ∂f_i/∂θ_b`), `GG i a b = ∂²f_i/∂θ_a∂θ_b`. -/
def ffTrue {R : Type} [Zero R] [Add R] [Mul R] (nS nP : ℕ) (J DJ GJ FF S : Mat R) (GG : ℕ → ℕ → ℕ → R) (i a b : ℕ) : R :=
  sumTo nS (fun l => J i l * FF (l*nP + a) b)
  + sumTo nS (fun j => sumTo nS (fun k => S k a * DJ (i*nS + k) j) * S j b)
  + (sumTo nS (fun k => GJ (b*nS + i) k * S k a) + sumTo nS (fun k => GJ (a*nS + i) k * S k b) + GG i a b)

/-- `ffTrue` is the derivative in `θ_b` (variable `v`) of the first-order right-hand side `Σ_l J_il·S_la + G_ia`
evaluated along the solution: `St v l a` has derivative `X_lab = FF[l*nP+a][b]`; the Jacobian and gradient entries
along the solution have the total derivatives the chain rule gives them. -/
theorem ffTrue_is_total_derivative_of_sens_rhs (nS nP : ℕ) (J DJ GJ FF S : Mat ℝ) (GG : ℕ → ℕ → ℕ → ℝ)
    (Jt Gt St : ℝ → ℕ → ℕ → ℝ) (v0 : ℝ) (i a b : ℕ)
    (hJ0 : ∀ l, Jt v0 i l = J i l) (hS0 : ∀ l, St v0 l a = S l a)
    (hS : ∀ l, l < nS → HasDerivAt (fun v => St v l a) (FF (l*nP + a) b) v0)
    (hJt : ∀ l, l < nS → HasDerivAt (fun v => Jt v i l) (sumTo nS (fun k => DJ (i*nS + l) k * S k b) + GJ (b*nS + i) l) v0)
    (hGt : HasDerivAt (fun v => Gt v i a) (sumTo nS (fun k => GJ (a*nS + i) k * S k b) + GG i a b) v0)
    (hsym : ∀ k l, DJ (i*nS + l) k = DJ (i*nS + k) l) :
    HasDerivAt (fun v => sumTo nS (fun l => Jt v i l * St v l a) + Gt v i a)
      (ffTrue nS nP J DJ GJ FF S GG i a b) v0 := by
  have h1 := hasDerivAt_sumTo nS (fun l v => Jt v i l * St v l a) _ v0 (fun l hl => (hJt l hl).mul (hS l hl))
  refine (h1.add hGt).congr_deriv ?_
  unfold ffTrue
  simp only [hJ0, hS0]
  have e1 : sumTo nS (fun l => (sumTo nS (fun k => DJ (i*nS + l) k * S k b) + GJ (b*nS + i) l) * S l a + J i l * FF (l*nP + a) b)
      = sumTo nS (fun l => sumTo nS (fun k => DJ (i*nS + l) k * S k b) * S l a)
        + sumTo nS (fun l => GJ (b*nS + i) l * S l a) + sumTo nS (fun l => J i l * FF (l*nP + a) b) := by
    rw [← sumTo_add_fun, ← sumTo_add_fun]
    apply sumTo_congr; intro l _; ring
  have e2 : sumTo nS (fun l => sumTo nS (fun k => DJ (i*nS + l) k * S k b) * S l a)
      = sumTo nS (fun j => sumTo nS (fun k => S k a * DJ (i*nS + k) j) * S j b) := by
    simp only [sumTo_eq_sum, Finset.sum_mul]
    rw [Finset.sum_comm]
    apply Finset.sum_congr rfl; intro j _
    apply Finset.sum_congr rfl; intro k _
    rw [hsym j k]; ring
  rw [e1, e2]; ring

/-- the coded right-hand side is the true one WHEN the three groups carrying a parameter derivative vanish -/
theorem ff_rhs_partial {R : Type} [CommSemiring R] (nS nP : ℕ) (J DJ GJ FF S : Mat R) (GG : ℕ → ℕ → ℕ → R)
    (i a b : ℕ) (hi : i < nS) (ha : a < nP)
    (hvanish : sumTo nS (fun k => GJ (b*nS + i) k * S k a) + sumTo nS (fun k => GJ (a*nS + i) k * S k b) + GG i a b = 0) :
    evalForwardForward nS nP J DJ FF S (i*nP + a) b = ffTrue nS nP J DJ GJ FF S GG i a b := by
  rw [ff_rhs_entry nS nP J DJ FF S i a b hi ha]
  unfold ffTrue
  rw [hvanish, add_zero]

end ff

/-- FULL STATEMENT (false of the code): `eval_forwardforward` is the true second-order right-hand side for every model.
`f = θ·x` (one state, one parameter; `θ = 2`, `S = 1`, `X = 0`): `J = 2`, `∂²f/∂x² = 0`, `∂²f/∂x∂θ = 1`,
`∂²f/∂θ² = 0`.  The code returns `2·0 + 0 = 0`, the true right-hand side is `0 + 0 + 1 + 1 + 0 = 2`. -/
theorem ff_rhs_counterexample :
    evalForwardForward 1 1 (fun _ _ => (2:Int)) (fun _ _ => 0) (fun _ _ => 0) (fun _ _ => 1) 0 0 = 0 ∧
    ffTrue 1 1 (fun _ _ => (2:Int)) (fun _ _ => 0) (fun _ _ => 1) (fun _ _ => 0) (fun _ _ => 1) (fun _ _ _ => 0) 0 0 0 = 2 := by
  decide

/-! ## the Hessian assembly -/
section hessian

theorem scatter_cons {R : Type} [Zero R] (x : ℕ) (L : List ℕ) (v : ℕ → R) (j : ℕ) :
    scatter (x :: L) v j = if j = x then v 0 else scatter L (fun q => v (q+1)) j := by
  by_cases h : j = x
  · subst h; simp [scatter]
  · have h' : ¬ x = j := fun e => h e.symm
    simp [scatter, List.idxOf_cons, h, h']

theorem scatter_not_mem {R : Type} [Zero R] (L : List ℕ) (v : ℕ → R) (j : ℕ) (h : j ∉ L) : scatter L v j = 0 := by
  simp [scatter, List.idxOf_eq_length h]

/-- summing against a scattered vector is summing over its positions -/
theorem scatter_sum {R : Type} [CommSemiring R] (nS : ℕ) (L : List ℕ) (hn : L.Nodup) (hlt : ∀ x ∈ L, x < nS)
    (v h : ℕ → R) :
    sumTo nS (fun j => scatter L v j * h j) = sumTo L.length (fun q => v q * h (L.getD q 0)) := by
  induction L generalizing v with
  | nil =>
    simp only [List.length_nil, sumTo]
    refine (sumTo_congr nS _ (fun _ => (0:R)) (fun j _ => ?_)).trans (sumTo_zero nS)
    simp [scatter]
  | cons x L ih =>
    have hx : x ∉ L := (List.nodup_cons.mp hn).1
    have hL : L.Nodup := (List.nodup_cons.mp hn).2
    have e : sumTo nS (fun j => scatter (x :: L) v j * h j)
        = sumTo nS (fun j => (if j = x then v 0 * h j else 0) + scatter L (fun q => v (q+1)) j * h j) := by
      apply sumTo_congr; intro j _
      rw [scatter_cons]
      by_cases hj : j = x
      · subst hj; simp [scatter_not_mem L _ j hx]
      · simp [hj]
    rw [e, sumTo_add_fun, sumTo_indicator, ih hL (fun y hy => hlt y (List.mem_cons_of_mem _ hy)), List.length_cons, sumTo_succ']
    simp [hlt x (List.mem_cons_self)]

/-- `kron(E, eye(nP)).dot(F)`, entry `(a, b)` -/
theorem kronE_entry {R : Type} [CommSemiring R] (nS nP : ℕ) (e : Vec R) (F : Mat R) (a b : ℕ) (ha : a < nP) :
    matMul (nS*nP) (kron nP nP (rowMat e) eye) F a b = sumTo nS (fun j => e j * F (j*nP + a) b) := by
  simp only [matMul, kron, rowMat]
  rw [sumTo_mul]
  apply sumTo_congr; intro j _
  have e1 : sumTo nP (fun a' => e ((j*nP + a') / nP) * (eye : Mat R) (a % nP) ((j*nP + a') % nP) * F (j*nP + a') b)
      = sumTo nP (fun a' => if a' = a then e j * F (j*nP + a') b else 0) := by
    apply sumTo_congr; intro a' ha'
    rw [idx_div j ha', idx_mod j ha', Nat.mod_eq_of_lt ha]
    by_cases h : a' = a
    · subst h; simp [eye]
    · have : ¬ a = a' := fun h' => h h'.symm
      simp [eye, h, this]
  rw [e1, sumTo_indicator]; simp [ha]

/-- what the accumulation loop of `hessian` computes: `H[a][b] = Σ_i Σ_q (-diff_loss[i][q])·FF_i[stateIndex[q]*nP + a][b]` -/
theorem hessianH_entry {R : Type} [CommRing R] (nS nP n : ℕ) (stateIdx : List ℕ) (hn : stateIdx.Nodup)
    (hlt : ∀ x ∈ stateIdx, x < nS) (dl : Mat R) (FF : ℕ → Mat R) (a b : ℕ) (ha : a < nP) :
    hessianH nS nP n stateIdx dl FF a b
      = sumTo n (fun i => sumTo stateIdx.length (fun q => -(dl i q) * FF i (stateIdx.getD q 0 * nP + a) b)) := by
  unfold hessianH
  apply sumTo_congr; intro i _
  rw [kronE_entry nS nP _ _ a b ha, hessE, scatter_sum nS stateIdx hn hlt]
  apply sumTo_congr; intro q _; ring

/-- the derivative in `θ_b` of the gradient component `a` of the weighted square loss, as `sens_to_grad` computes it:
`yh i q` is the prediction for observation `i`, observed state number `q`, as a function of `θ_b`; `sa i q` its
sensitivity in `θ_a`. -/
theorem gradient_hasDerivAt (n numS : ℕ) (Y w sb X : Mat ℝ) (yh sa : ℕ → ℕ → ℝ → ℝ) (v0 : ℝ)
    (hy : ∀ i q, HasDerivAt (yh i q) (sb i q) v0) (hs : ∀ i q, HasDerivAt (sa i q) (X i q) v0) :
    HasDerivAt (fun v => sumTo n (fun i => sumTo numS (fun q => (-2 * ((Y i q - yh i q v) * w i q)) * (sa i q v * w i q))))
      (sumTo n (fun i => sumTo numS (fun q => (-2 * ((Y i q - yh i q v0) * w i q)) * w i q * X i q))
        + 2 * sumTo n (fun i => sumTo numS (fun q => (sa i q v0 * w i q) * (sb i q * w i q)))) v0 := by
  have h : ∀ i q, HasDerivAt (fun v => (-2 * ((Y i q - yh i q v) * w i q)) * (sa i q v * w i q))
      ((-2 * ((Y i q - yh i q v0) * w i q)) * w i q * X i q + 2 * ((sa i q v0 * w i q) * (sb i q * w i q))) v0 := by
    intro i q
    have h1 := (((hasDerivAt_const v0 (Y i q)).sub (hy i q)).mul_const (w i q)).const_mul (-2:ℝ)
    have h2 := (hs i q).mul_const (w i q)
    exact (h1.mul h2).congr_deriv (by simp only [Pi.sub_apply]; ring)
  have h3 := hasDerivAt_sumTo n (fun i v => sumTo numS (fun q => (-2 * ((Y i q - yh i q v) * w i q)) * (sa i q v * w i q))) _ v0
    (fun i _ => hasDerivAt_sumTo numS (fun q v => (-2 * ((Y i q - yh i q v) * w i q)) * (sa i q v * w i q)) _ v0 (fun q _ => h i q))
  refine h3.congr_deriv ?_
  rw [← sumTo_mul_left, ← sumTo_add_fun]
  apply sumTo_congr; intro i _
  rw [← sumTo_mul_left, ← sumTo_add_fun]

/-- **repaired assembly.**  With `E[stateIndex] += diff_loss[i]*weight[i]`, entry `(a,b)` of `hessian` is the
derivative in the `b`-th target parameter of component `a` of `gradient`, GIVEN that the integrated forward-forward
block holds the second-order sensitivities of the observed states (`hs`) and the integrated sensitivities are the
first-order ones (`hy`), and `JTJ` is the `sens_to_jtj` value (`hJTJ`, see `jtj_entry`). -/
theorem hessian_repaired_is_derivative_of_gradient (nS nP n : ℕ) (stateIdx paramIdx : List ℕ)
    (hn : stateIdx.Nodup) (hlt : ∀ x ∈ stateIdx, x < nS) (a b : ℕ) (ha : paramIdx.getD a 0 < nP)
    (Y w sb JTJ : Mat ℝ) (FF : ℕ → Mat ℝ) (yh sa : ℕ → ℕ → ℝ → ℝ) (v0 : ℝ)
    (hy : ∀ i q, HasDerivAt (yh i q) (sb i q) v0)
    (hs : ∀ i q, HasDerivAt (sa i q) (FF i (stateIdx.getD q 0 * nP + paramIdx.getD a 0) (paramIdx.getD b 0)) v0)
    (hJTJ : JTJ a b = sumTo n (fun i => sumTo stateIdx.length (fun q => (sa i q v0 * w i q) * (sb i q * w i q)))) :
    HasDerivAt (fun v => sumTo n (fun i => sumTo stateIdx.length (fun q => (-2 * ((Y i q - yh i q v) * w i q)) * (sa i q v * w i q))))
      (hessianRepaired nS nP n stateIdx paramIdx (fun i q => -2 * ((Y i q - yh i q v0) * w i q)) w FF JTJ a b) v0 := by
  refine (gradient_hasDerivAt n stateIdx.length Y w sb _ yh sa v0 hy hs).congr_deriv ?_
  unfold hessianRepaired
  rw [hJTJ]
  congr 1
  · apply sumTo_congr; intro i _
    rw [kronE_entry nS nP _ _ _ _ ha, hessERepaired, scatter_sum nS stateIdx hn hlt]
    apply sumTo_congr; intro q _; ring
  · ring

/-- **as coded** (`E[stateIndex] += -diff_loss[i]`): the same conclusion needs the second-order sensitivities of the
observed states to vanish (then `hessian = 2·JTJ`, the Gauss-Newton matrix). -/
theorem hessian_is_second_derivative_partial (nS nP n : ℕ) (stateIdx paramIdx : List ℕ)
    (hn : stateIdx.Nodup) (hlt : ∀ x ∈ stateIdx, x < nS) (a b : ℕ) (ha : paramIdx.getD a 0 < nP)
    (Y w sb JTJ : Mat ℝ) (FF : ℕ → Mat ℝ) (yh sa : ℕ → ℕ → ℝ → ℝ) (v0 : ℝ)
    (hy : ∀ i q, HasDerivAt (yh i q) (sb i q) v0)
    (hs : ∀ i q, HasDerivAt (sa i q) (FF i (stateIdx.getD q 0 * nP + paramIdx.getD a 0) (paramIdx.getD b 0)) v0)
    (hJTJ : JTJ a b = sumTo n (fun i => sumTo stateIdx.length (fun q => (sa i q v0 * w i q) * (sb i q * w i q))))
    (hX : ∀ i q, FF i (stateIdx.getD q 0 * nP + paramIdx.getD a 0) (paramIdx.getD b 0) = 0) :
    HasDerivAt (fun v => sumTo n (fun i => sumTo stateIdx.length (fun q => (-2 * ((Y i q - yh i q v) * w i q)) * (sa i q v * w i q))))
      (hessianCoded nS nP n stateIdx paramIdx (fun i q => -2 * ((Y i q - yh i q v0) * w i q)) FF JTJ a b) v0 := by
  have h := hessian_repaired_is_derivative_of_gradient nS nP n stateIdx paramIdx hn hlt a b ha Y w sb JTJ FF yh sa v0 hy hs hJTJ
  refine h.congr_deriv ?_
  unfold hessianRepaired hessianCoded
  congr 1
  rw [hessianH_entry nS nP n stateIdx hn hlt _ FF _ _ ha]
  apply sumTo_congr; intro i _
  rw [kronE_entry nS nP _ _ _ _ ha, hessERepaired, scatter_sum nS stateIdx hn hlt]
  apply sumTo_congr; intro q _
  rw [hX i q]; ring

end hessian

/-- FULL STATEMENT (false of the code): `hessian` is the derivative of `gradient`.  One observation, one state, one
parameter, `diff_loss = 1`, weight 1, second-order sensitivity 1, `JTJ = 0`: the derivative of the gradient is
`diff_loss·w·X + 2·JTJ = 1`; the code returns `-1` (sign of the second-order term). -/
theorem hessian_sign_counterexample :
    hessianCoded 1 1 1 [0] [0] (fun _ _ => (1:Int)) (fun _ _ _ => 1) (fun _ _ => 0) 0 0 = -1 ∧
    hessianRepaired 1 1 1 [0] [0] (fun _ _ => (1:Int)) (fun _ _ => 1) (fun _ _ _ => 1) (fun _ _ => 0) 0 0 = 1 := by
  decide

/-! ## non-vacuity -/

/-- the hypotheses of `hessian_repaired_is_derivative_of_gradient` are satisfiable with non-zero data:
one observation of a one-state model with `ŷ(θ) = θ²`, so `s = 2θ`, `X = 2`, at `θ = 1`, `y = 3`, weight `2` -/
example : HasDerivAt (fun v : ℝ => sumTo 1 (fun i => sumTo 1 (fun q => (-2 * (((3:ℝ) - v*v) * 2)) * ((2*v) * 2))))
    (hessianRepaired 1 1 1 [0] [0] (fun _ _ => -2 * (((3:ℝ) - 1*1) * 2)) (fun _ _ => 2) (fun _ _ _ => 2)
      (fun _ _ => (2*1*2) * (2*2)) 0 0) 1 := by
  have hy : ∀ i q : ℕ, HasDerivAt (fun v : ℝ => v*v) ((fun _ _ => (2:ℝ)) i q) 1 := by
    intro i q
    have := (hasDerivAt_id (1:ℝ)).mul (hasDerivAt_id (1:ℝ))
    refine this.congr_deriv ?_; simp; norm_num
  have hs : ∀ i q : ℕ, HasDerivAt (fun v : ℝ => 2*v) ((fun (_ : ℕ) (_ _ : ℕ) => (2:ℝ)) i (([0] : List ℕ).getD q 0 * 1 + ([0] : List ℕ).getD 0 0) (([0] : List ℕ).getD 0 0)) 1 := by
    intro i q
    simpa using (hasDerivAt_id (1:ℝ)).const_mul (2:ℝ)
  have h := hessian_repaired_is_derivative_of_gradient 1 1 1 [0] [0] (by simp) (by simp) 0 0 (by simp)
    (fun _ _ => (3:ℝ)) (fun _ _ => 2) (fun _ _ => 2) (fun _ _ => (2*1*2) * (2*2)) (fun _ _ _ => 2)
    (fun _ _ v => v*v) (fun _ _ v => 2*v) 1 hy hs (by simp [sumTo])
  simpa using h

end C20
end Pygom
