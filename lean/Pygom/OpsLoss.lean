/-
Driver ops of the loss layer (exact, on integers / rationals):
  broadcast   {"n","p","x"}                     -> {"ok": rows} | {"err": class, "site": where}
  sensIndex   {"nS","nP","states","params","obs","target_param","target_state"}
                                                 -> index lists of the current variant (+ both variants)
  sensToGrad  {"numS","sens","dl","w"}          -> {"ok": grad} | {"err": class}
  setParam    {"numParam","target_param","theta"} -> {"kind": none|positional|byName, ...} | {"err": class}
Numbers come in as JSON integers or strings "p/q" and go out as strings "p/q" (Codec.ratToJson).
-/
import Pygom.Codec
import Pygom.GradIndex

namespace Pygom
open Lean (Json)
open Loss GradIndex

def ratMatOfJson (j : Json) : Except String (List (List Rat)) := listOfJson (listOfJson ratOfJson) j

/-- number -> scalar; list of numbers -> vec; list of lists -> mat; `[]` -> vec [] -/
def wInputOfJson (j : Json) : Except String (WInput Rat) :=
  match j with
  | .arr a =>
    match a[0]? with
    | some (Json.arr _) => do pure (.mat (← ratMatOfJson j))
    | _ => do pure (.vec (← listOfJson ratOfJson j))
  | _ => do pure (.scalar (← ratOfJson j))

def opBroadcast (j : Json) : Except String Json := do
  let n ← (fld j "n").getNat?
  let p ← (fld j "p").getNat?
  let x ← wInputOfJson (fld j "x")
  match setWeightOrSpread n p x with
  | .ok rows => pure (Json.mkObj [("ok", ratMatToJson rows)])
  | .error e => pure (Json.mkObj [("err", e.pyClass), ("site", e.site)])

def optStrs (j : Json) : Except String (Option (List String)) :=
  if j.isNull then pure none else do pure (some (← listOfJson (fun x => x.getStr?) j))

def exceptNatsToJson : Except String (List Nat) → Json
  | .ok l => natsToJson l
  | .error e => Json.mkObj [("err", e)]

def sensIndexFor (v : CodeVariant) (nS nP : Nat) (stateIdx pIdx tIdx : List Nat) (given : Bool) : Json :=
  Json.mkObj [("paramSens", natsToJson (targetParamSensIndexV v nS stateIdx pIdx)),
              ("stateSens", exceptNatsToJson (targetStateSensIndexV v nS nP stateIdx tIdx given))]

def opSensIndex (j : Json) : Except String Json := do
  let states ← listOfJson (fun x => x.getStr?) (fld j "states")
  let params ← listOfJson (fun x => x.getStr?) (fld j "params")
  let obs ← listOfJson (fun x => x.getStr?) (fld j "obs")
  let tp ← optStrs (fld j "target_param")
  let ts ← optStrs (fld j "target_state")
  let nS := states.length
  let nP := params.length
  match stateIndexOf states obs, targetParamIndex params tp, targetStateIndex states ts with
  | .ok sIdx, .ok pIdx, .ok tIdx =>
    let cur := sensIndexFor current nS nP sIdx pIdx tIdx ts.isSome
    pure (Json.mkObj [("stateIndex", natsToJson sIdx), ("paramIndex", natsToJson pIdx),
                      ("targetStateIndex", natsToJson tIdx),
                      ("current", cur),
                      ("variant", if current == repaired then "repaired" else "asCoded"),
                      ("asCoded", sensIndexFor asCoded nS nP sIdx pIdx tIdx ts.isSome),
                      ("repaired", sensIndexFor repaired nS nP sIdx pIdx tIdx ts.isSome)])
  | .error s, _, _ => pure (Json.mkObj [("err", "InputError"), ("name", s)])
  | _, .error s, _ => pure (Json.mkObj [("err", "InputError"), ("name", s)])
  | _, _, .error s => pure (Json.mkObj [("err", "InputError"), ("name", s)])

def opSensToGrad (j : Json) : Except String Json := do
  let numS ← (fld j "numS").getNat?
  let sens ← ratMatOfJson (fld j "sens")
  let dl ← ratMatOfJson (fld j "dl")
  let w ← ratMatOfJson (fld j "w")
  match sensToGrad numS sens dl w with
  | .ok g => pure (Json.mkObj [("ok", ratsToJson g)])
  | .error e => pure (Json.mkObj [("err", e)])

def opSetParam (j : Json) : Except String Json := do
  let numParam ← (fld j "numParam").getNat?
  let tp ← optStrs (fld j "target_param")
  let theta ← listOfJson ratOfJson (fld j "theta")
  match setParam numParam tp theta with
  | .ok .none => pure (Json.mkObj [("kind", "none")])
  | .ok (.positional θ) => pure (Json.mkObj [("kind", "positional"), ("theta", ratsToJson θ)])
  | .ok (.byName pairs) =>
    pure (Json.mkObj [("kind", "byName"),
      ("pairs", Json.arr (pairs.map (fun kv => Json.arr #[(kv.1 : Json), ratToJson kv.2])).toArray)])
  | .error e => pure (Json.mkObj [("err", e)])

def handleLoss (op : String) (j : Json) : Option (Except String Json) :=
  match op with
  | "broadcast" => some (opBroadcast j)
  | "sensIndex" => some (opSensIndex j)
  | "sensToGrad" => some (opSensToGrad j)
  | "setParam" => some (opSetParam j)
  | _ => none

end Pygom
