/-
Driver ops of the stochastic area: `step_exact`, `step_tau`, `grid`, `time_arg`, `state_lims`.
Every number arrives as an exact rational (`Fraction(float)` on the Python side) and leaves as one.
-/
import Pygom.Stoch
import Pygom.Build

namespace Pygom
open Lean (Json)
open Pygom.Stoch

def ratsOfJson (j : Json) : Except String (List Rat) := listOfJson ratOfJson j
def natsOfJson (j : Json) : Except String (List Nat) := listOfJson Json.getNat? j
def intsOfJson (j : Json) : Except String (List Int) := listOfJson Json.getInt? j

def limOfJson (j : Json) : Except String Lim := do
  let a ← j.getArr?
  pure ((← intOptOfJson (a[0]?.getD Json.null)), (← intOptOfJson (a[1]?.getD Json.null)))

def limToJson (l : Lim) : Json :=
  Json.arr #[(match l.1 with | some x => (x : Json) | none => Json.null),
             (match l.2 with | some x => (x : Json) | none => Json.null)]

def optRatOfJson (j : Json) : Except String (Option Rat) :=
  if j.isNull then pure none else do pure (some (← ratOfJson j))

def stepResToJson (r : StepRes) : List (String × Json) :=
  [("t", ratToJson r.t), ("dt", ratToJson r.dt), ("x", ratsToJson r.x), ("counts", natsToJson r.counts),
   ("success", r.success)]

def outcomeToJson : Outcome → Json
  | .zeroRates => Json.mkObj [("outcome", "zero_rates")]
  | .noFiniteTime => Json.mkObj [("outcome", "no_finite_time")]
  | .notSafe => Json.mkObj [("outcome", "not_safe")]
  | .starved => Json.mkObj [("outcome", "starved")]
  | .checked r => Json.mkObj (("outcome", "checked") :: stepResToJson r)

def iterOutToJson : IterOut → List (String × Json)
  | .stop w => [("out", "stop"), ("why", w.toString)]
  | .next r => [("out", "next"), ("x", ratsToJson r.x), ("t", ratToJson r.t), ("dt", ratToJson r.dt),
                ("counts", natsToJson r.counts), ("branch", r.branch.toString)]

/-- one iteration of the `_jump` loop on observed evaluator values -/
def opStep (exact : Bool) (j : Json) : Except String Json := do
  let x ← ratsOfJson (fld j "x")
  let t ← ratOfJson (fld j "t")
  let lims ← listOfJson limOfJson (fld j "lims")
  let rates ← ratsOfJson (fld j "rates")
  let cols ← listOfJson ratsOfJson (fld j "vcols")
  let opt (k : String) : Except String (List Rat) := if (fld j k).isNull then pure [] else ratsOfJson (fld j k)
  let pure_ ← opt "pure"
  let mu ← opt "mu"
  let sigma2 ← opt "sigma2"
  let react ← if (fld j "react").isNull then pure [] else listOfJson intsOfJson (fld j "react")
  let eps ← if (fld j "epsilon").isNull then pure (3 / 100 : Rat) else ratOfJson (fld j "epsilon")
  let preTau ← optRatOfJson (fld j "pre_tau")
  let pois ← if (fld j "pois").isNull then pure [] else natsOfJson (fld j "pois")
  let expo ← if (fld j "expo").isNull then pure [] else ratsOfJson (fld j "expo")
  if cols.any (fun c => c.length != x.length) || cols.length != rates.length then
    throw "shape: vcols must have one column per rate and one entry per state"
  let s : Settings := { lims := lims, react := react, eps := eps, preTau := preTau }
  let e : Eval := { rates := rates, cols := cols, pure := pure_, mu := mu, sigma2 := sigma2 }
  let out := iter s e exact x t ⟨pois, expo⟩
  let tauPart : List (String × Json) :=
    if exact then [] else
      [("tau_attempt", outcomeToJson (tauLeap s e x t pois)),
       ("tau", match tauOf s e x with | some q => ratToJson q | none => Json.null)]
  pure (Json.mkObj (iterOutToJson out ++ tauPart ++
    [("first", outcomeToJson (firstReaction cols rates lims x t expo)),
     ("n_expo", (nPositive rates : Nat)), ("all_zero", allZero rates)]))

/-- gridded output from a raw path -/
def opGrid (j : Json) : Except String Json := do
  let times ← ratsOfJson (fld j "times")
  let states ← listOfJson ratsOfJson (fld j "states")
  let counts ← listOfJson natsOfJson (fld j "counts")
  let grid ← ratsOfJson (fld j "grid")
  let nTrans ← (fld j "n_trans").getNat?
  let legacy := (fld j "legacy").getBool?.toOption.getD false
  let rows := extractObservationAtTime states times grid
  let ic := if legacy then addJumpsBetweenTimeLegacy nTrans times grid
            else addJumpsBetweenTime nTrans counts times grid
  pure (Json.mkObj [("rows", ratMatToJson rows), ("interval_counts", Json.arr (ic.map intsToJson).toArray),
                    ("idx", natsToJson (grid.map (extractIdx times)))])

def opTimeArg (j : Json) : Except String Json := do
  let kind ← (fld j "kind").getStr?
  let vals ← if (fld j "values").isNull then pure [] else ratsOfJson (fld j "values")
  let arg : TimeArg := match kind with
    | "number" => .number (vals.headD 0)
    | "list" => .list vals
    | "tuple" => .tuple vals
    | "array" => .array vals
    | _ => .other
  match normaliseTime arg with
  | none => pure (Json.mkObj [("err", true)])
  | some (T, g) => pure (Json.mkObj [("err", false), ("final_t", ratToJson T),
                                     ("grid", match g with | some l => ratsToJson l | none => Json.null)])

/-- `_state_lims` for a state declaration (the `state` field of a model spec) -/
def opStateLims (j : Json) : Except String Json := do
  let (names, lims) ← declOfJson (fld j "state")
  let legacy := (fld j "legacy").getBool?.toOption.getD false
  let widths := declWidths names
  let out := if legacy then stateLimsLegacy (lims.map some) else stateLims widths (lims.map some)
  pure (Json.mkObj [("lims", Json.arr (out.map limToJson).toArray), ("widths", natsToJson widths),
                    ("states", strsToJson (names.flatMap expandName))])

def handleStoch (op : String) (j : Json) : Option (Except String Json) :=
  match op with
  | "step_exact" => some (opStep true j)
  | "step_tau" => some (opStep false j)
  | "grid" => some (opGrid j)
  | "time_arg" => some (opTimeArg j)
  | "state_lims" => some (opStateLims j)
  | _ => none

end Pygom
