/-
Driver ops of the seeded-simulation area (C16): `seed_stochast`, `seed_param`, `seed_setter`.

`seed_stochast` replays the recorded variates of a real `solve_stochast` call through the model of
Pygom/Seed.lean with the list-backed generator `listGen`: per `_jump` the parameter redraw (`redraw`), then per
loop iteration `stepS` started from the OBSERVED pre-state and evaluator values of that iteration (as in C04's
per-step replay: float rounding of the real code cannot accumulate against the exact arithmetic of the model),
the stream state being threaded through all iterations of all jumps.  It answers, per iteration, the requests the
model makes (kind, parameter) and the iteration's result, and how much of the stream is left at the end.

`seed_param` runs `simulateParam` itself (integrator = lookup table from parameter vectors to solutions).
-/
import Pygom.Seed
import Pygom.OpsStoch

namespace Pygom
open Lean (Json)
open Pygom.Stoch Pygom.Seed

def reqToJson : Req → Json
  | .expo s => Json.arr #[Json.str "expo", ratToJson s]
  | .pois m => Json.arr #[Json.str "pois", ratToJson m]
  | .param k => Json.arr #[Json.str "param", (k : Nat)]

def reqsToJson (l : List Req) : Json := Json.arr (l.map reqToJson).toArray

/-- `[[index, null | "p/q"], …]` in dict order: `null` = distribution-valued entry -/
def pspecOfJson (j : Json) : Except String PSpec :=
  listOfJson (fun e => do
    let a ← e.getArr?
    let i ← (a[0]?.getD Json.null).getNat?
    let v := a[1]?.getD Json.null
    if v.isNull then pure (i, PEntry.random) else do pure (i, PEntry.fixed (← ratOfJson v))) j

structure ObsStep where
  x : Vec
  t : Rat
  e : Eval

def obsStepOfJson (j : Json) : Except String ObsStep := do
  let x ← ratsOfJson (fld j "x")
  let t ← ratOfJson (fld j "t")
  let rates ← ratsOfJson (fld j "rates")
  let cols ← listOfJson ratsOfJson (fld j "vcols")
  let opt (k : String) : Except String (List Rat) := if (fld j k).isNull then pure [] else ratsOfJson (fld j k)
  let pure_ ← opt "pure"
  let mu ← opt "mu"
  let sigma2 ← opt "sigma2"
  if cols.any (fun c => c.length != x.length) || cols.length != rates.length then
    throw "shape: vcols must have one column per rate and one entry per state"
  pure ⟨x, t, { rates := rates, cols := cols, pure := pure_, mu := mu, sigma2 := sigma2 }⟩

/-- the iterations of one `_jump`, each from its observed pre-state, threading the stream -/
def replaySteps (set : Settings) (exact : Bool) : List ObsStep → List Rat → List Json × List Rat
  | [], st => ([], st)
  | o :: os, st =>
    let r := stepS listGen set o.e exact o.x o.t st
    let rest := replaySteps set exact os r.2
    (Json.mkObj (iterOutToJson r.1.out ++ [("reqs", reqsToJson r.1.reqs)]) :: rest.1, rest.2)

/-- the jumps of one `solve_stochast` call, threading the world (parameter vector, stream) -/
def replayJumps (set : Settings) (exact : Bool) (spec : Option PSpec) : List (List ObsStep) → World (List Rat) → List Json × World (List Rat)
  | [], w => ([], w)
  | steps :: js, w =>
    let p : List Rat × List Rat := match spec with
      | none => w
      | some sp => redraw listGen sp w.1 w.2
    let preqs : List Req := match spec with
      | none => []
      | some sp => paramReqs sp
    let r := replaySteps set exact steps p.2
    let rest := replayJumps set exact spec js (p.1, r.2)
    (Json.mkObj [("params", ratsToJson p.1), ("param_reqs", reqsToJson preqs), ("steps", Json.arr r.1.toArray)] :: rest.1, rest.2)

def opSeedStochast (j : Json) : Except String Json := do
  let exact ← (fld j "exact").getBool?
  let lims ← listOfJson limOfJson (fld j "lims")
  let react ← if (fld j "react").isNull then pure [] else listOfJson intsOfJson (fld j "react")
  let eps ← if (fld j "epsilon").isNull then pure (3 / 100 : Rat) else ratOfJson (fld j "epsilon")
  let preTau ← optRatOfJson (fld j "pre_tau")
  let spec ← if (fld j "spec").isNull then pure none else do pure (some (← pspecOfJson (fld j "spec")))
  let cur ← if (fld j "cur").isNull then pure [] else ratsOfJson (fld j "cur")
  let stream ← ratsOfJson (fld j "stream")
  let jumps ← listOfJson (fun jj => listOfJson obsStepOfJson (fld jj "steps")) (fld j "jumps")
  let set : Settings := { lims := lims, react := react, eps := eps, preTau := preTau }
  let r := replayJumps set exact spec jumps (cur, stream)
  pure (Json.mkObj [("jumps", Json.arr r.1.toArray), ("left", (r.2.2.length : Nat)), ("cur", ratsToJson r.2.1)])

def solToJson (s : Sol) : Json := ratMatToJson s

def opSeedParam (j : Json) : Except String Json := do
  let spec ← pspecOfJson (fld j "spec")
  let cur ← ratsOfJson (fld j "cur")
  let n ← (fld j "n").getNat?
  let stream ← ratsOfJson (fld j "stream")
  let table ← listOfJson (fun e => do
      pure ((← ratsOfJson (fld e "params")), (← listOfJson ratsOfJson (fld e "sol")))) (fld j "table")
  let solve : List Rat → Sol := fun p => ((table.find? (fun e => e.1 == p)).map (·.2)).getD []
  let r := simulateParam listGen ⟨spec, solve⟩ n (cur, stream)
  pure (Json.mkObj [("Y", solToJson r.1.Y), ("Yall", Json.arr (r.1.Yall.map solToJson).toArray), ("pre", solToJson r.1.pre),
                    ("reqs", reqsToJson r.1.reqs), ("params", Json.arr (r.1.runs.map (fun o => ratsToJson o.params)).toArray),
                    ("missing", (r.1.runs.filter (fun o => !(table.any (fun e => e.1 == o.params)))).length),
                    ("cur", ratsToJson r.2.1), ("left", (r.2.2.length : Nat))])

def pspecToJson (d : PSpec) : Json :=
  Json.arr (d.map (fun e => Json.arr #[(e.1 : Nat), match e.2 with | .fixed v => ratToJson v | .random => Json.null])).toArray

def optSpecToJson : Option PSpec → Json
  | none => Json.null
  | some d => pspecToJson d

def assignOfJson (j : Json) : Except String (Assign × List Rat × Option (List Rat)) := do
  let cur ← if (fld j "cur").isNull then pure none else do pure (some (← ratsOfJson (fld j "cur")))
  if !(fld j "all").isNull then
    pure (Assign.all (← ratsOfJson (fld j "all")), [], cur)
  else
    let d ← pspecOfJson (fld j "dict")
    let vals ← if (fld j "vals").isNull then pure [] else ratsOfJson (fld j "vals")
    pure (Assign.dict d, vals, cur)

/-- the assignments of a history, one after the other: the RECORD is threaded by the model; the parameter values in force
before an assignment are the observed ones when given (runs in between redraw them), the variates a dict with
distributions consumes are the observed ones -/
def replaySetter : List (Assign × List Rat × Option (List Rat)) → Obj → List Json
  | [], _ => []
  | (a, vals, cur) :: rest, o =>
    let r := setParams listGen a ⟨cur.getD o.cur, o.record⟩ vals
    Json.mkObj [("rec", optSpecToJson r.1.record), ("cur", ratsToJson r.1.cur), ("left", (r.2.length : Nat))] :: replaySetter rest r.1

/-- `{"op":"seed_setter","rec":null|spec,"cur":[…],"ops":[{"dict":spec,"vals":[…]} | {"all":[…]}]}`: `Seed.setParams` along a history -/
def opSeedSetter (j : Json) : Except String Json := do
  let rec_ ← if (fld j "rec").isNull then pure none else do pure (some (← pspecOfJson (fld j "rec")))
  let cur ← ratsOfJson (fld j "cur")
  let ops ← listOfJson assignOfJson (fld j "ops")
  pure (Json.mkObj [("steps", Json.arr (replaySetter ops ⟨cur, rec_⟩).toArray)])

def handleSeed (op : String) (j : Json) : Option (Except String Json) :=
  match op with
  | "seed_setter" => some (opSeedSetter j)
  | "seed_stochast" => some (opSeedStochast j)
  | "seed_param" => some (opSeedParam j)
  | _ => none

end Pygom
