/-
Driver op `params`: a history of `model.parameters = ...` assignments run through the setter model.

request   {"op":"params","names":[..declared names..],"atomic":bool,"history":[op,...]}
  op      {"k":"none"} | {"k":"nums","vals":[q..]} | {"k":"arr","len":n,"flat":[q..]}
        | {"k":"pairs","ps":[[["str"|"sym"|"odevar",name],q],..]} | {"k":"seq_other","len":n}
        | {"k":"dict","es":[[[kind,name],q|null],..]} | {"k":"scalar","v":q} | {"k":"other"}
response  {"steps":[{"err":null|enum,"set":bool,"abs":[q.. in declared order],"pv":[q..],
                     "dict":null|[[ "str"|"sym", name, q ],..]},..]}
Several live instances: an op may carry "inst": i (default 0, the instance built first) and {"k":"clone","src":i}
appends `copy.deepcopy(instance_i)`; the step then reports the state of the instance touched (for clone: the new one).
"rebuild": true selects the `__setstate__` variant of `Params.restore true` (default false = the code as written).
-/
import Pygom.Params
import Pygom.Codec

namespace Pygom
open Lean (Json)
open Pygom.Params

def nameRefOfJson (j : Json) : Except String NameRef := do
  let arr ← j.getArr?
  let kind ← (arr[0]?.getD Json.null).getStr?
  let name ← (arr[1]?.getD Json.null).getStr?
  match kind with
  | "str" => pure (.str name)
  | "sym" => pure (.sym name)
  | "odevar" => pure (.odevar name)
  | k => .error s!"bad name kind {k}"

def paramsOpOfJson (j : Json) : Except String (Op Rat) := do
  let k ← (fld j "k").getStr?
  match k with
  | "none" => pure .none
  | "nums" => do pure (.nums (← listOfJson ratOfJson (fld j "vals")))
  | "arr" => do
    let len ← (fld j "len").getNat?
    pure (.arr len (← listOfJson ratOfJson (fld j "flat")))
  | "pairs" => do
    let ps ← listOfJson (fun p => do
      let a ← p.getArr?
      let r ← nameRefOfJson (a[0]?.getD Json.null)
      let v ← ratOfJson (a[1]?.getD Json.null)
      pure (r, v)) (fld j "ps")
    pure (.pairs ps)
  | "seq_other" => do pure (.seqOther (← (fld j "len").getNat?))
  | "dict" => do
    let es ← listOfJson (fun p => do
      let a ← p.getArr?
      let r ← nameRefOfJson (a[0]?.getD Json.null)
      let vj := a[1]?.getD Json.null
      if vj.isNull then pure (r, (Option.none : Option Rat))
      else do pure (r, some (← ratOfJson vj))) (fld j "es")
    pure (.dict es)
  | "scalar" => do pure (.scalar (← ratOfJson (fld j "v")))
  | "other" => pure .other
  | k => .error s!"unknown params op {k}"

def keyToJson (kv : Key × Rat) : Json :=
  match kv.1 with
  | .str n => Json.arr #["str", n, ratToJson kv.2]
  | .sym n => Json.arr #["sym", n, ratToJson kv.2]

def paramsStateToJson (r : Params.State Rat × Option Params.Err) : Json :=
  let s := r.1
  Json.mkObj
    [ ("err", match r.2 with | some e => Json.str e.toString | Option.none => Json.null),
      ("set", Json.bool s.dict.isSome),
      ("abs", ratsToJson (s.params.map (Params.abs s))),
      ("pv", ratsToJson s.pv),
      ("dict", match s.dict with
               | Option.none => Json.null
               | some d => Json.arr (d.map keyToJson).toArray) ]

def paramsMOpOfJson (j : Json) : Except String (MOp Rat) := do
  let k ← (fld j "k").getStr?
  if k == "clone" then
    pure (.clone ((fld j "src").getNat?.toOption.getD 0))
  else
    pure (.assign ((fld j "inst").getNat?.toOption.getD 0) (← paramsOpOfJson j))

def opParams (j : Json) : Except String Json := do
  let names ← listOfJson (fun x => x.getStr?) (fld j "names")
  let atomic := (fld j "atomic").getBool?.toOption.getD false
  let rebuild := (fld j "rebuild").getBool?.toOption.getD false
  let hist ← listOfJson paramsMOpOfJson (fld j "history")
  let tr := Params.mtrace atomic rebuild [Params.init names] hist
  let steps ← tr.mapM (fun r => match r.1 with
    | some s => pure (paramsStateToJson (s, r.2))
    | Option.none => Except.error "params: operation addressed to an instance that does not exist")
  pure (Json.mkObj [("steps", Json.arr steps.toArray)])

def handleParams (op : String) (j : Json) : Option (Except String Json) :=
  match op with
  | "params" => some (opParams j)
  | _ => Option.none

end Pygom
