/-
Helper lemmas for property C05 about independent exponential clocks (Mathlib probability):
survival function of `expMeasure`, the integral `∫ 1_B(x)·exp(−R x) dExp(r)`, disintegration of an
independent pair, "clock `i` is strictly first and lies in `B`", and a sandwich lemma for finite sums.
Ported from the design spikes `spikes/C05_first_clock.lean`, `spikes/C05_min_of_indep_exp.lean`.
-/
import Mathlib.Probability.Distributions.Exponential
import Mathlib.Probability.Independence.Basic
import Mathlib.Probability.CDF
import Mathlib.MeasureTheory.Measure.Prod
import Mathlib.Tactic

set_option linter.unusedSimpArgs false
set_option linter.unusedVariables false

namespace Pygom.Clocks
open MeasureTheory ProbabilityTheory Set ENNReal

/-- survival function of the exponential measure -/
theorem expMeasure_Ioi {r : ℝ} (hr : 0 < r) {s : ℝ} (hs : 0 ≤ s) :
    expMeasure r (Ioi s) = ENNReal.ofReal (Real.exp (-(r * s))) := by
  have := isProbabilityMeasure_expMeasure hr
  have h1 : expMeasure r (Iic s) = ENNReal.ofReal (1 - Real.exp (-(r * s))) := by
    rw [← ofReal_cdf, cdf_expMeasure_eq hr, if_pos hs]
  have hc : (Ioi s) = (Iic s)ᶜ := by ext x; simp
  rw [hc, prob_compl_eq_one_sub measurableSet_Iic, h1]
  have hle : Real.exp (-(r * s)) ≤ 1 := by
    apply Real.exp_le_one_iff.mpr; have := mul_nonneg hr.le hs; linarith
  rw [← ENNReal.ofReal_one, ← ENNReal.ofReal_sub _ (by linarith)]
  congr 1; ring

theorem measurable_exponentialPDF (r : ℝ) : Measurable (exponentialPDF r) := by
  unfold exponentialPDF; exact (measurable_exponentialPDFReal r).ennreal_ofReal

/-- `∫ 1_B(x) · exp(−R x) dExp(r)(x) = r/(r+R) · Exp(r+R)(B)`: the density of `Exp(r)` times the survival
function of `Exp(R)` is `r/(r+R)` times the density of `Exp(r+R)` -/
theorem lintegral_surv_expMeasure_on {r R : ℝ} (hr : 0 < r) (hR : 0 ≤ R) (B : Set ℝ) (hB : MeasurableSet B)
    (g : ℝ → ℝ≥0∞) (hgm : Measurable g)
    (hg : ∀ x, 0 ≤ x → g x = B.indicator (fun x => ENNReal.ofReal (Real.exp (-(R * x)))) x) :
    ∫⁻ x, g x ∂(expMeasure r) = ENNReal.ofReal (r / (r + R)) * expMeasure (r + R) B := by
  have hrR : 0 < r + R := by linarith
  have hB' : expMeasure (r + R) B = ∫⁻ x, B.indicator (exponentialPDF (r + R)) x := by
    unfold expMeasure gammaMeasure
    change (volume.withDensity (exponentialPDF (r + R))) B = _
    rw [withDensity_apply _ hB, lintegral_indicator hB]
  unfold expMeasure gammaMeasure
  change ∫⁻ x, g x ∂(volume.withDensity (exponentialPDF r)) = _
  rw [lintegral_withDensity_eq_lintegral_mul _ (measurable_exponentialPDF r) hgm]
  have hpt : ∀ x, (exponentialPDF r * g) x
      = ENNReal.ofReal (r / (r + R)) * B.indicator (exponentialPDF (r + R)) x := by
    intro x
    rcases lt_or_ge x 0 with hx | hx
    · by_cases hxB : x ∈ B <;> simp [Pi.mul_apply, exponentialPDF_of_neg hx, hxB]
    · by_cases hxB : x ∈ B
      · simp only [Pi.mul_apply, exponentialPDF_of_nonneg hx, hg x hx, indicator_of_mem hxB]
        rw [← ENNReal.ofReal_mul (by positivity), ← ENNReal.ofReal_mul (by positivity)]
        congr 1
        have : Real.exp (-((r + R) * x)) = Real.exp (-(r * x)) * Real.exp (-(R * x)) := by
          rw [← Real.exp_add]; congr 1; ring
        rw [this]; field_simp
      · simp [Pi.mul_apply, hg x hx, hxB]
  simp_rw [hpt]
  rw [lintegral_const_mul _ ((measurable_exponentialPDF _).indicator hB)]
  change _ = _ * (volume.withDensity (exponentialPDF (r + R))) B
  rw [withDensity_apply _ hB, lintegral_indicator hB]

/-- disintegration for an independent pair: `P((X,Y) ∈ A) = ∫ P(Y ∈ A_x) dP_X(x)` -/
theorem indep_prob_eq_lintegral {Ω β : Type*} [MeasurableSpace Ω] [MeasurableSpace β]
    (μ : Measure Ω) [IsProbabilityMeasure μ] (X : Ω → ℝ) (Y : Ω → β)
    (hX : Measurable X) (hY : Measurable Y) (hind : IndepFun X Y μ)
    (A : Set (ℝ × β)) (hA : MeasurableSet A) :
    μ {ω | (X ω, Y ω) ∈ A} = ∫⁻ x, (μ.map Y) (Prod.mk x ⁻¹' A) ∂(μ.map X) := by
  have h1 : μ {ω | (X ω, Y ω) ∈ A} = (μ.map (fun ω => (X ω, Y ω))) A := by
    rw [Measure.map_apply (hX.prodMk hY) hA]; rfl
  rw [h1, hind.map_prod_eq_prod_map_map hX.aemeasurable hY.aemeasurable]
  have : IsProbabilityMeasure (μ.map Y) := Measure.isProbabilityMeasure_map hY.aemeasurable
  rw [Measure.prod_apply hA]

/-- survival of one clock with law `Exp(r)` -/
theorem clock_surv {Ω : Type*} [MeasurableSpace Ω] (μ : Measure Ω) (τ : Ω → ℝ) {r : ℝ} (hr : 0 < r)
    (hm : Measurable τ) (hlaw : μ.map τ = expMeasure r) {x : ℝ} (hx : 0 ≤ x) :
    μ (τ ⁻¹' (Ioi x)) = ENNReal.ofReal (Real.exp (-(r * x))) := by
  rw [← Measure.map_apply hm measurableSet_Ioi, hlaw, expMeasure_Ioi hr hx]

/-- **Clock `i` lies in `B` and fires strictly before every other clock.**  For independent clocks
`τ j ~ Exp(r j)`:  `P(τ i ∈ B ∧ ∀ j ≠ i, τ i < τ j) = r i/Σr · Exp(Σr)(B)`. -/
theorem first_clock_in {Ω : Type*} [MeasurableSpace Ω] (μ : Measure Ω) [IsProbabilityMeasure μ]
    {ι : Type*} [Fintype ι] [DecidableEq ι] (τ : ι → Ω → ℝ) (r : ι → ℝ) (hr : ∀ i, 0 < r i)
    (hm : ∀ i, Measurable (τ i)) (hind : iIndepFun τ μ)
    (hlaw : ∀ i, μ.map (τ i) = expMeasure (r i)) (i : ι) (B : Set ℝ) (hB : MeasurableSet B) :
    μ {ω | τ i ω ∈ B ∧ ∀ j, j ≠ i → τ i ω < τ j ω}
      = ENNReal.ofReal (r i / ∑ j, r j) * expMeasure (∑ j, r j) B := by
  classical
  -- the tuple of the other clocks
  let T : Finset ι := Finset.univ.erase i
  let Y : Ω → (T → ℝ) := fun ω j => τ j ω
  have hYm : Measurable Y := measurable_pi_lambda _ (fun j => hm j)
  have hXY : IndepFun (τ i) Y μ := by
    have h := hind.indepFun_finset {i} T (by simp [T]) hm
    have hi : i ∈ ({i} : Finset ι) := by simp
    have hφ : Measurable (fun f : (({i} : Finset ι) → ℝ) => f ⟨i, hi⟩) := measurable_pi_apply _
    have hcomp := h.comp (φ := fun f : (({i} : Finset ι) → ℝ) => f ⟨i, hi⟩) (ψ := id) hφ measurable_id
    exact hcomp
  let A : Set (ℝ × (T → ℝ)) := {p | p.1 ∈ B ∧ ∀ j : T, p.1 < p.2 j}
  have hA : MeasurableSet A := by
    have : A = (Prod.fst ⁻¹' B) ∩ ⋂ j : T, {p : ℝ × (T → ℝ) | p.1 < p.2 j} := by
      ext p; simp [A]
    rw [this]
    refine (measurable_fst hB).inter (MeasurableSet.iInter (fun j => ?_))
    exact measurableSet_lt measurable_fst ((measurable_pi_apply j).comp measurable_snd)
  have hset : {ω | τ i ω ∈ B ∧ ∀ j, j ≠ i → τ i ω < τ j ω} = {ω | (τ i ω, Y ω) ∈ A} := by
    ext ω; simp only [Set.mem_ofPred_eq, A, Y]
    constructor
    · rintro ⟨hb, h⟩; exact ⟨hb, fun j => h j (Finset.ne_of_mem_erase j.2)⟩
    · rintro ⟨hb, h⟩; exact ⟨hb, fun j hj => h ⟨j, by simp [T, hj]⟩⟩
  rw [hset, indep_prob_eq_lintegral μ (τ i) Y (hm i) hYm hXY A hA, hlaw i]
  set R : ℝ := ∑ j ∈ T, r j with hRdef
  have hR : 0 ≤ R := Finset.sum_nonneg (fun j _ => (hr j).le)
  have hsum : r i + R = ∑ j, r j := by
    rw [hRdef]; simp only [T]; rw [Finset.add_sum_erase _ _ (Finset.mem_univ i)]
  rw [← hsum]
  refine lintegral_surv_expMeasure_on (hr i) hR B hB _ ?_ ?_
  · exact measurable_measure_prodMk_left hA
  · intro x hx
    by_cases hxB : x ∈ B
    · have hpre : (μ.map Y) (Prod.mk x ⁻¹' A) = μ (⋂ j ∈ T, (τ j) ⁻¹' (Ioi x)) := by
        rw [Measure.map_apply hYm (measurable_prodMk_left hA)]
        congr 1; ext ω; simp [A, Y, hxB]
      rw [indicator_of_mem hxB, hpre, hind.meas_biInter (fun j _ => ⟨Ioi x, measurableSet_Ioi, rfl⟩)]
      simp_rw [fun j => clock_surv μ (τ j) (hr j) (hm j) (hlaw j) hx]
      rw [← ENNReal.ofReal_prod_of_nonneg (fun j _ => (Real.exp_pos _).le), ← Real.exp_sum]
      congr 2
      rw [hRdef, Finset.sum_mul, Finset.sum_neg_distrib]
    · have hpre : Prod.mk x ⁻¹' A = ∅ := by ext y; simp [A, hxB]
      rw [indicator_of_notMem hxB, hpre, measure_empty]

/-- sandwich for finite sums in `[0,∞]`: `a ≤ b` termwise, `Σ b ≤ Σ a < ∞` ⇒ `b = a` termwise -/
theorem eq_of_le_of_sum_le {ι : Type*} [Fintype ι] (a b : ι → ℝ≥0∞) (hab : ∀ i, a i ≤ b i)
    (hsum : ∑ i, b i ≤ ∑ i, a i) (hfin : ∑ i, a i ≠ ⊤) (i : ι) : b i = a i := by
  have hbfin : ∑ i, b i ≠ ⊤ := ne_top_of_le_ne_top hfin hsum
  have ha : ∀ j, a j ≠ ⊤ := fun j => ne_top_of_le_ne_top hfin (Finset.single_le_sum (fun _ _ => zero_le) (Finset.mem_univ j))
  have hb : ∀ j, b j ≠ ⊤ := fun j => ne_top_of_le_ne_top hbfin (Finset.single_le_sum (fun _ _ => zero_le) (Finset.mem_univ j))
  have hle : ∀ j, (a j).toReal ≤ (b j).toReal := fun j => (ENNReal.toReal_le_toReal (ha j) (hb j)).mpr (hab j)
  have hs : ∑ j, (b j).toReal ≤ ∑ j, (a j).toReal := by
    rw [← ENNReal.toReal_sum (fun j _ => hb j), ← ENNReal.toReal_sum (fun j _ => ha j)]
    exact (ENNReal.toReal_le_toReal hbfin hfin).mpr hsum
  have hz : ∑ j, ((b j).toReal - (a j).toReal) = 0 := by
    apply le_antisymm
    · rw [Finset.sum_sub_distrib]; linarith
    · exact Finset.sum_nonneg (fun j _ => sub_nonneg.mpr (hle j))
  have := (Finset.sum_eq_zero_iff_of_nonneg (fun j _ => sub_nonneg.mpr (hle j))).mp hz i (Finset.mem_univ i)
  have heq : (b i).toReal = (a i).toReal := by linarith
  exact (ENNReal.toReal_eq_toReal_iff' (hb i) (ha i)).mp heq

end Pygom.Clocks
