/-
Reference side of C14 / C19 over the reals: canonical closed forms of the negative log-likelihoods, proved equal to
minus the log of Mathlib's densities (Gaussian, Poisson, Gamma) and of the negative-binomial mass function, with their
first and second derivatives in the mean.  Nothing here mentions the generated code; `Props/C14.lean` only has to show
that each generated kernel is *algebraically* one of these forms.
-/
import Mathlib.Probability.Distributions.Gaussian.Real
import Mathlib.Probability.Distributions.Gamma
import Mathlib.Probability.Distributions.Exponential
import Mathlib.Probability.Distributions.Poisson.Basic
import Mathlib.Analysis.SpecialFunctions.Log.Deriv
import Mathlib.Analysis.SpecialFunctions.Gamma.Basic
import Mathlib.Tactic

set_option linter.unusedSimpArgs false
set_option linter.unusedVariables false

open Real ProbabilityTheory

namespace Pygom
namespace Spec

/-- negative-binomial mass function, mean `μ` / size `k` ("NB2", ecological) form:
`Γ(k+n)/(Γ(k) n!) · (k/(k+μ))^k · (μ/(k+μ))^n` -/
noncomputable def nbPMF (k μ : ℝ) (n : ℕ) : ℝ :=
  Real.Gamma (k + n) / (Real.Gamma k * (n.factorial : ℝ)) * (k / (k + μ)) ^ k * (μ / (k + μ)) ^ n

/-- negative-binomial mass function, standard `(n = r, p)` form (scipy.stats.nbinom, R's `size, prob`):
`Γ(r+n)/(n! Γ(r)) · p^r · (1-p)^n` -/
noncomputable def nbPMFnp (r p : ℝ) (n : ℕ) : ℝ :=
  Real.Gamma (r + n) / ((n.factorial : ℝ) * Real.Gamma r) * p ^ r * (1 - p) ^ n

/-- the mean/size form is the `(n, p)` form at `p = size/(size+μ)` -/
theorem nbPMF_eq_np (k μ : ℝ) (n : ℕ) (hk : 0 < k) (hμ : 0 < μ) :
    nbPMF k μ n = nbPMFnp k (k / (k + μ)) n := by
  unfold nbPMF nbPMFnp
  have h : (1 : ℝ) - k / (k + μ) = μ / (k + μ) := by
    have : k + μ ≠ 0 := by positivity
    field_simp; ring
  rw [h, mul_comm (Real.Gamma k)]

theorem nbPMF_pos (k μ : ℝ) (n : ℕ) (hk : 0 < k) (hμ : 0 < μ) : 0 < nbPMF k μ n := by
  unfold nbPMF
  have h1 : 0 < Real.Gamma (k + n) := Real.Gamma_pos_of_pos (by positivity)
  have h2 : 0 < Real.Gamma k := Real.Gamma_pos_of_pos hk
  have h3 : (0 : ℝ) < (n.factorial : ℝ) := by exact_mod_cast Nat.factorial_pos n
  positivity

/-! ### canonical negative log-likelihoods -/

noncomputable def normalNLL (y m σ : ℝ) : ℝ := Real.log σ + Real.log (2 * Real.pi) / 2 + (y - m) ^ 2 / (2 * σ ^ 2)
noncomputable def poissonNLL (y m : ℝ) : ℝ := m - y * Real.log m + Real.log (Real.Gamma (y + 1))
noncomputable def gammaNLL (y m a : ℝ) : ℝ :=
  Real.log (Real.Gamma a) - (a - 1) * Real.log y + a * (Real.log m - Real.log a) + a * y / m
noncomputable def nbNLL (y m k : ℝ) : ℝ :=
  Real.log (Real.Gamma (y + 1)) + Real.log (Real.Gamma k) - Real.log (Real.Gamma (k + y))
    - k * (Real.log k - Real.log (k + m)) - y * (Real.log m - Real.log (k + m))

theorem normalNLL_eq (y m σ : ℝ) (hs : 0 < σ) (v : NNReal) (hv : (v : ℝ) = σ ^ 2) :
    normalNLL y m σ = -Real.log (gaussianPDFReal m v y) := by
  unfold normalNLL gaussianPDFReal
  rw [hv]
  have h1 : Real.log (√(2 * Real.pi * σ ^ 2)) = (Real.log 2 + Real.log Real.pi + 2 * Real.log σ) / 2 := by
    rw [Real.log_sqrt (by positivity), Real.log_mul (by positivity) (by positivity),
        Real.log_mul (by norm_num) (by positivity), Real.log_pow]; push_cast; ring
  have h2 : Real.log (2 * Real.pi) = Real.log 2 + Real.log Real.pi := Real.log_mul (by norm_num) (by positivity)
  have h3 : Real.log ((√(2 * Real.pi * σ ^ 2))⁻¹ * Real.exp (-(y - m) ^ 2 / (2 * σ ^ 2)))
      = -Real.log (√(2 * Real.pi * σ ^ 2)) + -(y - m) ^ 2 / (2 * σ ^ 2) := by
    rw [Real.log_mul (by positivity) (by positivity), Real.log_inv, Real.log_exp]
  rw [h3, h1, h2]
  ring

theorem poissonNLL_eq (n : ℕ) (m : ℝ) (hm : 0 < m) (r : NNReal) (hr : (r : ℝ) = m) :
    poissonNLL n m = -Real.log ((poissonMeasure r).real {n}) := by
  unfold poissonNLL
  rw [poissonMeasure_real_singleton, hr]
  have hf : (0:ℝ) < (n.factorial : ℝ) := by exact_mod_cast Nat.factorial_pos n
  rw [Real.log_div (by positivity) (by positivity), Real.log_mul (by positivity) (by positivity),
      Real.log_exp, Real.log_pow, Real.Gamma_nat_eq_factorial]
  ring

theorem gammaNLL_eq (y m a : ℝ) (hy : 0 < y) (hm : 0 < m) (ha : 0 < a) :
    gammaNLL y m a = -Real.log (gammaPDFReal a (a / m) y) := by
  unfold gammaNLL gammaPDFReal
  rw [if_pos hy.le]
  have hG : 0 < Real.Gamma a := Real.Gamma_pos_of_pos ha
  have hr : 0 < a / m := by positivity
  have e1 : Real.log ((a / m) ^ a / Real.Gamma a * y ^ (a - 1) * Real.exp (-(a / m * y)))
      = a * (Real.log a - Real.log m) - Real.log (Real.Gamma a) + (a - 1) * Real.log y - a / m * y := by
    rw [Real.log_mul (by positivity) (by positivity), Real.log_mul (by positivity) (by positivity),
        Real.log_div (by positivity) (by positivity), Real.log_rpow hr, Real.log_rpow hy, Real.log_exp,
        Real.log_div (by positivity) (by positivity)]
    ring
  rw [e1]
  field_simp
  ring

theorem nbNLL_eq (n : ℕ) (m k : ℝ) (hm : 0 < m) (hk : 0 < k) :
    nbNLL n m k = -Real.log (nbPMF k m n) := by
  unfold nbNLL nbPMF
  have h1 : 0 < Real.Gamma (k + n) := Real.Gamma_pos_of_pos (by positivity)
  have h2 : 0 < Real.Gamma k := Real.Gamma_pos_of_pos hk
  have h3 : (0 : ℝ) < (n.factorial : ℝ) := by exact_mod_cast Nat.factorial_pos n
  have hkm : 0 < k + m := by positivity
  have hq : 0 < k / (k + m) := by positivity
  rw [Real.log_mul (by positivity) (by positivity), Real.log_mul (by positivity) (by positivity),
      Real.log_div (by positivity) (by positivity), Real.log_mul (by positivity) (by positivity),
      Real.log_rpow hq, Real.log_pow, Real.log_div (by positivity) (by positivity),
      Real.log_div (by positivity) (by positivity), Real.Gamma_nat_eq_factorial]
  ring

/-! ### derivatives in the mean -/

theorem normalNLL_deriv (y m σ : ℝ) (hs : σ ≠ 0) :
    HasDerivAt (fun t => normalNLL y t σ) (-(y - m) / σ ^ 2) m := by
  unfold normalNLL
  have h : HasDerivAt (fun t : ℝ => Real.log σ + Real.log (2 * Real.pi) / 2 + (y - t) ^ 2 / (2 * σ ^ 2))
      (0 + (2 * (y - m) ^ (2 - 1) * (0 - 1)) / (2 * σ ^ 2)) m :=
    (hasDerivAt_const m _).add ((((hasDerivAt_const m y).sub (hasDerivAt_id' m)).pow 2).div_const _)
  exact h.congr_deriv (by field_simp; ring)

theorem normalNLL_deriv2 (y m σ : ℝ) (hs : σ ≠ 0) :
    HasDerivAt (fun t => -(y - t) / σ ^ 2) (1 / σ ^ 2) m := by
  have h : HasDerivAt (fun t : ℝ => -(y - t) / σ ^ 2) (-(0 - 1) / σ ^ 2) m :=
    (((hasDerivAt_const m y).sub (hasDerivAt_id' m)).neg).div_const _
  exact h.congr_deriv (by ring)

theorem poissonNLL_deriv (y m : ℝ) (hm : 0 < m) :
    HasDerivAt (fun t => poissonNLL y t) (-(y - m) / m) m := by
  unfold poissonNLL
  have h : HasDerivAt (fun t : ℝ => t - y * Real.log t + Real.log (Real.Gamma (y + 1)))
      (1 - y * m⁻¹ + 0) m :=
    ((hasDerivAt_id' m).sub ((Real.hasDerivAt_log hm.ne').const_mul y)).add (hasDerivAt_const _ _)
  have := hm.ne'
  exact h.congr_deriv (by field_simp; ring)

theorem poissonNLL_deriv2 (y m : ℝ) (hm : 0 < m) :
    HasDerivAt (fun t => -(y - t) / t) (y / m ^ 2) m := by
  have h : HasDerivAt (fun t : ℝ => -(y - t) / t) ((-(0 - 1) * m - (-(y - m)) * 1) / m ^ 2) m :=
    ((((hasDerivAt_const m y).sub (hasDerivAt_id' m)).neg).div (hasDerivAt_id' m) hm.ne')
  have := hm.ne'
  exact h.congr_deriv (by field_simp; ring)

theorem gammaNLL_deriv (y m a : ℝ) (hm : 0 < m) :
    HasDerivAt (fun t => gammaNLL y t a) (a * (m - y) / m ^ 2) m := by
  unfold gammaNLL
  have hi : HasDerivAt (fun t : ℝ => a * y / t) ((0 * m - (a * y) * 1) / m ^ 2) m :=
    (hasDerivAt_const m (a * y)).div (hasDerivAt_id' m) hm.ne'
  have h : HasDerivAt
      (fun t : ℝ => Real.log (Real.Gamma a) - (a - 1) * Real.log y + a * (Real.log t - Real.log a) + a * y / t)
      (0 + a * (m⁻¹ - 0) + (0 * m - (a * y) * 1) / m ^ 2) m :=
    ((hasDerivAt_const m _).add (((Real.hasDerivAt_log hm.ne').sub (hasDerivAt_const m _)).const_mul a)).add hi
  have := hm.ne'
  exact h.congr_deriv (by field_simp; ring)

theorem gammaNLL_deriv2 (y m a : ℝ) (hm : 0 < m) :
    HasDerivAt (fun t => a * (t - y) / t ^ 2) (a * (2 * y - m) / m ^ 3) m := by
  have hp : HasDerivAt (fun t : ℝ => t ^ 2) (2 * m ^ (2 - 1) * 1) m := (hasDerivAt_id' m).pow 2
  have h : HasDerivAt (fun t : ℝ => a * (t - y) / t ^ 2)
      ((a * (1 - 0) * m ^ 2 - a * (m - y) * (2 * m ^ (2 - 1) * 1)) / (m ^ 2) ^ 2) m :=
    ((((hasDerivAt_id' m).sub (hasDerivAt_const m y)).const_mul a).div hp (by positivity))
  have := hm.ne'
  exact h.congr_deriv (by field_simp; ring)

theorem nbNLL_deriv (y m k : ℝ) (hm : 0 < m) (hk : 0 < k) :
    HasDerivAt (fun t => nbNLL y t k) (k * (m - y) / (m * (k + m))) m := by
  unfold nbNLL
  have hkm : k + m ≠ 0 := by positivity
  have h2 : HasDerivAt (fun t : ℝ => Real.log t) (m⁻¹) m := Real.hasDerivAt_log hm.ne'
  have h3 : HasDerivAt (fun t : ℝ => Real.log (k + t)) ((k + m)⁻¹) m := by
    have := ((hasDerivAt_id m).const_add k).log hkm
    simpa using this
  have h : HasDerivAt (fun t : ℝ => Real.log (Real.Gamma (y + 1)) + Real.log (Real.Gamma k) - Real.log (Real.Gamma (k + y))
        - k * (Real.log k - Real.log (k + t)) - y * (Real.log t - Real.log (k + t)))
      (0 - k * (0 - (k + m)⁻¹) - y * (m⁻¹ - (k + m)⁻¹)) m :=
    (((hasDerivAt_const m _).sub (((hasDerivAt_const m (Real.log k)).sub h3).const_mul k))).sub ((h2.sub h3).const_mul y)
  have := hm.ne'
  exact h.congr_deriv (by field_simp; ring)

theorem nbNLL_deriv2 (y m k : ℝ) (hm : 0 < m) (hk : 0 < k) :
    HasDerivAt (fun t => k * (t - y) / (t * (k + t)))
      (k * ((y - m) * m + (y - m) * (k + m) + m * (k + m)) / (m ^ 2 * (k + m) ^ 2)) m := by
  have hkm : k + m ≠ 0 := by positivity
  have hd : HasDerivAt (fun t : ℝ => t * (k + t)) (1 * (k + m) + m * (0 + 1)) m :=
    (hasDerivAt_id' m).mul ((hasDerivAt_const m k).add (hasDerivAt_id' m))
  have h : HasDerivAt (fun t : ℝ => k * (t - y) / (t * (k + t)))
      ((k * (1 - 0) * (m * (k + m)) - k * (m - y) * (1 * (k + m) + m * (0 + 1))) / (m * (k + m)) ^ 2) m :=
    ((((hasDerivAt_id' m).sub (hasDerivAt_const m y)).const_mul k).div hd (by positivity))
  have := hm.ne'
  exact h.congr_deriv (by field_simp; ring)

/-! ### scipy's scale parameterisation versus Mathlib's rate parameterisation (used by C19) -/

/-- `scipy.stats.expon.pdf(x, scale=s)` as documented: `exp(-x/s)/s` on `x ≥ 0` -/
noncomputable def scipyExponPdf (s x : ℝ) : ℝ := if 0 ≤ x then Real.exp (-(x / s)) / s else 0
/-- `scipy.stats.gamma.pdf(x, a, scale=s)` as documented: `(x/s)^(a-1) exp(-x/s) / (s Γ(a))` on `x ≥ 0` -/
noncomputable def scipyGammaPdf (a s x : ℝ) : ℝ :=
  if 0 ≤ x then (x / s) ^ (a - 1) * Real.exp (-(x / s)) / (s * Real.Gamma a) else 0
/-- `scipy.stats.norm.pdf(x, loc, scale)` as documented: `exp(-((x-loc)/scale)²/2)/(scale √(2π))` -/
noncomputable def scipyNormPdf (loc s x : ℝ) : ℝ := Real.exp (-(((x - loc) / s) ^ 2) / 2) / (s * √(2 * Real.pi))

theorem expon_scale_is_rate (r x : ℝ) (hr : 0 < r) : scipyExponPdf (1 / r) x = exponentialPDFReal r x := by
  unfold scipyExponPdf exponentialPDFReal gammaPDFReal
  by_cases hx : 0 ≤ x
  · simp only [if_pos hx]
    rw [Real.Gamma_one]
    simp
    ring_nf
  · simp only [if_neg hx]

theorem gamma_scale_is_rate (a r x : ℝ) (ha : 0 < a) (hr : 0 < r) :
    scipyGammaPdf a (1 / r) x = gammaPDFReal a r x := by
  unfold scipyGammaPdf gammaPDFReal
  by_cases hx : 0 ≤ x
  · simp only [if_pos hx]
    have hG : 0 < Real.Gamma a := Real.Gamma_pos_of_pos ha
    have e : x / (1 / r) = r * x := by field_simp
    rw [e, Real.mul_rpow hr.le hx]
    have hra : r ^ a = r ^ (a - 1) * r := by
      conv_lhs => rw [show a = (a - 1) + 1 by ring]
      rw [Real.rpow_add hr, Real.rpow_one]
    rw [hra]
    field_simp
  · simp only [if_neg hx]

theorem norm_scale_is_sd (μ σ x : ℝ) (hs : 0 < σ) (v : NNReal) (hv : (v : ℝ) = σ ^ 2) :
    scipyNormPdf μ σ x = gaussianPDFReal μ v x := by
  unfold scipyNormPdf gaussianPDFReal
  rw [hv]
  have h1 : √(2 * Real.pi * σ ^ 2) = σ * √(2 * Real.pi) := by
    rw [Real.sqrt_mul (by positivity), Real.sqrt_sq hs.le]; ring
  rw [h1]
  have e : -((x - μ) / σ) ^ 2 / 2 = -(x - μ) ^ 2 / (2 * σ ^ 2) := by field_simp
  rw [e]
  field_simp

end Spec
end Pygom
