/-
The symbolic differentiator `Expr.diff` is the true derivative (Mathlib `HasDerivAt`), by induction
on the expression, away from singularities (`defined`: denominators ≠ 0, `log` arguments > 0).
-/
import Pygom.Lemmas.Subst
import Mathlib.Analysis.SpecialFunctions.ExpDeriv
import Mathlib.Analysis.SpecialFunctions.Log.Deriv
import Mathlib.Analysis.SpecialFunctions.Trigonometric.Deriv
import Mathlib.Analysis.Calculus.Deriv.Inv
import Mathlib.Analysis.Calculus.Deriv.Pow
import Mathlib.Tactic

set_option linter.unusedSimpArgs false
set_option linter.unnecessarySeqFocus false
set_option linter.unusedVariables false

namespace Pygom
open Expr

/-- the real interpretation of the transcendental symbols -/
noncomputable def realI : FnInterp ℝ := ⟨Real.exp, Real.log, Real.sin, Real.cos, Real.pi⟩

/-- value of an expression over the reals -/
noncomputable def evalR (ρ : String → ℝ) (e : Expr) : ℝ := Expr.eval realI ρ e

section field
variable {K : Type} [Field K]

theorem eval_of_isZero (I : FnInterp K) (ρ : String → K) (e : Expr) (h : e.isZero = true) :
    Expr.eval I ρ e = 0 := by
  cases e <;> simp [Expr.isZero] at h
  subst h; simp [Expr.eval]

theorem eval_of_isOne (I : FnInterp K) (ρ : String → K) (e : Expr) (h : e.isOne = true) :
    Expr.eval I ρ e = 1 := by
  cases e <;> simp [Expr.isOne] at h
  subst h; simp [Expr.eval]

@[simp] theorem eval_sadd (I : FnInterp K) (ρ : String → K) (a b : Expr) :
    Expr.eval I ρ (sadd a b) = Expr.eval I ρ a + Expr.eval I ρ b := by
  unfold sadd
  split
  · rename_i h; simp [eval_of_isZero I ρ a h]
  · split
    · rename_i h; simp [eval_of_isZero I ρ b h]
    · simp [Expr.eval]

@[simp] theorem eval_ssub (I : FnInterp K) (ρ : String → K) (a b : Expr) :
    Expr.eval I ρ (ssub a b) = Expr.eval I ρ a - Expr.eval I ρ b := by
  unfold ssub
  split
  · rename_i h; simp [eval_of_isZero I ρ b h]
  · split
    · rename_i h; simp [eval_of_isZero I ρ a h, Expr.eval]
    · simp [Expr.eval]

@[simp] theorem eval_smul (I : FnInterp K) (ρ : String → K) (a b : Expr) :
    Expr.eval I ρ (smul a b) = Expr.eval I ρ a * Expr.eval I ρ b := by
  unfold smul
  split
  · rename_i h; simp [eval_of_isZero I ρ a h]
  · split
    · rename_i h; simp [eval_of_isZero I ρ b h]
    · split
      · rename_i h; simp [eval_of_isOne I ρ a h]
      · split
        · rename_i h; simp [eval_of_isOne I ρ b h]
        · simp [Expr.eval]

@[simp] theorem eval_sneg (I : FnInterp K) (ρ : String → K) (a : Expr) :
    Expr.eval I ρ (sneg a) = - Expr.eval I ρ a := by
  unfold sneg
  split
  · rename_i h; simp [eval_of_isZero I ρ a h]
  · simp [Expr.eval]

@[simp] theorem eval_sdiv (I : FnInterp K) (ρ : String → K) (a b : Expr) :
    Expr.eval I ρ (sdiv a b) = Expr.eval I ρ a / Expr.eval I ρ b := by
  unfold sdiv
  split
  · rename_i h; simp [eval_of_isZero I ρ a h]
  · simp [Expr.eval]

end field

/-- every denominator is non-zero and every `log` argument positive at `ρ` -/
def defined (ρ : String → ℝ) : Expr → Prop
  | .num _ => True
  | .pi => True
  | .var _ => True
  | .add a b => defined ρ a ∧ defined ρ b
  | .sub a b => defined ρ a ∧ defined ρ b
  | .mul a b => defined ρ a ∧ defined ρ b
  | .div a b => defined ρ a ∧ defined ρ b ∧ evalR ρ b ≠ 0
  | .neg a => defined ρ a
  | .pow a _ => defined ρ a
  | .exp a => defined ρ a
  | .log a => defined ρ a ∧ 0 < evalR ρ a
  | .sin a => defined ρ a
  | .cos a => defined ρ a

theorem evalR_num_natCast (ρ : String → ℝ) (n : Nat) : evalR ρ (.num (n : Rat)) = (n : ℝ) := by
  simp [evalR, Expr.eval]

/-- **The verified differentiator.** -/
theorem hasDerivAt_diff (v : String) (ρ : String → ℝ) (e : Expr) (h : defined ρ e) :
    HasDerivAt (fun x => evalR (Function.update ρ v x) e) (evalR ρ (diff v e)) (ρ v) := by
  induction e with
  | num q => simp only [evalR, Expr.eval, diff, eval_zero]; exact hasDerivAt_const _ _
  | pi => simp only [evalR, Expr.eval, diff, eval_zero]; exact hasDerivAt_const _ _
  | var w =>
    by_cases hw : w = v
    · subst hw
      simp only [evalR, Expr.eval, diff, if_true, Function.update_self, eval_one]
      exact hasDerivAt_id' (ρ w)
    · simp only [evalR, Expr.eval, diff, hw, if_false, Function.update_of_ne hw, eval_zero]
      exact hasDerivAt_const _ _
  | add a b iha ihb =>
    have := (iha h.1).add (ihb h.2)
    simp only [evalR, Expr.eval, diff, eval_sadd] at *
    exact this
  | sub a b iha ihb =>
    have := (iha h.1).sub (ihb h.2)
    simp only [evalR, Expr.eval, diff, eval_ssub] at *
    exact this
  | mul a b iha ihb =>
    have := (iha h.1).mul (ihb h.2)
    simp only [Function.update_eq_self] at this
    simp only [evalR, Expr.eval, diff, eval_sadd, eval_smul] at *
    exact this
  | div a b iha ihb =>
    have hb : evalR (Function.update ρ v (ρ v)) b ≠ 0 := by simpa [Function.update_eq_self] using h.2.2
    have := (iha h.1).div (ihb h.2.1) hb
    simp only [Function.update_eq_self] at this
    simp only [evalR, Expr.eval, diff, eval_sdiv, eval_ssub, eval_smul] at *
    refine this.congr_deriv ?_
    rw [sq]
  | neg a iha =>
    have := (iha h).neg
    simp only [evalR, Expr.eval, diff, eval_sneg] at *
    exact this
  | pow a n iha =>
    have := (iha h).fun_pow n
    simp only [Function.update_eq_self] at this
    simp only [evalR, Expr.eval, diff, eval_smul, Rat.num_natCast, Rat.den_natCast, Int.cast_natCast,
      Nat.cast_one, div_one] at *
    exact this
  | exp a iha =>
    have := (iha h).exp
    simp only [Function.update_eq_self] at this
    simp only [evalR, Expr.eval, diff, eval_smul, realI] at *
    exact this.congr_deriv (by ring)
  | log a iha =>
    have h0 : evalR (Function.update ρ v (ρ v)) a ≠ 0 := by
      simpa [Function.update_eq_self] using (ne_of_gt h.2)
    have := (iha h.1).log h0
    simp only [Function.update_eq_self] at this
    simp only [evalR, Expr.eval, diff, eval_sdiv, realI] at *
    exact this
  | sin a iha =>
    have := (iha h).sin
    simp only [Function.update_eq_self] at this
    simp only [evalR, Expr.eval, diff, eval_smul, realI] at *
    exact this.congr_deriv (by ring)
  | cos a iha =>
    have := (iha h).cos
    simp only [Function.update_eq_self] at this
    simp only [evalR, Expr.eval, diff, eval_sneg, eval_smul, realI] at *
    exact this.congr_deriv (by ring)

/-- definedness is inherited by the symbolic derivative -/
theorem defined_diff (v : String) (ρ : String → ℝ) (e : Expr) (h : defined ρ e) : defined ρ (diff v e) := by
  have dz : defined ρ Expr.zero := trivial
  have dsadd : ∀ a b, defined ρ a → defined ρ b → defined ρ (sadd a b) := by
    intro a b ha hb; unfold sadd; split
    · exact hb
    · split
      · exact ha
      · exact ⟨ha, hb⟩
  have dssub : ∀ a b, defined ρ a → defined ρ b → defined ρ (ssub a b) := by
    intro a b ha hb; unfold ssub; split
    · exact ha
    · split
      · exact hb
      · exact ⟨ha, hb⟩
  have dsmul : ∀ a b, defined ρ a → defined ρ b → defined ρ (smul a b) := by
    intro a b ha hb; unfold smul; split
    · exact dz
    · split
      · exact dz
      · split
        · exact hb
        · split
          · exact ha
          · exact ⟨ha, hb⟩
  have dsneg : ∀ a, defined ρ a → defined ρ (sneg a) := by
    intro a ha; unfold sneg; split
    · exact dz
    · exact ha
  have dsdiv : ∀ a b, defined ρ a → defined ρ b → evalR ρ b ≠ 0 → defined ρ (sdiv a b) := by
    intro a b ha hb hne; unfold sdiv; split
    · exact dz
    · exact ⟨ha, hb, hne⟩
  induction e with
  | num q => exact dz
  | pi => exact dz
  | var w => simp only [diff]; split <;> trivial
  | add a b iha ihb => exact dsadd _ _ (iha h.1) (ihb h.2)
  | sub a b iha ihb => exact dssub _ _ (iha h.1) (ihb h.2)
  | mul a b iha ihb => exact dsadd _ _ (dsmul _ _ (iha h.1) h.2) (dsmul _ _ h.1 (ihb h.2))
  | div a b iha ihb =>
    refine dsdiv _ _ (dssub _ _ (dsmul _ _ (iha h.1) h.2.1) (dsmul _ _ h.1 (ihb h.2.1))) ⟨h.2.1, h.2.1⟩ ?_
    simp only [evalR, Expr.eval]
    exact mul_ne_zero h.2.2 h.2.2
  | neg a iha => exact dsneg _ (iha h)
  | pow a n iha => exact dsmul _ _ (dsmul _ _ trivial h) (iha h)
  | exp a iha => exact dsmul _ _ (iha h) h
  | log a iha => exact dsdiv _ _ (iha h.1) h.1 (ne_of_gt h.2)
  | sin a iha => exact dsmul _ _ (iha h) h
  | cos a iha => exact dsneg _ (dsmul _ _ (iha h) h)

end Pygom
