/- index arithmetic for block-stacked matrices (`col_join` of equally sized blocks) and `sumExprs` -/
import Pygom.Lemmas.Deriv

set_option linter.unusedSimpArgs false
set_option linter.unusedVariables false

namespace Pygom
open Expr

/-- entry accessor of a list-of-rows matrix (zero outside) -/
def mat2 (M : List (List Expr)) (i j : Nat) : Expr := ((M[i]?).bind (·[j]?)).getD Expr.zero

theorem getElem?_flatMap_blocks {α β : Type} (l : List α) (f : α → List β) (n : Nat)
    (hlen : ∀ a ∈ l, (f a).length = n) (q r : Nat) (hr : r < n) :
    (l.flatMap f)[q * n + r]? = (l[q]?).bind (fun a => (f a)[r]?) := by
  induction l generalizing q with
  | nil => simp
  | cons a l ih =>
    have ha : (f a).length = n := hlen a (by simp)
    have hl : ∀ b ∈ l, (f b).length = n := fun b hb => hlen b (by simp [hb])
    rw [List.flatMap_cons]
    cases q with
    | zero =>
      simp only [Nat.zero_mul, Nat.zero_add, List.getElem?_cons_zero, Option.bind_some]
      rw [List.getElem?_append_left (by omega)]
    | succ q =>
      rw [List.getElem?_append_right (by rw [ha]; nlinarith)]
      have : (q + 1) * n + r - (f a).length = q * n + r := by rw [ha]; ring_nf; omega
      rw [this, ih hl]
      simp

theorem evalR_sumExprs (ρ : String → ℝ) (l : List Expr) :
    evalR ρ (sumExprs l) = (l.map (evalR ρ)).sum := by
  unfold sumExprs
  suffices H : ∀ acc, evalR ρ (l.foldl Expr.add acc) = evalR ρ acc + (l.map (evalR ρ)).sum by
    rw [H]; simp [evalR]
  induction l with
  | nil => intro acc; simp
  | cons e l ih => intro acc; simp only [List.foldl_cons, List.map_cons, List.sum_cons]; rw [ih]; simp [evalR, Expr.eval]; ring

end Pygom
