/-
Helper lemmas for the gridded output (C15): the index chosen by `_extractObservationAtTime`, sums of
increments selected by event time, numpy's histogram bins.
-/
import Pygom.Lemmas.Stoch

set_option linter.unusedSimpArgs false
set_option linter.unnecessarySeqFocus false
set_option linter.unusedVariables false

namespace Pygom.Stoch

/-! ### index lookup -/

/-- on a strictly increasing list the elements `< x` are exactly the first `countP (· < x)` ones -/
theorem lt_iff_lt_countP (ts : List Rat) (hs : ts.Pairwise (· < ·)) (x : Rat) (j : Nat) (hj : j < ts.length) :
    ts[j] < x ↔ j < ts.countP (fun a => decide (a < x)) := by
  induction ts generalizing j with
  | nil => simp at hj
  | cons a rest ih =>
    rw [List.pairwise_cons] at hs
    by_cases ha : a < x
    · simp only [List.countP_cons, ha, decide_true, if_true]
      cases j with
      | zero => simp [ha]
      | succ j =>
        simp only [List.getElem_cons_succ]
        rw [ih hs.2 j (by simpa using hj)]; omega
    · have hnone : ∀ b ∈ rest, ¬ b < x := fun b hb hbx => ha (lt_trans (hs.1 b hb) hbx)
      have hc : rest.countP (fun a => decide (a < x)) = 0 := by
        rw [List.countP_eq_zero]; intro b hb; simpa using hnone b hb
      simp only [List.countP_cons, ha, decide_false, hc]
      cases j with
      | zero => simp [ha]
      | succ j =>
        simp only [List.getElem_cons_succ]
        constructor
        · intro h; exact absurd h (hnone _ (List.getElem_mem _))
        · intro h; simp at h

/-- the index picked is the LAST index whose time is `≤ target` -/
theorem extractIdx_spec (ts : List Rat) (hs : ts.Pairwise (· < ·)) (target : Rat)
    (hne : 0 < ts.length) (h0 : ts[0] ≤ target) :
    ∃ hk : extractIdx ts target < ts.length,
      ts[extractIdx ts target] ≤ target ∧
      ∀ j (hj : j < ts.length), extractIdx ts target < j → target < ts[j] := by
  unfold extractIdx
  by_cases hmem : target ∈ ts
  · simp only [hmem, if_true]
    have hk : ts.idxOf target < ts.length := List.idxOf_lt_length_iff.mpr hmem
    refine ⟨hk, ?_, ?_⟩
    · rw [List.getElem_idxOf hk]
    · intro j hj hlt
      have := List.pairwise_iff_getElem.mp hs _ j hk hj hlt
      rwa [List.getElem_idxOf hk] at this
  · simp only [hmem, if_false, searchsortedLeft]
    have hne' : ∀ j (hj : j < ts.length), ts[j] ≠ target := fun j hj h => hmem (h ▸ List.getElem_mem hj)
    have hc : 0 < ts.countP (fun a => decide (a < target)) := by
      rw [← lt_iff_lt_countP ts hs target 0 hne]
      exact lt_of_le_of_ne h0 (hne' 0 hne)
    have hcl : ts.countP (fun a => decide (a < target)) ≤ ts.length := List.countP_le_length
    have hk : ts.countP (fun a => decide (a < target)) - 1 < ts.length := by omega
    refine ⟨hk, ?_, ?_⟩
    · exact le_of_lt ((lt_iff_lt_countP ts hs target _ hk).mpr (by omega))
    · intro j hj hlt
      have : ¬ ts[j] < target := by
        rw [lt_iff_lt_countP ts hs target j hj]; omega
      exact lt_of_le_of_ne (not_lt.mp this) (Ne.symm (hne' j hj))

/-- a target before every later record picks the first record (also a target before the first record:
that is the `max(…, 0)` of the code) -/
theorem extractIdx_eq_zero (t0 : Rat) (taus : List Rat) (g : Rat) (hall : ∀ τ ∈ taus, g < τ) :
    extractIdx (t0 :: taus) g = 0 := by
  unfold extractIdx
  by_cases hmem : g ∈ t0 :: taus
  · simp only [hmem, if_true]
    rcases List.mem_cons.mp hmem with rfl | h
    · simp
    · exact absurd (hall g h) (lt_irrefl g)
  · simp only [hmem, if_false, searchsortedLeft, List.countP_cons]
    have hc : taus.countP (fun a => decide (a < g)) = 0 := by
      rw [List.countP_eq_zero]; intro b hb; simpa using le_of_lt (hall b hb)
    rw [hc]; split <;> simp

theorem extractIdx_cons_succ (t0 τ1 : Rat) (rest : List Rat) (g : Rat) (h01 : t0 < τ1) (h1g : τ1 ≤ g) :
    extractIdx (t0 :: τ1 :: rest) g = extractIdx (τ1 :: rest) g + 1 := by
  have hne : t0 ≠ g := ne_of_lt (lt_of_lt_of_le h01 h1g)
  unfold extractIdx
  by_cases hmem : g ∈ τ1 :: rest
  · have hmem' : g ∈ t0 :: τ1 :: rest := List.mem_cons_of_mem _ hmem
    simp only [hmem, hmem', if_true]
    rw [List.idxOf_cons_ne _ hne]
  · have hmem' : g ∉ t0 :: τ1 :: rest := by
      intro h; rcases List.mem_cons.mp h with h | h
      · exact hne h.symm
      · exact hmem h
    have h1 : τ1 < g := lt_of_le_of_ne h1g (fun h => hmem (h ▸ List.mem_cons_self))
    have h0 : t0 < g := lt_trans h01 h1
    simp only [hmem, hmem', if_false, searchsortedLeft, List.countP_cons, h0, h1, decide_true, if_true]
    omega

/-! ### sums selected by time -/

@[simp] theorem selSum_nil_left (p : Rat → Bool) (ds : List Rat) : selSum p [] ds = 0 := by simp [selSum]
@[simp] theorem selSum_nil_right (p : Rat → Bool) (taus : List Rat) : selSum p taus [] = 0 := by simp [selSum]
theorem selSum_cons (p : Rat → Bool) (τ : Rat) (taus : List Rat) (d : Rat) (ds : List Rat) :
    selSum p (τ :: taus) (d :: ds) = (if p τ then d else 0) + selSum p taus ds := by simp [selSum]

theorem selSum_eq_zero (p : Rat → Bool) (taus ds : List Rat) (h : ∀ τ ∈ taus, p τ = false) : selSum p taus ds = 0 := by
  induction taus generalizing ds with
  | nil => simp
  | cons τ taus ih =>
    cases ds with
    | nil => simp
    | cons d ds =>
      rw [selSum_cons, h τ (by simp), ih ds (fun τ' h' => h τ' (by simp [h']))]; simp

theorem selSum_congr (p q : Rat → Bool) (taus ds : List Rat) (h : ∀ τ ∈ taus, p τ = q τ) :
    selSum p taus ds = selSum q taus ds := by
  induction taus generalizing ds with
  | nil => simp
  | cons τ taus ih =>
    cases ds with
    | nil => simp
    | cons d ds =>
      rw [selSum_cons, selSum_cons, h τ (by simp), ih ds (fun τ' h' => h τ' (by simp [h']))]

theorem selSum_sub (p q : Rat → Bool) (taus ds : List Rat) (h : ∀ τ ∈ taus, q τ = true → p τ = true) :
    selSum p taus ds - selSum q taus ds = selSum (fun τ => p τ && !q τ) taus ds := by
  induction taus generalizing ds with
  | nil => simp
  | cons τ taus ih =>
    cases ds with
    | nil => simp
    | cons d ds =>
      have hih := ih ds (fun τ' h' => h τ' (by simp [h']))
      rw [selSum_cons, selSum_cons, selSum_cons, ← hih]
      have := h τ (by simp)
      cases hp : p τ <;> cases hq : q τ <;>
        simp only [hp, hq, Bool.not_true, Bool.not_false, Bool.and_true, Bool.and_false, Bool.false_and, Bool.true_and,
          if_true, if_false, Bool.false_eq_true] <;>
        first | ring1 | (exfalso; simp [hp, hq] at this)

/-! ### the state at a grid time is the initial state plus the increments of the events up to that time -/

theorem state_at_grid (V : List Vec) (s : Nat) (recs : List Rec) (x0 : Vec) (t0 g : Rat)
    (hinc : Steps (fun x _ r => r.x.getD s 0 = x.getD s 0 + mulVec V r.counts s) x0 t0 recs)
    (hsorted : (pathTimes t0 recs).Pairwise (· < ·)) (h0 : t0 ≤ g) :
    ((pathStates x0 recs).getD (extractIdx (pathTimes t0 recs) g) []).getD s 0
      = x0.getD s 0 + selSum (fun τ => decide (τ ≤ g)) (recs.map (·.t)) (recs.map (fun r => mulVec V r.counts s)) := by
  induction recs generalizing x0 t0 with
  | nil =>
    simp only [pathTimes, pathStates, List.map_nil]
    rw [extractIdx_eq_zero t0 [] g (by simp)]; simp
  | cons r rs ih =>
    simp only [pathTimes, pathStates, List.map_cons] at hsorted ⊢
    obtain ⟨hstep, hrest⟩ := hinc
    rw [List.pairwise_cons] at hsorted
    obtain ⟨ht0, hs'⟩ := hsorted
    have h01 : t0 < r.t := ht0 r.t (by simp)
    by_cases hle : r.t ≤ g
    · rw [extractIdx_cons_succ t0 r.t _ g h01 hle, List.getD_cons_succ, selSum_cons, if_pos (by simpa using hle)]
      have := ih r.x r.t hrest (by simpa [pathTimes] using hs') hle
      simp only [pathTimes, pathStates] at this
      rw [this, hstep]; ring
    · have hlt : g < r.t := lt_of_not_ge hle
      have hall : ∀ τ ∈ r.t :: rs.map (·.t), g < τ := by
        intro τ hτ
        rcases List.mem_cons.mp hτ with rfl | h
        · exact hlt
        · exact lt_trans hlt ((List.pairwise_cons.mp hs').1 τ h)
      rw [extractIdx_eq_zero t0 _ g hall]
      rw [selSum_eq_zero _ (r.t :: rs.map (·.t)) _ (by intro τ hτ; simpa using hall τ hτ)]
      simp

/-! ### histogram bins -/

theorem binWeight_cons (τ : Rat) (taus : List Rat) (z : Int) (w : List Int) (b : Rat × Rat × Bool) :
    binWeight (τ :: taus) (z :: w) b = (if inBin b τ then z else 0) + binWeight taus w b := by
  simp [binWeight]

theorem binWeight_cast (taus : List Rat) (w : List Int) (b : Rat × Rat × Bool) :
    ((binWeight taus w b : Int) : Rat) = selSum (inBin b) taus (w.map (fun (z : Int) => (z : Rat))) := by
  induction taus generalizing w with
  | nil => simp [binWeight]
  | cons τ taus ih =>
    cases w with
    | nil => simp [binWeight]
    | cons z w =>
      rw [binWeight_cons, List.map_cons, selSum_cons, ← ih w]
      push_cast
      split <;> simp

theorem mulVec_eq_range (V : List Vec) (c : List Nat) (s : Nat) :
    mulVec V c s = ((List.range V.length).map (fun i => (V.getD i []).getD s 0 * ((c.getD i 0 : Nat) : Rat))).sum := by
  induction V generalizing c with
  | nil => simp [mulVec]
  | cons v vs ih =>
    rw [List.length_cons, List.range_succ_eq_map, List.map_cons, List.sum_cons, List.map_map]
    cases c with
    | nil =>
      rw [mulVec_nil_right]
      symm
      simp [Function.comp_def]
    | cons c0 cs =>
      rw [mulVec_cons, ih cs]
      simp [Function.comp_def]

/-- exchange of the two sums: `Σ_i V[s,i] · (Σ_{events in bin} counts[i]) = Σ_{events in bin} (V · counts)[s]` -/
theorem sum_exchange (V : List Vec) (s : Nat) (p : Rat → Bool) (recs : List Rec) :
    ((List.range V.length).map (fun i => (V.getD i []).getD s 0 *
        selSum p (recs.map (·.t)) ((countCol (recs.map (·.counts)) i).map (fun (z : Int) => (z : Rat))))).sum
      = selSum p (recs.map (·.t)) (recs.map (fun r => mulVec V r.counts s)) := by
  induction recs with
  | nil => simp
  | cons r rs ih =>
    simp only [List.map_cons, countCol, selSum_cons] at ih ⊢
    rw [← ih]
    simp only [mul_add]
    rw [List.sum_map_add]
    congr 1
    by_cases hp : p r.t
    · simp only [hp, if_true]
      rw [mulVec_eq_range]
      simp
    · simp [hp]

/-! ### entries of the gridded arrays -/

theorem rows_entry (X : List Vec) (ts grid : List Rat) (k : Nat) (hk : k < grid.length) :
    (extractObservationAtTime X ts grid).getD k [] = X.getD (extractIdx ts grid[k]) [] := by
  simp [extractObservationAtTime, List.getD_eq_getElem?_getD, hk]

theorem counts_entry (nTrans : Nat) (dX : List (List Nat)) (t grid : List Rat) (k i : Nat)
    (hk : k + 1 < grid.length) (hi : i < nTrans) :
    ((addJumpsBetweenTime nTrans dX t grid).getD k []).getD i 0
      = binWeight t.tail (countCol dX i) (bin grid k) := by
  have hk' : k < grid.length - 1 := by omega
  simp [addJumpsBetweenTime, histogram, List.getD_eq_getElem?_getD, hk', hi]

end Pygom.Stoch
