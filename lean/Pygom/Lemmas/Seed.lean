/-
Helper lemmas about the seeded-simulation model (Pygom/Seed.lean): repeated calls, serving request lists,
the list-backed generator (consecutive segments, prefix dependence), the parameter setter, the mean.
-/
import Pygom.Seed
import Pygom.Lemmas.Stoch
import Mathlib.Tactic

set_option linter.unusedSimpArgs false
set_option linter.unnecessarySeqFocus false
set_option linter.unusedVariables false

namespace Pygom.Seed
open Pygom.Stoch

/-! ### repeated calls -/

section many
variable {ω α : Type} (run : ω → α × ω)

theorem runMany_length (n : Nat) (w : ω) : (runMany run n w).1.length = n := by
  induction n generalizing w with
  | zero => simp [runMany]
  | succ n ih => simp [runMany, ih]

theorem runMany_snd (n : Nat) (w : ω) : (runMany run n w).2 = after run n w := by
  induction n generalizing w with
  | zero => simp [runMany, after]
  | succ n ih => simp [runMany, after, ih]

theorem after_add (m n : Nat) (w : ω) : after run (m + n) w = after run n (after run m w) := by
  induction m generalizing w with
  | zero => simp [after]
  | succ m ih =>
    have : m + 1 + n = (m + n) + 1 := by omega
    rw [this]; simp only [after]; exact ih _

theorem after_succ (k : Nat) (w : ω) : after run (k + 1) w = (run (after run k w)).2 := by
  rw [after_add]; simp [after]

theorem runMany_getElem? (n k : Nat) (w : ω) (hk : k < n) :
    (runMany run n w).1[k]? = some (run (after run k w)).1 := by
  induction n generalizing w k with
  | zero => omega
  | succ n ih =>
    cases k with
    | zero => simp [runMany, after]
    | succ k =>
      simp only [runMany, List.getElem?_cons_succ, after]
      exact ih k _ (by omega)

theorem runMany_add (m n : Nat) (w : ω) :
    (runMany run (m + n) w).1 = (runMany run m w).1 ++ (runMany run n (after run m w)).1 := by
  induction m generalizing w with
  | zero => simp [runMany, after]
  | succ m ih =>
    have : m + 1 + n = (m + n) + 1 := by omega
    rw [this]; simp only [runMany, after, List.cons_append]; rw [ih]

end many

/-! ### serving requests -/

section serve
variable {σ : Type} (g : Gen σ)

theorem serve_length (reqs : List Req) (s : σ) : (serve g reqs s).1.length = reqs.length := by
  induction reqs generalizing s with
  | nil => simp [serve]
  | cons r rs ih => simp [serve, ih]

theorem serve_append (a b : List Req) (s : σ) :
    serve g (a ++ b) s = ((serve g a s).1 ++ (serve g b (serve g a s).2).1, (serve g b (serve g a s).2).2) := by
  induction a generalizing s with
  | nil => simp [serve]
  | cons r rs ih => simp [serve, ih]

end serve

@[simp] theorem listGen_next (s : List Rat) (r : Req) : listGen.next s r = (s.headD 0, s.tail) := rfl

@[simp] theorem route_next {σ τ : Type} (g : Gen σ) (h : Gen τ) (foreign : Req → Bool) (w : σ × τ) (r : Req) :
    (route g h foreign).next w r =
      if foreign r then ((h.next w.2 r).1, (w.1, (h.next w.2 r).2)) else ((g.next w.1 r).1, ((g.next w.1 r).2, w.2)) := rfl

theorem serve_listGen_state (reqs : List Req) (s : List Rat) : (serve listGen reqs s).2 = s.drop reqs.length := by
  induction reqs generalizing s with
  | nil => simp [serve]
  | cons r rs ih =>
    simp only [serve, listGen_next, List.length_cons]
    rw [ih s.tail]
    cases s <;> simp

/-- the variates served from a recorded stream are its first `reqs.length` elements -/
theorem serve_listGen_vals (reqs : List Req) (s : List Rat) (h : reqs.length ≤ s.length) :
    (serve listGen reqs s).1 = s.take reqs.length := by
  induction reqs generalizing s with
  | nil => simp [serve]
  | cons r rs ih =>
    cases s with
    | nil => simp at h
    | cons a s =>
      simp only [serve, listGen_next, List.length_cons, List.take_succ_cons, List.headD_cons, List.tail_cons]
      rw [ih s (by simpa using h)]

/-- serving depends only on the first `reqs.length` elements of the recorded stream -/
theorem serve_listGen_prefix (reqs : List Req) (s s' : List Rat) (k : Nat) (hk : reqs.length ≤ k)
    (h : s.take k = s'.take k) : (serve listGen reqs s).1 = (serve listGen reqs s').1 := by
  induction reqs generalizing s s' k with
  | nil => simp [serve]
  | cons r rs ih =>
    obtain ⟨k, rfl⟩ : ∃ k', k = k' + 1 := ⟨k - 1, by simp at hk; omega⟩
    simp only [serve, listGen_next]
    have hh : s.headD 0 = s'.headD 0 ∧ s.tail.take k = s'.tail.take k := by
      cases s with
      | nil =>
        cases s' with
        | nil => simp
        | cons b s' => simp at h
      | cons a s =>
        cases s' with
        | nil => simp at h
        | cons b s' => simpa using h
    rw [hh.1, ih s.tail s'.tail k (by simpa using hk) hh.2]

theorem take_of_take {α : Type} (s s' : List α) (k j : Nat) (hj : j ≤ k) (h : s.take k = s'.take k) :
    s.take j = s'.take j := by
  have := congrArg (List.take j) h
  simpa [List.take_take, Nat.min_eq_left hj] using this

theorem drop_take_of_take {α : Type} (s s' : List α) (k j : Nat) (h : s.take k = s'.take k) :
    (s.drop j).take (k - j) = (s'.drop j).take (k - j) := by
  have := congrArg (List.drop j) h
  simpa [List.drop_take] using this

/-! ### one iteration -/

section step
variable {σ : Type} (g : Gen σ)

theorem stepS_reqs (s : Settings) (e : Eval) (exact : Bool) (x : Vec) (t : Rat) (st : σ) :
    (stepS g s e exact x t st).1.reqs
      = reqs1 s e exact x ++ reqs2 s e exact x t (serve g (reqs1 s e exact x) st).1 := rfl

theorem stepS_out (s : Settings) (e : Eval) (exact : Bool) (x : Vec) (t : Rat) (st : σ) :
    (stepS g s e exact x t st).1.out = iter s e exact x t (stepS g s e exact x t st).1.used := rfl

theorem stepS_state (s : Settings) (e : Eval) (exact : Bool) (x : Vec) (t : Rat) (st : σ) :
    (stepS g s e exact x t st).2 = (serve g (stepS g s e exact x t st).1.reqs st).2 := by
  rw [stepS_reqs, serve_append]; rfl

end step

theorem stepS_listGen_state (s : Settings) (e : Eval) (exact : Bool) (x : Vec) (t : Rat) (st : List Rat) :
    (stepS listGen s e exact x t st).2 = st.drop (stepS listGen s e exact x t st).1.reqs.length := by
  rw [stepS_state, serve_listGen_state]

/-- an iteration depends only on the part of the recorded stream it consumes -/
theorem stepS_listGen_prefix (s : Settings) (e : Eval) (exact : Bool) (x : Vec) (t : Rat) (st st' : List Rat) (k : Nat)
    (hk : (stepS listGen s e exact x t st).1.reqs.length ≤ k) (h : st.take k = st'.take k) :
    (stepS listGen s e exact x t st').1 = (stepS listGen s e exact x t st).1 := by
  rw [stepS_reqs, List.length_append] at hk
  have h1 : (serve listGen (reqs1 s e exact x) st').1 = (serve listGen (reqs1 s e exact x) st).1 :=
    (serve_listGen_prefix _ st st' k (by omega) h).symm
  have h2 : (serve listGen (reqs2 s e exact x t (serve listGen (reqs1 s e exact x) st).1) (serve listGen (reqs1 s e exact x) st').2).1
      = (serve listGen (reqs2 s e exact x t (serve listGen (reqs1 s e exact x) st).1) (serve listGen (reqs1 s e exact x) st).2).1 := by
    rw [serve_listGen_state, serve_listGen_state]
    exact (serve_listGen_prefix _ _ _ (k - (reqs1 s e exact x).length) (by omega)
      (drop_take_of_take st st' k _ h)).symm
  simp only [stepS]
  rw [h1, h2]

/-! ### the loop -/

section jump
variable {σ : Type} (g : Gen σ)

/-- the records of the streamed loop are those of `Stoch.run` (C04) on the variates it was served -/
theorem jumpS_recs_eq_run (c : Cfg) (exact : Bool) (fuel : Nat) (x : Vec) (t : Rat) (st : σ) :
    (jumpS g c exact fuel x t st).1.recs = run c exact x t (jumpS g c exact fuel x t st).1.inputs := by
  induction fuel generalizing x t st with
  | zero => simp [jumpS, run]
  | succ fuel ih =>
    simp only [jumpS]
    split
    · rename_i hlt
      split
      · rename_i w hw
        rw [stepS_out] at hw
        simp [run, hlt, hw]
      · rename_i r hr
        rw [stepS_out] at hr
        simp only [run, hlt, if_true, hr]
        rw [ih]
    · simp [run]

end jump

theorem jumpS_listGen_state (c : Cfg) (exact : Bool) (fuel : Nat) (x : Vec) (t : Rat) (st : List Rat) :
    (jumpS listGen c exact fuel x t st).2 = st.drop (jumpS listGen c exact fuel x t st).1.reqs.length := by
  induction fuel generalizing x t st with
  | zero => simp [jumpS]
  | succ fuel ih =>
    simp only [jumpS]
    split
    · split
      · simp only; exact stepS_listGen_state _ _ _ _ _ _
      · rename_i r hr
        simp only [List.length_append]
        rw [ih, stepS_listGen_state, List.drop_drop]
    · simp

/-- a whole `_jump` depends only on the segment of the recorded stream it consumes -/
theorem jumpS_listGen_prefix (c : Cfg) (exact : Bool) (fuel : Nat) (x : Vec) (t : Rat) (st st' : List Rat) (k : Nat)
    (hk : (jumpS listGen c exact fuel x t st).1.reqs.length ≤ k) (h : st.take k = st'.take k) :
    (jumpS listGen c exact fuel x t st').1 = (jumpS listGen c exact fuel x t st).1 := by
  induction fuel generalizing x t st st' k with
  | zero => simp [jumpS]
  | succ fuel ih =>
    simp only [jumpS] at hk ⊢
    split
    · rename_i hlt
      simp only [hlt, if_true] at hk
      split at hk
      · rename_i w hw
        simp only at hk
        have hs := stepS_listGen_prefix c.set (c.ev x t) exact x t st st' k hk h
        rw [hs, hw]
      · rename_i r hr
        simp only [List.length_append] at hk
        have hs := stepS_listGen_prefix c.set (c.ev x t) exact x t st st' k (by omega) h
        rw [hs, hr]
        simp only
        have hst : (stepS listGen c.set (c.ev x t) exact x t st').2
            = st'.drop (stepS listGen c.set (c.ev x t) exact x t st).1.reqs.length := by
          rw [stepS_listGen_state, hs]
        have hrec := ih r.x r.t (stepS listGen c.set (c.ev x t) exact x t st).2
          (stepS listGen c.set (c.ev x t) exact x t st').2
          (k - (stepS listGen c.set (c.ev x t) exact x t st).1.reqs.length) (by omega)
          (by rw [hst, stepS_listGen_state]; exact drop_take_of_take st st' k _ h)
        rw [hrec]
    · rfl

/-! ### the parameter setter -/

theorem paramReqs_length_le (spec : PSpec) : (paramReqs spec).length ≤ spec.length := by
  induction spec with
  | nil => simp [paramReqs]
  | cons e es ih =>
    obtain ⟨i, p⟩ := e
    cases p <;> simp [paramReqs] <;> omega

theorem assign_length (spec : PSpec) (vs cur : List Rat) : (assign spec vs cur).length = cur.length := by
  induction spec generalizing vs cur with
  | nil => simp [assign]
  | cons e es ih =>
    obtain ⟨i, p⟩ := e
    cases p with
    | fixed v => simp [assign, ih]
    | random => simp [assign, ih]

/-- positions the dict does not mention keep their value -/
theorem assign_outside (spec : PSpec) (vs cur : List Rat) (j : Nat) (hj : j ∉ spec.map Prod.fst) :
    (assign spec vs cur)[j]? = cur[j]? := by
  induction spec generalizing vs cur with
  | nil => simp [assign]
  | cons e es ih =>
    obtain ⟨i, p⟩ := e
    simp only [List.map_cons, List.mem_cons, not_or] at hj
    have hne : i ≠ j := fun h => hj.1 h.symm
    cases p with
    | fixed v => simp only [assign]; rw [ih _ _ hj.2, List.getElem?_set_ne hne]
    | random => simp only [assign]; rw [ih _ _ hj.2, List.getElem?_set_ne hne]

/-- what the setter produces does not depend on the values previously held at the positions the dict mentions -/
theorem assign_agree (spec : PSpec) (vs cur cur' : List Rat) (hl : cur.length = cur'.length)
    (h : ∀ j, j ∉ spec.map Prod.fst → cur[j]? = cur'[j]?) : assign spec vs cur = assign spec vs cur' := by
  induction spec generalizing vs cur cur' with
  | nil =>
    simp only [assign]
    exact List.ext_getElem? (fun j => h j (by simp))
  | cons e es ih =>
    obtain ⟨i, p⟩ := e
    have step : ∀ v : Rat, ∀ j, j ∉ es.map Prod.fst → (cur.set i v)[j]? = (cur'.set i v)[j]? := by
      intro v j hj
      by_cases hij : i = j
      · subst hij
        simp [List.getElem?_set, hl]
      · rw [List.getElem?_set_ne hij, List.getElem?_set_ne hij]
        exact h j (by simp only [List.map_cons, List.mem_cons, not_or]; exact ⟨fun hh => hij hh.symm, hj⟩)
    cases p with
    | fixed v => simp only [assign]; exact ih _ _ _ (by simp [hl]) (step v)
    | random => simp only [assign]; exact ih _ _ _ (by simp [hl]) (step _)

/-! ### the mean -/

theorem entry_meanSol (l : List Sol) (i j : Nat) (hi : i < (l.headD []).length) (hj : j < ((l.headD []).headD []).length) :
    entry (meanSol l) i j = (l.map (fun s => entry s i j)).sum / (l.length : Rat) := by
  unfold entry meanSol
  simp only [List.getD_eq_getElem?_getD, List.getElem?_map, List.getElem?_range hi, Option.map_some, Option.getD_some,
    List.getElem?_range hj]
  rfl

/-! ### a foreign source -/

theorem serve_route_primary {σ τ : Type} (g : Gen σ) (h : Gen τ) (foreign : Req → Bool) (reqs : List Req)
    (hf : ∀ r ∈ reqs, foreign r = false) (s : σ) (f : τ) :
    serve (route g h foreign) reqs (s, f) = ((serve g reqs s).1, ((serve g reqs s).2, f)) := by
  induction reqs generalizing s with
  | nil => simp [serve]
  | cons r rs ih =>
    have hr : foreign r = false := hf r (by simp)
    simp only [serve, route_next, hr, Bool.false_eq_true, if_false]
    rw [ih (fun r' hr' => hf r' (by simp [hr']))]

end Pygom.Seed

namespace Pygom.Seed
open Pygom.Stoch

/-! ### the streamed loop never runs short of variates (`Stop.starved` is an artefact of the list-based C04 model only) -/

theorem newJumpTimes_isSome (rates ds : List Rat) (h : nPositive rates ≤ ds.length) : (newJumpTimes rates ds).isSome = true := by
  induction rates generalizing ds with
  | nil => simp [newJumpTimes]
  | cons r rs ih =>
    unfold newJumpTimes
    by_cases hr : 0 < r
    · simp only [hr, if_true]
      cases ds with
      | nil => simp [nPositive, List.countP_cons, hr] at h
      | cons d ds' =>
        have h' : nPositive rs ≤ ds'.length := by
          simp [nPositive, List.countP_cons, hr] at h ⊢; omega
        have := ih ds' h'
        simpa using this
    · simp only [hr, if_false]
      have h' : nPositive rs ≤ ds.length := by
        simp [nPositive, List.countP_cons, hr] at h ⊢; exact h
      have := ih ds h'
      simpa using this

theorem firstReaction_not_starved (cols : List Vec) (rates : List Rat) (lims : List Lim) (x : Vec) (t : Rat) (expo : List Rat)
    (h : allZero rates = true ∨ nPositive rates ≤ expo.length) : firstReaction cols rates lims x t expo ≠ .starved := by
  unfold firstReaction
  split
  · simp
  · rename_i hz
    have hlen : nPositive rates ≤ expo.length := by
      rcases h with h | h
      · exact absurd h hz
      · exact h
    have hs := newJumpTimes_isSome rates expo hlen
    split
    · rename_i hn; simp [hn] at hs
    · split <;> simp

theorem ofFirst_starved {b : Branch} {o : Outcome} (h : ofFirst b o = .stop .starved) : o = .starved := by
  cases o with
  | checked r => simp only [ofFirst] at h; split at h <;> simp at h
  | starved => rfl
  | _ => simp [ofFirst] at h

theorem expoReqs_length (rates : List Rat) : (expoReqs rates).length = nPositive rates := by
  simp [expoReqs, nPositive, List.countP_eq_length_filter]

/-- an iteration of the streamed loop is never short of variates -/
theorem stepS_never_starved {σ : Type} (g : Gen σ) (s : Settings) (e : Eval) (exact : Bool) (x : Vec) (t : Rat) (st : σ) :
    (stepS g s e exact x t st).1.out ≠ .stop .starved := by
  rw [stepS_out]
  simp only [stepS]
  intro hst
  cases exact with
  | true =>
    simp only [iter, iterIn, if_true] at hst
    have := ofFirst_starved hst
    refine firstReaction_not_starved _ _ _ _ _ _ ?_ this
    by_cases hz : allZero e.rates = true
    · exact Or.inl hz
    · right
      simp [reqs1, hz, serve_length, expoReqs_length]
  | false =>
    simp only [iter, iterIn, Bool.false_eq_true, if_false] at hst
    by_cases hz : allZero e.rates = true
    · have htl : ∀ p, tauLeap s e x t p = .zeroRates := by intro p; simp [tauLeap, hz]
      rw [htl] at hst
      simp only at hst
      exact firstReaction_not_starved _ _ _ _ _ _ (Or.inl hz) (ofFirst_starved hst)
    · cases htau : tauOf s e x with
      | none =>
        have htl : ∀ p, tauLeap s e x t p = .notSafe := by intro p; simp [tauLeap, hz, htau]
        rw [htl] at hst
        simp at hst
      | some tau =>
        have hp : (serve g (reqs1 s e false x) st).1.length = e.rates.length := by
          simp [reqs1, hz, htau, serve_length, poisReqs]
        have htl : tauLeap s e x t ((serve g (reqs1 s e false x) st).1.map natOf)
            = .checked (checkJump x (vadd (applyCounts x e.cols (((serve g (reqs1 s e false x) st).1.map natOf).take e.rates.length)) (vscale e.pure tau))
                s.lims t tau (((serve g (reqs1 s e false x) st).1.map natOf).take e.rates.length)) := by
          simp [tauLeap, hz, htau, hp]
        rw [htl] at hst
        simp only at hst
        split at hst
        · simp at hst
        · rename_i hsucc
          have hrej : tauRejected s e x t ((serve g (reqs1 s e false x) st).1.map natOf) = true := by
            simp only [tauRejected, htl]
            simpa using hsucc
          refine firstReaction_not_starved _ _ _ _ _ _ (Or.inr ?_) (ofFirst_starved hst)
          simp [reqs2, hz, hrej, serve_length, expoReqs_length]

end Pygom.Seed
