/- substitution lemma for `Expr.subst` / `Expr.substAll` -/
import Pygom.Lemmas.Assembly
import Mathlib.Logic.Function.Basic

namespace Pygom
open Expr
variable {K : Type} [Field K]

theorem eval_subst (I : FnInterp K) (ρ : String → K) (v : String) (e' e : Expr) :
    Expr.eval I ρ (Expr.subst v e' e) = Expr.eval I (Function.update ρ v (Expr.eval I ρ e')) e := by
  induction e with
  | num q => simp [Expr.subst, Expr.eval]
  | pi => simp [Expr.subst, Expr.eval]
  | var w =>
    by_cases h : w = v
    · subst h; simp [Expr.subst, Expr.eval]
    · simp [Expr.subst, Expr.eval, h, Function.update_of_ne h]
  | add a b iha ihb => simp [Expr.subst, Expr.eval, iha, ihb]
  | sub a b iha ihb => simp [Expr.subst, Expr.eval, iha, ihb]
  | mul a b iha ihb => simp [Expr.subst, Expr.eval, iha, ihb]
  | div a b iha ihb => simp [Expr.subst, Expr.eval, iha, ihb]
  | neg a iha => simp [Expr.subst, Expr.eval, iha]
  | pow a n iha => simp [Expr.subst, Expr.eval, iha]
  | exp a iha => simp [Expr.subst, Expr.eval, iha]
  | log a iha => simp [Expr.subst, Expr.eval, iha]
  | sin a iha => simp [Expr.subst, Expr.eval, iha]
  | cos a iha => simp [Expr.subst, Expr.eval, iha]

/-- the environment in which the un-substituted expression is evaluated: later pairs are bound
first (they are substituted last), each to the value of its own equation -/
def extEnv (I : FnInterp K) : List (String × Expr) → (String → K) → (String → K)
  | [], ρ => ρ
  | (k, v) :: ds, ρ => let ρ' := extEnv I ds ρ; Function.update ρ' k (Expr.eval I ρ' v)

theorem eval_substAll (I : FnInterp K) (ρ : String → K) (ds : List (String × Expr)) (e : Expr) :
    Expr.eval I ρ (Expr.substAll ds e) = Expr.eval I (extEnv I ds ρ) e := by
  induction ds generalizing e with
  | nil => simp [Expr.substAll, extEnv]
  | cons kv ds ih =>
    obtain ⟨k, v⟩ := kv
    have : Expr.substAll ((k, v) :: ds) e = Expr.substAll ds (Expr.subst k v e) := by
      simp [Expr.substAll]
    rw [this, ih, eval_subst]
    simp [extEnv]

end Pygom
