/-
Helper lemmas for C09 (the `parameters` setter): last-entry-wins reading of the unroll loop, the
string-key / symbol-key invariant, the two-line specification and its bridge to the dict.
-/
import Pygom.Params
import Mathlib.Tactic

set_option linter.unusedSimpArgs false
set_option linter.unusedVariables false
set_option linter.unusedSectionVars false
set_option linter.unnecessarySeqFocus false

namespace Pygom.Params

variable {V : Type}

/-! ### `lv` : the value of the last entry with a given name -/

@[simp] theorem lv_nil (n : String) (acc : V) : lv n acc [] = acc := rfl
@[simp] theorem lv_cons (n : String) (acc : V) (kv : Key × V) (rest : Dict V) :
    lv n acc (kv :: rest) = lv n (if kv.1.name = n then kv.2 else acc) rest := rfl

theorem lv_no_name (n : String) (acc : V) (d : Dict V) (h : ∀ kv ∈ d, kv.1.name ≠ n) :
    lv n acc d = acc := by
  induction d generalizing acc with
  | nil => rfl
  | cons kv rest ih =>
    simp only [lv_cons, h kv (by simp), if_false]
    exact ih _ (fun kv' h' => h kv' (by simp [h']))

theorem lv_append (n : String) (acc : V) (d e : Dict V) : lv n acc (d ++ e) = lv n (lv n acc d) e := by
  unfold lv; rw [List.foldl_append]

/-! ### the pure unroll loop and what it leaves at each declared position -/

/-- the unroll loop when no index lookup fails -/
def unrollPure (params : List String) (d : Dict V) (pv : List V) : List V :=
  d.foldl (fun pv kv => pv.set (params.idxOf kv.1.name) kv.2) pv

theorem getParamIndex_of_mem (params : List String) (k : Key) (h : k.name ∈ params) :
    getParamIndex params k = .ok (params.idxOf k.name) := by
  unfold getParamIndex known
  simp [h]

theorem getParamIndex_of_not_mem (params : List String) (k : Key) (h : k.name ∉ params) :
    ∃ e, getParamIndex params k = .error e := by
  unfold getParamIndex
  by_cases hk : known params k.name
  · exact ⟨.notInList, by simp [hk, h]⟩
  · exact ⟨.unknownParam, by simp [hk]⟩

theorem unrollFrom_ok (params : List String) (d : Dict V) (pv : List V)
    (h : ∀ kv ∈ d, kv.1.name ∈ params) :
    unrollFrom params d pv = (unrollPure params d pv, none) := by
  induction d generalizing pv with
  | nil => rfl
  | cons kv rest ih =>
    obtain ⟨k, v⟩ := kv
    simp only [unrollFrom, getParamIndex_of_mem params k (h (k, v) (by simp))]
    rw [ih _ (fun kv' h' => h kv' (by simp [h']))]
    rfl

theorem unrollFrom_err_of_mem (params : List String) (d : Dict V) (pv : List V)
    (kv : Key × V) (hm : kv ∈ d) (hn : kv.1.name ∉ params) : (unrollFrom params d pv).2 ≠ none := by
  induction d generalizing pv with
  | nil => simp at hm
  | cons kv' rest ih =>
    obtain ⟨k, v⟩ := kv'
    by_cases hk : k.name ∈ params
    · simp only [unrollFrom, getParamIndex_of_mem params k hk]
      have : kv ∈ rest := by
        rcases List.mem_cons.mp hm with h | h
        · subst h; exact absurd hk hn
        · exact h
      exact ih _ this
    · obtain ⟨e, he⟩ := getParamIndex_of_not_mem params k hk
      simp [unrollFrom, he]

theorem unrollFrom_none_names (params : List String) (d : Dict V) (pv : List V)
    (h : (unrollFrom params d pv).2 = none) : ∀ kv ∈ d, kv.1.name ∈ params := by
  intro kv hm
  by_contra hn
  exact unrollFrom_err_of_mem params d pv kv hm hn h

theorem unrollPure_length (params : List String) (d : Dict V) (pv : List V) :
    (unrollPure params d pv).length = pv.length := by
  unfold unrollPure
  induction d generalizing pv with
  | nil => rfl
  | cons kv rest ih => simp only [List.foldl_cons]; rw [ih]; simp

/-- the unroll loop reads back, at every declared position, the **last** entry of that name -/
theorem unrollPure_get (params : List String) (hnd : params.Nodup) (d : Dict V)
    (hk : ∀ kv ∈ d, kv.1.name ∈ params) (i : Nat) (hi : i < params.length)
    (pv : List V) (acc : V) (hlen : pv.length = params.length) (hget : pv[i]? = some acc) :
    (unrollPure params d pv)[i]? = some (lv params[i] acc d) := by
  unfold unrollPure lv
  induction d generalizing pv acc with
  | nil => simpa using hget
  | cons kv rest ih =>
    simp only [List.foldl_cons]
    have hmem : kv.1.name ∈ params := hk kv (by simp)
    apply ih (fun kv' h' => hk kv' (by simp [h'])) _ _ (by simp [hlen])
    by_cases hn : kv.1.name = params[i]
    · have : params.idxOf kv.1.name = i := by rw [hn]; exact hnd.idxOf_getElem i hi
      rw [this]; simp [hn, hlen, hi]
    · have hne : params.idxOf kv.1.name ≠ i := by
        intro h
        apply hn
        have hlt : params.idxOf kv.1.name < params.length := List.idxOf_lt_length_iff.mpr hmem
        have := List.getElem_idxOf hlt
        simp only [h] at this
        exact this.symm
      simp [hn, List.getElem?_set_ne hne, hget]

/-! ### the invariant that makes mixed string / symbol keys harmless -/

/-- after a symbol-keyed entry named `n` there is no further entry named `n`
(string-keyed entries precede symbol-keyed ones of the same name; a symbol key is the most recent) -/
def Inv : Dict V → Prop
  | [] => True
  | kv :: rest => (∀ n, kv.1 = Key.sym n → ∀ kv' ∈ rest, kv'.1.name ≠ n) ∧ Inv rest

theorem mem_dset {d : Dict V} {k : Key} {v : V} {kv' : Key × V} (h : kv' ∈ dset d k v) :
    kv' ∈ d ∨ kv' = (k, v) := by
  induction d with
  | nil => simp [dset] at h; exact Or.inr h
  | cons kv rest ih =>
    unfold dset at h
    split at h
    · simp only [List.mem_cons] at h
      rcases h with h | h
      · exact Or.inr h
      · exact Or.inl (by simp [h])
    · simp only [List.mem_cons] at h
      rcases h with h | h
      · exact Or.inl (by simp [h])
      · rcases ih h with h | h
        · exact Or.inl (by simp [h])
        · exact Or.inr h

/-- the key just written is present afterwards -/
theorem dset_has_key (d : Dict V) (k : Key) (v : V) : (k, v) ∈ dset d k v := by
  induction d with
  | nil => simp [dset]
  | cons kv rest ih =>
    unfold dset
    split
    · simp
    · simp [ih]

/-- writing a key never removes another key -/
theorem dset_keeps_key (d : Dict V) (k k0 : Key) (v : V) (h : ∃ v0, (k0, v0) ∈ d) :
    ∃ v0, (k0, v0) ∈ dset d k v := by
  induction d with
  | nil => obtain ⟨_, h⟩ := h; simp at h
  | cons kv rest ih =>
    obtain ⟨v0, h0⟩ := h
    unfold dset
    split
    · rename_i hk
      rcases List.mem_cons.mp h0 with h | h
      · refine ⟨v, ?_⟩
        have : k0 = k := by rw [← hk, ← h]
        simp [this]
      · exact ⟨v0, by simp [h]⟩
    · rcases List.mem_cons.mp h0 with h | h
      · exact ⟨v0, by simp [h]⟩
      · obtain ⟨v1, h1⟩ := ih ⟨v0, h⟩
        exact ⟨v1, by simp [h1]⟩

theorem Inv_dset (d : Dict V) (n : String) (v : V) (h : Inv d) : Inv (dset d (Key.sym n) v) := by
  induction d with
  | nil => simp [dset, Inv]
  | cons kv rest ih =>
    unfold dset
    split
    · rename_i hk
      refine ⟨?_, h.2⟩
      intro m hm kv' hkv'
      exact h.1 m (by rw [hk]; exact hm) kv' hkv'
    · rename_i hk
      refine ⟨?_, ih h.2⟩
      intro m hm kv' hkv'
      rcases mem_dset hkv' with h' | h'
      · exact h.1 m hm kv' h'
      · subst h'
        simp only [Key.name]
        intro hnm; subst hnm; exact hk hm

theorem lv_dset (d : Dict V) (n : String) (v : V) (m : String) (acc : V) (h : Inv d) :
    lv m acc (dset d (Key.sym n) v) = if m = n then v else lv m acc d := by
  induction d generalizing acc with
  | nil =>
    simp only [dset, lv_cons, lv_nil, Key.name]
    by_cases hmn : m = n
    · simp [hmn]
    · simp [hmn, Ne.symm hmn]
  | cons kv rest ih =>
    unfold dset
    split
    · rename_i hk
      simp only [lv_cons]
      by_cases hmn : m = n
      · subst hmn
        simp only [Key.name, if_true]
        exact lv_no_name _ _ _ (h.1 m hk)
      · have h1 : kv.1.name ≠ m := by rw [hk]; simp [Key.name]; exact Ne.symm hmn
        have h2 : (Key.sym n).name ≠ m := by simp [Key.name]; exact Ne.symm hmn
        rw [if_neg h1, if_neg h2, if_neg hmn]
    · simp only [lv_cons]
      rw [ih _ h.2]

/-- a positional assignment produces an all-string-key dict: `Inv` holds trivially -/
theorem Inv_of_all_str (d : Dict V) (h : ∀ kv ∈ d, ∃ n, kv.1 = Key.str n) : Inv d := by
  induction d with
  | nil => trivial
  | cons kv rest ih =>
    refine ⟨?_, ih (fun kv' h' => h kv' (by simp [h']))⟩
    intro n hn
    obtain ⟨m, hm⟩ := h kv (by simp)
    rw [hm] at hn; cases hn

/-! ### the two-line specification -/

/-- override, in input order, exactly the names mentioned -/
def Spec.update (f : String → V) (ps : List (String × V)) : String → V :=
  ps.foldl (fun g p => Function.update g p.1 p.2) f

@[simp] theorem Spec.update_nil (f : String → V) : Spec.update f [] = f := rfl
@[simp] theorem Spec.update_cons (f : String → V) (p : String × V) (ps : List (String × V)) :
    Spec.update f (p :: ps) = Spec.update (Function.update f p.1 p.2) ps := rfl

theorem Spec.update_append (f : String → V) (ps qs : List (String × V)) :
    Spec.update f (ps ++ qs) = Spec.update (Spec.update f ps) qs := by
  unfold Spec.update; rw [List.foldl_append]

/-- a name that is not mentioned keeps its earlier value -/
theorem Spec.update_not_mem (f : String → V) (ps : List (String × V)) (n : String)
    (h : ∀ p ∈ ps, p.1 ≠ n) : Spec.update f ps n = f n := by
  induction ps generalizing f with
  | nil => rfl
  | cons p ps ih =>
    simp only [Spec.update_cons]
    rw [ih _ (fun q hq => h q (by simp [hq]))]
    exact Function.update_of_ne (Ne.symm (h p (by simp))) _ _

/-- the last mention of a name wins -/
theorem Spec.update_last (f : String → V) (ps : List (String × V)) (n : String) (v : V) :
    Spec.update f (ps ++ [(n, v)]) n = v := by
  rw [Spec.update_append]; simp

/-- with distinct names, every mentioned name gets the value given for it -/
theorem Spec.update_mem_nodup (f : String → V) (ps : List (String × V)) (hnd : (ps.map Prod.fst).Nodup)
    (p : String × V) (hp : p ∈ ps) : Spec.update f ps p.1 = p.2 := by
  induction ps generalizing f with
  | nil => simp at hp
  | cons q ps ih =>
    simp only [List.map_cons, List.nodup_cons] at hnd
    simp only [Spec.update_cons]
    rcases List.mem_cons.mp hp with h | h
    · subst h
      rw [Spec.update_not_mem]
      · simp
      · intro r hr hrn
        exact hnd.1 (by rw [← hrn]; exact List.mem_map_of_mem (f := Prod.fst) hr)
    · exact ih _ hnd.2 h

/-- order of mention is irrelevant when the names are distinct -/
theorem Spec.update_perm (f : String → V) (ps qs : List (String × V)) (hp : ps.Perm qs)
    (hnd : (ps.map Prod.fst).Nodup) : Spec.update f ps = Spec.update f qs := by
  have hnd' : (qs.map Prod.fst).Nodup := (hp.map Prod.fst).nodup_iff.mp hnd
  funext n
  by_cases hn : ∃ p ∈ ps, p.1 = n
  · obtain ⟨p, hpm, rfl⟩ := hn
    rw [Spec.update_mem_nodup f ps hnd p hpm, Spec.update_mem_nodup f qs hnd' p (hp.mem_iff.mp hpm)]
  · have h1 : ∀ p ∈ ps, p.1 ≠ n := fun p hpm hpn => hn ⟨p, hpm, hpn⟩
    have h2 : ∀ p ∈ qs, p.1 ≠ n := fun p hpm hpn => hn ⟨p, hp.mem_iff.mpr hpm, hpn⟩
    rw [Spec.update_not_mem f ps n h1, Spec.update_not_mem f qs n h2]

/-- the dict read as "last entry wins" *is* the spec update of the constant map by its entries -/
theorem lv_eq_update (d : Dict V) (n : String) (f : String → V) :
    lv n (f n) d = Spec.update f (d.map (fun kv => (kv.1.name, kv.2))) n := by
  induction d generalizing f with
  | nil => rfl
  | cons kv rest ih =>
    simp only [lv_cons, List.map_cons, Spec.update_cons]
    rw [← ih]
    congr 1
    by_cases h : kv.1.name = n
    · subst h; simp
    · simp [h, Function.update_of_ne (Ne.symm h)]

/-- writing `(name, value)` pairs through symbol keys refines pointwise update, from any dict
satisfying `Inv`; and `Inv` is preserved -/
theorem lv_foldl_dset (ps : List (String × V)) (d : Dict V) (h : Inv d) (acc : V) :
    (fun m => lv m acc (ps.foldl (fun d p => dset d (Key.sym p.1) p.2) d))
        = Spec.update (fun m => lv m acc d) ps
    ∧ Inv (ps.foldl (fun d p => dset d (Key.sym p.1) p.2) d) := by
  induction ps generalizing d with
  | nil => exact ⟨rfl, h⟩
  | cons p ps ih =>
    simp only [List.foldl_cons, Spec.update_cons]
    have hI := Inv_dset d p.1 p.2 h
    obtain ⟨h1, h2⟩ := ih (dset d (Key.sym p.1) p.2) hI
    refine ⟨?_, h2⟩
    rw [h1]
    congr 1
    funext m
    rw [lv_dset _ _ _ _ _ h]
    by_cases hm : m = p.1
    · subst hm; simp
    · simp [hm, Function.update_of_ne hm]

theorem mem_foldl_dset (ps : List (String × V)) (d : Dict V) (kv : Key × V)
    (h : kv ∈ ps.foldl (fun d p => dset d (Key.sym p.1) p.2) d) :
    kv ∈ d ∨ ∃ p ∈ ps, kv = (Key.sym p.1, p.2) := by
  induction ps generalizing d with
  | nil => exact Or.inl h
  | cons p ps ih =>
    simp only [List.foldl_cons] at h
    rcases ih _ h with h' | ⟨q, hq, hkv⟩
    · rcases mem_dset h' with h'' | h''
      · exact Or.inl h''
      · exact Or.inr ⟨p, by simp, h''⟩
    · exact Or.inr ⟨q, by simp [hq], hkv⟩

theorem foldl_dset_keeps_key (ps : List (String × V)) (d : Dict V) (k0 : Key)
    (h : ∃ v0, (k0, v0) ∈ d) : ∃ v0, (k0, v0) ∈ ps.foldl (fun d p => dset d (Key.sym p.1) p.2) d := by
  induction ps generalizing d with
  | nil => exact h
  | cons p ps ih => exact ih _ (dset_keeps_key d _ k0 _ h)

theorem foldl_dset_has_keys (ps : List (String × V)) (d : Dict V) (p : String × V) (hp : p ∈ ps) :
    ∃ v0, (Key.sym p.1, v0) ∈ ps.foldl (fun d p => dset d (Key.sym p.1) p.2) d := by
  induction ps generalizing d with
  | nil => simp at hp
  | cons q ps ih =>
    simp only [List.foldl_cons]
    rcases List.mem_cons.mp hp with h | h
    · subst h
      exact foldl_dset_keeps_key ps _ _ ⟨_, dset_has_key d _ _⟩
    · exact ih _ h

/-! ### the positional branch builds `[(str p₀, v₀), (str p₁, v₁), …]` -/

theorem dset_append_of_fresh (d : Dict V) (k : Key) (v : V) (h : ∀ kv ∈ d, kv.1 ≠ k) :
    dset d k v = d ++ [(k, v)] := by
  induction d with
  | nil => rfl
  | cons kv rest ih =>
    unfold dset
    rw [if_neg (h kv (by simp)), ih (fun kv' h' => h kv' (by simp [h']))]
    rfl

theorem foldl_dset_str_fresh (zs : List (String × V)) (acc : Dict V) (hnd : (zs.map Prod.fst).Nodup)
    (hfresh : ∀ kv ∈ acc, ∀ z ∈ zs, kv.1 ≠ Key.str z.1) :
    zs.foldl (fun d p => dset d (Key.str p.1) p.2) acc = acc ++ zs.map (fun p => (Key.str p.1, p.2)) := by
  induction zs generalizing acc with
  | nil => simp
  | cons z zs ih =>
    simp only [List.map_cons, List.nodup_cons] at hnd
    simp only [List.foldl_cons, List.map_cons]
    rw [dset_append_of_fresh acc _ _ (fun kv hkv => hfresh kv hkv z (by simp))]
    rw [ih _ hnd.2]
    · simp
    · intro kv hkv y hy
      rcases List.mem_append.mp hkv with h | h
      · exact hfresh kv h y (by simp [hy])
      · simp only [List.mem_singleton] at h
        subst h
        simp only [ne_eq, Key.str.injEq]
        intro hzy
        exact hnd.1 (by rw [hzy]; exact List.mem_map_of_mem (f := Prod.fst) hy)

theorem buildNums_eq (params : List String) (hnd : params.Nodup) (vals : List V)
    (hlen : vals.length = params.length) :
    buildNums params vals = (params.zip vals).map (fun p => (Key.str p.1, p.2)) := by
  unfold buildNums
  have hfst : (params.zip vals).map Prod.fst = params := by
    rw [List.map_fst_zip]; omega
  rw [foldl_dset_str_fresh _ [] (by rw [hfst]; exact hnd) (by simp)]
  simp

/-! ### representation invariant -/

section setter
variable [Zero V]

/-- a name written as a sympy Symbol is not accepted inside a pair list (only as a dict key) -/
def pairOk : NameRef → Prop
  | .sym _ => False
  | _ => True

instance (r : NameRef) : Decidable (pairOk r) := by
  cases r <;> unfold pairOk <;> exact inferInstance

/-- the representation invariant: distinct declared names, the string/symbol key invariant, every
key a declared name, and `_paramValue` in sync with `_parameters` -/
structure Good (s : State V) : Prop where
  nodup : s.params.Nodup
  inv : Inv s.items
  names : ∀ kv ∈ s.items, kv.1.name ∈ s.params
  pv : s.pv = unrollPure s.params s.items (List.replicate s.params.length 0)

theorem good_init (params : List String) (h : params.Nodup) : Good (init (V := V) params) :=
  ⟨h, trivial, by simp [init, State.items], by simp [init, State.items, unrollPure]⟩

/-! ### building blocks of the setter: name resolution, dict construction, commit -/

theorem extractParamSymbol_ok {params : List String} {r : NameRef} {n : String}
    (h : extractParamSymbol params r = .ok n) : n = r.name ∧ pairOk r ∧ known params n := by
  cases r with
  | str m =>
    by_cases hk : known params m
    · simp [extractParamSymbol, hk] at h; subst h; exact ⟨rfl, trivial, hk⟩
    · simp [extractParamSymbol, hk] at h
  | odevar m =>
    by_cases hk : known params m
    · simp [extractParamSymbol, hk] at h; subst h; exact ⟨rfl, trivial, hk⟩
    · simp [extractParamSymbol, hk] at h
  | sym m => simp [extractParamSymbol] at h

theorem extractParamSymbol_of_mem {params : List String} {r : NameRef} (hp : pairOk r)
    (hm : r.name ∈ params) : extractParamSymbol params r = .ok r.name := by
  cases r with
  | str m => simp [extractParamSymbol, known, NameRef.name] at *; simp [hm]
  | odevar m => simp [extractParamSymbol, known, NameRef.name] at *; simp [hm]
  | sym m => exact absurd hp (by simp [pairOk])

theorem dictKeySymbol_ok {params : List String} {r : NameRef} {n : String}
    (h : dictKeySymbol params r = .ok n) : n = r.name := by
  cases r with
  | str m => exact (extractParamSymbol_ok (by simpa [dictKeySymbol] using h)).1
  | odevar m => exact (extractParamSymbol_ok (by simpa [dictKeySymbol] using h)).1
  | sym m =>
    have := (extractParamSymbol_ok (r := .str m) (by simpa [dictKeySymbol] using h)).1
    simpa [NameRef.name] using this

theorem dictKeySymbol_of_mem {params : List String} {r : NameRef} (hm : r.name ∈ params) :
    dictKeySymbol params r = .ok r.name := by
  cases r with
  | str m => simp [dictKeySymbol, extractParamSymbol, known, NameRef.name] at *; simp [hm]
  | odevar m => simp [dictKeySymbol, extractParamSymbol, known, NameRef.name] at *; simp [hm]
  | sym m => simp [dictKeySymbol, extractParamSymbol, known, NameRef.name] at *; simp [hm]

/-- the symbol-key writes a list of `(name, value)` performs -/
abbrev writes (d : Dict V) (ps : List (String × V)) : Dict V :=
  ps.foldl (fun d p => dset d (Key.sym p.1) p.2) d

theorem buildPairs_of_valid (params : List String) (ps : List (NameRef × V)) (d : Dict V)
    (h : ∀ p ∈ ps, pairOk p.1 ∧ p.1.name ∈ params) :
    buildPairs params ps d = .ok (writes d (ps.map (fun p => (p.1.name, p.2)))) := by
  induction ps generalizing d with
  | nil => rfl
  | cons p ps ih =>
    obtain ⟨r, v⟩ := p
    have hp := h (r, v) (by simp)
    simp only [buildPairs, extractParamSymbol_of_mem hp.1 hp.2]
    rw [ih _ (fun q hq => h q (by simp [hq]))]
    rfl

theorem buildPairs_ok_inv (params : List String) (ps : List (NameRef × V)) (d0 d : Dict V)
    (h : buildPairs params ps d0 = .ok d) :
    d = writes d0 (ps.map (fun p => (p.1.name, p.2))) ∧ ∀ p ∈ ps, pairOk p.1 := by
  induction ps generalizing d0 with
  | nil => simp only [buildPairs] at h; cases h; exact ⟨rfl, by simp⟩
  | cons p ps ih =>
    obtain ⟨r, v⟩ := p
    simp only [buildPairs] at h
    split at h
    · rename_i n hn
      obtain ⟨h1, h2, _⟩ := extractParamSymbol_ok hn
      obtain ⟨e1, e2⟩ := ih _ h
      subst h1
      refine ⟨e1, ?_⟩
      intro q hq
      rcases List.mem_cons.mp hq with hq | hq
      · subst hq; exact h2
      · exact e2 q hq
    · cases h

theorem buildDict_of_valid (params : List String) (es : List (NameRef × Option V)) (d : Dict V)
    (h : ∀ e ∈ es, e.1.name ∈ params ∧ e.2.isSome) :
    buildDict params es d
      = (writes d (es.filterMap (fun e => e.2.map (fun v => (e.1.name, v)))), none) := by
  induction es generalizing d with
  | nil => rfl
  | cons e es ih =>
    obtain ⟨r, ov⟩ := e
    have he := h (r, ov) (by simp)
    cases ov with
    | none => simp at he
    | some v =>
      simp only [buildDict, dictKeySymbol_of_mem he.1]
      rw [ih _ (fun q hq => h q (by simp [hq]))]
      simp [writes]

theorem buildDict_none_inv (params : List String) (es : List (NameRef × Option V)) (d0 d : Dict V)
    (h : buildDict params es d0 = (d, none)) :
    d = writes d0 (es.filterMap (fun e => e.2.map (fun v => (e.1.name, v)))) ∧ ∀ e ∈ es, e.2.isSome := by
  induction es generalizing d0 with
  | nil => simp only [buildDict] at h; cases h; exact ⟨rfl, by simp⟩
  | cons e es ih =>
    obtain ⟨r, ov⟩ := e
    cases ov with
    | none => simp [buildDict] at h
    | some v =>
      simp only [buildDict] at h
      split at h
      · rename_i n hn
        have h1 := dictKeySymbol_ok hn
        obtain ⟨e1, e2⟩ := ih _ h
        subst h1
        refine ⟨by simpa [writes] using e1, ?_⟩
        intro q hq
        rcases List.mem_cons.mp hq with hq | hq
        · subst hq; rfl
        · exact e2 q hq
      · simp at h

theorem commit_ok (s : State V) (d : Dict V) (h : ∀ kv ∈ d, kv.1.name ∈ s.params) :
    commit s d = ({ s with dict := some d,
                           pv := unrollPure s.params d (List.replicate s.params.length 0) }, none) := by
  unfold commit
  rw [unrollFrom_ok _ _ _ h]

theorem commit_err (s : State V) (d : Dict V) (kv : Key × V) (hm : kv ∈ d) (hn : kv.1.name ∉ s.params) :
    (commit s d).2 ≠ none := by
  unfold commit
  exact unrollFrom_err_of_mem _ _ _ kv hm hn

theorem good_commit (s : State V) (d : Dict V) (hnd : s.params.Nodup) (hI : Inv d)
    (hn : ∀ kv ∈ d, kv.1.name ∈ s.params) :
    Good ({ s with dict := some d, pv := unrollPure s.params d (List.replicate s.params.length 0) } : State V) :=
  ⟨hnd, by simpa [State.items] using hI, by simpa [State.items] using hn, by simp [State.items]⟩

theorem abs_commit (s : State V) (d : Dict V) (pv : List V) :
    abs ({ s with dict := some d, pv := pv } : State V) = fun n => lv n 0 d := by
  funext n; simp [abs, lastVal, State.items]

/-- a valid positional assignment -/
theorem nums_valid (s : State V) (hg : Good s) (vals : List V) (hlen : vals.length = s.params.length)
    (hne : s.params ≠ []) :
    ∃ s', commit s (buildNums s.params vals) = (s', none) ∧ Good s' ∧ s'.params = s.params
      ∧ abs s' = Spec.update (fun _ => 0) (s.params.zip vals) := by
  rw [buildNums_eq _ hg.nodup _ hlen]
  have hn : ∀ kv ∈ (s.params.zip vals).map (fun p => (Key.str p.1, p.2)), kv.1.name ∈ s.params := by
    intro kv hkv
    obtain ⟨p, hp, rfl⟩ := List.mem_map.mp hkv
    exact (List.of_mem_zip hp).1
  refine ⟨_, commit_ok s _ hn, good_commit s _ hg.nodup ?_ hn, rfl, ?_⟩
  · apply Inv_of_all_str
    intro kv hkv
    obtain ⟨p, hp, rfl⟩ := List.mem_map.mp hkv
    exact ⟨p.1, rfl⟩
  · rw [abs_commit]
    funext n
    have := lv_eq_update ((s.params.zip vals).map (fun p => (Key.str p.1, p.2))) n (fun _ => (0 : V))
    rw [this]
    congr 1
    simp [List.map_map, Function.comp_def, Key.name]

end setter

end Pygom.Params
