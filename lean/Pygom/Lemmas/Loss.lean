/-
Helper lemmas for the loss layer (C06): what `setWeightOrSpread` returns on each documented shape, which
shapes it lets through, name lookup, column selection, congruence of the double sum.
-/
import Pygom.Loss
import Mathlib.Algebra.BigOperators.Group.List.Basic
import Mathlib.Algebra.Ring.Basic
import Mathlib.Tactic

set_option linter.unusedSimpArgs false
set_option linter.unnecessarySeqFocus false
set_option linter.unusedVariables false

namespace Pygom.Loss

variable {α : Type}

/-- `setWeightOrSpread n p x` succeeds with an `n × p` array whose entries are `f i j` -/
def Good [Inhabited α] (n p : Nat) (x : WInput α) (f : Nat → Nat → α) : Prop :=
  ∃ W, setWeightOrSpread n p x = .ok W ∧ W.length = n ∧ (∀ r ∈ W, r.length = p) ∧
      ∀ i, i < n → ∀ j, j < p → entry W i j = f i j

theorem all_len {rs : List (List α)} {k : Nat} (h : ∀ r ∈ rs, r.length = k) :
    rs.all (fun r' => r'.length == k) = true := by
  simp [List.all_eq_true]; exact h

-- 2-D 1x1
theorem bc_mat11 [Inhabited α] (n p : Nat) (hn : 0 < n) (hp : 0 < p) (v : α) :
    Good n p (.mat [[v]]) (fun _ _ => v) := by
  unfold Good
  refine ⟨List.replicate n (List.replicate p v), ?_, by simp, ?_, ?_⟩
  · by_cases hp1 : p = 1 <;> by_cases hn1 : n = 1
    · subst hp1; subst hn1; simp [setWeightOrSpread, toNp, dims, asRows]
    · subst hp1; simp [setWeightOrSpread, toNp, dims, asRows, npMulOnes, bdim, hn1]
    · have hp1' : ¬ (1 = p) := fun h => hp1 h.symm
      subst hn1; simp [setWeightOrSpread, toNp, dims, asRows, npMulOnes, bdim, hp1, hp1']
    · have hp1' : ¬ (1 = p) := fun h => hp1 h.symm
      simp [setWeightOrSpread, toNp, dims, asRows, npMulOnes, bdim, hp1, hp1', hn1]
  · intro r hr; simp at hr; rw [hr.2]; simp
  · intro i hi j hj
    simp [entry, List.getD_eq_getElem?_getD, hi, hj]

-- scalar / 1-D of length 1
theorem bc_vec1 [Inhabited α] (n p : Nat) (hn : 0 < n) (hp : 0 < p) (v : α) :
    Good n p (.vec [v]) (fun _ _ => v) := by
  unfold Good
  refine ⟨List.replicate n (List.replicate p v), ?_, by simp, ?_, ?_⟩
  · by_cases hp1 : p = 1 <;> by_cases hn1 : n = 1
    · subst hp1; subst hn1; simp [setWeightOrSpread, toNp, dims, asRows]
    · subst hp1; simp [setWeightOrSpread, toNp, dims, asRows, npMulOnes, bdim, hn1]
    · have hp1' : ¬ (1 = p) := fun h => hp1 h.symm
      subst hn1; simp [setWeightOrSpread, toNp, dims, asRows, npMulOnes, bdim, hp1, hp1']
    · have hp1' : ¬ (1 = p) := fun h => hp1 h.symm
      simp [setWeightOrSpread, toNp, dims, asRows, npMulOnes, bdim, hp1, hp1', hn1]
  · intro r hr; simp at hr; rw [hr.2]; simp
  · intro i hi j hj
    simp [entry, List.getD_eq_getElem?_getD, hi, hj]

-- per state, 1-D
theorem bc_perState [Inhabited α] (n p : Nat) (hn : 0 < n) (hp : 0 < p) (l : List α) (hl : l.length = p) (hp1 : p ≠ 1) :
    Good n p (.vec l) (fun _ j => l.getD j default) := by
  unfold Good
  have hp1' : ¬ (1 = p) := fun h => hp1 h.symm
  refine ⟨List.replicate n ((List.range p).map fun j => l.getD j default), ?_, by simp, ?_, ?_⟩
  · simp [setWeightOrSpread, toNp, dims, asRows, npMulOnes, bdim, hp1, hp1', hl]
  · intro r hr; simp at hr; rw [hr.2]; simp
  · intro i hi j hj
    simp [entry, List.getD_eq_getElem?_getD, hi, hj, hl, hp1]

-- per state, 1 x p row
theorem bc_row [Inhabited α] (n p : Nat) (hn : 0 < n) (hp : 0 < p) (l : List α) (hl : l.length = p) (hp1 : p ≠ 1) :
    Good n p (.mat [l]) (fun _ j => l.getD j default) := by
  unfold Good
  have hp1' : ¬ (1 = p) := fun h => hp1 h.symm
  by_cases hn1 : n = 1
  · subst hn1
    refine ⟨[l], by simp [setWeightOrSpread, toNp, dims, asRows, hl, hp1, hp1'], by simp, by simp [hl], ?_⟩
    intro i hi j hj
    have : i = 0 := by omega
    subst this; simp [entry]
  · refine ⟨List.replicate n ((List.range p).map fun j => l.getD j default), ?_, by simp, ?_, ?_⟩
    · simp [setWeightOrSpread, toNp, dims, asRows, npMulOnes, bdim, hp1, hp1', hl, hn1]
    · intro r hr; simp at hr; rw [hr.2]; simp
    · intro i hi j hj
      simp [entry, List.getD_eq_getElem?_getD, hi, hj, hl, hp1]

-- per observation, 1-D, p = 1
theorem bc_perObs [Inhabited α] (n : Nat) (hn : 0 < n) (l : List α) (hl : l.length = n) :
    Good n 1 (.vec l) (fun i _ => l.getD i default) := by
  unfold Good
  refine ⟨l.map fun v => [v], by simp [setWeightOrSpread, toNp, dims, asRows, hl], by simp [hl], by simp, ?_⟩
  intro i hi j hj
  have : j = 0 := by omega
  subst this
  simp [entry, List.getD_eq_getElem?_getD, hi, hl]

-- per observation, n x 1 column, p = 1
theorem bc_perObsCol [Inhabited α] (n : Nat) (hn : 0 < n) (l : List α) (hl : l.length = n) :
    Good n 1 (.mat (l.map fun v => [v])) (fun i _ => l.getD i default) := by
  unfold Good
  cases l with
  | nil => simp at hl; omega
  | cons a t =>
    have hl' : t.length + 1 = n := by simpa using hl
    refine ⟨(a :: t).map fun v => [v], ?_, by simp [hl'], by simp, ?_⟩
    · simp [setWeightOrSpread, toNp, dims, asRows, hl']
    · intro i hi j hj
      have : j = 0 := by omega
      subst this
      have hi' : i < (a :: t).length := by rw [hl]; exact hi
      simp only [entry, List.getD_eq_getElem?_getD, List.getElem?_map, List.getElem?_eq_getElem hi']
      simp

-- full matrix
theorem bc_full [Inhabited α] (n p : Nat) (hn : 0 < n) (hp : 0 < p) (rows : List (List α)) (hr : rows.length = n)
    (hc : ∀ r ∈ rows, r.length = p) :
    Good n p (.mat rows) (fun i j => entry rows i j) := by
  unfold Good
  cases rows with
  | nil => simp at hr; omega
  | cons a t =>
    have ha : a.length = p := hc a (by simp)
    have ht : ∀ r ∈ t, r.length = p := fun r h => hc r (by simp [h])
    refine ⟨a :: t, ?_, hr, hc, fun i _ j _ => rfl⟩
    have hall : t.all (fun r' => r'.length == a.length) = true := by rw [ha]; exact all_len ht
    simp only [setWeightOrSpread, toNp, hall, if_true, dims, asRows]
    simp at hr
    by_cases hp1 : p = 1
    · simp [ha, hp1, hr]
    · have h2 : ¬ (n = n * p) := by
        intro h
        have : n * 1 = n * p := by simpa using h
        exact hp1 (Nat.eq_of_mul_eq_mul_left hn this).symm
      simp [ha, h2, hr]

/-! ### which shapes are let through -/

inductive Shp where
  | d1 (L : Nat)
  | d2 (a c : Nat)
  | ragged

def shapeOf : WInput α → Shp
  | .scalar _ => .d1 1
  | .vec l => .d1 l.length
  | .mat [] => .d1 0
  | .mat (r :: rs) => if rs.all (fun r' => r'.length == r.length) then .d2 (rs.length + 1) r.length else .ragged

def AcceptedShape (n p : Nat) : Shp → Prop
  | .d1 L => L = 1 ∨ L = p ∨ (L = n ∧ p = 1)
  | .d2 a c => (a = n ∧ c = p) ∨ (a = 1 ∧ c = p) ∨ (a = 1 ∧ c = 1) ∨ (c = 1 ∧ a = p ∧ p ≠ 1 ∧ (n = p ∨ n = 1))
  | .ragged => False

theorem bdim_some (x y : Nat) : (∃ c, bdim x y = some c) ↔ (x = y ∨ x = 1 ∨ y = 1) := by
  unfold bdim
  by_cases h1 : x = y
  · simp [h1]
  · by_cases h2 : x = 1
    · subst h2; by_cases h3 : 1 = y <;> simp [h3]
    · by_cases h3 : y = 1 <;> simp [h1, h2, h3]

theorem isOk_d1 [Inhabited α] (n p : Nat) (l : List α) :
    (∃ W, npMulOnes n p (.d1 l) = .ok W) ↔ (p = l.length ∨ p = 1 ∨ l.length = 1) := by
  rw [← bdim_some]; simp only [npMulOnes]; cases bdim p l.length <;> simp

theorem isOk_d2 [Inhabited α] (n p : Nat) (rows : List (List α)) (c : Nat) :
    (∃ W, npMulOnes n p (.d2 rows c) = .ok W) ↔
      ((n = rows.length ∨ n = 1 ∨ rows.length = 1) ∧ (p = c ∨ p = 1 ∨ c = 1)) := by
  rw [← bdim_some, ← bdim_some]; simp only [npMulOnes]
  cases bdim n rows.length <;> cases bdim p c <;> simp

theorem ok_exists {ε β : Type} (a : β) : (∃ W, (Except.ok a : Except ε β) = Except.ok W) := ⟨a, rfl⟩

theorem tree_d1 [Inhabited α] (n p : Nat) (hn : 0 < n) (hp : 0 < p) (l : List α) :
    (∃ W, setWeightOrSpread n p (.vec l) = .ok W) ↔ (l.length = 1 ∨ l.length = p ∨ (l.length = n ∧ p = 1)) := by
  simp only [setWeightOrSpread, toNp, dims, beq_iff_eq, Bool.and_eq_true, true_and]
  split_ifs with h1 h2 h3 h4 h5 h6
  · exact ⟨fun _ => by omega, fun _ => ok_exists _⟩
  · rw [isOk_d1]; omega
  · simp only [exists_false, false_iff]; omega
  · rw [isOk_d1]; omega
  · rw [isOk_d1]; omega
  · simp only [exists_false, false_iff]; omega

theorem tree_d2 [Inhabited α] (n p : Nat) (hn : 0 < n) (hp : 0 < p) (r : List α) (rs : List (List α))
    (hall : rs.all (fun r' => r'.length == r.length) = true) :
    (∃ W, setWeightOrSpread n p (.mat (r :: rs)) = .ok W) ↔
      AcceptedShape n p (.d2 (rs.length + 1) r.length) := by
  simp only [setWeightOrSpread, toNp, hall, if_true, dims, AcceptedShape, List.length_cons, beq_iff_eq, Bool.and_eq_true, true_and]
  have ha : 0 < rs.length + 1 := by omega
  have hlen : (r :: rs).length = rs.length + 1 := rfl
  generalize hrows : (r :: rs) = rows at *
  generalize rs.length + 1 = a at *
  generalize r.length = c at *
  have hmul : a = a * c ↔ c = 1 := by
    constructor
    · intro h
      have : a * 1 = a * c := by simpa using h
      exact (Nat.eq_of_mul_eq_mul_left ha this).symm
    · intro h; subst h; simp
  by_cases hc : c = 1
  · have h0 : a = a * c := hmul.mpr hc
    simp only [if_pos h0]
    clear h0 hmul
    split_ifs with h1 h2 h3 h4 h5 h6
    · exact ⟨fun _ => by omega, fun _ => ok_exists _⟩
    · rw [isOk_d2, hlen]; omega
    · simp only [exists_false, false_iff]; omega
    · rw [isOk_d2, hlen]; omega
    · have h5' : a = 1 := h5.2
      rw [isOk_d2, hlen]; omega
    · have h5' : ¬ a = 1 := fun h => h5 ⟨trivial, h⟩
      simp only [exists_false, false_iff]; omega
  · have h0 : ¬ a = a * c := fun h => hc (hmul.mp h)
    simp only [if_neg h0]
    clear h0 hmul
    split_ifs with h1 h2 h3 h4 h5 h6
    · exact ⟨fun _ => by omega, fun _ => ok_exists _⟩
    · rw [isOk_d2, hlen]; omega
    · simp only [exists_false, false_iff]; omega
    · simp only [exists_false, false_iff]; omega
    · rw [isOk_d2, hlen]; omega
    · simp only [exists_false, false_iff]; omega


/-! ### which exception class a rejected shape raises -/

theorem err_not_ok {ε β : Type} {r : Except ε β} {e : ε} (he : r = .error e) (h : ∃ W, r = .ok W) : False := by
  obtain ⟨W, hW⟩ := h; rw [he] at hW; cases hW

theorem value_error_d1 [Inhabited α] (n p : Nat) (l : List α) (e : WErr)
    (h : setWeightOrSpread n p (.vec l) = .error e) : e ≠ .valueBroadcast ∧ e ≠ .valueRagged := by
  simp only [setWeightOrSpread, toNp, dims, beq_iff_eq, Bool.and_eq_true, true_and] at h
  split_ifs at h with h1 h2 h3 h4 h5 h6
  all_goals first
    | exact (err_not_ok h ((isOk_d1 n p l).mpr (by omega))).elim
    | (cases h; exact ⟨by decide, by decide⟩)

theorem value_error_d2 [Inhabited α] (n p : Nat) (hn : 0 < n) (hp : 0 < p) (r : List α) (rs : List (List α))
    (hall : rs.all (fun r' => r'.length == r.length) = true) (e : WErr)
    (h : setWeightOrSpread n p (.mat (r :: rs)) = .error e) (hv : e = .valueBroadcast ∨ e = .valueRagged) :
    r.length = 1 ∧ rs.length + 1 = p ∧ p ≠ 1 ∧ n ≠ p ∧ n ≠ 1 := by
  simp only [setWeightOrSpread, toNp, hall, if_true, dims, List.length_cons, beq_iff_eq, Bool.and_eq_true, true_and] at h
  have ha : 0 < rs.length + 1 := by omega
  have hlen : (r :: rs).length = rs.length + 1 := rfl
  generalize hrows : (r :: rs) = rows at *
  generalize rs.length + 1 = a at *
  generalize r.length = c at *
  have hmul : a = a * c ↔ c = 1 := by
    constructor
    · intro h
      have : a * 1 = a * c := by simpa using h
      exact (Nat.eq_of_mul_eq_mul_left ha this).symm
    · intro h; subst h; simp
  by_cases hc : c = 1
  · have h0 : a = a * c := hmul.mpr hc
    simp only [if_pos h0] at h
    clear h0 hmul
    split_ifs at h with h1 h2 h3 h4 h5 h6
    all_goals first
      | (by_contra hcon; exact err_not_ok h ((isOk_d2 n p rows c).mpr (by rw [hlen]; omega)))
      | (cases h; rcases hv with hv | hv <;> cases hv)
  · have h0 : ¬ a = a * c := fun h => hc (hmul.mp h)
    simp only [if_neg h0] at h
    clear h0 hmul
    split_ifs at h with h1 h2 h3 h4 h5 h6
    all_goals first
      | (by_contra hcon; exact err_not_ok h ((isOk_d2 n p rows c).mpr (by rw [hlen]; omega)))
      | (cases h; rcases hv with hv | hv <;> cases hv)

/-! ### name lookup, column selection, sums -/

theorem lookupAll_ok (pool : List String) : ∀ (names : List String) (idx : List Nat),
    lookupAll pool names = .ok idx → idx = names.map pool.idxOf ∧ ∀ s ∈ names, s ∈ pool := by
  intro names
  induction names with
  | nil => intro idx h; simp [lookupAll] at h; subst h; simp
  | cons s rest ih =>
    intro idx h
    simp only [lookupAll] at h
    split_ifs at h with hs
    cases hr : lookupAll pool rest with
    | error e => rw [hr] at h; simp at h
    | ok l =>
      rw [hr] at h
      simp at h
      obtain ⟨h1, h2⟩ := ih l hr
      subst h
      refine ⟨by simp [h1], ?_⟩
      intro s' hs'
      simp at hs'
      rcases hs' with rfl | hs'
      · simpa using hs
      · exact h2 s' hs'

theorem entry_selectCols [Inhabited α] (traj : List (List α)) (idx : List Nat) (i j : Nat)
    (hi : i < traj.length) (hj : j < idx.length) :
    entry (selectCols traj idx) i j = (traj.getD i []).getD (idx.getD j 0) default := by
  simp [entry, selectCols, List.getD_eq_getElem?_getD, hi, hj]

theorem sum2_congr [Add α] [Zero α] (n p : Nat) (f g : Nat → Nat → α)
    (h : ∀ i, i < n → ∀ j, j < p → f i j = g i j) : sum2 n p f = sum2 n p g := by
  unfold sum2
  congr 1
  apply List.map_congr_left
  intro i hi
  congr 1
  apply List.map_congr_left
  intro j hj
  exact h i (List.mem_range.mp hi) j (List.mem_range.mp hj)

end Pygom.Loss
