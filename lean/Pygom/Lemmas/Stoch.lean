/-
Helper lemmas about the stochastic model (Pygom/Stoch.lean): vector components, first-reaction and
tau-leap steps, the safety loop, minima, the `_jump` loop, index lookup and histogram sums.
-/
import Pygom.Stoch
import Mathlib.Algebra.Order.Field.Rat
import Mathlib.Tactic

set_option linter.unusedSimpArgs false
set_option linter.unnecessarySeqFocus false
set_option linter.unusedVariables false

namespace Pygom.Stoch

/-! ### vectors -/

theorem vadd_length (x y : Vec) : (vadd x y).length = x.length := by
  induction x generalizing y with
  | nil => simp [vadd]
  | cons a x ih => cases y <;> simp [vadd, ih]

theorem vadd_getD (x y : Vec) (s : Nat) (h : s < x.length) :
    (vadd x y).getD s 0 = x.getD s 0 + y.getD s 0 := by
  induction x generalizing y s with
  | nil => simp at h
  | cons a x ih =>
    cases y with
    | nil => simp [vadd]
    | cons b y =>
      cases s with
      | zero => simp [vadd]
      | succ s =>
        simp only [vadd, List.getD_cons_succ]
        exact ih y s (by simpa using h)

theorem vscale_getD (v : Vec) (n : Rat) (s : Nat) : (vscale v n).getD s 0 = v.getD s 0 * n := by
  simp only [vscale, List.getD_eq_getElem?_getD, List.getElem?_map]
  cases v[s]? <;> simp

theorem mulVec_nil_left (counts : List Nat) (s : Nat) : mulVec [] counts s = 0 := by simp [mulVec]
theorem mulVec_nil_right (cols : List Vec) (s : Nat) : mulVec cols [] s = 0 := by simp [mulVec]
theorem mulVec_cons (c : Vec) (cols : List Vec) (n : Nat) (counts : List Nat) (s : Nat) :
    mulVec (c :: cols) (n :: counts) s = c.getD s 0 * (n : Rat) + mulVec cols counts s := by
  simp [mulVec]

theorem applyCounts_fold_length (l : List (Vec × Nat)) (x : Vec) :
    (l.foldl (fun acc cn => vadd acc (vscale cn.1 (cn.2 : Rat))) x).length = x.length := by
  induction l generalizing x with
  | nil => simp
  | cons a l ih => simp [List.foldl_cons, ih, vadd_length]

theorem applyCounts_length (x : Vec) (cols : List Vec) (counts : List Nat) :
    (applyCounts x cols counts).length = x.length := applyCounts_fold_length _ _

theorem applyCounts_getD (x : Vec) (cols : List Vec) (counts : List Nat) (s : Nat) (h : s < x.length) :
    (applyCounts x cols counts).getD s 0 = x.getD s 0 + mulVec cols counts s := by
  unfold applyCounts mulVec
  generalize cols.zip counts = l
  induction l generalizing x with
  | nil => simp
  | cons a l ih =>
    simp only [List.foldl_cons, List.map_cons, List.sum_cons]
    rw [ih (vadd x (vscale a.1 (a.2 : Rat))) (by rw [vadd_length]; exact h), vadd_getD _ _ _ h, vscale_getD]
    ring

theorem mulVec_replicate_zero (cols : List Vec) (m s : Nat) : mulVec cols (List.replicate m 0) s = 0 := by
  induction cols generalizing m with
  | nil => simp [mulVec]
  | cons c cols ih =>
    cases m with
    | zero => simp [mulVec]
    | succ m => simp [List.replicate_succ, mulVec_cons, ih]

/-- `V · onehot(k)` is column `k` -/
theorem mulVec_onehot (cols : List Vec) (n k s : Nat) (hk : k < n) :
    mulVec cols (onehot n k) s = (cols.getD k []).getD s 0 := by
  induction cols generalizing n k with
  | nil => simp [mulVec]
  | cons c cols ih =>
    cases n with
    | zero => omega
    | succ n =>
      cases k with
      | zero => simp [onehot, List.replicate_succ, mulVec_cons, mulVec_replicate_zero]
      | succ k =>
        have : onehot (n + 1) (k + 1) = 0 :: onehot n k := by simp [onehot, List.replicate_succ]
        rw [this, mulVec_cons, ih n k (by omega)]; simp

theorem onehot_length (n k : Nat) : (onehot n k).length = n := by simp [onehot]

/-! ### limits -/

theorem violates_false_iff (l : Lim) (v : Rat) : violates l v = false ↔ okLim l v := by
  obtain ⟨lo, hi⟩ := l
  cases lo <;> cases hi <;> simp [violates, okLim, not_lt]

theorem failedJump_false_iff (lims : List Lim) (x : Vec) : failedJump lims x = false ↔ Within lims x := by
  induction lims generalizing x with
  | nil => simp [failedJump, Within]
  | cons l ls ih =>
    cases x with
    | nil => simp [failedJump, Within]
    | cons v vs =>
      simp only [failedJump, Bool.or_eq_false_iff, violates_false_iff, ih]
      constructor
      · rintro ⟨h1, h2⟩ i l' v' hl hv
        cases i with
        | zero => simp at hl hv; subst hl hv; exact h1
        | succ i => simp at hl hv; exact h2 i l' v' hl hv
      · intro h
        exact ⟨h 0 l v (by simp) (by simp), fun i l' v' hl hv => h (i+1) l' v' (by simpa using hl) (by simpa using hv)⟩

/-! ### first reaction -/

theorem argminOpt_mem {l : List (Option Rat)} {k : Nat} {a : Rat} (h : argminOpt l = some (k, a)) :
    l[k]? = some (some a) := by
  induction l generalizing k a with
  | nil => simp [argminOpt] at h
  | cons t ts ih =>
    unfold argminOpt at h
    cases hr : argminOpt ts with
    | none =>
      cases t with
      | none => simp [hr] at h
      | some b => simp [hr] at h; obtain ⟨rfl, rfl⟩ := h; simp
    | some p =>
      obtain ⟨i, b⟩ := p
      cases t with
      | none => simp [hr] at h; obtain ⟨rfl, rfl⟩ := h; simpa using ih hr
      | some c =>
        simp only [hr] at h
        split at h
        · simp at h; obtain ⟨rfl, rfl⟩ := h; simp
        · simp at h; obtain ⟨rfl, rfl⟩ := h; simpa using ih hr

/-- the selected time is minimal, and strictly smaller than every earlier entry (first argmin) -/
theorem argminOpt_min {l : List (Option Rat)} {k : Nat} {a : Rat} (h : argminOpt l = some (k, a)) :
    (∀ (j : Nat) (b : Rat), l[j]? = some (some b) → a ≤ b) ∧ (∀ (j : Nat) (b : Rat), j < k → l[j]? = some (some b) → a < b) := by
  induction l generalizing k a with
  | nil => simp [argminOpt] at h
  | cons t ts ih =>
    unfold argminOpt at h
    cases hr : argminOpt ts with
    | none =>
      have hnone : ∀ (j : Nat) (b : Rat), ts[j]? = some (some b) → False := by
        intro j b hj
        clear h ih
        induction ts generalizing j with
        | nil => simp at hj
        | cons u us ihu =>
          unfold argminOpt at hr
          cases hu : argminOpt us with
          | none =>
            cases u with
            | none =>
              cases j with
              | zero => simp at hj
              | succ j => exact ihu hu j (by simpa using hj)
            | some c => simp [hu] at hr
          | some p =>
            obtain ⟨i, c⟩ := p
            cases u with
            | none => simp [hu] at hr
            | some d => simp only [hu] at hr; split at hr <;> simp at hr
      cases t with
      | none => simp [hr] at h
      | some b =>
        simp [hr] at h; obtain ⟨rfl, rfl⟩ := h
        constructor
        · intro j c hj
          cases j with
          | zero => simp at hj; subst hj; exact le_refl _
          | succ j => exact (hnone j c (by simpa using hj)).elim
        · intro j c hj; omega
    | some p =>
      obtain ⟨i, b⟩ := p
      obtain ⟨ih1, ih2⟩ := ih hr
      cases t with
      | none =>
        simp [hr] at h; obtain ⟨rfl, rfl⟩ := h
        constructor
        · intro j c hj
          cases j with
          | zero => simp at hj
          | succ j => exact ih1 j c (by simpa using hj)
        · intro j c hj hjc
          cases j with
          | zero => simp at hjc
          | succ j => exact ih2 j c (by omega) (by simpa using hjc)
      | some c =>
        simp only [hr] at h
        split at h
        · rename_i hle
          simp at h; obtain ⟨rfl, rfl⟩ := h
          constructor
          · intro j d hj
            cases j with
            | zero => simp at hj; subst hj; exact le_refl _
            | succ j => exact le_trans hle (ih1 j d (by simpa using hj))
          · intro j d hj; omega
        · rename_i hnle
          simp at h; obtain ⟨rfl, rfl⟩ := h
          have hlt : b < c := lt_of_not_ge hnle
          constructor
          · intro j d hj
            cases j with
            | zero => simp at hj; subst hj; exact le_of_lt hlt
            | succ j => exact ih1 j d (by simpa using hj)
          · intro j d hj hjd
            cases j with
            | zero => simp at hjd; subst hjd; exact hlt
            | succ j => exact ih2 j d (by omega) (by simpa using hjd)

theorem newJumpTimes_spec {rates expo : List Rat} {jt : List (Option Rat)} (h : newJumpTimes rates expo = some jt) :
    jt.length = rates.length ∧
    ∀ (k : Nat) (d : Rat), jt[k]? = some (some d) → d ∈ expo ∧ ∃ r, rates[k]? = some r ∧ 0 < r := by
  induction rates generalizing expo jt with
  | nil => simp [newJumpTimes] at h; subst h; simp
  | cons r rs ih =>
    unfold newJumpTimes at h
    split at h
    · rename_i hr
      cases expo with
      | nil => simp at h
      | cons d ds =>
        simp only [Option.map_eq_some_iff] at h
        obtain ⟨ts, hts, rfl⟩ := h
        obtain ⟨hl, hm⟩ := ih hts
        refine ⟨by simp [hl], ?_⟩
        intro k e hk
        cases k with
        | zero => simp at hk; subst hk; exact ⟨by simp, r, by simp, hr⟩
        | succ k =>
          obtain ⟨h1, h2⟩ := hm k e (by simpa using hk)
          exact ⟨List.mem_cons_of_mem _ h1, by simpa using h2⟩
    · simp only [Option.map_eq_some_iff] at h
      obtain ⟨ts, hts, rfl⟩ := h
      obtain ⟨hl, hm⟩ := ih hts
      refine ⟨by simp [hl], ?_⟩
      intro k e hk
      cases k with
      | zero => simp at hk
      | succ k =>
        obtain ⟨h1, h2⟩ := hm k e (by simpa using hk)
        exact ⟨h1, by simpa using h2⟩

/-- a first-reaction step that reaches `_checkJump`: which event, which waiting time -/
theorem firstReaction_checked {cols : List Vec} {rates : List Rat} {lims : List Lim} {x : Vec} {t : Rat}
    {expo : List Rat} {r : StepRes} (h : firstReaction cols rates lims x t expo = .checked r) :
    allZero rates = false ∧ ∃ k dt, k < rates.length ∧ dt ∈ expo ∧ (∃ rk, rates[k]? = some rk ∧ 0 < rk) ∧
      r = checkJump x (updateStateWithJump x cols k 1) lims t dt (onehot rates.length k) := by
  unfold firstReaction at h
  split at h
  · simp at h
  · rename_i hz
    split at h
    · simp at h
    · rename_i jt hjt
      split at h
      · simp at h
      · rename_i k dt harg
        simp only [Outcome.checked.injEq] at h
        obtain ⟨hl, hm⟩ := newJumpTimes_spec hjt
        have hmem := argminOpt_mem harg
        obtain ⟨hd, hr⟩ := hm k dt hmem
        have hk : k < rates.length := by
          rw [← hl]
          by_contra hge
          rw [List.getElem?_eq_none (by omega)] at hmem
          simp at hmem
        exact ⟨by simpa using hz, k, dt, hk, hd, hr, h.symm⟩

/-! ### minima and the adaptive step -/

theorem foldl_min_pos (as : List Rat) (m : Rat) (hm : 0 < m) (h : ∀ b ∈ as, 0 < b) :
    0 < as.foldl (fun m b => if b < m then b else m) m := by
  induction as generalizing m with
  | nil => simpa
  | cons a as ih =>
    simp only [List.foldl_cons]
    apply ih
    · split
      · exact h a (by simp)
      · exact hm
    · intro b hb; exact h b (by simp [hb])

theorem minList_pos (l : List Rat) (hne : l ≠ []) (h : ∀ a ∈ l, 0 < a) : 0 < minList l := by
  cases l with
  | nil => exact absurd rfl hne
  | cons a as =>
    unfold minList
    exact foldl_min_pos as a (h a (by simp)) (fun b hb => h b (by simp [hb]))

theorem rabs_pos {q : Rat} (h : q ≠ 0) : 0 < rabs q := by
  unfold rabs
  split
  · linarith
  · rename_i hq
    exact lt_of_le_of_ne (not_lt.mp hq) (Ne.symm h)

theorem sum_pos_of_nonneg (rates : List Rat) (hr : ∀ r ∈ rates, 0 ≤ r) (hnz : allZero rates = false) :
    0 < rates.sum := by
  induction rates with
  | nil => simp [allZero] at hnz
  | cons a as ih =>
    simp only [List.sum_cons]
    have ha : 0 ≤ a := hr a (by simp)
    have has : 0 ≤ as.sum := List.sum_nonneg (fun r h => hr r (by simp [h]))
    by_cases h0 : a = 0
    · have : allZero as = false := by
        simp only [allZero, List.all_cons, h0, decide_true, Bool.true_and] at hnz
        simpa [allZero] using hnz
      have := ih (fun r h => hr r (by simp [h])) this
      linarith
    · have : 0 < a := lt_of_le_of_ne ha (Ne.symm h0)
      linarith

/-! ### the safety loop never shrinks the step with the loss matrix the code builds -/

theorem lossMat_zero (react : List (List Int)) (h : ∀ col ∈ react, ∀ v ∈ col, v = 0 ∨ v = 1) :
    ∀ col ∈ lossMat react, ∀ v ∈ col, v = 0 := by
  intro col hcol v hv
  simp only [lossMat, List.mem_map] at hcol
  obtain ⟨c0, hc0, rfl⟩ := hcol
  simp only [List.mem_map] at hv
  obtain ⟨w, hw, rfl⟩ := hv
  rcases h c0 hc0 w hw with rfl | rfl <;> simp

theorem safetyCdf_one (pdtr : Int → Rat → Rat) (x : Vec) (loss : List (List Int)) (rates : List Rat) (tau : Rat)
    (h : ∀ col ∈ loss, ∀ v ∈ col, v = 0) : safetyCdf pdtr x loss rates tau = 1 := by
  unfold safetyCdf
  generalize (1 : Rat) = c
  induction loss generalizing rates c with
  | nil => simp
  | cons col loss ih =>
    cases rates with
    | nil => simp
    | cons r rates =>
      simp only [List.zip_cons_cons, List.foldl_cons]
      have hinner : ∀ (x : Vec) (c : Rat), (col.zip x).foldl (fun cdf ex =>
          if ex.1 = 1 then (let c' := pdtr ex.2.floor (r * tau); if c' < cdf then c' else cdf) else cdf) c = c := by
        have hcol : ∀ v ∈ col, v = 0 := h col (by simp)
        clear ih h
        induction col with
        | nil => intro x c; simp
        | cons e col ihc =>
          intro x c
          cases x with
          | nil => simp
          | cons xj x =>
            have he : e = 0 := hcol e (by simp)
            simp only [List.zip_cons_cons, List.foldl_cons, he]
            simpa using ihc (fun v hv => hcol v (by simp [hv])) x c
      rw [hinner]
      exact ih rates (fun col' hc => h col' (by simp [hc])) c

theorem safetyLoop_noop (pdtr : Int → Rat → Rat) (x : Vec) (loss : List (List Int)) (rates : List Rat) (eps tau : Rat)
    (fuel : Nat) (h : ∀ col ∈ loss, ∀ v ∈ col, v = 0) (heps : 0 ≤ eps) :
    safetyLoop pdtr x loss rates eps (fuel + 1) 0 tau = some tau := by
  simp only [safetyLoop, safetyCdf_one pdtr x loss rates tau h, sub_self]
  rw [if_neg (not_lt.mpr heps)]
  simp

/-! ### one iteration of the `_jump` loop -/

theorem checkJump_success {x xNew : Vec} {lims : List Lim} {t dt : Rat} {counts : List Nat}
    (h : (checkJump x xNew lims t dt counts).success = true) :
    failedJump lims xNew = false ∧ checkJump x xNew lims t dt counts = ⟨t + dt, dt, xNew, counts, true⟩ := by
  unfold checkJump at h ⊢
  split at h
  · simp at h
  · rename_i hf
    simp only [Bool.not_eq_true] at hf
    exact ⟨hf, by simp [hf]⟩

theorem checkJump_failure {x xNew : Vec} {lims : List Lim} {t dt : Rat} {counts : List Nat}
    (h : (checkJump x xNew lims t dt counts).success = false) :
    failedJump lims xNew = true ∧ checkJump x xNew lims t dt counts = ⟨t, dt, x, counts, false⟩ := by
  unfold checkJump at h ⊢
  split at h
  · rename_i hf; exact ⟨hf, by simp [hf]⟩
  · simp at h

theorem ofFirst_next {b : Branch} {o : Outcome} {r : Rec} (h : ofFirst b o = .next r) :
    ∃ sr, o = .checked sr ∧ sr.success = true ∧ r = ⟨sr.x, sr.t, sr.counts, sr.dt, b⟩ := by
  cases o with
  | checked sr =>
    simp only [ofFirst] at h
    split at h
    · rename_i hs
      simp only [IterOut.next.injEq] at h
      exact ⟨sr, rfl, hs, h.symm⟩
    · simp at h
  | _ => simp [ofFirst] at h

/-- hypotheses about the user's settings under which every step has a positive duration -/
structure GoodSettings (s : Settings) : Prop where
  eps_pos : 0 < s.eps
  react01 : ∀ col ∈ s.react, ∀ v ∈ col, v = 0 ∨ v = 1
  preTau_pos : ∀ p, s.preTau = some p → 0 < p

/-- hypotheses about the evaluated rates: non-negative, and so are the variances `Σ_j F_ij² a_j` -/
structure GoodEval (e : Eval) : Prop where
  rates_nonneg : ∀ r ∈ e.rates, 0 ≤ r
  sigma2_nonneg : ∀ v ∈ e.sigma2, 0 ≤ v

/-- C04 `adaptiveTau_pos`: the adaptive step is positive when `ε > 0` and some rate is positive -/
theorem adaptiveTau_pos {eps : Rat} {rates mu sigma2 : List Rat} (heps : 0 < eps)
    (hr : ∀ r ∈ rates, 0 ≤ r) (hnz : allZero rates = false) (hs : ∀ v ∈ sigma2, 0 ≤ v) :
    0 < adaptiveTau eps rates mu sigma2 := by
  have hb : 0 < eps * rates.sum := mul_pos heps (sum_pos_of_nonneg rates hr hnz)
  have hmu : ∀ a ∈ (mu.filter (fun m => decide (m ≠ 0))).map (fun m => eps * rates.sum / rabs m), 0 < a := by
    intro a ha
    simp only [List.mem_map, List.mem_filter, decide_eq_true_eq] at ha
    obtain ⟨m, ⟨_, hm0⟩, rfl⟩ := ha
    exact div_pos hb (rabs_pos hm0)
  have hs2 : ∀ a ∈ (sigma2.filter (fun v => decide (v ≠ 0))).map (fun v => eps * rates.sum * (eps * rates.sum) / v), 0 < a := by
    intro a ha
    simp only [List.mem_map, List.mem_filter, decide_eq_true_eq] at ha
    obtain ⟨v, ⟨hv, hv0⟩, rfl⟩ := ha
    exact div_pos (mul_pos hb hb) (lt_of_le_of_ne (hs v hv) (Ne.symm hv0))
  unfold adaptiveTau
  simp only
  generalize mu.filter (fun m => decide (m ≠ 0)) = M at hmu ⊢
  generalize sigma2.filter (fun v => decide (v ≠ 0)) = S at hs2 ⊢
  cases M with
  | nil =>
    cases S with
    | nil => simp
    | cons b S =>
      simp only [List.isEmpty_nil, List.isEmpty_cons, Bool.and_false, Bool.false_eq_true, if_false, if_true]
      exact minList_pos _ (by simp) hs2
  | cons a M =>
    cases S with
    | nil =>
      simp only [List.isEmpty_nil, List.isEmpty_cons, Bool.false_and, Bool.false_eq_true, if_false, if_true]
      exact minList_pos _ (by simp) hmu
    | cons b S =>
      simp only [List.isEmpty_cons, Bool.false_and, Bool.false_eq_true, if_false]
      split
      · exact minList_pos _ (by simp) hs2
      · exact minList_pos _ (by simp) hmu

theorem tauOf_pos {s : Settings} {e : Eval} {x : Vec} {tau : Rat} (hs : GoodSettings s) (he : GoodEval e)
    (hnz : allZero e.rates = false) (h : tauOf s e x = some tau) : 0 < tau := by
  unfold tauOf at h
  simp only at h
  rw [safetyLoop_noop _ _ _ _ _ _ 257 (lossMat_zero s.react hs.react01) (le_of_lt hs.eps_pos)] at h
  simp only [Option.some.injEq] at h
  subst h
  cases hp : s.preTau with
  | none => simpa using adaptiveTau_pos hs.eps_pos he.rates_nonneg hnz he.sigma2_nonneg
  | some p => simpa using hs.preTau_pos p hp

/-- what an accepted iteration recorded, seen from its pre-state `(x, t)` -/
structure StepSpec (s : Settings) (e : Eval) (exact : Bool) (x : Vec) (t : Rat) (i : IterIn) (r : Rec) : Prop where
  time : r.t = t + r.dt
  within : Within s.lims r.x
  len : r.x.length = x.length
  nonzero : allZero e.rates = false
  kind :
    (r.branch ≠ .tau ∧ ∃ k, k < e.rates.length ∧ r.dt ∈ i.expo ∧ (∃ rk, e.rates[k]? = some rk ∧ 0 < rk) ∧
        r.counts = onehot e.rates.length k ∧ r.x = updateStateWithJump x e.cols k 1)
    ∨ (r.branch = .tau ∧ exact = false ∧ tauOf s e x = some r.dt ∧ r.counts = i.pois.take e.rates.length ∧
        e.rates.length ≤ i.pois.length ∧
        r.x = vadd (applyCounts x e.cols r.counts) (vscale e.pure r.dt))
  mode : (exact = true → r.branch = .exact) ∧ (exact = false → r.branch ≠ .exact)

theorem first_spec {s : Settings} {e : Eval} {exact : Bool} {x : Vec} {t : Rat} {i : IterIn} {r : Rec} {b : Branch}
    (hb : b ≠ .tau) (hm : (exact = true → b = .exact) ∧ (exact = false → b ≠ .exact))
    (h : ofFirst b (firstReaction e.cols e.rates s.lims x t i.expo) = .next r) : StepSpec s e exact x t i r := by
  obtain ⟨sr, hsr, hsucc, rfl⟩ := ofFirst_next h
  obtain ⟨hnz, k, dt, hk, hdt, hpos, rfl⟩ := firstReaction_checked hsr
  obtain ⟨hf, heq⟩ := checkJump_success hsucc
  rw [heq]
  refine ⟨rfl, (failedJump_false_iff _ _).mp hf, ?_, hnz, Or.inl ⟨hb, k, hk, hdt, hpos, rfl, rfl⟩, hm⟩
  simp [updateStateWithJump, vadd_length]

theorem iter_next_spec {s : Settings} {e : Eval} {exact : Bool} {x : Vec} {t : Rat} {i : IterIn} {r : Rec}
    (h : iter s e exact x t i = .next r) : StepSpec s e exact x t i r := by
  unfold iter at h
  split at h
  · rename_i hex
    exact first_spec (by decide) ⟨fun _ => rfl, fun h' => by simp [hex] at h'⟩ h
  · rename_i hex
    have hex' : exact = false := by simpa using hex
    split at h
    · rename_i sr htau
      split at h
      · rename_i hsucc
        simp only [IterOut.next.injEq] at h
        subst h
        -- accepted tau-leap
        unfold tauLeap at htau
        split at htau
        · simp at htau
        · rename_i hnz
          split at htau
          · simp at htau
          · rename_i tau htauOf
            split at htau
            · simp at htau
            · rename_i hlen
              simp only [Outcome.checked.injEq] at htau
              subst htau
              obtain ⟨hf, heq⟩ := checkJump_success hsucc
              rw [heq]
              refine ⟨rfl, (failedJump_false_iff _ _).mp hf, ?_, by simpa using hnz,
                Or.inr ⟨rfl, hex', htauOf, rfl, by omega, rfl⟩, ⟨fun h' => by simp [hex'] at h', fun _ => by simp⟩⟩
              simp [vadd_length, applyCounts_length]
      · exact first_spec (by decide) ⟨fun h' => by simp [hex'] at h', fun _ => by decide⟩ h
    · exact first_spec (by decide) ⟨fun h' => by simp [hex'] at h', fun _ => by decide⟩ h
    · simp at h
    · simp at h
    · simp at h

/-- every accepted iteration moves strictly forward in time -/
theorem iter_next_later {s : Settings} {e : Eval} {exact : Bool} {x : Vec} {t : Rat} {i : IterIn} {r : Rec}
    (hs : GoodSettings s) (he : GoodEval e) (hi : ∀ a ∈ i.expo, 0 < a)
    (h : iter s e exact x t i = .next r) : 0 < r.dt ∧ t < r.t := by
  have sp := iter_next_spec h
  have hdt : 0 < r.dt := by
    rcases sp.kind with ⟨_, k, _, hmem, _⟩ | ⟨_, _, htau, _⟩
    · exact hi _ hmem
    · exact tauOf_pos hs he sp.nonzero htau
  exact ⟨hdt, by rw [sp.time]; linarith⟩

/-- induction principle over the records of a run: a property of single iterations holds for every
step of the path, each seen from its own pre-state -/
theorem run_steps (c : Cfg) (exact : Bool) (P : Vec → Rat → Rec → Prop) (is : List IterIn)
    (hP : ∀ x t i r, i ∈ is → t < c.finalT → iter c.set (c.ev x t) exact x t i = .next r → P x t r)
    (x : Vec) (t : Rat) : Steps P x t (run c exact x t is) := by
  induction is generalizing x t with
  | nil => simp [run, Steps]
  | cons i is ih =>
    unfold run
    split
    · rename_i hlt
      split
      · simp [Steps]
      · rename_i r hstep
        exact ⟨hP x t i r (by simp) hlt hstep, ih (fun x t j r hj => hP x t j r (by simp [hj])) r.x r.t⟩
    · simp [Steps]

theorem Steps.mono {P Q : Vec → Rat → Rec → Prop} (h : ∀ x t r, P x t r → Q x t r) :
    ∀ (recs : List Rec) (x : Vec) (t : Rat), Steps P x t recs → Steps Q x t recs := by
  intro recs
  induction recs with
  | nil => intro x t _; trivial
  | cons r rs ih => intro x t hp; exact ⟨h _ _ _ hp.1, ih r.x r.t hp.2⟩

theorem Steps.mem {P : Vec → Rat → Rec → Prop} :
    ∀ (recs : List Rec) (x : Vec) (t : Rat), Steps P x t recs → ∀ r ∈ recs, ∃ x' t', P x' t' r := by
  intro recs
  induction recs with
  | nil => intro x t _ r hr; simp at hr
  | cons r rs ih =>
    intro x t hp r' hr'
    simp only [List.mem_cons] at hr'
    rcases hr' with rfl | hr'
    · exact ⟨x, t, hp.1⟩
    · exact ih r.x r.t hp.2 r' hr'

end Pygom.Stoch
