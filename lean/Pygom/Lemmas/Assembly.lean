/-
Helper lemmas for the assembly folds: value of a component after `addAt`/`subAt`, folds over
transitions and events.  Stated for an arbitrary field `K` and an arbitrary interpretation of the
transcendental symbols.
-/
import Pygom.Model
import Mathlib.Algebra.BigOperators.Group.List.Basic
import Mathlib.Algebra.Field.Basic
import Mathlib.Tactic.Ring
import Mathlib.Tactic.FieldSimp

set_option linter.unusedSimpArgs false
set_option linter.unnecessarySeqFocus false

namespace Pygom
open Expr

variable {K : Type} [Field K]

/-- value of component `k` of an expression vector (0 when out of range, like the zero-initialised
sympy matrix) -/
def comp (I : FnInterp K) (ρ : String → K) (acc : List Expr) (k : Nat) : K :=
  (acc[k]?.map (Expr.eval I ρ)).getD 0

@[simp] theorem eval_zero (I : FnInterp K) (ρ : String → K) : Expr.eval I ρ Expr.zero = 0 := by
  simp [Expr.zero, Expr.eval]

@[simp] theorem eval_one (I : FnInterp K) (ρ : String → K) : Expr.eval I ρ Expr.one = 1 := by
  simp [Expr.one, Expr.eval]

theorem comp_zeros (I : FnInterp K) (ρ : String → K) (n k : Nat) : comp I ρ (zeros n) k = 0 := by
  unfold comp zeros
  by_cases hk : k < n <;> simp [hk, List.getElem?_replicate]

theorem comp_addAt (I : FnInterp K) (ρ : String → K) (acc : List Expr) (i k : Nat) (e : Expr)
    (hi : i < acc.length) :
    comp I ρ (addAt acc i e) k = comp I ρ acc k + (if i = k then Expr.eval I ρ e else 0) := by
  unfold comp addAt
  by_cases h : i = k
  · subst h; simp [List.getElem?_modify, hi, Expr.eval]
  · simp [List.getElem?_modify, h]

theorem comp_subAt (I : FnInterp K) (ρ : String → K) (acc : List Expr) (i k : Nat) (e : Expr)
    (hi : i < acc.length) :
    comp I ρ (subAt acc i e) k = comp I ρ acc k - (if i = k then Expr.eval I ρ e else 0) := by
  unfold comp subAt
  by_cases h : i = k
  · subst h; simp [List.getElem?_modify, hi, Expr.eval]
  · simp [List.getElem?_modify, h]

@[simp] theorem length_addAt (acc : List Expr) (i) (e) : (addAt acc i e).length = acc.length := by simp [addAt]
@[simp] theorem length_subAt (acc : List Expr) (i) (e) : (subAt acc i e).length = acc.length := by simp [subAt]
@[simp] theorem length_zeros (n : Nat) : (zeros n).length = n := by simp [zeros]

/-- signed unit effect of a resolved transition on state `k` -/
def sgn (tr : RTrans) (k : Nat) : K :=
  match tr.ttype with
  | .B => if tr.dest = k then 1 else 0
  | .D => if tr.origin = k then -1 else 0
  | .T => (if tr.dest = k then 1 else 0) + (if tr.origin = k then -1 else 0)
  | .ODE => 0

/-- net signed magnitude of an event on state `k` -/
def net (I : FnInterp K) (ρ : String → K) (ev : REvent) (k : Nat) : K :=
  (ev.transitions.map (fun tr => sgn tr k * Expr.eval I ρ tr.magnitude)).sum

/-- indices in range -/
def RTrans.wf (n : Nat) (tr : RTrans) : Prop := tr.origin < n ∧ tr.dest < n

theorem length_transStep (rate : Expr) (acc : List Expr) (tr : RTrans) :
    (transStep rate acc tr).length = acc.length := by
  unfold transStep; cases tr.ttype <;> simp

theorem comp_transStep (I : FnInterp K) (ρ : String → K) (rate : Expr) (acc : List Expr) (tr : RTrans) (k : Nat)
    (h : tr.wf acc.length) :
    comp I ρ (transStep rate acc tr) k
      = comp I ρ acc k + Expr.eval I ρ rate * (sgn tr k * Expr.eval I ρ tr.magnitude) := by
  unfold transStep sgn
  cases hτ : tr.ttype <;> simp only []
  · rw [comp_addAt _ _ _ _ _ _ h.2]; by_cases hk : tr.dest = k <;> simp [hk, Expr.eval]; ring
  · rw [comp_subAt _ _ _ _ _ _ h.1]; by_cases hk : tr.origin = k <;> simp [hk, Expr.eval]; ring
  · rw [comp_addAt _ _ _ _ _ _ (by simpa using h.2), comp_subAt _ _ _ _ _ _ h.1]
    by_cases hk : tr.dest = k <;> by_cases hk' : tr.origin = k <;> simp [hk, hk', Expr.eval] <;> ring
  · simp

theorem comp_foldl_transStep (I : FnInterp K) (ρ : String → K) (rate : Expr) (trs : List RTrans)
    (acc : List Expr) (k : Nat) (h : ∀ tr ∈ trs, tr.wf acc.length) :
    comp I ρ (trs.foldl (transStep rate) acc) k
      = comp I ρ acc k + Expr.eval I ρ rate * (trs.map (fun tr => sgn tr k * Expr.eval I ρ tr.magnitude)).sum
    ∧ (trs.foldl (transStep rate) acc).length = acc.length := by
  induction trs generalizing acc with
  | nil => simp
  | cons tr trs ih =>
    simp only [List.foldl_cons, List.map_cons, List.sum_cons]
    have hwf := h tr (by simp)
    have := ih (transStep rate acc tr) (by
      intro t ht; rw [length_transStep]; exact h t (by simp [ht]))
    rw [this.1, this.2, comp_transStep I ρ _ _ _ _ hwf, length_transStep]
    exact ⟨by ring, rfl⟩

theorem comp_eventStep (I : FnInterp K) (ρ : String → K) (ev : REvent) (acc : List Expr) (k : Nat)
    (h : ∀ tr ∈ ev.transitions, tr.wf acc.length) :
    comp I ρ (eventStep acc ev) k = comp I ρ acc k + Expr.eval I ρ ev.rate * net I ρ ev k
    ∧ (eventStep acc ev).length = acc.length :=
  comp_foldl_transStep I ρ ev.rate ev.transitions acc k h

theorem comp_foldl_eventStep (I : FnInterp K) (ρ : String → K) (evs : List REvent) (acc : List Expr) (k : Nat)
    (h : ∀ ev ∈ evs, ∀ tr ∈ ev.transitions, tr.wf acc.length) :
    comp I ρ (evs.foldl eventStep acc) k
      = comp I ρ acc k + (evs.map (fun ev => Expr.eval I ρ ev.rate * net I ρ ev k)).sum
    ∧ (evs.foldl eventStep acc).length = acc.length := by
  induction evs generalizing acc with
  | nil => simp
  | cons ev evs ih =>
    simp only [List.foldl_cons, List.map_cons, List.sum_cons]
    have hev := comp_eventStep I ρ ev acc k (h ev (by simp))
    have := ih (eventStep acc ev) (by
      intro e he tr htr; rw [hev.2]; exact h e (by simp [he]) tr htr)
    rw [this.1, this.2, hev.1, hev.2]
    exact ⟨by ring, rfl⟩

/-- contribution of the explicit ODE terms to state `k` -/
def odeTerms (I : FnInterp K) (ρ : String → K) (odes : List (Nat × Expr)) (k : Nat) : K :=
  (odes.map (fun o => if o.1 = k then Expr.eval I ρ o.2 else 0)).sum

theorem comp_foldl_odeStep (I : FnInterp K) (ρ : String → K) (odes : List (Nat × Expr)) (acc : List Expr) (k : Nat)
    (h : ∀ o ∈ odes, o.1 < acc.length) :
    comp I ρ (odes.foldl odeStep acc) k = comp I ρ acc k + odeTerms I ρ odes k
    ∧ (odes.foldl odeStep acc).length = acc.length := by
  induction odes generalizing acc with
  | nil => simp [odeTerms]
  | cons o odes ih =>
    simp only [List.foldl_cons, odeTerms, List.map_cons, List.sum_cons]
    have ho := h o (by simp)
    have := ih (odeStep acc o) (by intro o' ho'; simp [odeStep]; exact h o' (by simp [ho']))
    rw [this.1, this.2]
    simp only [odeStep, comp_addAt I ρ acc o.1 k o.2 ho, length_addAt, odeTerms]
    exact ⟨by ring, trivial⟩

/-! state-change-matrix columns -/

theorem length_vcolStep (acc : List Expr) (tr : RTrans) : (vcolStep acc tr).length = acc.length := by
  unfold vcolStep; cases tr.ttype <;> simp

theorem comp_vcolStep (I : FnInterp K) (ρ : String → K) (acc : List Expr) (tr : RTrans) (k : Nat)
    (h : tr.wf acc.length) :
    comp I ρ (vcolStep acc tr) k = comp I ρ acc k + sgn tr k * Expr.eval I ρ tr.magnitude := by
  unfold vcolStep sgn
  cases hτ : tr.ttype <;> simp only []
  · rw [comp_addAt _ _ _ _ _ _ h.2]; by_cases hk : tr.dest = k <;> simp [hk]
  · rw [comp_subAt _ _ _ _ _ _ h.1]; by_cases hk : tr.origin = k <;> simp [hk]; ring
  · rw [comp_addAt _ _ _ _ _ _ (by simpa using h.2), comp_subAt _ _ _ _ _ _ h.1]
    by_cases hk : tr.dest = k <;> by_cases hk' : tr.origin = k <;> simp [hk, hk'] <;> ring
  · simp

theorem comp_foldl_vcolStep (I : FnInterp K) (ρ : String → K) (trs : List RTrans) (acc : List Expr) (k : Nat)
    (h : ∀ tr ∈ trs, tr.wf acc.length) :
    comp I ρ (trs.foldl vcolStep acc) k
      = comp I ρ acc k + (trs.map (fun tr => sgn tr k * Expr.eval I ρ tr.magnitude)).sum
    ∧ (trs.foldl vcolStep acc).length = acc.length := by
  induction trs generalizing acc with
  | nil => simp
  | cons tr trs ih =>
    simp only [List.foldl_cons, List.map_cons, List.sum_cons]
    have hwf := h tr (by simp)
    have := ih (vcolStep acc tr) (by intro t ht; rw [length_vcolStep]; exact h t (by simp [ht]))
    rw [this.1, this.2, comp_vcolStep I ρ _ _ _ hwf, length_vcolStep]
    exact ⟨by ring, rfl⟩

end Pygom
