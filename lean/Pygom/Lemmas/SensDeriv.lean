/-
Helper lemmas for C13 / C20: index arithmetic of the reshapes, `sumTo` as a `Finset` sum, sums with an
indicator, and the derivative of a finite sum of products (own copy: nothing here depends on C03).
-/
import Pygom.Sens
import Mathlib.Analysis.Calculus.Deriv.Mul
import Mathlib.Analysis.Calculus.Deriv.Add
import Mathlib.Algebra.BigOperators.Group.Finset.Basic
import Mathlib.Tactic

set_option linter.unusedSimpArgs false
set_option linter.unusedVariables false

namespace Pygom
namespace Sens

/-! ### index arithmetic -/

theorem idx_mod {n i : ℕ} (k : ℕ) (hi : i < n) : (k*n + i) % n = i := by
  rw [Nat.mul_add_mod_self_right]; exact Nat.mod_eq_of_lt hi

theorem idx_div {n i : ℕ} (k : ℕ) (hi : i < n) : (k*n + i) / n = k := by
  have h : 0 < n := by omega
  rw [Nat.add_comm, Nat.add_mul_div_right _ _ h, Nat.div_eq_of_lt hi]; simp

theorem idx_lt {n m i k : ℕ} (hi : i < n) (hk : k < m) : k*n + i < n*m := by
  calc k*n + i < k*n + n := by omega
    _ = (k+1)*n := by ring
    _ ≤ m*n := Nat.mul_le_mul_right _ hk
    _ = n*m := by ring

theorem div_lt_of_lt_mul' {n m r : ℕ} (h : r < n*m) : r / n < m := by
  have hn : 0 < n := by
    rcases Nat.eq_zero_or_pos n with h0 | h0
    · subst h0; simp at h
    · exact h0
  rw [Nat.div_lt_iff_lt_mul hn, Nat.mul_comm]; exact h

theorem pos_of_lt_mul {n m r : ℕ} (h : r < n*m) : 0 < n := by
  rcases Nat.eq_zero_or_pos n with h0 | h0
  · subst h0; simp at h
  · exact h0

/-! ### `sumTo` -/

theorem sumTo_eq_sum {M : Type} [AddCommMonoid M] (n : ℕ) (f : ℕ → M) :
    sumTo n f = ∑ l ∈ Finset.range n, f l := by
  induction n with
  | zero => simp [sumTo]
  | succ n ih => simp [sumTo, Finset.sum_range_succ, ih]

theorem sumTo_congr {M : Type} [Zero M] [Add M] (n : ℕ) (f g : ℕ → M) (h : ∀ l, l < n → f l = g l) :
    sumTo n f = sumTo n g := by
  induction n with
  | zero => rfl
  | succ n ih =>
    simp only [sumTo]
    rw [ih (fun l hl => h l (by omega)), h n (by omega)]

/-- a sum against an indicator picks one term -/
theorem sumTo_indicator {M : Type} [AddCommMonoid M] (n l0 : ℕ) (g : ℕ → M) :
    sumTo n (fun l => if l = l0 then g l else 0) = if l0 < n then g l0 else 0 := by
  induction n with
  | zero => simp [sumTo]
  | succ n ih =>
    simp only [sumTo, ih]
    by_cases h1 : l0 < n
    · have : n ≠ l0 := by omega
      simp [h1, this, Nat.lt_succ_of_lt h1]
    · by_cases h2 : n = l0
      · subst h2; simp
      · have : ¬ l0 < n + 1 := by omega
        simp [h1, h2, this]

/-! ### more `sumTo` algebra (commutative semiring entries) -/

theorem sumTo_zero {M : Type} [AddCommMonoid M] (n : ℕ) : sumTo n (fun _ => (0:M)) = 0 := by
  rw [sumTo_eq_sum]; simp

theorem sumTo_add {M : Type} [AddCommMonoid M] (p q : ℕ) (g : ℕ → M) :
    sumTo (p + q) g = sumTo p g + sumTo q (fun a => g (p + a)) := by
  induction q with
  | zero => simp [sumTo]
  | succ q ih => rw [← Nat.add_assoc]; simp only [sumTo]; rw [ih, add_assoc]

/-- a sum over `n*m` flat indices as a double sum (`l*m + a`) -/
theorem sumTo_mul {M : Type} [AddCommMonoid M] (n m : ℕ) (g : ℕ → M) :
    sumTo (n*m) g = sumTo n (fun l => sumTo m (fun a => g (l*m + a))) := by
  induction n with
  | zero => simp [sumTo]
  | succ n ih =>
    have : (n+1)*m = n*m + m := by ring
    rw [this, sumTo_add, ih]; simp only [sumTo]

theorem sumTo_succ' {M : Type} [AddCommMonoid M] (n : ℕ) (g : ℕ → M) :
    sumTo (n+1) g = g 0 + sumTo n (fun q => g (q+1)) := by
  have h := sumTo_add 1 n g
  rw [Nat.add_comm] at h
  rw [h]; simp [sumTo, Nat.add_comm]

theorem sumTo_add_fun {M : Type} [AddCommMonoid M] (n : ℕ) (f g : ℕ → M) :
    sumTo n (fun l => f l + g l) = sumTo n f + sumTo n g := by
  simp only [sumTo_eq_sum, Finset.sum_add_distrib]

theorem sumTo_mul_right {R : Type} [CommSemiring R] (n : ℕ) (f : ℕ → R) (c : R) :
    sumTo n (fun l => f l * c) = sumTo n f * c := by
  simp only [sumTo_eq_sum, Finset.sum_mul]

theorem sumTo_mul_left {R : Type} [CommSemiring R] (n : ℕ) (f : ℕ → R) (c : R) :
    sumTo n (fun l => c * f l) = c * sumTo n f := by
  simp only [sumTo_eq_sum, Finset.mul_sum]

/-! ### derivative of a finite sum -/

theorem hasDerivAt_sumTo (n : ℕ) (F : ℕ → ℝ → ℝ) (F' : ℕ → ℝ) (x : ℝ)
    (h : ∀ l, l < n → HasDerivAt (F l) (F' l) x) :
    HasDerivAt (fun v => sumTo n (fun l => F l v)) (sumTo n F') x := by
  induction n with
  | zero => simpa [sumTo] using hasDerivAt_const x (0:ℝ)
  | succ n ih =>
    simp only [sumTo]
    exact (ih (fun l hl => h l (by omega))).add (h n (by omega))

end Sens
end Pygom
