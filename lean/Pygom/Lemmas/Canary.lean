/-
Helper definitions and lemmas for C08 (recompile-flag state machine of `Pygom/Canary.lean`):
the invariant, its preservation by each kind of operation, and the core induction over histories.
Property theorems are in `Pygom/Props/C08.lean`.
-/
import Pygom.Canary

set_option linter.unusedSimpArgs false
set_option linter.unusedVariables false

namespace Pygom.C08
open Pygom Pygom.Canary

/-- a source variant in which the recompile mechanism is complete -/
structure Good (cfg : Cfg) : Prop where
  trips : ∀ k, cfg.trips k = true
  decl : cfg.declSetsSp = true

/-- an operation that cannot make a compiled closure stale under `cfg` -/
def okOp (cfg : Cfg) : Op → Bool
  | .mutate m => cfg.trips (mutKind m) && (cfg.declSetsSp || !(mutKind m).isDecl)
  | .setParams _ => true
  | .evaluate _ _ _ => true

/-- every evaluator called in the history is watched by the instance's canary -/
def evalsWatched (cfg : Cfg) : List Op → Prop
  | [] => True
  | .evaluate e _ _ :: ops => cfg.watched e = true ∧ evalsWatched cfg ops
  | _ :: ops => evalsWatched cfg ops

/-- **The invariant.**  `_sp` is current, and every watched evaluator whose flag is down holds a closure
compiled from the current definition and the current `_sp`. -/
def Inv (cfg : Cfg) (s : CState) : Prop :=
  s.sp = freshSp s.cur ∧
  ∀ n sn, cfg.watched n = true → s.flag n = false → s.snap n = some sn → sn.defn = s.cur ∧ sn.sp = s.sp

/-! ### mutators other than the declaration setters leave the symbol lists alone -/

theorem mkEvent_ok_addEvent_sp (m : ModelDef) (e : Event) : freshSp (addEvent m e) = freshSp m := rfl

theorem applyEventIn_sp {m d : ModelDef} {e : EventIn} (h : applyEventIn m e = .ok d) : freshSp d = freshSp m := by
  cases e with
  | ev rate trs =>
    simp only [applyEventIn, bind, Except.bind] at h
    split at h
    · cases h
    · split at h
      · cases h
      · simp only [pure, Except.pure, Except.ok.injEq] at h; subst h; rfl
  | tr t =>
    simp only [applyEventIn, addEventTransition, bind, Except.bind] at h
    split at h
    · cases h
    · split at h
      · cases h
      · simp only [pure, Except.pure, Except.ok.injEq] at h; subst h; rfl

theorem addTransition_sp {m d : ModelDef} {t : Transn} (h : addTransition m t = .ok d) : freshSp d = freshSp m := by
  unfold addTransition at h
  split at h
  · cases h
  · simp only [bind, Except.bind] at h
    split at h
    · cases h
    · split at h
      · cases h
      · simp only [pure, Except.pure, Except.ok.injEq] at h; subst h; rfl

theorem addBirthDeath_sp {m d : ModelDef} {t : Transn} (h : addBirthDeath m t = .ok d) : freshSp d = freshSp m := by
  unfold addBirthDeath at h
  split at h
  · simp only [bind, Except.bind] at h
    split at h
    · cases h
    · split at h
      · cases h
      · simp only [pure, Except.pure, Except.ok.injEq] at h; subst h; rfl
  · simp only [bind, Except.bind] at h
    split at h
    · cases h
    · split at h
      · cases h
      · simp only [pure, Except.pure, Except.ok.injEq] at h; subst h; rfl
  · cases h

theorem addOde_sp {m d : ModelDef} {t : Transn} (h : addOde m t = .ok d) : freshSp d = freshSp m := by
  unfold addOde at h
  split at h
  · cases h
  · simp only [Except.ok.injEq] at h; subst h; rfl

theorem applyMut_sp {m d : ModelDef} {mu : Mut} (h : applyMut m mu = .ok d) (hk : (mutKind mu).isDecl = false) :
    freshSp d = freshSp m := by
  cases mu with
  | addEvent e => exact applyEventIn_sp h
  | addTransition t =>
    simp only [applyMut, bind, Except.bind] at h
    split at h
    · cases h
    · exact addTransition_sp h
  | addBirthDeath t =>
    simp only [applyMut, bind, Except.bind] at h
    split at h
    · cases h
    · exact addBirthDeath_sp h
  | addOde t =>
    simp only [applyMut, bind, Except.bind] at h
    split at h
    · cases h
    · exact addOde_sp h
  | addDerived n e =>
    simp only [applyMut, pure, Except.pure, Except.ok.injEq] at h; subst h; rfl
  | addParams ns => simp [mutKind, MutKind.isDecl] at hk
  | addStates ns => simp [mutKind, MutKind.isDecl] at hk

/-! ### the invariant -/

/-! ### the invariant is preserved by each kind of operation -/

theorem inv_mutate (cfg : Cfg) (s : CState) (m : Mut) (h : Inv cfg s) (hok : okOp cfg (.mutate m) = true) :
    Inv cfg (mutate cfg s m).1 := by
  simp only [okOp, Bool.and_eq_true, Bool.or_eq_true, Bool.not_eq_true'] at hok
  obtain ⟨htrip, hdecl⟩ := hok
  unfold mutate
  split
  · exact h
  · rename_i d hd
    refine ⟨?_, ?_⟩
    · simp only
      by_cases hr : (cfg.declSetsSp && (mutKind m).isDecl) = true
      · simp [hr]
      · simp only [hr]
        have hk : (mutKind m).isDecl = false := by
          rcases hdecl with hd1 | hd2
          · simp [hd1] at hr; exact hr
          · exact hd2
        rw [applyMut_sp hd hk]; exact h.1
    · intro n sn hw hf
      simp only [htrip, if_true, tripAll, hw] at hf
      cases hf

theorem inv_setParams (cfg : Cfg) (s : CState) (vals : List Rat) (h : Inv cfg s) : Inv cfg (setParams s vals) := by
  refine ⟨rfl, ?_⟩
  intro n sn hw hf hs
  have := h.2 n sn hw hf hs
  exact ⟨this.1, by simp only [setParams]; rw [this.2, h.1]⟩

theorem inv_recompile (cfg : Cfg) (s : CState) (e : Ev) (h : Inv cfg s) : Inv cfg (recompile cfg s e).1 := by
  refine ⟨h.1, ?_⟩
  intro n sn hw hf hs
  simp only [recompile] at hf hs ⊢
  by_cases hn : n = e
  · simp only [hn, if_true, Option.some.injEq] at hs
    subst hs; exact ⟨rfl, rfl⟩
  · simp only [hn, if_false] at hf hs
    by_cases hm : cfg.master e = true
    · simp [hm, tripAll, hw] at hf
    · simp only [hm] at hf
      exact h.2 n sn hw hf hs

theorem inv_evalStep (cfg : Cfg) (s : CState) (e : Ev) (h : Inv cfg s) : Inv cfg (evalStep cfg s e).1 := by
  unfold evalStep
  split
  · exact inv_recompile cfg s e h
  · split
    · exact inv_recompile cfg s e h
    · exact h

theorem inv_step_aux (cfg : Cfg) (s : CState) (op : Op) (h : Inv cfg s) (hok : okOp cfg op = true) :
    Inv cfg (step cfg s op).1 := by
  cases op with
  | mutate m => exact inv_mutate cfg s m h hok
  | setParams vals => exact inv_setParams cfg s vals h
  | evaluate e x t => exact inv_evalStep cfg s e h

theorem okOp_of_good {cfg : Cfg} (hg : Good cfg) (op : Op) : okOp cfg op = true := by
  cases op with
  | mutate m => simp [okOp, hg.trips, hg.decl]
  | setParams vals => rfl
  | evaluate e x t => rfl

/-- under the invariant the closure that is called was compiled from the current definition and symbols -/
theorem evalStep_fresh (cfg : Cfg) (s : CState) (e : Ev) (h : Inv cfg s) (hw : cfg.watched e = true) :
    (evalStep cfg s e).2.1.defn = s.cur ∧ (evalStep cfg s e).2.1.sp = freshSp s.cur := by
  unfold evalStep
  split
  · exact ⟨rfl, h.1⟩
  · rename_i sn hs
    split
    · exact ⟨rfl, h.1⟩
    · rename_i hf
      have := h.2 e sn hw (by simpa using hf) hs
      exact ⟨this.1, by rw [this.2, h.1]⟩

/-- core induction: from any state satisfying the invariant, a history of harmless operations only
produces fresh observations -/
theorem never_stale_from (cfg : Cfg) (ops : List Op) (s : CState) (h : Inv cfg s)
    (hok : ∀ op ∈ ops, okOp cfg op = true) (hw : evalsWatched cfg ops) :
    ∀ o ∈ run cfg s ops, o.fresh := by
  induction ops generalizing s with
  | nil => simp [run]
  | cons op ops ih =>
    have hinv' := inv_step_aux cfg s op h (hok op (by simp))
    have hok' : ∀ op' ∈ ops, okOp cfg op' = true := fun op' hm => hok op' (by simp [hm])
    cases op with
    | mutate m =>
      simp only [run, step]
      exact ih _ hinv' hok' hw
    | setParams vals =>
      simp only [run, step]
      exact ih _ hinv' hok' hw
    | evaluate e x t =>
      simp only [run, step, List.mem_cons]
      intro o ho
      rcases ho with rfl | ho
      · exact evalStep_fresh cfg s e h hw.1
      · exact ih _ hinv' hok' hw.2 o ho

/-- what a freshly constructed instance returns -/
theorem freshValue_eq {V} (cfg : Cfg) (sem : Sem V) (d : ModelDef) (pv : List Rat) (e : Ev) (x : List Rat) (t : Rat) :
    freshValue cfg sem d pv e x t = sem e d (freshSp d) (x ++ [t] ++ pv) := by
  simp [freshValue, evalStep, cinit, recompile]

theorem value_of_fresh {V} (cfg : Cfg) (sem : Sem V) (o : Obs) (h : o.fresh) :
    o.value sem = freshValue cfg sem o.cur o.pvals o.ev o.x o.t := by
  rw [freshValue_eq]; unfold Obs.value; rw [h.1, h.2]

/-! ### two live instances: per-instance flag stores do not interact -/

theorem mem_obsOf {w : Who} {o : Obs} {os : List (Who × Obs)} (h : (w, o) ∈ os) : o ∈ obsOf w os := by
  unfold obsOf
  rw [List.mem_filterMap]
  exact ⟨(w, o), h, by simp⟩

/-- with one flag store per canary object (`shared = false`) the observations an instance makes in ANY interleaving
with operations on the other instance are those of its own operations run alone -/
theorem obsOf_prun (cfg : Cfg) (ops : List (Who × Op)) (p : PState) :
    obsOf .A (prun cfg false p ops) = run cfg p.a (opsOf .A ops) ∧
    obsOf .B (prun cfg false p ops) = run cfg p.b (opsOf .B ops) := by
  induction ops generalizing p with
  | nil => exact ⟨rfl, rfl⟩
  | cons wo ops ih =>
    obtain ⟨w, op⟩ := wo
    cases w with
    | A =>
      have ih' := ih (pstep cfg false p (.A, op)).1
      simp only [pstep, Bool.false_eq_true, if_false] at ih'
      simp only [prun, pstep, Bool.false_eq_true, if_false, opsOf, List.filterMap_cons, if_true, run]
      cases hr : (step cfg p.a op).2 with
      | none =>
        simp only [hr] at ih' ⊢
        exact ⟨by simpa [obsOf, opsOf] using ih'.1, by simpa [obsOf, opsOf] using ih'.2⟩
      | some o =>
        simp only [hr] at ih' ⊢
        refine ⟨?_, ?_⟩
        · have := ih'.1
          simp only [obsOf, opsOf, List.filterMap_cons, if_true] at this ⊢
          rw [this]
        · have := ih'.2
          simp only [obsOf, opsOf, List.filterMap_cons] at this ⊢
          simpa using this
    | B =>
      have ih' := ih (pstep cfg false p (.B, op)).1
      simp only [pstep, Bool.false_eq_true, if_false] at ih'
      simp only [prun, pstep, Bool.false_eq_true, if_false, opsOf, List.filterMap_cons, if_true, run]
      cases hr : (step cfg p.b op).2 with
      | none =>
        simp only [hr] at ih' ⊢
        exact ⟨by simpa [obsOf, opsOf] using ih'.1, by simpa [obsOf, opsOf] using ih'.2⟩
      | some o =>
        simp only [hr] at ih' ⊢
        refine ⟨?_, ?_⟩
        · have := ih'.1
          simp only [obsOf, opsOf, List.filterMap_cons] at this ⊢
          simpa using this
        · have := ih'.2
          simp only [obsOf, opsOf, List.filterMap_cons, if_true] at this ⊢
          rw [this]

theorem evalsWatched_opsOf (cfg : Cfg) (w : Who) (ops : List (Who × Op))
    (h : ∀ wo ∈ ops, ∀ e x t, wo.2 = Op.evaluate e x t → cfg.watched e = true) : evalsWatched cfg (opsOf w ops) := by
  induction ops with
  | nil => trivial
  | cons wo ops ih =>
    have ih' := ih (fun wo' hm => h wo' (by simp [hm]))
    obtain ⟨w', op⟩ := wo
    by_cases hw : w' = w
    · simp only [opsOf, List.filterMap_cons, hw, if_true]
      cases op with
      | mutate m => exact ih'
      | setParams v => exact ih'
      | evaluate e x t => exact ⟨h (w', .evaluate e x t) (by simp) e x t rfl, ih'⟩
    · simp only [opsOf, List.filterMap_cons, hw, if_false]
      exact ih'

/-! ### prefixes without evaluations -/

def noEval : List Op → Prop
  | [] => True
  | .evaluate _ _ _ :: _ => False
  | _ :: ops => noEval ops

/-- declaration setters in the prefix are harmless when they refresh `_sp`, or when absent -/
def declOk (cfg : Cfg) : List Op → Prop
  | [] => True
  | .mutate m :: ops => (cfg.declSetsSp = true ∨ (mutKind m).isDecl = false) ∧ declOk cfg ops
  | _ :: ops => declOk cfg ops

theorem run_append (cfg : Cfg) (pre post : List Op) (s : CState) :
    run cfg s (pre ++ post) = run cfg s pre ++ run cfg (runState cfg s pre) post := by
  induction pre generalizing s with
  | nil => rfl
  | cons op pre ih =>
    simp only [List.cons_append, run, runState]
    split <;> simp [ih]

theorem prefix_no_eval (cfg : Cfg) (pre : List Op) (s : CState) (hne : noEval pre) (hd : declOk cfg pre)
    (hsp : s.sp = freshSp s.cur) (hsn : ∀ n, s.snap n = none) :
    run cfg s pre = [] ∧ (runState cfg s pre).sp = freshSp (runState cfg s pre).cur
      ∧ ∀ n, (runState cfg s pre).snap n = none := by
  induction pre generalizing s with
  | nil => exact ⟨rfl, hsp, hsn⟩
  | cons op pre ih =>
    cases op with
    | evaluate e x t => exact absurd hne (by simp [noEval])
    | setParams vals =>
      simp only [run, runState, step]
      exact ih (setParams s vals) hne hd rfl hsn
    | mutate m =>
      simp only [run, runState, step]
      refine ih (mutate cfg s m).1 hne hd.2 ?_ ?_
      · unfold mutate
        split
        · exact hsp
        · rename_i d hd'
          simp only
          by_cases hr : (cfg.declSetsSp && (mutKind m).isDecl) = true
          · simp [hr]
          · simp only [hr]
            have hk : (mutKind m).isDecl = false := by
              rcases hd.1 with h1 | h2
              · simp [h1] at hr; exact hr
              · exact h2
            rw [applyMut_sp hd' hk]; exact hsp
      · intro n
        unfold mutate
        split
        · exact hsn n
        · exact hsn n

/-! ### version numbers -/

def VInv (s : CState) : Prop := ∀ n sn, s.snap n = some sn → sn.ver ≤ s.ver ∧ (sn.ver = s.ver → sn.defn = s.cur)

theorem vinv_step (cfg : Cfg) (s : CState) (op : Op) (h : VInv s) : VInv (step cfg s op).1 := by
  cases op with
  | mutate m =>
    simp only [step]; unfold mutate
    split
    · exact h
    · intro n sn hs
      have := h n sn hs
      exact ⟨Nat.le_succ_of_le this.1, fun he => absurd he (by simp only; omega)⟩
  | setParams vals => exact h
  | evaluate e x t =>
    simp only [step]; unfold evalStep
    have hr : VInv (recompile cfg s e).1 := by
      intro n sn hs
      simp only [recompile] at hs ⊢
      by_cases hn : n = e
      · simp only [hn, if_true, Option.some.injEq] at hs; subst hs; exact ⟨Nat.le_refl _, fun _ => rfl⟩
      · simp only [hn, if_false] at hs; exact h n sn hs
    split
    · exact hr
    · split
      · exact hr
      · exact h

end Pygom.C08
