/-
Helper lemmas for C02 (row bookkeeping of `integrateFuncJac`): the laws assumed of the ideal flow, the loop
invariant of the value-read / full-output paths (`Good`, `step_good`, `fold_good`) and of the aliased
single-integrator path (`fold_aliased`).
-/
import Pygom.Integrate

set_option linter.unusedSimpArgs false
set_option linter.unusedVariables false

namespace Pygom.C02
open Pygom

variable {T X : Type}

/-- the laws of an (ideal) flow: identity and semigroup -/
structure Laws (S : Sys T X) : Prop where
  id : ∀ t x, S.flow t t x = x
  comp : ∀ t2 t1 t0 x, S.flow t2 t1 (S.flow t1 t0 x) = S.flow t2 t0 x

/-- the integrator used when `full_output=False` (method None means 'lsoda') -/
def startIntegrator (method : Option String) : Integrator := setupIntegrator (some (method.getD "lsoda"))



theorem deref_setBuf (store : Nat → X) (id : Nat) (v : X) (cells : List (Cell X))
    (h : ∀ c ∈ cells, ∀ j, c = Cell.bufRef j → j ≠ id) :
    cells.map (derefCell (setBuf store id v)) = cells.map (derefCell store) := by
  apply List.map_congr_left
  intro c hc
  cases c with
  | val x => rfl
  | bufRef j => simp [derefCell, setBuf, h _ hc j rfl]

/-- invariant of the loop on the paths where every appended cell resolves to the value it had when read -/
structure Good (S : Sys T X) (c : ICfg) (x0 : X) (t0 : T) (s : LState T X) : Prop where
  cur : s.store s.r.id = S.flow s.r.t t0 x0
  old : ∀ cl ∈ s.cells, ∀ j, cl = Cell.bufRef j → j < s.r.id
  fresh : s.r.id < s.nextId
  safe : c.fullOutput = true ∨ (c.aliased s.r.integ && !c.copyOnRead) = false

theorem step_good (S : Sys T X) (L : Laws S) (c : ICfg) (x0 : X) (t0 : T) (s : LState T X)
    (g : Good S c x0 t0 s) (dt : T) :
    Good S c x0 t0 (loopStep S c s dt) ∧
    (loopStep S c s dt).cells.map (derefCell (loopStep S c s dt).store)
      = S.flow dt t0 x0 :: s.cells.map (derefCell s.store) := by
  have hy : S.flow dt s.r.t (s.store s.r.id) = S.flow dt t0 x0 := by rw [g.cur, L.comp]
  have hne : ∀ cl ∈ s.cells, ∀ j, cl = Cell.bufRef j → j ≠ s.r.id := fun cl h j e => Nat.ne_of_lt (g.old cl h j e)
  have hne2 : ∀ cl ∈ s.cells, ∀ j, cl = Cell.bufRef j → j ≠ s.nextId :=
    fun cl h j e => Nat.ne_of_lt (Nat.lt_trans (g.old cl h j e) g.fresh)
  by_cases hf : c.fullOutput = true
  · -- full-output path: the integrator is re-created from (o1, deltaT)
    by_cases ha : (c.aliased s.r.integ && !c.copyOnRead) = true
    · -- o1 is a reference to the retired integrator's buffer
      have hstep : loopStep S c s dt =
          { r := { t := dt, id := s.nextId,
                   integ := setupIntegrator (some (determineIntegrator (S.eig dt (S.flow dt t0 x0)).1 (S.eig dt (S.flow dt t0 x0)).2)) },
            store := setBuf (setBuf s.store s.r.id (S.flow dt t0 x0)) s.nextId (S.flow dt t0 x0),
            cells := Cell.bufRef s.r.id :: s.cells, nextId := s.nextId + 1,
            method := determineIntegrator (S.eig dt (S.flow dt t0 x0)).1 (S.eig dt (S.flow dt t0 x0)).2,
            trace := setupIntegrator (some (determineIntegrator (S.eig dt (S.flow dt t0 x0)).1 (S.eig dt (S.flow dt t0 x0)).2)) :: s.trace,
            evs := S.eig dt (S.flow dt t0 x0) :: s.evs } := by
        simp [loopStep, hf, readY, ha, hy, derefCell, setBuf]
      rw [hstep]
      refine ⟨⟨?_, ?_, ?_, Or.inl hf⟩, ?_⟩
      · simp [setBuf]
      · intro cl hcl j e
        simp only [List.mem_cons] at hcl
        rcases hcl with h | h
        · subst h; cases e; exact g.fresh
        · exact Nat.lt_trans (g.old cl h j e) g.fresh
      · simp
      · simp only [List.map_cons]
        rw [deref_setBuf _ _ _ _ hne2, deref_setBuf _ _ _ _ hne]
        have : s.r.id ≠ s.nextId := Nat.ne_of_lt g.fresh
        simp [derefCell, setBuf, this]
    · -- o1 is a value
      have ha' : (c.aliased s.r.integ && !c.copyOnRead) = false := by simpa using ha
      have hstep : loopStep S c s dt =
          { r := { t := dt, id := s.nextId,
                   integ := setupIntegrator (some (determineIntegrator (S.eig dt (S.flow dt t0 x0)).1 (S.eig dt (S.flow dt t0 x0)).2)) },
            store := setBuf (setBuf s.store s.r.id (S.flow dt t0 x0)) s.nextId (S.flow dt t0 x0),
            cells := Cell.val (S.flow dt t0 x0) :: s.cells, nextId := s.nextId + 1,
            method := determineIntegrator (S.eig dt (S.flow dt t0 x0)).1 (S.eig dt (S.flow dt t0 x0)).2,
            trace := setupIntegrator (some (determineIntegrator (S.eig dt (S.flow dt t0 x0)).1 (S.eig dt (S.flow dt t0 x0)).2)) :: s.trace,
            evs := S.eig dt (S.flow dt t0 x0) :: s.evs } := by
        simp [loopStep, hf, readY, ha', hy, derefCell, setBuf]
      rw [hstep]
      refine ⟨⟨?_, ?_, ?_, Or.inl hf⟩, ?_⟩
      · simp [setBuf]
      · intro cl hcl j e
        simp only [List.mem_cons] at hcl
        rcases hcl with h | h
        · subst h; cases e
        · exact Nat.lt_trans (g.old cl h j e) g.fresh
      · simp
      · simp only [List.map_cons]
        rw [deref_setBuf _ _ _ _ hne2, deref_setBuf _ _ _ _ hne]
        simp [derefCell]
  · -- single-integrator path with value reads
    have hf' : c.fullOutput = false := by simpa using hf
    have ha : (c.aliased s.r.integ && !c.copyOnRead) = false := by
      rcases g.safe with h | h
      · exact absurd h hf
      · exact h
    have hstep : loopStep S c s dt =
        { s with r := { s.r with t := dt }, store := setBuf s.store s.r.id (S.flow dt t0 x0),
                 cells := Cell.val (S.flow dt t0 x0) :: s.cells } := by
      simp [loopStep, hf', readY, ha, hy, setBuf]
    rw [hstep]
    refine ⟨⟨?_, ?_, g.fresh, Or.inr ha⟩, ?_⟩
    · simp [setBuf]
    · intro cl hcl j e
      simp only [List.mem_cons] at hcl
      rcases hcl with h | h
      · subst h; cases e
      · exact g.old cl h j e
    · simp only [List.map_cons]
      rw [deref_setBuf _ _ _ _ hne]
      simp [derefCell]

theorem fold_good (S : Sys T X) (L : Laws S) (c : ICfg) (x0 : X) (t0 : T) (ts : List T)
    (s : LState T X) (g : Good S c x0 t0 s) :
    (ts.foldl (loopStep S c) s).cells.map (derefCell (ts.foldl (loopStep S c) s).store)
      = (ts.map (fun t => S.flow t t0 x0)).reverse ++ s.cells.map (derefCell s.store) := by
  induction ts generalizing s with
  | nil => simp
  | cons t ts ih =>
    obtain ⟨g1, h1⟩ := step_good S L c x0 t0 s g t
    simp only [List.foldl_cons, List.map_cons, List.reverse_cons, List.append_assoc, List.singleton_append]
    rw [ih _ g1, h1]

theorem init_good (S : Sys T X) (L : Laws S) (c : ICfg) (x0 : X) (t0 : T)
    (h : c.fullOutput = true ∨ (c.aliased (setupIntegrator (some (initialMethod S c x0 t0))) && !c.copyOnRead) = false) :
    Good S c x0 t0 (initState S c x0 t0) := by
  refine ⟨?_, ?_, ?_, ?_⟩
  · simp [initState, L.id]
  · intro cl hcl j e
    subst e
    simp only [initState] at hcl
    split at hcl <;> simp at hcl
  · simp [initState]
  · simpa [initState] using h

theorem initialMethod_of_not_full (S : Sys T X) (c : ICfg) (x0 : X) (t0 : T) (hf : c.fullOutput = false) :
    setupIntegrator (some (initialMethod S c x0 t0)) = startIntegrator c.method := by
  unfold initialMethod startIntegrator
  cases c.method <;> simp [hf]

/-- invariant of the aliased, non-copying single-integrator path -/
theorem fold_aliased (S : Sys T X) (L : Laws S) (c : ICfg) (x0 : X) (t0 : T)
    (hf : c.fullOutput = false) (ts : List T) (s : LState T X)
    (hal : (c.aliased s.r.integ && !c.copyOnRead) = true) (hs : s.store s.r.id = S.flow s.r.t t0 x0) :
    (ts.foldl (loopStep S c) s).cells = List.replicate ts.length (Cell.bufRef s.r.id) ++ s.cells ∧
    (ts.foldl (loopStep S c) s).store s.r.id = S.flow ((s.r.t :: ts).getLast (by simp)) t0 x0 := by
  induction ts generalizing s with
  | nil => simp [hs]
  | cons t ts ih =>
    have hstep : loopStep S c s t =
        { s with r := { s.r with t := t }, store := setBuf s.store s.r.id (S.flow t t0 x0),
                 cells := Cell.bufRef s.r.id :: s.cells } := by
      simp [loopStep, hf, readY, hal, hs, L.comp]
    have := ih (loopStep S c s t) (by rw [hstep]; exact hal) (by rw [hstep]; simp [setBuf])
    simp only [List.foldl_cons]
    obtain ⟨h1, h2⟩ := this
    refine ⟨?_, ?_⟩
    · rw [h1, hstep]; simp [List.replicate_succ']
    · rw [hstep] at h2
      simp only at h2
      rw [hstep, h2]
      simp [List.getLast_cons]


end Pygom.C02
