/-
Helper lemmas for C07: `np.sort` on index lists, the state-major / parameter-major index lists, entry
`a + b·q` of the selected columns, what `sensToGrad` computes, derivative of a list sum, the chain-rule core.
-/
import Pygom.GradIndex
import Pygom.Lemmas.Loss
import Mathlib.Data.Multiset.Bind
import Mathlib.Data.List.Sort
import Mathlib.Analysis.Calculus.Deriv.Add
import Mathlib.Analysis.Calculus.Deriv.Comp
import Mathlib.Analysis.Calculus.Deriv.Mul
import Mathlib.Tactic

set_option linter.unusedSimpArgs false
set_option linter.unnecessarySeqFocus false
set_option linter.unusedVariables false

namespace Pygom.GradIndex
open Pygom Pygom.Loss List

/-! ### `np.sort` -/

theorem insertSorted_perm (a : Nat) : ∀ l : List Nat, insertSorted a l ~ a :: l
  | [] => by simp [insertSorted]
  | b :: l => by
    simp only [insertSorted]
    split_ifs with h
    · exact Perm.refl _
    · exact ((insertSorted_perm a l).cons b).trans (Perm.swap a b l)

theorem npSort_perm : ∀ l : List Nat, npSort l ~ l
  | [] => by simp [npSort]
  | a :: l => by
    simp only [npSort]
    exact (insertSorted_perm a (npSort l)).trans ((npSort_perm l).cons a)

theorem insertSorted_sorted (a : Nat) : ∀ l : List Nat, l.Pairwise (· ≤ ·) → (insertSorted a l).Pairwise (· ≤ ·)
  | [], _ => by simp [insertSorted]
  | b :: l, h => by
    simp only [insertSorted]
    split_ifs with hab
    · refine List.Pairwise.cons ?_ h
      intro c hc
      simp only [List.mem_cons] at hc
      rcases hc with rfl | hc
      · exact hab
      · exact Nat.le_trans hab ((List.pairwise_cons.mp h).1 c hc)
    · have hl := List.pairwise_cons.mp h
      refine List.Pairwise.cons ?_ (insertSorted_sorted a l hl.2)
      intro c hc
      have : c ∈ a :: l := (insertSorted_perm a l).subset hc
      simp only [List.mem_cons] at this
      rcases this with rfl | hc'
      · omega
      · exact hl.1 c hc'

theorem npSort_sorted : ∀ l : List Nat, (npSort l).Pairwise (· ≤ ·)
  | [] => by simp [npSort]
  | a :: l => by simp only [npSort]; exact insertSorted_sorted a _ (npSort_sorted l)

/-- `np.sort` of a permutation of an ascending list is that list -/
theorem npSort_eq_of_perm_sorted {l s : List Nat} (hp : l ~ s) (hs : s.Pairwise (· ≤ ·)) : npSort l = s :=
  Perm.eq_of_pairwise (fun a b _ _ h1 h2 => Nat.le_antisymm h1 h2) (npSort_sorted l) hs ((npSort_perm l).trans hp)

/-! ### the two loop orders -/

theorem stateMajor_perm_freeMajor (off : Nat → Nat) (sIdx fIdx : List Nat) :
    (sIdx.flatMap fun j => fIdx.map fun i => j + off i) ~ (fIdx.flatMap fun i => sIdx.map fun j => j + off i) := by
  rw [← Multiset.coe_eq_coe]
  have := Multiset.bind_map_comm (↑sIdx : Multiset Nat) (↑fIdx : Multiset Nat) (f := fun j i => j + off i)
  simpa [Multiset.coe_bind, Multiset.map_coe] using this

theorem freeMajor_sorted (off : Nat → Nat) (nS : Nat) (sIdx fIdx : List Nat)
    (hs : sIdx.Pairwise (· < ·)) (hb : ∀ j ∈ sIdx, j < nS)
    (hf : fIdx.Pairwise (fun i i' => off i + nS ≤ off i')) :
    (sensIndexRepaired off sIdx fIdx).Pairwise (· ≤ ·) := by
  unfold sensIndexRepaired
  rw [List.pairwise_flatMap]
  constructor
  · intro i _
    rw [List.pairwise_map]
    exact hs.imp (fun h => by omega)
  · refine hf.imp ?_
    intro i i' h x hx y hy
    simp only [List.mem_map] at hx hy
    obtain ⟨j, hj, rfl⟩ := hx
    obtain ⟨j', hj', rfl⟩ := hy
    have := hb j hj
    omega

/-- with observed-state and free-variable indices ascending, sorting the state-major list gives the
free-variable-major list: on such inputs the tree as found and the repaired tree select the same columns -/
theorem sensIndexCoded_eq_repaired (off : Nat → Nat) (nS : Nat) (sIdx fIdx : List Nat)
    (hs : sIdx.Pairwise (· < ·)) (hb : ∀ j ∈ sIdx, j < nS)
    (hf : fIdx.Pairwise (fun i i' => off i + nS ≤ off i')) :
    sensIndexCoded off sIdx fIdx = sensIndexRepaired off sIdx fIdx :=
  npSort_eq_of_perm_sorted (stateMajor_perm_freeMajor off sIdx fIdx) (freeMajor_sorted off nS sIdx fIdx hs hb hf)

theorem paramOff_gap (nS : Nat) {i i' : Nat} (h : i < i') : paramOff nS i + nS ≤ paramOff nS i' := by
  unfold paramOff
  calc (i + 1) * nS + nS = (i + 2) * nS := by ring
    _ ≤ (i' + 1) * nS := Nat.mul_le_mul_right _ (by omega)

theorem stateOff_gap (nS nP : Nat) {i i' : Nat} (h : i < i') : stateOff nS nP i + nS ≤ stateOff nS nP i' := by
  unfold stateOff
  calc (i + 1 + nP) * nS + nS = (i + 2 + nP) * nS := by ring
    _ ≤ (i' + 1 + nP) * nS := Nat.mul_le_mul_right _ (by omega)

/-! ### entry `a + b·q` of the free-variable-major list -/

theorem freeMajor_length (off : Nat → Nat) (sIdx : List Nat) : ∀ fIdx : List Nat,
    (sensIndexRepaired off sIdx fIdx).length = sIdx.length * fIdx.length
  | [] => by simp [sensIndexRepaired]
  | i :: l => by
    have ih := freeMajor_length off sIdx l
    simp only [sensIndexRepaired, List.flatMap_cons, List.length_append, List.length_map, List.length_cons] at ih ⊢
    rw [ih]; ring

theorem freeMajor_getD (off : Nat → Nat) (sIdx : List Nat) : ∀ (fIdx : List Nat) (a b : Nat),
    a < sIdx.length → b < fIdx.length →
    (sensIndexRepaired off sIdx fIdx).getD (a + b * sIdx.length) 0 = sIdx.getD a 0 + off (fIdx.getD b 0)
  | [], a, b, _, hb => by simp at hb
  | i :: l, a, b, ha, hb => by
    simp only [sensIndexRepaired, List.flatMap_cons]
    cases b with
    | zero =>
      simp only [Nat.zero_mul, Nat.add_zero, List.getD_eq_getElem?_getD]
      rw [List.getElem?_append_left (by simpa using ha)]
      simp [ha]
    | succ k =>
      have hk : k < l.length := by simpa using hb
      have ih := freeMajor_getD off sIdx l a k ha hk
      simp only [sensIndexRepaired, List.getD_eq_getElem?_getD] at ih ⊢
      rw [List.getElem?_append_right (by simp; nlinarith)]
      have : a + (k + 1) * sIdx.length - (List.map (fun j => j + off i) sIdx).length = a + k * sIdx.length := by
        simp only [List.length_map]
        have : (k + 1) * sIdx.length = k * sIdx.length + sIdx.length := by ring
        omega
      rw [this, ih]
      simp

/-! ### what `sensToGrad` computes -/

theorem sensToGrad_ok {α : Type} [Add α] [Mul α] [Zero α] [Inhabited α] (numS numOut n : Nat)
    (sens dl w : List (List α)) (hq : 0 < numS) (hn : sens.length = n) (hdl : dl.length = n)
    (hrow : (sens.head?.map List.length).getD 0 = numS * numOut) :
    sensToGrad numS sens dl w = .ok ((List.range numOut).map fun b =>
      sum2 n numS fun i a => entry dl i a * (entry sens i (a + b * numS) * entry w i a)) := by
  have h1 : (n != dl.length) = false := by simp [hdl]
  have h2 : (numS == 0) = false := by simp; omega
  have h3 : numS * numOut / numS = numOut := Nat.mul_div_cancel_left _ hq
  simp only [sensToGrad, hn, hrow, h1, h2, h3, bne_self_eq_false, Bool.false_eq_true, if_false, sum2]

/-! ### derivative of finite sums given as list sums -/

theorem hasDerivAt_list_sum {ι : Type} (l : List ι) (f : ι → ℝ → ℝ) (f' : ι → ℝ) (x : ℝ)
    (h : ∀ i ∈ l, HasDerivAt (f i) (f' i) x) :
    HasDerivAt (fun v => (l.map fun i => f i v).sum) ((l.map f').sum) x := by
  induction l with
  | nil => simpa using hasDerivAt_const x (0 : ℝ)
  | cons a t ih =>
    simp only [List.map_cons, List.sum_cons]
    exact (h a (by simp)).add (ih (fun i hi => h i (by simp [hi])))

theorem hasDerivAt_sum2 (n p : Nat) (f : Nat → Nat → ℝ → ℝ) (f' : Nat → Nat → ℝ) (x : ℝ)
    (h : ∀ i, i < n → ∀ j, j < p → HasDerivAt (f i j) (f' i j) x) :
    HasDerivAt (fun v => sum2 n p fun i j => f i j v) (sum2 n p f') x := by
  unfold sum2
  apply hasDerivAt_list_sum (List.range n) (fun i v => ((List.range p).map fun j => f i j v).sum)
    (fun i => ((List.range p).map fun j => f' i j).sum)
  intro i hi
  apply hasDerivAt_list_sum (List.range p) (fun j v => f i j v) (fun j => f' i j)
  intro j hj
  exact h i (List.mem_range.mp hi) j (List.mem_range.mp hj)

/-! ### the chain-rule core -/

/-- what `sens_to_grad(sens[:, index], diff_loss)` evaluates to, with `index` free-variable-major -/
noncomputable def gradFormula (off : Nat → Nat) (sIdx fIdx : List Nat) (n : Nat) (Z dl w : List (List ℝ)) : List ℝ :=
  (List.range fIdx.length).map fun b => sum2 n sIdx.length fun i a =>
    entry dl i a * (entry (selectCols Z (sensIndexRepaired off sIdx fIdx)) i (a + b * sIdx.length) * entry w i a)

theorem gradFromSens_ok (off : Nat → Nat) (sIdx fIdx : List Nat) (n : Nat) (hn : 0 < n) (hq : 0 < sIdx.length)
    (Z dl w : List (List ℝ)) (hZ : Z.length = n) (hdl : dl.length = n) :
    gradFromSens sIdx.length (sensIndexRepaired off sIdx fIdx) Z dl w = .ok (gradFormula off sIdx fIdx n Z dl w) := by
  have hlen : (sensIndexRepaired off sIdx fIdx).length = sIdx.length * fIdx.length := freeMajor_length off sIdx fIdx
  have hsel : (selectCols Z (sensIndexRepaired off sIdx fIdx)).length = n := by simp [selectCols, hZ]
  have hrow : ((selectCols Z (sensIndexRepaired off sIdx fIdx)).head?.map List.length).getD 0 = sIdx.length * fIdx.length := by
    cases Z with
    | nil => simp at hZ; omega
    | cons z zs => simp [selectCols, hlen]
  exact sensToGrad_ok sIdx.length fIdx.length n _ dl w hq hsel hdl hrow

theorem gradFormula_length (off : Nat → Nat) (sIdx fIdx : List Nat) (n : Nat) (Z dl w : List (List ℝ)) :
    (gradFormula off sIdx fIdx n Z dl w).length = fIdx.length := by simp [gradFormula]

/-- For the `b`-th free variable (value `v0`): if column `sIdx[a] + off fIdx[b]` of row `i` of the integrated
sensitivity system is the derivative of the prediction `pred i a` in that variable (`hsens`), and
`dl i a · w i a` is the derivative of the per-entry loss in the prediction (`hkernel`), then entry `b` of
`sens_to_grad(sens[:, index], diff_loss)` — with `index` built free-variable-major in the order supplied —
is the derivative of the cost in that variable. -/
theorem chain_rule_core (off : Nat → Nat) (sIdx fIdx : List Nat) (n : Nat)
    (ℓ : Nat → Nat → ℝ → ℝ) (pred : Nat → Nat → ℝ → ℝ) (v0 : ℝ)
    (Z dl w : List (List ℝ)) (hZ : Z.length = n)
    (b : Nat) (hb : b < fIdx.length)
    (hsens : ∀ i, i < n → ∀ a, a < sIdx.length →
      HasDerivAt (pred i a) (entry Z i (sIdx.getD a 0 + off (fIdx.getD b 0))) v0)
    (hkernel : ∀ i, i < n → ∀ a, a < sIdx.length →
      HasDerivAt (ℓ i a) (entry dl i a * entry w i a) (pred i a v0)) :
    HasDerivAt (fun v => sum2 n sIdx.length fun i a => ℓ i a (pred i a v))
      ((gradFormula off sIdx fIdx n Z dl w).getD b 0) v0 := by
  set q := sIdx.length with hqdef
  set index := sensIndexRepaired off sIdx fIdx with hidx
  have hlen : index.length = q * fIdx.length := freeMajor_length off sIdx fIdx
  have hD := hasDerivAt_sum2 n q (fun i a v => ℓ i a (pred i a v))
    (fun i a => (entry dl i a * entry w i a) * entry Z i (sIdx.getD a 0 + off (fIdx.getD b 0))) v0
    (fun i hi a ha => (hkernel i hi a ha).comp v0 (hsens i hi a ha))
  refine hD.congr_deriv ?_
  have hg : (gradFormula off sIdx fIdx n Z dl w).getD b 0
      = sum2 n q fun i a => entry dl i a * (entry (selectCols Z index) i (a + b * q) * entry w i a) := by
    simp [gradFormula, List.getD_eq_getElem?_getD, hb, hqdef, hidx]
  rw [hg]
  apply sum2_congr
  intro i hi a ha
  have hcol : a + b * q < index.length := by
    rw [hlen]
    calc a + b * q < q + b * q := by omega
      _ = (b + 1) * q := by ring
      _ ≤ fIdx.length * q := Nat.mul_le_mul_right _ hb
      _ = q * fIdx.length := by ring
  rw [entry_selectCols Z index i (a + b * q) (by omega) hcol, freeMajor_getD off sIdx fIdx a b ha hb]
  simp only [entry]
  ring

end Pygom.GradIndex
