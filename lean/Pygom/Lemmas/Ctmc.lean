/-
Helper lemmas for property C05 about the executable vocabulary `Pygom/Ctmc.lean`:
* `firstMin` (first minimum): characterisation, uniqueness, invariance under strictly monotone maps;
* the first-reaction model of `Pygom/Stoch.lean` computes `firstMin` of its draw list
  (`argminOpt_newJumpTimes`), `posIdx`;
* conservation of probability mass by the level recursion of `finalSizePMF`.
-/
import Pygom.Ctmc
import Pygom.Lemmas.Stoch
import Mathlib.Algebra.Order.Field.Rat
import Mathlib.Order.Monotone.Basic
import Mathlib.Tactic

set_option linter.unusedSimpArgs false
set_option linter.unnecessarySeqFocus false
set_option linter.unusedVariables false

namespace Pygom.Ctmc
open Pygom.Stoch

/-! ### first minimum -/

section FirstMin
variable {α : Type} [LinearOrder α] [inst : DecidableLE α]

theorem firstMin_cons_none {a : α} {as : List α} (h : firstMin as = none) : firstMin (a :: as) = some (0, a) := by
  simp [firstMin, h]

theorem firstMin_cons_some {a b : α} {i : Nat} {as : List α} (h : firstMin as = some (i, b)) :
    firstMin (a :: as) = if a ≤ b then some (0, a) else some (i + 1, b) := by
  simp [firstMin, h]

theorem firstMin_eq_none {l : List α} : firstMin l = none ↔ l = [] := by
  cases l with
  | nil => simp [firstMin]
  | cons a as =>
    cases h : firstMin as with
    | none => simp [firstMin_cons_none h]
    | some p => obtain ⟨i, b⟩ := p; rw [firstMin_cons_some h]; split <;> simp

/-- the value is the entry at the index, it is minimal, and strictly smaller than every earlier entry -/
theorem firstMin_spec {l : List α} {k : Nat} {a : α} (h : firstMin l = some (k, a)) :
    l[k]? = some a ∧ (∀ (j : Nat) (b : α), l[j]? = some b → a ≤ b) ∧
      (∀ (j : Nat) (b : α), j < k → l[j]? = some b → a < b) := by
  induction l generalizing k a with
  | nil => simp [firstMin] at h
  | cons t ts ih =>
    cases hr : firstMin ts with
    | none =>
      rw [firstMin_cons_none hr] at h
      simp only [Option.some.injEq, Prod.mk.injEq] at h
      obtain ⟨rfl, rfl⟩ := h
      have hts : ts = [] := firstMin_eq_none.mp hr
      subst hts
      refine ⟨by simp, ?_, ?_⟩
      · intro j b hj
        cases j with
        | zero => simp at hj; subst hj; exact le_refl _
        | succ j => simp at hj
      · intro j b hj; omega
    | some p =>
      obtain ⟨i, b⟩ := p
      obtain ⟨ih0, ih1, ih2⟩ := ih hr
      rw [firstMin_cons_some hr] at h
      split at h
      · rename_i hle
        simp only [Option.some.injEq, Prod.mk.injEq] at h
        obtain ⟨rfl, rfl⟩ := h
        refine ⟨by simp, ?_, ?_⟩
        · intro j d hj
          cases j with
          | zero => simp at hj; subst hj; exact le_refl _
          | succ j => exact le_trans hle (ih1 j d (by simpa using hj))
        · intro j d hj; omega
      · rename_i hnle
        simp only [Option.some.injEq, Prod.mk.injEq] at h
        obtain ⟨rfl, rfl⟩ := h
        have hlt : b < t := lt_of_not_ge hnle
        refine ⟨by simpa using ih0, ?_, ?_⟩
        · intro j d hj
          cases j with
          | zero => simp at hj; subst hj; exact le_of_lt hlt
          | succ j => exact ih1 j d (by simpa using hj)
        · intro j d hj hjd
          cases j with
          | zero => simp at hjd; subst hjd; exact hlt
          | succ j => exact ih2 j d (by omega) (by simpa using hjd)

/-- `firstMin l = some (k, a)` **iff** `a` is the entry at `k`, minimal, and strictly below every earlier entry -/
theorem firstMin_iff {l : List α} {k : Nat} {a : α} :
    firstMin l = some (k, a) ↔
      l[k]? = some a ∧ (∀ (j : Nat) (b : α), l[j]? = some b → a ≤ b) ∧
        (∀ (j : Nat) (b : α), j < k → l[j]? = some b → a < b) := by
  constructor
  · exact firstMin_spec
  · rintro ⟨h0, h1, h2⟩
    have hne : l ≠ [] := by rintro rfl; simp at h0
    cases hf : firstMin l with
    | none => exact absurd (firstMin_eq_none.mp hf) hne
    | some p =>
      obtain ⟨k', a'⟩ := p
      obtain ⟨g0, g1, g2⟩ := firstMin_spec hf
      have hk : k' = k := by
        rcases lt_trichotomy k' k with hlt | heq | hgt
        · exact absurd (h2 k' a' hlt g0) (not_lt.mpr (g1 k a h0))
        · exact heq
        · exact absurd (g2 k a hgt h0) (not_lt.mpr (h1 k' a' g0))
      subst hk
      rw [g0] at h0
      simp only [Option.some.injEq] at h0
      subst h0
      rfl

/-- a strictly monotone map (the cast `ℚ → ℝ`) commutes with `firstMin`: the model's choice on the rational
draws is the choice on the same numbers seen as reals -/
theorem firstMin_map {β : Type} [LinearOrder β] [instβ : DecidableLE β] (f : α → β) (hf : StrictMono f) (l : List α) :
    firstMin (l.map f) = (firstMin l).map (fun p => (p.1, f p.2)) := by
  induction l with
  | nil => simp [firstMin]
  | cons a as ih =>
    cases h : firstMin as with
    | none =>
      have h' : firstMin (as.map f) = none := by rw [ih, h]; rfl
      rw [List.map_cons, firstMin_cons_none h', firstMin_cons_none h]; rfl
    | some p =>
      obtain ⟨i, b⟩ := p
      have h' : firstMin (as.map f) = some (i, f b) := by rw [ih, h]; rfl
      rw [List.map_cons, firstMin_cons_some h', firstMin_cons_some h]
      by_cases hab : a ≤ b
      · rw [if_pos hab, if_pos (hf.le_iff_le.mpr hab)]; rfl
      · rw [if_neg hab, if_neg (fun hc => hab (hf.le_iff_le.mp hc))]; rfl

end FirstMin

/-! ### `List.ofFn` (the clocks of the probability theorems as a list) -/

theorem ofFn_get {α : Type} {n : Nat} (f : Fin n → α) (j : Fin n) : (List.ofFn f)[j.val]? = some (f j) := by
  simp [List.getElem?_ofFn]

theorem ofFn_get_some {α : Type} {n : Nat} (f : Fin n → α) (j : Nat) (b : α) (h : (List.ofFn f)[j]? = some b) :
    ∃ hj : j < n, b = f ⟨j, hj⟩ := by
  simp only [List.getElem?_ofFn] at h
  split at h
  · rename_i hj; exact ⟨hj, by simpa using h.symm⟩
  · simp at h

/-! ### the first-reaction model computes `firstMin` of its draws -/

/-- on clocks that are all finite `argminOpt` is `firstMin` -/
theorem argminOpt_map_some (l : List Rat) : argminOpt (l.map some) = firstMin l := by
  induction l with
  | nil => simp [argminOpt, firstMin]
  | cons a as ih =>
    rw [List.map_cons]
    unfold argminOpt
    rw [ih]
    cases h : firstMin as with
    | none => simp [firstMin, h]
    | some p => obtain ⟨i, b⟩ := p; simp [firstMin, h]

/-- `_newJumpTimes` followed by `np.argmin`: one clock per positive rate, consumed in event order; the winner is
the first minimum of the draw list, and it belongs to the event `posIdx rates k` -/
theorem argminOpt_newJumpTimes (rates expo : List Rat) (hlen : expo.length = nPositive rates) :
    ∃ jt, newJumpTimes rates expo = some jt ∧
      argminOpt jt = (firstMin expo).map (fun p => (posIdx rates p.1, p.2)) := by
  induction rates generalizing expo with
  | nil =>
    have : expo = [] := by simpa [nPositive] using hlen
    subst this
    exact ⟨[], by simp [newJumpTimes], by simp [argminOpt, firstMin]⟩
  | cons r rs ih =>
    by_cases hr : 0 < r
    · cases expo with
      | nil => simp [nPositive, hr] at hlen
      | cons d ds =>
        have hl : ds.length = nPositive rs := by simpa [nPositive, hr] using hlen
        obtain ⟨jt, hjt, harg⟩ := ih ds hl
        refine ⟨some d :: jt, by simp [newJumpTimes, hr, hjt], ?_⟩
        unfold argminOpt
        rw [harg]
        cases hf : firstMin ds with
        | none => simp [firstMin, hf, posIdx, hr]
        | some p =>
          obtain ⟨i, b⟩ := p
          simp only [Option.map_some, firstMin, hf]
          by_cases hdb : d ≤ b
          · simp [hdb, posIdx, hr]
          · simp [hdb, posIdx, hr]
    · have hl : expo.length = nPositive rs := by simpa [nPositive, hr] using hlen
      obtain ⟨jt, hjt, harg⟩ := ih expo hl
      refine ⟨none :: jt, by simp [newJumpTimes, hr, hjt], ?_⟩
      unfold argminOpt
      rw [harg]
      cases hf : firstMin expo with
      | none => simp
      | some p => obtain ⟨i, b⟩ := p; simp [posIdx, hr]

/-- `posIdx rates k` is the position of the `k`-th positive rate -/
theorem posIdx_spec (rates : List Rat) (k : Nat) (hk : k < nPositive rates) :
    posIdx rates k < rates.length ∧ (∃ rk, rates[posIdx rates k]? = some rk ∧ 0 < rk) ∧
      nPositive (rates.take (posIdx rates k)) = k := by
  induction rates generalizing k with
  | nil => simp [nPositive] at hk
  | cons r rs ih =>
    by_cases hr : 0 < r
    · cases k with
      | zero => simp [posIdx, hr, nPositive]
      | succ k =>
        have hk' : k < nPositive rs := by simpa [nPositive, hr] using hk
        obtain ⟨h1, h2, h3⟩ := ih k hk'
        refine ⟨by simp [posIdx, hr]; omega, by simpa [posIdx, hr] using h2, ?_⟩
        simp only [posIdx, hr, if_true, List.take_succ_cons]
        simpa [nPositive, hr] using h3
    · have hk' : k < nPositive rs := by simpa [nPositive, hr] using hk
      obtain ⟨h1, h2, h3⟩ := ih k hk'
      refine ⟨by simp [posIdx, hr]; omega, by simpa [posIdx, hr] using h2, ?_⟩
      simp only [posIdx, hr, if_false, List.take_succ_cons]
      simpa [nPositive, hr] using h3

theorem allZero_false_of_nPositive {rates : List Rat} (h : 0 < nPositive rates) : allZero rates = false := by
  induction rates with
  | nil => simp [nPositive] at h
  | cons r rs ih =>
    by_cases hr : 0 < r
    · have : r ≠ 0 := ne_of_gt hr
      simp [allZero, this]
    · have h' : 0 < nPositive rs := by simpa [nPositive, hr] using h
      have := ih h'
      simp only [allZero, List.all_cons] at this ⊢
      simp [this]

/-! ### embedded jump chain: probability mass -/

theorem stepProbs_sum (rates : List Rat) (h : rates.sum ≠ 0) : (stepProbs rates).sum = 1 := by
  have : ∀ (l : List Rat) (c : Rat), (l.map (· / c)).sum = l.sum / c := by
    intro l c
    induction l with
    | nil => simp
    | cons a as ih => simp only [List.map_cons, List.sum_cons, ih]; ring
  rw [stepProbs, this, div_self h]

theorem sirRates_sum_pos (m : SIR) (hb : 0 ≤ m.beta) (hg : 0 < m.gamma) (hp : 0 < m.pop) (s i : Nat) (hi : 0 < i) :
    0 < (sirRates m s i).sum := by
  simp only [sirRates, List.sum_cons, List.sum_nil, add_zero]
  have h1 : 0 ≤ m.beta * s * i / m.pop := by positivity
  have h2 : 0 < m.gamma * i := by positivity
  linarith

theorem pInf_add_pRec (m : SIR) (s i : Nat) (h : (sirRates m s i).sum ≠ 0) : pInf m s i + pRec m s i = 1 := by
  have := stepProbs_sum (sirRates m s i) h
  simpa [pInf, pRec, stepProbs, sirRates] using this

theorem pInf_zero (m : SIR) (i : Nat) : pInf m 0 i = 0 := by
  simp [pInf, stepProbs, sirRates]

theorem mapIdx'_length (f : Nat → Rat → Rat) (s : Nat) (v : List Rat) : (mapIdx' f s v).length = v.length := by
  induction v generalizing s with
  | nil => simp [mapIdx']
  | cons x xs ih => simp [mapIdx', ih]

theorem sum_mapIdx'_three (f g h : Nat → Rat → Rat) (hfgh : ∀ s x, f s x + g s x + h s x = x) (s : Nat) (v : List Rat) :
    (mapIdx' f s v).sum + (mapIdx' g s v).sum + (mapIdx' h s v).sum = v.sum := by
  induction v generalizing s with
  | nil => simp [mapIdx']
  | cons x xs ih =>
    simp only [mapIdx', List.sum_cons]
    have := ih (s + 1)
    have := hfgh s x
    linarith

theorem sum_mapIdx'_zero (f : Nat → Rat → Rat) (hf : ∀ s x, f s x = 0) (s : Nat) (v : List Rat) :
    (mapIdx' f s v).sum = 0 := by
  induction v generalizing s with
  | nil => simp [mapIdx']
  | cons x xs ih => simp [mapIdx', hf, ih]

theorem sum_zipWith_add (a b : List Rat) (h : a.length = b.length) :
    (List.zipWith (· + ·) a b).sum = a.sum + b.sum := by
  induction a generalizing b with
  | nil => cases b with
    | nil => simp
    | cons y ys => simp at h
  | cons x xs ih =>
    cases b with
    | nil => simp at h
    | cons y ys =>
      simp only [List.zipWith_cons_cons, List.sum_cons]
      rw [ih ys (by simpa using h)]; ring

theorem sum_tail_append_zero (l : List Rat) : (l.tail ++ [0]).sum = l.sum - l.headD 0 := by
  cases l with
  | nil => simp
  | cons x xs => simp

theorem infPart_head (m : SIR) (M k : Nat) (v : List Rat) : (infPart m M k v).headD 0 = 0 := by
  cases v with
  | nil => simp [infPart, mapIdx']
  | cons x xs => simp [infPart, mapIdx', pInf_zero]

/-- the hypotheses under which the jump probabilities are probabilities: `β ≥ 0`, `γ > 0`, `N > 0` -/
structure GoodSIR (m : SIR) : Prop where
  beta_nonneg : 0 ≤ m.beta
  gamma_pos : 0 < m.gamma
  pop_pos : 0 < m.pop

theorem active_iOf_pos {M k s : Nat} (h : active M k s = true) : 0 < iOf M k s := by
  simp only [active, decide_eq_true_eq] at h
  simp only [iOf]; omega

/-- one level of the recursion keeps the total mass `alive + absorbed` -/
theorem level_mass (m : SIR) (hm : GoodSIR m) (M k : Nat) (va : List Rat × List Rat)
    (hlen : va.1.length = va.2.length) (hpos : 0 < va.1.length) :
    (level m M k va).1.sum + (level m M k va).2.sum = va.1.sum + va.2.sum := by
  obtain ⟨v, a⟩ := va
  simp only at hlen hpos
  simp only [level]
  have hl1 : (recPart m M k v).length = ((infPart m M k v).tail ++ [0]).length := by
    simp [recPart, infPart, mapIdx'_length]; omega
  have hl2 : a.length = (absPart M k v).length := by simp [absPart, mapIdx'_length, hlen]
  rw [sum_zipWith_add _ _ hl1, sum_zipWith_add _ _ hl2, sum_tail_append_zero, infPart_head]
  have h3 := sum_mapIdx'_three
    (fun s x => if active M k s then x * pRec m s (iOf M k s) else 0)
    (fun s x => if active M k s then x * pInf m s (iOf M k s) else 0)
    (fun s x => if active M k s then 0 else x)
    (by
      intro s x
      by_cases hact : active M k s = true
      · have hsum := pInf_add_pRec m s (iOf M k s)
          (ne_of_gt (sirRates_sum_pos m hm.beta_nonneg hm.gamma_pos hm.pop_pos s _ (active_iOf_pos hact)))
        simp only [hact, if_true]
        have : x * pRec m s (iOf M k s) + x * pInf m s (iOf M k s) = x := by
          rw [← mul_add, add_comm, hsum, mul_one]
        linarith
      · simp [hact]) 0 v
  simp only [recPart, infPart, absPart]
  linarith

theorem level_length (m : SIR) (M k : Nat) (va : List Rat × List Rat) (hlen : va.1.length = va.2.length)
    (hpos : 0 < va.1.length) :
    (level m M k va).1.length = va.1.length ∧ (level m M k va).2.length = va.2.length := by
  obtain ⟨v, a⟩ := va
  simp only at hlen hpos
  simp only [level, List.length_zipWith, recPart, infPart, absPart, mapIdx'_length, List.length_append,
    List.length_tail, List.length_cons, List.length_nil]
  omega

theorem runLevels_mass (m : SIR) (hm : GoodSIR m) (M : Nat) (ks : List Nat) (va : List Rat × List Rat)
    (hlen : va.1.length = va.2.length) (hpos : 0 < va.1.length) :
    (runLevels m M ks va).1.sum + (runLevels m M ks va).2.sum = va.1.sum + va.2.sum ∧
    (runLevels m M ks va).1.length = va.1.length ∧ (runLevels m M ks va).2.length = va.2.length := by
  induction ks generalizing va with
  | nil => simp [runLevels]
  | cons k ks ih =>
    obtain ⟨l1, l2⟩ := level_length m M k va hlen hpos
    have := ih (level m M k va) (by rw [l1, l2, hlen]) (by rw [l1]; exact hpos)
    simp only [runLevels, List.foldl_cons] at this ⊢
    obtain ⟨h1, h2, h3⟩ := this
    exact ⟨by rw [h1, level_mass m hm M k va hlen hpos], by rw [h2, l1], by rw [h3, l2]⟩

/-- after a level at which no state is active nothing is alive -/
theorem level_dead (m : SIR) (M k : Nat) (va : List Rat × List Rat) (hk : M ≤ k) (hpos : 0 < va.1.length) :
    (level m M k va).1.sum = 0 := by
  have hact : ∀ s, active M k s = false := by
    intro s; simp only [active, decide_eq_false_iff_not]; omega
  simp only [level]
  have hl1 : (recPart m M k va.1).length = ((infPart m M k va.1).tail ++ [0]).length := by
    simp [recPart, infPart, mapIdx'_length]; omega
  rw [sum_zipWith_add _ _ hl1, sum_tail_append_zero, infPart_head]
  have h1 : (recPart m M k va.1).sum = 0 := sum_mapIdx'_zero _ (by intro s x; simp [hact]) 0 _
  have h2 : (infPart m M k va.1).sum = 0 := sum_mapIdx'_zero _ (by intro s x; simp [hact]) 0 _
  rw [h1, h2]; ring

theorem initAlive_sum (s0 : Nat) : (initAlive s0).sum = 1 := by
  simp [initAlive]

/-! ### embedded jump chain: non-negativity -/

def NonNeg (l : List Rat) : Prop := ∀ x ∈ l, 0 ≤ x

theorem nonneg_mapIdx' (f : Nat → Rat → Rat) (hf : ∀ s x, 0 ≤ x → 0 ≤ f s x) (s : Nat) (v : List Rat) (hv : NonNeg v) :
    NonNeg (mapIdx' f s v) := by
  induction v generalizing s with
  | nil => intro x hx; simp [mapIdx'] at hx
  | cons a as ih =>
    intro x hx
    simp only [mapIdx', List.mem_cons] at hx
    rcases hx with rfl | hx
    · exact hf s a (hv a (by simp))
    · exact ih (s + 1) (fun y hy => hv y (by simp [hy])) x hx

theorem nonneg_zipWith_add (a b : List Rat) (ha : NonNeg a) (hb : NonNeg b) : NonNeg (List.zipWith (· + ·) a b) := by
  induction a generalizing b with
  | nil => intro x hx; simp at hx
  | cons p ps ih =>
    cases b with
    | nil => intro x hx; simp at hx
    | cons q qs =>
      intro x hx
      simp only [List.zipWith_cons_cons, List.mem_cons] at hx
      rcases hx with rfl | hx
      · exact add_nonneg (ha p (by simp)) (hb q (by simp))
      · exact ih qs (fun y hy => ha y (by simp [hy])) (fun y hy => hb y (by simp [hy])) x hx

theorem nonneg_tail_append_zero (l : List Rat) (h : NonNeg l) : NonNeg (l.tail ++ [0]) := by
  intro x hx
  simp only [List.mem_append, List.mem_singleton] at hx
  rcases hx with hx | rfl
  · exact h x (List.mem_of_mem_tail hx)
  · exact le_refl _

theorem pInf_nonneg (m : SIR) (hm : GoodSIR m) (s i : Nat) : 0 ≤ pInf m s i := by
  have hb := hm.beta_nonneg; have hg := hm.gamma_pos; have hp := hm.pop_pos
  simp only [pInf, stepProbs, sirRates, List.map_cons, List.map_nil, List.sum_cons, List.sum_nil, List.getD_cons_zero]
  positivity

theorem pRec_nonneg (m : SIR) (hm : GoodSIR m) (s i : Nat) : 0 ≤ pRec m s i := by
  have hb := hm.beta_nonneg; have hg := hm.gamma_pos; have hp := hm.pop_pos
  simp only [pRec, stepProbs, sirRates, List.map_cons, List.map_nil, List.sum_cons, List.sum_nil, List.getD_cons_succ,
    List.getD_cons_zero]
  positivity

theorem level_nonneg (m : SIR) (hm : GoodSIR m) (M k : Nat) (va : List Rat × List Rat)
    (h1 : NonNeg va.1) (h2 : NonNeg va.2) : NonNeg (level m M k va).1 ∧ NonNeg (level m M k va).2 := by
  constructor
  · apply nonneg_zipWith_add
    · exact nonneg_mapIdx' _ (fun s x hx => by split <;> [exact mul_nonneg hx (pRec_nonneg m hm _ _); exact le_refl _]) 0 _ h1
    · apply nonneg_tail_append_zero
      exact nonneg_mapIdx' _ (fun s x hx => by split <;> [exact mul_nonneg hx (pInf_nonneg m hm _ _); exact le_refl _]) 0 _ h1
  · apply nonneg_zipWith_add _ _ h2
    exact nonneg_mapIdx' _ (fun s x hx => by split <;> [exact le_refl _; exact hx]) 0 _ h1

theorem runLevels_nonneg (m : SIR) (hm : GoodSIR m) (M : Nat) (ks : List Nat) (va : List Rat × List Rat)
    (h1 : NonNeg va.1) (h2 : NonNeg va.2) : NonNeg (runLevels m M ks va).1 ∧ NonNeg (runLevels m M ks va).2 := by
  induction ks generalizing va with
  | nil => exact ⟨h1, h2⟩
  | cons k ks ih =>
    obtain ⟨g1, g2⟩ := level_nonneg m hm M k va h1 h2
    simpa [runLevels] using ih (level m M k va) g1 g2

theorem finalRun_nonneg (m : SIR) (hm : GoodSIR m) (s0 i0 : Nat) : NonNeg (finalRun m s0 i0).2 := by
  refine (runLevels_nonneg m hm _ _ _ ?_ ?_).2
  · intro x hx
    simp only [initAlive, List.mem_append, List.mem_replicate, List.mem_singleton] at hx
    rcases hx with ⟨_, rfl⟩ | rfl <;> norm_num
  · intro x hx
    simp only [List.mem_replicate] at hx
    rw [hx.2]

end Pygom.Ctmc
