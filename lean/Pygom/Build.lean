/-
Building a `ModelDef` from an API-level description: which constructor keyword
or `add_*` call each process was entered through.  Mirrors `BaseOdeModel.__init__`
(order: states, params, derived_param, event, transition, birth_death, ode) and
the incremental mutators.
-/
import Pygom.Codec

namespace Pygom
open Lean (Json)

/-- raw arguments of a `Transition(...)` call -/
structure TransnIn where
  origin : Option String
  equation : Option Expr
  ttype : TType
  destination : Option String
  magnitude : Expr
deriving Repr, Inhabited

def TransnIn.mk' (t : TransnIn) : Except Err Transn :=
  mkTransition t.origin t.equation t.ttype t.destination t.magnitude

/-- an element of an `event=` list or an `add_event` argument -/
inductive EventIn
  | ev (rate : Option Expr) (trs : List TransnIn)
  | tr (t : TransnIn)
deriving Repr, Inhabited

inductive Mut
  | addEvent (e : EventIn)
  | addTransition (t : TransnIn)
  | addBirthDeath (t : TransnIn)
  | addOde (t : TransnIn)
  | addDerived (name : String) (e : Expr)
  | addParams (names : List String)
  | addStates (names : List String)
deriving Repr, Inhabited

structure Spec where
  states : List String                      -- declared entries (possibly range-style)
  lims   : List (Option Int × Option Int)   -- one per declared entry
  params : List String
  derived : List (String × Expr)
  ctorEvent : List EventIn
  ctorTransition : List TransnIn
  ctorBirthDeath : List TransnIn
  ctorOde : List TransnIn
  thenOps : List Mut
deriving Repr, Inhabited

def applyEventIn (m : ModelDef) : EventIn → Except Err ModelDef
  | .ev rate trs => do
    let ts ← trs.mapM TransnIn.mk'
    let e ← mkEvent ts rate
    pure (addEvent m e)
  | .tr t => do
    let t' ← t.mk'
    addEventTransition m t'

def applyMut (m : ModelDef) : Mut → Except Err ModelDef
  | .addEvent e => applyEventIn m e
  | .addTransition t => do let t' ← t.mk'; addTransition m t'
  | .addBirthDeath t => do let t' ← t.mk'; addBirthDeath m t'
  | .addOde t => do let t' ← t.mk'; addOde m t'
  | .addDerived n e => pure (addDerived m n e)
  | .addParams ns => pure { m with params := addSymbols m.params m.params ns true }
  | .addStates ns => pure { m with states := addSymbols m.params m.states ns false }

def buildModel (s : Spec) : Except Err ModelDef := do
  let m0 : ModelDef :=
    { states := addSymbols [] [] s.states false, stateLims := s.lims,
      params := [], derived := [], events := [], odes := [] }
  let m0 := { m0 with params := addSymbols [] [] s.params true }
  let m1 := s.derived.foldl (fun m d => addDerived m d.1 d.2) m0
  let m2 ← s.ctorEvent.foldlM applyEventIn m1
  let m3 ← s.ctorTransition.foldlM (fun m t => applyMut m (.addTransition t)) m2
  let m4 ← s.ctorBirthDeath.foldlM (fun m t => applyMut m (.addBirthDeath t)) m3
  let m5 ← s.ctorOde.foldlM (fun m t => applyMut m (.addOde t)) m4
  s.thenOps.foldlM applyMut m5

/-! ### JSON -/

def transnInOfJson (j : Json) : Except String TransnIn := do
  let tt ← ttypeOfString (← (fld j "type").getStr?)
  let o ← optStrOfJson (fld j "origin")
  let d ← optStrOfJson (fld j "dest")
  let mag ← if (fld j "mag").isNull then pure Expr.one else exprOfJson (fld j "mag")
  let eq ← optExprOfJson (fld j "eq")
  pure ⟨o, eq, tt, d, mag⟩

def eventInOfJson (j : Json) : Except String EventIn := do
  if !(fld j "transition").isNull then
    pure (.tr (← transnInOfJson (fld j "transition")))
  else
    let rate ← optExprOfJson (fld j "rate")
    let trs ← listOfJson transnInOfJson (fld j "transitions")
    pure (.ev rate trs)

def mutOfJson (j : Json) : Except String Mut := do
  match (← (fld j "op").getStr?) with
  | "add_event" => pure (.addEvent (← eventInOfJson j))
  | "add_transition" => pure (.addTransition (← transnInOfJson (fld j "t")))
  | "add_birth_death" => pure (.addBirthDeath (← transnInOfJson (fld j "t")))
  | "add_ode" => pure (.addOde (← transnInOfJson (fld j "t")))
  | "add_derived" => pure (.addDerived (← (fld j "name").getStr?) (← exprOfJson (fld j "expr")))
  | "add_params" => pure (.addParams (← listOfJson Json.getStr? (fld j "names")))
  | "add_states" => pure (.addStates (← listOfJson Json.getStr? (fld j "names")))
  | o => .error s!"unknown mutator {o}"

def declOfJson (j : Json) : Except String (List String × List (Option Int × Option Int)) := do
  if !(fld j "str").isNull then
    let names := splitDecl (← (fld j "str").getStr?)
    pure (names, names.map (fun _ => (some 0, none)))
  else
    let items ← (fld j "list").getArr?
    let pairs ← items.toList.mapM (fun it => do
      match it with
      | .str s => pure (s, ((some (0:Int) : Option Int), (none : Option Int)))
      | _ =>
        let a ← it.getArr?
        let nm ← (a[0]?.getD Json.null).getStr?
        let lim ← (a[1]?.getD Json.null).getArr?
        let lo ← intOptOfJson (lim[0]?.getD Json.null)
        let hi ← intOptOfJson (lim[1]?.getD Json.null)
        pure (nm, (lo, hi)))
    pure (pairs.map (·.1), pairs.map (·.2))

def optList {α} (f : Json → Except String α) (j : Json) : Except String (List α) :=
  if j.isNull then pure [] else listOfJson f j

def specOfJson (j : Json) : Except String Spec := do
  let (states, lims) ← declOfJson (fld j "state")
  let (params, _) ← declOfJson (fld j "param")
  let derived ← optList (fun d => do
      let a ← d.getArr?
      pure ((← (a[0]?.getD Json.null).getStr?), (← exprOfJson (a[1]?.getD Json.null)))) (fld j "derived")
  let c := fld j "ctor"
  pure { states, lims, params, derived,
         ctorEvent := ← optList eventInOfJson (fld c "event"),
         ctorTransition := ← optList transnInOfJson (fld c "transition"),
         ctorBirthDeath := ← optList transnInOfJson (fld c "birth_death"),
         ctorOde := ← optList transnInOfJson (fld c "ode"),
         thenOps := ← optList mutOfJson (fld j "then") }

end Pygom
