/-
Vocabulary of property C05 (exact simulation samples the continuous-time Markov chain's law).
Executable, no Mathlib (linked into the driver).

* `firstMin`      : `np.argmin` on a list of finite clocks, over any decidable order (the rational
                    draws of the model, the real-valued clocks of the probability theorems);
* `posIdx`        : position, in event order, of the k-th event with a positive rate (the events
                    `_newJumpTimes` draws a clock for);
* `stepProbs`     : jump probabilities of the embedded jump chain, `r_i / Σ r`;
* `finalSizePMF`  : exact (`Rat`) law of the final size of the SIR epidemic, computed from the embedded
                    jump chain level by level (every jump lowers `2·S + I` by one).
-/
import Pygom.Stoch

namespace Pygom.Ctmc

/-! ### first minimum -/

/-- index and value of the first minimum of a list (`np.argmin`, `jump_times[min_index]`);
`none` for the empty list.  Same recursion as `Stoch.argminOpt` on a list without `np.inf`. -/
def firstMin {α : Type} [LE α] [DecidableLE α] : List α → Option (Nat × α)
  | [] => none
  | a :: as =>
    match firstMin as with
    | none => some (0, a)
    | some (i, b) => if a ≤ b then some (0, a) else some (i + 1, b)

/-- index in `rates` of the `k`-th (from 0) positive entry: `_newJumpTimes` draws one clock per positive
rate, in event order, so clock `k` of the draw list belongs to event `posIdx rates k` -/
def posIdx : List Rat → Nat → Nat
  | [], _ => 0
  | r :: rs, k =>
    if 0 < r then
      match k with
      | 0 => 0
      | k + 1 => posIdx rs k + 1
    else posIdx rs k + 1

/-! ### embedded jump chain -/

/-- jump probabilities of the embedded chain: event `i` with probability `r_i / Σ_j r_j` -/
def stepProbs (rates : List Rat) : List Rat := rates.map (· / rates.sum)

/-- SIR epidemic: infection `S + I → 2I` at rate `β·S·I/N`, recovery `I → R` at rate `γ·I` -/
structure SIR where
  beta : Rat
  gamma : Rat
  pop : Rat
deriving Repr, Inhabited

/-- rate vector `[infection, recovery]` at `(S, I) = (s, i)` -/
def sirRates (m : SIR) (s i : Nat) : List Rat := [m.beta * s * i / m.pop, m.gamma * i]

def pInf (m : SIR) (s i : Nat) : Rat := (stepProbs (sirRates m s i)).getD 0 0
def pRec (m : SIR) (s i : Nat) : Rat := (stepProbs (sirRates m s i)).getD 1 0

/-- `f s x` for every entry `x` at index `s` (indices start at the given offset) -/
def mapIdx' (f : Nat → Rat → Rat) : Nat → List Rat → List Rat
  | _, [] => []
  | s, x :: xs => f s x :: mapIdx' f (s + 1) xs

/-- Level `k` of the chain started at `(s0, i0)`, `M = 2·s0 + i0`: every jump lowers `2S + I` by one, so
after `k` jumps the state is determined by `S = s` alone, `I = M − k − 2s`.  The chain is still running
in that state when `I > 0`: -/
def active (M k s : Nat) : Bool := decide (k + 2 * s < M)
def iOf (M k s : Nat) : Nat := M - k - 2 * s

/-- mass that stays at `S = s` (a recovery) -/
def recPart (m : SIR) (M k : Nat) (v : List Rat) : List Rat :=
  mapIdx' (fun s x => if active M k s then x * pRec m s (iOf M k s) else 0) 0 v
/-- mass that leaves `S = s` for `S = s − 1` (an infection), still indexed by the source `s` -/
def infPart (m : SIR) (M k : Nat) (v : List Rat) : List Rat :=
  mapIdx' (fun s x => if active M k s then x * pInf m s (iOf M k s) else 0) 0 v
/-- mass that is absorbed at level `k` (`I = 0`: every rate is zero, the simulation stops) -/
def absPart (M k : Nat) (v : List Rat) : List Rat :=
  mapIdx' (fun s x => if active M k s then 0 else x) 0 v

/-- one jump of the embedded chain applied to `(alive, absorbed)`, both indexed by `S` -/
def level (m : SIR) (M k : Nat) (va : List Rat × List Rat) : List Rat × List Rat :=
  (List.zipWith (· + ·) (recPart m M k va.1) ((infPart m M k va.1).tail ++ [0]),
   List.zipWith (· + ·) va.2 (absPart M k va.1))

/-- all the probability at `S = s0` -/
def initAlive (s0 : Nat) : List Rat := List.replicate s0 0 ++ [1]

/-- `(alive, absorbed)` after the levels `ks` -/
def runLevels (m : SIR) (M : Nat) (ks : List Nat) (va : List Rat × List Rat) : List Rat × List Rat :=
  ks.foldl (fun va k => level m M k va) va

def finalRun (m : SIR) (s0 i0 : Nat) : List Rat × List Rat :=
  runLevels m (2 * s0 + i0) (List.range (2 * s0 + i0 + 1)) (initAlive s0, List.replicate (s0 + 1) 0)

/-- law of the number of susceptibles left when the epidemic is over: entry `s` = `P(S_∞ = s)`, `s = 0..s0` -/
def finalSusceptiblePMF (m : SIR) (s0 i0 : Nat) : List Rat := (finalRun m s0 i0).2

/-- law of the final size `Z = s0 − S_∞` (number of infections): entry `z` = `P(Z = z)`, `z = 0..s0` -/
def finalSizePMF (m : SIR) (s0 i0 : Nat) : List Rat := (finalSusceptiblePMF m s0 i0).reverse

end Pygom.Ctmc
