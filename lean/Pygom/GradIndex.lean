/-
Index selection of sensitivities and the chain-rule contraction of `BaseLoss` — executable model,
Mathlib-free.

`integrateFuncJac` on `ode_and_sensitivity(_IV)` returns rows
  `[x_0 … x_{nS-1} | ∂x/∂θ_0 (nS entries) | … | ∂x/∂θ_{nP-1} | ∂x/∂x0_0 | … | ∂x/∂x0_{nS-1}]`
(the by-parameter layout of C13).  `BaseLoss` picks the columns for the observed states and the free
parameters / free initial values (`_getTargetParamSensIndex`, `_getTargetStateSensIndex`) and contracts
them with the kernel derivative (`sens_to_grad`).

TWO VARIANTS of the index functions are modelled, switched by the single definition `current`:
* `asCoded`  — the tree as found: loops state-major, then `np.sort`; `_getTargetStateIndex` wraps every
               target state index in a list, so a given `target_state` ends in a `TypeError`;
* `repaired` — proposed_fixes/C07-index-order.diff and C07-target-state-index.diff: loops
               parameter-major in the order supplied, no sort; target state indices are plain integers.
-/
import Pygom.Loss

namespace Pygom
namespace GradIndex
open Loss

variable {α : Type}

/-! ### `np.sort` on index lists -/

def insertSorted (a : Nat) : List Nat → List Nat
  | [] => [a]
  | b :: l => if a ≤ b then a :: b :: l else b :: insertSorted a l

/-- `np.sort(np.array(l)).tolist()` -/
def npSort : List Nat → List Nat
  | [] => []
  | a :: l => insertSorted a (npSort l)

/-! ### which tree is modelled -/

structure CodeVariant where
  /-- `np.sort` applied to the state-major index list (`true` = as found) -/
  sortIndices : Bool
  /-- `_getTargetStateIndex` returns `[[i], [j], …]` for a given `target_state` (`true` = as found) -/
  targetStateNested : Bool
  deriving Repr, DecidableEq

def asCoded : CodeVariant := ⟨true, true⟩
def repaired : CodeVariant := ⟨false, false⟩

/-- THE SWITCH.  `repaired` models /repo with proposed_fixes/C07-index-order.diff and
C07-target-state-index.diff applied; set to `asCoded` to model the tree without them (then
`Props/C07.lean`'s required theorem is `grad_is_chain_rule_partial`, see the note there). -/
def current : CodeVariant := repaired

/-! ### parameter / state name → index -/

/-- `_getTargetParamIndex`: all parameters, or `get_param_index` of every name in the order supplied -/
def targetParamIndex (params : List String) : Option (List String) → Except String (List Nat)
  | none => .ok (List.range params.length)
  | some tgt => lookupAll params tgt

/-- `_getTargetStateIndex` (as repaired: plain indices) -/
def targetStateIndex (states : List String) : Option (List String) → Except String (List Nat)
  | none => .ok (List.range states.length)
  | some tgt => lookupAll states tgt

/-! ### sensitivity column selection -/

/-- columns `j + off i`, state-major (`for j in state_index: for i in index_list`) then `np.sort` -/
def sensIndexCoded (off : Nat → Nat) (stateIdx freeIdx : List Nat) : List Nat :=
  npSort (stateIdx.flatMap fun j => freeIdx.map fun i => j + off i)

/-- columns `j + off i`, free-variable-major in the order supplied, no sort -/
def sensIndexRepaired (off : Nat → Nat) (stateIdx freeIdx : List Nat) : List Nat :=
  freeIdx.flatMap fun i => stateIdx.map fun j => j + off i

def sensIndexV (v : CodeVariant) (off : Nat → Nat) (stateIdx freeIdx : List Nat) : List Nat :=
  if v.sortIndices then sensIndexCoded off stateIdx freeIdx else sensIndexRepaired off stateIdx freeIdx

/-- block start of the sensitivities with respect to parameter `i`: `(i + 1) * nS` -/
def paramOff (nS : Nat) (i : Nat) : Nat := (i + 1) * nS
/-- block start of the sensitivities with respect to initial value `i`: `(i + 1 + nP) * nS` -/
def stateOff (nS nP : Nat) (i : Nat) : Nat := (i + 1 + nP) * nS

/-- `_getTargetParamSensIndex` given the resolved index lists -/
def targetParamSensIndexV (v : CodeVariant) (nS : Nat) (stateIdx paramIdx : List Nat) : List Nat :=
  sensIndexV v (paramOff nS) stateIdx paramIdx

/-- `_getTargetStateSensIndex` given the resolved index lists; `given` says whether `target_state` was
supplied (the nested-list defect only bites then) -/
def targetStateSensIndexV (v : CodeVariant) (nS nP : Nat) (stateIdx tgtIdx : List Nat) (given : Bool) :
    Except String (List Nat) :=
  if v.targetStateNested && given && !tgtIdx.isEmpty && !stateIdx.isEmpty then .error "TypeError"
  else .ok (sensIndexV v (stateOff nS nP) stateIdx tgtIdx)

def targetParamSensIndex := targetParamSensIndexV current
def targetStateSensIndex := targetStateSensIndexV current

/-! ### `sens_to_grad` -/

/-- `sens_to_grad(sens, diff_loss)`:
`sens` (n rows of `p` already selected columns) is reshaped `'F'` to `(n, num_s, num_out)`, i.e.
`sens3[i][a][b] = sens[i][a + b·num_s]`; every slice `[:, :, b]` is multiplied in place by the weights;
the gradient is `Σ_i diff_loss[i] · sens3[i]`. -/
def sensToGrad [Add α] [Mul α] [Zero α] [Inhabited α] (numS : Nat) (sens dl w : List (List α)) :
    Except String (List α) :=
  let n := sens.length
  let p := (sens.head?.map List.length).getD 0
  if n != dl.length then .error "AssertionError"
  else if numS == 0 then .error "ZeroDivisionError"
  else
    let numOut := p / numS
    if numS * numOut != p then .error "ValueError"
    else
      let sens3 (i a b : Nat) : α := entry sens i (a + b * numS)
      let weighted (i a b : Nat) : α := sens3 i a b * entry w i a
      let dotRow (i b : Nat) : α := ((List.range numS).map fun a => entry dl i a * weighted i a b).sum
      .ok ((List.range numOut).map fun b => ((List.range n).map fun i => dotRow i b).sum)

/-- `_sensToGradWithoutIndex` / `_sensToGradIVWithoutIndex`: select the columns, then contract -/
def gradFromSens [Add α] [Mul α] [Zero α] [Inhabited α] (numS : Nat) (index : List Nat)
    (solSens dl w : List (List α)) : Except String (List α) :=
  sensToGrad numS (selectCols solSens index) dl w

/-- `sensitivityIV`: parameter block, then initial-value block (`np.append(grad, grad_iv)`) -/
def gradIVFromSens [Add α] [Mul α] [Zero α] [Inhabited α] (numS : Nat) (indexP indexS : List Nat)
    (solSens dl w : List (List α)) : Except String (List α) :=
  match gradFromSens numS indexP solSens dl w, gradFromSens numS indexS solSens dl w with
  | .ok g, .ok gi => .ok (g ++ gi)
  | .error e, _ => .error e
  | _, .error e => .error e

end GradIndex
end Pygom
