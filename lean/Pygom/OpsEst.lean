/-
Driver ops of the estimation area (C17, C18): `abc`, `parOrder`, `boxBounds`.
-/
import Pygom.Codec
import Pygom.ABC
import Pygom.Fit

namespace Pygom
open Lean (Json)
open Pygom.ABC Pygom.Fit

namespace EstCodec

def etolOfJson (j : Json) : Except String ETol :=
  match j with
  | .str "inf" => pure .inf
  | _ => do pure (.fin (← ratOfJson j))

def etolToJson : ETol → Json
  | .inf => Json.str "inf"
  | .fin q => ratToJson q

def tolSpecOfJson (j : Json) : Except String TolSpec :=
  match j with
  | .arr a => do pure (.list (← a.toList.mapM etolOfJson))
  | _ => do pure (.scalar (← etolOfJson j))

def optRatOfJson (j : Json) : Except String (Option Rat) :=
  if j.isNull then pure none else do pure (some (← ratOfJson j))

def optRatToJson : Option Rat → Json
  | none => Json.null
  | some q => ratToJson q

def trialOfJson (j : Json) : Except String Trial := do
  let x ← listOfJson ratOfJson (fld j "x")
  let w1 ← ratOfJson (fld j "w1")
  let cost ← optRatOfJson (fld j "cost")
  let w2 ← ratOfJson (fld j "w2")
  pure { x := x, w1 := w1, cost := cost, w2 := w2 }

def qrowOfJson (j : Json) : Except String (List Rat × Rat) := do
  let a ← j.getArr?
  let l ← listOfJson ratOfJson (a[0]?.getD Json.null)
  let v ← ratOfJson (a[1]?.getD Json.null)
  pure (l, v)

/-- `Q` of a call: the values `np.quantile` returned at run time on the arguments it was called with (the
harness records them), and numpy's linear-interpolation definition everywhere else -/
def mkQ (q : Rat) (table : List (List Rat × Rat)) : List Rat → Rat :=
  fun l => match table.find? (fun r => r.1 == l) with
    | some r => r.2
    | none => quantileLinear q l

def callOfJson (j : Json) : Except String (Call × Rat) := do
  let cont ← (fld j "cont").getBool?
  let N ← (fld j "N").getNat?
  let G ← (fld j "G").getNat?
  let tol ← tolSpecOfJson (fld j "tol")
  let quant ← (fld j "quant").getBool?
  let q ← if (fld j "q").isNull then pure (0 : Rat) else ratOfJson (fld j "q")
  let M ← if (fld j "M").isNull then pure none else do pure (some (← (fld j "M").getNat?))
  let table ← if (fld j "qtable").isNull then pure [] else listOfJson qrowOfJson (fld j "qtable")
  pure ({ cont := cont, N := N, G := G, tol := tol, quant := quant, M := M, Q := mkQ q table }, q)

def acceptedToJson (a : Accepted) : Json :=
  Json.mkObj [("w", ratToJson a.w), ("rej", (a.rejections : Json)), ("x", ratsToJson a.x), ("dist", ratToJson a.dist)]

def genToJson (g : Gen) : Json :=
  Json.mkObj [("tol", etolToJson g.tol), ("parts", Json.arr (g.parts.map acceptedToJson).toArray)]

end EstCodec
open EstCodec

/-- run the calls one at a time so that the attributes after every call can be reported -/
def abcCalls : List (Call × Rat) → State → List Trial → List Json → List Json × Nat
  | [], _, s, acc => (acc.reverse, s.length)
  | (c, q) :: cs, st, s, acc =>
    match runCall c st s with
    | .error e => ((Json.mkObj [("err", e.toString)] :: acc).reverse, s.length)
    | .ok (st', s') =>
      let ngen := st'.tolerances.length
      let gens := st'.history.drop (st'.history.length - ngen)
      let o := Json.mkObj [
        ("tolerances", Json.arr (st'.tolerances.map etolToJson).toArray),
        ("gens", Json.arr (gens.map genToJson).toArray),
        ("res", ratMatToJson st'.res), ("dist", ratsToJson st'.dist), ("w", ratsToJson st'.w),
        ("final_tol", match st'.finalTol with | some t => etolToJson t | none => Json.null),
        ("next_tol", optRatToJson st'.nextTol),
        ("next_tol_linear", if c.quant then ratToJson (quantileLinear q st'.dist) else Json.null),
        ("tol_linear", Json.arr ((gens.zip (gens.drop 1)).map (fun p =>
            if c.quant then ratToJson (quantileLinear q p.1.dists) else Json.null)).toArray),
        ("history_tols", Json.arr (st'.history.map (fun g => etolToJson g.tol)).toArray)]
      abcCalls cs st' s' (o :: acc)

def opAbc (j : Json) : Except String Json := do
  let numParam ← (fld j "numParam").getNat?
  let calls ← listOfJson callOfJson (fld j "calls")
  let stream ← listOfJson trialOfJson (fld j "stream")
  let (outs, left) := abcCalls calls (State.init numParam) stream []
  pure (Json.mkObj [("calls", Json.arr outs.toArray), ("unconsumed", (left : Json))])

/-- a value with the number of times the back-transform `10**·` was applied to it -/
structure Tagged where
  v : Rat
  pow : Nat
  deriving Inhabited

def optStrsOfJson (j : Json) : Except String (Option (List String)) :=
  if j.isNull then pure none else do pure (some (← listOfJson (fun (x : Json) => x.getStr?) j))

def opParOrder (j : Json) : Except String Json := do
  let user ← listOfJson (fun (x : Json) => x.getStr?) (fld j "user")
  let log ← listOfJson (fun (x : Json) => x.getBool?) (fld j "log")
  let paramList ← listOfJson (fun (x : Json) => x.getStr?) (fld j "paramList")
  let stateList ← listOfJson (fun (x : Json) => x.getStr?) (fld j "stateList")
  let tp ← optStrsOfJson (fld j "targetParam")
  let ts ← optStrsOfJson (fld j "targetState")
  let x ← listOfJson ratOfJson (fld j "x")
  let f : Tagged → Tagged := fun t => { t with pow := t.pow + 1 }
  let xs : List Tagged := x.map (fun v => { v := v, pow := 0 })
  let b := trialBindings f log user paramList stateList tp ts xs
  let consumer := consumerNames paramList tp ts
  let b2 := bindings consumer (takeIdx (logParameters f log xs) (parOrderBy consumer user))
  let bj (b : List (String × Tagged)) : Json :=
    Json.arr (b.map (fun p => Json.arr #[(p.1 : Json), ratToJson p.2.v, (p.2.pow : Json)])).toArray
  pure (Json.mkObj [
    ("par_order", natsToJson (parOrder user paramList stateList)),
    ("par_order_by_consumer", natsToJson (parOrderBy consumer user)),
    ("ordered", strsToJson (orderedNames user paramList stateList)),
    ("consumer", strsToJson consumer),
    ("bindings", bj b), ("bindings_by_consumer", bj b2)])

def optBoundsOfJson (j : Json) : Except String (Option (List (Option Rat))) :=
  if j.isNull then pure none else do pure (some (← listOfJson optRatOfJson j))

def opBoxBounds (j : Json) : Except String Json := do
  let n ← (fld j "n").getNat?
  let lb ← optBoundsOfJson (fld j "lb")
  let ub ← optBoundsOfJson (fld j "ub")
  let hasA := (fld j "hasA").getBool?.toOption.getD false
  match prepBounds n lb ub with
  | .error _ => pure (Json.mkObj [("err", "InputError")])
  | .ok (l, u) =>
    let toJ (m : List (List (Option Rat))) : Json := Json.arr (m.map (fun r => Json.arr (r.map optRatToJson).toArray)).toArray
    pure (Json.mkObj [("bounds", toJ (boxBounds l u)), ("bounds_C", toJ (reshapeC (l ++ u) l.length 2)),
                      ("method", (chooseMethod hasA).toString)])

def handleEst (op : String) (j : Json) : Option (Except String Json) :=
  match op with
  | "abc" => some (opAbc j)
  | "parOrder" => some (opParOrder j)
  | "boxBounds" => some (opBoxBounds j)
  | _ => none

end Pygom
