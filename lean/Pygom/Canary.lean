/-
Recompile flags ("compile canaries") of pygom as a state machine.

Mirrors, line by line,
* `DeterministicOde.add_func` / `add_compiled_sympy_object`            (deterministic.py)
* `CompileCanary.trip / reset / __getattr__ / __setattr__`             (ode_utils/compile_canary.py)
* `HasNewTransition.states` of base_ode_model.py and simulate.py        (which names are watched)
* which mutators of base_ode_model.py call `_hasNewTransition.trip()`, which call `set_sp()`
* `_getEvalParam` (parameter VALUES are read at call time: `state + [time] + self._paramValue`)

State = current definition (`ModelDef`, mutated by `applyMut` of Build.lean), the attribute `_sp`
(argument list handed to lambdify/autowrap), `_paramValue`, and per evaluator an optional compiled
snapshot (`<name>Compiled`) plus its flag.  A snapshot records what the generator function read when it
was compiled: every generator (`get_ode_eqn`, `get_jacobian_eqn` -> `get_ode_eqn`, `get_grad_eqn` ->
`get_ode_eqn`, `get_TransitionJacobian` -> `get_StateChangeMatrix` + `get_EventRateVector`, ...) rebuilds
its sympy object from the event/ode lists of the model AT THAT MOMENT, so a snapshot is the pair
(definition at compile time, `_sp` at compile time).

SOURCE VARIANTS.  `Cfg` carries everything that differs between source trees:
  * `Cfg.simulate` / `Cfg.deterministic`                 = the tree WITH proposed_fixes/C08-*.diff applied
  * `Cfg.simulateAsFound` / `Cfg.deterministicAsFound`   = the tree as it was found
`sourceCfg` (bottom of this file) is what the driver and `Props/C08.lean` use; flip it to the `AsFound`
variants if a patch is not applied (see the table there).

No Mathlib import (linked into the driver).
-/
import Pygom.Build

namespace Pygom
namespace Canary

/-- the evaluators registered with `add_func` (6 in DeterministicOde.__init__ - `grad_grad` since the repair of finding
C20-hessian-mixed-terms -, 6 more in SimulateOde.__init__) -/
inductive Ev
  | ode | jacobian | diffJacobian | grad | gradJacobian | gradGrad
  | transitionJacobian | pureOdeVector | vMat | eventRateVector | transitionMean | transitionVar
deriving DecidableEq, Repr, Inhabited

def Ev.all : List Ev :=
  [.ode, .jacobian, .diffJacobian, .grad, .gradJacobian, .gradGrad,
   .transitionJacobian, .pureOdeVector, .vMat, .eventRateVector, .transitionMean, .transitionVar]

/-- the `method_name` given to `add_func` -/
def Ev.name : Ev → String
  | .ode => "ode" | .jacobian => "jacobian" | .diffJacobian => "diff_jacobian" | .grad => "grad"
  | .gradJacobian => "grad_jacobian" | .gradGrad => "grad_grad" | .transitionJacobian => "transitionJacobian"
  | .pureOdeVector => "pureOdeVector" | .vMat => "vMat" | .eventRateVector => "eventRateVector"
  | .transitionMean => "transitionMean" | .transitionVar => "transitionVar"

def Ev.ofName? (s : String) : Option Ev := Ev.all.find? (fun e => e.name == s)

/-- evaluators of `DeterministicOde` -/
def Ev.isDet : Ev → Bool
  | .ode | .jacobian | .diffJacobian | .grad | .gradJacobian | .gradGrad => true
  | _ => false

/-- which source-level mutator an operation goes through -/
inductive MutKind
  | addEvent | addTransition | addBirthDeath | addOde | addDerived | addParams | addStates
deriving DecidableEq, Repr, Inhabited

def mutKind : Mut → MutKind
  | .addEvent _ => .addEvent
  | .addTransition _ => .addTransition
  | .addBirthDeath _ => .addBirthDeath
  | .addOde _ => .addOde
  | .addDerived _ _ => .addDerived
  | .addParams _ => .addParams
  | .addStates _ => .addStates

/-- `param_list` / `state_list` setters: the mutators that change the symbols `_sp` is made of -/
def MutKind.isDecl : MutKind → Bool
  | .addParams | .addStates => true
  | _ => false

/-- what differs between source trees -/
structure Cfg where
  /-- `HasNewTransition.states` of the instance's canary: only these names are set by `trip()` -/
  watched : Ev → Bool
  /-- `is_master_canary` of the `add_func` call -/
  master : Ev → Bool
  /-- does the mutator call `self._hasNewTransition.trip()` -/
  trips : MutKind → Bool
  /-- do the `param_list` / `state_list` setters refresh `_sp` (and pad `_paramValue` with zeros) -/
  declSetsSp : Bool

/-- `set_sp`: `_sp = _stateList + [t] + _paramList` -/
def freshSp (d : ModelDef) : List String := d.states ++ ["t"] ++ d.params

/-- what a compiled closure was made from -/
structure Snap where
  ver  : Nat            -- number of successful mutator calls before the compile (index of the definition version)
  defn : ModelDef       -- what the generator function read
  sp   : List String    -- `_sp` handed to `compileExprAndFormat`
deriving Repr, Inhabited

structure CState where
  cur   : ModelDef            -- the definition held by the instance now
  ver   : Nat                 -- number of successful mutator calls so far
  sp    : List String         -- attribute `_sp`
  pvals : List Rat            -- attribute `_paramValue`
  snap  : Ev → Option Snap    -- attribute `<name>Compiled` (none = `not hasattr`)
  flag  : Ev → Bool           -- `getattr(self._hasNewTransition, name)`

inductive Op
  | mutate (m : Mut)
  | setParams (vals : List Rat)                   -- `model.parameters = ...` (already unrolled to `_paramValue` order)
  | evaluate (e : Ev) (x : List Rat) (t : Rat)    -- `model.<name>(x, t)`
deriving Inhabited

/-- a freshly constructed instance: nothing compiled, `CompileCanary.__init__` tripped every watched
name, `DeterministicOde.__init__` called `set_sp()` after `BaseOdeModel.__init__` took the definition.
(`SimulateOde.__init__` replaces the canary object by a new, again fully tripped, one.)
A name that is not watched has no entry in `_states`; `add_func` then only recompiles while the
`<name>Compiled` attribute is missing, and `reset` creates a plain attribute `False`: flag `false`. -/
def cinit (cfg : Cfg) (d : ModelDef) (pv : List Rat) : CState :=
  { cur := d, ver := 0, sp := freshSp d, pvals := pv, snap := fun _ => none, flag := cfg.watched }

/-- `CompileCanary.trip()` -/
def tripAll (cfg : Cfg) (flag : Ev → Bool) : Ev → Bool := fun n => if cfg.watched n then true else flag n

/-- zero padding of `_paramValue` up to the number of declared parameters -/
def padVals (n : Nat) (pv : List Rat) : List Rat := pv ++ List.replicate (n - pv.length) 0

/-- a mutator call; an exception leaves the instance as it was -/
def mutate (cfg : Cfg) (s : CState) (m : Mut) : CState × Bool :=
  match applyMut s.cur m with
  | .error _ => (s, false)
  | .ok d =>
    let k := mutKind m
    let refresh := cfg.declSetsSp && k.isDecl
    ({ s with cur := d, ver := s.ver + 1,
              sp := if refresh then freshSp d else s.sp,
              pvals := if refresh then padVals d.params.length s.pvals else s.pvals,
              flag := if cfg.trips k then tripAll cfg s.flag else s.flag }, true)

/-- `parameters` setter: new `_paramValue`, then `set_sp()`; no `trip()` -/
def setParams (s : CState) (vals : List Rat) : CState := { s with pvals := vals, sp := freshSp s.cur }

/-- `add_compiled_sympy_object`: generator function, compile against `_sp`, master trips all, reset own -/
def recompile (cfg : Cfg) (s : CState) (e : Ev) : CState × Snap :=
  let sn : Snap := ⟨s.ver, s.cur, s.sp⟩
  let flag1 := if cfg.master e then tripAll cfg s.flag else s.flag
  ({ s with snap := fun n => if n = e then some sn else s.snap n,
            flag := fun n => if n = e then false else flag1 n }, sn)

/-- the `func` closure of `add_func`: returns the new state, the snapshot whose closure is called,
and whether it was (re)compiled by this call -/
def evalStep (cfg : Cfg) (s : CState) (e : Ev) : CState × Snap × Bool :=
  match s.snap e with
  | none => let r := recompile cfg s e; (r.1, r.2, true)
  | some sn => if s.flag e then (let r := recompile cfg s e; (r.1, r.2, true)) else (s, sn, false)

/-- one observed evaluation -/
structure Obs where
  ev : Ev
  used : Snap             -- what the called closure was compiled from
  recompiled : Bool
  cur : ModelDef          -- definition at call time
  curVer : Nat
  pvals : List Rat        -- `_paramValue` at call time
  x : List Rat
  t : Rat

def step (cfg : Cfg) (s : CState) : Op → CState × Option Obs
  | .mutate m => ((mutate cfg s m).1, none)
  | .setParams vals => (setParams s vals, none)
  | .evaluate e x t =>
    let r := evalStep cfg s e
    (r.1, some ⟨e, r.2.1, r.2.2, s.cur, s.ver, s.pvals, x, t⟩)

/-- final state of a history -/
def runState (cfg : Cfg) (s : CState) : List Op → CState
  | [] => s
  | op :: ops => runState cfg (step cfg s op).1 ops

/-- the observations of a history, in order -/
def run (cfg : Cfg) (s : CState) : List Op → List Obs
  | [] => []
  | op :: ops =>
    let r := step cfg s op
    match r.2 with
    | some o => o :: run cfg r.1 ops
    | none => run cfg r.1 ops

/-- Semantics of "compile, then call": ANY function of (evaluator, definition the generator read,
argument symbols, argument values).  Theorems quantify over it, so they hold whatever lambdify /
autowrap and the generator functions compute (including raising). -/
abbrev Sem (V : Type) := Ev → ModelDef → List String → List Rat → V

/-- `compiled_obj(self._getEvalParam(state, time, None))` = closure applied to `state + [time] + _paramValue` -/
def Obs.value {V} (sem : Sem V) (o : Obs) : V := sem o.ev o.used.defn o.used.sp (o.x ++ [o.t] ++ o.pvals)

/-- the called closure was compiled from the current definition against the current symbols -/
def Obs.fresh (o : Obs) : Prop := o.used.defn = o.cur ∧ o.used.sp = freshSp o.cur

/-- what the same call returns on a freshly constructed instance with definition `d` and parameter values `pv` -/
def freshValue {V} (cfg : Cfg) (sem : Sem V) (d : ModelDef) (pv : List Rat) (e : Ev) (x : List Rat) (t : Rat) : V :=
  let r := evalStep cfg (cinit cfg d pv) e
  sem e r.2.1.defn r.2.1.sp (x ++ [t] ++ (cinit cfg d pv).pvals)

/-! ### secondary entry points: public aliases of the evaluators

`ode_T(t, state)`, `jacobian_T`, `grad_T`, `diff_jacobian_T`, `grad_jacobianT` (the time-first twins handed to the
integrators by `integrate2` and the loss classes) and `total_transition` (`sum(self.eventRateVector(...))`) are not
registered with `add_func`: as written each is `return self.<target>(state, t)`, i.e. it goes through the `func` closure
of the evaluator it names - the SAME compiled object behind the SAME flag.  An alias therefore is the `evaluate` of its
target (`AliasImpl.method`).  The other way to write one is a fast path that calls `<target>Compiled` directly while some
canary `g` is alive (`AliasImpl.direct g`): harmless when `g` is the target's own flag, stale when it is another one
(e.g. the master `ode`, which is reset by the ode's own recompile while the target is still tripped). -/

inductive Alias
  | odeT | jacobianT | gradT | diffJacobianT | gradJacobianT | totalTransition
deriving DecidableEq, Repr, Inhabited

def Alias.all : List Alias := [.odeT, .jacobianT, .gradT, .diffJacobianT, .gradJacobianT, .totalTransition]

/-- the method name -/
def Alias.name : Alias → String
  | .odeT => "ode_T" | .jacobianT => "jacobian_T" | .gradT => "grad_T" | .diffJacobianT => "diff_jacobian_T"
  | .gradJacobianT => "grad_jacobianT" | .totalTransition => "total_transition"

/-- the evaluator whose compiled object the alias returns (`total_transition` sums its entries) -/
def Alias.target : Alias → Ev
  | .odeT => .ode | .jacobianT => .jacobian | .gradT => .grad | .diffJacobianT => .diffJacobian
  | .gradJacobianT => .gradJacobian | .totalTransition => .eventRateVector

def Alias.ofName? (s : String) : Option Alias := Alias.all.find? (fun a => a.name == s)

/-- how an alias reaches the compiled object -/
inductive AliasImpl
  | method               -- `return self.<target>(state, t)`
  | direct (guard : Ev)  -- `if hasattr(self, "<target>Compiled") and not self._hasNewTransition.<guard>: return self.<target>Compiled(...)`,
                         --  else `return self.<target>(state, t)`
deriving DecidableEq, Repr, Inhabited

/-- one call of an alias of `e` -/
def aliasStep (cfg : Cfg) (impl : AliasImpl) (s : CState) (e : Ev) : CState × Snap × Bool :=
  match impl with
  | .method => evalStep cfg s e
  | .direct g =>
    match s.snap e with
    | some sn => if s.flag g then evalStep cfg s e else (s, sn, false)
    | none => evalStep cfg s e

/-- operations of a history that may go through aliases -/
inductive AOp
  | op (o : Op)
  | alias (a : Alias) (x : List Rat) (t : Rat)      -- `model.<alias>(t, x)`
deriving Inhabited

def astep (cfg : Cfg) (impl : Alias → AliasImpl) (s : CState) : AOp → CState × Option Obs
  | .op o => step cfg s o
  | .alias a x t =>
    let r := aliasStep cfg (impl a) s a.target
    (r.1, some ⟨a.target, r.2.1, r.2.2, s.cur, s.ver, s.pvals, x, t⟩)

/-- the observations of a history with aliases, in order -/
def arun (cfg : Cfg) (impl : Alias → AliasImpl) (s : CState) : List AOp → List Obs
  | [] => []
  | op :: ops =>
    let r := astep cfg impl s op
    match r.2 with
    | some o => o :: arun cfg impl r.1 ops
    | none => arun cfg impl r.1 ops

/-- an alias written as the source writes it IS the evaluation of its target -/
def AOp.lower : AOp → Op
  | .op o => o
  | .alias a x t => .evaluate a.target x t

/-- the aliases as the source writes them (`Pygom.C08Source.extracted_alias_impl_ok` re-checks this against the text) -/
def sourceAliasImpl : Alias → AliasImpl := fun _ => .method

/-! ### two live instances, and where the flags live

`CompileCanary._states = {}` is a CLASS attribute.  `CompileCanary.trip()` as written REBINDS it
(`self._states = dict(...)`), and `__init__` calls `trip()`, so every canary object owns its dict and
`__setattr__` (`self._states[name] = False`) writes to that object's dict only: `shared = false`.
A `trip()` that updates `self._states` in place writes to the class attribute, and every canary of every model
instance then reads and writes ONE dict: `shared = true` (after every operation of one instance the other
instance sees the same flags).  Everything else (`<name>Compiled`, `_sp`, `_paramValue`, the definition) is
held per instance in both variants. -/

inductive Who
  | A | B
deriving DecidableEq, Repr, Inhabited

structure PState where
  a : CState
  b : CState

def PState.get (p : PState) : Who → CState
  | .A => p.a
  | .B => p.b

/-- one operation addressed to one of two live instances -/
def pstep (cfg : Cfg) (shared : Bool) (p : PState) : Who × Op → PState × Option Obs
  | (.A, op) =>
    let r := step cfg p.a op
    ({ a := r.1, b := if shared then { p.b with flag := r.1.flag } else p.b }, r.2)
  | (.B, op) =>
    let r := step cfg p.b op
    ({ a := if shared then { p.a with flag := r.1.flag } else p.a, b := r.1 }, r.2)

/-- two freshly constructed instances -/
def pinit (cfg : Cfg) (dA : ModelDef) (pvA : List Rat) (dB : ModelDef) (pvB : List Rat) : PState :=
  ⟨cinit cfg dA pvA, cinit cfg dB pvB⟩

def prunState (cfg : Cfg) (shared : Bool) (p : PState) : List (Who × Op) → PState
  | [] => p
  | wo :: ops => prunState cfg shared (pstep cfg shared p wo).1 ops

/-- the observations of an interleaved history, each with the instance that made it -/
def prun (cfg : Cfg) (shared : Bool) (p : PState) : List (Who × Op) → List (Who × Obs)
  | [] => []
  | wo :: ops =>
    let r := pstep cfg shared p wo
    match r.2 with
    | some o => (wo.1, o) :: prun cfg shared r.1 ops
    | none => prun cfg shared r.1 ops

/-- the operations addressed to one instance -/
def opsOf (w : Who) (ops : List (Who × Op)) : List Op :=
  ops.filterMap (fun wo => if wo.1 = w then some wo.2 else none)

/-- the observations made by one instance -/
def obsOf (w : Who) (os : List (Who × Obs)) : List Obs :=
  os.filterMap (fun wo => if wo.1 = w then some wo.2 else none)

/-! ### source variants -/

def allEv : Ev → Bool := fun _ => true
def noEv : Ev → Bool := fun _ => false
def odeMaster : Ev → Bool := fun e => e = .ode

/-- PATCHED tree (`SimulateOde`; `simulate.HasNewTransition.states` lists all twelve evaluators) -/
def Cfg.simulate : Cfg :=
  { watched := allEv, master := odeMaster, trips := fun _ => true, declSetsSp := true }

/-- tree AS FOUND: `add_ode` does not trip; the declaration setters leave `_sp` / `_paramValue` alone -/
def asFoundTrips : MutKind → Bool
  | .addOde => false
  | _ => true

def Cfg.simulateAsFound : Cfg :=
  { watched := allEv, master := odeMaster, trips := asFoundTrips, declSetsSp := false }

/-- a canary that watches nothing, as `base_ode_model.HasNewTransition` (`states = []`), which is what a
bare `DeterministicOde` carries (that class cannot evaluate without a hand-assigned `_SC`, so it is not
part of the checked source; kept for `stale_unwatched_counterexample` and the "evaluator missing from
the flag list" mutation) -/
def Cfg.unwatched : Cfg :=
  { watched := noEv, master := odeMaster, trips := fun _ => true, declSetsSp := true }

/-!
### which variant is "the source"

`sourceCfg` is what the driver (`canary` op) and `Props/C08.lean` (`never_stale_source`) use.  It is the
tree WITH the proposed fixes applied:

| proposed fix                          | if NOT applied, flip in `sourceCfg`     |
|---------------------------------------|------------------------------------------|
| C08-add-ode-trip.diff                 | `trips := asFoundTrips`                  |
| C08-decl-setters-refresh-sp.diff      | `declSetsSp := false`                    |

(with both unapplied `sourceCfg = Cfg.simulateAsFound`; `Pygom.C08.source_good` then no longer proves,
which is the intended signal, and `never_stale_partial` + the counterexamples are what holds).
The harness can also ask the driver for the as-found variant (`"cfg":"as_found"`, env VERIF_C08_CFG).
-/
def sourceCfg : Cfg := Cfg.simulate

/-- where the flags live in the source as modelled: `trip()` rebinds `self._states`, one dict per canary object
(`Pygom.C08Source.extracted_store_eq_source` re-checks this against the text of compile_canary.py) -/
def sourceShared : Bool := false

def asFoundCfg : Cfg := Cfg.simulateAsFound

end Canary
end Pygom
