/-
JSON codec for the line protocol between the Python harness and the Lean driver.
Expressions are nested arrays: ["num","3/4"], ["pi"], ["var","S"], ["add",a,b], ["pow",a,2], ...
-/
import Lean.Data.Json
import Pygom.Model

namespace Pygom
open Lean (Json)

def parseRat (s : String) : Except String Rat :=
  match s.splitOn "/" with
  | [p] => match p.toInt? with
    | some n => .ok (n : Rat)
    | none => .error s!"bad rational {s}"
  | [p, q] => match p.toInt?, q.toNat? with
    | some n, some d => if d == 0 then .error "zero denominator" else .ok (mkRat n d)
    | _, _ => .error s!"bad rational {s}"
  | _ => .error s!"bad rational {s}"

def ratToString (q : Rat) : String := if q.den == 1 then toString q.num else s!"{q.num}/{q.den}"

partial def exprOfJson (j : Json) : Except String Expr := do
  let arr ← j.getArr?
  let tag ← (arr[0]?.getD Json.null).getStr?
  let arg (i : Nat) : Except String Expr := exprOfJson (arr[i]?.getD Json.null)
  match tag with
  | "num" => do let s ← (arr[1]?.getD Json.null).getStr?; let q ← parseRat s; pure (.num q)
  | "pi"  => pure .pi
  | "var" => do let s ← (arr[1]?.getD Json.null).getStr?; pure (.var s)
  | "add" => do pure (.add (← arg 1) (← arg 2))
  | "sub" => do pure (.sub (← arg 1) (← arg 2))
  | "mul" => do pure (.mul (← arg 1) (← arg 2))
  | "div" => do pure (.div (← arg 1) (← arg 2))
  | "neg" => do pure (.neg (← arg 1))
  | "pow" => do let n ← (arr[2]?.getD Json.null).getNat?; pure (.pow (← arg 1) n)
  | "exp" => do pure (.exp (← arg 1))
  | "log" => do pure (.log (← arg 1))
  | "sin" => do pure (.sin (← arg 1))
  | "cos" => do pure (.cos (← arg 1))
  | t => .error s!"unknown expr tag {t}"

def exprToJson : Expr → Json
  | .num q => Json.arr #["num", ratToString q]
  | .pi => Json.arr #["pi"]
  | .var s => Json.arr #["var", s]
  | .add a b => Json.arr #["add", exprToJson a, exprToJson b]
  | .sub a b => Json.arr #["sub", exprToJson a, exprToJson b]
  | .mul a b => Json.arr #["mul", exprToJson a, exprToJson b]
  | .div a b => Json.arr #["div", exprToJson a, exprToJson b]
  | .neg a => Json.arr #["neg", exprToJson a]
  | .pow a n => Json.arr #["pow", exprToJson a, (n : Nat)]
  | .exp a => Json.arr #["exp", exprToJson a]
  | .log a => Json.arr #["log", exprToJson a]
  | .sin a => Json.arr #["sin", exprToJson a]
  | .cos a => Json.arr #["cos", exprToJson a]

def optExprOfJson (j : Json) : Except String (Option Expr) :=
  if j.isNull then pure none else do pure (some (← exprOfJson j))

def optStrOfJson (j : Json) : Except String (Option String) :=
  if j.isNull then pure none else do pure (some (← j.getStr?))

def fld (j : Json) (k : String) : Json := (j.getObjVal? k).toOption.getD Json.null

def ttypeOfString : String → Except String TType
  | "B" => pure .B | "D" => pure .D | "T" => pure .T | "ODE" => pure .ODE
  | s => .error s!"bad transition type {s}"

def exprsToJson (l : List Expr) : Json := Json.arr (l.map exprToJson).toArray
def matToJson (l : List (List Expr)) : Json := Json.arr (l.map exprsToJson).toArray
def natsToJson (l : List Nat) : Json := Json.arr (l.map (fun (n : Nat) => (n : Json))).toArray
def strsToJson (l : List String) : Json := Json.arr (l.map (fun (s : String) => (s : Json))).toArray

def listOfJson {α} (f : Json → Except String α) (j : Json) : Except String (List α) := do
  let arr ← j.getArr?
  arr.toList.mapM f

def intOptOfJson (j : Json) : Except String (Option Int) :=
  if j.isNull then pure none else do pure (some (← j.getInt?))

def ratOfJson (j : Json) : Except String Rat := do
  match j with
  | .str s => parseRat s
  | _ => do let n ← j.getInt?; pure (n : Rat)

def ratToJson (q : Rat) : Json := Json.str (ratToString q)
def ratsToJson (l : List Rat) : Json := Json.arr (l.map ratToJson).toArray
def ratMatToJson (l : List (List Rat)) : Json := Json.arr (l.map ratsToJson).toArray
def intsToJson (l : List Int) : Json := Json.arr (l.map (fun (n : Int) => (n : Json))).toArray

end Pygom
