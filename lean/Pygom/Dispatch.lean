/-
Dispatcher of the driver: the first handler that knows the op answers.
To add an area: `import Pygom.Ops<Area>` and append `handle<Area>` to `handlers`.
-/
import Pygom.Ops
import Pygom.OpsIntegrate
import Pygom.OpsParams
import Pygom.OpsStoch
import Pygom.OpsSens
import Pygom.OpsLoss
import Pygom.OpsCanary
import Pygom.OpsEst
import Pygom.OpsCtmc
import Pygom.OpsSeed

namespace Pygom
open Lean (Json)

def handlers : List (String → Json → Option (Except String Json)) :=
  [ handleCore
  , handleIntegrate
  , handleParams
  , handleStoch
  , handleSens
  , handleLoss
  , handleCanary
  , handleEst
  , handleCtmc
  , handleSeed
  ]

def handle (j : Json) : Json :=
  match (fld j "op").getStr? with
  | .error e => Json.mkObj [("fatal", e)]
  | .ok op =>
    match handlers.findSome? (fun h => h op j) with
    | none => Json.mkObj [("fatal", s!"unknown op {op}")]
    | some (.ok v) => v
    | some (.error e) => Json.mkObj [("fatal", e)]

end Pygom
