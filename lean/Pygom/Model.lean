/-
Model definitions and the assembly algorithms of pygom, mirrored line by line:

* `Transition.__init__`, `Event.__init__`                (transition.py)
* `add_transition / add_event / add_birth_death / add_ode`,
  `_add_list_attr(_with_limits)`, `_addDerivedParam`      (base_ode_model.py)
* `get_ode_eqn`, `get_StateChangeMatrix`, `get_EventRateVector`,
  `get_pureOdeVector`, `get_ReactantMatrix`, `get_TransitionMatrix`,
  `get_BirthDeathVector`                                  (deterministic.py / base_ode_model.py)
* `get_jacobian_eqn`, `get_grad_eqn`, `get_diff_jacobian_eqn`,
  `get_grad_jacobian_eqn`, `get_TransitionJacobian/Mean/Var` (deterministic.py / simulate.py)

No Mathlib import (linked into the driver).
-/
import Pygom.Expr

namespace Pygom
open Expr

inductive TType | B | D | T | ODE
deriving Repr, BEq, DecidableEq, Inhabited

/-- A constructed `Transition` object (after `__init__` succeeded). -/
structure Transn where
  ttype     : TType
  origin    : Option String      -- `_orig_state` (unset for births)
  dest      : Option String      -- `_dest_state` (unset for deaths / ODEs)
  magnitude : Expr
  equation  : Option Expr
deriving Repr, BEq, Inhabited

/-- A constructed `Event` object (`rate` is an `Option` because the Python attribute can be `None`
for an event without transitions and without a rate argument... which the constructor rejects; kept
optional so that the model can express every object the constructor can return). -/
structure Event where
  rate        : Option Expr
  transitions : List Transn
deriving Repr, BEq, Inhabited

/-- errors are mapped to a small enum, as the harness does for Python exceptions -/
inductive Err
  | inputState      -- transition.InputStateError
  | input           -- _model_errors.InputError
  | notAState       -- ValueError from list.index
  | noRate          -- AssertionError in checkEquation(None)
deriving Repr, BEq, DecidableEq, Inhabited

def Err.toString : Err → String
  | .inputState => "InputStateError" | .input => "InputError"
  | .notAState => "ValueError" | .noRate => "AssertionError"

/-- `Transition.__init__` -/
def mkTransition (origin : Option String) (equation : Option Expr) (tt : TType)
    (destination : Option String) (magnitude : Expr) : Except Err Transn :=
  match tt with
  | .ODE =>
    if destination.isSome then .error .inputState
    else if origin.isNone then .error .inputState
    else .ok ⟨.ODE, origin, none, magnitude, equation⟩
  | .B =>
    match origin, destination with
    | some o, _      => .ok ⟨.B, none, some o, magnitude, equation⟩   -- destination = origin
    | none, none     => .error .inputState
    | none, some d   => .ok ⟨.B, none, some d, magnitude, equation⟩
  | .D =>
    if origin.isNone then .error .inputState
    else if destination.isSome then .error .inputState
    else .ok ⟨.D, origin, none, magnitude, equation⟩
  | .T =>
    match origin, destination with
    | none, _ => .error .inputState
    | some _, none => .error .inputState
    | some o, some d => if o = d then .error .inputState else .ok ⟨.T, some o, some d, magnitude, equation⟩

/-- `Event.__init__` (the argument is always a list here) -/
def mkEvent (trs : List Transn) (rate : Option Expr) : Except Err Event :=
  if trs.any (fun t => t.ttype == .ODE) then .error .inputState
  else match trs with
  | [t] =>
    match t.equation, rate with
    | some _, some _ => .error .inputState
    | some e, none   => .ok ⟨some e, trs⟩
    | none, none     => .error .inputState
    | none, some r   => .ok ⟨some r, trs⟩
  | _ =>
    let nEq := (trs.filter (fun t => t.equation.isSome)).length
    if nEq > 1 then .error .inputState
    else if nEq == 1 && rate.isSome then .error .inputState
    else if nEq == 0 && rate.isNone then .error .inputState
    else if nEq == 1 then .ok ⟨(trs.filterMap (·.equation)).head?, trs⟩   -- the member's equation is the rate
    else .ok ⟨rate, trs⟩

/-- The definition held by a `BaseOdeModel` instance. -/
structure ModelDef where
  states    : List String
  stateLims : List (Option Int × Option Int)   -- one per *declared* entry (not per expanded state)
  params    : List String
  derived   : List (String × Expr)             -- `_derivedParamDict`: name ↦ already substituted equation
  events    : List Event
  odes      : List Transn
deriving Repr, Inhabited

/-! ### declarations -/

/-- split a character list at separators, dropping empty pieces -/
def splitChars (sep : Char → Bool) : List Char → List Char → List (List Char)
  | [], cur => if cur.isEmpty then [] else [cur.reverse]
  | c :: cs, cur =>
    if sep c then (if cur.isEmpty then splitChars sep cs [] else cur.reverse :: splitChars sep cs [])
    else splitChars sep cs (c :: cur)

/-- `re_split_string.split` (`,|\s`) followed by dropping blank pieces -/
def splitDecl (s : String) : List String :=
  (splitChars (fun c => c == ',' || c.isWhitespace) s.toList []).map String.ofList

/-- sympy's `symbols('y1:4')` range syntax, in the two forms the generator uses
(`<prefix><a>:<b>` and `<prefix>:<b>`); any other name is a single symbol. -/
def expandName (s : String) : List String :=
  match splitChars (· == ':') s.toList [] with
  | [l, r] =>
    if s.toList.count ':' != 1 then [s] else
    match (String.ofList r).toNat? with
    | none => [s]
    | some hi =>
      let digits := (l.reverse.takeWhile Char.isDigit).reverse
      let pre := String.ofList (l.take (l.length - digits.length))
      let lo := if digits.isEmpty then 0 else ((String.ofList digits).toNat?).getD 0
      (List.range (hi - lo)).map (fun k => pre ++ toString (lo + k))
  | _ => [s]

/-- `_addStateSymbol` / `_addParamSymbol` over a list: expand ranges, skip names already in the
*parameter* list (both functions test `str(symbol) not in self._paramList`). -/
def addSymbols (paramsSoFar : List String) (target : List String) (names : List String) (isParam : Bool) :
    List String :=
  (names.flatMap expandName).foldl
    (fun acc nm =>
      let plist := if isParam then acc else paramsSoFar
      if plist.contains nm then acc else acc ++ [nm]) target

/-- `_addDerivedParam`: the stored value is the equation with every earlier derived parameter substituted -/
def addDerived (m : ModelDef) (name : String) (eqn : Expr) : ModelDef :=
  { m with derived := m.derived ++ [(name, substAll m.derived eqn)] }

/-- `checkEquation(·, *self._getListOfVariablesDict())` on an already parsed equation -/
def ModelDef.fix (m : ModelDef) (e : Expr) : Expr := substAll m.derived e

/-! ### API routes -/

/-- `add_event` with an `Event` -/
def addEvent (m : ModelDef) (e : Event) : ModelDef := { m with events := m.events ++ [e] }

/-- `add_event` with a bare `Transition`: its equation becomes the event rate -/
def addEventTransition (m : ModelDef) (t : Transn) : Except Err ModelDef := do
  let ev ← mkEvent [{ t with equation := none }] t.equation
  pure (addEvent m ev)

/-- legacy `add_transition` (rebuilds the transition inside a new Event, keeping its magnitude) -/
def addTransition (m : ModelDef) (t : Transn) : Except Err ModelDef :=
  if t.ttype != .T then .error .input
  else do
    let tr ← mkTransition t.origin none .T t.dest t.magnitude
    let ev ← mkEvent [tr] t.equation
    pure (addEvent m ev)

/-- legacy `add_birth_death` -/
def addBirthDeath (m : ModelDef) (t : Transn) : Except Err ModelDef :=
  let mag := t.magnitude
  match t.ttype with
  | .B => do
    let tr ← mkTransition none none .B t.dest mag
    let ev ← mkEvent [tr] t.equation
    pure (addEvent m ev)
  | .D => do
    let tr ← mkTransition t.origin none .D none mag
    let ev ← mkEvent [tr] t.equation
    pure (addEvent m ev)
  | _ => .error .input

/-- `add_ode` -/
def addOde (m : ModelDef) (t : Transn) : Except Err ModelDef :=
  if t.ttype != .ODE then .error .input else .ok { m with odes := m.odes ++ [t] }

/-! ### assembly -/

def stateIndex (m : ModelDef) (s : Option String) : Except Err Nat :=
  match s with
  | none => .error .notAState
  | some nm => let i := m.states.idxOf nm; if i < m.states.length then .ok i else .error .notAState

def addAt (acc : List Expr) (i : Nat) (e : Expr) : List Expr := acc.modify i (fun a => Expr.add a e)
def subAt (acc : List Expr) (i : Nat) (e : Expr) : List Expr := acc.modify i (fun a => Expr.sub a e)

def zeros (n : Nat) : List Expr := List.replicate n zero

/-- a transition with its state names resolved to indices -/
structure RTrans where
  ttype : TType
  origin : Nat
  dest : Nat
  magnitude : Expr     -- after derived substitution
deriving Repr, Inhabited

structure REvent where
  rate : Expr          -- after derived substitution
  transitions : List RTrans
deriving Repr, Inhabited

def resolveTrans (m : ModelDef) (t : Transn) : Except Err RTrans := do
  let mag := m.fix t.magnitude
  match t.ttype with
  | .B => let d ← stateIndex m t.dest; pure ⟨.B, 0, d, mag⟩
  | .D => let o ← stateIndex m t.origin; pure ⟨.D, o, 0, mag⟩
  | .T => let o ← stateIndex m t.origin; let d ← stateIndex m t.dest; pure ⟨.T, o, d, mag⟩
  | .ODE => pure ⟨.ODE, 0, 0, mag⟩

def resolveEvent (m : ModelDef) (e : Event) : Except Err REvent := do
  match e.rate with
  | none => .error .noRate
  | some r =>
    let trs ← e.transitions.mapM (resolveTrans m)
    pure ⟨m.fix r, trs⟩

def resolveEvents (m : ModelDef) : Except Err (List REvent) := m.events.mapM (resolveEvent m)

def resolveOdes (m : ModelDef) : Except Err (List (Nat × Expr)) :=
  m.odes.mapM (fun t => do
    let o ← stateIndex m t.origin
    match t.equation with
    | none => .error .noRate
    | some e => pure (o, m.fix e))

/-- one transition's contribution inside `get_ode_eqn` -/
def transStep (rate : Expr) (acc : List Expr) (tr : RTrans) : List Expr :=
  let roc := Expr.mul tr.magnitude rate
  match tr.ttype with
  | .B => addAt acc tr.dest roc
  | .D => subAt acc tr.origin roc
  | .T => addAt (subAt acc tr.origin roc) tr.dest roc
  | .ODE => acc

def eventStep (acc : List Expr) (ev : REvent) : List Expr := ev.transitions.foldl (transStep ev.rate) acc

def odeStep (acc : List Expr) (o : Nat × Expr) : List Expr := addAt acc o.1 o.2

/-- `get_ode_eqn` on resolved data (the three accumulators of the code are summed entrywise at the
end; a single accumulator visited in the same order has the same value, which is what is compared) -/
def odeEqnR (n : Nat) (evs : List REvent) (odes : List (Nat × Expr)) : List Expr :=
  odes.foldl odeStep (evs.foldl eventStep (zeros n))

def pureOdeR (n : Nat) (odes : List (Nat × Expr)) : List Expr := odes.foldl odeStep (zeros n)

/-- column `j` of `get_StateChangeMatrix` -/
def vcolStep (acc : List Expr) (tr : RTrans) : List Expr :=
  match tr.ttype with
  | .B => addAt acc tr.dest tr.magnitude
  | .D => subAt acc tr.origin tr.magnitude
  | .T => addAt (subAt acc tr.origin tr.magnitude) tr.dest tr.magnitude
  | .ODE => acc

def vcol (n : Nat) (ev : REvent) : List Expr := ev.transitions.foldl vcolStep (zeros n)

/-- state-change matrix stored column-wise: `vmatCols[j][i] = V[i,j]` -/
def vmatColsR (n : Nat) (evs : List REvent) : List (List Expr) := evs.map (vcol n)

def rateVecR (evs : List REvent) : List Expr := evs.map (·.rate)

def setAt (acc : List Nat) (i : Nat) : List Nat := acc.set i 1

def reactColStep (acc : List Nat) (tr : RTrans) : List Nat :=
  match tr.ttype with
  | .B => setAt acc tr.dest
  | .D => setAt acc tr.origin
  | .T => setAt (setAt acc tr.origin) tr.dest
  | .ODE => acc

def reactantColsR (n : Nat) (evs : List REvent) : List (List Nat) :=
  evs.map (fun ev => ev.transitions.foldl reactColStep (List.replicate n 0))

/-- everything `assemble` reports -/
structure Assembled where
  ode      : List Expr
  vmatCols : List (List Expr)
  rates    : List Expr
  pureOde  : List Expr
  reactCols : List (List Nat)
deriving Repr, Inhabited

def assemble (m : ModelDef) : Except Err Assembled := do
  let evs ← resolveEvents m
  let odes ← resolveOdes m
  let n := m.states.length
  pure { ode := odeEqnR n evs odes, vmatCols := vmatColsR n evs, rates := rateVecR evs,
         pureOde := pureOdeR n odes, reactCols := reactantColsR n evs }

/-! ### derivative objects (deterministic.py / simulate.py), with the verified `Expr.diff` in the
place of `sympy.diff` -/

/-- `get_jacobian_eqn`: row i, column j ↦ ∂f_i/∂x_j -/
def jacobianEqn (states : List String) (ode : List Expr) : List (List Expr) :=
  ode.map (fun f => states.map (fun s => diff s f))

/-- `get_grad_eqn`: row i, column k ↦ ∂f_i/∂θ_k -/
def gradEqn (params : List String) (ode : List Expr) : List (List Expr) :=
  ode.map (fun f => params.map (fun p => diff p f))

/-- `get_diff_jacobian_eqn`: blocks joined by `col_join`; row `e*nS + i`, column `j` ↦ ∂²f_e/∂x_i∂x_j -/
def diffJacobianEqn (states : List String) (ode : List Expr) : List (List Expr) :=
  ode.flatMap (fun f => states.map (fun si => states.map (fun sj => diff sj (diff si f))))

/-- `get_grad_jacobian_eqn`: row `k*nS + i`, column `j` ↦ ∂/∂x_j (∂f_i/∂θ_k) -/
def gradJacobianEqn (states params : List String) (ode : List Expr) : List (List Expr) :=
  params.flatMap (fun p => ode.map (fun f => states.map (fun sj => diff sj (diff p f))))

/-- `get_grad_grad_eqn`: row `i*nP + j`, column `k` ↦ ∂/∂θ_k (∂f_i/∂θ_j)  (the three nested loops of the code:
states' equations, parameters, parameters) -/
def gradGradEqn (params : List String) (ode : List Expr) : List (List Expr) :=
  ode.flatMap (fun f => params.map (fun pj => params.map (fun pk => diff pk (diff pj f))))

def sumExprs (l : List Expr) : Expr := l.foldl Expr.add zero

/-- `get_TransitionJacobian`: F[i][j] = Σ_k ∂a_i/∂x_k · V[k][j] -/
def transitionJacobian (states : List String) (rates : List Expr) (vmatCols : List (List Expr)) :
    List (List Expr) :=
  rates.map (fun a => vmatCols.map (fun col =>
    sumExprs ((states.zip col).map (fun sk => Expr.mul (diff sk.1 a) sk.2))))

/-- `get_TransitionMean`: μ_i = Σ_j F[i][j]·a_j -/
def transitionMean (F : List (List Expr)) (rates : List Expr) : List Expr :=
  F.map (fun row => sumExprs ((row.zip rates).map (fun fa => Expr.mul fa.1 fa.2)))

/-- `get_TransitionVar`: σ²_i = Σ_j F[i][j]²·a_j -/
def transitionVar (F : List (List Expr)) (rates : List Expr) : List Expr :=
  F.map (fun row => sumExprs ((row.zip rates).map (fun fa => Expr.mul (Expr.mul fa.1 fa.1) fa.2)))

end Pygom
