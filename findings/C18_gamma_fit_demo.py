"""C18 defect demo (REPAIRED in /repo by 9a6447c): fit raised for GammaLoss with one observed state (Gamma.diff_loss does not ravel the (n,1)
prediction the way Gamma.loss / diff2Loss do).  Run: /venv/bin/python findings/C18_gamma_fit_demo.py  (VERIF_REPO=<tree>)"""
import os, sys
sys.path.insert(0, os.path.join(os.environ.get("VERIF_REPO", "/repo"), "src"))
import numpy as np
from pygom import common_models, GammaLoss
ode = common_models.SIR_norm({'beta': 0.5, 'gamma': 0.25})
x0, t = [0.99, 0.01, 0.0], np.linspace(0, 32, 9)
ode.initial_values = (x0, t[0]); y = ode.integrate(t[1:])[1:, 1]
obj = GammaLoss([0.6, 0.3], ode, x0, t[0], t[1:], y, ['I'], shape=2.0, target_param=['beta', 'gamma'])
try:
    r = obj.fit([0.6, 0.3], lb=[0.2, 0.1], ub=[1.0, 0.6])
    print("fit returned", r, "cost", obj.cost(r), "<= start cost", obj.cost([0.6, 0.3]))
except Exception as e:
    print("VIOLATION: fit raised", type(e).__name__, e)
