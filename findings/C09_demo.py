# C09: a REJECTED `model.parameters = ...` is partly applied.   run: PYTHONPATH=<repo>/src /venv/bin/python findings/C09_demo.py
import warnings; warnings.filterwarnings('ignore')
from pygom import SimulateOde, Transition, Event
from pygom.model import ode_utils
def mk():
    m = SimulateOde(state=["x"], param=["b", "g"], event=[Event(rate="b*x", transition_list=[Transition(origin="x", transition_type="D")]),
                                                           Event(rate="g", transition_list=[Transition(destination="x", transition_type="B")])])
    m._SC = ode_utils.compileCode(backend='lambda'); m.parameters = [1.0, 2.0]; return m
m = mk()                                            # ode = -b*x + g ; at x=3: -1
try: m.parameters = {"g": 19.0, "zz": 1.0}          # unknown name -> InputError, but g=19 is already in the live dict
except Exception as e: print("rejected:", type(e).__name__, "| ode", m.ode([3.0], 0), "(unchanged)")
m.parameters = {"b": 5.0}                           # valid partial update that does not mention g
print("after {'b': 5}: ode =", m.ode([3.0], 0), " expected -5*3+2 = -13 ; _paramValue", m._paramValue)
m = mk()
try: m.parameters = [("g", 5.0), ("t", 7.0)]        # 't' is not a parameter -> ValueError, after the values were replaced
except Exception as e: print("rejected:", type(e).__name__, "| ode", m.ode([3.0], 0), " expected still -1 ; _paramValue", m._paramValue)
