import sys, numpy as np
from pygom import SimulateOde, Transition, SquareLoss
from pygom.model import ode_utils
m = SimulateOde(['S','I','R'],['beta','gamma'],
    transition=[Transition(origin='S',destination='I',equation='beta*S*I',transition_type='T'),
                Transition(origin='I',destination='R',equation='gamma*I',transition_type='T')])
m._SC = ode_utils.compileCode(backend='lambda')
theta=[0.6,0.25]; x0=[0.99,0.01,0.0]; t=np.linspace(0,10,11)
m.parameters=theta; m.initial_values=(x0,t[0])
sol=m.integrate(t[1:])
y=sol[1:,1]*1.05+0.01
obj=SquareLoss([0.5,0.3], m, x0, t[0], t[1:], y, ['I'])
th=np.array([0.5,0.3])
H=obj.hessian(th)
h=1e-5
Hfd=np.zeros((2,2))
for j in range(2):
    e=np.zeros(2); e[j]=h
    Hfd[:,j]=(obj.gradient(th+e)-obj.gradient(th-e))/(2*h)
print(H); print(Hfd)
ok=np.allclose(H,Hfd,rtol=1e-3,atol=1e-6)
print("OK" if ok else "MISMATCH"); sys.exit(0 if ok else 1)
