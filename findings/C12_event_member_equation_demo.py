import warnings; warnings.filterwarnings('ignore')
from pygom import SimulateOde, Transition, Event
e = Event(transition_list=[Transition(origin="S", destination="I", transition_type="T", equation="beta*S*I"), Transition(destination="R", transition_type="B", magnitude="2")])
print("rate stored:", e.rate)
m = SimulateOde(state="S, I R", param=["beta"], event=[e])
try: print(m.get_ode_eqn())
except Exception as ex: print(type(ex).__name__, ex)
