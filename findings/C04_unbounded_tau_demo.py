"""C04 known finding: adaptive tau-leap raises ValueError('lam value too large') instead of returning.
exit 1 when the defect is present, 0 otherwise.   PYTHONPATH=<tree>/src /venv/bin/python findings/C04_unbounded_tau_demo.py"""
import sys, warnings
import numpy as np
warnings.simplefilter("ignore")
from pygom import SimulateOde, Transition, Event
from pygom.model import ode_utils

# E is fed by a constant-rate birth (0.5*X, X never changes); the only rate that depends on E is 0.5*exp(-0.5*E)
m = SimulateOde(["X", "E", "R"], ["g"],
                event=[Event(rate="g*X", transition_list=[Transition(destination="E", transition_type="B")]),
                       Event(rate="g*exp(-g*E)", transition_list=[Transition(origin="E", destination="R", transition_type="T")])])
m._SC = ode_utils.compileCode(backend="lambda")
m.parameters = [0.5]
m.initial_values = (np.array([30.0, 876.0, 0.0]), np.float64(0))   # exp(-438) ~ 1e-190: negligible, not zero
np.random.seed(3)
try:
    X, J, T = m.solve_stochast(400.0, 1, exact=False, full_output=True)
except ValueError as exc:
    print("DEFECT: solve_stochast raised", repr(exc)); sys.exit(1)
print("returned; last time", T[0][-1]); sys.exit(0)
