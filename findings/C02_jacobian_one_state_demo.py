# C02: for a one-state model `jacobian` is compiled with the default output type, which flattens a 1x1
# matrix to a vector of shape (1,); every entry point that takes eigenvalues of it (integrate2 always,
# integrateFuncJac(full_output=True)) raises LinAlgError.  Run: [VERIF_REPO=<tree>] /venv/bin/python findings/C02_jacobian_one_state_demo.py
import os, sys; sys.path.insert(0, os.path.join(os.path.dirname(os.path.abspath(__file__)), '..'))
from harness import bootstrap; bootstrap.init()
import warnings; warnings.filterwarnings('ignore')
import numpy as np
from pygom import SimulateOde, Transition, Event
from pygom.model import ode_utils
m = SimulateOde(state=['D'], param=['b'], event=[Event(rate='b*D*D', transition_list=[Transition(origin='D', transition_type='D')])])
m.parameters = {'b': 0.5}; m.initial_values = (np.array([1.0]), 0.0)
print('jacobian shape', np.shape(m.jacobian(np.array([1.0]), 0.0)), ' exact solution 1/(1+t/2):', [1/(1+t/2) for t in (0.5, 1.0)])
print('integrate       ', m.integrate([0.5, 1.0]).ravel())
for name, call in [('integrate2', lambda: m.integrate2([0.5, 1.0])),
                   ('integrateFuncJac(full_output=True)', lambda: ode_utils.integrateFuncJac(m.ode_T, m.jacobian_T, np.array([1.0]), 0.0, [0.5, 1.0], full_output=True)[0])]:
    try: print(name, np.asarray(call()).ravel())
    except Exception as e: print(name, 'raised', type(e).__name__, e)
