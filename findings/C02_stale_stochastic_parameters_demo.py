# C02: once distributions were assigned to the parameters, `_stochasticParam` is never cleared: after EVERY parameter has
# been given a plain number again, integrate()/integrate2() silently replace those numbers by fresh random draws (and
# leave the draws behind in model.parameters) and solve_determ(t) raises InputError("Need to specify the number of
# iterations").  Run: [VERIF_REPO=<tree>] /venv/bin/python findings/C02_stale_stochastic_parameters_demo.py   (exit 1 = defect)
import os, sys; sys.path.insert(0, os.path.join(os.path.dirname(os.path.abspath(__file__)), '..'))
from harness import bootstrap; bootstrap.init()
import warnings; warnings.filterwarnings('ignore')
import numpy as np, scipy.stats
from scipy.integrate import solve_ivp
from pygom import common_models
m = bootstrap.fast_backend(common_models.SIR_norm())
t, x0, fixed = [1.0, 2.0, 3.0], [0.9, 0.1, 0.0], {'beta': 1.5, 'gamma': 0.5}
ref = solve_ivp(lambda s, x: [-1.5 * x[0] * x[1], 1.5 * x[0] * x[1] - 0.5 * x[1], 0.5 * x[1]], (0.0, 3.0), x0, method='DOP853',
                rtol=1e-12, atol=1e-12, t_eval=t).y.T
m.initial_values = (x0, 0.0)
m.parameters = {'beta': scipy.stats.gamma(a=100.0, scale=0.015), 'gamma': scipy.stats.gamma(a=100.0, scale=0.005)}
m.solve_determ(t, iteration=2)                       # random parameters, as documented
m.parameters = dict(fixed)                           # ... and now plain numbers for every parameter
bad = 0
for name, call in [('integrate', lambda: m.integrate(t)[1:]), ('integrate2', lambda: m.integrate2(t)[1:]), ('solve_determ', lambda: m.solve_determ(t)[1:])]:
    m.parameters = dict(fixed)
    try:
        err = float(np.max(np.abs(np.asarray(call()) - ref)))
        print('%-13s max |row - ODE solution for beta=1.5, gamma=0.5| = %.3g   parameters afterwards: %s' % (name, err, m.parameters))
        bad += err > 1e-6
    except Exception as e:
        print('%-13s raised %s: %s' % (name, type(e).__name__, e)); bad += 1
sys.exit(1 if bad else 0)
