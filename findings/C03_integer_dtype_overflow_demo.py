"""State vectors with a numpy integer dtype (the default of np.array([...]) for whole numbers) wrap around silently
inside the compiled evaluators: transitionVar / transitionMean of a population of 1e5 are wrong (int64), ode itself for int32.
exit 0 = holds, 1 = violated.   usage: PYTHONPATH=<repo>/src /venv/bin/python findings/C03_integer_dtype_overflow_demo.py"""
import sys, warnings
warnings.filterwarnings("ignore")
import numpy as np
from pygom import SimulateOde, Transition, Event
from pygom.model import ode_utils

m = SimulateOde(state=["V", "C"], param=["alpha"],
                event=[Event(transition_list=[Transition(origin="C", destination="V", transition_type="T", magnitude="3")], rate="alpha*C*C")])
m._SC = ode_utils.compileCode(backend="lambda")
m.parameters = [1.8]
print("transitionVar =", m.get_TransitionVar()[0], "   transitionMean =", m.get_TransitionMean()[0])
bad = False
for x in (np.array([340000, 190000]), np.array([3400, 1900], dtype=np.int32), np.array([340000, 190000], dtype=np.int32), (np.int64(340000), np.int64(190000))):
    xf = [float(v) for v in x]
    for name in ("ode", "transitionVar", "transitionMean"):
        got, want = np.asarray(getattr(m, name)(x, 0.0), float), np.asarray(getattr(m, name)(xf, 0.0), float)
        ok = np.allclose(got, want, rtol=1e-12)
        bad = bad or not ok
        print("%-14s x=%r (%s): %s %s" % (name, list(x), getattr(x, "dtype", type(x[0]).__name__), got.ravel()[:3], "" if ok else " != %s for the same point as floats" % want.ravel()[:3]))
print("VIOLATED: integer-dtype state vectors give wrong derivative objects" if bad else "holds")
sys.exit(1 if bad else 0)
