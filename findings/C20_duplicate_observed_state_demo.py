import sys, numpy as np, warnings
warnings.simplefilter('ignore')
from pygom import SquareLoss, common_models
from pygom.model import ode_utils
m=common_models.SIR_N_stochastic() if False else common_models.SIR()
m._SC = ode_utils.compileCode(backend='lambda')
t=np.linspace(0,10,11); x0=[0.99,0.01,0.0]; th=[0.6,0.25,1.0]
m.parameters=th; m.initial_values=(x0,t[0]); sol=m.integrate(t[1:])
y=np.column_stack([sol[1:,1]*1.1+0.01, sol[1:,1]*0.9-0.005])
obj=SquareLoss([0.5,0.3], m, x0, t[0], t[1:], y, ['I','I'], target_param=['beta','gamma'])
thv=np.array([0.5,0.3]); H=obj.hessian(thv)
h=1e-5; Hfd=np.zeros((2,2))
for j in range(2):
    e=np.zeros(2); e[j]=h
    Hfd[:,j]=(obj.gradient(thv+e)-obj.gradient(thv-e))/(2*h)
print(H); print(Hfd); print(obj.jtj(thv))
ok=np.allclose(H,Hfd,rtol=1e-3,atol=1e-6); print('OK' if ok else 'MISMATCH'); sys.exit(0 if ok else 1)
