'''C08 detection self-test: apply ONE source mutation to a scratch copy of pygom that already has
proposed_fixes/C08-*.diff applied.   usage: python3 findings/C08_mutations.py <scratch repo root>/ M1..M11
then  VERIF_REPO=<scratch repo root> ./check C08   (expected: VIOLATION, except M2, M3, M8 = no behavioural change)'''
import sys, subprocess
root=sys.argv[1]
def sub(path, old, new, count=1, crlf=False):
    b=open(root+path,'rb').read()
    if crlf:
        old=old.replace('\n','\r\n'); new=new.replace('\n','\r\n')
    assert b.count(old.encode())==count, (path, b.count(old.encode()))
    open(root+path,'wb').write(b.replace(old.encode(), new.encode()))
B='src/pygom/model/base_ode_model.py'; D='src/pygom/model/deterministic.py'; S='src/pygom/model/simulate.py'; C='src/pygom/model/ode_utils/compile_canary.py'
m=sys.argv[2]
if m=='M1':   # remove trip() from add_event
    sub(B,'''            self._eventList.append(event)
            self._hasNewTransition.trip()
''','''            self._eventList.append(event)
''')
    sub(B,'''            self._eventList.append(derived_event)
            self._hasNewTransition.trip()
''','''            self._eventList.append(derived_event)
''')
elif m=='M2':  # reset flag before compile
    sub(D,'''        # Make the sympy object
        sympy_obj=sympy_obj_generator_func()
''','''        self._hasNewTransition.reset(method_name)
        # Make the sympy object
        sympy_obj=sympy_obj_generator_func()
''',crlf=True)
    sub(D,'''        # Replace the corresponding dead canary with a live one (True to False)
        self._hasNewTransition.reset(method_name)
''','''        # Replace the corresponding dead canary with a live one (True to False)
''',crlf=True)
elif m=='M3':  # jacobian is the master canary instead of ode
    sub(D,'''self.add_func("ode", self.get_ode_eqn, oT="vec", is_master_canary=True)
        self.add_func("jacobian", self.get_jacobian_eqn, oT="mat")''','''self.add_func("ode", self.get_ode_eqn, oT="vec")
        self.add_func("jacobian", self.get_jacobian_eqn, oT="mat", is_master_canary=True)''',crlf=True)
elif m=='M4':  # evaluator missing from the flag list
    sub(S,'''              "vMat",
''','',crlf=True)
elif m=='M5':  # compiled closure captures the parameter values
    sub(D,'''        def comp_obj(state, time):
            return compiled_obj(self._getEvalParam(state, time, None))
''','''        captured = list(self._paramValue)
        def comp_obj(state, time):
            ev = self._getEvalParam(state, time, None)
            return compiled_obj(ev[:len(ev)-len(captured)] + captured)
''',crlf=True)
elif m=='M6':  # master compile RESETS the other flags instead of tripping them
    sub(D,'''        if is_master_canary:
            self._hasNewTransition.trip()
''','''        if is_master_canary:
            for nm in list(self._hasNewTransition._states): self._hasNewTransition.reset(nm)
''',crlf=True)
elif m=='M7':  # death branch of add_birth_death forgets trip()
    sub(B,'''                self._birthDeathList.append(death_event)
                self._hasNewTransition.trip()   
''','''                self._birthDeathList.append(death_event)
''')
elif m=='M8':  # _addDerivedParam forgets trip()
    sub(B,'''        self._hasNewTransition.trip()
        self._derivedParamEqn += [(name, eqn)]''','''        self._derivedParamEqn += [(name, eqn)]''')
elif m=='M9':  # trip() misses the last watched name
    sub(C,'''        self._states = dict([(state, True) for state in self.states])''','''        self._states = dict(list(getattr(self, '_states', {}).items()) + [(state, True) for state in self.states[:-1]])''',crlf=True)
elif m=='M10':  # add_transition forgets trip()
    sub(B,'''                self._transitionList.append(transition)
                self._hasNewTransition.trip()
''','''                self._transitionList.append(transition)
''')
elif m=='M11':  # flag test inverted: recompiles only when the flag is down
    sub(D,'''or getattr(self._hasNewTransition, method_name):''','''or not getattr(self._hasNewTransition, method_name):''',crlf=True)
else: raise SystemExit('unknown')
print(subprocess.run(['git','-C',root,'diff','--stat'],capture_output=True,text=True).stdout)
