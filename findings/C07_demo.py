# C07 demo:  [VERIF_REPO=<patched scratch>] /venv/bin/python findings/C07_demo.py     (default tree: /repo)
import os, sys, warnings; warnings.filterwarnings('ignore')
sys.path.insert(0, os.path.dirname(os.path.dirname(os.path.abspath(__file__))))
from harness import bootstrap; bootstrap.init()
import numpy as np
from pygom import common_models, SquareLoss, GammaLoss
from pygom.model import ode_utils
m = common_models.SIR(); m._SC = ode_utils.compileCode(backend='lambda')
x0, t = [8.0, 1.5, 0.5], np.array([1.0, 2.0, 3.5, 5.0]); th = [0.5, 0.25, 10.0]
m.parameters = th; m.initial_values = (x0, 0.0); sol = m.integrate(t)[1:] * 1.1 + 0.05
def fd(f, u, h=1e-5): return np.array([(f(u + h*e) - f(u - h*e)) / (2*h) for e in np.eye(len(u))])
def show(tag, f):
    try: print(tag, f())
    except Exception as e: print(tag, 'RAISES', type(e).__name__, str(e)[:70])
o = SquareLoss(th, m, x0, 0.0, t, sol[:, [2, 1]], ['R', 'I'])                      # (i) observed states not ascending
show("(i)   ['R','I'] gradient", lambda: o.sensitivity(th)); show("      d cost / d theta ", lambda: fd(o.cost, np.array(th)))
m.parameters = th; o = SquareLoss([0.25, 0.5], m, x0, 0.0, t, sol[:, 1], 'I', target_param=['gamma', 'beta'])   # (ii) order of target_param
show("(ii)  target_param=[gamma,beta] gradient", lambda: o.sensitivity([0.25, 0.5])); show("      d cost / d (gamma,beta)         ", lambda: fd(o.cost, np.array([0.25, 0.5])))
m.parameters = th; o = GammaLoss(th, m, x0, 0.0, t, sol[:, 1], 'I')                # (iii) Gamma, one observed state (fixed in /repo by 9a6447c)
show("(iii) GammaLoss single state gradient", lambda: o.sensitivity(th))
m.parameters = th; o = SquareLoss(th, m, x0, 0.0, t, sol[:, [1, 2]], ['I', 'R'], target_state=['R'])            # (iv) target_state given
show("(iv)  target_state=['R'] sensitivityIV", lambda: o.sensitivityIV(th + [0.5]))
m.parameters = th; o = SquareLoss(th, m, x0, 0.0, t, sol[:, 1], 'I', state_weight=[1.0, 2.0, 0.5, 1.5])          # (v) per-observation weight vector
show("(v)   weight vector, single state gradient", lambda: o.sensitivity(th)); show("      d cost / d theta", lambda: fd(o.cost, np.array(th)))
