"""SimulateOde.total_transition(state, t) raises on every call on the tree as found: it calls the evaluator closure made by
add_func - signature (state, t) - with the keyword `time=`.  (Found by C08's secondary-entry-point observations; not a C08
violation - a freshly constructed model raises the same - so C08 tags it `alias-unusable-on-a-fresh-model:total_transition:TypeError`.)
Proposed repair: proposed_fixes/C08-total-transition-keyword.diff.  Run with PYTHONPATH=<tree>/src; exit 1 when it raises."""
import sys
from pygom import SimulateOde, Transition
from pygom.model.ode_utils import compileCode

m = SimulateOde(['S', 'I'], ['beta', 'gamma'],
                transition=[Transition(origin='S', destination='I', equation='beta*S*I', transition_type='T')],
                birth_death=[Transition(origin='I', equation='gamma*I', transition_type='D')])
m._SC = compileCode(backend='lambda')
m.parameters = [0.5, 0.25]
x, t = [10.0, 3.0], 0.0
want = float(sum(m.eventRateVector(x, t)))
try:
    got = float(m.total_transition(x, t))
except TypeError as exc:
    print("total_transition raises TypeError: %s   (sum of eventRateVector = %r)" % (exc, want))
    sys.exit(1)
print("total_transition = %r, sum of eventRateVector = %r" % (got, want))
sys.exit(0 if abs(got - want) < 1e-12 else 1)
