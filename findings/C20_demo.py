# C20: (1) hessian has the wrong sign on its second-order term, visible on a model WITHOUT mixed state-parameter terms;
# (2) a vector of per-observation weights for a single observed state makes gradient/jtj/hessian raise;
# (3) mixed terms missing (SIR) - repaired later (findings/C20_hessian_mixed_terms_demo.py).     Run: PYTHONPATH=<repo>/src python findings/C20_demo.py
import warnings; warnings.filterwarnings('ignore')
import numpy as np
from pygom import SimulateOde, Transition, SquareLoss, common_models
from pygom.model import ode_utils
def fd_hessian(L, th, h=1e-4):
    n = len(th); H = np.zeros((n, n)); th = np.array(th, float); E = np.eye(n)*h
    for a in range(n):
        for b in range(n):
            H[a, b] = (L.cost(th+E[a]+E[b]) - L.cost(th+E[a]-E[b]) - L.cost(th-E[a]+E[b]) + L.cost(th-E[a]-E[b]))/(4*h*h)
    return H
T = lambda s, e: Transition(origin=s, equation=e, transition_type='ODE')
m = SimulateOde(['x', 'y'], ['a', 'b'], ode=[T('x', '-x*x + a'), T('y', 'x - y + b')]); m._SC = ode_utils.compileCode(backend='lambda')
th = [0.5, 0.2]; m.parameters = th; t = np.linspace(0, 2, 9); m.initial_values = ([1.0, 0.5], 0.0)
y = m.integrate(t[1:])[1:, 1]*1.2 + 0.1
L = SquareLoss(th, m, [1.0, 0.5], 0.0, t[1:], y, 'y')
print('no mixed terms: hessian\n', L.hessian(th), '\nfinite differences of cost\n', fd_hessian(L, th), '\n2*jtj\n', 2*L.jtj(th))
s = common_models.SIR_norm(); s._SC = ode_utils.compileCode(backend='lambda'); th = [1.5, 0.4]; s.parameters = th
t = np.linspace(0, 5, 7); s.initial_values = ([.9, .1, 0.], 0.0); yi = s.integrate(t[1:])[1:, 1]*1.1
Lw = SquareLoss(th, s, [.9, .1, 0.], 0.0, t[1:], yi, 'I', state_weight=np.array([1, 2, 1, .5, 1, 2.]))
for fn in ('cost', 'gradient', 'jtj', 'hessian'):
    try: print(fn, getattr(Lw, fn)(th))
    except Exception as e: print(fn, 'raises', type(e).__name__, str(e)[:80])
Ls = SquareLoss(th, s, [.9, .1, 0.], 0.0, t[1:], yi, 'I')
print('SIR (mixed terms): hessian\n', Ls.hessian(th), '\nfinite differences of cost\n', fd_hessian(Ls, th))
