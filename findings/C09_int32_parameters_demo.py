"""C09: parameter values given as numpy int32 numbers (an int32 array - numpy's default integer on Windows before
numpy 2 -, np.int32 scalars) are kept as int32 in `_paramValue`; the compiled functions then do fixed-width integer
arithmetic and N*N*N overflows silently: ode()/grad() use a value that was never supplied.  Exit 1 when it shows."""
import sys, warnings
warnings.filterwarnings("ignore")
import numpy as np, pygom
from pygom import SimulateOde, Transition, Event
m = SimulateOde(state=["x"], param=["N", "g"],
                event=[Event(transition_list=[Transition(destination="x", transition_type="B")], rate="N*N*N*x"),
                       Event(transition_list=[Transition(origin="x", transition_type="D")], rate="g*x")])
m._SC = pygom.model.ode_utils.compileCode(backend="lambda")
m.parameters = np.array([2000, 3], dtype=np.int32)
got = float(np.asarray(m.ode([3.0], 0.0)).ravel()[0])
want = 2000.0 ** 3 * 3.0 - 3.0 * 3.0
print("ode =", got, " expected", want)
sys.exit(0 if abs(got - want) <= 1e-9 * want else 1)
