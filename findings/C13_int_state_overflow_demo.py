"""C13 / evaluators: with the lambda back-end a state handed over as a fixed-width integer array is evaluated in
wrap-around integer arithmetic: the sensitivity system of a count model started at [999, 1] is wrong for int32 input
(and for int64 input once a product passes 9.2e18).  exit 0 = all input forms agree (so since fix ea55e76), exit 1 = they do not.
Run: [VERIF_REPO=<tree>] /venv/bin/python findings/C13_int_state_overflow_demo.py"""
import os, sys
sys.path.insert(0, os.path.dirname(os.path.dirname(os.path.abspath(__file__))))
from harness import bootstrap; bootstrap.init()
import numpy as np
from pygom import SimulateOde, Transition
from pygom.model import ode_utils
m = SimulateOde(state=['A', 'H'], param=['N0', 'rho'],
                ode=[Transition(origin='A', equation='-3*A**2*N0/(A*rho + 1) - 2*A*N0*H', transition_type='ODE'),
                     Transition(origin='H', equation='3*A**2*N0/(A*rho + 1) - H', transition_type='ODE')])
m._SC = ode_utils.compileCode(backend="lambda")
m.parameters = [1.8, 0.857]
z = [999, 1] + [0] * 4 + [1, 0, 0, 1]
ref = m.ode_and_sensitivityIV(np.array(z, float), 0.0)
bad = 0
for name, arr in (("int64 ndarray", np.array(z, np.int64)), ("int32 ndarray", np.array(z, np.int32)), ("list of int", list(z)),
                  ("int64 ndarray, population 3e6", None)):
    if arr is None:
        zz = [3000000, 2000000] + z[2:]
        got, want = m.ode_and_sensitivityIV(np.array(zz, np.int64), 0.0), m.ode_and_sensitivityIV(np.array(zz, float), 0.0)
    else:
        got, want = m.ode_and_sensitivityIV(arr, 0.0), ref
    err = float(np.max(np.abs(got - want) / (1 + np.abs(want))))
    print("%-32s max relative difference from the float ndarray result: %.3e" % (name, err))
    bad += err > 1e-9
print("PROPERTY VIOLATED: J.S+G / J.S0 depend on the integer width of the point" if bad else "ok: every form gives the same right-hand side")
sys.exit(1 if bad else 0)
