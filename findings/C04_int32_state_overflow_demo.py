"""C04 defect: an initial state given as an int32 (or narrower) numpy array is handed to the compiled rate functions in that dtype
for the first step of every path; products of populations of a few hundred overflow, the adaptive tau-leap gets a negative
variance of the rate change, a negative leap size and raises ValueError('lam < 0 or lam is NaN') instead of returning a path.
(int32 is numpy's default integer on Windows before numpy 2, and what many file readers produce.)
Repaired in pygom by fix ea55e76 (_getEvalParam hands fixed-width numpy integers over as Python integers).
exit 1 when the defect is present, 0 otherwise.   PYTHONPATH=<tree>/src /venv/bin/python findings/C04_int32_state_overflow_demo.py"""
import sys, warnings
import numpy as np
warnings.simplefilter("ignore")
from pygom import SimulateOde, Transition, Event
from pygom.model import ode_utils

def model():
    m = SimulateOde(["S", "E", "I", "R"], ["b", "a", "g"],
                    event=[Event(rate="b*S*I", transition_list=[Transition(origin="S", destination="E", transition_type="T")]),
                           Event(rate="a*E", transition_list=[Transition(origin="E", destination="I", transition_type="T")]),
                           Event(rate="g*I", transition_list=[Transition(origin="I", destination="R", transition_type="T")])])
    m._SC = ode_utils.compileCode(backend="lambda")
    m.parameters = [0.001, 0.5, 0.3]
    return m

bad = 0
for dtype in (np.int64, np.float64, np.int32):
    m = model()
    m.initial_values = (np.array([3000, 400, 300, 0], dtype=dtype), np.float64(0))
    print("%-8s variance of the rate changes at x0: %s" % (np.dtype(dtype).name, m.transitionVar(np.array([3000, 400, 300, 0], dtype=dtype), 0.0)))
    np.random.seed(1)
    try:
        X, J, T = m.solve_stochast(0.05, 2, exact=False, full_output=True)
        print("%-8s returned %d and %d steps, totals kept: %s" % (np.dtype(dtype).name, len(T[0]) - 1, len(T[1]) - 1, all(np.all(x.sum(axis=1) == 3700) for x in X)))
    except ValueError as exc:
        print("%-8s DEFECT: solve_stochast raised %r" % (np.dtype(dtype).name, exc)); bad = 1
sys.exit(bad)
