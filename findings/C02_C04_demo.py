import warnings; warnings.filterwarnings('ignore')
import numpy as np
from pygom import SimulateOde, Transition, Event
from pygom.model import ode_utils
m = SimulateOde(state="S, I R", param=["beta","gamma"], event=[Event(rate="beta*S*I", transition_list=[Transition(origin="S", destination="I", transition_type="T")]), Event(rate="gamma*I", transition_list=[Transition(origin="I", destination="R", transition_type="T")])])
m._SC = ode_utils.compileCode(backend='lambda')
m.parameters=[0.5,0.3]
x0=np.array([0.99,0.01,0.]); t=np.linspace(1,5,5)
for method in [None,'lsoda','vode','dopri5']:
    sol = ode_utils.integrateFuncJac(m.ode_T, m.jacobian_T, x0, 0.0, t, method=method)
    print(method, sol[:,1])
# one-event model
m1 = SimulateOde(state=["S","I"], param=["beta"], event=[Event(rate="beta*S", transition_list=[Transition(origin="S", destination="I", transition_type="T")])])
m1._SC = ode_utils.compileCode(backend='lambda')
m1.parameters=[0.5]; m1.initial_values=(np.array([10,0]), np.float64(0))
try:
    print(m1.solve_stochast(1.0, 1, exact=True, full_output=True)[0][0][:3])
except Exception as e: print('one-event model:', type(e).__name__, e)
