# C15: gridded exact-mode output. Run:  /venv/bin/python findings/C15_demo.py   (PYTHONPATH=<tree>/src to try a patched tree)
import warnings, io, contextlib; warnings.filterwarnings('ignore')
import numpy as np
from pygom import SimulateOde, Transition, Event
from pygom.model import ode_utils
m = SimulateOde(state=["S", "I", "R"], param=["beta", "gamma"], event=[
    Event(rate="beta*S*I", transition_list=[Transition(origin="S", destination="I", transition_type="T")]),
    Event(rate="gamma*I", transition_list=[Transition(origin="I", destination="R", transition_type="T")])])
m._SC = ode_utils.compileCode(backend='lambda'); m.parameters = [0.1, 0.5]
m.initial_values = (np.array([8, 2, 0]), np.float64(0)); np.random.seed(7)
X, J, T = m.solve_stochast([0, 1, 2, 4, 10], 1, exact=True, full_output=True)
V = np.array([[-1, 0], [1, -1], [0, 1]])
print("rows\n", X[0], "\ninterval counts (infections, recoveries)\n", J[0])
print("row differences\n", np.diff(X[0], axis=0), "\nV . counts\n", J[0].dot(V.T))   # equal iff counts are per transition
m.initial_values = (np.array([8, 0, 0]), np.float64(0))   # nobody infected: no event can fire
try: print(m.solve_stochast([0, 1, 2], 1, exact=True, full_output=True)[0][0])
except Exception as e: print("path without events + grid:", type(e).__name__, e)
