"""C20 demo: BaseLoss.sens_to_jtj / sens_to_grad multiply the caller's sensitivity array by the weights IN PLACE.

With non-unit state weights the array handed in comes back changed, and a second call with the same array (or
sens_to_grad followed by sens_to_jtj on one array) applies the weights twice: J'J is built with w^4 instead of w^2.
exit 0 = ok, 1 = defect present.   Run:  [VERIF_REPO=<tree>] /venv/bin/python findings/C20_sens_accumulators_modify_argument_demo.py
"""
import os, sys, warnings
warnings.filterwarnings("ignore")
sys.path.insert(0, os.path.dirname(os.path.dirname(os.path.abspath(__file__))))
from harness import bootstrap          # imports pygom from $VERIF_REPO (default /repo)
bootstrap.init()
import numpy as np
from pygom import SquareLoss, common_models

ode = common_models.SIR_norm({'beta': 0.5, 'gamma': 1.0 / 3.0})
x0, t = [0.99, 0.01, 0.0], np.linspace(0, 30, 11)
ode.initial_values = (x0, t[0])
y = ode.integrate(t[1:])[1:, 1:3] * 1.05
obj = SquareLoss([0.45, 0.3], ode, x0, t[0], t[1:], y, ['I', 'R'], state_weight=[2.0, 3.0])
theta = [0.45, 0.3]
ref = obj.jtj(theta)                                   # the documented value
_, out = obj.jac(theta, full_output=True)
sens = np.ascontiguousarray(out['sens'][:, obj._getTargetParamSensIndex()])   # the caller's own array
keep = sens.copy()
first = obj.sens_to_jtj(sens)
second = obj.sens_to_jtj(sens)
bad = []
if not np.array_equal(sens, keep):
    bad.append("sens_to_jtj changed the array it was given (max change %.3g)" % np.max(np.abs(sens - keep)))
if not np.allclose(second, ref, rtol=1e-10):
    bad.append("second sens_to_jtj(sens) = %s, jtj(theta) = %s" % (second.tolist(), ref.tolist()))
print("\n".join(bad) if bad else "ok: argument unchanged, both calls equal jtj(theta)")
sys.exit(1 if bad else 0)
