# C16: a frozen scipy distribution that samples from numpy's global generator holds a reference to that generator OBJECT;
# copy.deepcopy(model) (supported through DeterministicOde.__getstate__/__setstate__) hands the copy a private duplicate of it,
# which np.random.seed no longer reaches: simulate_param / solve_determ / solve_stochast of the COPY are not reproducible under
# a global seed (the (sampler, args) tuple form is unaffected: functions are not duplicated).
# Run: [VERIF_REPO=<tree>] /venv/bin/python findings/C16_deepcopy_frozen_distribution_demo.py   (exit 1 = defect)
import os, sys; sys.path.insert(0, os.path.join(os.path.dirname(os.path.abspath(__file__)), '..'))
from harness import bootstrap; bootstrap.init()
import copy, warnings; warnings.filterwarnings('ignore')
import numpy as np, scipy.stats
from pygom import common_models
m = bootstrap.fast_backend(common_models.SIR_norm())
t = [1.0, 2.0, 3.0]
m.initial_values = ([0.9, 0.1, 0.0], 0.0)
m.parameters = {'beta': scipy.stats.gamma(a=100.0, scale=0.015), 'gamma': scipy.stats.gamma(a=100.0, scale=0.005)}
bad = 0
for name, model in [('original', m), ('deep copy', copy.deepcopy(m))]:
    np.random.seed(1); a = model.simulate_param(t, 3)
    np.random.seed(1); b = model.simulate_param(t, 3)
    same = np.array_equal(a, b)
    print('%-9s two runs of simulate_param(t, 3) after np.random.seed(1) are %s (max |difference| = %.3g)' % (name, 'identical' if same else 'DIFFERENT', float(np.max(np.abs(a - b)))))
    bad += not same
sys.exit(1 if bad else 0)
