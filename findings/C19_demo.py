# C19 defects in pygom.utilR (/venv/bin/python findings/C19_demo.py ; VERIF_REPO=<tree> to try a patched tree)
import os, sys, warnings; warnings.filterwarnings('ignore')
sys.path.insert(0, os.path.join(os.path.dirname(os.path.abspath(__file__)), '..'))
from harness import bootstrap; bootstrap.init()          # pygom from $VERIF_REPO (default /repo)
import numpy as np, scipy.stats as st
from pygom.utilR import distn as R
print("pchisq(2,3)          =", R.pchisq(2.0, 3), " cdf is", st.chi2.cdf(2.0, 3), " pdf is", st.chi2.pdf(2.0, 3))            # returns the density
try: print("dchisq(2,3)          =", R.dchisq(2.0, 3), " pdf is", st.chi2.pdf(2.0, 3))
except Exception as e: print("dchisq(2,3) raises  ", type(e).__name__, e)                                                 # st.norm.pdf(x, df=...)
print("dbeta(.3,2,3,log=T)  =", R.dbeta(0.3, 2, 3, log=True), " log pdf is", st.beta.logpdf(0.3, 2, 3))                  # log ignored
print("qpois(log(.7),4,log=T)=", R.qpois(np.log(0.7), 4.0, log=True), " qpois(.7,4) =", R.qpois(0.7, 4.0))               # log ignored
print("runif(3,seed=7) twice:", R.runif(3, seed=7), R.runif(3, seed=7), " seed=0:", R.runif(3, seed=0), R.runif(3, seed=0))  # truthy int seed -> global generator
print("pnbinom/qnbinom/rnbinom:", R.pnbinom(3, 2.0, 0.4, None), R.qnbinom(0.5, 2.0, 0.4, None), R.rnbinom(3, 2.0, 0.4, None),
      " expected", st.nbinom.cdf(3, 2.0, 0.4), st.nbinom.ppf(0.5, 2.0, 0.4), "3 draws")                                 # stubs return None
