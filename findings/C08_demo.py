# C08 demo: evaluators go stale after add_ode / after a parameter or state is declared late.
# run:  PYTHONPATH=<tree>/src /venv/bin/python findings/C08_demo.py      (tree = /repo, or a copy with proposed_fixes/C08-*.diff)
import warnings; warnings.filterwarnings('ignore')
from pygom import SimulateOde, Transition, Event
from pygom.model import ode_utils
def mk():
    m = SimulateOde(state=["S", "I"], param=["beta", "gamma"], event=[Event(rate="beta*S*I", transition_list=[Transition(origin="S", destination="I", transition_type="T")])])
    m._SC = ode_utils.compileCode(backend='lambda'); m.parameters = [0.5, 0.25]; return m
def show(tag, f):
    try: print(tag, f())
    except Exception as e: print(tag, "raises", type(e).__name__, str(e)[:70])
x = [10., 3.]
m = mk(); m.ode(x, 0); m.add_ode(Transition(origin="S", equation="-gamma*S", transition_type="ODE"))
f = mk(); f.add_ode(Transition(origin="S", equation="-gamma*S", transition_type="ODE"))
show("1. add_ode after ode() was called :", lambda: m.ode(x, 0)); show("   fresh model with the same definition:", lambda: f.ode(x, 0))
m = mk(); m.ode(x, 0); m.param_list = ["kappa"]; m.ode(x, 0); m.parameters = [0.5, 0.25, 2.0]
show("2. parameter declared late, then parameters=[..3 values]; ode():", lambda: m.ode(x, 0))
m = mk(); m.param_list = ["kappa"]; m.add_event(Event(rate="kappa*I", transition_list=[Transition(origin="I", transition_type="D")]))
show("   parameter declared late and used, no values given yet; ode():", lambda: m.ode(x, 0))
m = mk(); m.ode(x, 0); m.state_list = ["R"]; m.add_event(Event(rate="gamma*I", transition_list=[Transition(origin="I", destination="R", transition_type="T")]))
show("3. state declared late; ode([S,I,R]):", lambda: m.ode(x + [0.], 0))
