# C06 (and C07): initial values given as Python/numpy ints + target_state: costIV is piecewise constant in the free initial value
import sys, numpy as np
from pygom import common_models, SquareLoss
m = common_models.SIR({'beta': 0.5, 'gamma': 0.2, 'N': 10.0})
t = np.array([1., 2., 3., 4.])
m.initial_values = ([9., 1., 0.], 0.0)
y = m.integrate(t)[1:, 1]
as_int = SquareLoss([0.5, 0.2, 10.0], m, [9, 1, 0], 0.0, t, y, 'I', target_state=['I'])      # x0 as ints
as_float = SquareLoss([0.5, 0.2, 10.0], m, [9., 1., 0.], 0.0, t, y, 'I', target_state=['I'])
a = [as_int.costIV([0.5, 0.2, 10.0, v]) for v in (1.0, 1.5, 1.9)]
b = [as_float.costIV([0.5, 0.2, 10.0, v]) for v in (1.0, 1.5, 1.9)]
print("x0 given as ints  :", a); print("x0 given as floats:", b)
ok = np.allclose(a, b, rtol=1e-6, atol=1e-9)
print("OK" if ok else "MISMATCH: costIV ignores the fractional part of the free initial value"); sys.exit(0 if ok else 1)
