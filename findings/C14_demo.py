# C14 defect: Gamma.diff_loss lacks the single-column ravel the other methods/classes have
import os, sys, warnings; warnings.filterwarnings('ignore')
sys.path.insert(0, os.path.join(os.path.dirname(os.path.abspath(__file__)), '..'))
from harness import bootstrap; bootstrap.init()          # pygom from $VERIF_REPO (default /repo)
import numpy as np
from pygom.loss.loss_type import Gamma, Poisson
y = np.array([2.0, 5.0, 1.5]); yhat = np.array([3.0, 4.0, 2.5])
g = Gamma(y, shape=3.0)
print("vector input  :", g.diff_loss(yhat))                       # shape (3,)  a*(yhat-y)/yhat**2
print("column input  :", g.diff_loss(yhat.reshape(-1, 1)).shape, "<- should be (3,) ; diff2Loss gives", g.diff2Loss(yhat.reshape(-1, 1)).shape)
print("Poisson column:", Poisson(np.array([2., 5., 1.])).diff_loss(yhat.reshape(-1, 1)).shape)
