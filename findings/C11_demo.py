# C11 (and C04): range-style state names and the limit list. Run:  /venv/bin/python findings/C11_demo.py
import warnings, io, contextlib; warnings.filterwarnings('ignore')
import numpy as np
from pygom import SimulateOde, Transition, Event
from pygom.model import ode_utils
m = SimulateOde(state=["y1:3", "I"], param=["g"], event=[   # states y1, y2, I ; all with the default lower limit 0
    Event(rate="g*I", transition_list=[Transition(origin="I", transition_type="D", magnitude="2")]),
    Event(rate="g*y1", transition_list=[Transition(origin="y1", destination="y2", transition_type="T")])])
m._SC = ode_utils.compileCode(backend='lambda'); m.parameters = [1.0]
print("states", [str(s) for s in m.state_list], " _state_lims", m._state_lims)   # 3 states, 2 limit entries before the repair
m.initial_values = (np.array([5, 0, 3]), np.float64(0))
for exact, tau in ((True, None), (False, 0.5)):
    np.random.seed(3); m.pre_tau = tau
    try:
        with contextlib.redirect_stdout(io.StringIO()):
            X, J, T = m.solve_stochast(3.0, 1, exact=exact, full_output=True)
        print("exact" if exact else "tau  ", "minimum of each state over the path:", X[0].min(axis=0))
    except Exception as e: print("exact" if exact else "tau  ", "raised", type(e).__name__, e, " (I = 3 - 2 - 2 = -1 was accepted)")
