"""C18 defect demo (REPAIRED in /repo by 050ae69, the C07 index-order fix): fit returned a point with a LARGER cost than its start when target_param is not in the model's
parameter order (here ['gamma', 'beta'] on SIR): the gradient handed to L-BFGS-B is permuted (C07 index-order defect),
its line search ends on a warning and the step is accepted.  Run from the framework root:  /venv/bin/python findings/C18_worse_than_start_demo.py      (VERIF_REPO=<tree>)"""
import json, os, sys
ROOT = os.path.dirname(os.path.dirname(os.path.abspath(__file__))); sys.path.insert(0, ROOT)
from harness import bootstrap; bootstrap.init()
from harness.props import c18
case = json.load(open(os.path.join(ROOT, "corpus", "C18", "worse-than-start-permuted-target.json")))
y = c18.make_data(case)
r = c18.make_loss(case, y, case["x"]).fit(list(case["x"]), lb=case["lb"], ub=case["ub"])
c0, c1 = float(c18.make_loss(case, y, case["x"]).cost()), float(c18.make_loss(case, y, r).cost())
print("target", case["target"], "start", case["x"], "-> fit", list(r)); print("cost(start) = %r   cost(fit) = %r" % (c0, c1))
print("PROPERTY HOLDS" if c1 <= c0 * (1 + 1e-9) else "VIOLATION: fit returned something worse than its start")
