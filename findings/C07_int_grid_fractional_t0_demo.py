# C07: observation times given as an integer array and t0 = 0.5: sensitivity/gradient/jac integrate from t0 truncated to 0, cost from 0.5
import sys, numpy as np
from pygom import common_models, SquareLoss
m = common_models.SIR({'beta': 0.5, 'gamma': 0.2, 'N': 10.0})
m.initial_values = ([9., 1., 0.], 0.5)
y = m.integrate(np.array([1., 2., 3., 4.]))[1:, 1]
obj = SquareLoss([0.5, 0.2, 10.0], m, [9., 1., 0.], 0.5, np.array([1, 2, 3, 4]), y, 'I')       # integer grid
th = np.array([0.45, 0.2, 10.0]); g = obj.sensitivity(th); fd = np.zeros(3)
for k in range(3):
    e = np.zeros(3); e[k] = 1e-5 * th[k]
    fd[k] = (obj.cost(th + e) - obj.cost(th - e)) / (2 * e[k])
print("sensitivity:", g); print("d cost     :", fd)
ok = np.allclose(g, fd, rtol=1e-4, atol=1e-6)
print("OK" if ok else "MISMATCH: the gradient is not the derivative of cost"); sys.exit(0 if ok else 1)
