"""copy.deepcopy of a model, then the copy is extended: the copy's evaluators must follow the copy's definition.
exit 0 = holds, 1 = violated.   usage: PYTHONPATH=<repo>/src /venv/bin/python findings/C12_deepcopy_demo.py"""
import copy, sys, warnings
warnings.filterwarnings("ignore")
import numpy as np
from pygom import SimulateOde, Transition, Event
from pygom.model import ode_utils

m = SimulateOde(state=["S", "I", "R"], param=["beta", "gamma"],
                event=[Event(transition_list=[Transition(origin="S", destination="I", transition_type="T")], rate="beta*S*I")])
m._SC = ode_utils.compileCode(backend="lambda")
m.parameters = [0.5, 0.25]
x = [10.0, 2.0, 3.0]
print("original, S->I only      :", m.ode(x, 0.0))
c = copy.deepcopy(m)
c.add_event(Event(transition_list=[Transition(origin="I", destination="R", transition_type="T")], rate="gamma*I"))
c.parameters = [0.5, 0.25]
got = np.asarray(c.ode(x, 0.0), float)
want = np.array([-0.5 * 10 * 2, 0.5 * 10 * 2 - 0.25 * 2, 0.25 * 2])
print("copy + I->R, get_ode_eqn :", list(c.get_ode_eqn()))
print("copy + I->R, ode(x,t)    :", got, " expected", want)
bad = not np.allclose(got, want)
# the other direction: the original is extended after the copy was taken, the copy is evaluated for the first time
m2 = SimulateOde(state=["S", "I", "R"], param=["beta", "gamma"],
                 event=[Event(transition_list=[Transition(origin="S", destination="I", transition_type="T")], rate="beta*S*I")])
m2._SC = ode_utils.compileCode(backend="lambda")
m2.parameters = [0.5, 0.25]
c2 = copy.deepcopy(m2)
m2.add_event(Event(transition_list=[Transition(origin="I", destination="R", transition_type="T")], rate="gamma*I"))
got2 = np.asarray(c2.ode(x, 0.0), float)
want2 = np.array([-10.0, 10.0, 0.0])
print("copy (unchanged) after the original was extended:", got2, " expected", want2)
bad = bad or not np.allclose(got2, want2)
print("VIOLATED: the copy's evaluators are generated from the ORIGINAL's definition" if bad else "holds")
sys.exit(1 if bad else 0)
