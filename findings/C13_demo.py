# C13: ode_and_sensitivity_jacobian(by_state=True) is not the derivative of ode_and_sensitivity(by_state=True)
# (and, before fix 0a7e442, one-state models raised in every *_jacobian).  Run: PYTHONPATH=<repo>/src python findings/C13_demo.py
import warnings; warnings.filterwarnings('ignore')
import numpy as np
from pygom import SimulateOde, Transition
from pygom.model import ode_utils
T = lambda s, e: Transition(origin=s, equation=e, transition_type='ODE')
m = SimulateOde(['x', 'y'], ['a', 'b', 'c'], ode=[T('x', '-a*x*y + b*y*y'), T('y', 'a*x*y - c*y/(1+x)')])
m._SC = ode_utils.compileCode(backend='lambda'); m.parameters = [0.7, 0.3, 1.1]
z = np.array([1.5, 2.0, .5, -1, 2, .75, -1.5, 1]); h = 1e-6
for by_state in (False, True):
    f = lambda w: np.asarray(m.ode_and_sensitivity(w, 0.0, by_state), float)
    fd = np.array([(f(z + h*e) - f(z - h*e))/(2*h) for e in np.eye(len(z))]).T
    print('by_state=%s  max|jacobian - finite differences| = %.3g' % (by_state, np.abs(m.ode_and_sensitivity_jacobian(z, 0.0, by_state) - fd).max()))
m1 = SimulateOde(['x'], ['a', 'b'], ode=[T('x', '-a*x*x + b')]); m1._SC = ode_utils.compileCode(backend='lambda'); m1.parameters = [.5, .2]
try: print('one state:', m1.ode_and_sensitivity_jacobian(np.array([1.5, .5, -1.]), 0.0))
except Exception as e: print('one state:', type(e).__name__, e)
