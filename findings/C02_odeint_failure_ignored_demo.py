"""
C02 observation (not judged by ./check C02: the solver's own failure is outside the property's assumption):
pygom.model.ode_utils.integrate never looks at odeint's success flag.

scipy's odeint does not raise when lsoda refuses the input or gives up; it returns rows of uninitialised memory and
says so only in infodict['message'].  Two ordinary-looking inputs where scipy 1.18 refuses:
  (a) a disease-free SIR start [1, 0, 0] (derivative exactly zero) at t0 = -738000 with outputs every 0.2 days,
  (b) a first output one ulp after t0.
DeterministicOde.integrate / SimulateOde.solve_determ hand the rows out as the solution.

exit 1: integrate() returned although odeint reported a failure;  exit 0: it raised (with proposed_fixes/
C02-odeint-failure-ignored.diff) or scipy no longer fails on these inputs.
"""
import sys
import warnings
warnings.filterwarnings("ignore")
import numpy as np
from pygom import SimulateOde, Transition
from pygom.model import ode_utils

m = SimulateOde(state=['S', 'I', 'R'], param=['beta', 'gamma'],
                transition=[Transition(origin='S', destination='I', equation='beta*S*I', transition_type='T'),
                            Transition(origin='I', destination='R', equation='gamma*I', transition_type='T')])
m._SC = ode_utils.compileCode(backend='lambda')
m.parameters = [0.5, 0.2]
bad = 0
for label, x0, t0, t in (("zero derivative at t0 = -738000, dt = 0.2", [1.0, 0.0, 0.0], -738000.0, -738000.0 + 0.2 * np.arange(1, 4)),
                         ("first output one ulp after t0 = 1", [0.9, 0.1, 0.0], 1.0, np.array([np.nextafter(1.0, 2.0), 2.0]))):
    m.initial_values = (x0, t0)
    try:
        sol, info = m.integrate(t, full_output=True)
    except Exception as exc:
        print("%s: integrate raised %s: %s" % (label, type(exc).__name__, exc))
        continue
    print("%s: odeint says %r, integrate returned\n%s" % (label, info['message'], sol))
    if info['message'] != 'Integration successful.':
        bad += 1
print("C02 observation: integrate() handed out the rows of a FAILED odeint call %d time(s)" % bad if bad else "integrate() never handed out rows of a failed odeint call")
sys.exit(1 if bad else 0)
