"""C17 defect demo: ABC binds values to the wrong parameter names when the loss object was not made by create_loss
with the same Parameter list (here: SquareLoss built directly, target_param=None, Parameters listed as [gamma, beta]).
Run:  /venv/bin/python findings/C17_par_order_demo.py            (optionally VERIF_REPO=<patched tree>)"""
import os, sys, logging
sys.path.insert(0, os.path.join(os.environ.get("VERIF_REPO", "/repo"), "src")); logging.disable(logging.WARNING)
import numpy as np
from pygom import common_models, SquareLoss, approximate_bayesian_computation as pgabc
mk = lambda: common_models.SIR_norm({'beta': 0.5, 'gamma': 0.25})
x0, t = [0.99, 0.01, 0.0], np.linspace(0, 32, 9)
ode = mk(); ode.initial_values = (x0, t[0]); y = ode.integrate(t[1:])[1:, 1:3]
pars = [pgabc.Parameter('gamma', 'unif', 0, 1, logscale=False), pgabc.Parameter('beta', 'unif', 0, 1, logscale=False)]
abc = pgabc.ABC(SquareLoss([0.5, 0.25], mk(), x0, t[0], t[1:], y, ['I', 'R']), pars)   # target_param=None
np.random.seed(7); abc.get_posterior_sample(N=30, tol=0.05, G=1)
g, b = abc.res[0]                                                                        # particle 0: named gamma, beta
recomputed = SquareLoss([b, g], mk(), x0, t[0], t[1:], y, ['I', 'R']).cost()            # theta = [beta, gamma] by name
print("par_order", abc.par_order, " abc.dist[0] =", abc.dist[0], " cost at the named particle =", recomputed)
print("posterior median (gamma, beta) =", np.median(abc.res, axis=0), " truth (0.25, 0.5)")
print("PROPERTY HOLDS" if abs(recomputed - abc.dist[0]) <= 1e-9 * abs(recomputed) else "VIOLATION: stored distance is not the cost of the stored particle")
