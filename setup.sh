#!/bin/sh
# Build the framework from files on disk only (offline): Lean library (models, lemmas, property
# theorems), the native driver, and the rebuilt _tau_leap extension of the tree under test.
set -e
cd "$(dirname "$0")"
(cd lean && lake build 2>&1 | tail -5)
/venv/bin/python -c "from harness import bootstrap; bootstrap.init(); print('pygom from', bootstrap.REPO)"
