#!/bin/sh
# Build the framework from files on disk only (offline): regenerate the translator-produced Lean files from the
# tree under test, build the Lean library (models, lemmas, property theorems) and the native driver, and rebuild
# the _tau_leap extension of the tree under test.
set -e
cd "$(dirname "$0")"
/venv/bin/python - <<'PY'
from harness import bootstrap, translate_kernels, translate_wrappers, translate_canary
for t in (translate_kernels, translate_wrappers, translate_canary):
    r = t.regenerate(bootstrap.REPO)
    print("generated", r.get("path"), "changed" if r.get("changed") else "unchanged", "refused:", len(r.get("refused", [])))
PY
(cd lean && lake build 2>&1 | tail -5)
/venv/bin/python -c "from harness import bootstrap; bootstrap.init(); print('pygom from', bootstrap.REPO)"
