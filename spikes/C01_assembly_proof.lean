-- (in the spike this imported C01_assembly_model.lean as `Sp.Basic`)
import Sp.Basic
import Mathlib.Algebra.BigOperators.Group.List.Basic
import Mathlib.Tactic

variable {K : Type} [CommRing K]

def Expr.eval (ρ : String → K) : Expr → K
  | .num n => (n : K)
  | .var s => ρ s
  | .add a b => a.eval ρ + b.eval ρ
  | .sub a b => a.eval ρ - b.eval ρ
  | .mul a b => a.eval ρ * b.eval ρ

/-- value of component k (0 when out of range, like the zero-initialised sympy matrix) -/
def comp (ρ : String → K) (acc : List Expr) (k : Nat) : K := (acc[k]?.map (Expr.eval ρ)).getD 0

def sgn (tr : Tr) (k : Nat) : K :=
  match tr.ttype with
  | .B => if tr.dest = k then 1 else 0
  | .D => if tr.origin = k then -1 else 0
  | .T => (if tr.dest = k then 1 else 0) + (if tr.origin = k then -1 else 0)

def net (ρ : String → K) (ev : Event) (k : Nat) : K :=
  (ev.transitions.map (fun tr => sgn tr k * tr.magnitude.eval ρ)).sum

theorem comp_addAt (ρ : String → K) (acc : List Expr) (i k : Nat) (e : Expr) (hi : i < acc.length) :
    comp ρ (addAt acc i e) k = comp ρ acc k + (if i = k then e.eval ρ else 0) := by
  unfold comp addAt
  by_cases h : i = k
  · subst h; simp [List.getElem?_modify, hi, Expr.eval]
  · simp [List.getElem?_modify, h]

theorem comp_subAt (ρ : String → K) (acc : List Expr) (i k : Nat) (e : Expr) (hi : i < acc.length) :
    comp ρ (subAt acc i e) k = comp ρ acc k - (if i = k then e.eval ρ else 0) := by
  unfold comp subAt
  by_cases h : i = k
  · subst h; simp [List.getElem?_modify, hi, Expr.eval]
  · simp [List.getElem?_modify, h]

@[simp] theorem length_addAt (acc : List Expr) (i) (e) : (addAt acc i e).length = acc.length := by simp [addAt]
@[simp] theorem length_subAt (acc : List Expr) (i) (e) : (subAt acc i e).length = acc.length := by simp [subAt]

def Tr.wf (n : Nat) (tr : Tr) : Prop := tr.origin < n ∧ tr.dest < n

theorem comp_transStep (ρ : String → K) (rate : Expr) (acc : List Expr) (tr : Tr) (k : Nat)
    (h : tr.wf acc.length) :
    comp ρ (transStep rate acc tr) k = comp ρ acc k + rate.eval ρ * (sgn tr k * tr.magnitude.eval ρ) := by
  unfold transStep sgn
  cases hτ : tr.ttype <;> simp only []
  · rw [comp_addAt _ _ _ _ _ h.2]; by_cases hk : tr.dest = k <;> simp [hk, Expr.eval]; ring
  · rw [comp_subAt _ _ _ _ _ h.1]; by_cases hk : tr.origin = k <;> simp [hk, Expr.eval]; ring
  · rw [comp_addAt _ _ _ _ _ (by simpa using h.2), comp_subAt _ _ _ _ _ h.1]
    by_cases hk : tr.dest = k <;> by_cases hk' : tr.origin = k <;> simp [hk, hk', Expr.eval] <;> ring

theorem length_transStep (rate : Expr) (acc : List Expr) (tr : Tr) : (transStep rate acc tr).length = acc.length := by
  unfold transStep; cases tr.ttype <;> simp

theorem comp_foldl_transStep (ρ : String → K) (rate : Expr) (trs : List Tr) (acc : List Expr) (k : Nat)
    (h : ∀ tr ∈ trs, tr.wf acc.length) :
    comp ρ (trs.foldl (transStep rate) acc) k
      = comp ρ acc k + rate.eval ρ * (trs.map (fun tr => sgn tr k * tr.magnitude.eval ρ)).sum
    ∧ (trs.foldl (transStep rate) acc).length = acc.length := by
  induction trs generalizing acc with
  | nil => simp
  | cons tr trs ih =>
    simp only [List.foldl_cons, List.map_cons, List.sum_cons]
    have hwf := h tr (by simp)
    have := ih (transStep rate acc tr) (by
      intro t ht; rw [length_transStep]; exact h t (by simp [ht]))
    rw [this.1, this.2, comp_transStep ρ _ _ _ _ hwf, length_transStep]
    exact ⟨by ring, rfl⟩

theorem comp_eventStep (ρ : String → K) (ev : Event) (acc : List Expr) (k : Nat)
    (h : ∀ tr ∈ ev.transitions, tr.wf acc.length) :
    comp ρ (eventStep acc ev) k = comp ρ acc k + ev.rate.eval ρ * net ρ ev k
    ∧ (eventStep acc ev).length = acc.length :=
  comp_foldl_transStep ρ ev.rate ev.transitions acc k h

theorem ode_entry (ρ : String → K) (n : Nat) (evs : List Event) (k : Nat)
    (h : ∀ ev ∈ evs, ∀ tr ∈ ev.transitions, tr.wf n) :
    comp ρ (odeEqn n evs) k = (evs.map (fun ev => ev.rate.eval ρ * net ρ ev k)).sum := by
  unfold odeEqn
  suffices H : ∀ acc : List Expr, acc.length = n →
      comp ρ (evs.foldl eventStep acc) k = comp ρ acc k + (evs.map (fun ev => ev.rate.eval ρ * net ρ ev k)).sum by
    have := H (List.replicate n (Expr.num 0)) (by simp)
    rw [this]
    have : comp ρ (List.replicate n (Expr.num 0)) k = 0 := by
      unfold comp; by_cases hk : k < n <;> simp [hk, Expr.eval, List.getElem?_replicate]
    rw [this]; ring
  induction evs with
  | nil => intro acc _; simp
  | cons ev evs ih =>
    intro acc hlen
    simp only [List.foldl_cons, List.map_cons, List.sum_cons]
    have hev := comp_eventStep ρ ev acc k (by intro tr htr; rw [hlen]; exact h ev (by simp) tr htr)
    rw [ih (by intro e he; exact h e (by simp [he])) (eventStep acc ev) (by rw [hev.2, hlen]), hev.1]
    ring

#print axioms ode_entry
