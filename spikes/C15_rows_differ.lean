/- Spike for C15, second half: consecutive gridded rows differ by the sum of the increments of the events
   whose time lies in (g_k, g_{k+1}] ; numpy's histogram counts [g_k, g_{k+1}) — equal iff no event sits on a grid point. -/
import Mathlib.Algebra.Order.Field.Rat
import Mathlib.Algebra.BigOperators.Intervals
import Mathlib.Tactic
open Finset

/-- telescoping along the path -/
theorem path_telescope (x d : ℕ → ℤ) (m : ℕ) (hx : ∀ i < m, x (i+1) = x i + d i) (a b : ℕ) (hab : a ≤ b) (hb : b ≤ m) :
    x b - x a = ∑ i ∈ Ico a b, d i := by
  induction b, hab using Nat.le_induction with
  | base => simp
  | succ b hab ih =>
    rw [Finset.sum_Ico_succ_top hab, ← ih (by omega), hx b (by omega)]; ring

/-- `a` is the lookup index of grid time `g`: last index ≤ m with time ≤ g -/
def IsIdx (τ : ℕ → ℚ) (m : ℕ) (g : ℚ) (a : ℕ) : Prop :=
  a ≤ m ∧ τ a ≤ g ∧ ∀ j, j ≤ m → a < j → g < τ j

theorem rows_differ (τ : ℕ → ℚ) (x d : ℕ → ℤ) (m : ℕ)
    (hτ : ∀ i j, i ≤ m → j ≤ m → i < j → τ i < τ j)
    (hx : ∀ i < m, x (i+1) = x i + d i)
    (g g' : ℚ) (hg : g ≤ g') (a b : ℕ) (ha : IsIdx τ m g a) (hb : IsIdx τ m g' b) :
    x b - x a = ∑ i ∈ range m, if g < τ (i+1) ∧ τ (i+1) ≤ g' then d i else 0 := by
  obtain ⟨ham, hta, ha'⟩ := ha
  obtain ⟨hbm, htb, hb'⟩ := hb
  -- a ≤ b
  have hab : a ≤ b := by
    by_contra hlt
    push_neg at hlt
    have := hb' a ham hlt
    linarith
  rw [path_telescope x d m hx a b hab hbm, ← Finset.sum_filter]
  apply Finset.sum_congr _ (fun _ _ => rfl)
  ext i
  simp only [mem_Ico, mem_filter, mem_range]
  constructor
  · rintro ⟨h1, h2⟩
    refine ⟨by omega, ha' (i+1) (by omega) (by omega), ?_⟩
    rcases Nat.lt_or_ge (i+1) b with h | h
    · exact le_trans (le_of_lt (hτ (i+1) b (by omega) hbm h)) htb
    · have : i + 1 = b := by omega
      rw [this]; exact htb
  · rintro ⟨him, h1, h2⟩
    constructor
    · by_contra hlt
      push_neg at hlt
      -- i+1 ≤ a  ⇒ τ (i+1) ≤ τ a ≤ g, contradiction
      rcases Nat.lt_or_ge (i+1) a with h | h
      · have := hτ (i+1) a (by omega) ham h; linarith
      · have : i + 1 = a := by omega
        rw [this] at h1; linarith
    · by_contra hge
      push_neg at hge
      have := hb' (i+1) (by omega) (by omega)
      linarith

/-- numpy's bin [g, g') (non-last bin) selects the same events iff none sits exactly on g or g' -/
theorem hist_same_events (τ : ℕ → ℚ) (c : ℕ → ℤ) (m : ℕ) (g g' : ℚ)
    (hno : ∀ i < m, τ (i+1) ≠ g ∧ τ (i+1) ≠ g') :
    (∑ i ∈ range m, if g ≤ τ (i+1) ∧ τ (i+1) < g' then c i else 0)
      = ∑ i ∈ range m, if g < τ (i+1) ∧ τ (i+1) ≤ g' then c i else 0 := by
  apply Finset.sum_congr rfl
  intro i hi
  have := hno i (mem_range.mp hi)
  have e : (g ≤ τ (i+1) ∧ τ (i+1) < g') ↔ (g < τ (i+1) ∧ τ (i+1) ≤ g') := by
    constructor
    · rintro ⟨h1, h2⟩; exact ⟨lt_of_le_of_ne h1 (Ne.symm this.1), le_of_lt h2⟩
    · rintro ⟨h1, h2⟩; exact ⟨le_of_lt h1, lt_of_le_of_ne h2 this.2⟩
  simp only [e]
#print axioms rows_differ
#print axioms hist_same_events
