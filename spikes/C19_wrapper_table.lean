/- Spike for C19: the d/p/q wrapper table (as the translator would emit it from distn.py) checked by `decide`
   against a decidable specification of "dX is the density, pX the cdf, qX the quantile, R parameterisation". -/
namespace Pygom

inductive AExpr            -- argument expressions appearing in the wrappers
  | arg (name : String)    -- a formal parameter of the R-style function
  | one
  | div (a b : AExpr)
  | sub (a b : AExpr)
deriving DecidableEq, Repr

structure Wrapper where
  name : String            -- e.g. "dexp"
  log : Bool               -- which `if log:` branch
  family : String          -- scipy.stats family
  method : String          -- pdf / logpdf / cdf / ...
  kwargs : List (String × AExpr)
deriving DecidableEq, Repr

open AExpr in
/-- (hand-typed here; generated from the AST of distn.py in the real thing) — current tree, with its defects -/
def wrappersNow : List Wrapper := [
  ⟨"dexp", false, "expon", "pdf", [("scale", div one (arg "rate"))]⟩,
  ⟨"dexp", true,  "expon", "logpdf", [("scale", div one (arg "rate"))]⟩,
  ⟨"pexp", false, "expon", "cdf", [("scale", div one (arg "rate"))]⟩,
  ⟨"pexp", true,  "expon", "logcdf", [("scale", div one (arg "rate"))]⟩,
  ⟨"qexp", false, "expon", "ppf", [("scale", div one (arg "rate"))]⟩,
  ⟨"dunif", false, "uniform", "pdf", [("loc", arg "min"), ("scale", sub (arg "max") (arg "min"))]⟩,
  ⟨"dchisq", true, "chi2", "logpdf", [("df", arg "df")]⟩,
  ⟨"dchisq", false, "norm", "pdf", [("df", arg "df")]⟩,      -- defect
  ⟨"pchisq", false, "chi2", "pdf", [("df", arg "df")]⟩,      -- defect
  ⟨"pchisq", true, "chi2", "logpdf", [("df", arg "df")]⟩     -- defect
]

/-- scipy family and R→scipy keyword transforms for each R family suffix -/
def familySpec : String → Option (String × List (String × AExpr))
  | "exp"   => some ("expon",   [("scale", .div .one (.arg "rate"))])
  | "unif"  => some ("uniform", [("loc", .arg "min"), ("scale", .sub (.arg "max") (.arg "min"))])
  | "chisq" => some ("chi2",    [("df", .arg "df")])
  | _ => none

def methodSpec (kind : Char) (discrete log : Bool) : Option String :=
  match kind, log with
  | 'd', false => some (if discrete then "pmf" else "pdf")
  | 'd', true  => some (if discrete then "logpmf" else "logpdf")
  | 'p', false => some "cdf"
  | 'p', true  => some "logcdf"
  | 'q', false => some "ppf"
  | _, _ => none

def wrapperOK (w : Wrapper) : Bool :=
  match w.name.toList with
  | kind :: rest =>
    match familySpec (String.ofList rest), methodSpec kind false w.log with
    | some (fam, kws), some meth => w.family == fam && w.method == meth && w.kwargs == kws
    | _, _ => false
  | [] => false

/-- the repaired table passes … -/
def wrappersFixed : List Wrapper := (wrappersNow.take 7) ++ [
  ⟨"dchisq", false, "chi2", "pdf", [("df", .arg "df")]⟩,
  ⟨"pchisq", false, "chi2", "cdf", [("df", .arg "df")]⟩,
  ⟨"pchisq", true, "chi2", "logcdf", [("df", .arg "df")]⟩]

theorem all_wrappers_correct_fixed : wrappersFixed.all wrapperOK = true := by decide
/-- … and the current one is refuted, with the offending entries computed -/
theorem current_table_offenders :
    (wrappersNow.filter (fun w => !wrapperOK w)).map (fun w => (w.name, w.log)) =
      [("dchisq", false), ("pchisq", false), ("pchisq", true)] := by decide
end Pygom
#print axioms Pygom.all_wrappers_correct_fixed
#print axioms Pygom.current_table_offenders
