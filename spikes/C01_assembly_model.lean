-- Spike: accumulate ±mag*rate into a vector by index; prove it equals Σ rate * net
inductive Expr where
  | num : Int → Expr
  | var : String → Expr
  | add : Expr → Expr → Expr
  | sub : Expr → Expr → Expr
  | mul : Expr → Expr → Expr
deriving Repr, BEq, Inhabited

inductive TType | B | D | T deriving Repr, BEq, DecidableEq

structure Tr where
  ttype : TType
  origin : Nat      -- already-resolved indices for the spike
  dest : Nat
  magnitude : Expr

structure Event where
  rate : Expr
  transitions : List Tr

def addAt (acc : List Expr) (i : Nat) (e : Expr) : List Expr := acc.modify i (fun a => Expr.add a e)
def subAt (acc : List Expr) (i : Nat) (e : Expr) : List Expr := acc.modify i (fun a => Expr.sub a e)

def transStep (rate : Expr) (acc : List Expr) (tr : Tr) : List Expr :=
  let roc := Expr.mul tr.magnitude rate
  match tr.ttype with
  | .B => addAt acc tr.dest roc
  | .D => subAt acc tr.origin roc
  | .T => addAt (subAt acc tr.origin roc) tr.dest roc

def eventStep (acc : List Expr) (ev : Event) : List Expr := ev.transitions.foldl (transStep ev.rate) acc

def odeEqn (n : Nat) (evs : List Event) : List Expr := evs.foldl eventStep (List.replicate n (Expr.num 0))
