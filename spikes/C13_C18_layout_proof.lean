import Sp.Layout
import Mathlib.Tactic
namespace Pygom
variable {α : Type} [Inhabited α]

theorem reshapeF_get (s : List α) (nr nc i j : Nat) (hi : i < nr) (hj : j < nc) :
    ((reshapeF s nr nc).getD i []).getD j default = s.getD (j*nr + i) default := by
  simp [reshapeF, hi, hj]

theorem flattenF_get (M : List (List α)) (nr nc i j : Nat) (hi : i < nr) (hj : j < nc) :
    (flattenF M nr nc).getD (j*nr + i) default = (M.getD i []).getD j default := by
  have hk : j*nr + i < nr*nc := by
    calc j*nr + i < j*nr + nr := by omega
      _ = (j+1)*nr := by ring
      _ ≤ nc*nr := Nat.mul_le_mul_right _ hj
      _ = nr*nc := by ring
  have hnr : 0 < nr := by omega
  have h1 : (j*nr + i) % nr = i := by rw [Nat.mul_add_mod_self_right]; exact Nat.mod_eq_of_lt hi
  have h2 : (j*nr + i) / nr = j := by
    rw [Nat.add_comm, Nat.add_mul_div_right _ _ hnr, Nat.div_eq_of_lt hi]; simp
  simp [flattenF, hk, h1, h2]

/-- matToVecSens ∘ vecToMatSens = id on vectors of the right length (round trip) -/
theorem flattenF_reshapeF (s : List α) (nr nc : Nat) (h : s.length = nr*nc) :
    flattenF (reshapeF s nr nc) nr nc = s := by
  apply List.ext_getElem?
  intro k
  by_cases hk : k < nr*nc
  · have hnr : 0 < nr := by
      rcases Nat.eq_zero_or_pos nr with h0 | h0
      · subst h0; simp at hk
      · exact h0
    have hi : k % nr < nr := Nat.mod_lt _ hnr
    have hj : k / nr < nc := by
      rw [Nat.div_lt_iff_lt_mul hnr]; rw [Nat.mul_comm]; exact hk
    have hkk : k / nr * nr + k % nr = k := Nat.div_add_mod' k nr
    simp [flattenF, reshapeF, hk, hi, hj, hkk, h ▸ hk, List.getD_eq_getElem?_getD]
  · simp [flattenF, hk, List.getElem?_eq_none (by rw [h]; omega : s.length ≤ k)]

/-- C18: row i of the packed bounds is (lb[i], ub[i]) for every n -/
theorem boxBounds_row (lb ub : List α) (h : ub.length = lb.length) (i : Nat) (hi : i < lb.length) :
    (boxBounds lb ub).getD i [] = [lb.getD i default, ub.getD i default] := by
  have h1 : (lb ++ ub)[i]? = lb[i]? := List.getElem?_append_left hi
  have h2 : (lb ++ ub)[lb.length + i]? = ub[i]? := by
    rw [List.getElem?_append_right (by omega)]; simp
  simp [boxBounds, reshapeF, hi, List.range_succ, List.getD_eq_getElem?_getD, h1, h2]
end Pygom
#print axioms Pygom.flattenF_reshapeF
#print axioms Pygom.boxBounds_row
