/- Spike for C02: row bookkeeping of `integrateFuncJac` with buffer cells. Mathlib-free. -/
namespace Pygom
variable {X : Type}

/-- what the code appends to `solution`: a value, or a reference to integrator buffer `id` -/
inductive Cell (X : Type) | val (x : X) | ref (id : Nat)

structure ICfg where
  aliased : Bool        -- does `r.y` return the integrator's internal buffer? (LSODA: yes)
  copyOnRead : Bool     -- does the code copy `r.y`?
  fullOutput : Bool
  includeOrigin : Bool

/-- integrator object: current time, buffer contents, buffer identity -/
structure IObj (X : Type) where
  t : Rat
  buf : X
  id : Nat

/-- loop state: integrator, cells appended so far (reversed), final contents of retired buffers, next fresh id -/
structure LState (X : Type) where
  r : IObj X
  cells : List (Cell X)
  heap : List (Nat × X)
  nextId : Nat

def readY (c : ICfg) (r : IObj X) : Cell X :=
  if c.aliased && !c.copyOnRead then .ref r.id else .val r.buf

def loopStep (flow : Rat → Rat → X → X) (c : ICfg) (s : LState X) (dt : Rat) : LState X :=
  let r1 : IObj X := { s.r with t := dt, buf := flow dt s.r.t s.r.buf }     -- r.integrate(deltaT)
  let o1 := readY c r1
  if c.fullOutput then
    -- r = _setupIntegrator(func, jac, o1, deltaT, ...): a NEW integrator, fresh buffer, old one retired
    { r := { t := dt, buf := r1.buf, id := s.nextId }, cells := o1 :: s.cells,
      heap := (r1.id, r1.buf) :: s.heap, nextId := s.nextId + 1 }
  else
    { s with r := r1, cells := o1 :: s.cells }

def deref (heap : List (Nat × X)) (live : IObj X) : Cell X → Option X
  | .val x => some x
  | .ref id => if id = live.id then some live.buf else (heap.lookup id)

/-- rows of `np.array(solution)` -/
def integrateFuncJac (flow : Rat → Rat → X → X) (c : ICfg) (x0 : X) (t0 : Rat) (ts : List Rat) : List (Option X) :=
  let s0 : LState X := ⟨⟨t0, x0, 0⟩, [], [], 1⟩
  let s := ts.foldl (loopStep flow c) s0
  (if c.includeOrigin then [some x0] else []) ++ s.cells.reverse.map (deref s.heap s.r)
end Pygom
