/- Spike for C14: the five loss kernels (formulas as they appear in loss_type.py / distn.py, per observation)
   equal minus the log density of the named Mathlib distribution, and diff_loss / diff2Loss are derivatives. -/
import Mathlib.Probability.Distributions.Gaussian.Real
import Mathlib.Probability.Distributions.Gamma
import Mathlib.Probability.Distributions.Poisson.Basic
import Mathlib.Analysis.SpecialFunctions.Log.Deriv
import Mathlib.Analysis.SpecialFunctions.Gamma.Basic
import Mathlib.Tactic
open Real ProbabilityTheory

namespace Gen  -- what the translator would emit (hand-typed here)
/-- Normal.loss, one observation; r = weighted residual (y - yhat)*w -/
noncomputable def Normal_loss (y yhat sigma w : ℝ) : ℝ :=
  -((-Real.log 2) + (Real.log 2 / 2) + (-Real.log Real.pi / 2) + Real.log (1 / sigma)
     + (-(((y - yhat) * w) ^ 2) / (2 * sigma ^ 2)))
noncomputable def Normal_diff_loss (y yhat sigma w : ℝ) : ℝ := -((y - yhat) * w) / sigma ^ 2
/-- Poisson.loss via dpois(log=True) = y*log mu - mu - log Γ(y+1) -/
noncomputable def Poisson_loss (y yhat : ℝ) : ℝ := -(y * Real.log yhat - yhat - Real.log (Real.Gamma (y + 1)))
noncomputable def Poisson_diff_loss (y yhat w : ℝ) : ℝ := -((y - yhat) * w) / yhat
noncomputable def Poisson_diff2 (y yhat : ℝ) : ℝ := y / yhat ^ 2
/-- Gamma.loss via gamma_mu_shape(log=True) -/
noncomputable def Gamma_loss (y yhat a : ℝ) : ℝ :=
  -((-Real.log (Real.Gamma a)) + ((a - 1) * Real.log y) + (-a * Real.log (yhat / a)) + (-a * y / yhat))
noncomputable def Gamma_diff_loss (y yhat a w : ℝ) : ℝ := a * -((y - yhat) * w) / yhat ^ 2
noncomputable def Gamma_diff2 (y yhat a w : ℝ) : ℝ := a * ((y - yhat) * w + y) / yhat ^ 3
end Gen

/-- Normal kernel = −log N(yhat, σ²) density at y (unit weight) -/
theorem normal_loss_is_nll (y yhat sigma : ℝ) (hs : 0 < sigma) (v : NNReal) (hv : (v : ℝ) = sigma ^ 2) :
    Gen.Normal_loss y yhat sigma 1 = -Real.log (gaussianPDFReal yhat v y) := by
  unfold Gen.Normal_loss gaussianPDFReal
  rw [hv]
  have hs2 : (0:ℝ) < sigma ^ 2 := by positivity
  have h1 : Real.log (√(2 * Real.pi * sigma ^ 2)) = (Real.log 2 + Real.log Real.pi + 2 * Real.log sigma) / 2 := by
    rw [Real.log_sqrt (by positivity), Real.log_mul (by positivity) (by positivity),
        Real.log_mul (by norm_num) (by positivity), Real.log_pow]; push_cast; ring
  rw [Real.log_mul (by positivity) (by positivity), Real.log_inv, h1, Real.log_exp, one_div, Real.log_inv]
  ring

/-- Poisson kernel = −log Poisson(yhat) mass at k -/
theorem poisson_loss_is_nll (k : ℕ) (yhat : ℝ) (hy : 0 < yhat) (r : NNReal) (hr : (r : ℝ) = yhat) :
    Gen.Poisson_loss k yhat = -Real.log ((poissonMeasure r).real {k}) := by
  unfold Gen.Poisson_loss
  rw [poissonMeasure_real_singleton, hr]
  have hf : (0:ℝ) < (k.factorial : ℝ) := by exact_mod_cast Nat.factorial_pos k
  rw [Real.log_div (by positivity) (by positivity), Real.log_mul (by positivity) (by positivity),
      Real.log_exp, Real.log_pow, Real.Gamma_nat_eq_factorial]
  ring

/-- Gamma kernel = −log Gamma(shape a, rate a/yhat) density at y -/
theorem gamma_loss_is_nll (y yhat a : ℝ) (hy : 0 < y) (hm : 0 < yhat) (ha : 0 < a) :
    Gen.Gamma_loss y yhat a = -Real.log (gammaPDFReal a (a / yhat) y) := by
  unfold Gen.Gamma_loss gammaPDFReal
  rw [if_pos hy.le]
  have hG : 0 < Real.Gamma a := Real.Gamma_pos_of_pos ha
  have hr : 0 < a / yhat := by positivity
  have e1 : Real.log ((a / yhat) ^ a / Real.Gamma a * y ^ (a - 1) * Real.exp (-(a / yhat * y)))
      = a * (Real.log a - Real.log yhat) - Real.log (Real.Gamma a) + (a - 1) * Real.log y - a / yhat * y := by
    rw [Real.log_mul (by positivity) (by positivity), Real.log_mul (by positivity) (by positivity),
        Real.log_div (by positivity) (by positivity), Real.log_rpow hr, Real.log_rpow hy, Real.log_exp,
        Real.log_div (by positivity) (by positivity)]
    ring
  rw [e1, Real.log_div (by positivity) (by positivity)]
  field_simp
  ring

/-- Poisson diff_loss is the derivative of the loss in the prediction (unit weight) -/
theorem poisson_diff_loss_is_derivative (y yhat : ℝ) (hm : 0 < yhat) :
    HasDerivAt (fun m => Gen.Poisson_loss y m) (Gen.Poisson_diff_loss y yhat 1) yhat := by
  unfold Gen.Poisson_loss Gen.Poisson_diff_loss
  have h : HasDerivAt (fun m : ℝ => -(y * Real.log m - m - Real.log (Real.Gamma (y + 1))))
      (-(y * yhat⁻¹ - 1 - 0)) yhat :=
    ((((Real.hasDerivAt_log hm.ne').const_mul y).sub (hasDerivAt_id' yhat)).sub (hasDerivAt_const _ _)).neg
  have := hm.ne'
  exact h.congr_deriv (by field_simp; ring)

/-- Poisson diff2Loss is the derivative of diff_loss -/
theorem poisson_diff2_is_second_derivative (y yhat : ℝ) (hm : 0 < yhat) :
    HasDerivAt (fun m => Gen.Poisson_diff_loss y m 1) (Gen.Poisson_diff2 y yhat) yhat := by
  unfold Gen.Poisson_diff_loss Gen.Poisson_diff2
  have h : HasDerivAt (fun m : ℝ => -((y - m) * 1) / m)
      ((-((0 - 1) * 1) * yhat - (-((y - yhat) * 1)) * 1) / yhat ^ 2) yhat :=
    (((((hasDerivAt_const yhat y).sub (hasDerivAt_id' yhat)).mul_const 1).neg).div (hasDerivAt_id' yhat) hm.ne')
  have := hm.ne'
  exact h.congr_deriv (by field_simp; ring)

/-- Gamma diff_loss is the derivative of the loss -/
theorem gamma_diff_loss_is_derivative (y yhat a : ℝ) (hm : 0 < yhat) (ha : 0 < a) :
    HasDerivAt (fun m => Gen.Gamma_loss y m a) (Gen.Gamma_diff_loss y yhat a 1) yhat := by
  unfold Gen.Gamma_loss Gen.Gamma_diff_loss
  have hq : HasDerivAt (fun m : ℝ => m / a) (1 / a) yhat := (hasDerivAt_id' yhat).div_const a
  have hl : HasDerivAt (fun m : ℝ => Real.log (m / a)) ((1 / a) / (yhat / a)) yhat :=
    hq.log (by positivity)
  have hi : HasDerivAt (fun m : ℝ => -a * y / m) ((0 * yhat - (-a * y) * 1) / yhat ^ 2) yhat :=
    (hasDerivAt_const yhat (-a * y)).div (hasDerivAt_id' yhat) hm.ne'
  have h : HasDerivAt
      (fun m : ℝ => -((-Real.log (Real.Gamma a)) + ((a - 1) * Real.log y) + (-a * Real.log (m / a)) + (-a * y / m)))
      (-(0 + 0 + (-a * ((1 / a) / (yhat / a))) + ((0 * yhat - (-a * y) * 1) / yhat ^ 2))) yhat :=
    ((((hasDerivAt_const yhat _).add (hasDerivAt_const yhat _)).add (hl.const_mul (-a))).add hi).neg
  have := hm.ne'; have := ha.ne'
  exact h.congr_deriv (by field_simp; ring)

#print axioms normal_loss_is_nll
#print axioms poisson_loss_is_nll
#print axioms gamma_loss_is_nll
#print axioms gamma_diff_loss_is_derivative
