import Sp.Integ
import Mathlib.Tactic
namespace Pygom
variable {X : Type}

/-- fold lemma for the single-integrator path when the code's reads are value reads -/
theorem fold_simple (flow : Rat → Rat → X → X)
    (hcomp : ∀ t2 t1 t0 x, flow t2 t1 (flow t1 t0 x) = flow t2 t0 x)
    (c : ICfg) (hc : c.fullOutput = false) (hsafe : (c.aliased && !c.copyOnRead) = false)
    (x0 : X) (t0 : Rat) (ts : List Rat) (s : LState X) (hs : s.r.buf = flow s.r.t t0 x0) :
    (ts.foldl (loopStep flow c) s).cells = (ts.map (fun t => Cell.val (flow t t0 x0))).reverse ++ s.cells := by
  induction ts generalizing s with
  | nil => simp
  | cons t ts ih =>
    simp only [List.foldl_cons, List.map_cons, List.reverse_cons, List.append_assoc, List.singleton_append]
    have hstep : loopStep flow c s t
        = { s with r := { s.r with t := t, buf := flow t s.r.t s.r.buf },
                   cells := Cell.val (flow t s.r.t s.r.buf) :: s.cells } := by
      simp [loopStep, hc, readY, hsafe]
    rw [ih (loopStep flow c s t) (by rw [hstep]; simp [hs, hcomp])]
    rw [hstep]; simp [hs, hcomp]

/-- C02 `rows_correct`, single-integrator path: one row per requested time, in order, origin first if asked -/
theorem rows_correct_simple (flow : Rat → Rat → X → X)
    (hid : ∀ t x, flow t t x = x)
    (hcomp : ∀ t2 t1 t0 x, flow t2 t1 (flow t1 t0 x) = flow t2 t0 x)
    (c : ICfg) (hc : c.fullOutput = false) (hsafe : (c.aliased && !c.copyOnRead) = false)
    (x0 : X) (t0 : Rat) (ts : List Rat) :
    integrateFuncJac flow c x0 t0 ts
      = (if c.includeOrigin then [some x0] else []) ++ ts.map (fun t => some (flow t t0 x0)) := by
  unfold integrateFuncJac
  simp only
  rw [fold_simple flow hcomp c hc hsafe x0 t0 ts _ (by simp [hid])]
  simp [List.map_reverse, deref, Function.comp_def]

/-- fold lemma for the aliased, non-copying path: every read is a reference to the one live buffer -/
theorem fold_aliased (flow : Rat → Rat → X → X)
    (hcomp : ∀ t2 t1 t0 x, flow t2 t1 (flow t1 t0 x) = flow t2 t0 x)
    (c : ICfg) (hc : c.fullOutput = false) (hal : (c.aliased && !c.copyOnRead) = true)
    (x0 : X) (t0 : Rat) (ts : List Rat) (s : LState X) (hs : s.r.buf = flow s.r.t t0 x0) :
    let s' := ts.foldl (loopStep flow c) s
    s'.cells = List.replicate ts.length (Cell.ref s.r.id) ++ s.cells ∧ s'.r.id = s.r.id ∧ s'.heap = s.heap ∧
      s'.r.buf = flow ((s.r.t :: ts).getLast (by simp)) t0 x0 := by
  induction ts generalizing s with
  | nil => simp [hs]
  | cons t ts ih =>
    have hstep : loopStep flow c s t
        = { s with r := { s.r with t := t, buf := flow t s.r.t s.r.buf },
                   cells := Cell.ref s.r.id :: s.cells } := by
      simp [loopStep, hc, readY, hal]
    have := ih (loopStep flow c s t) (by rw [hstep]; simp [hs, hcomp])
    simp only [List.foldl_cons]
    obtain ⟨h1, h2, h3, h4⟩ := this
    refine ⟨?_, ?_, ?_, ?_⟩
    · rw [h1, hstep]; simp [List.replicate_succ']
    · rw [h2, hstep]
    · rw [h3, hstep]
    · rw [h4, hstep]; simp [List.getLast_cons]

/-- C02 `rows_aliased`: with an aliased buffer and no copy, every requested row is the FINAL state -/
theorem rows_aliased (flow : Rat → Rat → X → X)
    (hid : ∀ t x, flow t t x = x)
    (hcomp : ∀ t2 t1 t0 x, flow t2 t1 (flow t1 t0 x) = flow t2 t0 x)
    (c : ICfg) (hc : c.fullOutput = false) (hal : (c.aliased && !c.copyOnRead) = true)
    (x0 : X) (t0 : Rat) (ts : List Rat) :
    integrateFuncJac flow c x0 t0 ts
      = (if c.includeOrigin then [some x0] else [])
        ++ ts.map (fun _ => some (flow ((t0 :: ts).getLast (by simp)) t0 x0)) := by
  unfold integrateFuncJac
  simp only
  obtain ⟨h1, h2, h3, h4⟩ := fold_aliased flow hcomp c hc hal x0 t0 ts ⟨⟨t0, x0, 0⟩, [], [], 1⟩ (by simp [hid])
  simp only at h1 h2 h3 h4
  rw [h1]
  congr 1
  simp only [List.append_nil, List.reverse_replicate, List.map_replicate, deref, h2, if_true, h4]
  rw [List.map_const']

end Pygom
#print axioms Pygom.rows_correct_simple
#print axioms Pygom.rows_aliased
