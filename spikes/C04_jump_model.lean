/- Spike for C04/C10/C11: exact-mode jump loop as a function of an explicit draw stream. Mathlib-free model. -/
namespace Pygom

abbrev Vec := List Rat
abbrev Lim := Option Rat × Option Rat

/-- `_checkJump`'s acceptance test for one component -/
def okLim (l : Lim) (x : Rat) : Bool :=
  match l with
  | (none, none) => true
  | (none, some hi) => !(x > hi)
  | (some lo, none) => !(x < lo)
  | (some lo, some hi) => !(x < lo || x > hi)

def within (lims : List Lim) (x : Vec) : Bool := (lims.zip x).all (fun p => okLim p.1 p.2)

def vadd (x y : Vec) : Vec := List.zipWith (· + ·) x y

/-- first index of the minimum of a non-empty list of optional waiting times (none = +∞) -/
def argminOpt : List (Option Rat) → Option (Nat × Rat)
  | [] => none
  | (t :: ts) =>
    match argminOpt ts, t with
    | none, none => none
    | none, some a => some (0, a)
    | some (i, b), none => some (i+1, b)
    | some (i, b), some a => if a ≤ b then some (0, a) else some (i+1, b)

structure Rec where
  x : Vec
  t : Rat
  counts : List Nat
  dt : Rat
deriving Repr

structure Cfg where
  lims : List Lim
  rates : Vec → Rat → List Rat          -- eventRateVector(x,t)
  col : Vec → Rat → Nat → Vec           -- column j of vMat(x,t)
  finalT : Rat

def onehot (n k : Nat) : List Nat := (List.range n).map (fun i => if i = k then 1 else 0)

inductive StepOut | stop | next (r : Rec)

/-- one `firstReaction` + `_checkJump`; `draws[i]` is the exponential variate drawn for event i (used only if rate>0) -/
def stepExact (c : Cfg) (x : Vec) (t : Rat) (draws : List Rat) : StepOut :=
  let rs := c.rates x t
  if rs.all (· == 0) then .stop else
  let jt := (rs.zip draws).map (fun p => if p.1 > 0 then some p.2 else none)
  match argminOpt jt with
  | none => .stop                           -- (the real code mis-unpacks here; unreachable for rates ≥ 0)
  | some (k, dt) =>
    let xn := vadd x (c.col x t k)
    if within c.lims xn then .next ⟨xn, t + dt, onehot rs.length k, dt⟩ else .stop

/-- the `while t < finalT` loop over a stream of per-step draws; returns the records appended after the initial one -/
def runExact (c : Cfg) (x : Vec) (t : Rat) : List (List Rat) → List Rec
  | [] => []
  | d :: ds =>
    if t < c.finalT then
      match stepExact c x t d with
      | .stop => []
      | .next r => r :: runExact c r.x r.t ds
    else []

end Pygom
