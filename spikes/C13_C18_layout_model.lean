/- Spike for C13/C07/C18: numpy 'F'/'C' reshapes as index arithmetic on lists; Mathlib-free model. -/
namespace Pygom
variable {α : Type} [Inhabited α]

/-- np.reshape(s, (nr, nc), 'F') : M[i][j] = s[j*nr + i] -/
def reshapeF (s : List α) (nr nc : Nat) : List (List α) :=
  (List.range nr).map fun i => (List.range nc).map fun j => s.getD (j*nr + i) default
/-- np.reshape(s, (nr, nc)) (C order) : M[i][j] = s[i*nc + j] -/
def reshapeC (s : List α) (nr nc : Nat) : List (List α) :=
  (List.range nr).map fun i => (List.range nc).map fun j => s.getD (i*nc + j) default
/-- np.reshape(M, nr*nc, order='F') -/
def flattenF (M : List (List α)) (nr nc : Nat) : List α :=
  (List.range (nr*nc)).map fun k => (M.getD (k % nr) []).getD (k / nr) default
def flattenC (M : List (List α)) (nr nc : Nat) : List α :=
  (List.range (nr*nc)).map fun k => (M.getD (k / nc) []).getD (k % nc) default

/-- `fit`: np.reshape(np.append(lb, ub), (n, 2), 'F') -/
def boxBounds (lb ub : List α) : List (List α) := reshapeF (lb ++ ub) lb.length 2
end Pygom
