import Sp.Grid
import Mathlib.Algebra.Order.Field.Rat
import Mathlib.Tactic
namespace Pygom

/-- on a strictly increasing list the elements `< x` are exactly the first `countP (· < x)` ones -/
theorem lt_iff_lt_countP (ts : List Rat) (hs : ts.Pairwise (· < ·)) (x : Rat) (j : Nat) (hj : j < ts.length) :
    ts[j] < x ↔ j < ts.countP (· < x) := by
  induction ts generalizing j with
  | nil => simp at hj
  | cons a rest ih =>
    rw [List.pairwise_cons] at hs
    by_cases ha : a < x
    · simp only [List.countP_cons, ha, decide_true, if_true]
      cases j with
      | zero => simp [ha]
      | succ j =>
        simp only [List.getElem_cons_succ]
        rw [ih hs.2 j (by simpa using hj)]; omega
    · -- nothing is < x
      have hnone : ∀ b ∈ rest, ¬ b < x := fun b hb hbx => ha (lt_trans (hs.1 b hb) hbx)
      have hc : rest.countP (· < x) = 0 := by
        rw [List.countP_eq_zero]; intro b hb; simpa using hnone b hb
      simp only [List.countP_cons, ha, decide_false, hc]
      cases j with
      | zero => simp [ha]
      | succ j =>
        simp only [List.getElem_cons_succ]
        constructor
        · intro h; exact absurd h (hnone _ (List.getElem_mem _))
        · intro h; simp at h

/-- C15 `row_is_path_state`: the index picked is the LAST index whose time is ≤ target -/
theorem extractIdx_spec (ts : List Rat) (hs : ts.Pairwise (· < ·)) (target : Rat)
    (hne : 0 < ts.length) (h0 : ts[0] ≤ target) :
    ∃ hk : extractIdx ts target < ts.length,
      ts[extractIdx ts target] ≤ target ∧
      ∀ j (hj : j < ts.length), extractIdx ts target < j → target < ts[j] := by
  unfold extractIdx
  by_cases hmem : target ∈ ts
  · simp only [hmem, if_true]
    have hk : ts.idxOf target < ts.length := List.idxOf_lt_length_iff.mpr hmem
    refine ⟨hk, ?_, ?_⟩
    · rw [List.getElem_idxOf hk]
    · intro j hj hlt
      have := List.pairwise_iff_getElem.mp hs _ j hk hj hlt
      rwa [List.getElem_idxOf hk] at this
  · simp only [hmem, if_false, searchsortedLeft]
    have hne' : ∀ j (hj : j < ts.length), ts[j] ≠ target := fun j hj h => hmem (h ▸ List.getElem_mem hj)
    have hc : 0 < ts.countP (· < target) := by
      rw [← lt_iff_lt_countP ts hs target 0 hne]
      exact lt_of_le_of_ne h0 (hne' 0 hne)
    have hcl : ts.countP (· < target) ≤ ts.length := List.countP_le_length
    have hk : ts.countP (· < target) - 1 < ts.length := by omega
    refine ⟨hk, ?_, ?_⟩
    · exact le_of_lt ((lt_iff_lt_countP ts hs target _ hk).mpr (by omega))
    · intro j hj hlt
      have : ¬ ts[j] < target := by
        rw [lt_iff_lt_countP ts hs target j hj]; omega
      exact lt_of_le_of_ne (not_lt.mp this) (Ne.symm (hne' j hj))
end Pygom
#print axioms Pygom.extractIdx_spec
