import Sp.Params
import Mathlib.Tactic
namespace Pygom

/-- abstract view: the value the unroll loop leaves for name `n` = value of the LAST entry named `n` -/
def lv (n : String) (acc : Rat) (d : Dict) : Rat :=
  d.foldl (fun acc kv => if kv.1.name = n then kv.2 else acc) acc
def lastVal (d : Dict) (n : String) : Rat := lv n 0 d

@[simp] theorem lv_nil (n acc) : lv n acc [] = acc := rfl
@[simp] theorem lv_cons (n acc kv rest) :
    lv n acc (kv :: rest) = lv n (if kv.1.name = n then kv.2 else acc) rest := rfl

theorem lv_no_name (n : String) (acc : Rat) (d : Dict) (h : ∀ kv ∈ d, kv.1.name ≠ n) : lv n acc d = acc := by
  induction d generalizing acc with
  | nil => rfl
  | cons kv rest ih =>
    simp only [lv_cons, h kv (by simp), if_false]
    exact ih _ (fun kv' h' => h kv' (by simp [h']))

/-- unroll reads back `lastVal` at every declared position -/
theorem unroll_get (params : List String) (hnd : params.Nodup) (d : Dict)
    (hk : ∀ kv ∈ d, kv.1.name ∈ params) (i : Nat) (hi : i < params.length) :
    (unroll params d)[i]? = some (lastVal d params[i]) := by
  unfold unroll lastVal lv
  suffices H : ∀ (pv : List Rat) (acc : Rat), pv.length = params.length → pv[i]? = some acc →
      (d.foldl (fun pv kv => pv.set (params.idxOf kv.1.name) kv.2) pv)[i]?
        = some (d.foldl (fun acc kv => if kv.1.name = params[i] then kv.2 else acc) acc) by
    exact H _ 0 (by simp) (by simp [hi])
  induction d with
  | nil => intro pv acc _ h; simpa using h
  | cons kv rest ih =>
    intro pv acc hlen hget
    simp only [List.foldl_cons]
    have hmem : kv.1.name ∈ params := hk kv (by simp)
    apply ih (fun kv' h' => hk kv' (by simp [h'])) _ _ (by simp [hlen])
    by_cases hn : kv.1.name = params[i]
    · have : params.idxOf kv.1.name = i := by rw [hn]; exact hnd.idxOf_getElem i hi
      rw [this]; simp [hn, hlen, hi]
    · have hne : params.idxOf kv.1.name ≠ i := by
        intro h
        apply hn
        have hlt : params.idxOf kv.1.name < params.length := List.idxOf_lt_length_iff.mpr hmem
        have := List.getElem_idxOf hlt
        simp only [h] at this
        exact this.symm
      simp [hn, List.getElem?_set_ne hne, hget]

/-- the invariant that makes mixed string/symbol keys harmless:
    after a `sym n` entry there is no further entry named `n` -/
def Inv : Dict → Prop
  | [] => True
  | kv :: rest => (∀ n, kv.1 = Key.sym n → ∀ kv' ∈ rest, kv'.1.name ≠ n) ∧ Inv rest

theorem mem_set {d : Dict} {k : Key} {v : Rat} {kv' : Key × Rat} (h : kv' ∈ Dict.set d k v) :
    kv' ∈ d ∨ kv' = (k, v) := by
  induction d with
  | nil => simp [Dict.set] at h; exact Or.inr h
  | cons kv rest ih =>
    unfold Dict.set at h
    split at h
    · simp only [List.mem_cons] at h
      rcases h with h | h
      · exact Or.inr h
      · exact Or.inl (by simp [h])
    · simp only [List.mem_cons] at h
      rcases h with h | h
      · exact Or.inl (by simp [h])
      · rcases ih h with h | h
        · exact Or.inl (by simp [h])
        · exact Or.inr h

theorem Inv_set (d : Dict) (n : String) (v : Rat) (h : Inv d) : Inv (Dict.set d (Key.sym n) v) := by
  induction d with
  | nil => simp [Dict.set, Inv]
  | cons kv rest ih =>
    unfold Dict.set
    split
    · rename_i hk
      refine ⟨?_, h.2⟩
      intro m hm kv' hkv'
      exact h.1 m (by rw [hk]; exact hm) kv' hkv'
    · rename_i hk
      refine ⟨?_, ih h.2⟩
      intro m hm kv' hkv'
      rcases mem_set hkv' with h' | h'
      · exact h.1 m hm kv' h'
      · subst h'
        simp only [Key.name]
        intro hnm; subst hnm; exact hk hm

theorem lv_set (d : Dict) (n : String) (v : Rat) (m : String) (acc : Rat) (h : Inv d) :
    lv m acc (Dict.set d (Key.sym n) v) = if m = n then v else lv m acc d := by
  induction d generalizing acc with
  | nil =>
    simp only [Dict.set, lv_cons, lv_nil, Key.name]
    by_cases hmn : m = n
    · simp [hmn]
    · simp [hmn, Ne.symm hmn]
  | cons kv rest ih =>
    unfold Dict.set
    split
    · rename_i hk
      simp only [lv_cons]
      by_cases hmn : m = n
      · subst hmn
        simp only [Key.name, if_true]
        exact lv_no_name _ _ _ (h.1 m hk)
      · have h1 : kv.1.name ≠ m := by rw [hk]; simp [Key.name]; exact Ne.symm hmn
        have h2 : (Key.sym n).name ≠ m := by simp [Key.name]; exact Ne.symm hmn
        rw [if_neg h1, if_neg h2, if_neg hmn]
    · simp only [lv_cons]
      rw [ih _ h.2]

/-- the two-line specification -/
def Spec.update (f : String → Rat) (ps : List (String × Rat)) : String → Rat :=
  ps.foldl (fun g p => Function.update g p.1 p.2) f

/-- writing a list of (name,value) through `Dict.set (sym ·)` refines pointwise update, from any dict satisfying `Inv` -/
theorem lastVal_foldl_set (ps : List (String × Rat)) (d : Dict) (h : Inv d) :
    (fun m => lastVal (ps.foldl (fun d p => Dict.set d (Key.sym p.1) p.2) d) m) = Spec.update (lastVal d) ps
    ∧ Inv (ps.foldl (fun d p => Dict.set d (Key.sym p.1) p.2) d) := by
  induction ps generalizing d with
  | nil => exact ⟨rfl, h⟩
  | cons p ps ih =>
    simp only [List.foldl_cons, Spec.update]
    have hI := Inv_set d p.1 p.2 h
    obtain ⟨h1, h2⟩ := ih (Dict.set d (Key.sym p.1) p.2) hI
    refine ⟨?_, h2⟩
    rw [h1]
    unfold Spec.update
    congr 1
    funext m
    unfold lastVal
    rw [lv_set _ _ _ _ _ h]
    by_cases hm : m = p.1
    · subst hm; simp
    · simp [hm]

/-- a positional assignment produces an all-string-key dict: `Inv` holds trivially -/
theorem Inv_of_all_str (d : Dict) (h : ∀ kv ∈ d, ∃ n, kv.1 = Key.str n) : Inv d := by
  induction d with
  | nil => trivial
  | cons kv rest ih =>
    refine ⟨?_, ih (fun kv' h' => h kv' (by simp [h']))⟩
    intro n hn
    obtain ⟨m, hm⟩ := h kv (by simp)
    rw [hm] at hn; cases hn

end Pygom
#print axioms Pygom.unroll_get
#print axioms Pygom.lastVal_foldl_set
