/-
Spike for C03: a symbolic differentiator on a small expression language is
proved to compute the true derivative (Mathlib `HasDerivAt`), by induction on
the expression.  Denominators must be non-zero (`defined`).
-/
import Mathlib.Analysis.SpecialFunctions.ExpDeriv
import Mathlib.Analysis.SpecialFunctions.Trigonometric.Deriv
import Mathlib.Analysis.Calculus.Deriv.Inv
import Mathlib.Tactic

namespace DerivSpike

inductive Expr where
  | num : Int → Nat → Expr      -- p/q
  | var : Nat → Expr
  | add : Expr → Expr → Expr
  | mul : Expr → Expr → Expr
  | neg : Expr → Expr
  | inv : Expr → Expr
  | exp : Expr → Expr
  | cos : Expr → Expr
  | sin : Expr → Expr
deriving Repr, BEq, Inhabited

namespace Expr
def zero : Expr := .num 0 1
def one : Expr := .num 1 1
def diff (v : Nat) : Expr → Expr
  | num _ _ => zero
  | var w => if w = v then one else zero
  | add a b => add (diff v a) (diff v b)
  | mul a b => add (mul (diff v a) b) (mul a (diff v b))
  | neg a => neg (diff v a)
  | inv a => neg (mul (diff v a) (inv (mul a a)))
  | exp a => mul (diff v a) (exp a)
  | cos a => neg (mul (diff v a) (sin a))
  | sin a => mul (diff v a) (cos a)

noncomputable def evalR (ρ : Nat → ℝ) : Expr → ℝ
  | num p q => (p : ℝ) / (q : ℝ)
  | var w => ρ w
  | add a b => evalR ρ a + evalR ρ b
  | mul a b => evalR ρ a * evalR ρ b
  | neg a => - evalR ρ a
  | inv a => (evalR ρ a)⁻¹
  | exp a => Real.exp (evalR ρ a)
  | cos a => Real.cos (evalR ρ a)
  | sin a => Real.sin (evalR ρ a)

/-- all denominators non-zero at ρ -/
def defined (ρ : Nat → ℝ) : Expr → Prop
  | num _ _ => True
  | var _ => True
  | add a b => defined ρ a ∧ defined ρ b
  | mul a b => defined ρ a ∧ defined ρ b
  | neg a => defined ρ a
  | inv a => defined ρ a ∧ evalR ρ a ≠ 0
  | exp a => defined ρ a
  | cos a => defined ρ a
  | sin a => defined ρ a

theorem hasDerivAt_diff (v : Nat) (ρ : Nat → ℝ) (e : Expr) (h : defined ρ e) :
    HasDerivAt (fun x => evalR (Function.update ρ v x) e) (evalR ρ (diff v e)) (ρ v) := by
  induction e with
  | num p q => simp only [evalR, diff, zero]; simpa using hasDerivAt_const (ρ v) ((p:ℝ)/(q:ℝ))
  | var w =>
    by_cases hw : w = v
    · subst hw; simp only [evalR, diff, one, if_true, Function.update_self]
      simpa using hasDerivAt_id' (ρ w)
    · simp only [evalR, diff, zero, hw, if_false, Function.update_of_ne hw]
      simpa using hasDerivAt_const (ρ v) (ρ w)
  | add a b iha ihb => simp only [evalR, diff]; exact (iha h.1).add (ihb h.2)
  | mul a b iha ihb =>
    simp only [evalR, diff]
    have := (iha h.1).mul (ihb h.2)
    simp only [Function.update_eq_self] at this
    exact this
  | neg a iha => simp only [evalR, diff]; exact (iha h).neg
  | inv a iha =>
    have h0 : evalR (Function.update ρ v (ρ v)) a ≠ 0 := by simpa [Function.update_eq_self] using h.2
    have := (iha h.1).inv h0
    simp only [evalR, diff]
    simp only [Function.update_eq_self] at this
    refine this.congr_deriv ?_
    rw [mul_inv_rev]; ring
  | exp a iha =>
    simp only [evalR, diff]
    have := (iha h).exp
    simp only [Function.update_eq_self] at this
    exact this.congr_deriv (by ring)
  | cos a iha =>
    simp only [evalR, diff]
    have := (iha h).cos
    simp only [Function.update_eq_self] at this
    exact this.congr_deriv (by ring)
  | sin a iha =>
    simp only [evalR, diff]
    have := (iha h).sin
    simp only [Function.update_eq_self] at this
    exact this.congr_deriv (by ring)
end Expr
end DerivSpike
#print axioms DerivSpike.Expr.hasDerivAt_diff
