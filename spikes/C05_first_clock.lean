import Mathlib.Probability.Distributions.Exponential
import Mathlib.Probability.Independence.Basic
import Mathlib.Probability.CDF
import Mathlib.MeasureTheory.Measure.Prod
import Mathlib.Tactic

open MeasureTheory ProbabilityTheory Set ENNReal

/-- ∫ exp(-R x) d Exp(r) = r/(r+R) : the "pdf rescaling" trick -/
theorem lintegral_surv_expMeasure {r R : ℝ} (hr : 0 < r) (hR : 0 ≤ R) (g : ℝ → ℝ≥0∞)
    (hgm : Measurable g) (hg : ∀ x, 0 ≤ x → g x = ENNReal.ofReal (Real.exp (-(R * x)))) :
    ∫⁻ x, g x ∂(expMeasure r) = ENNReal.ofReal (r / (r + R)) := by
  have hpdfm : Measurable (exponentialPDF r) := by
    unfold exponentialPDF; exact (measurable_exponentialPDFReal r).ennreal_ofReal
  have hrR : 0 < r + R := by linarith
  unfold expMeasure gammaMeasure
  change ∫⁻ x, g x ∂(volume.withDensity (exponentialPDF r)) = _
  rw [lintegral_withDensity_eq_lintegral_mul _ hpdfm hgm]
  have hpt : ∀ x, (exponentialPDF r * g) x = ENNReal.ofReal (r / (r + R)) * exponentialPDF (r + R) x := by
    intro x
    rcases lt_or_ge x 0 with hx | hx
    · simp [Pi.mul_apply, exponentialPDF_of_neg hx]
    · simp only [Pi.mul_apply, exponentialPDF_of_nonneg hx, hg x hx]
      rw [← ENNReal.ofReal_mul (by positivity), ← ENNReal.ofReal_mul (by positivity)]
      congr 1
      have : Real.exp (-((r + R) * x)) = Real.exp (-(r * x)) * Real.exp (-(R * x)) := by
        rw [← Real.exp_add]; congr 1; ring
      rw [this]; field_simp
  simp_rw [hpt]
  rw [lintegral_const_mul _ (by unfold exponentialPDF; exact (measurable_exponentialPDFReal _).ennreal_ofReal),
    lintegral_exponentialPDF_eq_one hrR, mul_one]

/-- general disintegration for an independent pair -/
theorem indep_prob_eq_lintegral {Ω β : Type*} [MeasurableSpace Ω] [MeasurableSpace β]
    (μ : Measure Ω) [IsProbabilityMeasure μ] (X : Ω → ℝ) (Y : Ω → β)
    (hX : Measurable X) (hY : Measurable Y) (hind : IndepFun X Y μ)
    (A : Set (ℝ × β)) (hA : MeasurableSet A) :
    μ {ω | (X ω, Y ω) ∈ A} = ∫⁻ x, (μ.map Y) (Prod.mk x ⁻¹' A) ∂(μ.map X) := by
  have h1 : μ {ω | (X ω, Y ω) ∈ A} = (μ.map (fun ω => (X ω, Y ω))) A := by
    rw [Measure.map_apply (hX.prodMk hY) hA]; rfl
  rw [h1, hind.map_prod_eq_prod_map_map hX.aemeasurable hY.aemeasurable]
  haveI : IsProbabilityMeasure (μ.map Y) := Measure.isProbabilityMeasure_map hY.aemeasurable
  rw [Measure.prod_apply hA]

/-- which clock fires first: clock `i` against all the others -/
theorem first_clock {Ω : Type*} [MeasurableSpace Ω] (μ : Measure Ω) [IsProbabilityMeasure μ]
    {ι : Type*} [Fintype ι] [DecidableEq ι] (τ : ι → Ω → ℝ) (r : ι → ℝ) (hr : ∀ i, 0 < r i)
    (hm : ∀ i, Measurable (τ i)) (hind : iIndepFun τ μ)
    (hlaw : ∀ i, μ.map (τ i) = expMeasure (r i)) (i : ι) :
    μ {ω | ∀ j, j ≠ i → τ i ω < τ j ω} = ENNReal.ofReal (r i / ∑ j, r j) := by
  classical
  -- the tuple of the other clocks
  let T : Finset ι := Finset.univ.erase i
  let Y : Ω → (T → ℝ) := fun ω j => τ j ω
  have hYm : Measurable Y := measurable_pi_lambda _ (fun j => hm j)
  have hXY : IndepFun (τ i) Y μ := by
    have h := hind.indepFun_finset {i} T (by simp [T]) hm
    -- (fun a (k : ({i}:Finset ι)) => τ k a) ⟂ Y ; compose the left with evaluation at ⟨i,_⟩
    have hi : i ∈ ({i} : Finset ι) := by simp
    have hφ : Measurable (fun f : (({i} : Finset ι) → ℝ) => f ⟨i, hi⟩) := measurable_pi_apply _
    have hcomp := h.comp (φ := fun f : (({i} : Finset ι) → ℝ) => f ⟨i, hi⟩) (ψ := id) hφ measurable_id
    exact hcomp
  let A : Set (ℝ × (T → ℝ)) := {p | ∀ j : T, p.1 < p.2 j}
  have hA : MeasurableSet A := by
    have : A = ⋂ j : T, {p : ℝ × (T → ℝ) | p.1 < p.2 j} := by ext p; simp [A]
    rw [this]
    refine MeasurableSet.iInter (fun j => ?_)
    exact measurableSet_lt measurable_fst ((measurable_pi_apply j).comp measurable_snd)
  have hset : {ω | ∀ j, j ≠ i → τ i ω < τ j ω} = {ω | (τ i ω, Y ω) ∈ A} := by
    ext ω; simp only [mem_setOf_eq, A, Y]
    constructor
    · intro h j; exact h j (Finset.ne_of_mem_erase j.2)
    · intro h j hj; exact h ⟨j, by simp [T, hj]⟩
  rw [hset, indep_prob_eq_lintegral μ (τ i) Y (hm i) hYm hXY A hA, hlaw i]
  -- survival of the others at level x
  set R : ℝ := ∑ j ∈ T, r j with hRdef
  have hR : 0 ≤ R := Finset.sum_nonneg (fun j _ => (hr j).le)
  have hsum : r i + R = ∑ j, r j := by
    rw [hRdef]; simp only [T]; rw [Finset.add_sum_erase _ _ (Finset.mem_univ i)]
  rw [← hsum]
  refine lintegral_surv_expMeasure (hr i) hR _ ?_ ?_
  · exact measurable_measure_prodMk_left hA
  · intro x hx
    have hpre : (μ.map Y) (Prod.mk x ⁻¹' A) = μ (⋂ j ∈ T, (τ j) ⁻¹' (Ioi x)) := by
      rw [Measure.map_apply hYm (measurable_prodMk_left hA)]
      congr 1; ext ω; simp [A, Y]
    rw [hpre, hind.meas_biInter (fun j _ => ⟨Ioi x, measurableSet_Ioi, rfl⟩)]
    have : ∀ j, μ ((τ j) ⁻¹' (Ioi x)) = ENNReal.ofReal (Real.exp (-(r j * x))) := by
      intro j
      rw [← Measure.map_apply (hm j) measurableSet_Ioi, hlaw j]
      -- survival function of Exp(r j)
      haveI := isProbabilityMeasure_expMeasure (hr j)
      have h1 : expMeasure (r j) (Iic x) = ENNReal.ofReal (1 - Real.exp (-(r j * x))) := by
        rw [← ofReal_cdf, cdf_expMeasure_eq (hr j), if_pos hx]
      have hc : (Ioi x) = (Iic x)ᶜ := by ext y; simp
      rw [hc, prob_compl_eq_one_sub measurableSet_Iic, h1]
      have hle : Real.exp (-(r j * x)) ≤ 1 := by
        apply Real.exp_le_one_iff.mpr; have := mul_nonneg (hr j).le hx; linarith
      rw [← ENNReal.ofReal_one, ← ENNReal.ofReal_sub _ (by linarith)]
      congr 1; ring
    simp_rw [this]
    rw [← ENNReal.ofReal_prod_of_nonneg (fun j _ => (Real.exp_pos _).le), ← Real.exp_sum]
    congr 2
    rw [hRdef, Finset.sum_mul, Finset.sum_neg_distrib]
#print axioms first_clock
