/- Spike for C04/C10/C11: the full `_jump` loop (exact, or tau-leap with fall-back to first reaction) over an explicit
   stream of per-iteration random inputs.  Extends Sp.Stoch. Mathlib-free. -/
import Sp.Stoch
namespace Pygom

/-- x + Σ_i col_i * n_i  (the loop of `_updateStateWithJump` inside tauLeap) -/
def applyCounts (col : Nat → Vec) (x : Vec) (counts : List Nat) : Vec :=
  (List.range counts.length).foldl (fun acc i => vadd acc ((col i).map (· * (counts.getD i 0 : Rat)))) x

/-- random inputs consumed by one loop iteration -/
structure IterIn where
  tau : Rat                 -- step size (adaptive or pre_tau), computed outside
  pois : List Nat           -- Poisson counts, one per event
  expo : List Rat           -- exponential variates for the first-reaction retry / exact mode

/-- tauLeap + `_checkJump` (event-only models: no explicit ODE term) -/
def stepTau (c : Cfg) (x : Vec) (t : Rat) (i : IterIn) : StepOut :=
  let rs := c.rates x t
  if rs.all (· == 0) then .stop else
  let xn := applyCounts (c.col x t) x (i.pois.take rs.length)
  if within c.lims xn then .next ⟨xn, t + i.tau, i.pois.take rs.length, i.tau⟩ else .stop

/-- one iteration of the `while`: exact mode, or tau with retry by first reaction -/
def iter (c : Cfg) (exact : Bool) (x : Vec) (t : Rat) (i : IterIn) : StepOut :=
  if exact then stepExact c x t i.expo
  else match stepTau c x t i with
    | .next r => .next r
    | .stop => stepExact c x t i.expo      -- retry from the SAME (x,t)

def run (c : Cfg) (exact : Bool) (x : Vec) (t : Rat) : List IterIn → List Rec
  | [] => []
  | i :: is =>
    if t < c.finalT then
      match iter c exact x t i with
      | .stop => []
      | .next r => r :: run c exact r.x r.t is
    else []
end Pygom
