import Sp.Canary
import Mathlib.Tactic
namespace Pygom
variable {D : Type}

def CInv (s : CState D) : Prop := ∀ n, s.flag n = false → s.snap n = some s.cur

def allTrip : List (COp D) → Prop
  | [] => True
  | .mutate _ t :: ops => t = true ∧ allTrip ops
  | .eval _ _ :: ops => allTrip ops

theorem cinv_init (d : D) : CInv (cinit d) := by intro n h; simp [cinit] at h

theorem cinv_step (s : CState D) (op : COp D) (h : CInv s)
    (ht : ∀ f t, op = .mutate f t → t = true) : CInv (cstep s op).1 := by
  cases op with
  | mutate f t =>
    have := ht f t rfl; subst this
    intro n hn; simp [cstep] at hn
  | eval name master =>
    simp only [cstep]
    split
    · intro n hn
      by_cases hnn : n = name
      · simp [hnn]
      · simp only [hnn, if_false] at hn ⊢
        cases master with
        | true => simp at hn
        | false => simp at hn; exact h n hn
    · exact h

theorem eval_fresh (s : CState D) (name : String) (master : Bool) (h : CInv s) :
    (cstep s (.eval name master)).2 = some s.cur := by
  simp only [cstep]
  split
  · rfl
  · rename_i hc
    simp only [Bool.or_eq_true, not_or, Bool.not_eq_true] at hc
    exact h name hc.2

/-- C08: if every mutator trips the flags, every evaluation in every history uses the current definition -/
theorem never_stale (ops : List (COp D)) (s : CState D) (h : CInv s) (ht : allTrip ops) :
    ∀ p ∈ crun s ops, p.1 = some p.2 := by
  induction ops generalizing s with
  | nil => simp [crun]
  | cons op ops ih =>
    cases op with
    | mutate f t =>
      simp only [crun]
      exact ih _ (cinv_step s _ h (by intro f' t' e; cases e; exact ht.1)) ht.2
    | eval name master =>
      simp only [crun, List.mem_cons]
      intro p hp
      rcases hp with rfl | hp
      · exact eval_fresh s name master h
      · exact ih _ (cinv_step s _ h (by intro f' t' e; cases e)) ht p hp

/-- the defect as a theorem: a non-tripping mutator after a compile gives a stale evaluation -/
theorem stale_counterexample :
    crun (cinit (0 : Nat)) [.eval "ode" true, .mutate (· + 1) false, .eval "ode" true]
      = [(some 0, 0), (some 0, 1)] := by
  decide
end Pygom
#print axioms Pygom.never_stale
#print axioms Pygom.stale_counterexample
