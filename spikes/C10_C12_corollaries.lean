import Sp.Proof
import Mathlib.Algebra.BigOperators.Group.Finset.Basic
import Mathlib.Algebra.BigOperators.Ring.Finset
import Mathlib.Tactic
open Finset

variable {K : Type} [CommRing K]

/-- C12 `order_irrelevant`: permuting the event list does not change any ODE component -/
theorem ode_perm (ρ : String → K) (n : Nat) (evs evs' : List Event) (k : Nat) (hp : evs.Perm evs')
    (h : ∀ ev ∈ evs, ∀ tr ∈ ev.transitions, tr.wf n) :
    comp ρ (odeEqn n evs) k = comp ρ (odeEqn n evs') k := by
  rw [ode_entry ρ n evs k h, ode_entry ρ n evs' k (fun ev he => h ev (hp.symm.subset he))]
  exact (hp.map _).sum_eq

/-- for a T transition with both ends in range the signed indicators cancel over the states -/
theorem sum_sgn_T (tr : Tr) (n : Nat) (hT : tr.ttype = .T) (hwf : tr.wf n) :
    ∑ k ∈ range n, (sgn tr k : K) = 0 := by
  unfold sgn; simp only [hT]
  rw [Finset.sum_add_distrib]
  simp [Finset.sum_ite_eq, hwf.1, hwf.2]

theorem sum_net_T (ρ : String → K) (n : Nat) (trs : List Tr)
    (hwf : ∀ tr ∈ trs, tr.wf n) (hT : ∀ tr ∈ trs, tr.ttype = .T) :
    ∑ k ∈ range n, (trs.map (fun tr => (sgn tr k : K) * tr.magnitude.eval ρ)).sum = 0 := by
  induction trs with
  | nil => simp
  | cons tr trs ih =>
    simp only [List.map_cons, List.sum_cons, Finset.sum_add_distrib]
    rw [ih (fun t ht => hwf t (by simp [ht])) (fun t ht => hT t (by simp [ht])), add_zero,
        ← Finset.sum_mul, sum_sgn_T tr n (hT tr (by simp)) (hwf tr (by simp)), zero_mul]

/-- C10 `ode_sum_zero`: transition-only models have ODE components summing to zero, in every commutative ring -/
theorem ode_sum_zero (ρ : String → K) (n : Nat) (evs : List Event)
    (h : ∀ ev ∈ evs, ∀ tr ∈ ev.transitions, tr.wf n)
    (hT : ∀ ev ∈ evs, ∀ tr ∈ ev.transitions, tr.ttype = .T) :
    ∑ k ∈ range n, comp ρ (odeEqn n evs) k = 0 := by
  simp_rw [ode_entry ρ n evs _ h]
  induction evs with
  | nil => simp
  | cons ev evs ih =>
    simp only [List.map_cons, List.sum_cons, Finset.sum_add_distrib]
    rw [ih (fun e he => h e (by simp [he])) (fun e he => hT e (by simp [he])), add_zero, ← Finset.mul_sum]
    have : ∑ k ∈ range n, net ρ ev k = 0 := sum_net_T ρ n ev.transitions (h ev (by simp)) (hT ev (by simp))
    rw [this, mul_zero]
#print axioms ode_perm
#print axioms ode_sum_zero
