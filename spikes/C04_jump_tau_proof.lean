import Sp.Stoch2
import Sp.StochProof
import Mathlib.Tactic
namespace Pygom

def GoodIn (is : List IterIn) : Prop := ∀ i ∈ is, 0 < i.tau ∧ ∀ a ∈ i.expo, 0 < a

theorem stepTau_next {c : Cfg} {x : Vec} {t : Rat} {i : IterIn} {r : Rec} (h : stepTau c x t i = .next r) :
    r.t = t + i.tau ∧ r.dt = i.tau ∧ within c.lims r.x = true ∧
      r.x = applyCounts (c.col x t) x r.counts := by
  unfold stepTau at h
  simp only at h
  split at h
  · simp at h
  · split at h
    · rename_i hw
      simp only [StepOut.next.injEq] at h; subst h
      exact ⟨rfl, rfl, hw, rfl⟩
    · simp at h

/-- every accepted iteration: strictly later time, positive step, state within limits -/
theorem iter_next {c : Cfg} {exact : Bool} {x : Vec} {t : Rat} {i : IterIn} {r : Rec}
    (hi : 0 < i.tau ∧ ∀ a ∈ i.expo, 0 < a) (h : iter c exact x t i = .next r) :
    t < r.t ∧ 0 < r.dt ∧ within c.lims r.x = true := by
  unfold iter at h
  split at h
  · obtain ⟨k, _, ht, hdt, _, hw⟩ := stepExact_next hi.2 h
    exact ⟨by rw [ht]; linarith, hdt, hw⟩
  · split at h
    · rename_i r' htau
      simp only [StepOut.next.injEq] at h; subst h
      obtain ⟨ht, hdt, hw, _⟩ := stepTau_next htau
      exact ⟨by rw [ht]; linarith [hi.1], by rw [hdt]; exact hi.1, hw⟩
    · obtain ⟨k, _, ht, hdt, _, hw⟩ := stepExact_next hi.2 h
      exact ⟨by rw [ht]; linarith, hdt, hw⟩

/-- C04 + C11 for both algorithms, every stream, every length -/
theorem run_legal (c : Cfg) (exact : Bool) (is : List IterIn) (his : GoodIn is) (x : Vec) (t : Rat) :
    List.IsChain (fun a b : Rat => a < b) (t :: (run c exact x t is).map (·.t))
    ∧ ∀ r ∈ run c exact x t is, within c.lims r.x = true ∧ 0 < r.dt := by
  induction is generalizing x t with
  | nil => simp [run]
  | cons i is ih =>
    unfold run
    split
    · split
      · simp
      · rename_i r hstep
        obtain ⟨hlt, hdt, hw⟩ := iter_next (his i (by simp)) hstep
        have ih' := ih (fun j hj => his j (by simp [hj])) r.x r.t
        constructor
        · simp only [List.map_cons]; exact List.IsChain.cons_cons hlt ih'.1
        · intro r' hr'
          simp only [List.mem_cons] at hr'
          rcases hr' with rfl | hr'
          · exact ⟨hw, hdt⟩
          · exact ih'.2 r' hr'
    · simp
end Pygom
#print axioms Pygom.run_legal
