/- Spike for C09: the `parameters` setter as a state machine over an insertion-ordered dict with two key kinds. -/
namespace Pygom

inductive Key | str (n : String) | sym (n : String)
deriving DecidableEq, Repr

def Key.name : Key → String | .str n => n | .sym n => n

abbrev Dict := List (Key × Rat)

/-- python dict `d[k] = v` : replace in place if present, else append -/
def Dict.set : Dict → Key → Rat → Dict
  | [], k, v => [(k, v)]
  | (k', v') :: rest, k, v => if k' = k then (k, v) :: rest else (k', v') :: Dict.set rest k v

structure PState where
  params : List String          -- declared parameter names (distinct)
  dict : Option Dict            -- `_parameters` (none = attribute absent)
  deriving Repr

/-- the unroll loop: `_paramValue = [0]*n; for key,val in items: _paramValue[index(key)] = val` -/
def unroll (params : List String) (d : Dict) : List Rat :=
  d.foldl (fun pv kv => pv.set (params.idxOf kv.1.name) kv.2) (List.replicate params.length 0)

def paramValue (s : PState) : List Rat := unroll s.params (s.dict.getD [])

inductive Op
  | setList (vals : List Rat)                 -- list / tuple / ndarray of numbers
  | setPairs (ps : List (String × Rat))       -- list of (name, value)
  | setDict (ps : List (String × Rat))        -- dict (possibly partial)

def step (s : PState) : Op → Except String PState
  | .setList vals =>
    if vals.length ≠ s.params.length then .error "length"
    else .ok { s with dict := some ((s.params.zip vals).map (fun p => (Key.str p.1, p.2))) }
  | .setPairs ps =>
    if ps.length ≠ s.params.length then .error "length"
    else if ps.any (fun p => !s.params.contains p.1) then .error "unknown"
    else .ok { s with dict := some (ps.foldl (fun d p => Dict.set d (Key.sym p.1) p.2) []) }
  | .setDict ps =>
    if ps.length > s.params.length then .error "too many"
    else if ps.any (fun p => !s.params.contains p.1) then .error "unknown"
    else .ok { s with dict := some (ps.foldl (fun d p => Dict.set d (Key.sym p.1) p.2) (s.dict.getD [])) }

end Pygom
