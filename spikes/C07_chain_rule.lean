/- Spike for C07: the gradient assembled by `sens_to_grad` is the derivative of the cost, by the chain rule
   through the per-observation kernels (abstract kernels ℓ i with derivative d i; predictions ŷ i with
   sensitivity s i in the free variable). -/
import Mathlib.Analysis.Calculus.Deriv.Add
import Mathlib.Analysis.Calculus.Deriv.Comp
import Mathlib.Analysis.Calculus.Deriv.Mul
import Mathlib.Tactic
open Finset

theorem cost_hasDerivAt {n : ℕ} (ℓ : Fin n → ℝ → ℝ) (yhat : Fin n → ℝ → ℝ) (d s : Fin n → ℝ) (θ : ℝ)
    (hy : ∀ i, HasDerivAt (yhat i) (s i) θ)
    (hℓ : ∀ i, HasDerivAt (ℓ i) (d i) (yhat i θ)) :
    HasDerivAt (fun v => ∑ i, ℓ i (yhat i v)) (∑ i, d i * s i) θ := by
  have h : ∀ i ∈ (Finset.univ : Finset (Fin n)), HasDerivAt (fun v => ℓ i (yhat i v)) (d i * s i) θ :=
    fun i _ => (hℓ i).comp θ (hy i)
  exact HasDerivAt.fun_sum h
#print axioms cost_hasDerivAt
