/- Spike for C15: `_extractObservationAtTime` index lookup. Mathlib-free model. -/
namespace Pygom
/-- np.searchsorted(ts, x) (side='left') on a sorted array = number of elements < x -/
def searchsortedLeft (ts : List Rat) (x : Rat) : Nat := ts.countP (· < x)
/-- index chosen by `_extractObservationAtTime` for one target time -/
def extractIdx (ts : List Rat) (target : Rat) : Nat :=
  if target ∈ ts then ts.idxOf target else searchsortedLeft ts target - 1
end Pygom
