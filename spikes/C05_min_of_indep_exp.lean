import Mathlib.Probability.Distributions.Exponential
import Mathlib.Probability.Independence.Basic
import Mathlib.Probability.CDF
import Mathlib.Tactic

open MeasureTheory ProbabilityTheory Set

/-- survival function of the exponential measure -/
theorem expMeasure_Ioi {r : ℝ} (hr : 0 < r) {s : ℝ} (hs : 0 ≤ s) :
    expMeasure r (Ioi s) = ENNReal.ofReal (Real.exp (-(r * s))) := by
  haveI := isProbabilityMeasure_expMeasure hr
  have h1 : expMeasure r (Iic s) = ENNReal.ofReal (1 - Real.exp (-(r * s))) := by
    rw [← ofReal_cdf, cdf_expMeasure_eq hr, if_pos hs]
  have hc : (Ioi s) = (Iic s)ᶜ := by ext x; simp
  rw [hc, prob_compl_eq_one_sub measurableSet_Iic, h1]
  have hle : Real.exp (-(r * s)) ≤ 1 := by
    apply Real.exp_le_one_iff.mpr; have := mul_nonneg hr.le hs; linarith
  rw [← ENNReal.ofReal_one, ← ENNReal.ofReal_sub _ (by linarith)]
  congr 1; ring

/-- waiting time to the first of finitely many independent exponential clocks -/
theorem min_of_indep_exp {Ω : Type*} [MeasurableSpace Ω] (μ : Measure Ω) [IsProbabilityMeasure μ]
    {ι : Type*} [Fintype ι] (τ : ι → Ω → ℝ) (r : ι → ℝ) (hr : ∀ i, 0 < r i)
    (hm : ∀ i, Measurable (τ i))
    (hind : iIndepFun τ μ)
    (hlaw : ∀ i, μ.map (τ i) = expMeasure (r i)) (s : ℝ) (hs : 0 ≤ s) :
    μ {ω | ∀ i, s < τ i ω} = ENNReal.ofReal (Real.exp (-((∑ i, r i) * s))) := by
  have hset : {ω | ∀ i, s < τ i ω} = ⋂ i, (τ i) ⁻¹' (Ioi s) := by ext ω; simp
  rw [hset, hind.meas_iInter (fun i => ⟨Ioi s, measurableSet_Ioi, rfl⟩)]
  have : ∀ i, μ ((τ i) ⁻¹' (Ioi s)) = ENNReal.ofReal (Real.exp (-(r i * s))) := by
    intro i
    rw [← Measure.map_apply (hm i) measurableSet_Ioi, hlaw i, expMeasure_Ioi (hr i) hs]
  simp_rw [this]
  rw [← ENNReal.ofReal_prod_of_nonneg (fun i _ => (Real.exp_pos _).le), ← Real.exp_sum]
  congr 2
  rw [Finset.sum_mul, Finset.sum_neg_distrib]
#print axioms min_of_indep_exp
