/- Spike for C20: J^T J accumulated over observations is symmetric positive semidefinite. -/
import Mathlib.LinearAlgebra.Matrix.PosDef
import Mathlib.Algebra.Order.Star.Real
import Mathlib.Tactic
open Matrix

/-- jtj = Σ_i sᵢᵀ sᵢ with sᵢ the (weighted) num_s × num_out sensitivity block of observation i -/
noncomputable def jtj {n q p : ℕ} (s : Fin n → Matrix (Fin q) (Fin p) ℝ) : Matrix (Fin p) (Fin p) ℝ :=
  ∑ i, (s i)ᵀ * s i

theorem jtj_entry {n q p : ℕ} (s : Fin n → Matrix (Fin q) (Fin p) ℝ) (a b : Fin p) :
    jtj s a b = ∑ i, ∑ j, s i j a * s i j b := by
  simp [jtj, Matrix.sum_apply, Matrix.mul_apply, Matrix.transpose_apply]

theorem jtj_posSemidef {n q p : ℕ} (s : Fin n → Matrix (Fin q) (Fin p) ℝ) : (jtj s).PosSemidef := by
  unfold jtj
  apply Matrix.posSemidef_sum
  intro i _
  have := Matrix.posSemidef_conjTranspose_mul_self (s i)
  simpa [Matrix.conjTranspose_eq_transpose_of_trivial] using this

theorem jtj_symm {n q p : ℕ} (s : Fin n → Matrix (Fin q) (Fin p) ℝ) : (jtj s)ᵀ = jtj s := by
  have := (jtj_posSemidef s).isHermitian
  simpa [Matrix.IsHermitian, Matrix.conjTranspose_eq_transpose_of_trivial] using this
#print axioms jtj_posSemidef
#print axioms jtj_entry
