/- Spike for C08: recompile flags as a state machine; `D` = model definition (abstract). Mathlib-free. -/
namespace Pygom
structure CState (D : Type) where
  cur  : D
  snap : String → Option D      -- what each `<name>Compiled` closure was compiled from
  flag : String → Bool          -- `_hasNewTransition.<name>`

inductive COp (D : Type)
  | mutate (f : D → D) (trips : Bool)       -- add_transition / add_event / add_ode / ... ; does it call trip()?
  | eval (name : String) (master : Bool)    -- call an evaluator (`ode` is master)

def cinit {D} (d : D) : CState D := ⟨d, fun _ => none, fun _ => true⟩

/-- one operation; for `eval` also returns the definition the value was computed from -/
def cstep {D} (s : CState D) : COp D → CState D × Option D
  | .mutate f trips => (⟨f s.cur, s.snap, if trips then fun _ => true else s.flag⟩, none)
  | .eval name master =>
    if (s.snap name).isNone || s.flag name then
      let snap' := fun n => if n = name then some s.cur else s.snap n
      let flag1 := if master then fun _ => true else s.flag
      let flag' := fun n => if n = name then false else flag1 n
      (⟨s.cur, snap', flag'⟩, some s.cur)
    else (s, s.snap name)

/-- run a history, collecting for every `eval` the pair (definition used, current definition) -/
def crun {D} (s : CState D) : List (COp D) → List (Option D × D)
  | [] => []
  | op :: ops =>
    let r := cstep s op
    match op with
    | .eval _ _ => (r.2, s.cur) :: crun r.1 ops
    | .mutate _ _ => crun r.1 ops
end Pygom
