/-
Spike for C14: the NegBinom loss kernel's `diff_loss` is the derivative of the
loss in the prediction (formula as in pygom/loss/loss_type.py, constants that
do not depend on the prediction dropped).
-/
import Mathlib.Analysis.SpecialFunctions.Log.Deriv
import Mathlib.Tactic
open Real
theorem nb_deriv (y k mu : ℝ) (hmu : 0 < mu) (hk : 0 < k) :
    HasDerivAt (fun m : ℝ => -(k * (Real.log k - Real.log (k + m))) - y * (Real.log m - Real.log (k + m)))
      (k * (mu - y) / (mu * (k + mu))) mu := by
  have hkm : k + mu ≠ 0 := by positivity
  have h2 : HasDerivAt (fun m : ℝ => Real.log m) (mu⁻¹) mu := Real.hasDerivAt_log (ne_of_gt hmu)
  have h3 : HasDerivAt (fun m : ℝ => Real.log (k + m)) ((k+mu)⁻¹) mu := by
    have := ((hasDerivAt_id mu).const_add k).log hkm
    simpa using this
  have h : HasDerivAt (fun m : ℝ => -(k * (Real.log k - Real.log (k + m))) - y * (Real.log m - Real.log (k + m)))
      (-(k * (0 - (k + mu)⁻¹)) - y * (mu⁻¹ - (k + mu)⁻¹)) mu :=
    (((hasDerivAt_const mu (Real.log k)).sub h3).const_mul k).neg.sub ((h2.sub h3).const_mul y)
  have hm := hmu.ne'
  exact h.congr_deriv (by field_simp; ring)
#print axioms nb_deriv
