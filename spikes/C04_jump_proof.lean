import Sp.Stoch
import Mathlib.Algebra.Order.Field.Rat
import Mathlib.Tactic
namespace Pygom

/-- every drawn waiting time is positive -/
def PosDraws (ds : List (List Rat)) : Prop := ∀ d ∈ ds, ∀ a ∈ d, 0 < a

theorem argminOpt_mem {l : List (Option Rat)} {k : Nat} {a : Rat} (h : argminOpt l = some (k, a)) :
    l[k]? = some (some a) := by
  induction l generalizing k a with
  | nil => simp [argminOpt] at h
  | cons t ts ih =>
    unfold argminOpt at h
    cases hr : argminOpt ts with
    | none =>
      cases t with
      | none => simp [hr] at h
      | some b => simp [hr] at h; obtain ⟨rfl, rfl⟩ := h; simp
    | some p =>
      obtain ⟨i, b⟩ := p
      cases t with
      | none => simp [hr] at h; obtain ⟨rfl, rfl⟩ := h; simpa using ih hr
      | some c =>
        simp only [hr] at h
        split at h
        · simp at h; obtain ⟨rfl, rfl⟩ := h; simp
        · simp at h; obtain ⟨rfl, rfl⟩ := h; simpa using ih hr

/-- a successful step: positive dt, new time = t+dt, Δx is column k, counts one-hot, new state within limits -/
theorem stepExact_next {c : Cfg} {x : Vec} {t : Rat} {d : List Rat} {r : Rec}
    (hd : ∀ a ∈ d, 0 < a) (h : stepExact c x t d = .next r) :
    ∃ k, r.x = vadd x (c.col x t k) ∧ r.t = t + r.dt ∧ 0 < r.dt ∧
      r.counts = onehot (c.rates x t).length k ∧ within c.lims r.x = true := by
  unfold stepExact at h
  simp only at h
  split at h
  · simp at h
  · split at h
    · simp at h
    · rename_i k dt harg
      split at h
      · rename_i hw
        simp only [StepOut.next.injEq] at h
        subst h
        refine ⟨k, rfl, rfl, ?_, rfl, hw⟩
        -- dt is one of the draws
        have hm := argminOpt_mem harg
        simp only [List.getElem?_map] at hm
        cases hz : ((c.rates x t).zip d)[k]? with
        | none => simp [hz] at hm
        | some p =>
          simp only [hz, Option.map_some] at hm
          split at hm
          · simp at hm; subst hm
            have : p ∈ (c.rates x t).zip d := List.mem_of_getElem? hz
            exact hd _ (List.of_mem_zip this).2
          · simp at hm
      · simp at h

/-- C04/C11 invariants for every draw stream of any length -/
theorem runExact_legal (c : Cfg) (ds : List (List Rat)) (hds : PosDraws ds) (x : Vec) (t : Rat) :
    List.IsChain (fun a b : Rat => a < b) (t :: (runExact c x t ds).map (·.t))
    ∧ ∀ r ∈ runExact c x t ds, within c.lims r.x = true ∧ 0 < r.dt := by
  induction ds generalizing x t with
  | nil => simp [runExact]
  | cons d ds ih =>
    unfold runExact
    split
    · split
      · simp
      · rename_i r hstep
        have hd : ∀ a ∈ d, 0 < a := hds d (by simp)
        obtain ⟨k, hx, ht, hdt, hc, hw⟩ := stepExact_next hd hstep
        have ih' := ih (fun d' hd' => hds d' (by simp [hd'])) r.x r.t
        constructor
        · simp only [List.map_cons]
          refine List.IsChain.cons_cons ?_ ih'.1
          rw [ht]; linarith
        · intro r' hr'
          simp only [List.mem_cons] at hr'
          rcases hr' with rfl | hr'
          · exact ⟨hw, hdt⟩
          · exact ih'.2 r' hr'
    · simp

end Pygom
#print axioms Pygom.runExact_legal
