#!/usr/bin/env python3
"""
Evaluate seeded changes delivered by a sub-agent:  tools/seed_eval.py <PROP> <seed_dir> <checks,comma> [--tests]
For each change{k}.diff in <seed_dir>/SEEDED: apply to a private scratch worktree of /repo HEAD, confirm the demo
fails with it and passes without it, run the given checks with VERIF_REPO pointing at the scratch tree, optionally
run the repo's full test suite there, and store everything under /verif/seeded/<PROP>-<tag><k>/.
"""
import json, os, shutil, subprocess, sys, glob, re
prop, sdir, checks = sys.argv[1], sys.argv[2], sys.argv[3].split(",")
run_tests = "--tests" in sys.argv
tag = os.path.basename(sdir.rstrip("/"))
V = "/verif"
wt = "/tmp/rw/eval_%s" % tag
subprocess.run(["git", "-C", "/repo", "worktree", "remove", "--force", wt], capture_output=True)
subprocess.run(["git", "-C", "/repo", "worktree", "add", "--detach", wt], check=True, capture_output=True)
for so in glob.glob("/repo/src/pygom/model/_tau_leap*.so"):
    shutil.copy(so, os.path.join(wt, "src/pygom/model/"))
env = dict(os.environ, PYTHONPATH=os.path.join(wt, "src"))
def demo(path):
    r = subprocess.run(["/venv/bin/python", path], cwd=wt, env=env, capture_output=True, text=True, timeout=600)
    return r.returncode, (r.stdout + r.stderr)[-600:]
try:
    for diff in sorted(glob.glob(os.path.join(sdir, "SEEDED", "change*.diff"))):
        k = re.search(r"change(\d+)\.diff", diff).group(1)
        demo_src = os.path.join(sdir, "SEEDED", "demo%s.py" % k)
        meta_src = os.path.join(sdir, "SEEDED", "meta%s.json" % k)
        out = os.path.join(V, "seeded", "%s-%s%s" % (prop, tag[-1], k))
        os.makedirs(out, exist_ok=True)
        shutil.copy(diff, os.path.join(out, "patch.diff")); shutil.copy(demo_src, os.path.join(out, "demo.py"))
        meta = json.load(open(meta_src)) if os.path.exists(meta_src) else {}
        subprocess.run(["git", "-C", wt, "checkout", "--", "."], check=True)
        rc0, o0 = demo(os.path.join(out, "demo.py"))
        ap = subprocess.run(["git", "-C", wt, "apply", "--whitespace=nowarn", diff], capture_output=True, text=True)
        if ap.returncode != 0:
            print(prop, k, "PATCH DOES NOT APPLY to current HEAD:", ap.stderr[:300]); meta["applies"] = False
            json.dump(meta, open(os.path.join(out, "meta.json"), "w"), indent=1); continue
        if "_tau_leap.pyx" in open(diff).read():
            subprocess.run(["/venv/bin/python", "-c", "from setuptools import setup, Extension; from Cython.Build import cythonize; import numpy; "
                            "setup(script_args=['build_ext','--inplace'], ext_modules=cythonize([Extension('pygom.model._tau_leap', ['src/pygom/model/_tau_leap.pyx'], include_dirs=[numpy.get_include()])]))"],
                           cwd=wt, capture_output=True, text=True)
            for so in glob.glob(os.path.join(wt, "pygom/model/_tau_leap*.so")) + glob.glob(os.path.join(wt, "build/lib*/pygom/model/_tau_leap*.so")):
                shutil.copy(so, os.path.join(wt, "src/pygom/model/"))
            meta["pyx_rebuilt_for_demo"] = True
        rc1, o1 = demo(os.path.join(out, "demo.py"))
        res = {}
        for c in checks:
            r = subprocess.run(["./check", c], cwd=V, env=dict(os.environ, VERIF_REPO=wt), capture_output=True, text=True)
            res[c] = {"exit": r.returncode, "lines": ([l for l in r.stdout.splitlines() if l.startswith("VIOLATION")][:2] + [l[:160] for l in r.stdout.splitlines() if l.startswith("KNOWN")][:3]),
                      "summary": (r.stdout.splitlines() or [""])[-1]}
        tests = None
        if run_tests:
            t = subprocess.run(["/venv/bin/python", "-m", "pytest", "-q", "-p", "no:cacheprovider", "--timeout=900", "-n", os.environ.get("SEED_TEST_PROCS", "6"), "tests/"],
                               cwd=wt, env=env, capture_output=True, text=True)
            tests = {"exit": t.returncode, "tail": t.stdout.strip().splitlines()[-1:]}
        meta.update({"property": prop, "verified_by_main_session": {"demo_without_change_exit": rc0, "demo_with_change_exit": rc1,
                     "demo_with_change_output": o1, "checks": res, "tests_with_change": tests,
                     "ran": "git apply patch.diff on a scratch worktree of /repo HEAD; demo.py; VERIF_REPO=<scratch> ./check " + " ".join(checks)}})
        json.dump(meta, open(os.path.join(out, "meta.json"), "w"), indent=1)
        print(prop, k, "demo without/with:", rc0, rc1, "| checks:", {c: (v["exit"], v["lines"][:1]) for c, v in res.items()}, "| tests:", tests)
finally:
    subprocess.run(["git", "-C", wt, "checkout", "--", "."])
    subprocess.run(["git", "-C", "/repo", "worktree", "remove", "--force", wt], capture_output=True)
    subprocess.run([sys.executable, os.path.join(V, "tools", "regen.py")], capture_output=True)
