#!/usr/bin/env python3
"""(re)write the hand-made corpus cases of C05 and C16: minimal reproducers of the second-round seeded changes
(C05-b1, C05-b2, C16-b1, C16-b2) and of the defect found on the way (a deep copy detaches frozen distributions from the
global seed).  A corpus case is just a case: it runs first on every run of the check.

    /venv/bin/python tools/mk_c0516_corpus.py
"""
import json
import os
import sys

V = os.path.dirname(os.path.dirname(os.path.abspath(__file__)))
sys.path.insert(0, V)
from harness.props import c05  # noqa: E402

ALPHA = c05.ALPHA_TOTAL / 100.0          # a corpus case gets a hundredth of the run's false-alarm budget


def dump(prop, slug, case):
    d = os.path.join(V, "corpus", prop)
    os.makedirs(d, exist_ok=True)
    with open(os.path.join(d, slug + ".json"), "w") as f:
        json.dump(case, f, indent=1)
    print("corpus/%s/%s.json" % (prop, slug))


# ----------------------------------------------------------------------------- C05
fam = [{"states": ["A", "B", "C"], "edges": [[0, 1, "k0AB"], [1, 2, "k0BC"]], "n": 18, "start": 0}]
chain = {"kind": "chain", "families": fam, "params": {"k0AB": 3.0, "k0BC": 0.5}, "x0": [18, 0, 0], "t0": 0.0, "times": [0.6],
         "horizon_kind": "scalar", "runs": 1500, "np_seed": 20260928, "alpha": ALPHA, "x0_form": "arr_int", "t0_form": "np_f64"}
# seeded C05-b1: simulate with other parameter values first, assign the case's values, judge the batch simulated afterwards
dump("C05", "seeded-C05-b1-parameters-changed-after-a-simulation",
     dict(chain, history={"kind": "params", "params_other": {"k0AB": 0.5, "k0BC": 3.0}, "warm": 200, "assign": "dict", "np_seed": 7,
                          "x0_other": [21, 0, 0], "x0_form": "arr_int", "dist": "frozen"}))
# the same through a dict of distributions that is then replaced by plain numbers (the record must be cleared: fix cc23e1d)
dump("C05", "distributions-then-plain-numbers",
     dict(chain, np_seed=20260929, x0_form="list_float",
          history={"kind": "stoch_then_numbers", "params_other": {"k0AB": 0.5, "k0BC": 3.0}, "warm": 150, "assign": "list", "np_seed": 8,
                   "x0_other": [21, 0, 0], "x0_form": "arr_int", "dist": "tuple"}))
# seeded C05-b2: the parallel code path (seed=True per replicate); small population
dump("C05", "seeded-C05-b2-parallel-replicates",
     dict(chain, families=[dict(fam[0], n=6)], x0=[6, 0, 0], runs=300, np_seed=20260930, parallel=True))

# seeded C05-c2 (third round): `_extractObservationAtTime` took the FIRST requested time to be t0.  Grids whose first point lies after
# t0 - t[1:] of a linspace as ndarray, a non-uniform list, a one-point ndarray - judged at every requested time
fam2 = [{"states": ["A", "B", "C"], "edges": [[1, 2, "k0BC"], [0, 1, "k0AB"]], "n": 25, "start": 0}, {"states": ["U", "V"], "edges": [[0, 1, "k1UV"]], "n": 12, "start": 0}]
chain2 = {"kind": "chain", "families": fam2, "params": {"k0BC": 0.75, "k0AB": 1.0, "k1UV": 0.5}, "x0": [25, 0, 0, 12, 0], "t0": 0.0, "horizon_kind": "grid",
          "runs": 1500, "np_seed": 20260931, "alpha": ALPHA, "x0_form": "arr_int", "t0_form": "np_f64", "chunk": 500}
dump("C05", "seeded-C05-c2-grid-starting-after-t0-linspace-tail",
     dict(chain2, times=[0.5, 1.0, 1.5, 2.0], grid_shape="after_t0", grid_form="array"))
dump("C05", "seeded-C05-c2-grid-starting-after-t0-nonuniform-list",
     dict(chain2, times=[0.4, 1.0, 2.5], grid_shape="nonuniform_after_t0", grid_form="list", np_seed=20260932, x0_form="list_float"))
dump("C05", "seeded-C05-c2-one-point-grid",
     dict(chain2, times=[1.0], grid_shape="one_point", grid_form="array", np_seed=20260933, chunk=7))
# seeded C05-c1: a path that is absorbed before the horizon keeps its last event (zero-rate event declared first; raw output and a
# grid that extends past absorption)
fam3 = [{"states": ["A", "B", "C"], "edges": [[2, 0, "z0CA"], [1, 2, "k0BC"], [0, 1, "k0AB"]], "n": 6, "start": 0}]
chain3 = {"kind": "chain", "families": fam3, "params": {"z0CA": 0.0, "k0BC": 2.0, "k0AB": 1.0}, "x0": [6, 0, 0], "t0": 1.5, "runs": 1000, "np_seed": 20260934,
          "alpha": ALPHA, "x0_form": "tuple_int", "t0_form": "np_f64", "chunk": 250}
dump("C05", "seeded-C05-c1-absorbed-before-the-horizon-scalar", dict(chain3, times=[41.5], horizon_kind="scalar", grid_shape=None, grid_form=None))
dump("C05", "seeded-C05-c1-absorbed-before-the-horizon-grid",
     dict(chain3, times=[1.5, 2.0, 21.5, 41.5], horizon_kind="grid", grid_shape="from_t0", grid_form="tuple", np_seed=20260935))


# ----------------------------------------------------------------------------- C16
spec = c05.sir_spec("freq")
meta = {"states": ["S", "I", "R"], "params": ["beta", "gamma", "N"]}
base = {"spec": spec, "meta": meta, "x0": [20, 3, 0], "params": {"beta": 0.5, "gamma": 0.25, "N": 23.0}, "tot0": 2.1, "has_ode": False,
        "max_steps": 300}
sim = {"mode": "exact", "t0": 0.0, "T": 8.0, "np_seed": 4242, "epsilon": None, "pre_tau": None}
# seeded C16-b1: a float64 initial state (ndarray / list of floats), exact runs: the second seeded call must reproduce the first
dump("C16", "seeded-C16-b1-float-x0-second-seeded-call",
     dict(base, kind="hist", entry="stoch", sim=sim, pdict=None,
          target={"time": {"kind": "float", "values": [8.0]}, "n": 2, "n_form": "int", "exact": True, "seed": 4242},
          instances=[{"x0_form": "arr_f64", "t0_form": "np_f64", "histories": [{"kind": "ctor_forms", "ops": []}]},
                     {"x0_form": "arr_int", "t0_form": "np_f64",
                      "histories": [{"kind": "forms", "ops": [{"op": "set_iv", "x0": [20, 3, 0], "t0": 0.0, "x0_form": "list_float", "t0_form": "np_f64", "via": "values"}]},
                                    {"kind": "other_run", "ops": [{"op": "stoch_call", "time": {"kind": "list", "values": [0.0, 2.0, 4.0]}, "n": 1, "exact": False, "seed": 5}]}]}]))
pdict_frozen = [{"name": "beta", "kind": "frozen", "dist": "gamma", "args": [100.0, 0.0, 0.005]},
                {"name": "gamma", "kind": "fixed", "value": 0.25}]
pdict_tuple = [{"name": "gamma", "kind": "tuple", "sampler": "rgamma", "args": [100.0, 400.0]},
               {"name": "beta", "kind": "tuple", "sampler": "runif", "kwargs": {"min": 0.4, "max": 0.6}}]
grid = [2.0, 4.0, 6.0, 8.0]
ogrid = [1.0, 2.0, 3.0, 4.0, 5.0, 6.0]
for form, pd in (("frozen", pdict_frozen), ("tuple", pdict_tuple)):
    for entry in ("simulate_param", "solve_determ"):
        other = "solve_determ" if entry == "simulate_param" else "simulate_param"
        # seeded C16-b2: what the instance was used for before the seeded call (nothing / another grid / the same entry point on
        # another grid or with another iteration count / the other entry point / a stochastic run) must not matter
        dump("C16", "seeded-C16-b2-history-before-the-seeded-call-%s-%s" % (entry, form),
             dict(base, kind="hist", entry="param", sim=sim, pdict=pd, grid=grid, max_steps=60,
                  target={"entry": entry, "n": 3, "n_form": "int", "seed": 99},
                  instances=[{"prep": "none", "grid_form": "list", "histories": [{"kind": "fresh", "ops": []}]},
                             {"prep": "none", "grid_form": "array",
                              "histories": [{"kind": "integrate_other", "ops": [{"op": "integrate", "grid": ogrid}]},
                                            {"kind": "same_entry_other_grid", "ops": [{"op": "param_call", "entry": entry, "grid": ogrid, "n": 2, "seed": 1, "full": True}]},
                                            {"kind": "same_entry_other_n", "ops": [{"op": "param_call", "entry": entry, "grid": grid, "n": 5, "seed": 2, "full": False}]},
                                            {"kind": "other_entry", "ops": [{"op": "param_call", "entry": other, "grid": ogrid, "n": 1, "seed": 3, "full": True}]},
                                            {"kind": "stoch_run", "ops": [{"op": "stoch_call", "time": {"kind": "float", "values": [4.0]}, "n": 1, "exact": True, "seed": 4}]}]}]))
# distributions assigned and used, then plain numbers (fix cc23e1d), then the dict again; and the defect found by the deepcopy history
dump("C16", "distributions-numbers-distributions",
     dict(base, kind="hist", entry="param", sim=sim, pdict=pdict_tuple, grid=grid, max_steps=60,
          target={"entry": "simulate_param", "n": 2, "n_form": "np_i64", "seed": 77},
          instances=[{"prep": "same", "grid_form": "tuple",
                      "histories": [{"kind": "numbers_then_pdict",
                                     "ops": [{"op": "set_params", "params": {"beta": 1.0, "gamma": 0.5, "N": 23.0}, "form": "list"},
                                             {"op": "integrate", "grid": ogrid},
                                             {"op": "set_params", "params": base["params"], "form": "two_dicts"},
                                             {"op": "set_pdict", "pdict": pdict_tuple}]},
                                    {"kind": "other_pdict",
                                     "ops": [{"op": "set_pdict", "pdict": pdict_frozen},
                                             {"op": "param_call", "entry": "solve_determ", "grid": ogrid, "n": 1, "seed": 5, "full": True},
                                             {"op": "set_params", "params": base["params"], "form": "tuples"},
                                             {"op": "set_pdict", "pdict": pdict_tuple}]}]}]))
dump("C16", "deepcopy-detaches-frozen-distribution",
     dict(base, kind="hist", entry="param", sim=sim, pdict=pdict_frozen, grid=grid, max_steps=60,
          target={"entry": "simulate_param", "n": 2, "n_form": "int", "seed": 55},
          instances=[{"prep": "same", "grid_form": "array", "histories": [{"kind": "deepcopy", "ops": [{"op": "integrate", "grid": ogrid}, {"op": "deepcopy"}]}]}]))

# seeded C16-c1 (third round): a (sampler, args) entry whose sampler draws through pygom.utilR.rbeta (wrapper `rbeta_w` of c16: rbeta
# returns an array also for n = 1); one and three iterations, both entry points, mixed with rgamma / a frozen distribution / a number
pdict_rbeta = [{"name": "beta", "kind": "tuple", "sampler": "rbeta_w", "args": [20.0, 20.0, 1.0]},
               {"name": "gamma", "kind": "tuple", "sampler": "rgamma", "args": [100.0, 400.0]}]
pdict_rbeta_mixed = [{"name": "gamma", "kind": "frozen", "dist": "gamma", "args": [100.0, 0.0, 0.0025]},
                     {"name": "beta", "kind": "tuple", "sampler": "rbeta_w", "kwargs": {"shape1": 20.0, "shape2": 20.0, "scale": 1.0}},
                     {"name": "N", "kind": "fixed", "value": 23.0}]
for entry, n, pd, slug in (("solve_determ", 1, pdict_rbeta, "one-iteration"), ("simulate_param", 3, pdict_rbeta_mixed, "mixed-dict")):
    dump("C16", "seeded-C16-c1-sampler-drawing-through-rbeta-%s-%s" % (entry, slug),
         dict(base, kind="param", sim=dict(sim, np_seed=31337), pdict=pd, grid=grid, form="tuple", n=n,
              A={"entry": entry, "n": n, "n_form": "int"}, B={"entry": "simulate_param" if entry == "solve_determ" else "solve_determ", "n": 2},
              grid_form="array", prep=["none", "same"], seed2=31338, seed3=31339))

# seeded C16-d1 (fourth round): the mean trajectory taken block-wise (100 runs at a time, block means averaged unweighted) - `Y` is the
# mean of the returned runs for ANY iteration count; counts beyond 100 that are not a multiple of 100 (MEAN cases of c16)
for entry, n, pd, slug in (("simulate_param", 130, pdict_frozen, "130-iterations"), ("solve_determ", 250, pdict_tuple, "250-iterations")):
    dump("C16", "seeded-C16-d1-mean-of-more-than-100-runs-%s-%s" % (entry, slug),
         dict(base, kind="mean", sim=dict(sim, np_seed=27182), pdict=pd, grid=[4.0, 8.0], grid_shape="after_t0", form="frozen" if pd is pdict_frozen else "tuple", n=n,
              A={"entry": entry, "n": n, "n_form": "int"}, grid_form="array"))

# seeded C05-d1 (fourth round): "no event can fire any more" decided with np.allclose(rates, 0) - a path is frozen when every event rate is
# <= 1e-8 although events are possible.  (1) the b1 chain in another UNIT OF TIME (rates * 2^-30 ~ 9.3e-10, times * 2^30: 1 per 34 years timed
# in seconds): the occupancy law is the same numbers; (2) a chain whose fast stage (2^-20) is exhausted while a slow one (2^-30) remains
U = 2.0 ** -30
dump("C05", "seeded-C05-d1-slow-process-timed-in-seconds",
     c05.rescale(dict(chain, families=[dict(fam[0], n=8)], x0=[8, 0, 0], params={"k0AB": 1.0, "k0BC": 0.5}, times=[1.25], runs=1000, np_seed=20260936, chunk=250), U))
dump("C05", "seeded-C05-d1-fast-stage-exhausted-slow-stage-left",
     dict(chain, families=[dict(fam[0], n=6)], x0=[6, 0, 0], params={"k0AB": 2.0 ** -20, "k0BC": 2.0 ** -30}, times=[2.0 ** 30], horizon_kind="np_f64", runs=1000,
          np_seed=20260937, chunk=500, x0_form="list_int"))
