#!/usr/bin/env python3
"""re-run checks against one stored seeded change after a check was strengthened:
   tools/seed_recheck.py <seeded id> <checks,comma> ["note on what was strengthened"]
keeps the first result under verified_by_main_session.before_strengthening
   SEED_ALSO_APPLY=<patch file>[,<patch file>] : repairs proposed under proposed_fixes/ that are not yet in /repo and without
   which a check fails on the unchanged tree already (applied to the scratch worktree before the seeded change)"""
import glob, json, os, shutil, subprocess, sys
V = os.path.dirname(os.path.dirname(os.path.abspath(__file__)))
sid, checks = sys.argv[1], sys.argv[2].split(",")
note = sys.argv[3] if len(sys.argv) > 3 else None
d = os.path.join(V, "seeded", sid)
m = json.load(open(os.path.join(d, "meta.json")))
v = m.setdefault("verified_by_main_session", {})
wt = "/tmp/rw/recheck_%s" % sid
subprocess.run(["git", "-C", "/repo", "worktree", "remove", "--force", wt], capture_output=True)
subprocess.run(["git", "-C", "/repo", "worktree", "add", "--detach", wt], check=True, capture_output=True)
try:
    for extra in [x for x in os.environ.get("SEED_ALSO_APPLY", "").split(",") if x]:
        ex = subprocess.run(["git", "-C", wt, "apply", "--whitespace=nowarn", os.path.abspath(extra)], capture_output=True, text=True)
        if ex.returncode != 0:
            print("repair %s does not apply (already in /repo?): %s" % (extra, ex.stderr[:200]))
    ap = subprocess.run(["git", "-C", wt, "apply", "--whitespace=nowarn", os.path.join(d, "patch.diff")], capture_output=True, text=True)
    if ap.returncode != 0:
        # later fix: commits moved the context of some stored patches; the same change re-based on a later HEAD is kept next to it
        rebased = sorted(glob.glob(os.path.join(d, "patch_rebased_*.diff")))
        for rb in rebased[::-1]:
            ap = subprocess.run(["git", "-C", wt, "apply", "--whitespace=nowarn", rb], capture_output=True, text=True)
            if ap.returncode == 0:
                v["applied_patch"] = os.path.basename(rb)
                break
    if ap.returncode != 0:
        print("patch does not apply to /repo HEAD:", ap.stderr[:300]); sys.exit(2)
    old = v.get("checks", {})
    for c in checks:
        r = subprocess.run(["./check", c], cwd=V, env=dict(os.environ, VERIF_REPO=wt), capture_output=True, text=True)
        res = {"exit": r.returncode, "lines": ([l for l in r.stdout.splitlines() if l.startswith("VIOLATION")][:2] + [l[:160] for l in r.stdout.splitlines() if l.startswith("KNOWN")][:3]),
               "summary": (r.stdout.splitlines() or [""])[-1]}
        if c in old and old[c].get("exit") != res["exit"]:
            v.setdefault("before_strengthening", {})[c] = old[c]
        old[c] = res
        print(sid, c, res["exit"], res["lines"][:1])
    v["checks"] = old
    if note:
        m["strengthened"] = note
    json.dump(m, open(os.path.join(d, "meta.json"), "w"), indent=1)
finally:
    subprocess.run(["git", "-C", "/repo", "worktree", "remove", "--force", wt], capture_output=True)
    subprocess.run([sys.executable, os.path.join(V, "tools", "regen.py")], capture_output=True)
