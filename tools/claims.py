# id -> claim text for MANIFEST.json (exec'd by mk_manifest.py)
NOT_CLAIMED = {}
CLAIMS["C01"] = dict(
    text="Proved in Lean for every number of states/events/transitions, every field and every interpretation of the transcendental symbols: "
         "the assembly folds of get_ode_eqn / get_StateChangeMatrix / get_EventRateVector / get_pureOdeVector / get_ReactantMatrix equal "
         "sum_events rate*net + explicit terms, V entries = net magnitudes, ODE = V*a + pure, reactant entries, derived-parameter substitution. "
         "The hand-written model is tied to the code on every run by differential correspondence (symbolic, exact-point 50-digit; numeric evaluators; both back-ends; malformed definitions).",
    note="Trusted: Lean kernel + Mathlib; the harness (generator, printer, interpreter); sympy parser/subs and lambdify/autowrap are validated per case, not proved. "
         "Identity of expressions is decided at 3 random rational points per case.",
    technique="Lean 4 induction over event/transition lists (fold = sum) + model/code correspondence")
