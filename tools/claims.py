# id -> claim text for MANIFEST.json (exec'd by mk_manifest.py)
NOT_CLAIMED = {}
CLAIMS["C01"] = dict(
    text="Proved in Lean for every number of states/events/transitions, every field and every interpretation of the transcendental symbols: "
         "the assembly folds of get_ode_eqn / get_StateChangeMatrix / get_EventRateVector / get_pureOdeVector / get_ReactantMatrix equal "
         "sum_events rate*net + explicit terms, V entries = net magnitudes, ODE = V*a + pure, reactant entries, derived-parameter substitution. "
         "The hand-written model is tied to the code on every run by differential correspondence (symbolic, exact-point 50-digit; numeric evaluators; both back-ends; malformed definitions).",
    note="Trusted: Lean kernel + Mathlib; the harness (generator, printer, interpreter); sympy parser/subs and lambdify/autowrap are validated per case, not proved. "
         "Identity of expressions is decided at 3 random rational points per case.",
    technique="Lean 4 induction over event/transition lists (fold = sum) + model/code correspondence")
CLAIMS["C17"] = dict(
    text="Proved in Lean for every trial stream (= every seed, prior, model, kernel), every N, G, q, M and every get/continue sequence: "
         "a stored particle is the FIRST trial with prior-density product != 0 and cost < tolerance, its stored distance is that trial's cost "
         "(accepted_particle, run_particles); weights w1/w2 are > 0 and finite (weights_pos_finite); under quantile scheduling "
         "tol_{g+1} = Q(dist_g) <= max dist_g < tol_g inside a call and the tolerances never increase along any get/continue sequence "
         "(quantile_tolerances_step, quantile_tolerances_antitone); numpy's linear-interpolation quantile satisfies the one hypothesis used "
         "(quantileLinear_le_maxL); par_order binds the trial vector by name with the 10** back-transform applied exactly once "
         "(par_order_binds_by_name_partial, for loss objects made by create_loss; false for directly built loss objects: "
         "par_order_direct_loss_counterexample; the proposed repair is proved for every loss object: parOrderBy_binds_by_name). "
         "The model is tied to the code on every run by replaying the recorded trial stream of real ABC runs (rejection, tolerance list, quantile, "
         "MNN, continue) through the Lean driver (accept/reject decisions, distances, weights, tolerances, assertions, name binding), and the "
         "property itself is decided on the real attributes by a Lean-independent oracle (scipy prior density > 0, cost recomputed by a loss object "
         "built from scratch equals abc.dist to 1e-9 and is below the generation's tolerance, weights positive finite, tolerances non-increasing).",
    note="Assumed/trusted: np.quantile(l,q) <= max(l) (proved for the linear-interpolation definition, and the real np.quantile is compared with that "
         "definition to 1e-12 on every generation); positivity of the multivariate-normal kernel density (w2 > 0, observed on every accepted trial); "
         "prior densities >= 0 (observed); the recomputation oracle relies on pygom's integrator and loss kernels through a fresh loss object (C02/C06/C14). "
         "Trusted: Lean kernel + Mathlib, the harness recorders (instance-level wrappers), exact float->rational conversion, driver JSON codec. "
         "Known genuine defect on the unrepaired tree: ABC.par_order ignores the order of a directly built loss object "
         "(proposed_fixes/C17-par-order-follows-loss-object.diff).",
    technique="Lean 4 induction over trial streams / generations / call sequences + recorded-stream replay correspondence + recomputation oracle")
CLAIMS["C18"] = dict(
    category="proof",
    text="PARTIAL (the optimiser is assumed). Proved in Lean for every number of parameters: row i of the bounds array handed to the optimiser, "
         "np.reshape(np.append(lb, ub), (n, 2), 'F'), is (lb[i], ub[i]) (box_bounds_rows; with C order it is not: box_bounds_C_counterexample); "
         "if the optimiser returns a point of the box it was given (fit_in_box_partial) and - when the sensitivity it is handed is the gradient of cost, "
         "property C07 - with objective not above the start's, fit(x, lb, ub) returns a point in [lb, ub] with cost <= cost(x) (fit_contract_partial); if it returns its start when the gradient there is below pgtol, fit(theta*) = theta* on "
         "noise-free data (fit_at_truth_partial, fit_at_truth_of_zero_residual via grad_zero_at_truth); mismatched bound lengths are rejected "
         "(fit_rejects_bad_lengths). Tied to the code on every run: scipy.optimize.minimize as seen from base_loss is wrapped and the bounds array, "
         "method, start, fun and jac it receives are compared with the Lean driver exactly; the assumed optimiser contract is observed on every call; "
         "the property itself is decided by a Lean-independent oracle on real fits over catalogue and random models and five loss classes "
         "(result inside the box exactly, recomputed cost(result) <= cost(x)(1+1e-9), fit(theta*) = theta* to 1e-5).",
    note="ASSUMED (not proved): scipy's L-BFGS-B honours its bounds, never returns an objective above the start's when it is handed the true gradient "
         "(with a wrong gradient it does: its line search may end on a warning and the step is accepted), and stops at a start whose "
         "projected gradient is below pgtol = 1e-5. These are hypotheses (BoxDescent, StopsAtStationary) of the Lean theorems and are observed, "
         "not proved, on every generated call. The A-matrix/SLSQP branch of fit is outside the property (it cannot run: np.ndarray(A)). "
         "Trusted: Lean kernel + Mathlib, the harness wrapper of base_loss.minimize, exact float->rational conversion, driver JSON codec; the "
         "recomputation oracle relies on pygom's integrator and loss kernels through a fresh loss object (C02/C06/C14). Genuine defects seen by this check: fit raised for GammaLoss with one "
         "observed state (repaired in /repo, 9a6447c); fit returns a point slightly WORSE than its start for target parameters / observed states "
         "given in non-ascending order, because the gradient handed to L-BFGS-B is permuted (the C07 index-order defect; corpus/C18/"
         "worse-than-start-permuted-target.json; repaired in /repo by 050ae69, the C07 index-order fix).",
    technique="Lean 4 index arithmetic (reshape 'F') + optimiser contract as explicit hypothesis + wrapped-minimize correspondence + recomputation oracle")
