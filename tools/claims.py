# id -> claim text for MANIFEST.json (exec'd by mk_manifest.py)
NOT_CLAIMED = {}
CLAIMS["C01"] = dict(
    text="Proved in Lean for every number of states/events/transitions, every field and every interpretation of the transcendental symbols: "
         "the assembly folds of get_ode_eqn / get_StateChangeMatrix / get_EventRateVector / get_pureOdeVector / get_ReactantMatrix equal "
         "sum_events rate*net + explicit terms, V entries = net magnitudes, ODE = V*a + pure, reactant entries, derived-parameter substitution. "
         "The hand-written model is tied to the code on every run by differential correspondence (symbolic, exact-point 50-digit; numeric evaluators; both back-ends; malformed definitions).",
    note="Trusted: Lean kernel + Mathlib; the harness (generator, printer, interpreter); sympy parser/subs and lambdify/autowrap are validated per case, not proved. "
         "Identity of expressions is decided at 3 random rational points per case.",
    technique="Lean 4 induction over event/transition lists (fold = sum) + model/code correspondence")
CLAIMS["C13"] = dict(
    text="PARTIAL. Proved in Lean for every number of states nS and parameters nP (model lean/Pygom/Sens.lean mirrors ode_and_sensitivity, "
         "ode_and_sensitivityIV, sens_jacobian_state, the *_jacobian block assembly and the vec/mat reshapes as index arithmetic): the augmented "
         "right-hand sides are f, J.S+G and J.S0 in the documented layouts (by parameter, by state, initial values in 'F' order); every entry (r,c) of "
         "ode_and_sensitivity_jacobian (by parameter) and of ode_and_sensitivityIV_jacobian (also nP = 0) is the HasDerivAt-derivative of component r of "
         "the corresponding right-hand side in z_c; the by-state matrix AS CODED is not (counterexample by decide, nS=2, nP=3; confirmed on the real code "
         "against finite differences) while the proposed repair is; reshape round trips. ASSUMED, not proved: that integrating these variational "
         "equations yields dx(t)/dtheta and dx(t)/dx0 (classical smooth-dependence theorem, not in Mathlib) - checked on every run against finite "
         "differences of 1e-12 reference solutions. The model is tied to the code per run: real functions vs the Lean driver on the exact rational "
         "J, G, dJ, dG of each random model, and a Lean-free oracle (explicit-loop J.S+G; Richardson finite differences of the real right-hand sides).",
    note="The derivative theorems take as hypotheses that jacobian/grad/diff_jacobian/grad_jacobian are the partial derivatives they are named after "
         "(C03's theorems; to be discharged there) and that mixed second partials commute (C^2 right-hand side; symmetry of diff_jacobian is re-checked "
         "exactly on every generated model). Trusted: Lean kernel + Mathlib, harness generator/printer/interpreter, driver JSON glue, float tolerances "
         "(1e-9 model tie, 1e-6 finite differences, 1e-5 integrated sensitivities). Defects: by_state=True Jacobian wrong (proposed_fixes/C13-by-state-jacobian.diff), "
         "one-state models raised (fixed 0a7e442).",
    technique="Lean 4: index arithmetic (omega/simp) for layouts, HasDerivAt product rule over finite sums for the block Jacobians, decide for the "
              "counterexample + model/code correspondence + finite-difference oracle")
CLAIMS["C20"] = dict(
    text="Proved in Lean for every number of observations, observed states and free parameters: sens_to_jtj returns "
         "jtj[a][b] = sum_i sum_j w_ij^2 S_ija S_ijb, which is symmetric and positive semi-definite (Mathlib Matrix.PosSemidef). Proved: what the coded "
         "forward-forward right-hand side computes (J.X_ab + sum_kl d2f/dx_k dx_l S_ka S_lb), that the TRUE second-order equation (total derivative of "
         "J.S_a + G_a in theta_b) has three more groups of terms, that the two agree exactly when those vanish, and a counterexample (f = theta*x) showing "
         "the code omits them. Proved: the Hessian assembly as coded has the wrong sign on its second-order term (counterexample) and is the derivative "
         "of gradient only when the second-order sensitivities of the observed states vanish; with the proposed one-line repair it is the derivative of "
         "gradient given second-order sensitivities. Per run, on SIR/SEIR/SIR_norm and random bounded models: jtj vs the sum of outer products of "
         "finite-difference sensitivities of reference solutions, symmetry, eigenvalues; hessian vs central differences of the reference gradient - it must "
         "agree on models without mixed state-parameter second derivatives and otherwise equal the value the Lean model of the code predicts "
         "(known finding C20-hessian-mixed-terms); any other discrepancy is a violation.",
    note="Assumed (as in C13): integrating a sensitivity system yields the derivative of the solution; scipy integrators within tolerance; finite-difference "
         "Hessian of the reference cost accurate to ~1e-6 relative (comparisons at 1e-3). hessian(theta) is NOT claimed to equal the second derivatives of the "
         "cost on models with mixed terms: recorded finding, suppressed only when the observed value matches the model-predicted one. Defects found: sign of the "
         "second-order term (proposed_fixes/C20-hessian-second-order-sign.diff), per-observation weight vector for one observed state raises "
         "(proposed_fixes/C20-weight-vector-single-state.diff); order-related failures depend on the C07 index-order repair (signatures *:sens-index-order).",
    technique="Lean 4: finite-sum algebra, Matrix.posSemidef_conjTranspose_mul_self, HasDerivAt product rule, decide counterexamples + model/code "
              "correspondence + finite-difference oracle + known-finding matching by model-predicted value")
