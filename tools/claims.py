# id -> claim text for MANIFEST.json (exec'd by mk_manifest.py)
NOT_CLAIMED = {}
CLAIMS["C01"] = dict(
    text="Proved in Lean for every number of states/events/transitions, every field and every interpretation of the transcendental symbols: "
         "the assembly folds of get_ode_eqn / get_StateChangeMatrix / get_EventRateVector / get_pureOdeVector / get_ReactantMatrix equal "
         "sum_events rate*net + explicit terms, V entries = net magnitudes, ODE = V*a + pure, reactant entries, derived-parameter substitution. "
         "The hand-written model is tied to the code on every run by differential correspondence (symbolic, exact-point 50-digit; numeric evaluators; both back-ends; malformed definitions).",
    note="Trusted: Lean kernel + Mathlib; the harness (generator, printer, interpreter); sympy parser/subs and lambdify/autowrap are validated per case, not proved. "
         "Identity of expressions is decided at 3 random rational points per case.",
    technique="Lean 4 induction over event/transition lists (fold = sum) + model/code correspondence")
CLAIMS["C04"] = dict(
    text="Proved in Lean about an executable model of firstReaction / tauLeap / _get_adaptive_tau_step / the cython safety loop / _checkJump / the `while t < finalT` "
         "loop of _jump (Pygom/Stoch.lean), for every model (arbitrary rate, state-change, ODE, mean and variance functions, any number of states and events, "
         "one included) and every list of random draws of any length: the path starts at (x0,t0); recorded times are strictly increasing (positive exponential "
         "variates, epsilon>0, positive pre_tau if set; adaptive tau proved positive; the safety loop proved to be the identity); counts are naturals, one per event, "
         "one-hot with a positive-rate event on every first-reaction step (all steps in exact mode) and the first minimal waiting time is the one taken; "
         "x_{k+1}-x_k = V(x_k,t_k).counts_k componentwise, plus pureOde.tau on tau-leap steps; the loop is left exactly at t>=finalT, or when all rates are zero, or when a "
         "first-reaction proposal leaves the limits. Termination in finitely many steps is not proved (probability-one statement; path_exit_partial proves no iteration stalls). "
         "The model is tied to the code on every run: the real solve_stochast is run with every numpy draw and evaluator call recorded and every loop iteration is replayed "
         "through the Lean driver from the observed pre-state (post-state and counts exactly, times/tau to 1e-12).",
    note="Trusted: Lean kernel; the harness (generator, tracer wrapping numpy.random / evaluators / _jump, step cap and rate cap that end explosive runs); numpy's generator "
         "as the source of variates; IEEE double vs exact rationals at 1e-12. Direct oracle independent of Lean: start, finite strictly increasing times, integer counts, "
         "one event per exact step, fired events have positive rate, dx = vMat.counts (+ pureOde.dt), legal exit. Shares the range-style limit-list defect with C11 "
         "(crash by negative rate) until proposed_fixes/C11-range-style-limits.diff is applied.",
    technique="Lean 4 induction over draw lists (step specification + loop invariant) + per-step differential replay of the real run")
CLAIMS["C11"] = dict(
    text="Proved in Lean: _checkJump rejects exactly the proposals that violate an entry of the limit list, returns the old state and time on rejection and the proposed "
         "state and t+dt on acceptance ((None,None) skipped, lower-only, upper-only, two-sided); every state recorded by the _jump loop is within the limit list - exact mode, "
         "adaptive or fixed tau, any epsilon, any magnitudes, with or without the first-reaction retry, for every model and every draw list with no hypothesis on the draws; "
         "the (repaired) limit list has one entry per state, aligned with the state it was declared for (range-style declarations expanded), default (0,None), hence every "
         "state of every row respects its own declared limits. The limit list of the unrepaired tree (one entry per declared name) is proved to accept a forbidden state "
         "(legacy_limits_counterexample) and to misalign later limits. Tie: per-iteration replay of real runs (accept/reject, branch, retry), the limit list itself, and every "
         "rejected step replayed through the public tauLeap / firstReaction with the recorded variates.",
    note="Trusted: Lean kernel; harness generator/tracer. Assumed: x0 within limits; gridded tau-leap rows are numpy's linear interpolation (checked by the direct oracle only). "
         "Direct oracle: min/max of raw and gridded arrays against the declared limits (lower 0 for every undeclared state), rejected steps leave (x,t) unchanged, steps inside "
         "the limits are not rejected. /repo violates the property for range-style state declarations until proposed_fixes/C11-range-style-limits.diff is applied "
         "(then flip nothing; without it set LEGACY_STATE_LIMS=True in harness/props/stoch_common.py to make the model follow the old list).",
    technique="Lean 4 loop invariant over arbitrary draw lists + list-alignment lemmas + differential replay of real runs")
CLAIMS["C15"] = dict(
    text="Proved in Lean about _extractObservationAtTime, numpy's histogram bin convention and the (repaired) _addJumpsBetweenTime: one row per requested time and one "
         "count row per interval; first row = initial state; row k is the record with the last time <= grid[k] (also past the last event); entry (k,i) of the counts is the number "
         "of firings of transition i with event time in numpy's bin k; and for paths with increasing times and increments V.counts (supplied by C04 for every exact-mode run) "
         "row_{k+1}-row_k = V.counts_k componentwise, under the hypothesis the proof forces: no event time coincides with an interior grid point (measure zero; a counterexample "
         "theorem shows it cannot be dropped). The exact-mode histogram of the unrepaired tree is refuted by exact_counts_counterexample. Time-argument normalisation "
         "(number / one-element list = horizon; longer list, tuple, any array = grid). Tie: real solve_stochast(grid, 2, exact=True, full_output=True) with the raw path recorded, rows and "
         "counts against the Lean driver exactly.",
    note="Trusted: Lean kernel; harness generator/tracer. Assumed: state-independent state-change matrix, grid starting at t0 and increasing. Direct oracle: plain last-record "
         "lookup, per-transition event counts per interval, rows differ by vMat.counts. /repo violates the property (exact-mode counts; IndexError for a path without events) until "
         "proposed_fixes/C15-exact-interval-counts.diff and C15-path-without-events.diff are applied (without the first set LEGACY_EXACT_COUNTS=True in harness/props/stoch_common.py).",
    technique="Lean 4 list induction (prefix sums selected by time, sum exchange) + differential replay of real gridded runs")
