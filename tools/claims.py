# id -> claim text for MANIFEST.json (exec'd by mk_manifest.py)
NOT_CLAIMED = {}
CLAIMS["C01"] = dict(
    text="Proved in Lean for every number of states/events/transitions, every field and every interpretation of the transcendental symbols: "
         "the assembly folds of get_ode_eqn / get_StateChangeMatrix / get_EventRateVector / get_pureOdeVector / get_ReactantMatrix equal "
         "sum_events rate*net + explicit terms, V entries = net magnitudes, ODE = V*a + pure, reactant entries, derived-parameter substitution. "
         "The hand-written model is tied to the code on every run by differential correspondence (symbolic, exact-point 50-digit; numeric evaluators; both back-ends; malformed definitions).",
    note="Trusted: Lean kernel + Mathlib; the harness (generator, printer, interpreter); sympy parser/subs and lambdify/autowrap are validated per case, not proved. "
         "Identity of expressions is decided at 3 random rational points per case.",
    technique="Lean 4 induction over event/transition lists (fold = sum) + model/code correspondence")
CLAIMS["C08"] = dict(
    text="Proved in Lean for histories of any length and any interleaving of mutators, parameter assignments and evaluations, and for "
         "any semantics of 'compile then call': in the recompile-flag state machine of add_func / add_compiled_sympy_object / CompileCanary "
         "(snapshot = definition the generator read + argument list _sp at compile time; parameter values read at call time; ode master) "
         "every evaluation returns what a freshly constructed model with the same current definition and parameter values returns, "
         "provided every mutator trips the flags, the param_list/state_list setters refresh _sp, and the evaluator is in the canary's list "
         "(never_stale; never_stale_source for the source as modelled). For the tree as found the partial theorem (bad mutators only before "
         "the first evaluation) and concrete stale histories (add_ode after ode; parameter declared after a compile) are proved. "
         "The model is tied to the code on every run: random histories on the real SimulateOde, all 11 evaluators observed after every step "
         "against a freshly constructed model (direct oracle) and against the version the Lean driver predicts.",
    note="The Lean model (Canary.sourceCfg) describes the tree WITH proposed_fixes/C08-add-ode-trip.diff and C08-decl-setters-refresh-sp.diff applied; "
         "until they are applied ./check C08 reports a VIOLATION on /repo (add_ode, late parameter / state declarations). "
         "Trusted: Lean kernel; harness generator/replay; pymodel route replay; lambda back-end only; 'fresh model' assigns 0 to a parameter "
         "never given a value. Recompile pattern and flag dictionary are compared with the model but recorded only (tags). "
         "DeterministicOde on its own is not covered (it has no compiler object _SC and its canary watches nothing).",
    technique="Lean 4 invariant over operation histories (induction on the op list, abstract compile semantics) + model/code correspondence + fresh-model oracle")
