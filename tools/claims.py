# id -> claim text for MANIFEST.json (exec'd by mk_manifest.py)
NOT_CLAIMED = {}
CLAIMS["C01"] = dict(
    text="Proved in Lean for every number of states/events/transitions, every field and every interpretation of the transcendental symbols: "
         "the assembly folds of get_ode_eqn / get_StateChangeMatrix / get_EventRateVector / get_pureOdeVector / get_ReactantMatrix equal "
         "sum_events rate*net + explicit terms, V entries = net magnitudes, ODE = V*a + pure, reactant entries, derived-parameter substitution. "
         "The hand-written model is tied to the code on every run by differential correspondence (symbolic, exact-point 50-digit; numeric evaluators; both back-ends; malformed definitions).",
    note="Trusted: Lean kernel + Mathlib; the harness (generator, printer, interpreter); sympy parser/subs and lambdify/autowrap are validated per case, not proved. "
         "Identity of expressions is decided at 3 random rational points per case.",
    technique="Lean 4 induction over event/transition lists (fold = sum) + model/code correspondence")
CLAIMS["C09"] = dict(
    text="Proved in Lean for every list of distinct parameter names, every value type and every history of assignments of any length, about a "
         "line-by-line model of the `parameters` setter (insertion-ordered dict with string keys from positional input and symbol keys from pair "
         "lists / dicts, dict input extending the existing dict, the `_paramValue` unroll loop): every acceptable assignment (list/tuple/array of n "
         "numbers, n (name,value) pairs in any order, a dict of at most n known names keyed by name or Symbol) is accepted and changes the "
         "name->value map exactly as the two-line spec says (full assignment replaces every name, partial update overrides only the names it "
         "mentions) - the key invariant being that no entry of the same name follows a symbol-keyed entry, so the later duplicate key wins the "
         "unroll loop; hence `_paramValue[i]` is the latest value supplied for `params[i]` after every history (atomic setter: arbitrary "
         "histories incl. rejected assignments; setter as originally written: histories of accepted assignments, with machine-checked "
         "counterexamples for rejected ones); permutation invariance of pair lists and dicts; all accepted forms agree; wrong lengths, too many "
         "dict entries and unknown names are always rejected.  The model is tied to the code on every run by differential correspondence after "
         "EACH assignment of random mixed-format histories (accept/reject + error kind, the public `parameters` getter, `ode(x,t)` against the "
         "model's `_paramValue`), and a Lean-independent oracle checks `ode`/`grad` against the harness interpreter and a freshly built model "
         "at the values a plain Python dict spec gives each name, that malformed input raises, and that a rejected assignment changes no evaluation.",
    note="Trusted: Lean kernel + Mathlib; the harness (generator, printer, interpreter, the 40-line Python dict spec of the oracle). The setter variant "
         "(does a rejected assignment leave `_parameters`/`_paramValue` touched) is measured on the tree under test by a fixed probe and passed to the "
         "model; both variants are covered by theorems. Documented non-claims (stated as lemmas): a partial update on a never-set model binds the "
         "unmentioned names to 0; a pair list may repeat a name (last wins, the name left out becomes 0); `'t'` resolves as a symbol and is "
         "rejected only by the index lookup; a single-parameter scalar is always rejected (TypeError: unhashable ODEVariable); Symbol names in a "
         "pair list are rejected. Not modelled: frozen-distribution / (callable,args) dict values (C16), ODEVariable parameters whose name differs from their ID.",
    technique="Lean 4 refinement proof (abstraction to a name->value map, representation invariant, induction over histories) + model/code correspondence + direct oracle")
