# id -> claim text for MANIFEST.json (exec'd by mk_manifest.py)
NOT_CLAIMED = {}
CLAIMS["C01"] = dict(
    text="Proved in Lean for every number of states/events/transitions, every field and every interpretation of the transcendental symbols: "
         "the assembly folds of get_ode_eqn / get_StateChangeMatrix / get_EventRateVector / get_pureOdeVector / get_ReactantMatrix equal "
         "sum_events rate*net + explicit terms, V entries = net magnitudes, ODE = V*a + pure, reactant entries, derived-parameter substitution. "
         "The hand-written model is tied to the code on every run by differential correspondence (symbolic, exact-point 50-digit; numeric evaluators; both back-ends; malformed definitions).",
    note="Trusted: Lean kernel + Mathlib; the harness (generator, printer, interpreter); sympy parser/subs and lambdify/autowrap are validated per case, not proved. "
         "Identity of expressions is decided at 3 random rational points per case.",
    technique="Lean 4 induction over event/transition lists (fold = sum) + model/code correspondence")
CLAIMS["C06"] = dict(
    text="PARTIAL - assumed: scipy's integrator returns the ODE solution at the observation times within tolerance (C02 'rows are the flow' + solver accuracy), "
         "and the per-entry kernels are C14's. Proved in Lean for every number of observations n, observed states p and states of the model: "
         "_setWeight_or_spread returns the n x p array whose (i,j) entry is the scalar / x[j] per state / x[i] per observation (p=1) / x[i][j] on every documented shape "
         "(broadcast_spec), succeeds on exactly the numpy shapes (1,), (p,), (n,) with p=1, (n,p), (1,p), (1,1) and a broadcastable (p,1) column (broadcast_accepts_iff), "
         "raises ValueError only for ragged input or a non-broadcastable (p,1) column and AssertionError otherwise (broadcast_error_class); column j of what the kernel sees is "
         "the j-th NAMED state in the order given and row i is time i (solution_selection); with target_param the k-th value is bound to the k-th supplied name (theta_bound_by_name); cost = sum_i sum_j kernel(y_ij, x_i[idxOf name_j], w_ij, spread_ij) (cost_is_loss); "
         "square cost is 0 when the data equal the model values (square_cost_zero_at_truth, any ring). Tied to the code on every run: _setWeight_or_spread and get_state_index "
         "against the Lean driver exactly (accepted and rejected shapes, exception class and site); cost / residual / costIV of the five real loss classes against scipy.stats "
         "log-densities of an independent DOP853 (1e-12) trajectory of the Lean-assembled right-hand side, for 1-3 observed states in any order, every weight / spread shape, "
         "target_param / target_state subsets in any order.",
    note="Trusted: Lean kernel + Mathlib; harness generator and reference (scipy solve_ivp DOP853, scipy.stats); the Lean driver's `assemble` (C01) as the reference right-hand side for random "
         "models, hand-written right-hand sides for the catalogue models (SIR, SEIR, Lotka_Volterra, FitzHugh). Tolerance: 1e-6 x sum|per-entry terms| + effect of a 1e-7 relative "
         "perturbation of the prediction (pygom integrates at 1e-10). Cases whose reference trajectory leaves [0, 100] (population models) are not counted. "
         "Non-claims: Poisson / Gamma / NegBinom costs ignore the weights (as coded); a (p,1) 2-D weight column is read per row (broadcast_column_quirk); costIV with target_param "
         "given, target_state absent and len(target_param)+nS == nP is rejected by the code as ambiguous (skipped, tagged).",
    technique="Lean 4 case analysis of the shape decision tree + list/sum lemmas; model/code correspondence; independent reference integration + scipy.stats densities")
CLAIMS["C07"] = dict(
    text="PARTIAL - assumed: integrating the forward-sensitivity (variational) system yields the derivative of the flow in parameters and initial values (hypothesis hsens; classical, "
         "not in Mathlib), and each kernel's diff_loss times the weight is the derivative of its loss in the prediction (hypothesis hkernel; C14). Proved in Lean (Mathlib HasDerivAt) for every "
         "number of states, parameters, observations, every selection and ORDER of observed states, free parameters and free initial values: the selected sensitivity column for (observed state a, "
         "free variable b) is idx_a + (p_b+1) nS resp. idx_a + (s_b+1+nP) nS at position a + b q (sens_index_spec, sens_index_spec_IV); sens_to_grad of those columns is, entry by entry and in the "
         "order supplied, the derivative of cost / costIV (grad_is_chain_rule, gradIV_is_chain_rule; grad_is_chain_rule_square and _normal discharge the kernel hypothesis for arbitrary weights, "
         "grad_is_chain_rule_unit_weights is the form for Poisson / Gamma / NegBinom). These full theorems are about the REPAIRED index functions (proposed_fixes/C07-index-order.diff, "
         "C07-target-state-index.diff), which is the variant the executable model is switched to (model_variant). For the tree as found (np.sort on the index lists) the full statement is false: "
         "grad_order_counterexample, grad_obs_order_counterexample, target_state_counterexample (decide); grad_is_chain_rule_partial holds for ascending observed states and parameters. "
         "Tied to the code on every run: _getTargetParamIndex / _getTargetParamSensIndex / _getTargetStateSensIndex / sens_to_grad against the Lean driver exactly on integer arrays; "
         "sensitivity / gradient / sensitivityIV / jac (all five classes, five integrator methods, full_output) against Richardson-extrapolated central differences of the independent reference cost "
         "and of pygom's own cost.",
    note="On /repo without proposed_fixes/C07-*.diff this check reports VIOLATION (genuine defects: wrong gradient for observed states not in ascending index order; gradient in sorted instead of supplied "
         "target_param order; sensitivityIV with target_state raises TypeError; a per-observation weight vector with one observed state raises; GammaLoss with one observed state raised until fix 9a6447c) - "
         "see proposed_fixes/C07-*.diff, findings/C07_demo.py, corpus/C07/. Trusted: Lean kernel + Mathlib; harness generator, reference integration, finite differences "
         "(tolerance 1e-4 (1+|fd|) on the 1e-12 reference; 1e-3 (1+|fd|) + 1e-7 scale/h on pygom's own cost). Non-unit weights are exercised for Square and Normal only.",
    technique="Lean 4 + Mathlib HasDerivAt (chain rule over list sums), permutation/sortedness of index lists, decide counterexamples; model/code correspondence; finite-difference oracle")
