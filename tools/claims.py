# id -> claim text for MANIFEST.json (exec'd by mk_manifest.py)
NOT_CLAIMED = {}
CLAIMS["C01"] = dict(
    text="Proved in Lean for every number of states/events/transitions, every field and every interpretation of the transcendental symbols: "
         "the assembly folds of get_ode_eqn / get_StateChangeMatrix / get_EventRateVector / get_pureOdeVector / get_ReactantMatrix equal "
         "sum_events rate*net + explicit terms, V entries = net magnitudes, ODE = V*a + pure, reactant entries, derived-parameter substitution. "
         "The hand-written model is tied to the code on every run by differential correspondence (symbolic, exact-point 50-digit; numeric evaluators; both back-ends; malformed definitions).",
    note="Trusted: Lean kernel + Mathlib; the harness (generator, printer, interpreter); sympy parser/subs and lambdify/autowrap are validated per case, not proved. "
         "Identity of expressions is decided at 3 random rational points per case.",
    technique="Lean 4 induction over event/transition lists (fold = sum) + model/code correspondence")
CLAIMS["C14"] = dict(
    text="Proved in Lean (Mathlib real analysis) about per-observation formulas REGENERATED from loss_type.py / distn.py on every run by a Python-AST "
         "symbolic executor (translate_kernels.py -> lean/Pygom/Gen/Kernels.lean), for all reals in the valid domain (yhat > 0; sigma, shape, k > 0; "
         "y a natural number for the count losses, y > 0 for Gamma): Square loss = squared weighted residual; Normal / Poisson / Gamma / NegBinom loss = "
         "-log of gaussianPDFReal(yhat, sigma^2) / poissonMeasure(yhat){y} / gammaPDFReal(shape, shape/yhat) / the negative-binomial mass "
         "Gamma(k+y)/(Gamma(k) y!) (k/(k+yhat))^k (yhat/(k+yhat))^y; for all five classes diff_loss = HasDerivAt-derivative of the unweighted loss in the "
         "prediction and diff2Loss = derivative of diff_loss; with weights diff_loss = w x that derivative and the Normal loss is the N(0,sigma^2) "
         "nll of the weighted residual (as the code has it); apply_weighting=False = unit weight. The array glue (vector, (n,1), (1,n) inputs; default / "
         "scalar / per-observation spread; weights) is tied per run: real loss/diff_loss/diff2Loss against scipy.stats reference log-densities, 50-digit "
         "mpmath derivatives of independent closed forms, expected shapes, and the translated formula evaluated numerically (translation validation).",
    note="Trusted: Lean kernel + Mathlib; the translator (that the emitted Lean term denotes what the Python expression computes elementwise on reals; it refuses "
         "source outside its subset, which is reported as a broken tie); scipy.stats log-densities as executable references; gammaln(z) read as log Gamma(z) and "
         "st.poisson.logpmf read as its documented closed form; float vs real arithmetic at relative tolerance 1e-8. diff2Loss of Gamma / NegBinom under "
         "NON-unit weights mixes weighted and unweighted terms (Lean remark theorem); the property is about the unweighted loss and is checked at unit weight.",
    technique="Python-AST translator -> generated Lean definitions; Mathlib HasDerivAt / density theorems via canonical closed forms; differential correspondence with scipy / mpmath oracles")
CLAIMS["C19"] = dict(
    text="Proved in Lean by `decide` over tables REGENERATED from utilR/distn.py on every run (translate_wrappers.py -> lean/Pygom/Gen/Wrappers.lean): every d/p/q "
         "function of the nine families (exp, gamma, norm, chisq, unif, beta, pois, binom, nbinom; plain and log; nbinom by prob and by mu, both tails) calls the "
         "pdf/pmf, cdf (sf), ppf (isf) of the scipy.stats family it is named after with R's parameterisation (scale = 1/rate, loc = min & scale = max-min, a = shape, "
         "n = size & p = prob, p = size/(size+mu)); every listed family x kind is present; every generator draws from the generator test_seed prescribes "
         "(None -> global, int/bool -> RandomState(seed), True -> fresh, RandomState -> itself) through the family's numpy method, R-parameterised; for an integer "
         "seed every documented generator is served by RandomState(seed) only (seeded_generators_reproducible). Over the reals: scale=1/rate forms equal Mathlib's "
         "exponentialPDFReal / gammaPDFReal / gaussianPDFReal, the translated nb2pmf is the negative-binomial mass and the mean/size form equals the (n,p) form. "
         "Tied per run: every table row replayed through scipy/numpy against the real function; d/p/q against mpmath closed forms (generalised inverse for discrete "
         "quantiles, p(q(u)) = u, d = dp/dx); each rX twice with the same integer seed with the serving generator recorded; DKW test of 4000 seeded draws.",
    note="Trusted: Lean kernel; the translator and its table printer; scipy.stats methods as implementations of the named families and numpy samplers' laws "
         "(validated per run against closed forms, not proved); numpy RandomState(seed) is a function of the seed. pbeta does not exist in pygom.utilR and rbeta "
         "ignores its seed (not among the documented seeders): noted, not claimed. Until the proposed fixes are applied the check reports the genuine defects "
         "pchisq:returns-pdf, dchisq:raises, dbeta:log-ignored, qpois:log-ignored, runif:int-seed-ignored, pnbinom/qnbinom/rnbinom:stub.",
    technique="Python-AST translator -> generated Lean tables checked by `decide` against a decidable specification; Mathlib density lemmas; differential correspondence with mpmath oracles and recorded generators")
